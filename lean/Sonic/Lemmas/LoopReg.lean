/-
Per-object invariant of the loop model for the IO registry (property C13, GC reachability): an object other than a
timer that has a registered interest (`evR || evW`, i.e. epoll holds a raw pointer to its slot) is held by the IO
registry (`registered`), so its owner stays reachable for the garbage collector until the completion was delivered.
Timers are kept alive by `IO.pendingTimers`, not by the registry.

Same shape as `Lemmas/LoopTimer.lean` (`step_timer`).
-/
import Sonic.Lemmas.LoopInv

namespace Sonic.Model.Loop
open Sonic.Spec.Loop (Ev Ret Res OpKind ObjKind maxDispatch)

def RegOk (o : Obj) : Prop := o.kind ≠ .timer → (o.evR || o.evW) = true → o.registered = true

def RegInv (w : World) : Prop := ∀ o ∈ w.objs, RegOk o

theorem regInv_setObj {w : World} {o' : Obj} (hI : RegInv w) (ho : RegOk o') : RegInv (setObj w o') := by
  intro o hm
  unfold setObj at hm
  simp only [List.mem_map] at hm
  obtain ⟨x, hx, rfl⟩ := hm
  split
  · exact ho
  · exact hI x hx

theorem regInv_objs {w w' : World} (hI : RegInv w) (h : w'.objs = w.objs) : RegInv w' := by
  intro o hm; rw [h] at hm; exact hI o hm

theorem regOk_timer {o : Obj} (h : o.kind = .timer) : RegOk o := fun hk => absurd h hk

theorem regOk_registered {o : Obj} (h : o.registered = true) : RegOk o := fun _ _ => h

theorem regOk_idle {o : Obj} (hr : o.evR = false) (hw : o.evW = false) : RegOk o := by
  intro _ h; rw [hr, hw] at h; cases h

theorem reg_getObj_mem {w : World} {k : Nat} {o : Obj} (h : getObj w k = some o) : o ∈ w.objs := (find_mem h).1

theorem setRead_reg {w : World} {o : Obj} {op : Nat} (hI : RegInv w) : RegInv (setRead w o op) := by
  unfold setRead; split
  · exact regInv_setObj hI (regOk_registered rfl)
  · exact regInv_setObj (regInv_objs hI rfl) (regOk_registered rfl)

theorem setWrite_reg {w : World} {o : Obj} {op : Nat} (hI : RegInv w) : RegInv (setWrite w o op) := by
  unfold setWrite; split
  · exact regInv_setObj hI (regOk_registered rfl)
  · exact regInv_setObj (regInv_objs hI rfl) (regOk_registered rfl)

/-- `DelRead` + `Deregister`: the registry entry survives exactly when the write interest does. -/
theorem delRead_reg {w : World} {o : Obj} (hI : RegInv w) : RegInv (delRead w o) := by
  unfold delRead; split
  · apply regInv_setObj (regInv_objs hI rfl)
    intro _ h
    simpa using h
  · exact hI

theorem delWrite_reg {w : World} {o : Obj} (hI : RegInv w) : RegInv (delWrite w o) := by
  unfold delWrite; split
  · apply regInv_setObj (regInv_objs hI rfl)
    intro _ h
    simpa using h
  · exact hI

theorem armTimer_reg {w : World} {o : Obj} {op : Nat} {rep : Bool} (hI : RegInv w) (hk : o.kind = .timer) :
    RegInv (armTimer w o op rep) := by
  unfold armTimer
  apply regInv_setObj
  · split
    · exact hI
    · exact regInv_objs hI rfl
  · exact regOk_timer hk

theorem closeObj_reg {w : World} {o : Obj} (hI : RegInv w) : RegInv (closeObj w o) := by
  unfold closeObj
  split
  · rename_i hk
    apply regInv_setObj (regInv_objs hI rfl)
    exact regOk_timer (by simpa using hk)
  · apply regInv_setObj (regInv_objs hI rfl)
    exact regOk_idle rfl rfl

theorem applyAfter_reg (w : World) (op : Nat) (a : After) (hI : RegInv w) : RegInv (applyAfter w op a) := by
  cases a with
  | none => exact hI
  | decDisp => exact regInv_objs hI rfl
  | postDone => exact regInv_objs hI rfl
  | timerDone k rep cb =>
    simp only [applyAfter]
    cases hg : getObj w k with
    | none => exact hI
    | some o =>
      simp only
      have ho := hI o (reg_getObj_mem hg)
      repeat' split
      all_goals first
        | exact hI
        | (apply regInv_setObj hI; intro hk h; exact ho hk h)
        | (rename_i hc _ _
           apply armTimer_reg hI
           simp only [Bool.or_eq_true, Bool.not_eq_true', bne_iff_ne, ne_eq, not_or, Decidable.not_not] at hc
           exact hc.2)

theorem cancelStep_reg (w w' : World) (k : Nat) (phase : Phase) (rest : List K) (e : Ev)
    (hI : RegInv w) (h : cancelStep w k phase rest e = some w') : RegInv w' := by
  unfold cancelStep at h
  cases hg : getObj w k with
  | none => simp [hg] at h
  | some o =>
    simp only [hg] at h
    cases e with
    | enter op res n data early =>
      simp only at h
      repeat' split at h
      all_goals first
        | (cases h; done)
        | (cases h; exact regInv_objs (delRead_reg hI) rfl)
        | (cases h; exact regInv_objs (delWrite_reg hI) rfl)
    | ret r =>
      simp only at h
      repeat' split at h
      all_goals first
        | (cases h; done)
        | (cases h; exact regInv_objs hI rfl)
    | _ => simp at h

theorem pollDispatch_reg (w w' : World) (op : Nat) (rest : List K) (hI : RegInv w)
    (h : pollDispatch w op rest = some w') : RegInv w' := by
  unfold pollDispatch at h
  cases hop : getOp w op with
  | none => simp [hop] at h
  | some info =>
    simp only [hop] at h
    split at h
    · repeat' split at h
      all_goals first
        | (cases h; done)
        | (cases h; exact regInv_objs hI rfl)
    · cases hg : getObj w info.obj with
      | none => simp [hg] at h
      | some o =>
        simp only [hg] at h
        repeat' split at h
        all_goals first
          | (cases h; done)
          | (cases h
             rename_i hc
             simp only [Bool.and_eq_true, beq_iff_eq] at hc
             apply regInv_objs (w := setObj { w with pending := w.pending - 1 } { o with evR := false, tstate := .ready }) _ rfl
             apply regInv_setObj (regInv_objs hI rfl)
             exact regOk_timer hc.1.1)
          | (cases h; exact regInv_objs (delRead_reg hI) rfl)
          | (cases h; exact regInv_objs (delWrite_reg hI) rfl)

set_option hygiene false in
macro "reg_branch" : tactic =>
  `(tactic| first
    | (cases h; done)
    | (cases h; exact regInv_objs hI rfl))

/-- **The registry invariant is preserved by every transition of the loop model.** -/
theorem step_reg (w w' : World) (e : Ev) (hI : RegInv w) (h : step w e = some w') : RegInv w' := by
  unfold step at h
  split at h
  · -- object creation: a new object has no interest
    repeat' split at h
    all_goals first
      | (cases h; done)
      | (cases h
         intro o hm
         simp only [List.mem_cons] at hm
         rcases hm with rfl | hm
         · exact regOk_idle rfl rfl
         · exact hI o hm)
  · rename_i op after rest op' hst
    split at h
    · cases h; exact applyAfter_reg _ op after (regInv_objs hI rfl)
    · cases h
  · rename_i k phase rest hst
    exact cancelStep_reg w w' k phase rest _ hI h
  · rename_i op k kind rest op' res n data early hst
    cases hg : getObj w k with
    | none => simp [hg] at h
    | some o =>
      simp only [hg] at h
      repeat' split at h
      all_goals reg_branch
  · rename_i op k kind completed rest r hst
    cases hg : getObj w k with
    | none =>
      simp only [hg] at h
      repeat' split at h
      all_goals reg_branch
    | some o =>
      simp only [hg] at h
      repeat' split at h
      all_goals first
        | reg_branch
        | (cases h; exact regInv_objs (setRead_reg hI) rfl)
        | (cases h; exact regInv_objs (setWrite_reg hI) rfl)
  · rename_i k rest isNil hst
    cases hg : getObj w k with
    | none => simp [hg] at h
    | some o =>
      simp only [hg] at h
      repeat' split at h
      all_goals first
        | reg_branch
        | (cases h; exact regInv_objs (closeObj_reg hI) rfl)
  · rename_i op k rep ticks rest op' res n data early hst
    cases hg : getObj w k with
    | none => simp [hg] at h
    | some o =>
      simp only [hg] at h
      have ho := hI o (reg_getObj_mem hg)
      repeat' split at h
      all_goals first
        | reg_branch
        | (cases h
           apply regInv_objs (w := setObj w { o with cancelled := false }) _ rfl
           apply regInv_setObj hI
           intro hk hh; exact ho hk hh)
  · rename_i op k rep ticks completed rest isNil hst
    cases hg : getObj w k with
    | none => simp [hg] at h
    | some o =>
      simp only [hg] at h
      repeat' split at h
      all_goals first
        | reg_branch
        | (cases h
           rename_i hc
           simp only [Bool.and_eq_true, beq_iff_eq] at hc
           exact regInv_objs (armTimer_reg hI hc.2) rfl)
  · rename_i k rest isNil hst
    cases hg : getObj w k with
    | none => simp [hg] at h
    | some o =>
      simp only [hg] at h
      repeat' split at h
      all_goals first
        | reg_branch
        | (cases h
           rename_i hc _
           simp only [Bool.or_eq_true, Bool.not_eq_true', bne_iff_ne, ne_eq, not_or, Decidable.not_not] at hc
           apply regInv_objs (w := setObj (unsetPending w o) { o with evR := false, cancelled := true, cancels := o.cancels + 1, tstate := .ready }) _ rfl
           apply regInv_setObj (regInv_objs hI rfl)
           exact regOk_timer hc.2)
  · rename_i k rest b hst
    cases hg : getObj w k with
    | none => simp [hg] at h
    | some o =>
      simp only [hg] at h
      repeat' split at h
      all_goals reg_branch
  · repeat' split at h
    all_goals reg_branch
  · rename_i any rest op res n data early hst
    exact pollDispatch_reg w w' op rest hI h
  · repeat' split at h
    all_goals reg_branch
  · repeat' split at h
    all_goals reg_branch
  · repeat' split at h
    all_goals reg_branch
  · reg_branch
  · repeat' split at h
    all_goals first
      | reg_branch
      | (cases h; exact regInv_objs hI (by simp [push]))

/-- The invariant holds along every event history from the empty world. -/
theorem run_reg (w w' : World) (es : List Ev) (hI : RegInv w) (h : run w es = some w') : RegInv w' := by
  induction es generalizing w with
  | nil => simp only [run] at h; cases h; exact hI
  | cons e r ih =>
    simp only [run] at h
    cases hs : step w e with
    | none => simp [hs] at h
    | some w1 =>
      simp only [hs] at h
      exact ih w1 (step_reg w w1 e hI hs) h

theorem regInv_init : RegInv ({} : World) := by intro o hm; cases hm

end Sonic.Model.Loop
