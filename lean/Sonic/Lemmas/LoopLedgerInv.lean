/-
Model-only invariant used by the ledger refinement (`LoopLedgerStep.lean`): what the table of started operations says
about every stored handler, every queued post and every library frame on the stack.
-/
import Sonic.Lemmas.LoopTimer
import Sonic.Lemmas.LoopKinds

namespace Sonic.Model.Loop
open Sonic.Spec.Loop (Ev Ret Res OpKind ObjKind maxDispatch)

/-- lookup in a table of started operations -/
def opIn (ops : List OpInfo) (x : Nat) : Option OpInfo := ops.find? (·.id == x)

theorem getOp_eq (w : World) (x : Nat) : getOp w x = opIn w.ops x := rfl

theorem opIn_cons_fresh {ops : List OpInfo} {i0 : OpInfo} {x : Nat} {info : OpInfo}
    (hf : (opIn ops i0.id).isSome = false) (h : opIn ops x = some info) : opIn (i0 :: ops) x = some info := by
  unfold opIn at *
  simp only [List.find?_cons]
  have hne : (i0.id == x) = false := by
    cases hx : (i0.id == x) with
    | false => rfl
    | true =>
      have : i0.id = x := by simpa using hx
      rw [this, h] at hf; cases hf
  rw [hne]; exact h

theorem opIn_cons_self (ops : List OpInfo) (i0 : OpInfo) : opIn (i0 :: ops) i0.id = some i0 := by
  simp [opIn]

/-- What the table says about the handlers stored in an object's slot. -/
def HObj (ops : List OpInfo) (o : Obj) : Prop :=
  (o.evR = true → ∃ info, opIn ops o.hR = some info ∧ info.obj = o.id ∧ info.kind ≠ .post ∧
      (o.kind = .timer → info.kind.isTimer = true) ∧ (o.kind ≠ .timer → info.kind.isRead = true)) ∧
  (o.evW = true → ∃ info, opIn ops o.hW = some info ∧ info.obj = o.id ∧ info.kind ≠ .post ∧ info.kind.isWrite = true) ∧
  (o.kind = .timer → o.evR = true → o.cancelled = false)

def FrameOk (ops : List OpInfo) : K → Prop
  | .startCall op k kind _ => opIn ops op = some ⟨op, k, kind⟩ ∧ kind.isIO = true
  | .schedCall op k rep _ _ => opIn ops op = some ⟨op, k, if rep then .timerRep else .timerOnce⟩
  | .postCall op => opIn ops op = some ⟨op, 0, .post⟩
  | .user op (.timerDone k true _) => opIn ops op = some ⟨op, k, .timerRep⟩
  | _ => True

structure LInv (w : World) : Prop where
  objs : ∀ o ∈ w.objs, HObj w.ops o
  posts : ∀ p ∈ w.posts, opIn w.ops p = some ⟨p, 0, .post⟩
  frames : ∀ f ∈ w.stack, FrameOk w.ops f

theorem hobj_mono {ops ops' : List OpInfo} (hm : ∀ x info, opIn ops x = some info → opIn ops' x = some info) {o : Obj}
    (h : HObj ops o) : HObj ops' o := by
  refine ⟨fun he => ?_, fun he => ?_, h.2.2⟩
  · obtain ⟨info, h1, h2⟩ := h.1 he; exact ⟨info, hm _ _ h1, h2⟩
  · obtain ⟨info, h1, h2⟩ := h.2.1 he; exact ⟨info, hm _ _ h1, h2⟩

theorem frameOk_mono {ops ops' : List OpInfo} (hm : ∀ x info, opIn ops x = some info → opIn ops' x = some info) {f : K}
    (h : FrameOk ops f) : FrameOk ops' f := by
  cases f with
  | startCall op k kind c => exact ⟨hm _ _ h.1, h.2⟩
  | schedCall op k rep t c => exact hm _ _ h
  | postCall op => exact hm _ _ h
  | user op a =>
    cases a with
    | timerDone k rep cb => cases rep <;> first | trivial | exact hm _ _ h
    | _ => trivial
  | _ => trivial

/-- Objects, posts and the table unchanged; every frame of the new stack is an old frame or satisfies `FrameOk`. -/
theorem linv_same {w w' : World} (hI : LInv w) (ho : w'.objs = w.objs) (hp : w'.posts = w.posts) (hops : w'.ops = w.ops)
    (hst : ∀ f ∈ w'.stack, f ∈ w.stack ∨ FrameOk w.ops f) : LInv w' := by
  refine ⟨?_, ?_, ?_⟩
  · rw [ho, hops]; exact hI.objs
  · rw [hp, hops]; exact hI.posts
  · rw [hops]; intro f hf
    rcases hst f hf with h | h
    · exact hI.frames f h
    · exact h

theorem mem_setObj {w : World} {o' x : Obj} (h : x ∈ (setObj w o').objs) : x = o' ∨ x ∈ w.objs := by
  unfold setObj at h
  simp only [List.mem_map] at h
  obtain ⟨y, hy, rfl⟩ := h
  split
  · exact Or.inl rfl
  · exact Or.inr hy

/-- One object replaced (table, posts unchanged). -/
theorem linv_setObj {w w1 w' : World} {o' : Obj} (hI : LInv w) (h1 : w1.objs = w.objs) (ho : w'.objs = (setObj w1 o').objs)
    (hp : w'.posts = w.posts) (hops : w'.ops = w.ops) (hobj : HObj w.ops o')
    (hst : ∀ f ∈ w'.stack, f ∈ w.stack ∨ FrameOk w.ops f) : LInv w' := by
  refine ⟨?_, ?_, ?_⟩
  · rw [ho, hops]
    intro x hx
    have : x = o' ∨ x ∈ w1.objs := mem_setObj hx
    rcases this with rfl | hm
    · exact hobj
    · rw [h1] at hm; exact hI.objs x hm
  · rw [hp, hops]; exact hI.posts
  · rw [hops]; intro f hf
    rcases hst f hf with h | h
    · exact hI.frames f h
    · exact h

/-! ### Object-level updates -/

theorem hobj_of_getObj {w : World} {k : Nat} {o : Obj} (hI : LInv w) (hg : getObj w k = some o) : HObj w.ops o :=
  hI.objs o (getObj_mem hg)

/-- An update that clears / keeps interests and handlers (never sets a new one). -/
theorem hobj_keep {ops : List OpInfo} {o o' : Obj} (h : HObj ops o) (hid : o'.id = o.id) (hk : o'.kind = o.kind)
    (hR : o'.evR = false ∨ (o'.evR = o.evR ∧ o'.hR = o.hR)) (hW : o'.evW = false ∨ (o'.evW = o.evW ∧ o'.hW = o.hW))
    (hc : o'.evR = true → o'.cancelled = false ∨ o'.cancelled = o.cancelled) : HObj ops o' := by
  refine ⟨fun he => ?_, fun he => ?_, fun hkt he => ?_⟩
  · rcases hR with h1 | ⟨h1, h2⟩
    · rw [h1] at he; cases he
    · rw [h2, hid, hk]; exact h.1 (by rw [← h1]; exact he)
  · rcases hW with h1 | ⟨h1, h2⟩
    · rw [h1] at he; cases he
    · rw [h2, hid]; exact h.2.1 (by rw [← h1]; exact he)
  · rcases hc he with h1 | h1
    · exact h1
    · rcases hR with h2 | ⟨h2, _⟩
      · rw [h2] at he; cases he
      · rw [h1]; exact h.2.2 (by rw [← hk]; exact hkt) (by rw [← h2]; exact he)

/-- The read handler is replaced by operation `op` (interest set). -/
theorem hobj_setR {ops : List OpInfo} {o o' : Obj} {op : Nat} {info : OpInfo} (h : HObj ops o) (hid : o'.id = o.id) (hk : o'.kind = o.kind)
    (hR : o'.evR = true ∧ o'.hR = op) (hW : o'.evW = o.evW ∧ o'.hW = o.hW)
    (hop : opIn ops op = some info) (hobj : info.obj = o.id) (hnp : info.kind ≠ .post)
    (ht : o.kind = .timer → info.kind.isTimer = true ∧ o'.cancelled = false) (hr : o.kind ≠ .timer → info.kind.isRead = true) : HObj ops o' := by
  refine ⟨fun _ => ?_, fun he => ?_, fun hkt _ => ?_⟩
  · rw [hR.2, hid, hk]; exact ⟨info, hop, hobj, hnp, fun hkk => (ht hkk).1, hr⟩
  · rw [hW.2, hid]; exact h.2.1 (by rw [← hW.1]; exact he)
  · exact (ht (by rw [← hk]; exact hkt)).2

theorem hobj_setW {ops : List OpInfo} {o o' : Obj} {op : Nat} {info : OpInfo} (h : HObj ops o) (hid : o'.id = o.id) (hk : o'.kind = o.kind)
    (hnt : o.kind ≠ .timer) (hW : o'.evW = true ∧ o'.hW = op) (hR : o'.evR = o.evR ∧ o'.hR = o.hR)
    (hop : opIn ops op = some info) (hobj : info.obj = o.id) (hnp : info.kind ≠ .post) (hw : info.kind.isWrite = true) : HObj ops o' := by
  refine ⟨fun he => ?_, fun _ => ?_, fun hkt _ => ?_⟩
  · rw [hR.2, hid, hk]; exact h.1 (by rw [← hR.1]; exact he)
  · rw [hW.2, hid]; exact ⟨info, hop, hobj, hnp, hw⟩
  · exact absurd (by rw [← hk]; exact hkt) hnt

theorem setObj_objs_pending (w : World) (p : Int) (o : Obj) : (setObj { w with pending := p } o).objs = (setObj w o).objs := rfl

theorem tail_sub {f : K} {rest st : List K} (hst : st = f :: rest) : ∀ g ∈ rest, g ∈ st ∨ FrameOk ([] : List OpInfo) g := by
  intro g hg; left; rw [hst]; exact List.mem_cons_of_mem _ hg

end Sonic.Model.Loop
