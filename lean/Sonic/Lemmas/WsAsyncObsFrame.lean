/-
The read path handles a frame (`onFrame`): what `handleFrame` queues is what the monitor will note when the frame is
handed to the application (`outcome`), and the coupling invariant is kept (`sim_onframe`).
-/
import Sonic.Lemmas.WsAsyncObsSim

set_option linter.unusedSimpArgs false

namespace Sonic.Model.WsAsyncObs
open Sonic.Model.WsAsync
open Sonic.Spec.WsStream (Bytes StreamState replyCode closeCodeOf u16 isViolation controlOp reservedOp)
open Sonic.Spec.WsAsync (Cb Ev Kind Want WireFrame findCb setCb enterPush failW addW entered deliver replyFor pattern)

/-- What `handleFrame` does with the peer's frame `g` (stream state `ws`, `n`-th frame), against the monitor's rules. -/
structure Outcome (ws : WsState) (n : Nat) (g : CFrame) : Prop where
  failed : (handleOutcome ws n (absFrame g)).2.2 = isViolation g
  wants : ((handleOutcome ws n (absFrame g)).2.1).map (fun fr => (conc none (some g) fr).want) =
            if isViolation g then failW true (stOf ws) .closedByUs .proto else (replyFor (stOf ws) g).toList
  mat : ∀ fr ∈ (handleOutcome ws n (absFrame g)).2.1, (conc none (some g) fr).want.matches (conc none (some g) fr).wf = true
  wsV : isViolation g = true → (handleOutcome ws n (absFrame g)).1 = .closedByUs
  wsOk : isViolation g = false → (handleOutcome ws n (absFrame g)).1 ≠ .terminated
  data : isViolation g = false → controlOp g.op = false →
    (handleOutcome ws n (absFrame g)).1 = ws ∧ (handleOutcome ws n (absFrame g)).2.1 = []
  ctl : isViolation g = false → (absFrame g).op.isControl = controlOp g.op
  ctlShape : isViolation g = false → controlOp g.op = true → g.fin = true ∧ g.rsv = 0 ∧ g.masked = false

theorem opOf_cases (n : Nat) :
    (n = 0 ∧ opOf n = .cont) ∨ (n = 1 ∧ opOf n = .text) ∨ (n = 2 ∧ opOf n = .binary) ∨ (n = 8 ∧ opOf n = .close) ∨
    (n = 9 ∧ opOf n = .ping) ∨ (n = 10 ∧ opOf n = .pong) ∨
    ((n ≠ 0 ∧ n ≠ 1 ∧ n ≠ 2 ∧ n ≠ 8 ∧ n ≠ 9 ∧ n ≠ 10) ∧ opOf n = .reserved) := by
  unfold opOf
  repeat' split
  all_goals simp_all

theorem outcome_bad {ws : WsState} {n : Nat} {g : CFrame} (hws : ws = .active ∨ ws = .closedByUs)
    (hho : handleOutcome ws n (absFrame g) = (.closedByUs, if ws = .active then [⟨.closeViolation n, 8⟩] else [], true))
    (hv : isViolation g = true) : Outcome ws n g := by
  constructor
  · rw [hho, hv]
  · rw [hho, hv]
    rcases hws with rfl | rfl <;> simp [failW, stOf, conc, subClose]
  · rw [hho]
    intro fr hfr
    rcases hws with rfl | rfl
    · simp at hfr; subst hfr; exact matches_close 1002 [] (by simp)
    · simp at hfr
  · intro _; rw [hho]
  · intro h; rw [hv] at h; cases h
  · intro h; rw [hv] at h; cases h
  · intro h; rw [hv] at h; cases h
  · intro h; rw [hv] at h; cases h

/-- a frame that is accepted and answered by nothing (data frames, Pongs) -/
theorem outcome_plain {ws : WsState} {n : Nat} {g : CFrame} (hws : ws = .active ∨ ws = .closedByUs)
    (hho : handleOutcome ws n (absFrame g) = (ws, [], false)) (hv : isViolation g = false)
    (hnr : ∀ last, replyFor last g = none) (hctl : (absFrame g).op.isControl = controlOp g.op)
    (hshape : controlOp g.op = true → g.fin = true ∧ g.rsv = 0 ∧ g.masked = false) : Outcome ws n g := by
  constructor
  · rw [hho, hv]
  · rw [hho, hv, hnr]; rfl
  · rw [hho]; intro fr hfr; cases hfr
  · intro h; rw [hv] at h; cases h
  · intro _; rw [hho]; rcases hws with rfl | rfl <;> simp
  · intro _ _; rw [hho]; exact ⟨rfl, rfl⟩
  · intro _; exact hctl
  · intro _; exact hshape

/-- a control frame that is accepted -/
theorem outcome_reply {ws : WsState} {n : Nat} {g : CFrame} (w1 : WsState) (q : List OutFrame)
    (hho : handleOutcome ws n (absFrame g) = (w1, q, false)) (hv : isViolation g = false) (hw1 : w1 ≠ .terminated)
    (hwants : q.map (fun fr => (conc none (some g) fr).want) = (replyFor (stOf ws) g).toList)
    (hmat : ∀ fr ∈ q, (conc none (some g) fr).want.matches (conc none (some g) fr).wf = true)
    (hc : controlOp g.op = true) (hctl : (absFrame g).op.isControl = true)
    (hshape : g.fin = true ∧ g.rsv = 0 ∧ g.masked = false) : Outcome ws n g := by
  constructor
  · rw [hho, hv]
  · rw [hho, hv]; exact hwants
  · rw [hho]; exact hmat
  · intro h; rw [hv] at h; cases h
  · intro _; rw [hho]; exact hw1
  · intro _ h; rw [hc] at h; cases h
  · intro _; rw [hctl, hc]
  · intro _ _; exact hshape

theorem outcome {ws : WsState} {n : Nat} {g : CFrame} (hcan : ws.canRead = true) : Outcome ws n g := by
  have hws : ws = .active ∨ ws = .closedByUs := by cases ws <;> simp [WsState.canRead] at hcan ⊢
  obtain ⟨fin, rsv, op, masked, payload⟩ := g
  by_cases hvb : (rsv != 0 || masked) = true
  · apply outcome_bad hws
    · simp [handleOutcome, absFrame, hvb]
    · simp only [isViolation]
      simp only [Bool.or_eq_true] at hvb ⊢
      rcases hvb with h | h
      · exact Or.inl (Or.inl (Or.inl h))
      · exact Or.inl (Or.inl (Or.inr h))
  · have hrsv : rsv = 0 := by
      by_cases h : rsv = 0
      · exact h
      · exact absurd (by simp [h]) hvb
    have hmask : masked = false := by
      cases masked with
      | false => rfl
      | true => exact absurd (by simp) hvb
    subst hrsv hmask
    rcases opOf_cases op with ⟨rfl, ho⟩ | ⟨rfl, ho⟩ | ⟨rfl, ho⟩ | ⟨rfl, ho⟩ | ⟨rfl, ho⟩ | ⟨rfl, ho⟩ | ⟨hne, ho⟩
    · -- continuation
      exact outcome_plain hws (by simp [handleOutcome, absFrame, ho, InOp.isControl]) (by simp [isViolation, reservedOp, controlOp])
        (fun last => by simp [replyFor, isViolation, reservedOp, controlOp]) (by simp [absFrame, ho, InOp.isControl, controlOp])
        (fun h => by simp [controlOp] at h)
    · exact outcome_plain hws (by simp [handleOutcome, absFrame, ho, InOp.isControl]) (by simp [isViolation, reservedOp, controlOp])
        (fun last => by simp [replyFor, isViolation, reservedOp, controlOp]) (by simp [absFrame, ho, InOp.isControl, controlOp])
        (fun h => by simp [controlOp] at h)
    · exact outcome_plain hws (by simp [handleOutcome, absFrame, ho, InOp.isControl]) (by simp [isViolation, reservedOp, controlOp])
        (fun last => by simp [replyFor, isViolation, reservedOp, controlOp]) (by simp [absFrame, ho, InOp.isControl, controlOp])
        (fun h => by simp [controlOp] at h)
    · -- close
      by_cases hcf : (!fin || decide (payload.length > 125)) = true
      · apply outcome_bad hws
        · simp only [Bool.or_eq_true, Bool.not_eq_true', decide_eq_true_eq] at hcf
          rcases hcf with h | h <;> simp [handleOutcome, absFrame, ho, InOp.isControl, h]
        · simp only [Bool.or_eq_true, Bool.not_eq_true', decide_eq_true_eq] at hcf
          rcases hcf with h | h <;> simp [isViolation, reservedOp, controlOp, h]
      · simp only [Bool.or_eq_true, Bool.not_eq_true', decide_eq_true_eq, not_or, Bool.not_eq_false, Nat.not_lt] at hcf
        obtain ⟨hfin, hlen⟩ := hcf
        subst hfin
        have hlen' : ¬ (125 < payload.length) := by omega
        have hv : isViolation ⟨true, 0, 8, false, payload⟩ = false := by simp [isViolation, reservedOp, controlOp, hlen']
        rcases hws with rfl | rfl
        · refine outcome_reply .closedByPeer [⟨.closeReply n, if payload.length ≥ 2 && (absFrame ⟨true, 0, 8, false, payload⟩).closeOk then 6 + payload.length else 8⟩]
            (by simp [handleOutcome, absFrame, ho, InOp.isControl, hlen']) hv (by simp) ?_ ?_ (by simp [controlOp])
            (by simp [absFrame, ho, InOp.isControl]) ⟨rfl, rfl, rfl⟩
          · simp [conc, subClose, replyFor, hv, stOf]
          · intro fr hfr
            simp only [List.mem_singleton] at hfr
            subst hfr
            simp only [conc, subClose]
            apply matches_close
            split
            · simp only [List.length_drop]; omega
            · simp
        · exact outcome_reply .closeAcked [] (by simp [handleOutcome, absFrame, ho, InOp.isControl, hlen']) hv (by simp)
            (by simp [replyFor, stOf]) (fun fr hfr => by cases hfr) (by simp [controlOp])
            (by simp [absFrame, ho, InOp.isControl]) ⟨rfl, rfl, rfl⟩
    · -- ping
      by_cases hcf : (!fin || decide (payload.length > 125)) = true
      · apply outcome_bad hws
        · simp only [Bool.or_eq_true, Bool.not_eq_true', decide_eq_true_eq] at hcf
          rcases hcf with h | h <;> simp [handleOutcome, absFrame, ho, InOp.isControl, h]
        · simp only [Bool.or_eq_true, Bool.not_eq_true', decide_eq_true_eq] at hcf
          rcases hcf with h | h <;> simp [isViolation, reservedOp, controlOp, h]
      · simp only [Bool.or_eq_true, Bool.not_eq_true', decide_eq_true_eq, not_or, Bool.not_eq_false, Nat.not_lt] at hcf
        obtain ⟨hfin, hlen⟩ := hcf
        subst hfin
        have hlen' : ¬ (125 < payload.length) := by omega
        have hv : isViolation ⟨true, 0, 9, false, payload⟩ = false := by simp [isViolation, reservedOp, controlOp, hlen']
        rcases hws with rfl | rfl
        · refine outcome_reply .active [⟨.pong n, 6 + payload.length⟩]
            (by simp [handleOutcome, absFrame, ho, InOp.isControl, hlen']) hv (by simp) ?_ ?_ (by simp [controlOp])
            (by simp [absFrame, ho, InOp.isControl]) ⟨rfl, rfl, rfl⟩
          · simp [conc, subExact, replyFor, hv, stOf]
          · intro fr hfr
            simp only [List.mem_singleton] at hfr
            subst hfr
            exact matches_exact ..
        · exact outcome_reply .closedByUs [] (by simp [handleOutcome, absFrame, ho, InOp.isControl, hlen']) hv (by simp)
            (by simp [replyFor, stOf]) (fun fr hfr => by cases hfr) (by simp [controlOp])
            (by simp [absFrame, ho, InOp.isControl]) ⟨rfl, rfl, rfl⟩
    · -- pong
      by_cases hcf : (!fin || decide (payload.length > 125)) = true
      · apply outcome_bad hws
        · simp only [Bool.or_eq_true, Bool.not_eq_true', decide_eq_true_eq] at hcf
          rcases hcf with h | h <;> simp [handleOutcome, absFrame, ho, InOp.isControl, h]
        · simp only [Bool.or_eq_true, Bool.not_eq_true', decide_eq_true_eq] at hcf
          rcases hcf with h | h <;> simp [isViolation, reservedOp, controlOp, h]
      · simp only [Bool.or_eq_true, Bool.not_eq_true', decide_eq_true_eq, not_or, Bool.not_eq_false, Nat.not_lt] at hcf
        obtain ⟨hfin, hlen⟩ := hcf
        subst hfin
        have hlen' : ¬ (125 < payload.length) := by omega
        exact outcome_plain hws (by simp [handleOutcome, absFrame, ho, InOp.isControl, hlen'])
          (by simp [isViolation, reservedOp, controlOp, hlen'])
          (fun last => by simp [replyFor]) (by simp [absFrame, ho, InOp.isControl, controlOp])
          (fun _ => ⟨rfl, rfl, rfl⟩)
    · -- reserved opcode
      apply outcome_bad hws
      · simp [handleOutcome, absFrame, ho, InOp.isControl]
      · simp only [isViolation, reservedOp, controlOp]
        simp
        omega

variable {max : Nat}

theorem eta_ctl {g : CFrame} (h : g.fin = true ∧ g.rsv = 0 ∧ g.masked = false) :
    ({ fin := true, rsv := 0, op := g.op, masked := false, payload := g.payload } : CFrame) = g := by
  obtain ⟨fin, rsv, op, masked, payload⟩ := g
  obtain ⟨h1, h2, h3⟩ := h
  simp only at h1 h2 h3
  subst h1 h2 h3
  rfl

theorem locs_push_invoke {s1 : St} {cb : CbId} {r : Res} {p : CbId × LK}
    (hp : p ∈ locs (push s1 [.invoke cb r true])) : p ∈ locs s1 ∨ p = (cb, .r) := by
  simp only [locs, push, wrK, rdK, List.cons_append, List.nil_append, List.flatMap_cons, taskK, if_true, List.mem_append,
    List.mem_cons, List.not_mem_nil, or_false] at hp ⊢
  rcases hp with ((h | h) | h) | h | h <;> mem_or

theorem locs_handle {s0 : St} {f : InFrame} {p : CbId × LK} (hp : p ∈ locs (handleFrame s0 f).1) : p ∈ locs s0 := hp

/-- **The read path handles a frame**: the coupling is kept; the frames `handleFrame` queues are exactly the obligations the
monitor will note when the frame is handed over. -/
theorem sim_onframe {s0 : St} {o0 : Ob} {m : MS} {g : CFrame} {cb : CbId} {rk : RKind}
    (h0 : Coup max s0 o0 m [g]) (hns : ∀ t ∈ s0.stack, special t = false) (hlast : m.last = stOf s0.ws)
    (hcan : s0.ws.canRead = true) (hkind : compat (kindOf o0 cb) rk.lk)
    (hreader : ∃ b, o0.reader = some (cb, b) ∧ (rk.lk = .f → b = false) ∧ (rk.lk = .m → b = true))
    (hrd0 : s0.rd = none) :
    Coup max (onFrame true s0 cb rk (absFrame g)) (took s0 (onFrame true s0 cb rk (absFrame g)) o0 g) m [] := by
  have O : Outcome s0.ws s0.rx g := outcome hcan
  have hws0 : s0.ws ≠ .terminated := by intro e; rw [e] at hcan; cases hcan
  have hcur0 : o0.cur = none := cur_of_not_special h0.win (head_of_ns hns)
  obtain ⟨b, hb, hbf, hbm⟩ := hreader
  cases rk with
  | frame =>
    have hk : kindOf o0 cb = .read := hkind
    have hbF : b = false := hbf rfl
    have hheld0 : o0.held = [] := (h0.rdr4 (fun cb' e => by rw [hb, hbF] at e; cases e)).1
    have hs' : onFrame true s0 cb .frame (absFrame g) =
        push (handleFrame s0 (absFrame g)).1 [.invoke cb (if isViolation g then .proto else .ok) true] := by
      simp only [onFrame, handleFrame, O.failed]
    rw [hs']
    have hto : took s0 (push (handleFrame s0 (absFrame g)).1 [.invoke cb (if isViolation g then .proto else .ok) true]) o0 g =
        { o0 with sub := o0.sub ++ ((handleOutcome s0.ws s0.rx (absFrame g)).2.1).map (conc none (some g)), held := o0.held,
                  cur := some g } := by
      simp [took, grow, push, handleFrame]
    rw [hto]
    refine coup_onframe (lk := .f) (cb := cb) h0 hns _ [.invoke cb (if isViolation g then .proto else .ok) true] o0.held (some g)
      (by simp [push, handleFrame]) rfl rfl rfl rfl rfl rfl hrd0
      (fun p hp => (locs_push_invoke hp).elim Or.inl (fun h => Or.inr (Or.inl h)))
      hkind ⟨b, hb, hbf, hbm⟩ (Or.inl rfl) O.mat hws0 (by simp [shapeT]) (by simp) (by simp) (by simp) h0.heldOk
      (fun hr => (h0.rdr4 hr).1) (Or.inr rfl) ?_ ?_
    · -- what is pending for the monitor = what handleFrame queued
      simp only [pendW, push, List.cons_append, List.nil_append]
      change enterPush (kindOf o0 cb) m.last _ _ (if (kindOf o0 cb == Kind.read) = true then some g else none) = _
      rw [hk, O.wants, hlast]
      cases hv : isViolation g with
      | true =>
        have := O.wsV hv
        simp only [handleFrame, this, enterPush, resOf, stOf, if_true]
        simp
        rfl
      | false => simp [enterPush, resOf, failW]
    · unfold Window
      simp only [push, List.cons_append, List.nil_append]
      refine ⟨by cases isViolation g <;> simp, fun e => by cases hv : isViolation g <;> simp [hv] at e, ?_, ?_⟩
      · intro _
        refine ⟨hheld0, fun _ => ⟨g, rfl, ?_⟩⟩
        show (handleOutcome s0.ws s0.rx (absFrame g)).1 ≠ .terminated
        cases hv : isViolation g with
        | true => rw [O.wsV hv]; simp
        | false => exact O.wsOk hv
      · intro e
        change kindOf o0 cb = Kind.readMsg at e
        rw [hk] at e
        cases e
  | message room cont =>
    have hk : kindOf o0 cb = .readMsg := hkind
    have hbT : b = true := hbm rfl
    have hr4 : (∀ cb', o0.reader ≠ some (cb', true)) → False := fun hr => hr cb (by rw [hb, hbT])
    -- the window clause of a message read whose callback is entered with result `r` and frame `g` in hand
    have hwinMsg : ∀ (s' : St) (o' : Ob) (r : Res) (rest : List Task), s'.stack = .invoke cb r true :: rest →
        kindOf o' cb = .readMsg → r ≠ .cancelled → r ≠ .eof →
        (r = .ok → ∃ g', o'.cur = some g' ∧ g'.fin = true ∧ controlOp g'.op = false ∧ s'.ws ≠ .terminated) → Window s' o' m := by
      intro s' o' r rest hst hk' h1 h2 h3
      unfold Window
      rw [hst]
      exact ⟨h1, (fun e => absurd e h2), (fun e => by rw [hk'] at e; cases e), (fun _ => h3)⟩
    by_cases hv : isViolation g = true
    · -- the frame breaks a framing rule
      have hs' : onFrame true s0 cb (.message room cont) (absFrame g) =
          push (handleFrame s0 (absFrame g)).1 [.invoke cb .proto true] := by
        simp only [onFrame, handleFrame, O.failed, hv, if_true]
      rw [hs']
      have hto : took s0 (push (handleFrame s0 (absFrame g)).1 [.invoke cb .proto true]) o0 g =
          { o0 with sub := o0.sub ++ ((handleOutcome s0.ws s0.rx (absFrame g)).2.1).map (conc none (some g)), held := o0.held,
                    cur := some g } := by
        simp [took, grow, push, handleFrame]
      rw [hto]
      refine coup_onframe (lk := .m) (cb := cb) h0 hns _ [.invoke cb .proto true] o0.held (some g)
        (by simp [push, handleFrame]) rfl rfl rfl rfl rfl rfl hrd0
        (fun p hp => (locs_push_invoke hp).elim Or.inl (fun h => Or.inr (Or.inl h)))
        hkind ⟨b, hb, hbf, hbm⟩ (Or.inr rfl) O.mat hws0 (by simp [shapeT]) (by simp) (by simp) (by simp) h0.heldOk
        (fun hr => (hr4 hr).elim) (Or.inr rfl) ?_ ?_
      · simp only [pendW, push, List.cons_append, List.nil_append]
        change enterPush (kindOf o0 cb) m.last _ _ (if (kindOf o0 cb == Kind.read) = true then some g else none) = _
        rw [hk, O.wants, hlast, hv]
        have := O.wsV hv
        simp only [handleFrame, this, enterPush, resOf, stOf, if_true]
        simp
        rfl
      · exact hwinMsg _ _ .proto _ rfl hk (by simp) (by simp) (fun e => by cases e)
    · have hvf : isViolation g = false := by simpa using hv
      by_cases hctl : controlOp g.op = true
      · -- a control frame: the control callback, then the read goes on
        have hs' : onFrame true s0 cb (.message room cont) (absFrame g) =
            push (handleFrame s0 (absFrame g)).1 [.ctl, .again cb (.message room cont)] := by
          simp only [onFrame, handleFrame, O.failed, hvf, O.ctl hvf, hctl, Bool.false_eq_true, if_false, if_true]
        rw [hs']
        have hto : took s0 (push (handleFrame s0 (absFrame g)).1 [.ctl, .again cb (.message room cont)]) o0 g =
            { o0 with sub := o0.sub ++ ((handleOutcome s0.ws s0.rx (absFrame g)).2.1).map (conc none (some g)), held := o0.held,
                      cur := some g } := by
          simp [took, grow, push, handleFrame]
        rw [hto]
        refine coup_onframe (lk := .m) (cb := cb) h0 hns _ [.ctl, .again cb (.message room cont)] o0.held (some g)
          (by simp [push, handleFrame]) rfl rfl rfl rfl rfl rfl hrd0
          (fun p hp => by
            simp only [locs, push, handleFrame, wrK, rdK, List.cons_append, List.nil_append, List.flatMap_cons, taskK,
              List.mem_append, List.mem_cons, List.not_mem_nil, or_false, RKind.lk] at hp ⊢
            rcases hp with ((h | h) | h) | h | h <;> mem_or)
          hkind ⟨b, hb, hbf, hbm⟩ (Or.inr rfl) O.mat hws0 (by simp [shapeT]) (by simp [special]) (by simp) (by simp) h0.heldOk
          (fun hr => (hr4 hr).elim) (Or.inr rfl) ?_ ?_
        · simp only [pendW, push, List.cons_append, List.nil_append, Option.getD_some]
          rw [eta_ctl (O.ctlShape hvf hctl), O.wants, hvf, hlast]
          rfl
        · unfold Window
          simp only [push, List.cons_append, List.nil_append]
          exact ⟨g, rfl, hctl, O.wsOk hvf⟩
      · have hcf : controlOp g.op = false := by simpa using hctl
        obtain ⟨hwsd, hqd⟩ := O.data hvf hcf
        have hisc : (absFrame g).op.isControl = false := by rw [O.ctl hvf, hcf]
        -- a callback entry with result `r` and nothing queued
        have plain : ∀ (r : Res), r = .proto ∨ r = .ok ∨ r = .tooBig → (r = .ok → g.fin = true) →
            Coup max (push (handleFrame s0 (absFrame g)).1 [.invoke cb r true])
              (took s0 (push (handleFrame s0 (absFrame g)).1 [.invoke cb r true]) o0 g) m [] := by
          intro r hr hfin
          have hto : took s0 (push (handleFrame s0 (absFrame g)).1 [.invoke cb r true]) o0 g =
              { o0 with sub := o0.sub ++ ((handleOutcome s0.ws s0.rx (absFrame g)).2.1).map (conc none (some g)), held := o0.held,
                        cur := some g } := by
            simp [took, grow, push, handleFrame]
          rw [hto]
          refine coup_onframe (lk := .m) (cb := cb) h0 hns _ [.invoke cb r true] o0.held (some g)
            (by simp [push, handleFrame]) rfl rfl rfl rfl rfl rfl hrd0
            (fun p hp => (locs_push_invoke hp).elim Or.inl (fun h => Or.inr (Or.inl h)))
            hkind ⟨b, hb, hbf, hbm⟩ (Or.inr rfl) O.mat hws0 (by simp [shapeT]) (by simp) (by simp) (by simp) h0.heldOk
            (fun hr => (hr4 hr).elim) (Or.inr rfl) ?_ ?_
          · simp only [pendW, push, List.cons_append, List.nil_append]
            change enterPush (kindOf o0 cb) m.last _ _ (if (kindOf o0 cb == Kind.read) = true then some g else none) = _
            rw [hk, hqd, hlast]
            simp only [handleFrame, hwsd]
            rcases hr with rfl | rfl | rfl <;> cases s0.ws <;> simp [enterPush, failW, resOf, stOf]
          · refine hwinMsg _ _ r _ rfl hk (by rcases hr with rfl | rfl | rfl <;> simp) (by rcases hr with rfl | rfl | rfl <;> simp) ?_
            intro hok
            refine ⟨g, rfl, hfin hok, hcf, ?_⟩
            show (handleOutcome s0.ws s0.rx (absFrame g)).1 ≠ .terminated
            rw [hwsd]; exact hws0
        by_cases hbig : (absFrame g).len > room
        · -- the message does not fit: the library closes (if the stream is still open) and reports
          have hs' : onFrame true s0 cb (.message room cont) (absFrame g) =
              push (asyncClose true (handleFrame s0 (absFrame g)).1 ⟨.closeTooBig s0.rx, 23⟩ .discard) [.invoke cb .tooBig true] := by
            simp only [onFrame, handleFrame, O.failed, hvf, hisc, hbig, Bool.false_eq_true, if_false, if_true]
          rw [hs']
          by_cases hact : s0.ws = .active
          · have hac : asyncClose true (handleFrame s0 (absFrame g)).1 ⟨.closeTooBig s0.rx, 23⟩ .discard =
                asyncFlush true (prepare { (handleFrame s0 (absFrame g)).1 with ws := .closedByUs } ⟨.closeTooBig s0.rx, 23⟩) .discard := by
              have : (handleFrame s0 (absFrame g)).1.ws = .active := by
                show (handleOutcome s0.ws s0.rx (absFrame g)).1 = .active
                rw [hwsd, hact]
              simp [asyncClose, this]
            rw [hac]
            have F := asyncFlush_fl (prepare { (handleFrame s0 (absFrame g)).1 with ws := .closedByUs } ⟨.closeTooBig s0.rx, 23⟩) .discard
            obtain ⟨f1, f2, f3, f4, f5, f6, _, _, f9, f10⟩ := F.fields
            have hnp := asyncFlush_nopush (prepare { (handleFrame s0 (absFrame g)).1 with ws := .closedByUs } ⟨.closeTooBig s0.rx, 23⟩)
              .discard (by simp [prepare])
            have hsub : (asyncFlush true (prepare { (handleFrame s0 (absFrame g)).1 with ws := .closedByUs } ⟨.closeTooBig s0.rx, 23⟩) .discard).submitted =
                s0.submitted ++ [⟨.closeTooBig s0.rx, 23⟩] := by
              rw [f2]; simp [prepare, handleFrame, hqd]
            have hto : took s0 (push (asyncFlush true (prepare { (handleFrame s0 (absFrame g)).1 with ws := .closedByUs }
                  ⟨.closeTooBig s0.rx, 23⟩) .discard) [.invoke cb .tooBig true]) o0 g =
                { o0 with sub := o0.sub ++ [(⟨.closeTooBig s0.rx, 23⟩ : OutFrame)].map (conc none (some g)), held := o0.held,
                          cur := some g } := by
              simp only [took, grow, push, hsub, drop_self_append, List.cons_append, List.nil_append]
            rw [hto]
            refine coup_onframe (lk := .m) (cb := cb) h0 hns [⟨.closeTooBig s0.rx, 23⟩] [.invoke cb .tooBig true] o0.held (some g)
              hsub (by simp only [push, hnp]; rfl) f3 f4 f5 f6 f9 (f10.trans hrd0)
              (fun p hp => by
                rcases locs_push_invoke hp with h | h
                · rcases F.rdl p h with h2 | h2
                  · exact Or.inl h2
                  · cases h2
                · exact Or.inr (Or.inl h))
              hkind ⟨b, hb, hbf, hbm⟩ (Or.inr rfl)
              (fun fr hfr => by
                rw [List.mem_singleton.1 hfr]
                exact matches_close 1001 tooBigReason (by decide))
              hws0 (by simp [shapeT]) (by simp) (by simp) (by simp) h0.heldOk
              (fun hr => (hr4 hr).elim) (Or.inr rfl) ?_ ?_
            · simp only [pendW, push, List.cons_append, List.nil_append]
              change enterPush (kindOf o0 cb) m.last _ _ (if (kindOf o0 cb == Kind.read) = true then some g else none) = _
              rw [hk, hlast, f1, hact]
              simp [enterPush, failW, resOf, stOf, prepare, conc, subClose]
              rfl
            · exact hwinMsg _ _ .tooBig _ rfl hk (by simp) (by simp) (fun e => by cases e)
          · have hac : asyncClose true (handleFrame s0 (absFrame g)).1 ⟨.closeTooBig s0.rx, 23⟩ .discard =
                (handleFrame s0 (absFrame g)).1 := by
              have : (handleFrame s0 (absFrame g)).1.ws = .closedByUs := by
                show (handleOutcome s0.ws s0.rx (absFrame g)).1 = .closedByUs
                rw [hwsd]
                cases hw : s0.ws <;> simp_all [WsState.canRead]
              simp [asyncClose, this]
            rw [hac]
            exact plain .tooBig (Or.inr (Or.inr rfl)) (fun e => by cases e)
        · by_cases hbad : (if cont then (absFrame g).op != .cont else (absFrame g).op == .cont) = true
          · have hs' : onFrame true s0 cb (.message room cont) (absFrame g) =
                push (handleFrame s0 (absFrame g)).1 [.invoke cb .proto true] := by
              simp only [onFrame, handleFrame, O.failed, hvf, hisc, hbig, hbad, Bool.false_eq_true, if_false, if_true]
            rw [hs']
            exact plain .proto (Or.inl rfl) (fun e => by cases e)
          · by_cases hfin : (absFrame g).fin = true
            · have hs' : onFrame true s0 cb (.message room cont) (absFrame g) =
                  push (handleFrame s0 (absFrame g)).1 [.invoke cb .ok true] := by
                simp only [onFrame, handleFrame, O.failed, hvf, hisc, hbig, hbad, hfin, Bool.false_eq_true, if_false, if_true]
              rw [hs']
              exact plain .ok (Or.inr (Or.inl rfl)) (fun _ => hfin)
            · -- a fragment: the read goes on
              have hfin' : g.fin = false := by simpa [absFrame] using hfin
              have hs' : onFrame true s0 cb (.message room cont) (absFrame g) =
                  push (handleFrame s0 (absFrame g)).1 [.again cb (.message (room - (absFrame g).len) true)] := by
                simp only [onFrame, handleFrame, O.failed, hvf, hisc, hbig, hbad, hfin, Bool.false_eq_true, if_false, if_true]
              rw [hs']
              have hto : took s0 (push (handleFrame s0 (absFrame g)).1 [.again cb (.message (room - (absFrame g).len) true)]) o0 g =
                  { o0 with sub := o0.sub ++ ((handleOutcome s0.ws s0.rx (absFrame g)).2.1).map (conc none (some g)),
                            held := o0.held ++ [g], cur := none } := by
                simp [took, grow, push, handleFrame]
              rw [hto]
              refine coup_onframe (lk := .m) (cb := cb) h0 hns _ [.again cb (.message (room - (absFrame g).len) true)]
                (o0.held ++ [g]) none
                (by simp [push, handleFrame]) rfl rfl rfl rfl rfl rfl hrd0
                (fun p hp => by
                  simp only [locs, push, handleFrame, wrK, rdK, List.cons_append, List.nil_append, List.flatMap_cons, taskK,
                    List.mem_append, List.mem_cons, List.not_mem_nil, or_false, RKind.lk] at hp ⊢
                  rcases hp with ((h | h) | h) | h | h <;> mem_or)
                hkind ⟨b, hb, hbf, hbm⟩ (Or.inr rfl) O.mat hws0 (by simp [shapeT]) (by simp) (by simp) (by simp) ?_
                (fun hr => (hr4 hr).elim) ?_ ?_ ?_
              · intro x hx
                rcases List.mem_append.1 hx with h1 | h1
                · exact h0.heldOk x h1
                · rw [List.mem_singleton.1 h1]; exact ⟨hcf, hfin'⟩
              · left
                show m.last = stOf (handleOutcome s0.ws s0.rx (absFrame g)).1
                rw [hwsd]; exact hlast
              · simp only [pendW, push, List.cons_append, List.nil_append, hqd, List.map_nil]
              · unfold Window
                simp only [push, List.cons_append, List.nil_append]

end Sonic.Model.WsAsyncObs
