/-
The read path handles a frame (`onFrame`): what `handleFrame` queues is what the monitor will note when the frame is
handed to the application (`outcome`), and the coupling invariant is kept (`sim_onframe`).
-/
import Sonic.Lemmas.WsAsyncObsSim

set_option linter.unusedSimpArgs false

namespace Sonic.Model.WsAsyncObs
open Sonic.Model.WsAsync
open Sonic.Spec.WsStream (Bytes StreamState replyCode closeCodeOf u16 isViolation controlOp reservedOp)
open Sonic.Spec.WsAsync (Cb Ev Kind Want WireFrame findCb setCb enterPush failW addW entered deliver replyFor pattern)

/-- What `handleFrame` does with the peer's frame `g` (stream state `ws`, `n`-th frame), against the monitor's rules. -/
structure Outcome (ws : WsState) (n : Nat) (g : CFrame) : Prop where
  failed : (handleOutcome ws n (absFrame g)).2.2 = isViolation g
  wants : ((handleOutcome ws n (absFrame g)).2.1).map (fun fr => (conc none (some g) fr).want) =
            if isViolation g then failW true (stOf ws) .closedByUs .proto else (replyFor (stOf ws) g).toList
  mat : ∀ fr ∈ (handleOutcome ws n (absFrame g)).2.1, (conc none (some g) fr).want.matches (conc none (some g) fr).wf = true
  wsV : isViolation g = true → (handleOutcome ws n (absFrame g)).1 = .closedByUs
  wsOk : isViolation g = false → (handleOutcome ws n (absFrame g)).1 ≠ .terminated
  data : isViolation g = false → controlOp g.op = false →
    (handleOutcome ws n (absFrame g)).1 = ws ∧ (handleOutcome ws n (absFrame g)).2.1 = []
  ctl : isViolation g = false → (absFrame g).op.isControl = controlOp g.op
  ctlShape : isViolation g = false → controlOp g.op = true → g.fin = true ∧ g.rsv = 0 ∧ g.masked = false

theorem opOf_cases (n : Nat) :
    (n = 0 ∧ opOf n = .cont) ∨ (n = 1 ∧ opOf n = .text) ∨ (n = 2 ∧ opOf n = .binary) ∨ (n = 8 ∧ opOf n = .close) ∨
    (n = 9 ∧ opOf n = .ping) ∨ (n = 10 ∧ opOf n = .pong) ∨
    ((n ≠ 0 ∧ n ≠ 1 ∧ n ≠ 2 ∧ n ≠ 8 ∧ n ≠ 9 ∧ n ≠ 10) ∧ opOf n = .reserved) := by
  unfold opOf
  repeat' split
  all_goals simp_all

theorem outcome_bad {ws : WsState} {n : Nat} {g : CFrame} (hws : ws = .active ∨ ws = .closedByUs)
    (hho : handleOutcome ws n (absFrame g) = (.closedByUs, if ws = .active then [⟨.closeViolation n, 8⟩] else [], true))
    (hv : isViolation g = true) : Outcome ws n g := by
  constructor
  · rw [hho, hv]
  · rw [hho, hv]
    rcases hws with rfl | rfl <;> simp [failW, stOf, conc, subClose]
  · rw [hho]
    intro fr hfr
    rcases hws with rfl | rfl
    · simp at hfr; subst hfr; exact matches_close 1002 [] (by simp)
    · simp at hfr
  · intro _; rw [hho]
  · intro h; rw [hv] at h; cases h
  · intro h; rw [hv] at h; cases h
  · intro h; rw [hv] at h; cases h
  · intro h; rw [hv] at h; cases h

/-- a frame that is accepted and answered by nothing (data frames, Pongs) -/
theorem outcome_plain {ws : WsState} {n : Nat} {g : CFrame} (hws : ws = .active ∨ ws = .closedByUs)
    (hho : handleOutcome ws n (absFrame g) = (ws, [], false)) (hv : isViolation g = false)
    (hnr : ∀ last, replyFor last g = none) (hctl : (absFrame g).op.isControl = controlOp g.op)
    (hshape : controlOp g.op = true → g.fin = true ∧ g.rsv = 0 ∧ g.masked = false) : Outcome ws n g := by
  constructor
  · rw [hho, hv]
  · rw [hho, hv, hnr]; rfl
  · rw [hho]; intro fr hfr; cases hfr
  · intro h; rw [hv] at h; cases h
  · intro _; rw [hho]; rcases hws with rfl | rfl <;> simp
  · intro _ _; rw [hho]; exact ⟨rfl, rfl⟩
  · intro _; exact hctl
  · intro _; exact hshape

/-- a control frame that is accepted -/
theorem outcome_reply {ws : WsState} {n : Nat} {g : CFrame} (w1 : WsState) (q : List OutFrame)
    (hho : handleOutcome ws n (absFrame g) = (w1, q, false)) (hv : isViolation g = false) (hw1 : w1 ≠ .terminated)
    (hwants : q.map (fun fr => (conc none (some g) fr).want) = (replyFor (stOf ws) g).toList)
    (hmat : ∀ fr ∈ q, (conc none (some g) fr).want.matches (conc none (some g) fr).wf = true)
    (hc : controlOp g.op = true) (hctl : (absFrame g).op.isControl = true)
    (hshape : g.fin = true ∧ g.rsv = 0 ∧ g.masked = false) : Outcome ws n g := by
  constructor
  · rw [hho, hv]
  · rw [hho, hv]; exact hwants
  · rw [hho]; exact hmat
  · intro h; rw [hv] at h; cases h
  · intro _; rw [hho]; exact hw1
  · intro _ h; rw [hc] at h; cases h
  · intro _; rw [hctl, hc]
  · intro _ _; exact hshape

theorem outcome {ws : WsState} {n : Nat} {g : CFrame} (hcan : ws.canRead = true) : Outcome ws n g := by
  have hws : ws = .active ∨ ws = .closedByUs := by cases ws <;> simp [WsState.canRead] at hcan ⊢
  obtain ⟨fin, rsv, op, masked, payload⟩ := g
  by_cases hvb : (rsv != 0 || masked) = true
  · apply outcome_bad hws
    · simp [handleOutcome, absFrame, hvb]
    · simp only [isViolation]
      simp only [Bool.or_eq_true] at hvb ⊢
      rcases hvb with h | h
      · exact Or.inl (Or.inl (Or.inl h))
      · exact Or.inl (Or.inl (Or.inr h))
  · have hrsv : rsv = 0 := by
      by_cases h : rsv = 0
      · exact h
      · exact absurd (by simp [h]) hvb
    have hmask : masked = false := by
      cases masked with
      | false => rfl
      | true => exact absurd (by simp) hvb
    subst hrsv hmask
    rcases opOf_cases op with ⟨rfl, ho⟩ | ⟨rfl, ho⟩ | ⟨rfl, ho⟩ | ⟨rfl, ho⟩ | ⟨rfl, ho⟩ | ⟨rfl, ho⟩ | ⟨hne, ho⟩
    · -- continuation
      exact outcome_plain hws (by simp [handleOutcome, absFrame, ho, InOp.isControl]) (by simp [isViolation, reservedOp, controlOp])
        (fun last => by simp [replyFor, isViolation, reservedOp, controlOp]) (by simp [absFrame, ho, InOp.isControl, controlOp])
        (fun h => by simp [controlOp] at h)
    · exact outcome_plain hws (by simp [handleOutcome, absFrame, ho, InOp.isControl]) (by simp [isViolation, reservedOp, controlOp])
        (fun last => by simp [replyFor, isViolation, reservedOp, controlOp]) (by simp [absFrame, ho, InOp.isControl, controlOp])
        (fun h => by simp [controlOp] at h)
    · exact outcome_plain hws (by simp [handleOutcome, absFrame, ho, InOp.isControl]) (by simp [isViolation, reservedOp, controlOp])
        (fun last => by simp [replyFor, isViolation, reservedOp, controlOp]) (by simp [absFrame, ho, InOp.isControl, controlOp])
        (fun h => by simp [controlOp] at h)
    · -- close
      by_cases hcf : (!fin || decide (payload.length > 125)) = true
      · apply outcome_bad hws
        · simp only [Bool.or_eq_true, Bool.not_eq_true', decide_eq_true_eq] at hcf
          rcases hcf with h | h <;> simp [handleOutcome, absFrame, ho, InOp.isControl, h]
        · simp only [Bool.or_eq_true, Bool.not_eq_true', decide_eq_true_eq] at hcf
          rcases hcf with h | h <;> simp [isViolation, reservedOp, controlOp, h]
      · simp only [Bool.or_eq_true, Bool.not_eq_true', decide_eq_true_eq, not_or, Bool.not_eq_false, Nat.not_lt] at hcf
        obtain ⟨hfin, hlen⟩ := hcf
        subst hfin
        have hlen' : ¬ (125 < payload.length) := by omega
        have hv : isViolation ⟨true, 0, 8, false, payload⟩ = false := by simp [isViolation, reservedOp, controlOp, hlen']
        rcases hws with rfl | rfl
        · refine outcome_reply .closedByPeer [⟨.closeReply n, if payload.length ≥ 2 && (absFrame ⟨true, 0, 8, false, payload⟩).closeOk then 6 + payload.length else 8⟩]
            (by simp [handleOutcome, absFrame, ho, InOp.isControl, hlen']) hv (by simp) ?_ ?_ (by simp [controlOp])
            (by simp [absFrame, ho, InOp.isControl]) ⟨rfl, rfl, rfl⟩
          · simp [conc, subClose, replyFor, hv, stOf]
          · intro fr hfr
            simp only [List.mem_singleton] at hfr
            subst hfr
            simp only [conc, subClose]
            apply matches_close
            split
            · simp only [List.length_drop]; omega
            · simp
        · exact outcome_reply .closeAcked [] (by simp [handleOutcome, absFrame, ho, InOp.isControl, hlen']) hv (by simp)
            (by simp [replyFor, stOf]) (fun fr hfr => by cases hfr) (by simp [controlOp])
            (by simp [absFrame, ho, InOp.isControl]) ⟨rfl, rfl, rfl⟩
    · -- ping
      by_cases hcf : (!fin || decide (payload.length > 125)) = true
      · apply outcome_bad hws
        · simp only [Bool.or_eq_true, Bool.not_eq_true', decide_eq_true_eq] at hcf
          rcases hcf with h | h <;> simp [handleOutcome, absFrame, ho, InOp.isControl, h]
        · simp only [Bool.or_eq_true, Bool.not_eq_true', decide_eq_true_eq] at hcf
          rcases hcf with h | h <;> simp [isViolation, reservedOp, controlOp, h]
      · simp only [Bool.or_eq_true, Bool.not_eq_true', decide_eq_true_eq, not_or, Bool.not_eq_false, Nat.not_lt] at hcf
        obtain ⟨hfin, hlen⟩ := hcf
        subst hfin
        have hlen' : ¬ (125 < payload.length) := by omega
        have hv : isViolation ⟨true, 0, 9, false, payload⟩ = false := by simp [isViolation, reservedOp, controlOp, hlen']
        rcases hws with rfl | rfl
        · refine outcome_reply .active [⟨.pong n, 6 + payload.length⟩]
            (by simp [handleOutcome, absFrame, ho, InOp.isControl, hlen']) hv (by simp) ?_ ?_ (by simp [controlOp])
            (by simp [absFrame, ho, InOp.isControl]) ⟨rfl, rfl, rfl⟩
          · simp [conc, subExact, replyFor, hv, stOf]
          · intro fr hfr
            simp only [List.mem_singleton] at hfr
            subst hfr
            exact matches_exact ..
        · exact outcome_reply .closedByUs [] (by simp [handleOutcome, absFrame, ho, InOp.isControl, hlen']) hv (by simp)
            (by simp [replyFor, stOf]) (fun fr hfr => by cases hfr) (by simp [controlOp])
            (by simp [absFrame, ho, InOp.isControl]) ⟨rfl, rfl, rfl⟩
    · -- pong
      by_cases hcf : (!fin || decide (payload.length > 125)) = true
      · apply outcome_bad hws
        · simp only [Bool.or_eq_true, Bool.not_eq_true', decide_eq_true_eq] at hcf
          rcases hcf with h | h <;> simp [handleOutcome, absFrame, ho, InOp.isControl, h]
        · simp only [Bool.or_eq_true, Bool.not_eq_true', decide_eq_true_eq] at hcf
          rcases hcf with h | h <;> simp [isViolation, reservedOp, controlOp, h]
      · simp only [Bool.or_eq_true, Bool.not_eq_true', decide_eq_true_eq, not_or, Bool.not_eq_false, Nat.not_lt] at hcf
        obtain ⟨hfin, hlen⟩ := hcf
        subst hfin
        have hlen' : ¬ (125 < payload.length) := by omega
        exact outcome_plain hws (by simp [handleOutcome, absFrame, ho, InOp.isControl, hlen'])
          (by simp [isViolation, reservedOp, controlOp, hlen'])
          (fun last => by simp [replyFor]) (by simp [absFrame, ho, InOp.isControl, controlOp])
          (fun _ => ⟨rfl, rfl, rfl⟩)
    · -- reserved opcode
      apply outcome_bad hws
      · simp [handleOutcome, absFrame, ho, InOp.isControl]
      · simp only [isViolation, reservedOp, controlOp]
        simp
        omega

end Sonic.Model.WsAsyncObs
