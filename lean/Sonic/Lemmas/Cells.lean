import Sonic.Spec.Bip
namespace Sonic.Spec.Bip

theorem mem_cells {c lo len : Int} : c ∈ cells lo len ↔ lo ≤ c ∧ c < lo + len := by
  unfold cells
  simp only [List.mem_map, List.mem_range]
  constructor
  · rintro ⟨i, hi, rfl⟩; omega
  · intro h; exact ⟨(c - lo).toNat, by omega, by omega⟩

@[simp] theorem length_cells (lo len : Int) : (cells lo len).length = len.toNat := by
  simp [cells]

theorem cells_nonpos {lo len : Int} (h : len ≤ 0) : cells lo len = [] := by
  unfold cells
  have : len.toNat = 0 := by omega
  simp [this]

theorem cells_succ {lo len : Int} (h : 0 < len) : cells lo len = lo :: cells (lo + 1) (len - 1) := by
  unfold cells
  obtain ⟨k, hk⟩ : ∃ k : Nat, len.toNat = k + 1 := ⟨len.toNat - 1, by omega⟩
  have h2 : (len - 1).toNat = k := by omega
  rw [hk, h2, List.range_succ_eq_map]
  simp only [List.map_cons, List.map_map]
  congr 1
  · simp
  · apply List.map_congr_left; intro a _; simp only [Function.comp]; omega

theorem cells_append {lo a b : Int} (ha : 0 ≤ a) (hb : 0 ≤ b) :
    cells lo a ++ cells (lo + a) b = cells lo (a + b) := by
  generalize hk : a.toNat = k
  induction k generalizing lo a with
  | zero =>
    have : a = 0 := by omega
    subst this; simp [cells_nonpos (Int.le_refl 0)]
  | succ k ih =>
    have ha' : 0 < a := by omega
    rw [cells_succ ha', cells_succ (by omega : 0 < a + b)]
    simp only [List.cons_append]
    congr 1
    have := @ih (lo + 1) (a - 1) (by omega) (by omega)
    rw [show lo + 1 + (a - 1) = lo + a by omega, show a - 1 + b = a + b - 1 by omega] at this
    exact this

theorem drop_cells {lo len n : Int} (hn : 0 ≤ n) (hl : n ≤ len) :
    (cells lo len).drop n.toNat = cells (lo + n) (len - n) := by
  have h := @cells_append lo n (len - n) hn (by omega)
  rw [show n + (len - n) = len by omega] at h
  rw [← h, List.drop_append_of_le_length (by simp)]
  simp

theorem runLen_le (l : List Int) : runLen l ≤ l.length := by
  induction l with
  | nil => simp [runLen]
  | cons x r ih =>
    cases r with
    | nil => simp [runLen]
    | cons y r' =>
      unfold runLen; split
      · simp only [List.length_cons] at ih ⊢; omega
      · simp

/-- The first contiguous run of `cells lo len ++ rest` is exactly `cells lo len` when `rest` does not
continue at `lo + len`. -/
theorem runLen_cells_append {lo len : Int} {rest : List Int} (hl : 0 < len)
    (hr : rest.head? ≠ some (lo + len)) : runLen (cells lo len ++ rest) = len.toNat := by
  generalize hk : len.toNat = k
  induction k generalizing lo len with
  | zero => omega
  | succ k ih =>
    rw [cells_succ hl]
    by_cases h1 : len = 1
    · subst h1
      simp only [Int.sub_self, cells_nonpos (Int.le_refl 0), List.cons_append, List.nil_append]
      cases rest with
      | nil => simp [runLen] at *; omega
      | cons y r =>
        unfold runLen
        simp only [List.head?_cons, ne_eq, Option.some.injEq] at hr
        rw [if_neg hr]; omega
    · have hl' : 0 < len - 1 := by omega
      have := @ih (lo + 1) (len - 1) hl' (by rw [show lo + 1 + (len - 1) = lo + len by omega]; exact hr) (by omega)
      rw [cells_succ hl'] at this ⊢
      simp only [List.cons_append] at this ⊢
      unfold runLen
      rw [if_pos rfl, this]; omega

theorem head?_cells {lo len : Int} (hl : 0 < len) (rest : List Int) :
    (cells lo len ++ rest).head? = some lo := by
  rw [cells_succ hl]; simp

end Sonic.Spec.Bip
