/-
Two small invariants of the loop model used by the exactly-once theorem: the table of started operations only
grows (an id keeps its kind for ever), and a "repeating timer callback" frame is only ever pushed for an operation
whose recorded kind is `timerRep`.
-/
import Sonic.Lemmas.LoopOnceStep

namespace Sonic.Model.Loop
open Sonic.Spec.Loop (Ev Ret Res OpKind ObjKind maxDispatch)

theorem getOp_cons_fresh {w : World} {op x : Nat} {info i0 : OpInfo} (hf : (getOp w op).isSome = false)
    (h : getOp w x = some info) (hid : i0.id = op) : getOp { w with ops := i0 :: w.ops } x = some info := by
  unfold getOp at *
  simp only [List.find?_cons]
  have hne : (i0.id == x) = false := by
    rw [hid]
    cases hx : (op == x) with
    | false => rfl
    | true =>
      have : op = x := by simpa using hx
      subst this; rw [h] at hf; cases hf
  rw [hne]; exact h

def TimerFrame (op k c : Nat) : K := .user op (.timerDone k true c)

/-- Frames of repeating-timer callbacks belong to operations recorded as repeating timers. -/
def KindOk (w : World) : Prop :=
  ∀ op k c, TimerFrame op k c ∈ w.stack → ∃ info, getOp w op = some info ∧ info.kind = .timerRep

set_option hygiene false in
macro "kinds_branch" : tactic =>
  `(tactic| first
    | (cases h; done)
    | (cases h
       refine ⟨fun x info hx => hx, fun op k c hm => ?_⟩
       try simp only [TimerFrame, hst, List.mem_cons, K.user.injEq, After.timerDone.injEq, reduceCtorEq, false_and, false_or,
         and_false, or_false, setObj_stack, unsetPending_stack] at hm ⊢
       first
         | exact Or.inl hm
         | exact Or.inl (Or.inr hm)
         | (rcases hm with hm | hm <;> first | exact Or.inl (Or.inr hm) | exact Or.inl hm | (simp at hm))))

theorem cancelStep_kinds (w w' : World) (k : Nat) (phase : Phase) (rest : List K) (e : Ev)
    (hst : w.stack = .cancelCall k phase :: rest) (h : cancelStep w k phase rest e = some w') :
    (∀ x info, getOp w x = some info → getOp w' x = some info) ∧
    (∀ op k c, TimerFrame op k c ∈ w'.stack → TimerFrame op k c ∈ w.stack ∨ ∃ info, getOp w op = some info ∧ info.kind = .timerRep) := by
  unfold cancelStep at h
  cases hg : getObj w k with
  | none => simp [hg] at h
  | some o =>
    simp only [hg] at h
    cases e with
    | enter op res n data early =>
      simp only at h
      repeat' split at h
      all_goals first
        | (cases h; done)
        | (cases h
           refine ⟨fun x info hx => by simpa [getOp] using hx, fun op0 k0 c0 hm => ?_⟩
           simp only [TimerFrame, List.mem_cons, K.user.injEq, reduceCtorEq, and_false, false_or] at hm
           rw [hst]; exact Or.inl (List.mem_cons_of_mem _ hm))
    | ret r =>
      simp only at h
      repeat' split at h
      all_goals first
        | (cases h; done)
        | (cases h
           refine ⟨fun x info hx => hx, fun op0 k0 c0 hm => ?_⟩
           rw [hst]; exact Or.inl (List.mem_cons_of_mem _ hm))
    | _ => simp at h

theorem pollDispatch_kinds (w w' : World) (op : Nat) (any : Bool) (rest : List K)
    (hst : w.stack = .pollCall any :: rest) (h : pollDispatch w op rest = some w') :
    (∀ x info, getOp w x = some info → getOp w' x = some info) ∧
    (∀ op k c, TimerFrame op k c ∈ w'.stack → TimerFrame op k c ∈ w.stack ∨ ∃ info, getOp w op = some info ∧ info.kind = .timerRep) := by
  unfold pollDispatch at h
  cases hop : getOp w op with
  | none => simp [hop] at h
  | some info =>
    simp only [hop] at h
    have old : ∀ (st : List K) (op0 k0 c0 : Nat), TimerFrame op0 k0 c0 ∈ st → (∀ f ∈ st, f ∈ rest ∨ f = .pollCall true ∨ ∃ a, f = .user op a ∧ ∀ k c, a ≠ .timerDone k true c) →
        TimerFrame op0 k0 c0 ∈ w.stack := by
      intro st op0 k0 c0 hm hall
      rcases hall _ hm with h1 | h1 | ⟨a, h1, h2⟩
      · rw [hst]; exact List.mem_cons_of_mem _ h1
      · simp [TimerFrame] at h1
      · simp only [TimerFrame, K.user.injEq] at h1; exact absurd h1.2.symm (h2 k0 c0)
    split at h
    · -- posted handler
      repeat' split at h
      all_goals first
        | (cases h; done)
        | (cases h
           refine ⟨fun x i hx => hx, fun op0 k0 c0 hm => Or.inl (old _ op0 k0 c0 hm ?_)⟩
           intro f hf
           simp only [List.mem_cons] at hf
           rcases hf with rfl | rfl | hf
           · exact Or.inr (Or.inr ⟨_, rfl, by intro k c; simp⟩)
           · exact Or.inr (Or.inl rfl)
           · exact Or.inl hf)
    · cases hg : getObj w info.obj with
      | none => simp [hg] at h
      | some o =>
        simp only [hg] at h
        split at h
        · -- timer
          split at h
          · cases h
            refine ⟨fun x i hx => hx, fun op0 k0 c0 hm => ?_⟩
            simp only [TimerFrame, List.mem_cons, K.user.injEq, After.timerDone.injEq, reduceCtorEq, false_or, beq_iff_eq] at hm
            rcases hm with ⟨rfl, _, hk⟩ | hm
            · exact Or.inr ⟨info, hop, by simpa using hk.1.symm⟩
            · rw [hst]; exact Or.inl (List.mem_cons_of_mem _ hm)
          · cases h
        · repeat' split at h
          all_goals first
            | (cases h; done)
            | (cases h
               refine ⟨fun x i hx => by simpa [getOp] using hx, fun op0 k0 c0 hm => Or.inl (old _ op0 k0 c0 hm ?_)⟩
               intro f hf
               simp only [List.mem_cons] at hf
               rcases hf with rfl | rfl | hf
               · exact Or.inr (Or.inr ⟨_, rfl, by intro k c; simp⟩)
               · exact Or.inr (Or.inl rfl)
               · exact Or.inl hf)

/-- What one step does to the operation table and to repeating-timer frames. -/
theorem step_kinds (w w' : World) (e : Ev) (h : step w e = some w') :
    (∀ x info, getOp w x = some info → getOp w' x = some info) ∧
    (∀ op k c, TimerFrame op k c ∈ w'.stack → TimerFrame op k c ∈ w.stack ∨ ∃ info, getOp w op = some info ∧ info.kind = .timerRep) := by
  unfold step at h
  split at h
  · rename_i k kind hst
    repeat' split at h
    all_goals kinds_branch
  · rename_i op after rest op' hst
    split at h
    · cases h
      have hs : ∀ a, (applyAfter { w with stack := rest } op a).stack = rest ∧
          (applyAfter { w with stack := rest } op a).ops = w.ops := by
        intro a
        cases a with
        | timerDone k rep cb =>
          simp only [applyAfter]
          cases getObj { w with stack := rest } k with
          | none => exact ⟨rfl, rfl⟩
          | some o => simp only; repeat' split
                      all_goals first | exact ⟨rfl, rfl⟩ | exact ⟨by simp, by simp⟩
        | _ => exact ⟨rfl, rfl⟩
      refine ⟨fun x info hx => ?_, fun op0 k c0 hm => ?_⟩
      · unfold getOp at hx ⊢; rw [(hs after).2]; exact hx
      · rw [(hs after).1] at hm; rw [hst]; exact Or.inl (List.mem_cons_of_mem _ hm)
    · cases h
  · rename_i k phase rest hst
    exact cancelStep_kinds w w' k phase rest _ hst h
  · rename_i op k kind rest op' res n data early hst
    cases hg : getObj w k with
    | none => simp [hg] at h
    | some o =>
      simp only [hg] at h
      repeat' split at h
      all_goals kinds_branch
  · rename_i op k kind completed rest r hst
    cases hg : getObj w k with
    | none =>
      simp only [hg] at h
      repeat' split at h
      all_goals kinds_branch
    | some o =>
      simp only [hg] at h
      repeat' split at h
      all_goals first
        | kinds_branch
        | (cases h
           refine ⟨fun x info hx => by simpa [getOp] using hx, fun op0 k0 c0 hm => ?_⟩
           rw [hst]; exact Or.inl (List.mem_cons_of_mem _ (by simpa using hm)))
  · rename_i k rest isNil hst
    cases hg : getObj w k with
    | none => simp [hg] at h
    | some o =>
      simp only [hg] at h
      repeat' split at h
      all_goals first
        | kinds_branch
        | (cases h
           have hs : (closeObj w o).stack = w.stack ∧ (closeObj w o).ops = w.ops := by unfold closeObj; split <;> exact ⟨rfl, rfl⟩
           refine ⟨fun x info hx => by unfold getOp at hx ⊢; rw [hs.2]; exact hx, fun op0 k0 c0 hm => ?_⟩
           rw [hst]; exact Or.inl (List.mem_cons_of_mem _ hm))
  · rename_i op k rep ticks rest op' res n data early hst
    cases hg : getObj w k with
    | none => simp [hg] at h
    | some o =>
      simp only [hg] at h
      repeat' split at h
      all_goals kinds_branch
  · rename_i op k rep ticks completed rest isNil hst
    cases hg : getObj w k with
    | none => simp [hg] at h
    | some o =>
      simp only [hg] at h
      repeat' split at h
      all_goals first
        | kinds_branch
        | (cases h
           refine ⟨fun x info hx => by simpa [getOp] using hx, fun op0 k0 c0 hm => ?_⟩
           rw [hst]; exact Or.inl (List.mem_cons_of_mem _ (by simpa using hm)))
  · rename_i k rest isNil hst
    cases hg : getObj w k with
    | none => simp [hg] at h
    | some o =>
      simp only [hg] at h
      repeat' split at h
      all_goals kinds_branch
  · rename_i k rest b hst
    cases hg : getObj w k with
    | none => simp [hg] at h
    | some o =>
      simp only [hg] at h
      repeat' split at h
      all_goals kinds_branch
  · rename_i op rest isNil hst
    repeat' split at h
    all_goals kinds_branch
  · -- the poller dispatches a handler: the only place a repeating-timer frame is pushed
    rename_i any rest op res n data early hst
    exact pollDispatch_kinds w w' op any rest hst h
  · rename_i any rest n res hst
    repeat' split at h
    all_goals kinds_branch
  · rename_i any rest n hst
    repeat' split at h
    all_goals kinds_branch
  · rename_i rest p q d hst
    repeat' split at h
    all_goals kinds_branch
  · rename_i rest r hst
    kinds_branch
  · -- calls made from user code: the table grows by a fresh id
    repeat' split at h
    all_goals first
      | (cases h; done)
      | (rename_i h1 h2
         cases h
         refine ⟨fun x info hx => getOp_cons_fresh ?_ hx rfl, fun op0 k0 c0 hm => ?_⟩
         · first
             | (simp only [Bool.or_eq_true, not_or, Bool.not_eq_true] at h2; exact h2.1.1)
             | (simp only [Bool.or_eq_true, not_or, Bool.not_eq_true] at h1; exact h1.1.1)
             | (simp only [Bool.or_eq_true, not_or, Bool.not_eq_true] at h2; exact h2.1)
             | (simp only [Bool.or_eq_true, not_or, Bool.not_eq_true] at h1; exact h1.1)
             | (simpa using h2)
             | (simpa using h1)
         · simp only [TimerFrame, List.mem_cons, reduceCtorEq, false_or] at hm
           exact Or.inl hm)
      | (cases h
         refine ⟨fun x info hx => hx, fun op0 k0 c0 hm => ?_⟩
         simp only [TimerFrame, push, List.mem_cons, reduceCtorEq, false_or] at hm
         exact Or.inl hm)
      | (cases h
         rename_i hst
         refine ⟨fun x info hx => hx, fun op0 k0 c0 hm => ?_⟩
         rw [hst]; exact Or.inl (List.mem_cons_of_mem _ hm))

end Sonic.Model.Loop
