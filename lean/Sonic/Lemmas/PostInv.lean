/-
Invariant of the Post interleaving model, preserved by every step of every thread.
-/
import Sonic.Model.Post

namespace Sonic.Model.Post

def holdsP (p : Poster) : Prop := p.pc = .locked ∨ p.pc = .appended
/-- appended, but the eventfd write has not happened yet -/
def sigP (p : Poster) : Prop := p.pc = .appended ∨ p.pc = .unlocked

structure Inv (s : St) : Prop where
  /-- execution order = append order; every appended handler is in exactly one place -/
  fifo : s.executed ++ s.batch ++ s.posts = s.postedLog
  batchEmpty : (s.lpc = .waiting ∨ s.lpc = .draining ∨ s.lpc = .wantLock ∨ s.lpc = .swapping) → s.batch = []
  swapEmpty : s.lpc = .unlocking → s.posts = []
  mutexP : ∀ i, holdsP (s.posters i) ↔ s.holder = some (some i)
  mutexL : (s.lpc = .swapping ∨ s.lpc = .unlocking ∨ (s.lpc = .inHandler ∧ holdsP s.nest)) ↔ s.holder = some none
  nestIdle : s.lpc ≠ .inHandler → s.nest.pc = .idle
  /-- no lost wake-up -/
  wake : s.posts ≠ [] → s.counter > 0 ∨ (∃ i, sigP (s.posters i)) ∨ (s.lpc = .inHandler ∧ sigP s.nest)
            ∨ s.lpc = .wantLock ∨ s.lpc = .swapping
  pend : s.pending = s.posts.length + s.batch.length + (if s.lpc = .inHandler ∨ s.lpc = .decrementing then 1 else 0)

theorem posterStep_cases {s s' : St} {me : Option Nat} {p p' : Poster} (h : posterStep s me p = some (s', p')) :
    (p.pc = .idle ∧ ∃ hd rest, p.todo = hd :: rest ∧ s.holder = none ∧ s' = { s with holder := some me } ∧
        p' = { todo := rest, pc := .locked, cur := hd })
    ∨ (p.pc = .locked ∧ s' = { s with posts := s.posts ++ [p.cur], postedLog := s.postedLog ++ [p.cur], pending := s.pending + 1 } ∧
        p' = { p with pc := .appended })
    ∨ (p.pc = .appended ∧ s' = { s with holder := none } ∧ p' = { p with pc := .unlocked })
    ∨ (p.pc = .unlocked ∧ s' = { s with counter := s.counter + 1 } ∧ p' = { p with pc := .idle }) := by
  unfold posterStep at h
  split at h
  · rename_i hpc
    split at h
    · cases h
    · rename_i hd rest htodo
      split at h
      · rename_i hh
        cases h
        exact Or.inl ⟨hpc, hd, rest, htodo, hh, rfl, rfl⟩
      · cases h
  · rename_i hpc; cases h; exact Or.inr (Or.inl ⟨hpc, rfl, rfl⟩)
  · rename_i hpc; cases h; exact Or.inr (Or.inr (Or.inl ⟨hpc, rfl, rfl⟩))
  · rename_i hpc; cases h; exact Or.inr (Or.inr (Or.inr ⟨hpc, rfl, rfl⟩))

theorem init_inv (progs : Nat → List H) : Inv (init progs) where
  fifo := rfl
  batchEmpty := fun _ => rfl
  swapEmpty := fun h => by cases h
  mutexP := by intro i; simp [init, holdsP]
  mutexL := by simp [init, holdsP]
  nestIdle := fun _ => rfl
  wake := fun h => absurd rfl h
  pend := by simp [init]

/-- A posting thread `i` takes a step. -/
theorem poster_step_inv {s s1 : St} {i : Nat} {p' : Poster} (hI : Inv s)
    (h : posterStep s (some i) (s.posters i) = some (s1, p')) : Inv (setPoster s1 i p') := by
  have hpi : ∀ j, (setPoster s1 i p').posters j = if j = i then p' else s1.posters j := fun _ => rfl
  rcases posterStep_cases h with ⟨hpc, hd, rest, _, hfree, rfl, rfl⟩ | ⟨hpc, rfl, rfl⟩ | ⟨hpc, rfl, rfl⟩ | ⟨hpc, rfl, rfl⟩
  · -- idle → locked: takes the free mutex
    have hnotL : ¬ (s.lpc = .swapping ∨ s.lpc = .unlocking ∨ (s.lpc = .inHandler ∧ holdsP s.nest)) := by
      intro hh; have := hI.mutexL.1 hh; rw [hfree] at this; cases this
    refine ⟨hI.fifo, hI.batchEmpty, hI.swapEmpty, ?_, ?_, hI.nestIdle, ?_, hI.pend⟩
    · intro j
      simp only [setPoster]
      by_cases hj : j = i
      · subst hj; simp [holdsP]
      · simp only [hj, if_false]
        constructor
        · intro hh; have := (hI.mutexP j).1 hh; rw [hfree] at this; cases this
        · intro hh; simp only [Option.some.injEq] at hh; exact absurd hh.symm hj
    · constructor
      · intro hh; exact absurd hh hnotL
      · intro hh; cases hh
    · intro hne
      rcases hI.wake hne with h1 | ⟨j, hj⟩ | h3 | h4 | h5
      · exact Or.inl h1
      · refine Or.inr (Or.inl ⟨j, ?_⟩)
        simp only [setPoster]
        by_cases hji : j = i
        · subst hji; exact absurd hj (by simp [sigP, hpc])
        · simp only [hji, if_false]; exact hj
      · exact Or.inr (Or.inr (Or.inl h3))
      · exact Or.inr (Or.inr (Or.inr (Or.inl h4)))
      · exact Or.inr (Or.inr (Or.inr (Or.inr h5)))
  · -- locked → appended: append + pending++
    have hhold : s.holder = some (some i) := (hI.mutexP i).1 (Or.inl hpc)
    have hnotL : ¬ (s.lpc = .swapping ∨ s.lpc = .unlocking ∨ (s.lpc = .inHandler ∧ holdsP s.nest)) := by
      intro hh; have := hI.mutexL.1 hh; rw [hhold] at this; cases this
    refine ⟨?_, hI.batchEmpty, ?_, ?_, hI.mutexL, hI.nestIdle, ?_, ?_⟩
    · show s.executed ++ s.batch ++ (s.posts ++ [(s.posters i).cur]) = s.postedLog ++ [(s.posters i).cur]
      rw [← hI.fifo]; simp [List.append_assoc]
    · intro hu; exact absurd (Or.inr (Or.inl hu)) hnotL
    · intro j
      simp only [setPoster]
      by_cases hj : j = i
      · subst hj; simp only [if_true]; constructor
        · intro _; exact hhold
        · intro _; exact Or.inr rfl
      · simp only [hj, if_false]; exact hI.mutexP j
    · intro _
      refine Or.inr (Or.inl ⟨i, ?_⟩)
      simp [setPoster, sigP]
    · show s.pending + 1 = ((s.posts ++ [(s.posters i).cur]).length : Int) + s.batch.length +
        (if s.lpc = .inHandler ∨ s.lpc = .decrementing then 1 else 0)
      rw [hI.pend, List.length_append, List.length_singleton]; push_cast; omega
  · -- appended → unlocked: releases the mutex
    have hhold : s.holder = some (some i) := (hI.mutexP i).1 (Or.inr hpc)
    have hnotL : ¬ (s.lpc = .swapping ∨ s.lpc = .unlocking ∨ (s.lpc = .inHandler ∧ holdsP s.nest)) := by
      intro hh; have := hI.mutexL.1 hh; rw [hhold] at this; cases this
    refine ⟨hI.fifo, hI.batchEmpty, hI.swapEmpty, ?_, ?_, hI.nestIdle, ?_, hI.pend⟩
    · intro j
      simp only [setPoster]
      by_cases hj : j = i
      · subst hj; simp [holdsP]
      · simp only [hj, if_false]
        constructor
        · intro hh; have := (hI.mutexP j).1 hh; rw [hhold] at this
          simp only [Option.some.injEq] at this; exact absurd this.symm hj
        · intro hh; cases hh
    · constructor
      · intro hh; exact absurd hh hnotL
      · intro hh; cases hh
    · intro _
      refine Or.inr (Or.inl ⟨i, ?_⟩)
      simp [setPoster, sigP]
  · -- unlocked → idle: wakes the loop
    refine ⟨hI.fifo, hI.batchEmpty, hI.swapEmpty, ?_, hI.mutexL, hI.nestIdle, ?_, hI.pend⟩
    · intro j
      simp only [setPoster]
      by_cases hj : j = i
      · subst hj; simp only [if_true]
        constructor
        · intro hh; simp [holdsP] at hh
        · intro hh; have := (hI.mutexP j).2 hh; simp [holdsP, hpc] at this
      · simp only [hj, if_false]; exact hI.mutexP j
    · intro _; exact Or.inl (Nat.succ_pos _)

/-- The loop thread, inside a handler, takes a `Post` step (nested Post). -/
theorem nest_step_inv {s s1 : St} {p' : Poster} (hI : Inv s) (hl : s.lpc = .inHandler)
    (h : posterStep s none s.nest = some (s1, p')) : Inv { s1 with nest := p' } := by
  rcases posterStep_cases h with ⟨hpc, hd, rest, _, hfree, rfl, rfl⟩ | ⟨hpc, rfl, rfl⟩ | ⟨hpc, rfl, rfl⟩ | ⟨hpc, rfl, rfl⟩
  · refine ⟨hI.fifo, hI.batchEmpty, hI.swapEmpty, ?_, ?_, fun hne => absurd hl hne, ?_, hI.pend⟩
    · intro j; constructor
      · intro hh; have := (hI.mutexP j).1 hh; rw [hfree] at this; cases this
      · intro hh; cases hh
    · constructor
      · intro _; rfl
      · intro _; exact Or.inr (Or.inr ⟨hl, Or.inl rfl⟩)
    · intro hne
      rcases hI.wake hne with h1 | h2 | ⟨_, h3⟩ | h4 | h5
      · exact Or.inl h1
      · exact Or.inr (Or.inl h2)
      · simp [sigP, hpc] at h3
      · exact Or.inr (Or.inr (Or.inr (Or.inl h4)))
      · exact Or.inr (Or.inr (Or.inr (Or.inr h5)))
  · have hhold : s.holder = some none := hI.mutexL.1 (Or.inr (Or.inr ⟨hl, Or.inl hpc⟩))
    refine ⟨?_, hI.batchEmpty, ?_, hI.mutexP, ?_, fun hne => absurd hl hne, ?_, ?_⟩
    · show s.executed ++ s.batch ++ (s.posts ++ [s.nest.cur]) = s.postedLog ++ [s.nest.cur]
      rw [← hI.fifo]; simp [List.append_assoc]
    · intro hu; rw [hl] at hu; cases hu
    · constructor
      · intro _; exact hhold
      · intro _; exact Or.inr (Or.inr ⟨hl, Or.inr rfl⟩)
    · intro _; exact Or.inr (Or.inr (Or.inl ⟨hl, Or.inl rfl⟩))
    · show s.pending + 1 = ((s.posts ++ [s.nest.cur]).length : Int) + s.batch.length +
        (if s.lpc = .inHandler ∨ s.lpc = .decrementing then 1 else 0)
      rw [hI.pend, List.length_append, List.length_singleton]; push_cast; omega
  · refine ⟨hI.fifo, hI.batchEmpty, hI.swapEmpty, ?_, ?_, fun hne => absurd hl hne, ?_, hI.pend⟩
    · have hhold : s.holder = some none := hI.mutexL.1 (Or.inr (Or.inr ⟨hl, Or.inr hpc⟩))
      intro j; constructor
      · intro hh; have := (hI.mutexP j).1 hh; rw [hhold] at this; cases this
      · intro hh; cases hh
    · constructor
      · intro hh
        rcases hh with h1 | h1 | ⟨_, h1⟩
        · rw [hl] at h1; cases h1
        · rw [hl] at h1; cases h1
        · simp [holdsP] at h1
      · intro hh; cases hh
    · intro _; exact Or.inr (Or.inr (Or.inl ⟨hl, Or.inr rfl⟩))
  · refine ⟨hI.fifo, hI.batchEmpty, hI.swapEmpty, hI.mutexP, ?_, fun hne => absurd hl hne, ?_, hI.pend⟩
    · constructor
      · intro hh
        rcases hh with h1 | h1 | ⟨_, h1⟩
        · rw [hl] at h1; cases h1
        · rw [hl] at h1; cases h1
        · simp [holdsP] at h1
      · intro hh
        rcases hI.mutexL.2 hh with h1 | h1 | ⟨_, h1⟩
        · rw [hl] at h1; cases h1
        · rw [hl] at h1; cases h1
        · simp [holdsP, hpc] at h1
    · intro _; exact Or.inl (Nat.succ_pos _)

/-- Every step of every thread preserves the invariant. -/
theorem step_inv (nested : H → List H) {s s' : St} (t : Option Nat) (hI : Inv s) (h : step nested s t = some s') : Inv s' := by
  cases t with
  | some i =>
    simp only [step] at h
    cases hp : posterStep s (some i) (s.posters i) with
    | none => simp [hp] at h
    | some r =>
      obtain ⟨s1, p'⟩ := r
      simp only [hp, Option.some.injEq] at h
      subst h
      exact poster_step_inv hI hp
  | none =>
    simp only [step] at h
    cases hl : s.lpc with
    | waiting =>
      simp only [hl] at h
      split at h
      · cases h
        refine ⟨hI.fifo, fun _ => hI.batchEmpty (Or.inl hl), (fun hu => by cases hu), hI.mutexP, ?_, (fun _ => hI.nestIdle (by rw [hl]; simp)), ?_, ?_⟩
        · constructor
          · intro hh; rcases hh with h1 | h1 | ⟨h1, _⟩ <;> cases h1
          · intro hh; rcases hI.mutexL.2 hh with h1 | h1 | ⟨h1, _⟩ <;> rw [hl] at h1 <;> cases h1
        · intro hne
          rcases hI.wake hne with h1 | h2 | ⟨h3, _⟩ | h4 | h5
          · exact Or.inl h1
          · exact Or.inr (Or.inl h2)
          · rw [hl] at h3; cases h3
          · rw [hl] at h4; cases h4
          · rw [hl] at h5; cases h5
        · have := hI.pend; rw [hl] at this; simpa using this
      · cases h
    | draining =>
      simp only [hl] at h
      cases h
      refine ⟨hI.fifo, fun _ => hI.batchEmpty (Or.inr (Or.inl hl)), (fun hu => by cases hu), hI.mutexP, ?_, (fun _ => hI.nestIdle (by rw [hl]; simp)), ?_, ?_⟩
      · constructor
        · intro hh; rcases hh with h1 | h1 | ⟨h1, _⟩ <;> cases h1
        · intro hh; rcases hI.mutexL.2 hh with h1 | h1 | ⟨h1, _⟩ <;> rw [hl] at h1 <;> cases h1
      · intro _; exact Or.inr (Or.inr (Or.inr (Or.inl rfl)))
      · have := hI.pend; rw [hl] at this; simpa using this
    | wantLock =>
      simp only [hl] at h
      split at h
      · rename_i hfree
        cases h
        refine ⟨hI.fifo, fun _ => hI.batchEmpty (Or.inr (Or.inr (Or.inl hl))), (fun hu => by cases hu), ?_, ?_, (fun _ => hI.nestIdle (by rw [hl]; simp)), ?_, ?_⟩
        · intro j; constructor
          · intro hh; have := (hI.mutexP j).1 hh; rw [hfree] at this; cases this
          · intro hh; cases hh
        · constructor
          · intro _; rfl
          · intro _; exact Or.inl rfl
        · intro _; exact Or.inr (Or.inr (Or.inr (Or.inr rfl)))
        · have := hI.pend; rw [hl] at this; simpa using this
      · cases h
    | swapping =>
      simp only [hl] at h
      cases h
      have hb := hI.batchEmpty (Or.inr (Or.inr (Or.inr hl)))
      have hhold : s.holder = some none := hI.mutexL.1 (Or.inl hl)
      refine ⟨?_, (fun hh => by rcases hh with h1 | h1 | h1 | h1 <;> cases h1), fun _ => rfl, hI.mutexP, ?_, (fun _ => hI.nestIdle (by rw [hl]; simp)), fun hne => absurd rfl hne, ?_⟩
      · show s.executed ++ s.posts ++ [] = s.postedLog
        rw [← hI.fifo, hb]; simp
      · constructor
        · intro _; exact hhold
        · intro _; exact Or.inr (Or.inl rfl)
      · have := hI.pend; rw [hl, hb] at this
        show s.pending = (([] : List H).length : Int) + s.posts.length + _
        simp at this ⊢; omega
    | unlocking =>
      simp only [hl] at h
      cases h
      have hp := hI.swapEmpty hl
      refine ⟨hI.fifo, (fun hh => by rcases hh with h1 | h1 | h1 | h1 <;> cases h1), (fun hu => by cases hu), ?_, ?_, (fun _ => hI.nestIdle (by rw [hl]; simp)), fun hne => absurd hp hne, ?_⟩
      · have hhold : s.holder = some none := hI.mutexL.1 (Or.inr (Or.inl hl))
        intro j; constructor
        · intro hh; have := (hI.mutexP j).1 hh; rw [hhold] at this; cases this
        · intro hh; cases hh
      · constructor
        · intro hh; rcases hh with h1 | h1 | ⟨h1, _⟩ <;> cases h1
        · intro hh; cases hh
      · have := hI.pend; rw [hl] at this; simpa using this
    | running =>
      simp only [hl] at h
      have hnotL : ¬ (s.lpc = .swapping ∨ s.lpc = .unlocking ∨ (s.lpc = .inHandler ∧ holdsP s.nest)) := by
        rw [hl]; intro hh; rcases hh with h1 | h1 | ⟨h1, _⟩ <;> cases h1
      split at h
      · rename_i hb
        cases h
        refine ⟨hI.fifo, fun _ => hb, (fun hu => by cases hu), hI.mutexP, ?_, (fun _ => hI.nestIdle (by rw [hl]; simp)), ?_, ?_⟩
        · constructor
          · intro hh; rcases hh with h1 | h1 | ⟨h1, _⟩ <;> cases h1
          · intro hh; exact absurd (hI.mutexL.2 hh) hnotL
        · intro hne
          rcases hI.wake hne with h1 | h2 | ⟨h3, _⟩ | h4 | h5
          · exact Or.inl h1
          · exact Or.inr (Or.inl h2)
          · rw [hl] at h3; cases h3
          · rw [hl] at h4; cases h4
          · rw [hl] at h5; cases h5
        · have := hI.pend; rw [hl] at this; simpa using this
      · rename_i hd r hb
        cases h
        refine ⟨?_, (fun hh => by rcases hh with h1 | h1 | h1 | h1 <;> cases h1), (fun hu => by cases hu), hI.mutexP, ?_, fun hne => absurd rfl hne, ?_, ?_⟩
        · show (s.executed ++ [hd]) ++ r ++ s.posts = s.postedLog
          rw [← hI.fifo, hb]; simp
        · constructor
          · intro hh
            rcases hh with h1 | h1 | ⟨_, h1⟩
            · cases h1
            · cases h1
            · simp [holdsP] at h1
          · intro hh; exact absurd (hI.mutexL.2 hh) hnotL
        · intro hne
          rcases hI.wake hne with h1 | h2 | ⟨h3, _⟩ | h4 | h5
          · exact Or.inl h1
          · exact Or.inr (Or.inl h2)
          · rw [hl] at h3; cases h3
          · rw [hl] at h4; cases h4
          · rw [hl] at h5; cases h5
        · have := hI.pend; rw [hl, hb] at this
          show s.pending = (s.posts.length : Int) + r.length + _
          simp at this ⊢; omega
    | inHandler =>
      simp only [hl] at h
      split at h
      · rename_i hdone
        cases h
        have hnh : ¬ holdsP s.nest := by simp [holdsP, hdone.2]
        refine ⟨hI.fifo, (fun hh => by rcases hh with h1 | h1 | h1 | h1 <;> cases h1), (fun hu => by cases hu), hI.mutexP, ?_, fun _ => hdone.2, ?_, ?_⟩
        · constructor
          · intro hh; rcases hh with h1 | h1 | ⟨h1, _⟩ <;> cases h1
          · intro hh
            rcases hI.mutexL.2 hh with h1 | h1 | ⟨_, h1⟩
            · rw [hl] at h1; cases h1
            · rw [hl] at h1; cases h1
            · exact absurd h1 hnh
        · intro hne
          rcases hI.wake hne with h1 | h2 | ⟨_, h3⟩ | h4 | h5
          · exact Or.inl h1
          · exact Or.inr (Or.inl h2)
          · simp [sigP, hdone.2] at h3
          · rw [hl] at h4; cases h4
          · rw [hl] at h5; cases h5
        · have := hI.pend; rw [hl] at this; simpa using this
      · cases hp : posterStep s none s.nest with
        | none => simp [hp] at h
        | some r =>
          obtain ⟨s1, p'⟩ := r
          simp only [hp, Option.some.injEq] at h
          subst h
          exact nest_step_inv hI hl hp
    | decrementing =>
      simp only [hl] at h
      cases h
      have hnotL : ¬ (s.lpc = .swapping ∨ s.lpc = .unlocking ∨ (s.lpc = .inHandler ∧ holdsP s.nest)) := by
        rw [hl]; intro hh; rcases hh with h1 | h1 | ⟨h1, _⟩ <;> cases h1
      refine ⟨hI.fifo, (fun hh => by rcases hh with h1 | h1 | h1 | h1 <;> cases h1), (fun hu => by cases hu), hI.mutexP, ?_, (fun _ => hI.nestIdle (by rw [hl]; simp)), ?_, ?_⟩
      · constructor
        · intro hh; rcases hh with h1 | h1 | ⟨h1, _⟩ <;> cases h1
        · intro hh; exact absurd (hI.mutexL.2 hh) hnotL
      · intro hne
        rcases hI.wake hne with h1 | h2 | ⟨h3, _⟩ | h4 | h5
        · exact Or.inl h1
        · exact Or.inr (Or.inl h2)
        · rw [hl] at h3; cases h3
        · rw [hl] at h4; cases h4
        · rw [hl] at h5; cases h5
      · have := hI.pend; rw [hl] at this
        show s.pending - 1 = (s.posts.length : Int) + s.batch.length + _
        simp at this ⊢; omega

theorem reach_inv {nested : H → List H} {progs : Nat → List H} {s : St} (h : Reach nested progs s) : Inv s := by
  induction h with
  | init => exact init_inv progs
  | step t _ hs ih => exact step_inv nested t ih hs

end Sonic.Model.Post
