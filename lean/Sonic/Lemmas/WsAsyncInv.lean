/-
Invariant of the asynchronous WebSocket model (`Sonic.Model.WsAsync`, serialised flushes), preserved by every label.

`owedList s` lists every user callback the library still has to invoke, wherever the obligation currently sits: in the
waiter queue, in the write reactor (the owner of the flush in flight), in the read reactor, or on the control stack.
The invariant says that this list, together with the invocation log, accounts for exactly the callbacks handed to the
API; that at most one of them is a reader; that a write is in flight iff `flushing`; and that the transport has
received the submitted frames in order, each completely before the next.
-/
import Sonic.Model.WsAsync

namespace Sonic.Model.WsAsync

/-- an owed callback: its id and whether it is a read callback -/
abbrev Ow := CbId × Bool

def contCbs : Cont → List Ow
  | .user cb => [(cb, false)]
  | .readStart cb _ => [(cb, true)]
  | .discard => []

def taskCbs : Task → List Ow
  | .invoke cb _ isRead => [(cb, isRead)]
  | .resume cb _ _ => [(cb, true)]
  | .again cb _ => [(cb, true)]
  | _ => []

def wrCbs (s : St) : List Ow := match s.wr with | some w => contCbs w.k | none => []
def rdCbs (s : St) : List Ow := match s.rd with | some (cb, _) => [(cb, true)] | none => []

/-- every callback the library owes an invocation -/
def owedList (s : St) : List Ow :=
  s.waiters.flatMap contCbs ++ wrCbs s ++ rdCbs s ++ s.stack.flatMap taskCbs

/-- frames of the write in flight -/
def wrBuf (s : St) : List OutFrame := match s.wr with | some w => w.buf | none => []
/-- bytes of the write in flight the transport has accepted -/
def wrDone (s : St) : List (Tag × Nat) := match s.wr with | some w => (bufBytes w.buf).take w.sofar | none => []

/-- The serialisation invariant: a write is in flight exactly while `flushing`, waiters exist only then, the write
reactor was never re-initialised while in use, and its buffer is one frame. -/
structure Core (s : St) : Prop where
  flushWr : s.flushing = s.wr.isSome
  idle : s.flushing = false → s.waiters = []
  notOver : s.overwritten = false
  one : ∀ w, s.wr = some w → ∃ f, w.buf = [f]

/-- The wire invariant (while no transport error happened): submitted = on the wire ++ in flight ++ pending, and
the bytes accepted so far are the complete frames followed by a prefix of the frame in flight. -/
structure Wire (s : St) : Prop where
  frames : s.healthy = true → s.wire ++ wrBuf s ++ s.pending = s.submitted
  bytes : s.healthy = true → s.bytes = bufBytes s.wire ++ wrDone s

/-- Effect of a piece of library code: it keeps `Core` and `Wire`, adds `add` to what is owed, and does not touch the
application-side history. -/
structure Eff (s s' : St) (add : List Ow) : Prop where
  core : Core s'
  wire : Wire s'
  owed : ∀ P : Ow → Bool, (owedList s').countP P = (owedList s).countP P + add.countP P
  started : s'.started = s.started
  log : s'.log = s.log
  readBusy : s'.readBusy = s.readBusy

theorem Eff.refl {s : St} (hc : Core s) (hw : Wire s) : Eff s s [] :=
  ⟨hc, hw, fun _ => by simp, rfl, rfl, rfl⟩

theorem Eff.trans {s s' s'' : St} {a b : List Ow} (h1 : Eff s s' a) (h2 : Eff s' s'' b) : Eff s s'' (a ++ b) :=
  ⟨h2.core, h2.wire, fun P => by rw [h2.owed, h1.owed, List.countP_append]; omega,
   h2.started.trans h1.started, h2.log.trans h1.log, h2.readBusy.trans h1.readBusy⟩

theorem Eff.of_eq {s s' : St} {a b : List Ow} (h : Eff s s' a) (e : a = b) : Eff s s' b := e ▸ h

theorem contTask_cbs (k : Cont) (ok : Bool) : (contTask k ok).flatMap taskCbs = contCbs k := by
  cases k <;> simp [contTask, taskCbs, contCbs]

theorem waiters_tasks (ws : List Cont) (ok : Bool) :
    (ws.flatMap (contTask · ok)).flatMap taskCbs = ws.flatMap contCbs := by
  rw [List.flatMap_assoc]
  congr 1
  funext k
  exact contTask_cbs k ok

theorem calls_cbs (as : List Action) : (as.map Task.call).flatMap taskCbs = [] := by
  induction as with
  | nil => rfl
  | cons a r ih => simp [List.flatMap_cons, taskCbs, ih]

theorem bufBytes_length (b : List OutFrame) : (bufBytes b).length = bufSize b := by
  induction b with
  | nil => rfl
  | cons f r ih =>
    simp only [bufBytes, List.flatMap_cons, List.length_append, bufSize, List.map_cons, List.sum_cons] at *
    rw [ih]
    simp [frameBytes]

theorem bufBytes_append (a b : List OutFrame) : bufBytes (a ++ b) = bufBytes a ++ bufBytes b := by
  simp [bufBytes, List.flatMap_append]

/-! ### Library code -/

theorem push_eff {s : St} (hc : Core s) (hw : Wire s) (ts : List Task) : Eff s (push s ts) (ts.flatMap taskCbs) := by
  refine ⟨⟨hc.flushWr, hc.idle, hc.notOver, hc.one⟩, ⟨hw.frames, hw.bytes⟩, fun P => ?_, rfl, rfl, rfl⟩
  simp only [owedList, push, wrCbs, rdCbs, List.flatMap_append, List.countP_append]
  omega

theorem prepare_eff {s : St} (hc : Core s) (hw : Wire s) (f : OutFrame) : Eff s (prepare s f) [] := by
  refine ⟨⟨hc.flushWr, hc.idle, hc.notOver, hc.one⟩, ⟨fun h => ?_, hw.bytes⟩, fun P => by simp [owedList, prepare, wrCbs, rdCbs], rfl, rfl, rfl⟩
  have := hw.frames h
  show s.wire ++ wrBuf s ++ (s.pending ++ [f]) = s.submitted ++ [f]
  rw [← this]; simp [List.append_assoc]

theorem flushDone_eff {s : St} (hwr : s.wr = none) (hov : s.overwritten = false) (hw : Wire s) (k : Cont) (ok : Bool) :
    Eff s (flushDone true s k ok) (contCbs k) := by
  have hwb : wrBuf s = [] := by simp [wrBuf, hwr]
  have hwd : wrDone s = [] := by simp [wrDone, hwr]
  refine ⟨⟨?_, fun _ => rfl, hov, ?_⟩, ⟨?_, ?_⟩, fun P => ?_, rfl, rfl, rfl⟩
  · simp [flushDone, push, hwr]
  · intro w h; simp [flushDone, push, hwr] at h
  · intro h; have := hw.frames h; simpa [flushDone, push, wrBuf, hwr, hwb] using this
  · intro h; have := hw.bytes h; simpa [flushDone, push, wrDone, hwr, hwd] using this
  · simp only [owedList, flushDone, push, wrCbs, rdCbs, hwr, if_true, List.flatMap_append, List.countP_append,
      contTask_cbs, waiters_tasks, List.flatMap_nil, List.countP_nil]
    omega

theorem asyncFlushGo_eff {s : St} (hwr : s.wr = none) (hfl : s.flushing = true) (hov : s.overwritten = false)
    (hw : Wire s) (k : Cont) : Eff s (asyncFlushGo true s k) (contCbs k) := by
  unfold asyncFlushGo
  split
  · exact flushDone_eff hwr hov hw k true
  · rename_i f rest hp
    have hwb : wrBuf s = [] := by simp [wrBuf, hwr]
    have hwd : wrDone s = [] := by simp [wrDone, hwr]
    refine ⟨⟨?_, ?_, ?_, ?_⟩, ⟨?_, ?_⟩, fun P => ?_, ?_, ?_, ?_⟩
    · simp [startWrite, hwr, hfl]
    · intro h; simp [startWrite, hwr, hfl] at h
    · simp [startWrite, hwr, hov]
    · intro w h; simp [startWrite, hwr] at h; exact ⟨f, by rw [← h]⟩
    · intro h
      have h' : s.healthy = true := by simpa [startWrite, hwr] using h
      have := hw.frames h'
      simp only [startWrite, hwr, wrBuf] at *
      rw [← this, hp]; simp
    · intro h
      have h' : s.healthy = true := by simpa [startWrite, hwr] using h
      have := hw.bytes h'
      simp only [startWrite, hwr, wrDone] at *
      rw [this]; simp
    · simp only [owedList, startWrite, hwr, wrCbs, rdCbs, List.countP_append, List.countP_nil]
      omega
    · simp [startWrite, hwr]
    · simp [startWrite, hwr]
    · simp [startWrite, hwr]

theorem asyncFlush_eff {s : St} (hc : Core s) (hw : Wire s) (k : Cont) : Eff s (asyncFlush true s k) (contCbs k) := by
  unfold asyncFlush
  simp only [if_true]
  split
  · rename_i hfl
    refine ⟨⟨hc.flushWr, ?_, hc.notOver, hc.one⟩, ⟨hw.frames, hw.bytes⟩, fun P => ?_, rfl, rfl, rfl⟩
    · intro h; exact absurd (hfl ▸ h : true = false) (by decide)
    · simp only [owedList, wrCbs, rdCbs, List.flatMap_append, List.countP_append, List.flatMap_cons, List.flatMap_nil,
        List.append_nil]
      omega
  · rename_i hfl
    have hfl' : s.flushing = false := by simpa using hfl
    have hwr : s.wr = none := by
      have := hc.flushWr; rw [hfl'] at this
      cases hs : s.wr with
      | none => rfl
      | some w => simp [hs] at this
    have h := asyncFlushGo_eff (s := { s with flushing := true }) hwr rfl hc.notOver ⟨hw.frames, hw.bytes⟩ k
    exact ⟨h.core, h.wire, h.owed, h.started, h.log, h.readBusy⟩

theorem asyncClose_eff {s : St} (hc : Core s) (hw : Wire s) (f : OutFrame) (k : Cont)
    (hk : (∃ cb, k = .user cb) ∨ k = .discard) : Eff s (asyncClose true s f k) (contCbs k) := by
  unfold asyncClose
  split
  · have h0 : Eff s { s with ws := WsState.closedByUs } [] :=
      ⟨⟨hc.flushWr, hc.idle, hc.notOver, hc.one⟩, ⟨hw.frames, hw.bytes⟩, fun _ => by simp [owedList, wrCbs, rdCbs], rfl, rfl, rfl⟩
    have h1 := prepare_eff h0.core h0.wire f
    have h2 := asyncFlush_eff h1.core h1.wire k
    exact ((h0.trans h1).trans h2).of_eq (by simp)
  · rcases hk with ⟨cb, rfl⟩ | rfl
    · exact (push_eff hc hw _).of_eq (by simp [taskCbs, contCbs])
    · exact Eff.refl hc hw
  · rcases hk with ⟨cb, rfl⟩ | rfl
    · exact (push_eff hc hw _).of_eq (by simp [taskCbs, contCbs])
    · exact Eff.refl hc hw

theorem handleFrame_eff {s : St} (hc : Core s) (hw : Wire s) (f : InFrame) : Eff s (handleFrame s f).1 [] := by
  refine ⟨⟨hc.flushWr, hc.idle, hc.notOver, hc.one⟩, ⟨fun h => ?_, hw.bytes⟩, fun P => by simp [owedList, handleFrame, wrCbs, rdCbs], rfl, rfl, rfl⟩
  have := hw.frames h
  show s.wire ++ wrBuf s ++ (s.pending ++ _) = s.submitted ++ _
  rw [← this]; simp [List.append_assoc]

theorem onFrame_eff {s : St} (hc : Core s) (hw : Wire s) (cb : CbId) (rk : RKind) (f : InFrame) :
    Eff s (onFrame true s cb rk f) [(cb, true)] := by
  have h0 := handleFrame_eff hc hw f
  unfold onFrame
  simp only []
  cases rk with
  | frame => exact (h0.trans (push_eff h0.core h0.wire _)).of_eq (by simp [taskCbs])
  | message room cont =>
    simp only []
    repeat' split
    all_goals first
      | exact (h0.trans (push_eff h0.core h0.wire _)).of_eq (by simp [taskCbs])
      | (have h1 := asyncClose_eff h0.core h0.wire ⟨.closeTooBig s.rx, 23⟩ .discard (Or.inr rfl)
         exact ((h0.trans h1).trans (push_eff h1.core h1.wire _)).of_eq (by simp [taskCbs, contCbs]))

/-- Clearing or arming the read reactor changes only the reader's entry of what is owed. -/
theorem setRd_eff {s : St} (hc : Core s) (hw : Wire s) (hrd : s.rd = none) (cb : CbId) (rk : RKind) :
    Eff s { s with rd := some (cb, rk) } [(cb, true)] := by
  refine ⟨⟨hc.flushWr, hc.idle, hc.notOver, hc.one⟩, ⟨hw.frames, hw.bytes⟩, fun P => ?_, rfl, rfl, rfl⟩
  simp only [owedList, wrCbs, rdCbs, hrd, List.countP_append, List.countP_nil]
  omega

theorem readNext_eff {s : St} (hc : Core s) (hw : Wire s) (hrd : s.rd = none) (cb : CbId) (rk : RKind) :
    Eff s (readNext true s cb rk) [(cb, true)] := by
  unfold readNext
  split
  · rename_i f rest hi
    have h0 : Eff s { s with inbox := rest } [] :=
      ⟨⟨hc.flushWr, hc.idle, hc.notOver, hc.one⟩, ⟨hw.frames, hw.bytes⟩, fun _ => by simp [owedList, wrCbs, rdCbs], rfl, rfl, rfl⟩
    exact (h0.trans (onFrame_eff h0.core h0.wire cb rk f)).of_eq (by simp)
  · exact setRd_eff hc hw hrd cb rk

theorem resumeRead_eff {s : St} (hc : Core s) (hw : Wire s) (hrd : s.rd = none) (cb : CbId) (rk : RKind) (ok : Bool) :
    Eff s (resumeRead true s cb rk ok) [(cb, true)] := by
  unfold resumeRead
  split
  · exact readNext_eff hc hw hrd cb rk
  · have h0 : Eff s { s with ws := WsState.terminated } [] :=
      ⟨⟨hc.flushWr, hc.idle, hc.notOver, hc.one⟩, ⟨hw.frames, hw.bytes⟩, fun _ => by simp [owedList, wrCbs, rdCbs], rfl, rfl, rfl⟩
    exact (h0.trans (push_eff h0.core h0.wire _)).of_eq (by simp [taskCbs])

end Sonic.Model.WsAsync
