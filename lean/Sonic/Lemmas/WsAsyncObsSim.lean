/-
Every observed step of the asynchronous WebSocket model is accepted by the C17 property monitor and keeps the
coupling invariant (`step_sim`), label by label.
-/
import Sonic.Lemmas.WsAsyncObsRel

namespace Sonic.Model.WsAsyncObs
open Sonic.Model.WsAsync
open Sonic.Spec.WsStream (Bytes StreamState replyCode closeCodeOf u16 isViolation controlOp)
open Sonic.Spec.WsAsync (Cb Ev Kind Want WireFrame findCb setCb enterPush failW addW entered deliver replyFor)

theorem mrun_single {m m' : MS} {e : Ev} (h : mstep m e = .ok m') : mrun m [e] = .ok m' := by
  show Sonic.Spec.WsAsync.run m [e] = _
  simp only [Sonic.Spec.WsAsync.run]
  rw [show Sonic.Spec.WsAsync.step m e = .ok m' from h]

theorem stk_cons {st : List Sonic.Spec.WsAsync.Frame} {sh : Shape} {tl : List Shape} (h : st.map shapeF = sh :: tl) :
    ∃ f r, st = f :: r ∧ shapeF f = sh ∧ r.map shapeF = tl := by
  cases st with
  | nil => cases h
  | cons f r =>
    simp only [List.map_cons, List.cons.injEq] at h
    exact ⟨f, r, rfl, h.1, h.2⟩

theorem locs_pop {s : St} {t : Task} {rest : List Task} (hst : s.stack = t :: rest) {p : CbId × LK}
    (hp : p ∈ locs { s with stack := rest }) : p ∈ locs s := by
  simp only [locs, wrK, rdK, hst, List.flatMap_cons, List.mem_append] at hp ⊢
  rcases hp with ((h | h) | h) | h <;> mem_or

theorem window_of_not_special {s : St} {o : Ob} {m : MS} (h : ∀ t rest, s.stack = t :: rest → special t = false)
    (hc : o.cur = none) : Window s o m := by
  unfold Window
  split
  · rename_i cb r rest hst; exact absurd (h _ _ hst) (by simp [special])
  · rename_i rest hst; exact absurd (h _ _ hst) (by simp [special])
  · rename_i cb r rest hst
    have := h _ _ hst
    simp only [special, Bool.and_eq_false_iff, bne_eq_false_iff_eq] at this
    refine ⟨hc, ?_, ?_, ?_⟩ <;> rcases this with rfl | rfl <;> simp
  · exact hc

theorem head_not_special {s : St} {t0 : Task} {rest : List Task} (hst : s.stack = t0 :: rest)
    (hsp : ∀ t ∈ s.stack.tail, special t = false) : ∀ t r, rest = t :: r → special t = false := by
  intro t r e
  apply hsp
  rw [hst, List.tail_cons, e]
  exact List.mem_cons_self ..

/-- Popping a task that is not a callback entry; the monitor may have popped its own stack, noted `State()` and
updated flags of the ledger. -/
theorem coup_pop {max : Nat} {s : St} {o : Ob} {m : MS} {x : List CFrame} {t : Task} {rest : List Task}
    (h : Coup max s o m x) (hst : s.stack = t :: rest) (hsp0 : special t = false) (m' : MS)
    (hmax : m'.max = m.max) (hexp : m'.expect = m.expect) (hinq : m'.inq = m.inq) (hmacc : m'.macc = m.macc)
    (hsy : m'.synced = m.synced) (hhl : m'.healthy = m.healthy)
    (hstk : m'.stack.map shapeF = rest.filterMap shapeT) (hlast : m'.last = stOf s.ws)
    (hled1 : ∀ c ∈ m'.cbs, ∃ c0 ∈ m.cbs, c.id = c0.id ∧ c.done = c0.done ∧ c.kind = c0.kind)
    (hled2 : ∀ c0 ∈ m.cbs, ∃ c ∈ m'.cbs, c.id = c0.id) :
    Coup max { s with stack := rest } o m' x := by
  have hns := head_not_special hst h.spec
  have hp1 : ∀ l, pendW s o l = [] :=
    fun l => pendW_of_not_special o l (fun t' r e => by rw [hst] at e; cases e; exact hsp0)
  have hcur : o.cur = none := cur_of_not_special h.win (fun t' r e => by rw [hst] at e; cases e; exact hsp0)
  refine ⟨hmax.trans h.max, ?_, ?_, hstk, ?_, ?_, ?_, Or.inl hlast, h.subF, h.subM, ?_, h.inb, ?_, h.heldOk, ?_, ?_,
    h.rdr1, ?_, h.rdr3, h.rdr4, h.rdCan⟩
  · intro c hc
    obtain ⟨c0, hc0, e1, e2, e3⟩ := hled1 c hc
    rw [e1, e2, e3]
    exact h.ledMem c0 hc0
  · intro cb hcb
    obtain ⟨c0, hc0, e⟩ := h.ledAll cb hcb
    obtain ⟨c, hc, e'⟩ := hled2 c0 hc0
    exact ⟨c, hc, e'.trans e⟩
  · intro t' ht'
    apply h.spec
    rw [hst, List.tail_cons]
    exact List.mem_of_mem_tail ht'
  · intro cb hc
    rw [hhl]
    apply h.errs cb
    rw [hst]
    exact List.mem_cons_of_mem _ hc
  · rw [hhl]; exact h.hl
  · intro hh
    rw [hhl] at hh
    have := h.exp hh
    rw [hp1] at this
    rw [pendW_of_not_special (s := { s with stack := rest }) o _ hns, hexp]
    exact this
  · rw [hsy, hinq, hmacc]; exact h.rdq
  · exact window_of_not_special hns hcur
  · intro p hp; exact h.chain p (locs_pop hst hp)
  · intro p hp; exact h.rdr2 p (locs_pop hst hp)

theorem last_of_not_window {max : Nat} {s : St} {o : Ob} {m : MS} {x : List CFrame} (h : Coup max s o m x)
    (hw : windowTop s.stack = false) : m.last = stOf s.ws := by
  rcases h.last with h1 | h1
  · exact h1
  · rw [hw] at h1; cases h1

variable {max : Nat} {prog : CbId → List Action}

theorem sim_skip {s s' : St} {o : Ob} {m : MS} {a : Action} (h : Coup max s o m [])
    (hs : step true prog s (.skip a) = some s') : ∃ m', mrun m [.skip] = .ok m' ∧ Coup max s' o m' [] := by
  simp only [step] at hs
  split at hs
  · rename_i a' rest hst
    split at hs
    · cases hs
      refine ⟨m, mrun_single rfl, ?_⟩
      have hstk := h.stk
      rw [hst, List.filterMap_cons] at hstk
      exact coup_pop h hst rfl m rfl rfl rfl rfl rfl rfl hstk (last_of_not_window h (by rw [hst]; rfl))
        (fun c hc => ⟨c, hc, rfl, rfl, rfl⟩) (fun c hc => ⟨c, hc, rfl⟩)
    · cases hs
  · cases hs

theorem sim_exit {s s' : St} {o : Ob} {m : MS} {cb : CbId} (h : Coup max s o m [])
    (hs : step true prog s (.exit cb) = some s') : ∃ m', mrun m [.exit cb] = .ok m' ∧ Coup max s' o m' [] := by
  simp only [step] at hs
  split at hs
  · rename_i cb' rest hst
    split at hs
    · rename_i hcb
      cases hs
      subst hcb
      have hstk := h.stk
      rw [hst, List.filterMap_cons] at hstk
      obtain ⟨f, r, hm, hf, hr⟩ := stk_cons hstk
      have hf' : f = .handler cb := by
        cases f with
        | call c => cases c <;> cases hf
        | handler c => simp only [shapeF, Shape.handler.injEq] at hf; rw [hf]
      subst hf'
      refine ⟨{ m with stack := r }, mrun_single ?_, ?_⟩
      · show Sonic.Spec.WsAsync.step m (.exit cb) = _
        simp [Sonic.Spec.WsAsync.step, hm]
      · have hl : m.last = stOf s.ws := last_of_not_window h (by rw [hst]; rfl)
        exact coup_pop h hst rfl { m with stack := r } rfl rfl rfl rfl rfl rfl hr hl
          (fun c hc => ⟨c, hc, rfl, rfl, rfl⟩) (fun c hc => ⟨c, hc, rfl⟩)
    · cases hs
  · cases hs

theorem sim_ret {s s' : St} {o : Ob} {m : MS} (h : Coup max s o m [])
    (hs : step true prog s .ret = some s') : ∃ m', mrun m [.ret (stOf s'.ws)] = .ok m' ∧ Coup max s' o m' [] := by
  simp only [step] at hs
  split at hs
  · rename_i rest hst
    cases hs
    have hstk := h.stk
    rw [hst, List.filterMap_cons] at hstk
    obtain ⟨f, r, hm, hf, hr⟩ := stk_cons hstk
    have hf' : ∃ cb0, f = .call (some cb0) := by
      cases f with
      | call c => cases c with
        | none => cases hf
        | some cb0 => exact ⟨cb0, rfl⟩
      | handler c => cases hf
    obtain ⟨cb0, rfl⟩ := hf'
    cases hfc : findCb { m with stack := r, last := stOf s.ws } cb0 with
    | none =>
      refine ⟨{ m with stack := r, last := stOf s.ws }, mrun_single ?_, ?_⟩
      · show Sonic.Spec.WsAsync.step m (.ret (stOf s.ws)) = _
        simp only [Sonic.Spec.WsAsync.step, hm, hfc]
      · exact coup_pop h hst rfl { m with stack := r, last := stOf s.ws } rfl rfl rfl rfl rfl rfl hr rfl
          (fun c hc => ⟨c, hc, rfl, rfl, rfl⟩) (fun c hc => ⟨c, hc, rfl⟩)
    | some c =>
      obtain ⟨hcm, hcid⟩ := Sonic.Spec.WsAsync.findCb_some hfc
      refine ⟨setCb { m with stack := r, last := stOf s.ws } { c with returned := true }, mrun_single ?_, ?_⟩
      · show Sonic.Spec.WsAsync.step m (.ret (stOf s.ws)) = _
        simp only [Sonic.Spec.WsAsync.step, hm, hfc]
      · refine coup_pop h hst rfl _ rfl rfl rfl rfl rfl rfl hr rfl ?_ ?_
        · intro c' hc'
          rcases Sonic.Spec.WsAsync.mem_setCb.1 hc' with rfl | ⟨h1, _⟩
          · exact ⟨c, hcm, rfl, rfl, rfl⟩
          · exact ⟨c', h1, rfl, rfl, rfl⟩
        · intro c0 hc0
          by_cases e : c0.id = c.id
          · exact ⟨{ c with returned := true }, Sonic.Spec.WsAsync.mem_setCb.2 (Or.inl rfl), e.symm⟩
          · exact ⟨c0, Sonic.Spec.WsAsync.mem_setCb.2 (Or.inr ⟨hc0, e⟩), rfl⟩
  · rename_i rest hst
    cases hs
    have hstk := h.stk
    rw [hst, List.filterMap_cons] at hstk
    obtain ⟨f, r, hm, hf, hr⟩ := stk_cons hstk
    have hf' : f = .call none := by
      cases f with
      | call c => cases c with
        | none => rfl
        | some cb0 => cases hf
      | handler c => cases hf
    subst hf'
    refine ⟨{ m with stack := r, last := stOf s.ws }, mrun_single ?_, ?_⟩
    · show Sonic.Spec.WsAsync.step m (.ret (stOf s.ws)) = _
      simp only [Sonic.Spec.WsAsync.step, hm]
    · exact coup_pop h hst rfl { m with stack := r, last := stOf s.ws } rfl rfl rfl rfl rfl rfl hr rfl
        (fun c hc => ⟨c, hc, rfl, rfl, rfl⟩) (fun c hc => ⟨c, hc, rfl⟩)
  · cases hs

/-! ### Events of the environment -/

theorem sim_peer {s : St} {o : Ob} {m : MS} {g : CFrame} (h : Coup max s o m []) :
    ∃ m', mrun m [.peer g] = .ok m' ∧ Coup max s { o with net := o.net ++ [g] } m' [] := by
  refine ⟨{ m with inq := m.inq ++ [g] }, mrun_single rfl, ?_⟩
  refine ⟨h.max, h.ledMem, h.ledAll, h.stk, h.spec, h.errs, h.hl, h.last, h.subF, h.subM, h.exp, h.inb, ?_, h.heldOk, h.win,
    h.chain, h.rdr1, h.rdr2, h.rdr3, h.rdr4, h.rdCan⟩
  intro hsy hws
  obtain ⟨h1, h2⟩ := h.rdq hsy hws
  refine ⟨?_, h2⟩
  show m.inq ++ [g] = _
  rw [h1]
  simp [List.append_assoc]

theorem sim_peerEof {s : St} {o : Ob} {m : MS} (h : Coup max s o m []) :
    ∃ m', mrun m [.peerEof] = .ok m' ∧ Coup max s o m' [] := ⟨m, mrun_single rfl, h⟩

end Sonic.Model.WsAsyncObs
