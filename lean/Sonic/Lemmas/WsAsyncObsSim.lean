/-
Every observed step of the asynchronous WebSocket model is accepted by the C17 property monitor and keeps the
coupling invariant (`step_sim`), label by label.
-/
import Sonic.Lemmas.WsAsyncObsRel

set_option linter.unusedSimpArgs false

namespace Sonic.Model.WsAsyncObs
open Sonic.Model.WsAsync
open Sonic.Spec.WsStream (Bytes StreamState replyCode closeCodeOf u16 isViolation controlOp)
open Sonic.Spec.WsAsync (Cb Ev Kind Want WireFrame findCb setCb enterPush failW addW entered deliver replyFor pattern)

theorem mrun_single {m m' : MS} {e : Ev} (h : mstep m e = .ok m') : mrun m [e] = .ok m' := by
  show Sonic.Spec.WsAsync.run m [e] = _
  simp only [Sonic.Spec.WsAsync.run]
  rw [show Sonic.Spec.WsAsync.step m e = .ok m' from h]

theorem stk_cons {st : List Sonic.Spec.WsAsync.Frame} {sh : Shape} {tl : List Shape} (h : st.map shapeF = sh :: tl) :
    ∃ f r, st = f :: r ∧ shapeF f = sh ∧ r.map shapeF = tl := by
  cases st with
  | nil => cases h
  | cons f r =>
    simp only [List.map_cons, List.cons.injEq] at h
    exact ⟨f, r, rfl, h.1, h.2⟩

theorem locs_pop {s : St} {t : Task} {rest : List Task} (hst : s.stack = t :: rest) {p : CbId × LK}
    (hp : p ∈ locs { s with stack := rest }) : p ∈ locs s := by
  simp only [locs, wrK, rdK, hst, List.flatMap_cons, List.mem_append] at hp ⊢
  rcases hp with ((h | h) | h) | h <;> mem_or

theorem window_of_not_special {s : St} {o : Ob} {m : MS} (h : ∀ t rest, s.stack = t :: rest → special t = false)
    (hc : o.cur = none) : Window s o m := by
  unfold Window
  split
  · rename_i cb r rest hst; exact absurd (h _ _ hst) (by simp [special])
  · rename_i rest hst; exact absurd (h _ _ hst) (by simp [special])
  · rename_i cb r rest hst
    have := h _ _ hst
    simp only [special, Bool.and_eq_false_iff, bne_eq_false_iff_eq] at this
    refine ⟨hc, ?_, ?_, ?_⟩ <;> rcases this with rfl | rfl <;> simp
  · exact hc

theorem head_not_special {s : St} {t0 : Task} {rest : List Task} (hst : s.stack = t0 :: rest)
    (hsp : ∀ t ∈ s.stack.tail, special t = false) : ∀ t r, rest = t :: r → special t = false := by
  intro t r e
  apply hsp
  rw [hst, List.tail_cons, e]
  exact List.mem_cons_self ..

/-- Popping a task that is not a callback entry; the monitor may have popped its own stack, noted `State()` and
updated flags of the ledger. -/
theorem coup_pop {max : Nat} {s : St} {o : Ob} {m : MS} {x : List CFrame} {t : Task} {rest : List Task}
    (h : Coup max s o m x) (hst : s.stack = t :: rest) (hsp0 : special t = false) (m' : MS)
    (hmax : m'.max = m.max) (hexp : m'.expect = m.expect) (hinq : m'.inq = m.inq) (hmacc : m'.macc = m.macc)
    (hsy : m'.synced = m.synced) (hhl : m'.healthy = m.healthy)
    (hstk : m'.stack.map shapeF = rest.filterMap shapeT) (hlast : m'.last = stOf s.ws)
    (hled1 : ∀ c ∈ m'.cbs, ∃ c0 ∈ m.cbs, c.id = c0.id ∧ c.done = c0.done ∧ c.kind = c0.kind)
    (hled2 : ∀ c0 ∈ m.cbs, ∃ c ∈ m'.cbs, c.id = c0.id) :
    Coup max { s with stack := rest } o m' x := by
  have hns := head_not_special hst h.spec
  have hp1 : ∀ l, pendW s o l = [] :=
    fun l => pendW_of_not_special o l (fun t' r e => by rw [hst] at e; cases e; exact hsp0)
  have hcur : o.cur = none := cur_of_not_special h.win (fun t' r e => by rw [hst] at e; cases e; exact hsp0)
  refine ⟨hmax.trans h.max, ?_, ?_, hstk, ?_, ?_, ?_, Or.inl hlast, h.subF, h.subM, ?_, (fun hh => h.rep (hhl ▸ hh)), h.inb, ?_, h.heldOk, ?_, ?_,
    h.rdr1, ?_, h.rdr3, h.rdr4, h.rdr5, h.rdCan⟩
  · intro c hc
    obtain ⟨c0, hc0, e1, e2, e3⟩ := hled1 c hc
    rw [e1, e2, e3]
    exact h.ledMem c0 hc0
  · intro cb hcb
    obtain ⟨c0, hc0, e⟩ := h.ledAll cb hcb
    obtain ⟨c, hc, e'⟩ := hled2 c0 hc0
    exact ⟨c, hc, e'.trans e⟩
  · intro t' ht'
    apply h.spec
    rw [hst, List.tail_cons]
    exact List.mem_of_mem_tail ht'
  · intro cb hc
    rw [hhl]
    apply h.errs cb
    rw [hst]
    exact List.mem_cons_of_mem _ hc
  · rw [hhl]; exact h.hl
  · intro hh
    rw [hhl] at hh
    have := h.exp hh
    rw [hp1] at this
    rw [pendW_of_not_special (s := { s with stack := rest }) o _ hns, hexp]
    exact this
  · rw [hsy, hinq, hmacc]; exact h.rdq
  · exact window_of_not_special hns hcur
  · intro p hp; exact h.chain p (locs_pop hst hp)
  · intro p hp; exact h.rdr2 p (locs_pop hst hp)

theorem last_of_not_window {max : Nat} {s : St} {o : Ob} {m : MS} {x : List CFrame} (h : Coup max s o m x)
    (hw : windowTop s.stack = false) : m.last = stOf s.ws := by
  rcases h.last with h1 | h1
  · exact h1
  · rw [hw] at h1; cases h1

variable {max : Nat} {prog : CbId → List Action}

theorem sim_skip {s s' : St} {o : Ob} {m : MS} {a : Action} (h : Coup max s o m [])
    (hs : step true prog s (.skip a) = some s') : ∃ m', mrun m [.skip] = .ok m' ∧ Coup max s' o m' [] := by
  simp only [step] at hs
  split at hs
  · rename_i a' rest hst
    split at hs
    · cases hs
      refine ⟨m, mrun_single rfl, ?_⟩
      have hstk := h.stk
      rw [hst, List.filterMap_cons] at hstk
      exact coup_pop h hst rfl m rfl rfl rfl rfl rfl rfl hstk (last_of_not_window h (by rw [hst]; rfl))
        (fun c hc => ⟨c, hc, rfl, rfl, rfl⟩) (fun c hc => ⟨c, hc, rfl⟩)
    · cases hs
  · cases hs

theorem sim_exit {s s' : St} {o : Ob} {m : MS} {cb : CbId} (h : Coup max s o m [])
    (hs : step true prog s (.exit cb) = some s') : ∃ m', mrun m [.exit cb] = .ok m' ∧ Coup max s' o m' [] := by
  simp only [step] at hs
  split at hs
  · rename_i cb' rest hst
    split at hs
    · rename_i hcb
      cases hs
      subst hcb
      have hstk := h.stk
      rw [hst, List.filterMap_cons] at hstk
      obtain ⟨f, r, hm, hf, hr⟩ := stk_cons hstk
      have hf' : f = .handler cb := by
        cases f with
        | call c => cases c <;> cases hf
        | handler c => simp only [shapeF, Shape.handler.injEq] at hf; rw [hf]
      subst hf'
      refine ⟨{ m with stack := r }, mrun_single ?_, ?_⟩
      · show Sonic.Spec.WsAsync.step m (.exit cb) = _
        simp [Sonic.Spec.WsAsync.step, hm]
      · have hl : m.last = stOf s.ws := last_of_not_window h (by rw [hst]; rfl)
        exact coup_pop h hst rfl { m with stack := r } rfl rfl rfl rfl rfl rfl hr hl
          (fun c hc => ⟨c, hc, rfl, rfl, rfl⟩) (fun c hc => ⟨c, hc, rfl⟩)
    · cases hs
  · cases hs

theorem sim_ret {s s' : St} {o : Ob} {m : MS} (h : Coup max s o m [])
    (hs : step true prog s .ret = some s') : ∃ m', mrun m [.ret (stOf s'.ws)] = .ok m' ∧ Coup max s' o m' [] := by
  simp only [step] at hs
  split at hs
  · rename_i rest hst
    cases hs
    have hstk := h.stk
    rw [hst, List.filterMap_cons] at hstk
    obtain ⟨f, r, hm, hf, hr⟩ := stk_cons hstk
    have hf' : ∃ cb0, f = .call (some cb0) := by
      cases f with
      | call c => cases c with
        | none => cases hf
        | some cb0 => exact ⟨cb0, rfl⟩
      | handler c => cases hf
    obtain ⟨cb0, rfl⟩ := hf'
    cases hfc : findCb { m with stack := r, last := stOf s.ws } cb0 with
    | none =>
      refine ⟨{ m with stack := r, last := stOf s.ws }, mrun_single ?_, ?_⟩
      · show Sonic.Spec.WsAsync.step m (.ret (stOf s.ws)) = _
        simp only [Sonic.Spec.WsAsync.step, hm, hfc]
      · exact coup_pop h hst rfl { m with stack := r, last := stOf s.ws } rfl rfl rfl rfl rfl rfl hr rfl
          (fun c hc => ⟨c, hc, rfl, rfl, rfl⟩) (fun c hc => ⟨c, hc, rfl⟩)
    | some c =>
      obtain ⟨hcm, hcid⟩ := Sonic.Spec.WsAsync.findCb_some hfc
      refine ⟨setCb { m with stack := r, last := stOf s.ws } { c with returned := true }, mrun_single ?_, ?_⟩
      · show Sonic.Spec.WsAsync.step m (.ret (stOf s.ws)) = _
        simp only [Sonic.Spec.WsAsync.step, hm, hfc]
      · refine coup_pop h hst rfl _ rfl rfl rfl rfl rfl rfl hr rfl ?_ ?_
        · intro c' hc'
          rcases Sonic.Spec.WsAsync.mem_setCb.1 hc' with rfl | ⟨h1, _⟩
          · exact ⟨c, hcm, rfl, rfl, rfl⟩
          · exact ⟨c', h1, rfl, rfl, rfl⟩
        · intro c0 hc0
          by_cases e : c0.id = c.id
          · exact ⟨{ c with returned := true }, Sonic.Spec.WsAsync.mem_setCb.2 (Or.inl rfl), e.symm⟩
          · exact ⟨c0, Sonic.Spec.WsAsync.mem_setCb.2 (Or.inr ⟨hc0, e⟩), rfl⟩
  · rename_i rest hst
    cases hs
    have hstk := h.stk
    rw [hst, List.filterMap_cons] at hstk
    obtain ⟨f, r, hm, hf, hr⟩ := stk_cons hstk
    have hf' : f = .call none := by
      cases f with
      | call c => cases c with
        | none => rfl
        | some cb0 => cases hf
      | handler c => cases hf
    subst hf'
    refine ⟨{ m with stack := r, last := stOf s.ws }, mrun_single ?_, ?_⟩
    · show Sonic.Spec.WsAsync.step m (.ret (stOf s.ws)) = _
      simp only [Sonic.Spec.WsAsync.step, hm]
    · exact coup_pop h hst rfl { m with stack := r, last := stOf s.ws } rfl rfl rfl rfl rfl rfl hr rfl
        (fun c hc => ⟨c, hc, rfl, rfl, rfl⟩) (fun c hc => ⟨c, hc, rfl⟩)
  · cases hs

/-! ### Events of the environment -/

theorem sim_peer {s : St} {o : Ob} {m : MS} {g : CFrame} (h : Coup max s o m []) :
    ∃ m', mrun m [.peer g] = .ok m' ∧ Coup max s { o with net := o.net ++ [g] } m' [] := by
  refine ⟨{ m with inq := m.inq ++ [g] }, mrun_single rfl, ?_⟩
  refine ⟨h.max, h.ledMem, h.ledAll, h.stk, h.spec, h.errs, h.hl, h.last, h.subF, h.subM, h.exp, h.rep, h.inb, ?_, h.heldOk, h.win,
    h.chain, h.rdr1, h.rdr2, h.rdr3, h.rdr4, h.rdr5, h.rdCan⟩
  intro hsy hws
  obtain ⟨h1, h2⟩ := h.rdq hsy hws
  refine ⟨?_, h2⟩
  show m.inq ++ [g] = _
  rw [h1]
  simp [List.append_assoc]

theorem sim_peerEof {s : St} {o : Ob} {m : MS} (h : Coup max s o m []) :
    ∃ m', mrun m [.peerEof] = .ok m' ∧ Coup max s o m' [] := ⟨m, mrun_single rfl, h⟩

theorem sim_drain {s : St} {o : Ob} {m : MS} {k : Nat} (hI : Inv s) (h : Coup max s o m []) (hst : s.stack = [])
    (hk : o.reported + k ≤ s.wire.length) :
    ∃ m', mrun m [.wire (((o.sub.drop o.reported).take k).map (·.wf))] = .ok m' ∧
      Coup max s { o with reported := o.reported + k } m' [] := by
  have hp : pendW s o m.last = [] := by simp [pendW, hst]
  cases hh : m.healthy with
  | false =>
    refine ⟨m, mrun_single ?_, ?_⟩
    · show Sonic.Spec.WsAsync.step m (.wire _) = _
      simp [Sonic.Spec.WsAsync.step, hh]
    · refine ⟨h.max, h.ledMem, h.ledAll, h.stk, h.spec, h.errs, h.hl, h.last, h.subF, h.subM, ?_, ?_, h.inb, h.rdq, h.heldOk,
        h.win, h.chain, h.rdr1, h.rdr2, h.rdr3, h.rdr4, h.rdr5, h.rdCan⟩
      · intro h1; rw [hh] at h1; cases h1
      · intro h1; rw [hh] at h1; cases h1
  | true =>
    have he := h.exp hh
    rw [hp, List.append_nil] at he
    have hsplit : m.expect = (((o.sub.drop o.reported).take k).map (fun y => (y.want, y.wf))).map (·.1) ++
        ((o.sub.drop (o.reported + k)).map (·.want)) := by
      rw [he, List.map_map, ← List.drop_drop]
      show _ = List.map (fun x : Sub => x.want) _ ++ _
      rw [← List.map_append, List.take_append_drop]
    have hw : (((o.sub.drop o.reported).take k).map (·.wf)) =
        (((o.sub.drop o.reported).take k).map (fun y => (y.want, y.wf))).map (·.2) := by
      rw [List.map_map]; rfl
    have hmw := Sonic.Spec.WsAsync.matchWire_ok ((o.sub.drop (o.reported + k)).map (·.want))
      (((o.sub.drop o.reported).take k).map (fun y => (y.want, y.wf))) (by
        intro y hy
        obtain ⟨z, hz, rfl⟩ := List.mem_map.1 hy
        exact h.subM z (List.mem_of_mem_drop (List.mem_of_mem_take hz)))
    refine ⟨{ m with expect := (o.sub.drop (o.reported + k)).map (·.want) }, mrun_single ?_, ?_⟩
    · show Sonic.Spec.WsAsync.step m (.wire _) = _
      simp only [Sonic.Spec.WsAsync.step, hh, Bool.not_true, Bool.false_eq_true, if_false]
      rw [hw, hsplit, hmw]
      rfl
    · refine ⟨h.max, h.ledMem, h.ledAll, h.stk, h.spec, h.errs, h.hl, h.last, h.subF, h.subM, ?_, ?_, h.inb, h.rdq, h.heldOk,
        h.win, h.chain, h.rdr1, h.rdr2, h.rdr3, h.rdr4, h.rdr5, h.rdCan⟩
      · intro _
        show _ ++ pendW s _ m.last = _
        rw [show pendW s { o with reported := o.reported + k } m.last = [] from by simp [pendW, hst], List.append_nil]
      · intro _
        show o.reported + k ≤ o.sub.length
        have hw := hI.wire.frames (h.hl hh)
        have hl : o.sub.length = s.submitted.length := by rw [← h.subF, List.length_map]
        rw [hl, ← hw]
        simp only [List.length_append]
        omega

theorem log_of_quiescent {s : St} (hI : Inv s) (hq : quiescent s) : ∀ c ∈ s.started, c ∈ s.log := by
  intro c hc
  obtain ⟨hst, hwr, hrd⟩ := hq
  have hw : s.waiters = [] := hI.core.idle (by rw [hI.core.flushWr, hwr]; rfl)
  have h1 := hI.cbs c
  have h3 : 0 < s.started.count c := List.count_pos_iff.2 hc
  simp only [owedList, wrCbs, rdCbs, hst, hwr, hrd, hw, List.flatMap_nil, List.append_nil, List.countP_nil, Nat.add_zero] at h1
  exact List.count_pos_iff.1 (by omega)

theorem sim_finish {s : St} {o : Ob} {m : MS} (hI : Inv s) (h : Coup max s o m []) (hq : quiescent s)
    (hp : s.pending = []) (hr : o.reported = s.wire.length) :
    ∃ m', mrun m [.finish 0 s.healthy] = .ok m' ∧ Coup max s o m' [] := by
  refine ⟨m, mrun_single ?_, h⟩
  show Sonic.Spec.WsAsync.step m (.finish 0 s.healthy) = _
  simp only [Sonic.Spec.WsAsync.step]
  by_cases hh : (s.healthy && m.healthy) = true
  · simp only [Bool.and_eq_true] at hh
    have hdone : m.cbs.any (fun c => !c.done) = false := by
      rw [List.any_eq_false]
      intro c hc
      obtain ⟨h1, h2, _⟩ := h.ledMem c hc
      rw [h2]
      simp [log_of_quiescent hI hq c.id h1]
    have hexp : m.expect = [] := by
      have he := h.exp hh.2
      rw [show pendW s o m.last = [] from by simp [pendW, hq.1], List.append_nil] at he
      have hw := hI.wire.frames hh.1
      simp only [wrBuf, hq.2.1, hp, List.append_nil] at hw
      have hl : o.sub.length = s.wire.length := by
        rw [hw, ← h.subF, List.length_map]
      rw [he, hr, ← hl, List.drop_length]
      rfl
    simp [hh.1, hh.2, hdone, hexp]
  · rw [if_pos]
    cases h1 : s.healthy <;> cases h2 : m.healthy <;> simp_all

/-- Changes of the model state the coupling does not look at (transport progress), possibly with the transport failing. -/
theorem coup_same {s s1 : St} {o : Ob} {m : MS} {x : List CFrame} (hb : Bool) (h : Coup max s o m x)
    (e1 : s1.ws = s.ws) (e2 : s1.submitted = s.submitted) (e3 : s1.started = s.started) (e4 : s1.log = s.log)
    (e5 : s1.readBusy = s.readBusy) (e6 : s1.inbox = s.inbox) (e7 : s1.rd.isSome = true → s.ws.canRead = true)
    (e8 : s1.stack = s.stack)
    (hlocs : ∀ p ∈ locs s1, p ∈ locs s) (hhl : hb = true → m.healthy = true ∧ s1.healthy = true)
    (herr : m.healthy = false → hb = false) : Coup max s1 o { m with healthy := hb } x := by
  have hpw : ∀ l, pendW s1 o l = pendW s o l := fun l => by simp only [pendW, e8, e1]
  refine ⟨h.max, ?_, ?_, ?_, ?_, ?_, ?_, ?_, ?_, h.subM, ?_, (fun hh => h.rep (hhl hh).1), ?_, ?_, h.heldOk, ?_, ?_, ?_, ?_, h.rdr3, h.rdr4, ?_, ?_⟩
  · rw [e3, e4]; exact h.ledMem
  · rw [e3]; exact h.ledAll
  · rw [e8]; exact h.stk
  · rw [e8]; exact h.spec
  · intro cb hc; rw [e8] at hc; exact herr (h.errs cb hc)
  · intro hh; exact (hhl hh).2
  · rw [e8, e1]; exact h.last
  · rw [e2]; exact h.subF
  · intro hh; rw [hpw]; exact h.exp (hhl hh).1
  · rw [e6]; exact h.inb
  · rw [e1]; exact h.rdq
  · have := h.win
    unfold Window at this ⊢
    rw [e8, e1]
    exact this
  · intro p hp; exact h.chain p (hlocs p hp)
  · rw [e5]; exact h.rdr1
  · intro p hp; exact h.rdr2 p (hlocs p hp)
  · rw [e3]; exact h.rdr5
  · intro hr; rw [e1]; exact e7 hr

theorem all_not_special {s : St} {o : Ob} {m : MS} {x : List CFrame} (h : Coup max s o m x) {t : Task} {rest : List Task}
    (hst : s.stack = t :: rest) (ht : special t = false) : ∀ t' ∈ s.stack, special t' = false := by
  intro t' ht'
  rw [hst] at ht'
  rcases List.mem_cons.1 ht' with rfl | h1
  · exact ht
  · apply h.spec; rw [hst]; exact h1

theorem hk_of_locs {s : St} {o : Ob} {m : MS} {x : List CFrame} (h : Coup max s o m x) {k : Cont}
    (hsub : ∀ p ∈ contK k, p ∈ locs s) :
    ∀ p ∈ contK k, compat (kindOf o p.1) p.2 ∧
      (p.2.isRd = true → ∃ b, o.reader = some (p.1, b) ∧ (p.2 = .f → b = false) ∧ (p.2 = .m → b = true)) :=
  fun p hp => ⟨h.chain p (hsub p hp), h.rdr2 p (hsub p hp)⟩

theorem sim_wrote {s s' : St} {o : Ob} {m : MS} {n : Nat} (h : Coup max s o m [])
    (hs : step true prog s (.wrote n) = some s') : Coup max s' o m [] := by
  simp only [step] at hs
  split at hs
  · rename_i rest w hst hwr
    have hlw : ∀ p ∈ contK w.k, p ∈ locs s := fun p hp => by
      simp only [locs, wrK, hwr, List.mem_append]; mem_or
    have hl : m.last = stOf s.ws := last_of_not_window h (by rw [hst]; rfl)
    have hns := all_not_special h hst rfl
    split at hs
    · split at hs
      · cases hs
        refine coup_fl (s1 := _) ?_ (asyncFlushGo_fl _ w.k) hns (Or.inl hl) (fun e => by cases e)
          (hk_of_locs h hlw)
        exact coup_same m.healthy h rfl rfl rfl rfl rfl rfl (fun hr => h.rdCan hr) rfl
          (fun p hp => by
            simp only [locs, wrK, rdK, List.mem_append, List.not_mem_nil, or_false] at hp ⊢
            rcases hp with (h | h) | h <;> mem_or)
          (fun hh => ⟨hh, h.hl hh⟩) (fun hh => hh)
      · cases hs
        exact coup_same m.healthy h rfl rfl rfl rfl rfl rfl (fun hr => h.rdCan hr) rfl
          (fun p hp => by
            simp only [locs, wrK, rdK, hwr, List.mem_append] at hp ⊢
            exact hp)
          (fun hh => ⟨hh, h.hl hh⟩) (fun hh => hh)
    · cases hs
  · cases hs

theorem sim_wrErr {s s' : St} {o : Ob} {m : MS} (h : Coup max s o m [])
    (hs : step true prog s .wrErr = some s') : ∃ m', mrun m [.transportErr] = .ok m' ∧ Coup max s' o m' [] := by
  simp only [step] at hs
  split at hs
  · rename_i rest w hst hwr
    cases hs
    have hlw : ∀ p ∈ contK w.k, p ∈ locs s := fun p hp => by
      simp only [locs, wrK, hwr, List.mem_append]; mem_or
    have hl : m.last = stOf s.ws := last_of_not_window h (by rw [hst]; rfl)
    have hns := all_not_special h hst rfl
    refine ⟨{ m with healthy := false }, mrun_single rfl, ?_⟩
    refine coup_fl (s1 := _) ?_ (flushDone_fl _ w.k false) hns (Or.inl hl) (fun _ => rfl)
      (hk_of_locs h hlw)
    exact coup_same false h rfl rfl rfl rfl rfl rfl (fun hr => h.rdCan hr) rfl
      (fun p hp => by
        simp only [locs, wrK, rdK, List.mem_append, List.not_mem_nil, or_false] at hp ⊢
        rcases hp with (h | h) | h <;> mem_or)
      (fun hh => by cases hh) (fun _ => rfl)
  · cases hs

theorem sim_again {s : St} {o : Ob} {m : MS} {cb : CbId} {rk : RKind} {rest : List Task} (h : Coup max s o m [])
    (hst : s.stack = .again cb rk :: rest) :
    Coup max (asyncFlush true { s with stack := rest } (.readStart cb rk)) o m [] := by
  have hstk := h.stk
  rw [hst, List.filterMap_cons] at hstk
  have hl : m.last = stOf s.ws := last_of_not_window h (by rw [hst]; rfl)
  have h0 : Coup max { s with stack := rest } o m [] :=
    coup_pop h hst rfl m rfl rfl rfl rfl rfl rfl hstk hl (fun c hc => ⟨c, hc, rfl, rfl, rfl⟩) (fun c hc => ⟨c, hc, rfl⟩)
  have hlw : ∀ p ∈ contK (.readStart cb rk), p ∈ locs s := fun p hp => by
    simp only [locs, hst, List.flatMap_cons, taskK, List.mem_append]
    simp only [contK] at hp
    mem_or
  exact coup_fl h0 (asyncFlush_fl _ _) (fun t ht => h.spec t (by rw [hst]; exact ht)) (Or.inl hl) (fun e => by cases e)
    (hk_of_locs h hlw)

theorem enterPush_fail (k : Kind) (last st : StreamState) {r : Res} (hr : r = .eof ∨ r = .err) (f : Option CFrame) :
    enterPush k last st (resOf r) f = [] := by
  rcases hr with rfl | rfl <;> cases f <;> simp [enterPush, failW, resOf]

/-- The read path gives up (end of stream, transport error, closed stream): the reader's callback is scheduled with an
error. -/
theorem coup_rinvoke {s s' : St} {o : Ob} {m : MS} (hb : Bool) (c' : Option CFrame) {cb : CbId} {lk : LK} {r : Res}
    {base : List Task} (h : Coup max s o m [])
    (hloc : (cb, lk) ∈ locs s) (hlk : lk = .f ∨ lk = .m) (hr : r = .eof ∨ r = .err)
    (hstack' : s'.stack = .invoke cb r true :: base)
    (hstk : m.stack.map shapeF = base.filterMap shapeT) (hbmem : ∀ t ∈ base, t ∈ s.stack)
    (hbns : ∀ t ∈ base, special t = false)
    (htop : ∀ t rest, s.stack = t :: rest → special t = false)
    (hws : s'.ws = .terminated ∨ (s'.ws = s.ws ∧ r = .err ∧ c' = none))
    (e2 : s'.submitted = s.submitted) (e3 : s'.started = s.started) (e4 : s'.log = s.log)
    (e5 : s'.readBusy = s.readBusy) (e6 : s'.inbox = s.inbox) (hrd : s'.rd = none)
    (hlocs : ∀ p ∈ locs s', p = (cb, .r) ∨ p ∈ locs s)
    (hhl : hb = true → m.healthy = true ∧ s'.healthy = true) (herr : m.healthy = false → hb = false) :
    Coup max s' { o with cur := c' } { m with healthy := hb } [] := by
  have hcur : o.cur = none := cur_of_not_special h.win htop
  have hp1 : pendW s o m.last = [] := pendW_of_not_special o _ htop
  have hkc := h.chain _ hloc
  obtain ⟨b, hrdr, hb1, hb2⟩ := h.rdr2 _ hloc (by rcases hlk with rfl | rfl <;> rfl)
  have hk3 := h.rdr3 cb b hrdr
  refine ⟨h.max, ?_, ?_, ?_, ?_, ?_, ?_, ?_, ?_, h.subM, ?_, (fun hh => h.rep (hhl hh).1), ?_, ?_, h.heldOk, ?_, ?_, ?_, ?_, h.rdr3, h.rdr4, ?_, ?_⟩
  · rw [e3, e4]; exact h.ledMem
  · rw [e3]; exact h.ledAll
  · rw [hstack', List.filterMap_cons]; exact hstk
  · rw [hstack']; exact hbns
  · intro cb' hc
    rw [hstack'] at hc
    rcases List.mem_cons.1 hc with h1 | h1
    · cases h1
    · exact herr (h.errs cb' (hbmem _ h1))
  · intro hh; exact (hhl hh).2
  · right; rw [hstack']; rfl
  · rw [e2]; exact h.subF
  · intro hh
    have := h.exp (hhl hh).1
    rw [hp1] at this
    show m.expect ++ pendW s' _ m.last = _
    rw [show pendW s' { o with cur := c' } m.last = [] from by
      simp only [pendW, hstack']; exact enterPush_fail _ _ _ hr _]
    exact this
  · rw [e6]; exact h.inb
  · intro hsy hne
    rcases hws with h1 | ⟨h1, _, h3⟩
    · exact absurd h1 hne
    · rw [h1] at hne
      have := h.rdq hsy hne
      rw [hcur] at this
      rw [h3]
      exact this
  · unfold Window
    rw [hstack']
    refine ⟨by rcases hr with rfl | rfl <;> simp, ?_, ?_, ?_⟩
    · intro he
      rcases hws with h1 | ⟨_, h2, _⟩
      · exact h1
      · rw [he] at h2; cases h2
    · intro hkr
      refine ⟨?_, fun h1 => by rcases hr with rfl | rfl <;> simp at h1⟩
      have hbf : b = false := by
        cases b with
        | false => rfl
        | true => rw [show kindOf { o with cur := c' } cb = kindOf o cb from rfl, hk3] at hkr; cases hkr
      exact (h.rdr4 (fun cb' e => by rw [hrdr, hbf] at e; cases e)).1
    · intro _ h1; rcases hr with rfl | rfl <;> cases h1
  · intro p hp
    rcases hlocs p hp with rfl | h1
    · show (kindOf o cb).isRead = true
      rcases hlk with rfl | rfl
      · rw [show kindOf o cb = .read from hkc]; rfl
      · rw [show kindOf o cb = .readMsg from hkc]; rfl
    · exact h.chain p h1
  · rw [e5]; exact h.rdr1
  · intro p hp hrp
    rcases hlocs p hp with rfl | h1
    · exact ⟨b, hrdr, (fun e => by cases e), (fun e => by cases e)⟩
    · exact h.rdr2 p h1 hrp
  · rw [e3]; exact h.rdr5
  · intro hr'; rw [hrd] at hr'; cases hr'

theorem lk_cases (rk : RKind) : rk.lk = .f ∨ rk.lk = .m := by cases rk <;> simp [RKind.lk]

theorem top_not_special {s : St} {t : Task} {rest : List Task} (hst : s.stack = t :: rest) (ht : special t = false) :
    ∀ t' r, s.stack = t' :: r → special t' = false := by
  intro t' r e; rw [hst] at e; cases e; exact ht

theorem sim_rdEof {s s' : St} {o : Ob} {m : MS} (h : Coup max s o m [])
    (hs : step true prog s .rdEof = some s') : Coup max s' { o with cur := some close1006 } m [] := by
  simp only [step] at hs
  split at hs
  · rename_i rest cb rk hst hrd
    cases hs
    have hns := all_not_special h hst rfl
    exact coup_rinvoke (lk := rk.lk) (r := .eof) (base := s.stack) m.healthy (some close1006) h
      (by simp only [locs, rdK, hrd, List.mem_append, List.mem_singleton]; mem_or)
      (lk_cases rk) (Or.inl rfl) rfl h.stk (fun t ht => ht) hns (top_not_special hst rfl) (Or.inl rfl) rfl rfl rfl rfl rfl rfl
      (fun p hp => by
        simp only [locs, push, wrK, rdK, List.cons_append, List.nil_append, List.flatMap_cons, taskK, if_true, List.mem_append,
          List.mem_cons, List.not_mem_nil, or_false] at hp ⊢
        rcases hp with (h | h) | h | h <;> mem_or)
      (fun hh => ⟨hh, h.hl hh⟩) (fun hh => hh)
  · cases hs

theorem sim_rdErr {s s' : St} {o : Ob} {m : MS} (h : Coup max s o m [])
    (hs : step true prog s .rdErr = some s') :
    ∃ m', mrun m [.transportErr] = .ok m' ∧ Coup max s' { o with cur := none } m' [] := by
  simp only [step] at hs
  split at hs
  · rename_i rest cb rk hst hrd
    cases hs
    have hns := all_not_special h hst rfl
    refine ⟨{ m with healthy := false }, mrun_single rfl, ?_⟩
    exact coup_rinvoke (lk := rk.lk) (r := .err) (base := s.stack) false none h
      (by simp only [locs, rdK, hrd, List.mem_append, List.mem_singleton]; mem_or)
      (lk_cases rk) (Or.inr rfl) rfl h.stk (fun t ht => ht) hns (top_not_special hst rfl) (Or.inr ⟨rfl, rfl, rfl⟩) rfl rfl rfl rfl
      rfl rfl
      (fun p hp => by
        simp only [locs, push, wrK, rdK, List.cons_append, List.nil_append, List.flatMap_cons, taskK, if_true, List.mem_append,
          List.mem_cons, List.not_mem_nil, or_false] at hp ⊢
        rcases hp with (h | h) | h | h <;> mem_or)
      (fun hh => by cases hh) (fun _ => rfl)
  · cases hs

theorem sim_resume_fail {s : St} {o : Ob} {m : MS} {cb : CbId} {rk : RKind} {ok : Bool} {rest : List Task}
    (hI : Inv s) (h : Coup max s o m []) (hst : s.stack = .resume cb rk ok :: rest) :
    Coup max (push { s with stack := rest, ws := .terminated } [.invoke cb (if ok then .eof else .err) true])
      { o with cur := none } m [] := by
  have hstk := h.stk
  rw [hst, List.filterMap_cons] at hstk
  have hrd : s.rd = none := rd_none_of_reader_on_stack (cb := cb) hI hst (by simp [taskCbs])
  exact coup_rinvoke (lk := rk.lk) (r := if ok then .eof else .err) (base := rest) m.healthy none h
    (by simp only [locs, hst, List.flatMap_cons, taskK, List.mem_append, List.mem_singleton]; mem_or)
    (lk_cases rk) (by cases ok <;> simp) rfl hstk (fun t ht => by rw [hst]; exact List.mem_cons_of_mem _ ht)
    (fun t ht => h.spec t (by rw [hst]; exact ht)) (top_not_special hst rfl) (Or.inl rfl) rfl rfl rfl rfl rfl
    hrd
    (fun p hp => by
      simp only [locs, push, wrK, rdK, hst, List.cons_append, List.nil_append, List.flatMap_cons, taskK, if_true,
        List.mem_append, List.mem_cons, List.not_mem_nil, or_false] at hp ⊢
      rcases hp with ((h | h) | h) | h | h <;> mem_or)
    (fun hh => ⟨hh, h.hl hh⟩) (fun hh => hh)

theorem sim_resume_arm {s : St} {o : Ob} {m : MS} {cb : CbId} {rk : RKind} {ok : Bool} {rest : List Task}
    (h : Coup max s o m []) (hst : s.stack = .resume cb rk ok :: rest) (hcan : s.ws.canRead = true) :
    Coup max { s with stack := rest, rd := some (cb, rk) } o m [] := by
  have hstk := h.stk
  rw [hst, List.filterMap_cons] at hstk
  have hl : m.last = stOf s.ws := last_of_not_window h (by rw [hst]; rfl)
  have h1 : Coup max { s with rd := some (cb, rk) } o m [] :=
    coup_same m.healthy h rfl rfl rfl rfl rfl rfl (fun _ => hcan) rfl
      (fun p hp => by
        simp only [locs, wrK, rdK, hst, List.flatMap_cons, taskK, List.mem_append, List.mem_singleton] at hp ⊢
        rcases hp with ((h | h) | h) | h | h <;> mem_or)
      (fun hh => ⟨hh, h.hl hh⟩) (fun hh => hh)
  exact coup_pop (s := { s with rd := some (cb, rk) }) h1 hst rfl m rfl rfl rfl rfl rfl rfl hstk hl
    (fun c hc => ⟨c, hc, rfl, rfl, rfl⟩) (fun c hc => ⟨c, hc, rfl⟩)

/-! ### A callback is entered -/

theorem payloads_eq (fs : List CFrame) : payloads fs = Sonic.Spec.WsAsync.payloadsOf fs := rfl

/-- The delivery check of the monitor for the read callback that is about to be entered. -/
theorem deliver_read {s : St} {o : Ob} {m : MS} {cb : CbId} {r : Res} {rest : List Task} (h : Coup max s o m [])
    (hst : s.stack = .invoke cb r true :: rest) (hk : (kindOf o cb).isRead = true) :
    ∃ s1, deliver m (kindOf o cb) (resOf r) (if kindOf o cb == .read then o.cur else none)
        (if kindOf o cb == .readMsg then some (o.macc ++ payloads o.held ++ payloads o.cur.toList) else none) = .ok s1 ∧
      s1.max = m.max ∧ s1.cbs = m.cbs ∧ s1.stack = m.stack ∧ s1.expect = m.expect ∧ s1.last = m.last ∧
      s1.healthy = m.healthy ∧
      (s1.synced = true → s.ws ≠ .terminated → s1.inq = o.inboxC ++ o.net ∧ s1.macc = []) := by
  have hw := h.win
  unfold Window at hw
  rw [hst] at hw
  obtain ⟨hnc, heof, hwr, hwm⟩ := hw
  have hloc : ((cb, LK.r) : CbId × LK) ∈ locs s := by
    simp only [locs, hst, List.flatMap_cons, taskK, if_true, List.mem_append, List.mem_cons]; mem_or
  obtain ⟨b, hrdr, _, _⟩ := h.rdr2 _ hloc rfl
  have hk3 := h.rdr3 cb b hrdr
  -- a result other than ok / proto keeps `synced` only for eof, and then the stream is terminated
  have hsync : ∀ (x : Bool), (m.synced && x) = true → (x = true → r = .eof) → s.ws ≠ .terminated → False := by
    intro x hx hxe hne
    simp only [Bool.and_eq_true] at hx
    exact hne (heof (hxe hx.2))
  cases hkk : kindOf o cb with
  | read =>
    have hbf : b = false := by
      cases b with
      | false => rfl
      | true => rw [hkk] at hk3; cases hk3
    have hmacc : o.macc = [] := (h.rdr4 (fun cb' e => by rw [hrdr, hbf] at e; cases e)).2
    obtain ⟨hheld, hcur⟩ := hwr hkk
    simp only [deliver, beq_self_eq_true, if_true, Sonic.Spec.WsAsync.deliverFrame]
    cases hsy : m.synced with
    | false => exact ⟨m, rfl, rfl, rfl, rfl, rfl, rfl, rfl, fun h1 => by rw [hsy] at h1; cases h1⟩
    | true =>
      simp only [Bool.not_true, Bool.false_eq_true, if_false]
      cases hc : o.cur with
      | none =>
        refine ⟨_, rfl, rfl, rfl, rfl, rfl, rfl, rfl, fun h1 hne => ?_⟩
        exfalso
        refine hsync _ (by rw [hsy]; exact h1) (fun hx => ?_) hne
        cases r <;> simp [resOf] at hx hnc ⊢
      | some g =>
        simp only []
        by_cases hcons : (resOf r == Sonic.Spec.WsAsync.Res.ok || (resOf r == .proto && isViolation g)) = true
        · rw [if_pos hcons]
          have hr : r = .ok ∨ r = .proto := by cases r <;> simp [resOf] at hcons ⊢
          obtain ⟨g', hg', hne⟩ := hcur hr
          rw [hc] at hg'; cases hg'
          obtain ⟨hinq, hma⟩ := h.rdq hsy hne
          rw [hheld, hc] at hinq
          simp only [List.nil_append, Option.toList_some, List.cons_append] at hinq
          rw [hinq]
          simp only [beq_self_eq_true, if_true]
          exact ⟨_, rfl, rfl, rfl, rfl, rfl, rfl, rfl, fun _ _ => ⟨rfl, by rw [show _ = m.macc from rfl, hma, hmacc]⟩⟩
        · rw [if_neg hcons]
          refine ⟨_, rfl, rfl, rfl, rfl, rfl, rfl, rfl, fun h1 hne => ?_⟩
          exfalso
          refine hsync _ (by rw [hsy]; exact h1) (fun hx => ?_) hne
          cases r <;> simp [resOf] at hx ⊢
  | readMsg =>
    simp only [deliver, Sonic.Spec.WsAsync.deliverMsg, show (Kind.readMsg == Kind.readMsg) = true from rfl, if_true]
    cases hsy : m.synced with
    | false => exact ⟨m, rfl, rfl, rfl, rfl, rfl, rfl, rfl, fun h1 => by rw [hsy] at h1; cases h1⟩
    | true =>
      simp only [Bool.not_true, Bool.false_eq_true, if_false]
      by_cases hok : (resOf r == Sonic.Spec.WsAsync.Res.ok) = true
      · rw [if_pos hok]
        have hr : r = .ok := by cases r <;> simp [resOf] at hok ⊢
        obtain ⟨g, hg, hfin, hctl, hne⟩ := hwm hkk hr
        obtain ⟨hinq, hma⟩ := h.rdq hsy hne
        rw [hg] at hinq
        simp only [Option.toList_some, List.nil_append, List.append_assoc, List.cons_append] at hinq
        have htd := Sonic.Spec.WsAsync.takeData_frags (g :: (o.inboxC ++ o.net)) o.held m.macc (m.inq.length + 1) h.heldOk
          (by rw [hinq]; simp; omega)
        rw [← hinq] at htd
        have hpos : m.inq.length + 1 - o.held.length = (m.inq.length - o.held.length) + 1 := by
          rw [hinq]; simp; omega
        rw [hpos] at htd
        simp only [Sonic.Spec.WsAsync.takeData, hctl, hfin, Bool.false_eq_true, if_false, if_true] at htd
        rw [htd]
        simp only [Bool.true_and]
        rw [hg, hma, payloads_eq, payloads_eq]
        simp only [Option.toList_some, Sonic.Spec.WsAsync.payloadsOf, List.flatMap_cons, List.flatMap_nil, List.append_nil,
          beq_self_eq_true, if_true]
        exact ⟨_, rfl, rfl, rfl, rfl, rfl, rfl, rfl, fun _ _ => ⟨rfl, rfl⟩⟩
      · rw [if_neg hok]
        refine ⟨_, rfl, rfl, rfl, rfl, rfl, rfl, rfl, fun h1 hne => ?_⟩
        exfalso
        refine hsync _ (by rw [hsy]; exact h1) (fun hx => ?_) hne
        cases r <;> simp [resOf] at hx hok hnc ⊢
  | _ => rw [hkk] at hk; cases hk

theorem enter_owed {s : St} (hI : Inv s) {cb : CbId} {r : Res} {isRead : Bool} {rest : List Task}
    (hst : s.stack = .invoke cb r isRead :: rest) : cb ∈ s.started ∧ cb ∉ s.log := by
  have h1 := hI.cbs cb
  have h2 := hI.nodup.count (a := cb)
  have h3 : 1 ≤ (owedList s).countP (·.1 == cb) := by
    simp [owedList, hst, List.flatMap_cons, taskCbs, List.countP_append]
    omega
  constructor
  · exact List.count_pos_iff.1 (by omega)
  · intro hl
    have : 0 < s.log.count cb := List.count_pos_iff.2 hl
    split at h2 <;> omega

theorem enter_stack_ns {cb : CbId} {rest : List Task} (as : List Action) (hr : ∀ t ∈ rest, special t = false) :
    ∀ t ∈ as.map Task.call ++ Task.exit cb :: rest, special t = false := by
  intro t ht
  rcases List.mem_append.1 ht with h1 | h1
  · obtain ⟨a, _, rfl⟩ := List.mem_map.1 h1; rfl
  · rcases List.mem_cons.1 h1 with rfl | h2
    · rfl
    · exact hr t h2

theorem enter_stack_shape {cb : CbId} {rest : List Task} (as : List Action) :
    (as.map Task.call ++ Task.exit cb :: rest).filterMap shapeT = .handler cb :: rest.filterMap shapeT := by
  induction as with
  | nil => rfl
  | cons a r ih => simpa [List.filterMap_cons, shapeT] using ih

theorem enter_locs {s : St} {cb : CbId} {r : Res} {isRead : Bool} {rest : List Task} (as : List Action) (lg : List CbId)
    (rb : Bool) (hst : s.stack = .invoke cb r isRead :: rest) {p : CbId × LK}
    (hp : p ∈ locs { s with stack := as.map Task.call ++ Task.exit cb :: rest, log := lg, readBusy := rb }) : p ∈ locs s := by
  have hcalls : (as.map Task.call).flatMap taskK = [] := by
    induction as with
    | nil => rfl
    | cons a r ih => simp [List.flatMap_cons, taskK, ih]
  simp only [locs, wrK, rdK, hst, List.flatMap_append, hcalls, List.flatMap_cons, taskK, List.nil_append, List.mem_append] at hp ⊢
  rcases hp with ((h | h) | h) | h <;> mem_or

theorem head_of_ns {st : List Task} (h : ∀ t ∈ st, special t = false) : ∀ t r, st = t :: r → special t = false :=
  fun t r e => h t (e ▸ List.mem_cons_self ..)

theorem sim_enter {s s' : St} {o : Ob} {m : MS} {cb : CbId} {r : Res} (hI : Inv s) (hI' : Inv s')
    (h : Coup max s o m []) (hs : step true prog s (.enter cb r) = some s') :
    ∃ m', mrun m [.enter cb (resOf r) (if kindOf o cb == .read then o.cur else none)
        (if kindOf o cb == .readMsg then some (o.macc ++ payloads o.held ++ payloads o.cur.toList) else none)
        (stOf s'.ws)] = .ok m' ∧
      Coup max s' (if (kindOf o cb).isRead then { o with held := [], cur := none, macc := [], reader := none } else o) m' [] := by
  simp only [step] at hs
  split at hs
  · rename_i cb' r' isRead rest hst
    split at hs
    · rename_i hcr
      obtain ⟨rfl, rfl⟩ := hcr
      cases hs
      obtain ⟨hstarted, hlog⟩ := enter_owed hI hst
      obtain ⟨c0, hc0, hc0id⟩ := h.ledAll cb hstarted
      have hsome := Sonic.Spec.WsAsync.findCb_isSome_of_mem hc0
      rw [hc0id] at hsome
      obtain ⟨c, hfc⟩ := Option.isSome_iff_exists.1 hsome
      obtain ⟨hcm, hcid⟩ := Sonic.Spec.WsAsync.findCb_some hfc
      obtain ⟨_, hcdone, hckind⟩ := h.ledMem c hcm
      rw [hcid] at hcdone hckind
      have hdone : c.done = false := by rw [hcdone]; simpa using hlog
      have hloc : ((cb, if isRead then LK.r else LK.w) : CbId × LK) ∈ locs s := by
        simp only [locs, hst, List.flatMap_cons, taskK, List.mem_append, List.mem_cons]; mem_or
      have hcomp := h.chain _ hloc
      have hrestns : ∀ t ∈ rest, special t = false := fun t ht => h.spec t (by rw [hst]; exact ht)
      have hstk := h.stk
      rw [hst, List.filterMap_cons] at hstk
      have hw := h.win
      unfold Window at hw
      rw [hst] at hw
      -- ledger clauses after `entered`
      have hled : ∀ (s1 : MS) (ws : List Want), s1.cbs = m.cbs →
          (∀ c' ∈ (setCb (addW s1 ws) { c with done := true }).cbs,
            c'.id ∈ s.started ∧ c'.done = decide (c'.id ∈ s.log ++ [cb]) ∧ c'.kind = kindOf o c'.id) ∧
          (∀ cb0 ∈ s.started, ∃ c' ∈ (setCb (addW s1 ws) { c with done := true }).cbs, c'.id = cb0) := by
        intro s1 ws hcbs
        constructor
        · intro c' hc'
          rcases Sonic.Spec.WsAsync.mem_setCb.1 hc' with rfl | ⟨h1, h2⟩
          · refine ⟨by rw [show ({ c with done := true } : Cb).id = c.id from rfl, hcid]; exact hstarted, ?_, ?_⟩
            · show true = _
              rw [show ({ c with done := true } : Cb).id = c.id from rfl, hcid]; simp
            · show c.kind = kindOf o c.id
              rw [hcid]; exact hckind
          · have h1' : c' ∈ m.cbs := hcbs ▸ h1
            obtain ⟨g1, g2, g3⟩ := h.ledMem c' h1'
            refine ⟨g1, ?_, g3⟩
            rw [g2]
            have : c'.id ≠ cb := fun e => h2 (by rw [e]; exact hcid.symm)
            simp [this]
        · intro cb0 hcb0
          obtain ⟨c1, hc1, e1⟩ := h.ledAll cb0 hcb0
          by_cases e : c1.id = c.id
          · exact ⟨{ c with done := true }, Sonic.Spec.WsAsync.mem_setCb.2 (Or.inl rfl), by rw [← e1, e]⟩
          · exact ⟨c1, Sonic.Spec.WsAsync.mem_setCb.2 (Or.inr ⟨hcbs ▸ hc1, e⟩), e1⟩
      cases isRead with
      | false =>
        have hkf : (kindOf o cb).isRead = false := hcomp
        have hk1 : (kindOf o cb == Kind.read) = false := by cases hkk : kindOf o cb <;> simp_all [Kind.isRead]
        have hk2 : (kindOf o cb == Kind.readMsg) = false := by cases hkk : kindOf o cb <;> simp_all [Kind.isRead]
        obtain ⟨hcur, hnp, hinl, hla⟩ := hw
        simp only [hk1, hk2, hkf, Bool.false_eq_true, if_false]
        have hdel : deliver m c.kind (resOf r) none none = .ok m := by
          rw [hckind]
          cases hkk : kindOf o cb <;> simp_all [deliver, Kind.isRead] <;> rfl
        have h1 : (!c.kind.isRead && c.returned && resOf r != Sonic.Spec.WsAsync.Res.ok && m.healthy) = false := by
          rw [hckind, hkf]
          cases r with
          | ok => simp [resOf]
          | err =>
            have := h.errs cb (by rw [hst]; exact List.mem_cons_self ..)
            simp [this]
          | proto => exact absurd rfl hnp
          | cancelled =>
            obtain ⟨c1, hc1, hr1⟩ := hinl (Or.inl rfl)
            rw [hfc] at hc1; cases hc1; simp [hr1]
          | eof =>
            obtain ⟨c1, hc1, hr1⟩ := hinl (Or.inr (Or.inl rfl))
            rw [hfc] at hc1; cases hc1; simp [hr1]
          | tooBig =>
            obtain ⟨c1, hc1, hr1⟩ := hinl (Or.inr (Or.inr rfl))
            rw [hfc] at hc1; cases hc1; simp [hr1]
        have h2 : (!c.kind.isRead && !c.returned && (resOf r == Sonic.Spec.WsAsync.Res.cancelled || resOf r == .eof) &&
            m.last == StreamState.active) = false := by
          cases r with
          | cancelled => have := hla (Or.inl rfl); simp [this]
          | eof => have := hla (Or.inr rfl); simp [this]
          | _ => simp [resOf]
        refine ⟨entered m c cb (resOf r) none (stOf s.ws), mrun_single (Sonic.Spec.WsAsync.step_enter hfc hdone h1 h2 hdel), ?_⟩
        have hep : enterPush c.kind m.last (stOf s.ws) (resOf r) none = [] := by
          rw [hckind]; simp [enterPush, failW, hkf]
        obtain ⟨hl1, hl2⟩ := hled m (enterPush c.kind m.last (stOf s.ws) (resOf r) none) rfl
        have hns' := enter_stack_ns (cb := cb) (prog cb) hrestns
        refine ⟨h.max, hl1, hl2, ?_, fun t ht => hns' t (List.mem_of_mem_tail ht), ?_, ?_, Or.inl rfl, h.subF, h.subM, ?_,
          (fun hh => h.rep (by have : (m.healthy && resOf r != Sonic.Spec.WsAsync.Res.err) = true := hh; simp only [Bool.and_eq_true] at this; exact this.1)),
          h.inb, h.rdq, h.heldOk, window_of_not_special (head_of_ns hns') hcur, fun p hp => h.chain p (enter_locs _ _ _ hst hp),
          h.rdr1, fun p hp => h.rdr2 p (enter_locs _ _ _ hst hp), h.rdr3, h.rdr4, h.rdr5, h.rdCan⟩
        · show (Sonic.Spec.WsAsync.Frame.handler cb :: m.stack).map shapeF = _
          rw [enter_stack_shape, List.map_cons, hstk]; rfl
        · intro cb1 hc1
          have : Task.invoke cb1 .err false ∈ rest := by
            rcases List.mem_append.1 hc1 with h3 | h3
            · obtain ⟨a, _, e⟩ := List.mem_map.1 h3; cases e
            · rcases List.mem_cons.1 h3 with e | h4
              · cases e
              · exact h4
          have := h.errs cb1 (by rw [hst]; exact List.mem_cons_of_mem _ this)
          show (m.healthy && _) = false
          simp [this]
        · intro hh
          have : m.healthy = true := by
            have : (m.healthy && resOf r != Sonic.Spec.WsAsync.Res.err) = true := hh
            simp only [Bool.and_eq_true] at this; exact this.1
          exact h.hl this
        · intro hh
          have hmh : m.healthy = true := by
            have : (m.healthy && resOf r != Sonic.Spec.WsAsync.Res.err) = true := hh
            simp only [Bool.and_eq_true] at this; exact this.1
          have he := h.exp hmh
          rw [show pendW s o m.last = [] from by simp [pendW, hst], List.append_nil] at he
          show (m.expect ++ enterPush c.kind m.last (stOf s.ws) (resOf r) none) ++ pendW _ o _ = _
          rw [hep, List.append_nil, pendW_of_not_special (s := _) o _ (head_of_ns hns'), List.append_nil]
          exact he
      | true =>
        have hkt : (kindOf o cb).isRead = true := hcomp
        obtain ⟨s1, hdel, e1, e2, e3, e4, e5, e6, hq⟩ := deliver_read h hst hkt
        simp only [hkt, if_true]
        have h1 : (!c.kind.isRead && c.returned && resOf r != Sonic.Spec.WsAsync.Res.ok && m.healthy) = false := by
          rw [hckind, hkt]; simp
        have h2 : (!c.kind.isRead && !c.returned && (resOf r == Sonic.Spec.WsAsync.Res.cancelled || resOf r == .eof) &&
            m.last == StreamState.active) = false := by
          rw [hckind, hkt]; simp
        have hdel' : deliver m c.kind (resOf r) (if kindOf o cb == .read then o.cur else none)
            (if kindOf o cb == .readMsg then some (o.macc ++ payloads o.held ++ payloads o.cur.toList) else none) = .ok s1 := by
          rw [hckind]; exact hdel
        refine ⟨entered s1 c cb (resOf r) (if kindOf o cb == .read then o.cur else none) (stOf s.ws),
          mrun_single (Sonic.Spec.WsAsync.step_enter hfc hdone h1 h2 hdel'), ?_⟩
        obtain ⟨hl1, hl2⟩ := hled s1 (enterPush c.kind s1.last (stOf s.ws) (resOf r) (if kindOf o cb == .read then o.cur else none)) e2
        have hns' := enter_stack_ns (cb := cb) (prog cb) hrestns
        refine ⟨e1.trans h.max, hl1, hl2, ?_, fun t ht => hns' t (List.mem_of_mem_tail ht), ?_, ?_, Or.inl rfl, h.subF, h.subM, ?_,
          (fun hh => h.rep (by have : (s1.healthy && resOf r != Sonic.Spec.WsAsync.Res.err) = true := hh; rw [e6] at this; simp only [Bool.and_eq_true] at this; exact this.1)),
          h.inb, ?_, (fun g hg => by cases hg), window_of_not_special (head_of_ns hns') rfl,
          fun p hp => h.chain p (enter_locs _ _ _ hst hp), rfl, ?_, (fun cb b e => by cases e), (fun _ => ⟨rfl, rfl⟩), (fun cb b e => by cases e), h.rdCan⟩
        · show (Sonic.Spec.WsAsync.Frame.handler cb :: s1.stack).map shapeF = _
          rw [enter_stack_shape, List.map_cons, e3, hstk]; rfl
        · intro cb1 hc1
          have : Task.invoke cb1 .err false ∈ rest := by
            rcases List.mem_append.1 hc1 with h3 | h3
            · obtain ⟨a, _, e⟩ := List.mem_map.1 h3; cases e
            · rcases List.mem_cons.1 h3 with e | h4
              · cases e
              · exact h4
          have := h.errs cb1 (by rw [hst]; exact List.mem_cons_of_mem _ this)
          show (s1.healthy && _) = false
          rw [e6]; simp [this]
        · intro hh
          have : (s1.healthy && resOf r != Sonic.Spec.WsAsync.Res.err) = true := hh
          rw [e6] at this
          simp only [Bool.and_eq_true] at this
          exact h.hl this.1
        · intro hh
          have hmh : m.healthy = true := by
            have : (s1.healthy && resOf r != Sonic.Spec.WsAsync.Res.err) = true := hh
            rw [e6] at this
            simp only [Bool.and_eq_true] at this; exact this.1
          have he := h.exp hmh
          show (s1.expect ++ enterPush c.kind s1.last (stOf s.ws) (resOf r) (if kindOf o cb == .read then o.cur else none)) ++
            pendW _ _ _ = (o.sub.drop o.reported).map (·.want)
          rw [pendW_of_not_special (s := _) _ _ (head_of_ns hns'), List.append_nil, e4, e5, hckind]
          rw [show pendW s o m.last = enterPush (kindOf o cb) m.last (stOf s.ws) (resOf r)
            (if kindOf o cb == .read then o.cur else none) from by simp only [pendW, hst]] at he
          exact he
        · intro hsy hne
          obtain ⟨g1, g2⟩ := hq hsy hne
          refine ⟨?_, g2⟩
          show s1.inq = [] ++ [] ++ [] ++ o.inboxC ++ o.net
          rw [g1]; simp
        · intro p hp hrp
          exfalso
          have hreads := hI'.reads
          have hmem := List.mem_map_of_mem (f := eraseK) hp
          rw [← owed_eq_locs] at hmem
          have := List.countP_pos_iff.2 ⟨eraseK p, hmem, (show (eraseK p).2 = true from hrp)⟩
          exact absurd hreads (Nat.ne_of_gt this)
    · cases hs
  · cases hs

/-! ### The control callback -/

theorem sim_ctl {s s' : St} {o : Ob} {m : MS} (h : Coup max s o m []) (hs : step true prog s .ctl = some s') :
    ∃ m', mrun m [.ctl (o.cur.getD default).op (o.cur.getD default).payload (stOf s'.ws)] = .ok m' ∧
      Coup max s' { o with macc := o.macc ++ payloads o.held, held := [], cur := none } m' [] := by
  simp only [step] at hs
  split at hs
  · rename_i rest hst
    cases hs
    have hw := h.win
    unfold Window at hw
    rw [hst] at hw
    obtain ⟨g, hg, hctl, hne⟩ := hw
    have hgd : o.cur.getD default = g := by rw [hg]; rfl
    rw [hgd]
    have hstk := h.stk
    rw [hst, List.filterMap_cons] at hstk
    have hns := head_not_special hst h.spec
    -- the delivery check
    have hdel : ∃ s1, Sonic.Spec.WsAsync.deliverCtl m g.op g.payload = .ok s1 ∧ s1.max = m.max ∧ s1.cbs = m.cbs ∧
        s1.stack = m.stack ∧ s1.expect = m.expect ∧ s1.last = m.last ∧ s1.healthy = m.healthy ∧ s1.synced = m.synced ∧
        (m.synced = true → s1.inq = o.inboxC ++ o.net ∧ s1.macc = o.macc ++ payloads o.held) := by
      unfold Sonic.Spec.WsAsync.deliverCtl
      cases hsy : m.synced with
      | false => exact ⟨m, rfl, rfl, rfl, rfl, rfl, rfl, rfl, hsy, fun h1 => by cases h1⟩
      | true =>
        simp only [Bool.not_true, Bool.false_eq_true, if_false]
        obtain ⟨hinq, hma⟩ := h.rdq hsy hne
        rw [hg] at hinq
        simp only [Option.toList_some, List.nil_append, List.append_assoc, List.cons_append, List.append_nil] at hinq
        have htd := Sonic.Spec.WsAsync.takeData_frags (g :: (o.inboxC ++ o.net)) o.held m.macc (m.inq.length + 1) h.heldOk
          (by rw [hinq]; simp; omega)
        rw [← hinq] at htd
        have hpos : m.inq.length + 1 - o.held.length = (m.inq.length - o.held.length) + 1 := by
          rw [hinq]; simp; omega
        rw [hpos] at htd
        simp only [Sonic.Spec.WsAsync.takeData, hctl, if_true] at htd
        rw [htd]
        simp only [hctl, beq_self_eq_true, Bool.and_self, if_true]
        exact ⟨_, rfl, rfl, rfl, rfl, rfl, rfl, rfl, rfl, fun _ => ⟨rfl, by rw [hma]; rfl⟩⟩
    obtain ⟨s1, hd, e1, e2, e3, e4, e5, e6, e7, hq⟩ := hdel
    refine ⟨{ (addW s1 (replyFor s1.last { fin := true, rsv := 0, op := g.op, masked := false, payload := g.payload }).toList)
              with last := stOf s.ws }, mrun_single ?_, ?_⟩
    · show Sonic.Spec.WsAsync.step m (.ctl g.op g.payload (stOf s.ws)) = _
      simp only [Sonic.Spec.WsAsync.step, hd, bind, Except.bind, pure, Except.pure, Sonic.Spec.WsAsync.pushReply_eq]
    · have hpw : pendW s o m.last = (replyFor m.last { fin := true, rsv := 0, op := g.op, masked := false, payload := g.payload }).toList := by
        simp only [pendW, hst, hgd]
      refine ⟨e1.trans h.max, ?_, ?_, ?_, ?_, ?_, ?_, Or.inl rfl, h.subF, h.subM, ?_, (fun hh => h.rep (e6 ▸ hh)), h.inb, ?_, (fun g' hg' => by cases hg'),
        window_of_not_special hns rfl, fun p hp => h.chain p (locs_pop hst hp), h.rdr1, fun p hp => h.rdr2 p (locs_pop hst hp),
        h.rdr3, ?_, h.rdr5, h.rdCan⟩
      · show ∀ c ∈ s1.cbs, _
        rw [e2]; exact h.ledMem
      · show ∀ cb ∈ s.started, ∃ c ∈ s1.cbs, _
        rw [e2]; exact h.ledAll
      · show s1.stack.map shapeF = _
        rw [e3]; exact hstk
      · intro t ht; apply h.spec; rw [hst, List.tail_cons]; exact List.mem_of_mem_tail ht
      · intro cb hc
        show s1.healthy = false
        rw [e6]; exact h.errs cb (by rw [hst]; exact List.mem_cons_of_mem _ hc)
      · intro hh; exact h.hl (e6 ▸ hh)
      · intro hh
        have he := h.exp (e6 ▸ hh)
        show (s1.expect ++ _) ++ pendW _ _ _ = _
        rw [pendW_of_not_special (s := _) _ _ hns, List.append_nil, e4, e5, ← hpw]
        exact he
      · intro hsy _
        have hsy' : m.synced = true := e7 ▸ hsy
        obtain ⟨g1, g2⟩ := hq hsy'
        refine ⟨?_, g2⟩
        show s1.inq = [] ++ [] ++ [] ++ o.inboxC ++ o.net
        rw [g1]; simp
      · intro hr
        obtain ⟨g1, g2⟩ := h.rdr4 hr
        exact ⟨rfl, by show o.macc ++ payloads o.held = []; rw [g1, g2]; rfl⟩
  · cases hs

/-! ### A call is made -/

theorem locs_started {s : St} (hI : Inv s) : ∀ p ∈ locs s, p.1 ∈ s.started := by
  intro p hp
  have hmem := List.mem_map_of_mem (f := eraseK) hp
  rw [← owed_eq_locs] at hmem
  have h1 := hI.cbs p.1
  have : 0 < (owedList s).countP (·.1 == p.1) := List.countP_pos_iff.2 ⟨eraseK p, hmem, by simp [eraseK]⟩
  exact List.count_pos_iff.1 (by omega)

theorem log_started {s : St} (hI : Inv s) : ∀ c ∈ s.log, c ∈ s.started := by
  intro c hc
  have h1 := hI.cbs c
  have : 0 < s.log.count c := List.count_pos_iff.2 hc
  exact List.count_pos_iff.1 (by omega)

theorem kindOf_cons_self (o : Ob) (cb : CbId) (k : Kind) (rd : Option (CbId × Bool)) :
    kindOf { o with kinds := (cb, k) :: o.kinds, reader := rd } cb = k := by
  simp [kindOf, List.lookup]

theorem kindOf_cons_ne (o : Ob) {cb cb' : CbId} (k : Kind) (rd : Option (CbId × Bool)) (hne : cb' ≠ cb) :
    kindOf { o with kinds := (cb, k) :: o.kinds, reader := rd } cb' = kindOf o cb' := by
  have : (cb' == cb) = false := by simpa using hne
  simp [kindOf, List.lookup, this]

/-- the monitor after `start m cb k` -/
def started (m : MS) (cb : CbId) (k : Kind) : MS :=
  { (setCb m { id := cb, kind := k }) with stack := .call (some cb) :: m.stack }

/-- Registering a call: the callback id is fresh, the call's frame is on both stacks. -/
theorem coup_start {s0 : St} {o : Ob} {m : MS} {cb : CbId} (k : Kind) (hI : Inv s0) (h : Coup max s0 o m [])
    (hns : ∀ t ∈ s0.stack, special t = false) (hlast : m.last = stOf s0.ws) (hfresh : cb ∉ s0.started)
    (hrb : k.isRead = true → s0.readBusy = false) :
    Sonic.Spec.WsAsync.start m cb k = .ok (started m cb k) ∧
    Coup max { s0 with stack := .ret :: s0.stack, started := s0.started ++ [cb],
                       readBusy := if k.isRead then true else s0.readBusy }
      { o with kinds := (cb, k) :: o.kinds, reader := if k.isRead then some (cb, k == .readMsg) else o.reader }
      (started m cb k) [] := by
  have hnone : findCb m cb = none := by
    unfold findCb
    rw [List.find?_eq_none]
    intro c hc hid
    exact hfresh ((by simpa using hid : c.id = cb) ▸ (h.ledMem c hc).1)
  have hcur : o.cur = none := cur_of_not_special h.win (head_of_ns hns)
  have hp0 : pendW s0 o m.last = [] := pendW_of_not_special o _ (head_of_ns hns)
  refine ⟨by simp [Sonic.Spec.WsAsync.start, hnone, started], ?_⟩
  refine ⟨h.max, ?_, ?_, ?_, hns, ?_, h.hl, Or.inl hlast, h.subF, h.subM, ?_, h.rep, h.inb, h.rdq, h.heldOk, hcur, ?_, ?_, ?_, ?_, ?_,
    ?_, h.rdCan⟩
  · intro c hc
    rcases Sonic.Spec.WsAsync.mem_setCb.1 hc with rfl | ⟨h1, h2⟩
    · refine ⟨List.mem_append_right _ (List.mem_singleton.2 rfl), ?_, (kindOf_cons_self o cb k _).symm⟩
      show false = decide (cb ∈ s0.log)
      have : cb ∉ s0.log := fun hl => hfresh (log_started hI cb hl)
      simp [this]
    · obtain ⟨g1, g2, g3⟩ := h.ledMem c h1
      exact ⟨List.mem_append_left _ g1, g2, by rw [kindOf_cons_ne o k _ h2]; exact g3⟩
  · intro cb0 hcb0
    rcases List.mem_append.1 hcb0 with h1 | h1
    · obtain ⟨c1, hc1, e1⟩ := h.ledAll cb0 h1
      by_cases e : c1.id = cb
      · exact ⟨_, Sonic.Spec.WsAsync.mem_setCb.2 (Or.inl rfl), by rw [← e1, e]⟩
      · exact ⟨c1, Sonic.Spec.WsAsync.mem_setCb.2 (Or.inr ⟨hc1, e⟩), e1⟩
    · rw [List.mem_singleton.1 h1]
      exact ⟨_, Sonic.Spec.WsAsync.mem_setCb.2 (Or.inl rfl), rfl⟩
  · show (Sonic.Spec.WsAsync.Frame.call (some cb) :: m.stack).map shapeF = (Task.ret :: s0.stack).filterMap shapeT
    rw [List.map_cons, List.filterMap_cons, h.stk]; rfl
  · intro cb1 hc1
    rcases List.mem_cons.1 hc1 with e | h1
    · cases e
    · exact h.errs cb1 h1
  · intro hh
    have := h.exp hh
    rw [hp0] at this
    show m.expect ++ pendW _ _ m.last = _
    rw [show pendW _ _ m.last = [] from by simp [pendW]]
    exact this
  · intro p hp
    have hp' : p ∈ locs s0 := by
      simp only [locs, wrK, rdK, List.flatMap_cons, taskK, List.nil_append] at hp ⊢; exact hp
    have hne : p.1 ≠ cb := fun e => hfresh (e ▸ locs_started hI p hp')
    rw [kindOf_cons_ne o k _ hne]
    exact h.chain p hp'
  · show (if k.isRead then true else s0.readBusy) = Option.isSome (if k.isRead then some (cb, k == .readMsg) else o.reader)
    cases hk : k.isRead with
    | true => rfl
    | false => exact h.rdr1
  · intro p hp hr
    have hp' : p ∈ locs s0 := by
      simp only [locs, wrK, rdK, List.flatMap_cons, taskK, List.nil_append] at hp ⊢; exact hp
    obtain ⟨b, hb, g1, g2⟩ := h.rdr2 p hp' hr
    cases hk : k.isRead with
    | true =>
      have := h.rdr1
      rw [hrb hk, hb] at this
      cases this
    | false => exact ⟨b, by simp only [Bool.false_eq_true, if_false]; exact hb, g1, g2⟩
  · intro cb1 b hb
    cases hk : k.isRead with
    | true =>
      simp only [hk, if_true, Option.some.injEq, Prod.mk.injEq] at hb
      obtain ⟨rfl, rfl⟩ := hb
      rw [kindOf_cons_self]
      cases k <;> simp_all [Kind.isRead]
    | false =>
      simp only [hk, Bool.false_eq_true, if_false] at hb
      have hk3 := h.rdr3 cb1 b hb
      have hne : cb1 ≠ cb := fun e => hfresh (e ▸ h.rdr5 cb1 b hb)
      rw [kindOf_cons_ne o k _ hne]
      exact hk3
  · intro hr
    apply h.rdr4
    intro cb1 e
    cases hk : k.isRead with
    | true =>
      have := h.rdr1
      rw [hrb hk, e] at this
      cases this
    | false => exact hr cb1 (by simp only [hk, Bool.false_eq_true, if_false]; exact e)
  · intro cb1 b hb
    cases hk : k.isRead with
    | true =>
      simp only [hk, if_true, Option.some.injEq, Prod.mk.injEq] at hb
      rw [← hb.1]
      exact List.mem_append_right _ (List.mem_singleton.2 rfl)
    | false =>
      simp only [hk, Bool.false_eq_true, if_false] at hb
      exact List.mem_append_left _ (h.rdr5 cb1 b hb)

theorem ret_stack_ns {s1 : St} {o : Ob} {m : MS} (h : Coup max s1 o m []) {rest : List Task} (hst : s1.stack = .ret :: rest) :
    ∀ t ∈ s1.stack, special t = false := all_not_special h hst rfl

/-- A write-side call that is refused (or whose message is too big) completes inside the call. -/
theorem coup_inline {s1 : St} {o : Ob} {m : MS} {cb : CbId} {r : Res} {rest : List Task} (h : Coup max s1 o m [])
    (hst : s1.stack = .ret :: rest) (hr : r = .cancelled ∨ r = .eof ∨ r = .tooBig)
    (hk : (kindOf o cb).isRead = false) (hret : ∃ c, findCb m cb = some c ∧ c.returned = false)
    (hla : r = .cancelled ∨ r = .eof → m.last ≠ .active) (hlast : m.last = stOf s1.ws) :
    Coup max (push s1 [.invoke cb r false]) o m [] := by
  have hns := ret_stack_ns h hst
  have hcur : o.cur = none := cur_of_not_special h.win (head_of_ns hns)
  have hp0 : pendW s1 o m.last = [] := pendW_of_not_special o _ (head_of_ns hns)
  refine ⟨h.max, h.ledMem, h.ledAll, ?_, hns, ?_, h.hl, Or.inl hlast, h.subF, h.subM, ?_, h.rep, h.inb, h.rdq, h.heldOk, ?_, ?_,
    h.rdr1, ?_, h.rdr3, h.rdr4, h.rdr5, h.rdCan⟩
  · show m.stack.map shapeF = (Task.invoke cb r false :: s1.stack).filterMap shapeT
    rw [List.filterMap_cons]; exact h.stk
  · intro cb1 hc1
    rcases List.mem_cons.1 hc1 with e | h1
    · cases e; rcases hr with h2 | h2 | h2 <;> cases h2
    · exact h.errs cb1 h1
  · intro hh
    have := h.exp hh
    rw [hp0] at this
    show m.expect ++ pendW _ _ m.last = _
    rw [show pendW (push s1 [Task.invoke cb r false]) o m.last = [] from by simp [pendW, push]]
    exact this
  · show Window (push s1 [Task.invoke cb r false]) o m
    unfold Window
    simp only [push, List.cons_append, List.nil_append]
    exact ⟨hcur, by rcases hr with h2 | h2 | h2 <;> rw [h2] <;> simp, fun _ => hret, hla⟩
  · intro p hp
    simp only [locs, push, wrK, rdK, List.cons_append, List.nil_append, List.flatMap_cons, taskK, Bool.false_eq_true, if_false,
      List.mem_append, List.mem_cons, List.not_mem_nil, or_false] at hp
    rcases hp with ((h1 | h1) | h1) | h1 | h1
    · exact h.chain p (by simp only [locs, List.mem_append]; mem_or)
    · exact h.chain p (by simp only [locs, wrK, List.mem_append]; mem_or)
    · exact h.chain p (by simp only [locs, rdK, List.mem_append]; mem_or)
    · rw [h1]; exact hk
    · exact h.chain p (by simp only [locs, List.mem_append]; mem_or)
  · intro p hp hrp
    simp only [locs, push, wrK, rdK, List.cons_append, List.nil_append, List.flatMap_cons, taskK, Bool.false_eq_true, if_false,
      List.mem_append, List.mem_cons, List.not_mem_nil, or_false] at hp
    rcases hp with ((h1 | h1) | h1) | h1 | h1
    · exact h.rdr2 p (by simp only [locs, List.mem_append]; mem_or) hrp
    · exact h.rdr2 p (by simp only [locs, wrK, List.mem_append]; mem_or) hrp
    · exact h.rdr2 p (by simp only [locs, rdK, List.mem_append]; mem_or) hrp
    · rw [h1] at hrp; cases hrp
    · exact h.rdr2 p (by simp only [locs, List.mem_append]; mem_or) hrp

/-- `prepareWrite` inside a call: the frame is queued and the monitor notes the obligation at the same event. -/
theorem coup_prepare {s1 : St} {o : Ob} {m : MS} {rest : List Task} (ws' : WsState) (y : Sub) (h : Coup max s1 o m [])
    (hst : s1.stack = .ret :: rest) (hws : ws' = s1.ws ∨ (s1.ws = .active ∧ ws' = .closedByUs))
    (hm : y.want.matches y.wf = true) :
    Coup max (prepare { s1 with ws := ws' } y.frame) { o with sub := o.sub ++ [y] }
      { m with expect := m.expect ++ [y.want] } [] := by
  have hns := ret_stack_ns h hst
  have hcur : o.cur = none := cur_of_not_special h.win (head_of_ns hns)
  have hp0 : pendW s1 o m.last = [] := pendW_of_not_special o _ (head_of_ns hns)
  have hne : ws' ≠ .terminated → s1.ws ≠ .terminated := by
    rcases hws with h1 | ⟨h1, _⟩
    · rw [h1]; exact fun x => x
    · rw [h1]; intro _ e; cases e
  refine ⟨h.max, h.ledMem, h.ledAll, h.stk, h.spec, h.errs, h.hl, ?_, ?_, ?_, ?_, ?_, h.inb, ?_, h.heldOk, ?_, ?_,
    h.rdr1, ?_, h.rdr3, h.rdr4, h.rdr5, ?_⟩
  · right; show windowTop s1.stack = true; rw [hst]; rfl
  · show (o.sub ++ [y]).map (·.frame) = s1.submitted ++ [y.frame]
    rw [List.map_append, h.subF]; rfl
  · intro z hz
    rcases List.mem_append.1 hz with h1 | h1
    · exact h.subM z h1
    · rw [List.mem_singleton.1 h1]; exact hm
  · intro hh
    have he := h.exp hh
    have hr := h.rep hh
    rw [hp0, List.append_nil] at he
    show (m.expect ++ [y.want]) ++ pendW _ _ m.last = ((o.sub ++ [y]).drop o.reported).map (·.want)
    rw [show pendW (prepare { s1 with ws := ws' } y.frame) { o with sub := o.sub ++ [y] } m.last = [] from by
      simp [pendW, prepare, hst], List.append_nil, List.drop_append_of_le_length hr, List.map_append, he]
    rfl
  · intro hh
    show o.reported ≤ (o.sub ++ [y]).length
    have := h.rep hh
    simp only [List.length_append]; omega
  · intro hsy hn; exact h.rdq hsy (hne hn)
  · show Window (prepare { s1 with ws := ws' } y.frame) _ _
    unfold Window
    simp only [prepare, hst]
    exact hcur
  · intro p hp; exact h.chain p hp
  · intro p hp; exact h.rdr2 p hp
  · intro hrd
    have := h.rdCan hrd
    rcases hws with h1 | ⟨_, h1⟩
    · show ws'.canRead = true; rw [h1]; exact this
    · show ws'.canRead = true; rw [h1]; rfl

theorem stOf_active {ws : WsState} : stOf ws = .active ↔ ws = .active := by cases ws <;> simp [stOf]

theorem matches_exact (fin : Bool) (op : Nat) (p : Bytes) : (Want.exact fin op p).matches (wfOf fin op p) = true := by
  simp [Want.matches, wfOf]

theorem matches_close (c : Nat) (rest : Bytes) (h : rest.length ≤ 123) :
    (Want.closeCode c).matches (wfOf true 8 (u16 c ++ rest)) = true := by
  simp [Want.matches, wfOf, u16, List.take_take]
  omega

theorem findCb_started (m : MS) (cb : CbId) (k : Kind) :
    findCb (started m cb k) cb = some { id := cb, kind := k } := by
  simp [findCb, started, setCb]

/-- the observer after a call has been registered and its frame (if any) queued -/
def obCall (o : Ob) (c : Call) (fs : List OutFrame) : Ob :=
  { o with sub := o.sub ++ fs.map (conc (some c) none),
           kinds := (match c.reg with | some p => p :: o.kinds | none => o.kinds),
           reader := (match c with
             | .read cb => some (cb, false)
             | .readMsg cb _ => some (cb, true)
             | _ => o.reader) }

/-- a write-side call on a stream that accepts it: register, queue the frame, flush -/
theorem begin_submit {s0 : St} {o : Ob} {m : MS} {cb : CbId} (k : Kind) (ws' : WsState) (y : Sub) (hI : Inv s0)
    (h : Coup max s0 o m []) (hns : ∀ t ∈ s0.stack, special t = false) (hlast : m.last = stOf s0.ws)
    (hfresh : cb ∉ s0.started) (hk : k.isRead = false)
    (hws : ws' = s0.ws ∨ (s0.ws = .active ∧ ws' = .closedByUs)) (hm : y.want.matches y.wf = true) :
    Coup max (asyncFlush true (prepare { s0 with stack := .ret :: s0.stack, started := s0.started ++ [cb], ws := ws' } y.frame)
        (.user cb))
      { o with sub := o.sub ++ [y], kinds := (cb, k) :: o.kinds }
      { (started m cb k) with expect := m.expect ++ [y.want] } [] := by
  obtain ⟨_, h1⟩ := coup_start k hI h hns hlast hfresh (fun e => by rw [hk] at e; cases e)
  simp only [hk, Bool.false_eq_true, if_false] at h1
  have h2 := coup_prepare ws' y h1 rfl hws hm
  refine coup_fl (s1 := _) h2 (asyncFlush_fl _ (.user cb)) ?_ (Or.inr (asyncFlush_nopush _ _ (by simp [prepare]))) (fun e => by cases e) ?_
  · intro t ht
    rcases List.mem_cons.1 ht with rfl | h3
    · rfl
    · exact hns t h3
  · intro p hp
    simp only [contK, List.mem_singleton] at hp
    subst hp
    refine ⟨?_, fun e => by cases e⟩
    show (kindOf _ cb).isRead = false
    rw [show kindOf { o with sub := o.sub ++ [y], kinds := (cb, k) :: o.kinds } cb = k from by simp [kindOf, List.lookup]]
    exact hk

/-- a write-side call that completes inside the call with a refusal -/
theorem begin_refuse {s0 : St} {o : Ob} {m : MS} {cb : CbId} (k : Kind) (r : Res) (hI : Inv s0)
    (h : Coup max s0 o m []) (hns : ∀ t ∈ s0.stack, special t = false) (hlast : m.last = stOf s0.ws)
    (hfresh : cb ∉ s0.started) (hk : k.isRead = false) (hr : r = .cancelled ∨ r = .eof ∨ r = .tooBig)
    (hla : r = .cancelled ∨ r = .eof → s0.ws ≠ .active) :
    Coup max (push { s0 with stack := .ret :: s0.stack, started := s0.started ++ [cb] } [.invoke cb r false])
      { o with kinds := (cb, k) :: o.kinds } (started m cb k) [] := by
  obtain ⟨_, h1⟩ := coup_start k hI h hns hlast hfresh (fun e => by rw [hk] at e; cases e)
  simp only [hk, Bool.false_eq_true, if_false] at h1
  refine coup_inline h1 rfl hr ?_ ⟨_, findCb_started m cb k, rfl⟩ ?_ hlast
  · rw [show kindOf { o with kinds := (cb, k) :: o.kinds } cb = k from by simp [kindOf, List.lookup]]
    exact hk
  · intro h3 e
    exact hla h3 (stOf_active.1 (hlast ▸ e))

/-- a call that only flushes (AsyncFlush, and the flush before a read) -/
theorem begin_flush {s0 : St} {o : Ob} {m : MS} {cb : CbId} (k : Kind) (kc : Cont) (hI : Inv s0)
    (h : Coup max s0 o m []) (hns : ∀ t ∈ s0.stack, special t = false) (hlast : m.last = stOf s0.ws)
    (hfresh : cb ∉ s0.started) (hrb : k.isRead = true → s0.readBusy = false)
    (hkc : contK kc = [(cb, if k == .read then .f else if k == .readMsg then .m else .w)]) :
    Coup max
      (asyncFlush true { s0 with stack := .ret :: s0.stack, started := s0.started ++ [cb], readBusy := if k.isRead then true else s0.readBusy } kc)
      { o with kinds := (cb, k) :: o.kinds, reader := if k.isRead then some (cb, k == .readMsg) else o.reader }
      (started m cb k) [] := by
  obtain ⟨_, h1⟩ := coup_start k hI h hns hlast hfresh hrb
  refine coup_fl (s1 := _) h1 (asyncFlush_fl _ kc) ?_ (Or.inl hlast) (fun e => by cases e) ?_
  · intro t ht
    rcases List.mem_cons.1 ht with rfl | h3
    · rfl
    · exact hns t h3
  · intro p hp
    rw [hkc, List.mem_singleton] at hp
    subst hp
    simp only []
    rw [kindOf_cons_self]
    cases k <;> simp [compat, Kind.isRead, LK.isRd]

theorem obCall_nil (o : Ob) : obCall o .poll [] = o := by
  simp [obCall, Call.reg]

theorem obCall_nil' (o : Ob) (c : Call) : obCall o c [] =
    { o with kinds := (match c.reg with | some p => p :: o.kinds | none => o.kinds),
             reader := (match c with
               | .read cb => some (cb, false)
               | .readMsg cb _ => some (cb, true)
               | _ => o.reader) } := by
  simp [obCall]

theorem drop_self_append {α : Type} (l fs : List α) : (l ++ fs).drop l.length = fs := by
  simp

theorem sim_begin {s0 : St} {o : Ob} {m : MS} {c : Call} (hI : Inv s0) (h : Coup max s0 o m [])
    (hns : ∀ t ∈ s0.stack, special t = false) (hlast : m.last = stOf s0.ws) (hok : callOk s0 (c.action max) = true) :
    ∃ m', mrun m [c.ev] = .ok m' ∧
      Coup max (beginCall true s0 (c.action max))
        (obCall o c ((beginCall true s0 (c.action max)).submitted.drop s0.submitted.length)) m' [] := by
  have hcur : o.cur = none := cur_of_not_special h.win (head_of_ns hns)
  have hp0 : pendW s0 o m.last = [] := pendW_of_not_special o _ (head_of_ns hns)
  cases c with
  | poll =>
    refine ⟨{ m with stack := .call none :: m.stack }, mrun_single rfl, ?_⟩
    simp only [Call.action, beginCall, List.drop_length, obCall_nil]
    refine ⟨h.max, h.ledMem, h.ledAll, ?_, hns, ?_, h.hl, Or.inl hlast, h.subF, h.subM, ?_, h.rep, h.inb, h.rdq, h.heldOk, hcur,
      ?_, h.rdr1, ?_, h.rdr3, h.rdr4, h.rdr5, h.rdCan⟩
    · show (Sonic.Spec.WsAsync.Frame.call none :: m.stack).map shapeF = (Task.pollRet :: s0.stack).filterMap shapeT
      rw [List.map_cons, List.filterMap_cons, h.stk]; rfl
    · intro cb1 hc1
      rcases List.mem_cons.1 hc1 with e | h1
      · cases e
      · exact h.errs cb1 h1
    · intro hh
      have := h.exp hh
      rw [hp0] at this
      show m.expect ++ pendW _ _ m.last = _
      rw [show pendW _ _ m.last = [] from by simp [pendW]]
      exact this
    · intro p hp
      exact h.chain p (by simp only [locs, wrK, rdK, List.flatMap_cons, taskK, List.nil_append] at hp ⊢; exact hp)
    · intro p hp
      exact h.rdr2 p (by simp only [locs, wrK, rdK, List.flatMap_cons, taskK, List.nil_append] at hp ⊢; exact hp)
  | read cb =>
    simp only [Call.action, callOk, Action.cb?, Action.isRead, Bool.and_eq_true, Bool.not_eq_true', Bool.true_and] at hok
    have hfresh : cb ∉ s0.started := by simpa using hok.1
    obtain ⟨hstart, _⟩ := coup_start (cb := cb) .read hI h hns hlast hfresh (fun _ => hok.2)
    have hb := begin_flush (cb := cb) .read (.readStart cb .frame) hI h hns hlast hfresh (fun _ => hok.2) rfl
    refine ⟨started m cb .read, mrun_single hstart, ?_⟩
    have hs : (beginCall true s0 (.read cb)).submitted = s0.submitted := by
      simp only [beginCall, doCall, Action.cb?, asyncFlush_submitted]
    simp only [Call.action, hs, List.drop_length]
    rw [obCall_nil']
    exact hb
  | readMsg cb room =>
    simp only [Call.action, callOk, Action.cb?, Action.isRead, Bool.and_eq_true, Bool.not_eq_true', Bool.true_and] at hok
    have hfresh : cb ∉ s0.started := by simpa using hok.1
    obtain ⟨hstart, _⟩ := coup_start (cb := cb) .readMsg hI h hns hlast hfresh (fun _ => hok.2)
    have hb := begin_flush (cb := cb) .readMsg (.readStart cb (.message room false)) hI h hns hlast hfresh (fun _ => hok.2) rfl
    refine ⟨started m cb .readMsg, mrun_single hstart, ?_⟩
    have hs : (beginCall true s0 (.readMsg cb room)).submitted = s0.submitted := by
      simp only [beginCall, doCall, Action.cb?, asyncFlush_submitted]
    simp only [Call.action, hs, List.drop_length]
    rw [obCall_nil']
    exact hb
  | flush cb =>
    simp only [Call.action, callOk, Action.cb?, Action.isRead, Bool.not_eq_true', Bool.false_and, Bool.not_false,
      Bool.and_true] at hok
    have hfresh : cb ∉ s0.started := by simpa using hok
    obtain ⟨hstart, _⟩ := coup_start (cb := cb) .flush hI h hns hlast hfresh (fun e => by cases e)
    have hb := begin_flush (cb := cb) .flush (.user cb) hI h hns hlast hfresh (fun e => by cases e) rfl
    refine ⟨started m cb .flush, mrun_single hstart, ?_⟩
    have hs : (beginCall true s0 (.flush cb)).submitted = s0.submitted := by
      simp only [beginCall, doCall, Action.cb?, asyncFlush_submitted]
    simp only [Call.action, hs, List.drop_length]
    rw [obCall_nil']
    exact hb
  | write cb ty len =>
    by_cases hlen : len > max
    · have ha : (Call.write cb ty len).action max = .writeTooBig cb := by simp [Call.action, hlen]
      rw [ha] at hok ⊢
      simp only [callOk, Action.cb?, Action.isRead, Bool.not_eq_true', Bool.false_and, Bool.not_false, Bool.and_true] at hok
      have hfresh : cb ∉ s0.started := by simpa using hok
      obtain ⟨hstart, _⟩ := coup_start (cb := cb) .write hI h hns hlast hfresh (fun e => by cases e)
      have hb := begin_refuse (cb := cb) .write .tooBig hI h hns hlast hfresh rfl (Or.inr (Or.inr rfl))
        (fun e => by rcases e with e | e <;> cases e)
      refine ⟨started m cb .write, mrun_single ?_, ?_⟩
      · show Sonic.Spec.WsAsync.step m (.callWrite cb ty len) = _
        have : ¬ len ≤ m.max := by rw [h.max]; omega
        simp [Sonic.Spec.WsAsync.step, hstart, bind, Except.bind, pure, Except.pure, this]
      · have hs : (beginCall true s0 (.writeTooBig cb)).submitted = s0.submitted := rfl
        simp only [hs, List.drop_length]
        rw [obCall_nil']
        exact hb
    · have ha : (Call.write cb ty len).action max = .write cb (frameSize len) := by simp [Call.action, hlen]
      rw [ha] at hok ⊢
      simp only [callOk, Action.cb?, Action.isRead, Bool.not_eq_true', Bool.false_and, Bool.not_false, Bool.and_true] at hok
      have hfresh : cb ∉ s0.started := by simpa using hok
      obtain ⟨hstart, _⟩ := coup_start (cb := cb) .write hI h hns hlast hfresh (fun e => by cases e)
      by_cases hws : s0.ws = .active
      · have hb := begin_submit (cb := cb) .write s0.ws (subExact ⟨.app cb, frameSize len⟩ true ty (pattern cb len)) hI h hns hlast
          hfresh rfl (Or.inl rfl) (matches_exact ..)
        refine ⟨{ (started m cb .write) with expect := m.expect ++ [.exact true ty (pattern cb len)] }, mrun_single ?_, ?_⟩
        · show Sonic.Spec.WsAsync.step m (.callWrite cb ty len) = _
          have h1 : len ≤ m.max := by rw [h.max]; omega
          have h2 : m.last = .active := by rw [hlast, hws]; rfl
          simp [Sonic.Spec.WsAsync.step, hstart, bind, Except.bind, pure, Except.pure, h1, h2, Sonic.Spec.WsAsync.S.push, started]
          rfl
        · have hbc : beginCall true s0 (.write cb (frameSize len)) =
              asyncFlush true (prepare { s0 with stack := .ret :: s0.stack, started := s0.started ++ [cb], ws := s0.ws } ⟨.app cb, frameSize len⟩) (.user cb) := by
            simp [beginCall, doCall, Action.cb?, hws]
          have hs : (beginCall true s0 (.write cb (frameSize len))).submitted = s0.submitted ++ [⟨.app cb, frameSize len⟩] := by
            rw [hbc, asyncFlush_submitted]; rfl
          rw [hs, drop_self_append, hbc]
          exact hb
      · have hb := begin_refuse (cb := cb) .write .cancelled hI h hns hlast hfresh rfl (Or.inl rfl) (fun _ => hws)
        refine ⟨started m cb .write, mrun_single ?_, ?_⟩
        · show Sonic.Spec.WsAsync.step m (.callWrite cb ty len) = _
          have h2 : ¬ m.last = .active := by rw [hlast]; exact fun e => hws (stOf_active.1 e)
          simp [Sonic.Spec.WsAsync.step, hstart, bind, Except.bind, pure, Except.pure, h2]
        · have hbc : beginCall true s0 (.write cb (frameSize len)) =
              push { s0 with stack := .ret :: s0.stack, started := s0.started ++ [cb] } [.invoke cb .cancelled false] := by
            simp [beginCall, doCall, Action.cb?, hws]
          have hs : (beginCall true s0 (.write cb (frameSize len))).submitted = s0.submitted := by rw [hbc]; rfl
          rw [hs, List.drop_length, obCall_nil', hbc]
          exact hb
  | writeFrame cb fin op len =>
    simp only [Call.action, callOk, Action.cb?, Action.isRead, Bool.not_eq_true', Bool.false_and, Bool.not_false,
      Bool.and_true] at hok
    have hfresh : cb ∉ s0.started := by simpa using hok
    obtain ⟨hstart, _⟩ := coup_start (cb := cb) .writeFrame hI h hns hlast hfresh (fun e => by cases e)
    by_cases hws : s0.ws = .active
    · have hb := begin_submit (cb := cb) .writeFrame s0.ws (subExact ⟨.app cb, frameSize len⟩ fin op (pattern cb len)) hI h hns
        hlast hfresh rfl (Or.inl rfl) (matches_exact ..)
      refine ⟨{ (started m cb .writeFrame) with expect := m.expect ++ [.exact fin op (pattern cb len)] }, mrun_single ?_, ?_⟩
      · show Sonic.Spec.WsAsync.step m (.callWriteFrame cb fin op len) = _
        have h2 : m.last = .active := by rw [hlast, hws]; rfl
        simp [Sonic.Spec.WsAsync.step, hstart, bind, Except.bind, pure, Except.pure, h2, Sonic.Spec.WsAsync.S.push, started]
        rfl
      · have hbc : beginCall true s0 (.writeFrame cb (frameSize len)) =
            asyncFlush true (prepare { s0 with stack := .ret :: s0.stack, started := s0.started ++ [cb], ws := s0.ws } ⟨.app cb, frameSize len⟩) (.user cb) := by
          simp [beginCall, doCall, Action.cb?, hws]
        have hs : (beginCall true s0 (.writeFrame cb (frameSize len))).submitted = s0.submitted ++ [⟨.app cb, frameSize len⟩] := by
          rw [hbc, asyncFlush_submitted]; rfl
        simp only [Call.action]
        rw [hs, drop_self_append, hbc]
        exact hb
    · have hb := begin_refuse (cb := cb) .writeFrame .cancelled hI h hns hlast hfresh rfl (Or.inl rfl) (fun _ => hws)
      refine ⟨started m cb .writeFrame, mrun_single ?_, ?_⟩
      · show Sonic.Spec.WsAsync.step m (.callWriteFrame cb fin op len) = _
        have h2 : ¬ m.last = .active := by rw [hlast]; exact fun e => hws (stOf_active.1 e)
        simp [Sonic.Spec.WsAsync.step, hstart, bind, Except.bind, pure, Except.pure, h2]
      · have hbc : beginCall true s0 (.writeFrame cb (frameSize len)) =
            push { s0 with stack := .ret :: s0.stack, started := s0.started ++ [cb] } [.invoke cb .cancelled false] := by
          simp [beginCall, doCall, Action.cb?, hws]
        have hs : (beginCall true s0 (.writeFrame cb (frameSize len))).submitted = s0.submitted := by rw [hbc]; rfl
        simp only [Call.action]
        rw [hs, List.drop_length, obCall_nil', hbc]
        exact hb
  | close cb code reason =>
    simp only [Call.action, callOk, Action.cb?, Action.isRead, Bool.not_eq_true', Bool.false_and, Bool.not_false,
      Bool.and_true] at hok
    have hfresh : cb ∉ s0.started := by simpa using hok
    obtain ⟨hstart, _⟩ := coup_start (cb := cb) .close hI h hns hlast hfresh (fun e => by cases e)
    by_cases hws : s0.ws = .active
    · have hb := begin_submit (cb := cb) .close .closedByUs
        (subExact ⟨.closeApp cb, frameSize (2 + reason.length)⟩ true 8 (u16 code ++ reason)) hI h hns
        hlast hfresh rfl (Or.inr ⟨hws, rfl⟩) (matches_exact ..)
      refine ⟨{ (started m cb .close) with expect := m.expect ++ [.exact true 8 (u16 code ++ reason)] }, mrun_single ?_, ?_⟩
      · show Sonic.Spec.WsAsync.step m (.callClose cb code reason) = _
        have h2 : m.last = .active := by rw [hlast, hws]; rfl
        simp [Sonic.Spec.WsAsync.step, hstart, bind, Except.bind, pure, Except.pure, h2, Sonic.Spec.WsAsync.S.push, started]
        rfl
      · have hbc : beginCall true s0 (.close cb (frameSize (2 + reason.length))) =
            asyncFlush true (prepare { s0 with stack := .ret :: s0.stack, started := s0.started ++ [cb], ws := .closedByUs } ⟨.closeApp cb, frameSize (2 + reason.length)⟩) (.user cb) := by
          simp [beginCall, doCall, Action.cb?, asyncClose, hws]
        have hs : (beginCall true s0 (.close cb (frameSize (2 + reason.length)))).submitted =
            s0.submitted ++ [⟨.closeApp cb, frameSize (2 + reason.length)⟩] := by
          rw [hbc, asyncFlush_submitted]; rfl
        simp only [Call.action]
        rw [hs, drop_self_append, hbc]
        exact hb
    · have hr : ∃ r, (r = Res.cancelled ∨ r = Res.eof) ∧ beginCall true s0 (.close cb (frameSize (2 + reason.length))) =
          push { s0 with stack := .ret :: s0.stack, started := s0.started ++ [cb] } [.invoke cb r false] := by
        cases hw : s0.ws with
        | active => exact absurd hw hws
        | closedByUs => exact ⟨.cancelled, Or.inl rfl, by simp [beginCall, doCall, Action.cb?, asyncClose, hw]⟩
        | closedByPeer => exact ⟨.eof, Or.inr rfl, by simp [beginCall, doCall, Action.cb?, asyncClose, hw]⟩
        | closeAcked => exact ⟨.eof, Or.inr rfl, by simp [beginCall, doCall, Action.cb?, asyncClose, hw]⟩
        | terminated => exact ⟨.eof, Or.inr rfl, by simp [beginCall, doCall, Action.cb?, asyncClose, hw]⟩
      obtain ⟨r, hr1, hbc⟩ := hr
      have hb := begin_refuse (cb := cb) .close r hI h hns hlast hfresh rfl
        (by rcases hr1 with e | e <;> rw [e] <;> simp) (fun _ => hws)
      refine ⟨started m cb .close, mrun_single ?_, ?_⟩
      · show Sonic.Spec.WsAsync.step m (.callClose cb code reason) = _
        have h2 : ¬ m.last = .active := by rw [hlast]; exact fun e => hws (stOf_active.1 e)
        simp [Sonic.Spec.WsAsync.step, hstart, bind, Except.bind, pure, Except.pure, h2]
      · have hs : (beginCall true s0 (.close cb (frameSize (2 + reason.length)))).submitted = s0.submitted := by rw [hbc]; rfl
        simp only [Call.action]
        rw [hs, List.drop_length, obCall_nil', hbc]
        exact hb

/-! ### The read path handles a frame -/

theorem conc_frame (c : Option Call) (g : Option CFrame) (f : OutFrame) : (conc c g f).frame = f := by
  unfold conc
  split <;> rfl

/-- The read path has taken frame `g` from the buffer (it is about to handle it). -/
theorem coup_take {s : St} {o : Ob} {m : MS} {g : CFrame} {restC net' : List CFrame} (rd' : Option (CbId × RKind))
    (h : Coup max s o m []) (hq : o.inboxC ++ o.net = g :: restC ++ net') (hrd : rd' = none ∨ rd' = s.rd) :
    Coup max { s with rd := rd', inbox := restC.map absFrame } { o with inboxC := restC, net := net' } m [g] := by
  have hlocs : ∀ p ∈ locs { s with rd := rd', inbox := restC.map absFrame }, p ∈ locs s := by
    intro p hp
    rcases hrd with rfl | rfl
    · simp only [locs, wrK, rdK, List.mem_append, List.not_mem_nil, or_false] at hp ⊢
      rcases hp with (h1 | h1) | h1 <;> mem_or
    · exact hp
  refine ⟨h.max, h.ledMem, h.ledAll, h.stk, h.spec, h.errs, h.hl, h.last, h.subF, h.subM, h.exp, h.rep, rfl, ?_, h.heldOk, h.win,
    fun p hp => h.chain p (hlocs p hp), h.rdr1, fun p hp => h.rdr2 p (hlocs p hp), h.rdr3, h.rdr4, h.rdr5, ?_⟩
  · intro hsy hne
    obtain ⟨h1, h2⟩ := h.rdq hsy hne
    refine ⟨?_, h2⟩
    show m.inq = o.held ++ o.cur.toList ++ [g] ++ restC ++ net'
    rw [h1]
    simp only [List.append_nil, List.append_assoc]
    rw [hq]
    simp
  · intro hr
    rcases hrd with rfl | rfl
    · cases hr
    · exact h.rdCan hr

/-- Generic form of "the read path has handled frame `g`": the frames it queued are `news`, the tasks it scheduled are
`tops`; what is specific to the outcome is passed in. -/
theorem coup_onframe {s0 s' : St} {o0 : Ob} {m : MS} {g : CFrame} {cb : CbId} {lk : LK}
    (h0 : Coup max s0 o0 m [g]) (hns : ∀ t ∈ s0.stack, special t = false)
    (news : List OutFrame) (tops : List Task) (held' : List CFrame) (cur' : Option CFrame)
    (e_sub : s'.submitted = s0.submitted ++ news) (e_stack : s'.stack = tops ++ s0.stack)
    (e_started : s'.started = s0.started) (e_log : s'.log = s0.log) (e_rb : s'.readBusy = s0.readBusy)
    (e_inbox : s'.inbox = s0.inbox) (e_healthy : s'.healthy = s0.healthy) (e_rd : s'.rd = none)
    (hlocs : ∀ p ∈ locs s', p ∈ locs s0 ∨ p = (cb, .r) ∨ p = (cb, lk))
    (hkind : compat (kindOf o0 cb) lk)
    (hreader : ∃ b, o0.reader = some (cb, b) ∧ (lk = .f → b = false) ∧ (lk = .m → b = true))
    (hlkr : lk = .f ∨ lk = .m)
    (hmat : ∀ fr ∈ news, (conc none (some g) fr).want.matches (conc none (some g) fr).wf = true)
    (hws : s0.ws ≠ .terminated)
    (htopsShape : ∀ t ∈ tops, shapeT t = none) (htail : ∀ t ∈ tops.tail, special t = false)
    (herrs : ∀ cb1, Task.invoke cb1 .err false ∉ tops)
    (hheld : held' ++ cur'.toList = o0.held ++ [g])
    (hheldOk : ∀ x ∈ held', controlOp x.op = false ∧ x.fin = false)
    (hrdr4 : (∀ cb', o0.reader ≠ some (cb', true)) → held' = [])
    (hlast' : m.last = stOf s'.ws ∨ windowTop s'.stack = true)
    (hpend : pendW s' { o0 with sub := o0.sub ++ news.map (conc none (some g)), held := held', cur := cur' } m.last =
      news.map (fun fr => (conc none (some g) fr).want))
    (hwin : Window s' { o0 with sub := o0.sub ++ news.map (conc none (some g)), held := held', cur := cur' } m) :
    Coup max s' { o0 with sub := o0.sub ++ news.map (conc none (some g)), held := held', cur := cur' } m [] := by
  have hcur0 : o0.cur = none := cur_of_not_special h0.win (head_of_ns hns)
  have hp0 : pendW s0 o0 m.last = [] := pendW_of_not_special o0 _ (head_of_ns hns)
  obtain ⟨b, hb, hbf, hbm⟩ := hreader
  have hfilter : ∀ (l : List Task), (∀ t ∈ l, shapeT t = none) → l.filterMap shapeT = [] := by
    intro l hl
    induction l with
    | nil => rfl
    | cons t r ih =>
      rw [List.filterMap_cons, hl t (List.mem_cons_self ..)]
      exact ih (fun y hy => hl y (List.mem_cons_of_mem _ hy))
  refine ⟨h0.max, ?_, ?_, ?_, ?_, ?_, ?_, hlast', ?_, ?_, ?_, ?_, ?_, ?_, hheldOk, hwin, ?_, ?_, ?_, h0.rdr3, ?_, ?_, ?_⟩
  · rw [e_started, e_log]; exact h0.ledMem
  · rw [e_started]; exact h0.ledAll
  · rw [e_stack, List.filterMap_append, hfilter tops htopsShape, List.nil_append]; exact h0.stk
  · intro t ht
    rw [e_stack] at ht
    cases tops with
    | nil => exact hns t (List.mem_of_mem_tail ht)
    | cons t0 r =>
      simp only [List.cons_append, List.tail_cons] at ht
      rcases List.mem_append.1 ht with h1 | h1
      · exact htail t h1
      · exact hns t h1
  · intro cb1 hc1
    rw [e_stack] at hc1
    rcases List.mem_append.1 hc1 with h1 | h1
    · exact absurd h1 (herrs cb1)
    · exact h0.errs cb1 h1
  · rw [e_healthy]; exact h0.hl
  · show (o0.sub ++ news.map (conc none (some g))).map (·.frame) = s'.submitted
    rw [List.map_append, h0.subF, e_sub, List.map_map]
    congr 1
    have : ((fun x : Sub => x.frame) ∘ conc none (some g)) = id := by funext fr; exact conc_frame _ _ fr
    rw [this, List.map_id]
  · intro y hy
    rcases List.mem_append.1 hy with h1 | h1
    · exact h0.subM y h1
    · obtain ⟨fr, hfr, rfl⟩ := List.mem_map.1 h1
      exact hmat fr hfr
  · intro hh
    have he := h0.exp hh
    have hr := h0.rep hh
    rw [hp0, List.append_nil] at he
    rw [hpend]
    show _ = ((o0.sub ++ news.map (conc none (some g))).drop o0.reported).map (·.want)
    rw [List.drop_append_of_le_length hr, List.map_append, he, List.map_map]
    rfl
  · intro hh
    show o0.reported ≤ (o0.sub ++ news.map (conc none (some g))).length
    have := h0.rep hh
    simp only [List.length_append]; omega
  · rw [e_inbox]; exact h0.inb
  · intro hsy _
    obtain ⟨h1, h2⟩ := h0.rdq hsy hws
    refine ⟨?_, h2⟩
    show m.inq = held' ++ cur'.toList ++ [] ++ o0.inboxC ++ o0.net
    rw [h1, hcur0, hheld]
    simp
  · intro p hp
    rcases hlocs p hp with h1 | rfl | rfl
    · exact h0.chain p h1
    · show (kindOf o0 cb).isRead = true
      rcases hlkr with rfl | rfl
      · rw [show kindOf o0 cb = .read from hkind]; rfl
      · rw [show kindOf o0 cb = .readMsg from hkind]; rfl
    · exact hkind
  · rw [e_rb]; exact h0.rdr1
  · intro p hp hrp
    rcases hlocs p hp with h1 | rfl | rfl
    · exact h0.rdr2 p h1 hrp
    · exact ⟨b, hb, (fun e => by cases e), (fun e => by cases e)⟩
    · exact ⟨b, hb, hbf, hbm⟩
  · intro hr
    exact ⟨hrdr4 hr, (h0.rdr4 hr).2⟩
  · rw [e_started]; exact h0.rdr5
  · intro hr; rw [e_rd] at hr; cases hr

end Sonic.Model.WsAsyncObs
