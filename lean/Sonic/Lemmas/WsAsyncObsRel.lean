/-
The coupling invariant between the asynchronous WebSocket model (with the observer of `Model/WsAsyncObs.lean`) and
the C17 property monitor, and how library code that only schedules completions keeps it (`coup_fl`).
-/
import Sonic.Model.WsAsyncObs
import Sonic.Lemmas.WsAsyncObsLib
import Sonic.Lemmas.WsAsyncObsMon

namespace Sonic.Model.WsAsyncObs
open Sonic.Model.WsAsync
open Sonic.Spec.WsStream (Bytes StreamState replyCode closeCodeOf u16 isViolation controlOp)
open Sonic.Spec.WsAsync (Cb Ev Kind Want WireFrame findCb setCb enterPush failW addW entered deliver replyFor)

abbrev MS := Sonic.Spec.WsAsync.S
abbrev mstep := Sonic.Spec.WsAsync.step
abbrev mrun := Sonic.Spec.WsAsync.run

/-- what the monitor's stack records of the model's control stack -/
inductive Shape where
  | call | poll | handler (cb : Nat)
  deriving DecidableEq, Repr

def shapeF : Sonic.Spec.WsAsync.Frame → Shape
  | .call (some _) => .call
  | .call none => .poll
  | .handler cb => .handler cb

def shapeT : Task → Option Shape
  | .ret => some .call
  | .pollRet => some .poll
  | .exit cb => some (.handler cb)
  | _ => none

/-- tasks that only ever sit on top of the control stack: the entry of a read callback, of a write-side callback that
completes inside its own call, and the control callback -/
def special : Task → Bool
  | .invoke _ _ true => true
  | .invoke _ r false => r != .ok && r != .err
  | .ctl => true
  | _ => false

/-- the monitor's `last` may lag behind `State()` while one of these is on top: it is brought up to date by the event
of that task -/
def windowTop : List Task → Bool
  | .ret :: _ => true
  | .invoke _ _ true :: _ => true
  | .ctl :: _ => true
  | _ => false

def compat (k : Kind) : LK → Prop
  | .w => k.isRead = false
  | .f => k = .read
  | .m => k = .readMsg
  | .r => k.isRead = true

/-- frames the model has already queued for which the monitor will note the obligation at the coming event -/
def pendW (s : St) (o : Ob) (last : StreamState) : List Want :=
  match s.stack with
  | .invoke cb r true :: _ =>
    enterPush (kindOf o cb) last (stOf s.ws) (resOf r) (if kindOf o cb == .read then o.cur else none)
  | .ctl :: _ =>
    let g := o.cur.getD default
    (replyFor last { fin := true, rsv := 0, op := g.op, masked := false, payload := g.payload }).toList
  | _ => []

/-- what holds while a callback entry is on top of the control stack -/
def Window (s : St) (o : Ob) (m : MS) : Prop :=
  match s.stack with
  | .invoke cb r true :: _ =>
    r ≠ .cancelled ∧ (r = .eof → s.ws = .terminated) ∧
    (kindOf o cb = .read → o.held = [] ∧ ((r = .ok ∨ r = .proto) → ∃ g, o.cur = some g ∧ s.ws ≠ .terminated)) ∧
    (kindOf o cb = .readMsg → r = .ok →
      ∃ g, o.cur = some g ∧ g.fin = true ∧ controlOp g.op = false ∧ s.ws ≠ .terminated)
  | .ctl :: _ => ∃ g, o.cur = some g ∧ controlOp g.op = true ∧ s.ws ≠ .terminated
  | .invoke cb r false :: _ =>
    o.cur = none ∧ r ≠ .proto ∧
    (r = .cancelled ∨ r = .eof ∨ r = .tooBig → ∃ c, findCb m cb = some c ∧ c.returned = false) ∧
    (r = .cancelled ∨ r = .eof → m.last ≠ .active)
  | _ => o.cur = none

/-- The coupling invariant. `x`: frames the read path is about to take (between taking and handling). -/
structure Coup (max : Nat) (s : St) (o : Ob) (m : MS) (x : List CFrame) : Prop where
  max : m.max = max
  ledMem : ∀ c ∈ m.cbs, c.id ∈ s.started ∧ c.done = decide (c.id ∈ s.log) ∧ c.kind = kindOf o c.id
  ledAll : ∀ cb ∈ s.started, ∃ c ∈ m.cbs, c.id = cb
  stk : m.stack.map shapeF = s.stack.filterMap shapeT
  spec : ∀ t ∈ s.stack.tail, special t = false
  errs : ∀ cb, Task.invoke cb .err false ∈ s.stack → m.healthy = false
  hl : m.healthy = true → s.healthy = true
  last : m.last = stOf s.ws ∨ windowTop s.stack = true
  subF : o.sub.map (·.frame) = s.submitted
  subM : ∀ y ∈ o.sub, y.want.matches y.wf = true
  exp : m.healthy = true → m.expect ++ pendW s o m.last = (o.sub.drop o.reported).map (·.want)
  rep : m.healthy = true → o.reported ≤ o.sub.length
  inb : o.inboxC.map absFrame = s.inbox
  rdq : m.synced = true → s.ws ≠ .terminated →
    m.inq = o.held ++ o.cur.toList ++ x ++ o.inboxC ++ o.net ∧ m.macc = o.macc
  heldOk : ∀ g ∈ o.held, controlOp g.op = false ∧ g.fin = false
  win : Window s o m
  chain : ∀ p ∈ locs s, compat (kindOf o p.1) p.2
  rdr1 : s.readBusy = o.reader.isSome
  rdr2 : ∀ p ∈ locs s, p.2.isRd = true → ∃ b, o.reader = some (p.1, b) ∧ (p.2 = .f → b = false) ∧ (p.2 = .m → b = true)
  rdr3 : ∀ cb b, o.reader = some (cb, b) → kindOf o cb = (if b then .readMsg else .read)
  rdr4 : (∀ cb, o.reader ≠ some (cb, true)) → o.held = [] ∧ o.macc = []
  rdr5 : ∀ cb b, o.reader = some (cb, b) → cb ∈ s.started
  rdCan : s.rd.isSome = true → s.ws.canRead = true

theorem coup_init (max : Nat) : Coup max {} {} { max := max } [] := by
  refine ⟨rfl, ?_, ?_, rfl, ?_, ?_, fun _ => rfl, Or.inl rfl, rfl, ?_, fun _ => rfl, (fun _ => Nat.le_refl _), rfl, fun _ _ => ⟨rfl, rfl⟩, ?_, rfl, ?_, rfl,
    ?_, ?_, fun _ => ⟨rfl, rfl⟩, ?_, ?_⟩
  · intro c hc; cases hc
  · intro cb hc; cases hc
  · intro t ht; cases ht
  · intro cb hc; cases hc
  · intro y hy; cases hy
  · intro g hg; cases hg
  · intro p hp; cases hp
  · intro p hp; cases hp
  · intro cb b h; cases h
  · intro cb b h; cases h
  · intro h; cases h

/-! ### Tasks scheduled by the flush machinery -/

theorem quiet_shape {ok : Bool} {t : Task} (h : quietT ok t) : shapeT t = none := by
  cases t <;> first | rfl | exact absurd h (by simp [quietT])

theorem quiet_special {ok : Bool} {t : Task} (h : quietT ok t) : special t = false := by
  cases t with
  | invoke cb r isRead =>
    cases isRead with
    | true => exact absurd h (by simp [quietT])
    | false =>
      simp only [quietT] at h
      subst h
      cases ok <;> rfl
  | resume => rfl
  | _ => exact absurd h (by simp [quietT])

theorem filterMap_quiet {ok : Bool} : ∀ (new : List Task), (∀ t ∈ new, quietT ok t) → new.filterMap shapeT = []
  | [], _ => rfl
  | t :: r, h => by
    rw [List.filterMap_cons, quiet_shape (h t (List.mem_cons_self ..))]
    exact filterMap_quiet r (fun y hy => h y (List.mem_cons_of_mem _ hy))

/-- with a non-special task (or nothing) on top, nothing is pending for the monitor and no frame is held for a callback -/
theorem pendW_of_not_special {s : St} (o : Ob) (last : StreamState)
    (h : ∀ t rest, s.stack = t :: rest → special t = false) : pendW s o last = [] := by
  unfold pendW
  split
  · rename_i cb r rest hst; exact absurd (h _ _ hst) (by simp [special])
  · rename_i rest hst; exact absurd (h _ _ hst) (by simp [special])
  · rfl

theorem cur_of_not_special {s : St} {o : Ob} {m : MS} (hw : Window s o m)
    (h : ∀ t rest, s.stack = t :: rest → special t = false) : o.cur = none := by
  unfold Window at hw
  split at hw
  · rename_i cb r rest hst; exact absurd (h _ _ hst) (by simp [special])
  · rename_i rest hst; exact absurd (h _ _ hst) (by simp [special])
  · exact hw.1
  · exact hw

theorem windowTop_of_not_special {st : List Task} (h : ∀ t rest, st = t :: rest → special t = false)
    (hr : ∀ rest, st ≠ .ret :: rest) : windowTop st = false := by
  unfold windowTop
  split
  · rename_i rest; exact absurd rfl (hr rest)
  · rename_i cb r rest; exact absurd (h _ _ rfl) (by simp [special])
  · rename_i rest; exact absurd (h _ _ rfl) (by simp [special])
  · rfl

/-- Window for a stack whose top is a scheduled completion. -/
theorem window_quiet {s : St} {o : Ob} {m : MS} {ok : Bool} {t : Task} {rest : List Task} (hst : s.stack = t :: rest)
    (hq : quietT ok t) (hc : o.cur = none) : Window s o m := by
  unfold Window
  rw [hst]
  cases t with
  | invoke cb r isRead =>
    cases isRead with
    | true => exact absurd hq (by simp [quietT])
    | false =>
      simp only [quietT] at hq
      refine ⟨hc, ?_, ?_, ?_⟩ <;> (subst hq; cases ok <;> simp)
  | resume => exact hc
  | _ => exact absurd hq (by simp [quietT])

/-- **Flush code keeps the coupling**: it schedules completions (of the flush's result) on top of a control stack that
holds no callback entry, and hands the callbacks it held to where they are invoked from. -/
theorem coup_fl {max : Nat} {s1 s2 : St} {o : Ob} {m : MS} {x : List CFrame} {ok : Bool} {k : Cont}
    (h : Coup max s1 o m x) (hf : Fl ok s1 s2 k)
    (hns : ∀ t ∈ s1.stack, special t = false)
    (hlast : m.last = stOf s1.ws ∨ s2.stack = s1.stack)
    (hok : ok = false → m.healthy = false)
    (hk : ∀ p ∈ contK k, compat (kindOf o p.1) p.2 ∧
      (p.2.isRd = true → ∃ b, o.reader = some (p.1, b) ∧ (p.2 = .f → b = false) ∧ (p.2 = .m → b = true))) :
    Coup max s2 o m x := by
  obtain ⟨new, hst, hq⟩ := hf.stack
  have hv := hf.vis
  simp only [vis, Prod.mk.injEq] at hv
  obtain ⟨hws, hsub, hstarted, hlog, hrb, hinbox, hrx, hwire, hhealthy, hrd⟩ := hv
  have hns2 : ∀ t ∈ s2.stack, special t = false := by
    intro t ht
    rw [hst] at ht
    rcases List.mem_append.1 ht with h1 | h1
    · exact quiet_special (hq t h1)
    · exact hns t h1
  have hcur : o.cur = none := cur_of_not_special h.win (fun t rest e => hns t (e ▸ List.mem_cons_self ..))
  have hp1 : pendW s1 o m.last = [] := pendW_of_not_special o _ (fun t rest e => hns t (e ▸ List.mem_cons_self ..))
  have hp2 : pendW s2 o m.last = [] := pendW_of_not_special o _ (fun t rest e => hns2 t (e ▸ List.mem_cons_self ..))
  refine ⟨h.max, ?_, ?_, ?_, ?_, ?_, ?_, ?_, ?_, h.subM, ?_, h.rep, ?_, ?_, h.heldOk, ?_, ?_, ?_, ?_, h.rdr3, h.rdr4, ?_, ?_⟩
  · rw [hstarted, hlog]; exact h.ledMem
  · rw [hstarted]; exact h.ledAll
  · rw [hst, List.filterMap_append, filterMap_quiet new hq, List.nil_append]; exact h.stk
  · intro t ht; exact hns2 t (List.mem_of_mem_tail ht)
  · intro cb hc
    rw [hst] at hc
    rcases List.mem_append.1 hc with h1 | h1
    · have := hq _ h1
      simp only [quietT] at this
      cases ok with
      | true => simp at this
      | false => exact hok rfl
    · exact h.errs cb h1
  · rw [hhealthy]; exact h.hl
  · rcases hlast with h1 | h1
    · left; rw [hws]; exact h1
    · rw [h1, hws]; exact h.last
  · rw [hsub]; exact h.subF
  · intro hh; rw [hp2]; have := h.exp hh; rw [hp1] at this; exact this
  · rw [hinbox]; exact h.inb
  · rw [hws]; exact h.rdq
  · cases new with
    | nil =>
      have hw := h.win
      rw [List.nil_append] at hst
      unfold Window at hw ⊢
      rw [hst, hws]
      exact hw
    | cons t r => exact window_quiet (ok := ok) hst (hq t (List.mem_cons_self ..)) hcur
  · intro p hp
    rcases hf.rdl p hp with h1 | h1
    · exact h.chain p h1
    · exact (hk p h1).1
  · rw [hrb]; exact h.rdr1
  · intro p hp hr
    rcases hf.rdl p hp with h1 | h1
    · exact h.rdr2 p h1 hr
    · exact (hk p h1).2 hr
  · rw [hstarted]; exact h.rdr5
  · rw [hrd, hws]; exact h.rdCan

end Sonic.Model.WsAsyncObs
