/-
Every step of the CodecConn model is accepted by the frame-stream monitor and preserves the coupling `R`
(the induction step of the main theorem of C19).
-/
import Sonic.Lemmas.FrameCodecRefine

namespace Sonic.Lemmas.FrameCodec
open Sonic.Spec.FrameCodec Sonic.Model.FrameCodec

/-- Coupling between the model of the connection and the monitor. -/
def R (limit : Nat) (c : Conn) (s : S) : Prop := RR limit c s ∧ RW c s

theorem R_init (limit : Nat) : R limit Conn.new (init limit initialCap) := by
  refine ⟨⟨rfl, ⟨srcInv_new, ?_, ?_⟩, rfl, rfl, rfl, rfl, ?_⟩, ⟨rfl, ?_, ?_, ?_⟩⟩
  · intro ch h; cases h
  · intro h; cases h
  · intro h; cases h
  · simp [Conn.new, BB.new]
  · intro _; exact ⟨rfl, rfl⟩
  · intro pw h; cases h

theorem step_feed (limit : Nat) (c : Conn) (s : S) (b : Bytes) (hR : R limit c s) :
    ∃ s', Spec.FrameCodec.step s (.feed b) (Model.FrameCodec.step limit c (.feed b) []).2 = some s' ∧
      R limit (Model.FrameCodec.step limit c (.feed b) []).1 s' := by
  obtain ⟨hr, hw⟩ := hR
  show ∃ s', Spec.FrameCodec.step s (.feed b) .ok = some s' ∧ R limit ({ c with tr := c.tr.feed b } : Conn) s'
  have hun : unparsed ({ c with tr := c.tr.feed b } : Conn) = unparsed c ++ b := by
    simp only [unparsed, Tr.feed]
    split
    · rename_i h; simp [h]
    · simp
  have hfe : (c.tr.feed b).eof = c.tr.eof := by simp only [Tr.feed]; split <;> rfl
  have hfp : (c.tr.feed b).plan = c.tr.plan := by simp only [Tr.feed]; split <;> rfl
  have hfd : (c.tr.feed b).deferW = c.tr.deferW := by simp only [Tr.feed]; split <;> rfl
  refine ⟨{ s with inb := s.inb ++ b }, rfl, ?_, RW_of_sameW hw ⟨rfl, rfl, hfp, hfe, hfd⟩ rfl rfl⟩
  refine ⟨hr.lim, ⟨hr.inv.src, ?_, hr.inv.pend⟩, ?_, ?_, hr.rpend, hr.cap, ?_⟩
  · intro ch hch
    simp only [Tr.feed] at hch
    split at hch
    · exact hr.inv.chunks ch hch
    · rename_i hb
      simp at hch
      rcases hch with h | h
      · exact hr.inv.chunks ch h
      · rw [h]; exact hb
  · show s.inb ++ b = _; rw [hun, hr.inb]
  · show s.eof = _; rw [hfe]; exact hr.eof
  · intro hh; rw [hun]; exact front_tooBig_append b (hr.rej hh)

theorem RR_of_sameRS {limit : Nat} {c c' : Conn} {s s' : S} (h : RR limit c s) (hc : SameR c c') (hs : SameRS s s') :
    RR limit c' s' := by
  obtain ⟨e1, e2, e3, e4, e5, e6⟩ := hs
  exact RR_of_sameR h hc e1 e2 e3 e4 e5 e6

theorem step_read (limit : Nat) (async : Bool) (c : Conn) (s : S) (env : List Nat) (hR : R limit c s) :
    ∃ s', (if (readNext limit async env c).2.stat = .busy then (if s.rpend then some s else none)
           else if s.rpend then none else readDone s async (readNext limit async env c).2) = some s' ∧
      R limit (readNext limit async env c).1 s' := by
  obtain ⟨hr, hw⟩ := hR
  cases hp : c.rpend with
  | true =>
    have e : readNext limit async env c = (c, robs c .busy) := by simp [readNext, hp]
    rw [e]
    exact ⟨s, by simp [robs, hr.rpend, hp], hr, hw⟩
  | false =>
    obtain ⟨c', st, e, hout⟩ := readNext_spec limit async env c hr.inv hp
    obtain ⟨s', h1, h2, h3, h4, h5, _⟩ := readDone_refines hr hout (fun _ => hp)
    rw [e]
    refine ⟨s', ?_, h2, RW_of_sameW hw hout.same h3 h4⟩
    simp only [robs, h5, if_false, hr.rpend, hp, Bool.false_eq_true]
    exact h1

theorem step_pump (limit : Nat) (c : Conn) (s : S) (env : List Nat) (hR : R limit c s) :
    ∃ s', ((onPumpWrite s (pumpWrite c).2).bind (onPumpRead · (pumpRead limit env (pumpWrite c).1).2)) = some s' ∧
      R limit (pumpRead limit env (pumpWrite c).1).1 s' := by
  obtain ⟨hr, hw⟩ := hR
  obtain ⟨s1, g1, g2, g3, g4⟩ := onPumpWrite_refines c s hw
  have hr1 : RR limit (pumpWrite c).1 s1 := RR_of_sameRS hr g3 g4
  rw [g1]
  simp only [Option.bind_some]
  generalize (pumpWrite c).1 = c1 at *
  cases hp : c1.rpend with
  | false =>
    have e : pumpRead limit env c1 = (c1, robs c1 .none) := by simp [pumpRead, hp]
    rw [e]
    exact ⟨s1, by simp [onPumpRead, robs, hr1.rpend, hp], hr1, g2⟩
  | true =>
    obtain ⟨c', st, e, hout⟩ := pumpRead_spec limit env c1 hr1.inv hp
    obtain ⟨s', h1, h2, h3, h4, _, h6⟩ := readDone_refines hr1 hout (fun h => by cases h)
    rw [e]
    refine ⟨s', ?_, h2, RW_of_sameW g2 hout.same h3 h4⟩
    have : onPumpRead s1 (robs c' st) = readDone s1 true (robs c' st) := by
      simp only [onPumpRead, robs, hr1.rpend, hp, if_true]
      try (cases st <;> first | rfl | (exact absurd rfl h6))
    rw [this]; exact h1

/-- One step of the model is accepted by the monitor and preserves the coupling, whatever capacities
the runtime chooses (`env`). -/
theorem step_refines (limit : Nat) (c : Conn) (s : S) (op : Op) (env : List Nat) (hR : R limit c s) :
    ∃ s', Spec.FrameCodec.step s op (Model.FrameCodec.step limit c op env).2 = some s' ∧
      R limit (Model.FrameCodec.step limit c op env).1 s' := by
  cases op with
  | feed b => exact step_feed limit c s b hR
  | eof =>
    obtain ⟨hr, hw⟩ := hR
    exact ⟨{ s with eof := true }, rfl,
      ⟨hr.lim, ⟨hr.inv.src, hr.inv.chunks, hr.inv.pend⟩, hr.inb, rfl, hr.rpend, hr.cap, hr.rej⟩,
      ⟨hw.ri, hw.cap, hw.idle, hw.busy⟩⟩
  | plan ks =>
    obtain ⟨hr, hw⟩ := hR
    exact ⟨s, rfl, RR_of_sameRS (c' := { c with tr := { c.tr with plan := c.tr.plan ++ ks } }) hr ⟨rfl, rfl, rfl, rfl, rfl⟩ ⟨rfl, rfl, rfl, rfl, rfl, rfl⟩,
      ⟨hw.ri, hw.cap, hw.idle, hw.busy⟩⟩
  | defer on =>
    obtain ⟨hr, hw⟩ := hR
    exact ⟨s, rfl, RR_of_sameRS (c' := { c with tr := { c.tr with deferW := on } }) hr ⟨rfl, rfl, rfl, rfl, rfl⟩ ⟨rfl, rfl, rfl, rfl, rfl, rfl⟩,
      ⟨hw.ri, hw.cap, hw.idle, hw.busy⟩⟩
  | read => exact step_read limit false c s env hR
  | aread => exact step_read limit true c s env hR
  | write p =>
    obtain ⟨hr, hw⟩ := hR
    obtain ⟨s', h1, h2, h3, h4⟩ := writeNext_refines limit (env.headD 0) c s p hw hr.lim
    exact ⟨s', h1, RR_of_sameRS hr h3 h4, h2⟩
  | awrite p =>
    obtain ⟨hr, hw⟩ := hR
    obtain ⟨s', h1, h2, h3, h4⟩ := asyncWriteNext_refines limit (env.headD 0) c s p hw hr.lim
    exact ⟨s', h1, RR_of_sameRS hr h3 h4, h2⟩
  | pump => exact step_pump limit c s env hR

end Sonic.Lemmas.FrameCodec
