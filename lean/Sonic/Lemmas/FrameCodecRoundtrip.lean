/-
The plain round trip spelled out: successive blocking reads against the pure parser, a transport fed
with arbitrary segments, and blocking writes under partial-write plans.
-/
import Sonic.Lemmas.FrameCodecStep

namespace Sonic.Lemmas.FrameCodec
open Sonic.Spec.FrameCodec Sonic.Model.FrameCodec

/-! ## the plain round trip -/

/-- Successive blocking reads return what the pure parser says, whatever the segmentation and capacities. -/
theorem readMany_spec (limit : Nat) : ∀ (n : Nat) (envs : List (List Nat)) (c : Conn), RInv limit c → c.rpend = false →
    readMany limit envs n c = specReads limit c.tr.eof n (unparsed c) := by
  intro n
  induction n with
  | zero => intro envs c _ _; rfl
  | succ n ih =>
    intro envs c hinv hrp
    obtain ⟨c', st, e, hout⟩ := readNext_spec limit false (envs.headD []) c hinv hrp
    have heof : c'.tr.eof = c.tr.eof := hout.same.2.2.2.1
    simp only [readMany, specReads, e, robs]
    cases hf : front limit (unparsed c) with
    | item p rest =>
      obtain ⟨h1, h2, h3⟩ := hout.item p rest hf
      simp only
      rw [ih envs.tail c' hout.inv h3, h1, h2, heof]
    | tooBig =>
      obtain ⟨h1, h2, _, h4⟩ := hout.big hf
      simp only
      rw [ih envs.tail c' hout.inv h4, h1, h2, heof]
    | incomplete =>
      obtain ⟨h1, _, h3⟩ := hout.inc hf
      simp only
      cases he : c.tr.eof
      · rw [he] at h3
        simp only [Bool.false_eq_true, if_false] at h3
        rw [ih envs.tail c' hout.inv h3.2, h3.1, h1, heof, he]
        simp
      · rw [he] at h3
        simp only [if_true] at h3
        rw [ih envs.tail c' hout.inv h3.2, h3.1, h1, heof, he]
        simp

theorem specReads_wire (limit : Nat) (eof : Bool) (hlim : limit < 4294967296) :
    ∀ (ps : List Bytes) (tail : Bytes), (∀ p ∈ ps, p.length ≤ limit) →
      specReads limit eof ps.length (wire ps ++ tail) = ps.map .item := by
  intro ps
  induction ps with
  | nil => intro _ _; rfl
  | cons p ps ih =>
    intro tail hps
    have hp := hps p (List.mem_cons_self ..)
    simp only [wire, List.length_cons, specReads, List.append_assoc]
    rw [frame_front p (wire ps ++ tail) hp (by omega)]
    simp only [List.map_cons]
    rw [ih tail (fun q hq => hps q (List.mem_cons_of_mem _ hq))]

theorem feed_inv (limit : Nat) (c : Conn) (b : Bytes) (h : RInv limit c) :
    RInv limit ({ c with tr := c.tr.feed b } : Conn) ∧ unparsed ({ c with tr := c.tr.feed b } : Conn) = unparsed c ++ b ∧
      (c.tr.feed b).eof = c.tr.eof := by
  refine ⟨⟨h.src, ?_, h.pend⟩, ?_, ?_⟩
  · intro ch hch
    simp only [Tr.feed] at hch
    split at hch
    · exact h.chunks ch hch
    · rename_i hb
      simp at hch
      rcases hch with h' | h'
      · exact h.chunks ch h'
      · rw [h']; exact hb
  · simp only [unparsed, Tr.feed]
    split
    · rename_i h'; simp [h']
    · simp
  · simp only [Tr.feed]; split <;> rfl

theorem feedAll_inv (limit : Nat) : ∀ (segs : List Bytes) (c : Conn), RInv limit c → c.rpend = false →
    RInv limit (segs.foldl (fun c b => { c with tr := c.tr.feed b }) c) ∧
    (segs.foldl (fun c b => { c with tr := c.tr.feed b }) c).rpend = false ∧
    unparsed (segs.foldl (fun c b => { c with tr := c.tr.feed b }) c) = unparsed c ++ segs.flatten ∧
    (segs.foldl (fun c b => { c with tr := c.tr.feed b }) c).tr.eof = c.tr.eof := by
  intro segs
  induction segs with
  | nil => intro c h hp; exact ⟨h, hp, by simp, rfl⟩
  | cons b segs ih =>
    intro c h hp
    obtain ⟨f1, f2, f3⟩ := feed_inv limit c b h
    obtain ⟨i1, i2, i3, i4⟩ := ih _ f1 hp
    refine ⟨i1, i2, ?_, ?_⟩
    · simp only [List.foldl_cons, List.flatten_cons]; rw [i3, f2, List.append_assoc]
    · simp only [List.foldl_cons]; rw [i4]; exact f3

theorem rinv_new (limit : Nat) : RInv limit Conn.new :=
  ⟨srcInv_new, (fun ch h => by cases h), (fun h => by cases h)⟩

theorem fed_spec (limit : Nat) (segs : List Bytes) :
    RInv limit (fed segs) ∧ (fed segs).rpend = false ∧ unparsed (fed segs) = segs.flatten ∧ (fed segs).tr.eof = false := by
  obtain ⟨i1, i2, i3, i4⟩ := feedAll_inv limit segs Conn.new (rinv_new limit) rfl
  exact ⟨i1, i2, by rw [fed, i3]; simp [unparsed, clean, Conn.new, BB.new], i4⟩

/-- Partial writes only (no would-block): the loop always finishes the buffer. -/
theorem writeLoop_pos : ∀ (plan : List Nat) (rest : Bytes) (acc : Nat), (∀ k ∈ plan, k ≠ 0) →
    (writeLoop plan rest acc).2.1 = .nil ∧ (∀ k ∈ (writeLoop plan rest acc).2.2, k ≠ 0) := by
  intro plan
  induction plan with
  | nil => intro rest acc _; cases rest <;> simp [writeLoop]
  | cons k plan ih =>
    intro rest acc hpos
    cases rest with
    | nil => exact ⟨by simp [writeLoop], by simpa [writeLoop] using hpos⟩
    | cons x xs =>
      have hk : k ≠ 0 := hpos k (List.mem_cons_self ..)
      unfold writeLoop
      simp only [hk, if_false]
      exact ih _ _ (fun q hq => hpos q (List.mem_cons_of_mem _ hq))

/-- The writing half is idle and empty, and the transport never reports would-block. -/
structure WClean (c : Conn) : Prop where
  data : c.dst.data = []
  ri : c.dst.ri = 0
  idle : c.wpend = none
  plan : ∀ k ∈ c.tr.plan, k ≠ 0

theorem writeNext_clean (limit slack : Nat) (c : Conn) (p : Bytes) (h : WClean c) (hp : p.length ≤ limit) :
    (writeNext limit slack c p).2 = { stat := .done, n := (frame p).length, err := .nil, out := frame p, rlen := 0, wlen := 0 } ∧
    WClean (writeNext limit slack c p).1 := by
  obtain ⟨b', he, hd, hr, hc, hv⟩ := encode_commit limit slack c.dst p (by rw [h.ri, h.data]; rfl) (by rw [h.data]; exact Nat.zero_le _) (by omega)
  obtain ⟨l1, l2, l3, l4⟩ := writeLoop_spec c.tr.plan (c.dst.data ++ frame p) 0
  obtain ⟨q1, q2⟩ := writeLoop_pos c.tr.plan (c.dst.data ++ frame p) 0 h.plan
  unfold writeNext
  simp only [h.idle, Option.isSome_none, Bool.false_eq_true, if_false, he, hv]
  generalize hwl : writeLoop c.tr.plan (c.dst.data ++ frame p) 0 = o at *
  obtain ⟨w, e, plan'⟩ := o
  simp only at l1 l2 l3 l4 q1 q2 ⊢
  generalize b'.commit b'.writeLen = bb at *
  subst q1
  have hw := l4 rfl
  rw [h.data] at hw hd hr
  simp only [List.nil_append, Nat.zero_add] at hw hd hr
  subst hw
  obtain ⟨hc1, hc2⟩ := consume_committed bb (frame p).length (by rw [hr, hd]) (by rw [hd]; exact Nat.le_refl _)
  rw [hd] at hc1 hc2
  simp only [List.drop_length, Nat.sub_self] at hc1 hc2
  refine ⟨?_, ⟨hc1, hc2, rfl, q2⟩⟩
  simp only [wobs, BB.readLen, BB.writeLen, hc1, hc2, h.data, List.nil_append, List.take_length]
  rfl

theorem writeMany_spec (limit : Nat) : ∀ (ps : List Bytes) (sl : List Nat) (c : Conn), WClean c → (∀ p ∈ ps, p.length ≤ limit) →
    sent (writeMany limit sl c ps) = wire ps ∧
    (∀ o ∈ writeMany limit sl c ps, o.stat = .done ∧ o.err = .nil ∧ o.rlen = 0 ∧ o.wlen = 0) := by
  intro ps
  induction ps with
  | nil => intro sl c _ _; exact ⟨rfl, fun o h => by cases h⟩
  | cons p ps ih =>
    intro sl c hc hps
    obtain ⟨h1, h2⟩ := writeNext_clean limit (sl.headD 0) c p hc (hps p (List.mem_cons_self ..))
    obtain ⟨i1, i2⟩ := ih sl.tail _ h2 (fun q hq => hps q (List.mem_cons_of_mem _ hq))
    simp only [writeMany]
    refine ⟨?_, ?_⟩
    · simp only [sent, List.map_cons, List.flatten_cons, wire]
      simp only [sent] at i1
      rw [i1, h1]
    · intro o ho
      simp only [List.mem_cons] at ho
      rcases ho with rfl | ho
      · rw [h1]; exact ⟨rfl, rfl, rfl, rfl⟩
      · exact i2 o ho

end Sonic.Lemmas.FrameCodec
