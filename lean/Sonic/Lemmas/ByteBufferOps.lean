/-
C09, per method: under the coupling `R`, what each method of the implementation model returns and
the coupling of the new state with the specification's new lists.
-/
import Sonic.Lemmas.ByteBufferFacts

set_option linter.unusedVariables false

namespace Sonic.Props.C09
open Sonic.Spec.ByteBuffer Sonic.Model.ByteBuffer

theorem commit_spec {b : BB} {s : S} (hR : R b s) (n : Int) (hn : Go.InI64 n) :
    R (b.Commit n) { s with readable := s.readable ++ s.pending.take n.toNat, pending := s.pending.drop n.toNat }
    ∧ (b.Commit n).cap = b.cap := by
  obtain ⟨h1, h2, h3, h4, h5, h6, h7, h8⟩ := hR
  unfold BB.Commit
  by_cases hn0 : n ≤ 0
  · rw [if_pos hn0]
    have : n.toNat = 0 := by omega
    rw [this, List.take_zero, List.drop_zero, List.append_nil]
    exact ⟨⟨h1, h2, h3, h4, h5, h6, h7, h8⟩, rfl⟩
  · rw [if_neg hn0, sub_eq (by arith) (by arith)]
    dsimp only
    have e : b.wi - b.ri = (s.pending.length : Int) := by omega
    obtain ⟨m, hm, hm1, hm2, hm3, _, _⟩ := clamp_pos n s.pending (by omega)
    rw [e, hm, hm2, hm3, add_eq (by arith) (by arith)]
    refine ⟨⟨h1, ?_, ?_, ?_, h5, h6, h7, h8⟩, rfl⟩
    · dsimp only; simp only [List.length_append, List.length_take]; omega
    · dsimp only; simp only [List.length_append, List.length_take, List.length_drop]; omega
    · dsimp only; rw [h4]; simp only [List.append_assoc, List.take_append_drop]

theorem consume_spec {b : BB} {s : S} (hR : R b s) (n : Int) :
    ∃ b', b.Consume n = some b' ∧ R b' { s with readable := s.readable.drop n.toNat } ∧ b'.cap = b.cap := by
  have hrl := readLen_R hR
  obtain ⟨h1, h2, h3, h4, h5, h6, h7, h8⟩ := hR
  unfold BB.Consume
  by_cases hn0 : n ≤ 0
  · rw [if_pos hn0]
    have : n.toNat = 0 := by omega
    refine ⟨_, rfl, ?_, rfl⟩
    rw [this, List.drop_zero]
    exact ⟨h1, h2, h3, h4, h5, h6, h7, h8⟩
  · rw [if_neg hn0, hrl]
    dsimp only
    obtain ⟨m, hm, hm1, hm2, _, hm4, _⟩ := clamp_pos n s.readable (by omega)
    rw [hm, hm2]
    by_cases hm0 : m = 0
    · subst hm0
      rw [if_neg (by omega), List.drop_zero]
      exact ⟨_, rfl, ⟨h1, h2, h3, h4, h5, h6, h7, h8⟩, rfl⟩
    · rw [if_pos (by omega), add_eq (by arith) (by arith), sub_eq (by arith) (by arith), sub_eq (by arith) (by arith)]
      rw [if_pos ⟨⟨by omega, by unfold BB.len; rw [h4]; simp; omega⟩, show b.sliceOk _ _ from ⟨by omega, by omega, by omega⟩⟩]
      rw [reslice_eq (by arith) (by arith)]
      refine ⟨_, rfl, ?_, rfl⟩
      have hsplit : s.saved ++ s.readable ++ s.pending
          = s.saved ++ s.readable.take m ++ (s.readable.drop m ++ s.pending) := by
        rw [List.append_assoc s.saved, List.append_assoc s.saved, ← List.append_assoc (s.readable.take m), List.take_append_drop]
      have hlen : (s.readable.take m).length = m := by rw [List.length_take]; omega
      dsimp only
      rw [h4, hsplit, remove_eq _ _ _ _ _ _ _ h1 (by rw [hlen, h1]) (by rw [hlen, h3]; simp; omega) (by rw [h3]; simp; omega)]
      refine ⟨h1, ?_, ?_, ?_, ?_, h6, h7, h8⟩ <;> dsimp only <;> (try simp) <;> omega

theorem save_spec {b : BB} {s : S} (hR : R b s) (n : Int) (hn : Go.InI64 n) :
    ∃ b' i l, b.Save n = some (b', i, l) ∧
      R b' { s with saved := s.saved ++ s.readable.take n.toNat, readable := s.readable.drop n.toNat } ∧ b'.cap = b.cap ∧
      Ret.slot i l = (if (s.readable.take n.toNat).length = 0 then Ret.slot 0 0
                      else Ret.slot s.saved.length (s.readable.take n.toNat).length) := by
  have hrl := readLen_R hR
  have hR0 := hR
  obtain ⟨h1, h2, h3, h4, h5, h6, h7, h8⟩ := hR
  unfold BB.Save
  rw [hrl]
  dsimp only
  by_cases hn0 : n ≤ 0
  · have e : (if n > (s.readable.length : Int) then (s.readable.length : Int) else n) = n := by rw [if_neg (by omega)]
    have : n.toNat = 0 := by omega
    rw [e, if_pos hn0, this, List.take_zero, List.drop_zero, List.append_nil]
    exact ⟨_, _, _, rfl, hR0, rfl, by simp⟩
  · obtain ⟨m, hm, hm1, hm2, hm3, hm4, _⟩ := clamp_pos n s.readable (by omega)
    rw [hm, hm2, hm3]
    have hlen : (s.readable.take m).length = m := by rw [List.length_take]; omega
    by_cases hm0 : m = 0
    · subst hm0
      rw [if_pos (by omega), List.take_zero, List.drop_zero, List.append_nil]
      exact ⟨_, _, _, rfl, hR0, rfl, by simp⟩
    · rw [if_neg (by omega), add_eq (by arith) (by arith)]
      refine ⟨_, _, _, rfl, ⟨?_, ?_, ?_, ?_, h5, h6, h7, h8⟩, rfl, ?_⟩
      · dsimp only; rw [List.length_append, hlen]; omega
      · dsimp only; rw [List.length_append, hlen, List.length_drop]; omega
      · dsimp only; rw [List.length_append, hlen, List.length_drop]; omega
      · dsimp only; rw [h4]; simp only [List.append_assoc, List.take_append_drop]
      · rw [hlen, if_neg (by omega), h1]

theorem discard_spec {b : BB} {s : S} (hR : R b s) (idx len : Int) (hl : 0 < len) (hv : ValidSlot s idx len) :
    ∃ b', b.Discard idx len = some (b', len) ∧
      R b' { s with saved := s.saved.take idx.toNat ++ s.saved.drop (idx + len).toNat } ∧ b'.cap = b.cap := by
  obtain ⟨h1, h2, h3, h4, h5, h6, h7, h8⟩ := hR
  obtain ⟨v1, v2, v3⟩ := hv
  unfold BB.Discard
  rw [if_neg (by omega), add_eq (by arith) (by arith)]
  dsimp only
  rw [if_pos ⟨⟨v1, by unfold BB.len; rw [h4]; simp; omega⟩, show b.sliceOk _ _ from ⟨by omega, by omega, by omega⟩⟩]
  rw [sub_eq (by arith) (by arith), sub_eq (by arith) (by arith), sub_eq (by arith) (by arith)]
  rw [reslice_eq (by arith) (by arith)]
  dsimp only
  refine ⟨_, rfl, ?_, rfl⟩
  obtain ⟨i, rfl⟩ : ∃ i : Nat, idx = i := ⟨idx.toNat, by omega⟩
  obtain ⟨k, rfl⟩ : ∃ k : Nat, len = k := ⟨len.toNat, by omega⟩
  have e1 : (i : Int).toNat = i := by omega
  have e2 : ((i : Int) + (k : Int)).toNat = i + k := by omega
  have hA : (s.saved.take i).length = i := by rw [List.length_take]; omega
  have hB : ((s.saved.drop i).take k).length = k := by rw [List.length_take, List.length_drop]; omega
  have hC : (s.saved.drop (i + k)).length = s.saved.length - (i + k) := by rw [List.length_drop]
  have hsplit : s.saved ++ s.readable ++ s.pending
      = s.saved.take i ++ (s.saved.drop i).take k ++ (s.saved.drop (i + k) ++ s.readable ++ s.pending) := by
    conv => lhs; rw [split3 s.saved i k]
    simp only [List.append_assoc]
  rw [h4, hsplit, remove_eq _ _ _ _ _ _ _ (by rw [hA]) (by rw [hA, hB]) (by rw [hA, hB, h3]; simp; omega)
      (by rw [hA, h3]; simp; omega)]
  rw [e1, e2]
  refine ⟨?_, ?_, ?_, ?_, ?_, h6, h7, h8⟩ <;> dsimp only <;> (try simp only [List.length_append, hA, hC, List.append_assoc]) <;> omega

theorem discardAll_spec {b : BB} {s : S} (hR : R b s) :
    ∃ b', b.DiscardAll = some b' ∧ R b' { s with saved := [] } ∧ b'.cap = b.cap := by
  have hsl := saveLen_R hR
  unfold BB.DiscardAll
  rw [hsl]
  dsimp only
  by_cases h0 : s.saved = []
  · unfold BB.Discard
    rw [if_pos (by rw [h0]; simp)]
    refine ⟨_, rfl, ?_, rfl⟩
    have : ({ s with saved := [] } : S) = s := by cases s; simp only at h0; subst h0; rfl
    rw [this]; exact hR
  · have hpos : 0 < (s.saved.length : Int) := by have := List.length_pos_iff.mpr h0; omega
    obtain ⟨b', hb, hR', hc⟩ := discard_spec hR 0 s.saved.length hpos ⟨Int.le_refl 0, by omega, by omega⟩
    rw [hb]
    refine ⟨b', rfl, ?_, hc⟩
    have e : ((0 : Int) + (s.saved.length : Int)).toNat = s.saved.length := by omega
    rw [e, Int.toNat_zero, List.take_zero, List.drop_of_length_le (Nat.le_refl _)] at hR'
    exact hR'

theorem savedSlot_spec {b : BB} {s : S} (hR : R b s) (idx len : Int) (hv : ValidSlot s idx len) :
    b.SavedSlot idx len = some (some ((s.saved.drop idx.toNat).take len.toNat)) := by
  have hlen := len_R hR
  obtain ⟨h1, h2, h3, h4, h5, h6, h7, h8⟩ := hR
  obtain ⟨v1, v2, v3⟩ := hv
  unfold BB.SavedSlot
  rw [add_eq (by arith) (by arith)]
  dsimp only
  rw [if_pos (show b.sliceOk _ _ from ⟨by omega, by omega, by omega⟩), if_pos (by unfold S.len at hlen; omega)]
  unfold BB.bytes
  obtain ⟨i, rfl⟩ : ∃ i : Nat, idx = i := ⟨idx.toNat, by omega⟩
  obtain ⟨k, rfl⟩ : ∃ k : Nat, len = k := ⟨len.toNat, by omega⟩
  have e1 : (i : Int).toNat = i := by omega
  have e2 : ((i : Int) + (k : Int)).toNat = i + k := by omega
  have e3 : (k : Int).toNat = k := by omega
  rw [e1, e2, e3, h4, List.append_assoc, List.take_append_of_le_length (by omega), List.take_drop]

theorem reset_spec {b : BB} {s : S} (hR : R b s) :
    ∃ b', b.Reset = some b' ∧ R b' { s with saved := [], readable := [], pending := [] } ∧ b'.cap = b.cap := by
  obtain ⟨h1, h2, h3, h4, h5, h6, h7, h8⟩ := hR
  unfold BB.Reset
  rw [reslice_eq (Int.le_refl 0) (by arith)]
  exact ⟨_, rfl, ⟨rfl, rfl, rfl, by simp, by arith, h6, h7, h8⟩, rfl⟩

theorem bytes_readable {b : BB} {s : S} (hR : R b s) : b.bytes b.si b.ri = s.readable := by
  obtain ⟨h1, h2, h3, h4, h5, h6, h7, h8⟩ := hR
  unfold BB.bytes
  rw [h4]; exact mid_eq _ _ _ _ _ h1 h2

theorem drop_min_length (l : List UInt8) (n : Nat) : l.drop (min n l.length) = l.drop n := by
  by_cases h : n ≤ l.length
  · rw [Nat.min_eq_left h]
  · rw [Nat.min_eq_right (by omega), List.drop_of_length_le (Nat.le_refl _), List.drop_of_length_le (by omega)]

theorem read_spec {b : BB} {s : S} (hR : R b s) (dstLen : Nat) (h0 : dstLen ≠ 0) (hne : s.readable ≠ []) :
    ∃ b', b.Read dstLen = some (b', ((s.readable.take dstLen).length : Int), s.readable.take dstLen, .nil) ∧
      R b' { s with readable := s.readable.drop dstLen } ∧ b'.cap = b.cap := by
  have hbytes := bytes_readable hR
  have hR0 := hR
  obtain ⟨h1, h2, h3, h4, h5, h6, h7, h8⟩ := hR
  have hpos := List.length_pos_iff.mpr hne
  unfold BB.Read
  rw [if_neg h0, if_neg (by omega), if_pos (show b.sliceOk _ _ from ⟨by omega, by omega, by omega⟩), hbytes]
  dsimp only
  obtain ⟨b', hb, hR', hc⟩ := consume_spec hR0 ((s.readable.take dstLen).length : Int)
  rw [hb]
  refine ⟨b', rfl, ?_, hc⟩
  have e : (((s.readable.take dstLen).length : Int)).toNat = min dstLen s.readable.length := by
    rw [List.length_take]; omega
  rw [e, drop_min_length] at hR'
  exact hR'

theorem read_zero {b : BB} : b.Read 0 = some (b, 0, [], .nil) := by
  unfold BB.Read; rw [if_pos rfl]

theorem read_eof {b : BB} {s : S} (hR : R b s) (dstLen : Nat) (h0 : dstLen ≠ 0) (he : s.readable = []) :
    b.Read dstLen = some (b, 0, [], .eof) := by
  obtain ⟨h1, h2, h3, h4, h5, h6, h7, h8⟩ := hR
  unfold BB.Read
  rw [if_neg h0, if_pos (by rw [he] at h2; simp at h2; omega)]

theorem readFrom_ok {b : BB} {s : S} (hR : R b s) (n : Nat) (seed : UInt8) :
    ∃ b', b.ReadFrom n seed .nil = some (b', ((min n s.room.toNat : Nat) : Int), .nil) ∧ b'.cap = b.cap ∧
      R b' { s with pending := s.pending ++ pattern seed (min n s.room.toNat) } := by
  have hwi := wi_R hR
  obtain ⟨h1, h2, h3, h4, h5, h6, h7, h8⟩ := hR
  unfold BB.ReadFrom
  rw [if_pos (show b.sliceOk _ _ from ⟨by omega, by omega, by omega⟩), if_pos rfl, sub_eq (by arith) (by arith)]
  dsimp only
  have hroom : s.room = b.cap - b.wi := by unfold S.room; rw [h7, hwi]
  rw [← hroom]
  generalize hk : min n s.room.toNat = k
  have hk1 : (k : Int) ≤ b.cap - b.wi := by omega
  rw [add_eq (by arith) (by arith), reslice_eq (by arith) (by arith)]
  refine ⟨_, rfl, rfl, h1, h2, ?_, ?_, ?_, h6, h7, h8⟩
  · dsimp only; simp [pattern]; omega
  · dsimp only
    rw [List.take_of_length_le (by rw [h4]; simp [pattern]; omega), h4]; simp only [List.append_assoc]
  · dsimp only; omega

theorem readFrom_err {b : BB} {s : S} (hR : R b s) (n : Nat) (seed : UInt8) (e : Err) (he : e ≠ .nil) :
    b.ReadFrom n seed e = some (b, (n : Int), e) := by
  obtain ⟨h1, h2, h3, h4, h5, h6, h7, h8⟩ := hR
  unfold BB.ReadFrom
  rw [if_pos (show b.sliceOk _ _ from ⟨by omega, by omega, by omega⟩), if_neg he]

theorem unreadByte_eof {b : BB} {s : S} (hR : R b s) (hp : s.pending = []) :
    b.UnreadByte = some (b, .eof) := by
  have hwl := writeLen_R hR
  unfold BB.UnreadByte
  rw [hwl]
  dsimp only
  rw [if_neg (by rw [hp]; simp)]

theorem unreadByte_ok {b : BB} {s : S} (hR : R b s) (hp : s.pending ≠ []) :
    ∃ b', b.UnreadByte = some (b', .nil) ∧ b'.cap = b.cap ∧ R b' { s with pending := s.pending.dropLast } := by
  have hwl := writeLen_R hR
  obtain ⟨h1, h2, h3, h4, h5, h6, h7, h8⟩ := hR
  unfold BB.UnreadByte
  rw [hwl]
  dsimp only
  have hpos := List.length_pos_iff.mpr hp
  rw [if_pos (by omega), sub_eq (by arith) (by arith), reslice_eq (by arith) (by arith)]
  refine ⟨_, rfl, rfl, h1, h2, ?_, ?_, ?_, h6, h7, h8⟩
  · dsimp only; rw [List.length_dropLast]; omega
  · dsimp only
    have e : (b.wi - 1).toNat = (s.saved ++ s.readable).length + (s.pending.length - 1) := by simp; omega
    rw [h4, e, List.take_append, List.take_of_length_le (by omega), List.dropLast_eq_take]
    simp
  · dsimp only; omega

theorem append_spec {b : BB} {s : S} (hR : R b s) (bs : List UInt8) (c : Int) (hc : Go.InI64 c)
    (hfit : s.len + bs.length ≤ Go.I64MAX) :
    ∃ b', b.Append bs c = some b' ∧ R b' { s with pending := s.pending ++ bs, cap := b'.cap } := by
  have hlen := len_R hR
  have hwi := wi_R hR
  obtain ⟨h1, h2, h3, h4, h5, h6, h7, h8⟩ := hR
  unfold BB.Append
  dsimp only
  rw [add_eq (by arith) (by arith)]
  generalize hcap : (if b.len + (bs.length : Int) ≤ b.cap then b.cap else imax c (b.len + bs.length)) = cap'
  have hc1 : b.wi + bs.length ≤ cap' ∧ cap' ≤ Go.I64MAX := by
    rw [← hcap]; unfold imax
    split
    · constructor <;> omega
    · split <;> constructor <;> arith
  rw [reslice_eq (by arith) (by arith)]
  refine ⟨_, rfl, h1, h2, ?_, ?_, ?_, hc1.2, rfl, h8⟩
  · dsimp only; rw [List.length_append]; omega
  · dsimp only
    rw [List.take_of_length_le (by rw [h4]; simp; omega), h4]; simp only [List.append_assoc]
  · dsimp only; omega

theorem prepareRead_have {b : BB} {s : S} (hR : R b s) (n : Int) (hn : n ≤ s.readable.length) :
    b.PrepareRead n = some (b, .nil) := by
  unfold BB.PrepareRead
  rw [readLen_R hR]
  dsimp only
  rw [if_neg (by omega)]

theorem prepareRead_needMore {b : BB} {s : S} (hR : R b s) (n : Int) (hn : Go.InI64 n)
    (h1 : ¬ n ≤ s.readable.length) (h2 : ¬ n - s.readable.length ≤ s.pending.length) :
    b.PrepareRead n = some (b, .needMore) := by
  unfold BB.PrepareRead
  rw [readLen_R hR]
  dsimp only
  rw [if_pos (by omega), writeLen_R hR, sub_eq (by arith) (by arith)]
  dsimp only
  rw [if_neg (by omega)]

theorem prepareRead_commit {b : BB} {s : S} (hR : R b s) (n : Int) (hn : Go.InI64 n)
    (h1 : ¬ n ≤ s.readable.length) (h2 : n - s.readable.length ≤ s.pending.length) :
    ∃ b', b.PrepareRead n = some (b', .nil) ∧ b'.cap = b.cap ∧
      R b' { s with readable := s.readable ++ s.pending.take (n - s.readable.length).toNat,
                    pending := s.pending.drop (n - s.readable.length).toNat } := by
  unfold BB.PrepareRead
  rw [readLen_R hR]
  dsimp only
  rw [if_pos (by omega), writeLen_R hR, sub_eq (by arith) (by arith)]
  dsimp only
  rw [if_pos (by omega)]
  obtain ⟨hc1, hc2⟩ := commit_spec hR (n - s.readable.length) (by arith)
  exact ⟨_, rfl, hc2, hc1⟩

theorem room_R {b : BB} {s : S} (hR : R b s) : s.room = b.cap - b.wi := by
  have hwi := wi_R hR
  unfold S.room; rw [hR.2.2.2.2.2.2.1, hwi]

theorem claim_ok {b : BB} {s : S} (hR : R b s) (ret : Int) (seed : UInt8) (hn : Go.InI64 ret)
    (hfit : 0 ≤ ret ∧ ret ≤ s.room) :
    ∃ b', b.Claim ret seed = some b' ∧ b'.cap = b.cap ∧ R b' { s with pending := s.pending ++ pattern seed ret.toNat } := by
  have hroom := room_R hR
  obtain ⟨h1, h2, h3, h4, h5, h6, h7, h8⟩ := hR
  unfold BB.Claim
  rw [if_pos (show b.sliceOk _ _ from ⟨by omega, by omega, by omega⟩), sub_eq (by arith) (by arith),
    if_pos ⟨by omega, by omega⟩, add_eq (by arith) (by arith)]
  dsimp only
  rw [reslice_eq (by arith) (by arith)]
  refine ⟨_, rfl, rfl, h1, h2, ?_, ?_, ?_, h6, h7, h8⟩
  · dsimp only; simp [pattern]; omega
  · dsimp only
    rw [List.take_of_length_le (by rw [h4]; simp [pattern]; omega), h4]; simp only [List.append_assoc]
  · dsimp only; omega

theorem claim_rejected {b : BB} {s : S} (hR : R b s) (ret : Int) (seed : UInt8) (hn : Go.InI64 ret)
    (hfit : ¬ (0 ≤ ret ∧ ret ≤ s.room)) : b.Claim ret seed = some b := by
  have hroom := room_R hR
  obtain ⟨h1, h2, h3, h4, h5, h6, h7, h8⟩ := hR
  unfold BB.Claim
  rw [if_pos (show b.sliceOk _ _ from ⟨by omega, by omega, by omega⟩), sub_eq (by arith) (by arith),
    if_neg (by omega)]

theorem claimFixed_ok {b : BB} {s : S} (hR : R b s) (n : Int) (seed : UInt8) (hn : Go.InI64 n)
    (hfit : 0 ≤ n ∧ n ≤ s.room) :
    ∃ b', b.ClaimFixed n seed = some (b', n) ∧ b'.cap = b.cap ∧ R b' { s with pending := s.pending ++ pattern seed n.toNat } := by
  have hroom := room_R hR
  obtain ⟨h1, h2, h3, h4, h5, h6, h7, h8⟩ := hR
  unfold BB.ClaimFixed
  rw [sub_eq (by arith) (by arith), if_pos ⟨by omega, by omega⟩, add_eq (by arith) (by arith)]
  dsimp only
  rw [if_pos (show b.sliceOk _ _ from ⟨by omega, by omega, by omega⟩), reslice_eq (by arith) (by arith),
    sub_eq (by arith) (by arith)]
  dsimp only
  rw [show b.wi + n - b.wi = n by omega]
  refine ⟨_, rfl, rfl, h1, h2, ?_, ?_, ?_, h6, h7, h8⟩
  · dsimp only; simp [pattern]; omega
  · dsimp only
    rw [List.take_of_length_le (by rw [h4]; simp [pattern]; omega), h4]; simp only [List.append_assoc]
  · dsimp only; omega

theorem claimFixed_rejected {b : BB} {s : S} (hR : R b s) (n : Int) (seed : UInt8) (hn : Go.InI64 n)
    (hfit : ¬ (0 ≤ n ∧ n ≤ s.room)) : b.ClaimFixed n seed = some (b, 0) := by
  have hroom := room_R hR
  obtain ⟨h1, h2, h3, h4, h5, h6, h7, h8⟩ := hR
  unfold BB.ClaimFixed
  rw [sub_eq (by arith) (by arith), if_neg (by omega)]

theorem shrinkBy_spec {b : BB} {s : S} (hR : R b s) (n : Int) (hn : Go.InI64 n) :
    ∃ b', b.ShrinkBy n = some (b', ((min n.toNat s.pending.length : Nat) : Int)) ∧ b'.cap = b.cap ∧
      R b' { s with pending := s.pending.take (s.pending.length - min n.toNat s.pending.length) } := by
  have hwl := writeLen_R hR
  have hR0 := hR
  obtain ⟨h1, h2, h3, h4, h5, h6, h7, h8⟩ := hR
  unfold BB.ShrinkBy
  by_cases hn0 : n ≤ 0
  · have e : n.toNat = 0 := by omega
    rw [if_pos hn0, e, Nat.zero_min, Nat.sub_zero, List.take_of_length_le (Nat.le_refl _)]
    exact ⟨_, rfl, rfl, hR0⟩
  · rw [if_neg hn0, hwl]
    dsimp only
    obtain ⟨m, hm, hm1, _, _, _, hm5⟩ := clamp_pos n s.pending (by omega)
    rw [hm, ← hm5, sub_eq (by arith) (by arith), reslice_eq (by arith) (by arith)]
    refine ⟨_, rfl, rfl, h1, h2, ?_, ?_, ?_, h6, h7, h8⟩
    · dsimp only; rw [List.length_take]; omega
    · dsimp only
      have e : (b.wi - m).toNat = (s.saved ++ s.readable).length + (s.pending.length - m) := by simp; omega
      rw [h4, e, List.take_append, List.take_of_length_le (by omega)]
      simp
    · dsimp only; omega

theorem shrinkTo_spec {b : BB} {s : S} (hR : R b s) (n : Int) (hn : Go.InI64 n) :
    ∃ b', b.ShrinkTo n = some (b', (s.pending.length : Int) - (s.pending.take n.toNat).length) ∧ b'.cap = b.cap ∧
      R b' { s with pending := s.pending.take n.toNat } := by
  have hwl := writeLen_R hR
  have hpl : (s.pending.length : Int) ≤ Go.I64MAX := by
    obtain ⟨h1, h2, h3, h4, h5, h6, h7, h8⟩ := hR; omega
  unfold BB.ShrinkTo
  rw [hwl]
  dsimp only
  generalize hn' : (if n < 0 then 0 else n) = n'
  have hn1 : 0 ≤ n' ∧ n'.toNat = n.toNat ∧ n' ≤ Go.I64MAX := by
    rw [← hn']; split <;> arith
  have hsub : Go.sub (s.pending.length : Int) n' = (s.pending.length : Int) - n' := sub_eq (by arith) (by arith)
  rw [hsub]
  obtain ⟨b', hb, hc, hR'⟩ := shrinkBy_spec hR ((s.pending.length : Int) - n') (by arith)
  rw [hb]
  have hlen : (s.pending.take n.toNat).length = min n.toNat s.pending.length := List.length_take
  have e1 : s.pending.length - min ((s.pending.length : Int) - n').toNat s.pending.length = min n.toNat s.pending.length := by omega
  have e2 : ((min ((s.pending.length : Int) - n').toNat s.pending.length : Nat) : Int)
      = (s.pending.length : Int) - (s.pending.take n.toNat).length := by rw [hlen]; omega
  rw [e1] at hR'
  rw [e2]
  refine ⟨b', rfl, hc, ?_⟩
  have e3 : s.pending.take (min n.toNat s.pending.length) = s.pending.take n.toNat := by
    by_cases h : n.toNat ≤ s.pending.length
    · rw [Nat.min_eq_left h]
    · rw [Nat.min_eq_right (by omega), List.take_of_length_le (Nat.le_refl _), List.take_of_length_le (by omega)]
  rw [e3] at hR'
  exact hR'

theorem reserve_spec {b : BB} {s : S} (hR : R b s) (n c : Int) (hn : Go.InI64 n) (hc : Go.InI64 c)
    (hal : ¬ BeyondAlloc s n) (hfit : s.len + n ≤ Go.I64MAX) :
    ∃ b', b.Reserve n c = some b' ∧ R b' { s with cap := b'.cap } ∧ n ≤ b'.cap - s.len := by
  have hroom := room_R hR
  have hwi := wi_R hR
  unfold BeyondAlloc at hal
  obtain ⟨h1, h2, h3, h4, h5, h6, h7, h8⟩ := hR
  have htake : b.data.take b.wi.toNat = b.data := List.take_of_length_le (by rw [h4]; simp; omega)
  unfold BB.Reserve
  rw [sub_eq (by arith) (by arith)]
  dsimp only
  by_cases hg : n > b.cap - b.wi
  · rw [if_pos hg, sub_eq (by arith) (by arith), if_neg (by omega)]
    generalize hcap : imax c (b.cap + (n - (b.cap - b.wi))) = cap'
    have hc1 : b.wi + n ≤ cap' ∧ cap' ≤ Go.I64MAX := by
      rw [← hcap]; unfold imax; split <;> constructor <;> arith
    rw [reslice_eq (by arith) (by arith)]
    dsimp only
    rw [htake]
    exact ⟨_, rfl, ⟨h1, h2, h3, h4, by arith, hc1.2, rfl, h8⟩, by arith⟩
  · rw [if_neg hg, reslice_eq (by arith) (by arith), htake]
    exact ⟨_, rfl, ⟨h1, h2, h3, h4, h5, h6, rfl, h8⟩, by arith⟩

theorem bytes_from {b : BB} {s : S} (hR : R b s) (w : Nat) (hw : w ≤ s.readable.length) :
    b.bytes (b.si + w) b.ri = s.readable.drop w := by
  obtain ⟨h1, h2, h3, h4, h5, h6, h7, h8⟩ := hR
  unfold BB.bytes
  have e1 : b.ri.toNat = (s.saved ++ s.readable).length := by simp; omega
  have e2 : (b.si + w).toNat = s.saved.length + w := by omega
  rw [h4, e1, e2, List.take_left' rfl, List.drop_append, List.drop_of_length_le (by omega), List.nil_append]
  congr 1; omega

theorem take_add_drop (l : List UInt8) (w k : Nat) : l.take w ++ (l.drop w).take k = l.take (w + k) := by
  rw [List.take_add]

/-- The loop of `WriteTo` feeds the scripted writer exactly as the specification's `feed`. -/
theorem writeLoop_spec {b : BB} {s : S} (hR : R b s) (resps : List (Nat × Bool)) :
    ∀ (w : Nat), w ≤ s.readable.length →
    ∃ (L : Nat) (e : Err), L ≤ s.readable.length ∧
      feed (s.readable.drop w) resps (s.readable.take w) = (s.readable.take L, e) ∧
      b.writeLoop resps w (s.readable.take w) = some ((L : Int), s.readable.take L, e) := by
  have hR0 := hR
  obtain ⟨h1, h2, h3, h4, h5, h6, h7, h8⟩ := hR
  induction resps with
  | nil =>
    intro w hw
    unfold BB.writeLoop
    rw [add_eq (by arith) (by arith)]
    by_cases hlt : w < s.readable.length
    · have hne : s.readable.drop w ≠ [] := by
        intro h; have := congrArg List.length h; simp at this; omega
      rw [if_pos (by omega)]
      dsimp only
      rw [if_pos (show b.sliceOk _ _ from ⟨by omega, by omega, by omega⟩), bytes_from hR0 w hw]
      refine ⟨s.readable.length, .nil, Nat.le_refl _, ?_, ?_⟩
      · cases hd : s.readable.drop w with
        | nil => exact absurd hd hne
        | cons x xs => unfold feed; rw [← hd, List.take_append_drop, List.take_of_length_le (Nat.le_refl _)]
      · rw [List.take_append_drop, List.take_of_length_le (Nat.le_refl _), List.length_drop,
          add_eq (by arith) (by arith)]
        congr 2; omega
    · have hw' : w = s.readable.length := by omega
      rw [if_neg (by omega)]
      refine ⟨w, .nil, hw, ?_, rfl⟩
      rw [List.drop_of_length_le (by omega)]; unfold feed; rfl
  | cons r more ih =>
    intro w hw
    obtain ⟨n, fail⟩ := r
    unfold BB.writeLoop
    rw [add_eq (by arith) (by arith)]
    by_cases hlt : w < s.readable.length
    · have hne : s.readable.drop w ≠ [] := by
        intro h; have := congrArg List.length h; simp at this; omega
      rw [if_pos (by omega)]
      dsimp only
      rw [if_pos (show b.sliceOk _ _ from ⟨by omega, by omega, by omega⟩), bytes_from hR0 w hw]
      cases fail with
      | true =>
        refine ⟨w, .other, hw, ?_, by simp⟩
        cases hd : s.readable.drop w with
        | nil => exact absurd hd hne
        | cons x xs => unfold feed; rfl
      | false =>
        generalize hk : min n (s.readable.drop w).length = k
        have hk1 : w + k ≤ s.readable.length := by rw [← hk, List.length_drop]; omega
        obtain ⟨L, e, hL, hf, hl⟩ := ih (w + k) hk1
        refine ⟨L, e, hL, ?_, ?_⟩
        · cases hd : s.readable.drop w with
          | nil => exact absurd hd hne
          | cons x xs =>
            unfold feed
            rw [← hd, ← hf]
            have e1 : (s.readable.drop w).drop n = s.readable.drop (w + k) := by
              rw [List.drop_drop]
              by_cases h : n ≤ (s.readable.drop w).length
              · congr 1; omega
              · rw [List.length_drop] at h hk
                rw [List.drop_of_length_le (by omega), List.drop_of_length_le (by omega)]
            have e2 : s.readable.take w ++ (s.readable.drop w).take n = s.readable.take (w + k) := by
              rw [← take_add_drop]
              congr 1
              by_cases h : n ≤ (s.readable.drop w).length
              · congr 1; omega
              · rw [List.take_of_length_le (by omega), List.take_of_length_le (by omega)]
            rw [e1, e2]
        · simp only [Bool.false_eq_true, if_false]
          rw [add_eq (by arith) (by arith), take_add_drop]
          have : ((w : Int) + (k : Int)) = ((w + k : Nat) : Int) := by omega
          rw [this]
          exact hl
    · have hw' : w = s.readable.length := by omega
      rw [if_neg (by omega)]
      refine ⟨w, .nil, hw, ?_, rfl⟩
      rw [List.drop_of_length_le (by omega)]; unfold feed; rfl

theorem writeTo_spec {b : BB} {s : S} (hR : R b s) (resps : List (Nat × Bool)) :
    ∃ b', b.WriteTo resps = some (b', ((feed s.readable resps []).1.length : Int), (feed s.readable resps []).1,
                                   (feed s.readable resps []).2) ∧ b'.cap = b.cap ∧
      R b' { s with readable := s.readable.drop (feed s.readable resps []).1.length } := by
  obtain ⟨L, e, hL, hf, hl⟩ := writeLoop_spec hR resps 0 (Nat.zero_le _)
  rw [List.drop_zero, List.take_zero] at hf
  rw [List.take_zero] at hl
  unfold BB.WriteTo
  have hl' : b.writeLoop resps 0 [] = some ((L : Int), s.readable.take L, e) := hl
  rw [hl']
  dsimp only
  obtain ⟨b', hb, hR', hc⟩ := consume_spec hR (L : Int)
  rw [hb, hf]
  dsimp only
  have hlen : (s.readable.take L).length = L := by rw [List.length_take]; omega
  rw [hlen]
  refine ⟨b', rfl, hc, ?_⟩
  have : (L : Int).toNat = L := by omega
  rw [this] at hR'
  exact hR'

end Sonic.Props.C09
