/-
Correctness of the Fenwick tree of `util/fenwick_tree.go` as modelled in `Sonic.Model.Slots`:
the four parity recurrences of `i | (i+1)` and `i & (i+1)`, the range covered by a cell, and
`SumUntil` / `Add` / `Sum` / `Reset` against an abstract array of cells.
-/
import Sonic.Model.Slots

namespace Sonic.Lemmas.Fenwick
open Sonic.Model.Slots

/-! ## Bit recurrences -/

theorem up_even (k : Nat) : up (2 * k) = 2 * k + 1 := by
  unfold up
  have h1 : (2 * k ||| (2 * k + 1)) / 2 = k := by
    rw [Nat.or_div_two]
    have : 2 * k / 2 = k := by omega
    have h' : (2 * k + 1) / 2 = k := by omega
    rw [this, h', Nat.or_self]
  have h2 : (2 * k ||| (2 * k + 1)) % 2 = 1 := by
    rw [Nat.or_mod_two_eq_one]; right; omega
  omega

theorem up_odd (k : Nat) : up (2 * k + 1) = 2 * up k + 1 := by
  unfold up
  have h1 : ((2 * k + 1) ||| (2 * k + 1 + 1)) / 2 = k ||| (k + 1) := by
    rw [Nat.or_div_two]
    have : (2 * k + 1) / 2 = k := by omega
    have h' : (2 * k + 1 + 1) / 2 = k + 1 := by omega
    rw [this, h']
  have h2 : ((2 * k + 1) ||| (2 * k + 1 + 1)) % 2 = 1 := by
    rw [Nat.or_mod_two_eq_one]; left; omega
  omega

theorem down_even (k : Nat) : down (2 * k) = 2 * k := by
  unfold down
  have h1 : (2 * k &&& (2 * k + 1)) / 2 = k := by
    rw [Nat.and_div_two]
    have : 2 * k / 2 = k := by omega
    have h' : (2 * k + 1) / 2 = k := by omega
    rw [this, h', Nat.and_self]
  have h2 : ¬ (2 * k &&& (2 * k + 1)) % 2 = 1 := by
    rw [Nat.and_mod_two_eq_one]; omega
  omega

theorem down_odd (k : Nat) : down (2 * k + 1) = 2 * down k := by
  unfold down
  have h1 : ((2 * k + 1) &&& (2 * k + 1 + 1)) / 2 = k &&& (k + 1) := by
    rw [Nat.and_div_two]
    have : (2 * k + 1) / 2 = k := by omega
    have h' : (2 * k + 1 + 1) / 2 = k + 1 := by omega
    rw [this, h']
  have h2 : ¬ ((2 * k + 1) &&& (2 * k + 1 + 1)) % 2 = 1 := by
    rw [Nat.and_mod_two_eq_one]; omega
  omega

theorem parity (i : Nat) : (∃ k, i = 2 * k) ∨ (∃ k, i = 2 * k + 1) := by
  rcases Nat.mod_two_eq_zero_or_one i with h | h
  · left; exact ⟨i / 2, by omega⟩
  · right; exact ⟨i / 2, by omega⟩

/-- The query loop's index strictly decreases: `i & (i+1) ≤ i`. -/
theorem down_le (i : Nat) : down i ≤ i := by
  induction i using Nat.strongRecOn with
  | _ i ih =>
    rcases parity i with ⟨k, rfl⟩ | ⟨k, rfl⟩
    · rw [down_even]; omega
    · rw [down_odd]; have := ih k (by omega); omega

/-- The update loop's index strictly increases: `i < i | (i+1)`. -/
theorem lt_up (i : Nat) : i < up i := by
  induction i using Nat.strongRecOn with
  | _ i ih =>
    rcases parity i with ⟨k, rfl⟩ | ⟨k, rfl⟩
    · rw [up_even]; omega
    · rw [up_odd]; have := ih k (by omega); omega

/-- Inside the range `[down j, j]` covered by cell `j`, the update chain stays inside. -/
theorem up_in (j : Nat) : ∀ i, down j ≤ i → i < j → down j ≤ up i ∧ up i ≤ j := by
  induction j using Nat.strongRecOn with
  | _ j ih =>
    intro i h1 h2
    rcases parity j with ⟨b, rfl⟩ | ⟨b, rfl⟩
    · rw [down_even] at h1; omega
    · rw [down_odd] at h1 ⊢
      rcases parity i with ⟨c, rfl⟩ | ⟨c, rfl⟩
      · rw [up_even]; omega
      · rw [up_odd]
        have := ih b (by omega) c (by omega) (by omega)
        omega

/-- Below the range covered by cell `j`, the update chain jumps over it. -/
theorem up_out (j : Nat) : ∀ i, i < down j → up i < down j ∨ j < up i := by
  induction j using Nat.strongRecOn with
  | _ j ih =>
    intro i h1
    rcases parity j with ⟨b, rfl⟩ | ⟨b, rfl⟩
    · rw [down_even] at h1 ⊢
      rcases parity i with ⟨c, rfl⟩ | ⟨c, rfl⟩
      · rw [up_even]; omega
      · rw [up_odd]; omega
    · rw [down_odd] at h1 ⊢
      rcases parity i with ⟨c, rfl⟩ | ⟨c, rfl⟩
      · rw [up_even]; omega
      · rw [up_odd]
        have := ih b (by omega) c (by omega)
        omega

/-- Cell `j ≠ i` covers `up i` exactly when it covers `i`. -/
theorem cover_up (i j : Nat) (hne : j ≠ i) : (down j ≤ up i ∧ up i ≤ j) ↔ (down j ≤ i ∧ i ≤ j) := by
  constructor
  · intro ⟨h1, h2⟩
    have := lt_up i
    refine ⟨?_, by omega⟩
    rcases Nat.lt_or_ge i (down j) with h | h
    · rcases up_out j i h with h' | h' <;> omega
    · exact h
  · intro ⟨h1, h2⟩
    exact up_in j i h1 (by omega)

/-! ## The abstract array of cells and its prefix sums -/

/-- Sum of the first `k` cells. -/
def psum (a : Nat → Int) : Nat → Int
  | 0 => 0
  | k + 1 => psum a k + a k

/-- `a` with `delta` added to cell `i`. -/
def upd (a : Nat → Int) (i : Nat) (delta : Int) : Nat → Int := fun x => if x = i then a x + delta else a x

theorem psum_upd (a : Nat → Int) (i : Nat) (delta : Int) (k : Nat) :
    psum (upd a i delta) k = psum a k + (if i < k then delta else 0) := by
  induction k with
  | zero => simp [psum]
  | succ k ih =>
    simp only [psum, ih, upd]
    by_cases h1 : k = i
    · subst h1; simp; omega
    · by_cases h2 : i < k
      · have : i < k + 1 := by omega
        simp [h1, h2, this]; omega
      · have : ¬ i < k + 1 := by omega
        simp [h1, h2, this]

theorem psum_zero (k : Nat) : psum (fun _ => 0) k = 0 := by
  induction k with
  | zero => rfl
  | succ k ih => simp [psum, ih]

theorem psum_mono (a : Nat → Int) (h : ∀ x, 0 ≤ a x) {k l : Nat} (hkl : k ≤ l) : psum a k ≤ psum a l := by
  induction l with
  | zero => have : k = 0 := by omega
            subst this; exact Int.le_refl _
  | succ l ih =>
    rcases Nat.lt_or_ge k (l + 1) with h' | h'
    · have := ih (by omega); have := h l; simp only [psum]; omega
    · have : k = l + 1 := by omega
      subst this; exact Int.le_refl _

theorem psum_nonneg (a : Nat → Int) (h : ∀ x, 0 ≤ a x) (k : Nat) : 0 ≤ psum a k := by
  have := psum_mono a h (Nat.zero_le k); simpa [psum] using this

/-- Beyond the last non-zero cell the prefix sums are constant. -/
theorem psum_const (a : Nat → Int) (y : Nat) (h : ∀ x, y ≤ x → a x = 0) {z : Nat} (hz : y ≤ z) : psum a z = psum a y := by
  induction z with
  | zero => have : y = 0 := by omega
            subst this; rfl
  | succ z ih =>
    rcases Nat.lt_or_ge y (z + 1) with h' | h'
    · simp only [psum, ih (by omega), h z (by omega)]; omega
    · have : y = z + 1 := by omega
      subst this; rfl

/-- The tree invariant: cell `j` holds the sum of the cells `[down j, j]`. -/
def Fen (d : Tree) (a : Nat → Int) : Prop :=
  ∀ j, j < d.length → d.getD j 0 = psum a (j + 1) - psum a (down j)

theorem fen_new (n : Int) : Fen (Tree.new n) (fun _ => 0) := by
  intro j hj
  simp only [Tree.new, List.length_replicate] at hj
  simp [Tree.new, psum_zero, List.getD_eq_getElem?_getD, hj]

theorem fen_reset (d : Tree) : Fen d.reset (fun _ => 0) := by
  intro j hj
  simp only [Tree.reset, List.length_replicate] at hj
  simp [Tree.reset, psum_zero, List.getD_eq_getElem?_getD, hj]

theorem reset_length (d : Tree) : d.reset.length = d.length := by simp [Tree.reset]
theorem new_length (n : Int) : (Tree.new n).length = n.toNat := by simp [Tree.new]

/-! ## `SumUntil` -/

theorem sumLoop_spec (d : Tree) (a : Nat → Int) (hf : Fen d a) :
    ∀ fuel i acc, i < fuel → i < d.length → sumLoop fuel d i acc = acc + psum a (i + 1) := by
  intro fuel
  induction fuel with
  | zero => intro i acc h; omega
  | succ fuel ih =>
    intro i acc h1 h2
    simp only [sumLoop]
    have hd := down_le i
    rw [hf i h2]
    by_cases h0 : down i = 0
    · simp [h0, psum]
    · rw [if_neg h0, ih (down i - 1) _ (by omega) (by omega)]
      have : down i - 1 + 1 = down i := by omega
      rw [this]; omega

/-- `SumUntil(i)` is the sum of the first `i+1` cells; the loop needs at most `i+1` iterations. -/
theorem sumUntil_spec (d : Tree) (a : Nat → Int) (hf : Fen d a) (i : Nat) (hi : i < d.length) :
    d.sumUntil (i : Int) = psum a (i + 1) := by
  unfold Tree.sumUntil
  rw [if_neg (by omega)]
  simp only [Int.toNat_natCast]
  rw [sumLoop_spec d a hf _ _ _ (by omega) hi]; omega

/-- `Sum()` is the sum of all cells. -/
theorem sum_spec (d : Tree) (a : Nat → Int) (hf : Fen d a) : d.sum = psum a d.length := by
  unfold Tree.sum
  rcases Nat.eq_zero_or_pos d.length with h | h
  · rw [h]; simp [Tree.sumUntil, psum]
  · have : ((d.length : Int) - 1) = ((d.length - 1 : Nat) : Int) := by omega
    rw [this, sumUntil_spec d a hf _ (by omega)]
    congr 1; omega

/-! ## `Add` -/

theorem addLoop_length (delta : Int) : ∀ fuel (d : Tree) i, (addLoop fuel d i delta).length = d.length := by
  intro fuel
  induction fuel with
  | zero => intro d i; rfl
  | succ fuel ih =>
    intro d i
    simp only [addLoop]
    split
    · rw [ih]; simp
    · rfl

theorem add_length (d : Tree) (i : Nat) (delta : Int) : (d.add i delta).length = d.length := addLoop_length _ _ _ _

/-- What the update loop does to every cell: `delta` is added to exactly the cells whose range
contains `i` (given enough fuel: the index strictly increases, so `len - i` iterations suffice). -/
theorem addLoop_getD (delta : Int) : ∀ fuel (d : Tree) i, d.length ≤ fuel + i → ∀ j, j < d.length →
    (addLoop fuel d i delta).getD j 0 = d.getD j 0 + (if down j ≤ i ∧ i ≤ j then delta else 0) := by
  intro fuel
  induction fuel with
  | zero =>
    intro d i h j hj
    simp only [addLoop]
    rw [if_neg (by omega)]; omega
  | succ fuel ih =>
    intro d i h j hj
    simp only [addLoop]
    by_cases hi : i < d.length
    · rw [if_pos hi]
      have hlt := lt_up i
      rw [ih _ _ (by simp only [List.length_set]; omega) j (by simp only [List.length_set]; exact hj)]
      by_cases hji : j = i
      · subst hji
        have hd := down_le j
        rw [if_neg (by omega), if_pos ⟨hd, Nat.le_refl _⟩]
        simp [List.getD_eq_getElem?_getD, hi]
      · have hc := cover_up i j hji
        have hset : (d.set i (d.getD i 0 + delta)).getD j 0 = d.getD j 0 := by
          simp only [List.getD_eq_getElem?_getD, List.getElem?_set]
          rw [if_neg (by omega)]
        rw [hset]
        by_cases hcov : down j ≤ i ∧ i ≤ j
        · rw [if_pos (hc.mpr hcov), if_pos hcov]
        · rw [if_neg (fun h' => hcov (hc.mp h')), if_neg hcov]
    · rw [if_neg hi, if_neg (by omega)]; omega

/-- `Add(i, delta)` updates exactly cell `i` of the abstract array. -/
theorem fen_add (d : Tree) (a : Nat → Int) (hf : Fen d a) (i : Nat) (delta : Int) :
    Fen (d.add i delta) (upd a i delta) := by
  intro j hj
  rw [add_length] at hj
  unfold Tree.add
  rw [addLoop_getD delta _ d i (by omega) j hj, hf j hj, psum_upd, psum_upd]
  have hd := down_le j
  by_cases h1 : i < j + 1
  · by_cases h2 : i < down j
    · rw [if_pos h1, if_pos h2, if_neg (by omega)]; omega
    · rw [if_pos h1, if_neg h2, if_pos (by omega)]; omega
  · rw [if_neg h1, if_neg (by omega), if_neg (by omega)]; omega

/-- Adding zero changes nothing. -/
theorem addLoop_zero : ∀ fuel (d : Tree) i, addLoop fuel d i 0 = d := by
  intro fuel
  induction fuel with
  | zero => intro d i; rfl
  | succ fuel ih =>
    intro d i
    simp only [addLoop]
    split
    · rename_i h
      have : d.set i (d.getD i 0 + 0) = d := by
        simp only [Int.add_zero]
        apply List.ext_getElem (by simp)
        intro k h1 h2
        simp only [List.getElem_set]
        split
        · rename_i hk; subst hk
          simp [List.getD_eq_getElem?_getD, List.getElem?_eq_getElem h]
        · rfl
      rw [this, ih]
    · rfl

theorem add_zero (d : Tree) (i : Nat) : d.add i 0 = d := addLoop_zero _ _ _

/-- `At(i)` (= `SumRange(i, i)`) is cell `i`. -/
theorem at_spec (d : Tree) (a : Nat → Int) (hf : Fen d a) (i : Nat) (hi : i < d.length) : d.at (i : Int) = a i := by
  unfold Tree.at Tree.sumRange
  rw [sumUntil_spec d a hf i hi]
  cases i with
  | zero => simp [Tree.sumUntil, psum]
  | succ k =>
    have : ((k + 1 : Nat) : Int) - 1 = (k : Int) := by omega
    rw [this, sumUntil_spec d a hf k (by omega)]
    simp only [psum]; omega

/-- `Clear(i)` returns cell `i` and sets it to zero. -/
theorem clear_spec (d : Tree) (a : Nat → Int) (hf : Fen d a) (i : Nat) (hi : i < d.length) :
    (d.clear i).2 = a i ∧ Fen (d.clear i).1 (upd a i (-(a i))) := by
  unfold Tree.clear
  dsimp only
  rw [at_spec d a hf i hi]
  exact ⟨rfl, fen_add d a hf i _⟩

/-! ## Sequences of `Add`s -/

def applyAdds (d : Tree) : List (Nat × Int) → Tree
  | [] => d
  | p :: r => applyAdds (d.add p.1 p.2) r

def addsTo (a : Nat → Int) : List (Nat × Int) → Nat → Int
  | [] => a
  | p :: r => addsTo (upd a p.1 p.2) r

theorem fen_applyAdds (adds : List (Nat × Int)) : ∀ (d : Tree) (a : Nat → Int), Fen d a →
    Fen (applyAdds d adds) (addsTo a adds) ∧ (applyAdds d adds).length = d.length := by
  induction adds with
  | nil => intro d a h; exact ⟨h, rfl⟩
  | cons p r ih =>
    intro d a h
    have := ih (d.add p.1 p.2) (upd a p.1 p.2) (fen_add d a h p.1 p.2)
    exact ⟨this.1, by show (applyAdds (d.add p.1 p.2) r).length = _; rw [this.2, add_length]⟩

/-- Cell `x` after a sequence of `Add`s: everything that was added at `x`. -/
theorem addsTo_eq (adds : List (Nat × Int)) : ∀ (a : Nat → Int) (x : Nat),
    addsTo a adds x = a x + ((adds.filter (fun p => p.1 == x)).map (·.2)).sum := by
  induction adds with
  | nil => intro a x; simp [addsTo]
  | cons p r ih =>
    intro a x
    simp only [addsTo, ih, upd, List.filter_cons]
    by_cases h : x = p.1
    · subst h; simp; omega
    · have : (p.1 == x) = false := by simp; omega
      simp [h, this]

end Sonic.Lemmas.Fenwick
