/-
C12, refinement layer: the coupling between the datagram model (`Model.Datagram.World`) and the monitor state
(`Spec.Datagram.S`), and its preservation by every operation.
-/
import Sonic.Lemmas.DatagramMemb

set_option linter.unusedSimpArgs false
set_option linter.unnecessarySimpa false
set_option linter.unusedVariables false

namespace Sonic.Lemmas.Datagram
open Sonic.Spec.Datagram Sonic.Model.Datagram

/-- Per-socket coupling. `nbuf` = number of buffers handed out so far. -/
structure SockR (nbuf : Nat) (m : MSock) (t : Sock) : Prop where
  kern : t.kern = m.kern
  isOpen : t.isOpen = !m.closed
  out : t.out = if m.closed then [] else m.rxq
  pend : t.pend = m.read
  closedRead : m.closed = true → m.read = none
  memb : MembR m.membs t.memb
  getters : m.kind = .peer → m.cache.ttl = m.kern.ttl ∧ m.cache.localAddr = m.kern.name ∧ m.cache.outIp = m.kern.mcIf
      ∧ m.cache.outIf.getD 0 = m.kern.mcIf ∧ (t.loopSet = true → m.cache.loop = m.kern.loop)
  cands : ∀ cur len, m.read = some (cur, len) → ∃ pre, m.cands = pre ++ [(cur, len)]
  candsLt : ∀ c ∈ m.cands, c.1 < nbuf
  candsInc : m.cands.Pairwise (fun a b => a.1 < b.1)
  readLen : ∀ cur len, m.read = some (cur, len) → 0 < len

def OptR (nbuf : Nat) : Option MSock → Option Sock → Prop
  | none, none => True
  | some m, some t => SockR nbuf m t
  | _, _ => False

structure R (w : World) (st : S) : Prop where
  host : st.host = w.host
  socks : ∀ i, OptR w.nbuf (w.socks i) (st.socks i)
  notes : ∀ n ∈ st.notes, n = "loop-getter-inverted"

theorem R.init : R World.init Sonic.Spec.Datagram.init :=
  ⟨rfl, fun _ => trivial, fun _ h => by simp [Sonic.Spec.Datagram.init] at h⟩

theorem SockR.mono {n n' : Nat} {m : MSock} {t : Sock} (h : SockR n m t) (hn : n ≤ n') : SockR n' m t :=
  { h with candsLt := fun c hc => Nat.lt_of_lt_of_le (h.candsLt c hc) hn }

theorem OptR.mono {n n' : Nat} {m : Option MSock} {t : Option Sock} (h : OptR n m t) (hn : n ≤ n') : OptR n' m t := by
  cases m <;> cases t <;> simp_all [OptR]
  exact h.mono hn

/-- A live socket of the model has a monitor counterpart. -/
theorem R.ofLive {w : World} {st : S} (h : R w st) {s : Nat} {m : MSock} (hl : live w s = some m) :
    s < maxSock ∧ w.socks s = some m ∧ m.closed = false ∧ ∃ t, st.socks s = some t ∧ SockR w.nbuf m t := by
  unfold live at hl
  by_cases hs : s < maxSock
  · simp only [hs, if_true] at hl
    cases hw : w.socks s with
    | none => simp [hw] at hl
    | some m' =>
      simp only [hw] at hl
      by_cases hc : m'.closed = true
      · simp [hc] at hl
      · simp only [hc, Bool.false_eq_true, if_false, Option.some.injEq] at hl
        subst hl
        have := h.socks s
        rw [hw] at this
        cases ht : st.socks s with
        | none => simp [ht, OptR] at this
        | some t => rw [ht] at this; exact ⟨hs, rfl, by simpa using hc, t, rfl, this⟩
  · simp [hs] at hl

/-- Replacing one socket on both sides. -/
theorem R.putSock {w : World} {st : S} (h : R w st) (s : Nat) {m : MSock} {t : Sock} (hm : SockR w.nbuf m t) :
    R (Model.Datagram.put w s m) (setSock st s t) := by
  refine ⟨h.host, fun i => ?_, h.notes⟩
  by_cases hi : i = s
  · subst hi; simpa [Model.Datagram.put, setSock, upd, OptR] using hm
  · simpa [Model.Datagram.put, setSock, upd, hi] using h.socks i

theorem R.bump {w : World} {st : S} (h : R w st) : R { w with nbuf := w.nbuf + 1 } st :=
  ⟨h.host, fun i => (h.socks i).mono (Nat.le_succ _), h.notes⟩

theorem R.withNotes {w : World} {st : S} (h : R w st) : R w { st with notes := st.notes ++ ["loop-getter-inverted"] } :=
  ⟨h.host, h.socks, fun n hn => by
    simp only [List.mem_append, List.mem_singleton] at hn
    rcases hn with hn | hn
    · exact h.notes n hn
    · exact hn⟩

/-! ### `Spec.run` over the events of one operation -/

theorem run_append (st : S) (a b : List Ev) :
    Sonic.Spec.Datagram.run st (a ++ b) = (match Sonic.Spec.Datagram.run st a with | .ok st' => Sonic.Spec.Datagram.run st' b | .error k => .error k) := by
  induction a generalizing st with
  | nil => rfl
  | cons e r ih =>
    simp only [List.cons_append, Sonic.Spec.Datagram.run]
    cases step st e with
    | ok st' => exact ih st'
    | error k => rfl

theorem run_one (st : S) (e : Ev) :
    Sonic.Spec.Datagram.run st [e] = step st e := by
  simp only [Sonic.Spec.Datagram.run]
  cases step st e <;> rfl

theorem run_two (st : S) (e1 e2 : Ev) {st1 : S} (h1 : step st e1 = .ok st1) :
    Sonic.Spec.Datagram.run st [e1, e2] = step st1 e2 := by
  simp only [Sonic.Spec.Datagram.run, h1]
  cases step st1 e2 <;> rfl

/-! ### Operations -/

/-- The monitor accepts the events the model emits for `op`, and the coupling is re-established. -/
def Refines (w : World) (st : S) (op : Op) : Prop :=
  ∃ st', Sonic.Spec.Datagram.run st (Model.Datagram.step w op).2 = .ok st' ∧ R (Model.Datagram.step w op).1 st'

theorem accept_skipped {w : World} {st : S} (h : R w st) :
    ∃ st', Sonic.Spec.Datagram.run st [.skipped] = .ok st' ∧ R w st' := ⟨st, rfl, h⟩

theorem accept_nop {w : World} {st : S} (h : R w st) :
    ∃ st', Sonic.Spec.Datagram.run st [.nop] = .ok st' ∧ R w st' := ⟨st, rfl, h⟩

theorem SockR.fresh (n : Nat) (kind : Kind) (kern : Kern) (cache : Cache)
    (hg : kind = .peer → cache.ttl = kern.ttl ∧ cache.localAddr = kern.name ∧ cache.outIp = kern.mcIf ∧ cache.outIf.getD 0 = kern.mcIf) :
    SockR n (freshSock kind kern cache)
      { kern := kern, memb := Memb.empty, out := [], pend := none, loopSet := false, isOpen := true } := by
  refine ⟨rfl, rfl, rfl, rfl, fun _ => rfl, MembR.init, fun hk => ?_, fun cur len hr => by simp [freshSock] at hr, fun c hc => by simp [freshSock] at hc,
    by simp [freshSock], fun cur len hr => by simp [freshSock] at hr⟩
  obtain ⟨a, b, c, d⟩ := hg hk
  exact ⟨a, b, c, d, fun hl => by simp at hl⟩

theorem refines_newPc {w : World} {st : S} (h : R w st) (s : Nat) (f : PcForm) : Refines w st (.newPc s f) := by
  unfold Refines
  simp only [Model.Datagram.step]
  by_cases hc : canCreate w s = true
  · simp only [hc, Bool.not_true, Bool.false_eq_true, if_false]
    refine ⟨_, rfl, ?_⟩
    exact h.putSock s (SockR.fresh _ _ _ _ (fun hk => by simp at hk))
  · simp only [hc, Bool.not_false, if_true]
    exact accept_skipped h


theorem put_same {w : World} {s : Nat} {m : MSock} (hw : w.socks s = some m) : Model.Datagram.put w s m = w := by
  have : upd w.socks s (some m) = w.socks := by rw [← hw]; exact upd_self _ _
  simp [Model.Datagram.put, this]

theorem R.setSpec {w : World} {st : S} (h : R w st) {s : Nat} {m : MSock} {t' : Sock} (hw : w.socks s = some m)
    (hr : SockR w.nbuf m t') : R w (setSock st s t') := by
  have := h.putSock s hr
  rwa [put_same hw] at this

theorem accept_getters {w : World} {st : S} (h : R w st) {s : Nat} {m : MSock} {t : Sock} (hw : w.socks s = some m)
    (ht : st.socks s = some t) (hr : SockR w.nbuf m t) (hk : m.kind = .peer) :
    ∃ st', Sonic.Spec.Datagram.step st (.getters s (gettersOf m) m.kern) = .ok st' ∧ R w st' := by
  obtain ⟨h1, h2, h3, h4, h5⟩ := hr.getters hk
  have hr' : SockR w.nbuf m { t with kern := m.kern } := by rw [← hr.kern]; exact hr
  simp only [Sonic.Spec.Datagram.step, ht, gettersOf, h1, h2, h3, h4, bne_self_eq_false, Bool.false_eq_true, if_false, Bool.or_self]
  by_cases hl : m.cache.loop = m.kern.loop
  · simp only [hl, bne_self_eq_false, Bool.false_eq_true, if_false]
    exact ⟨_, rfl, h.setSpec hw hr'⟩
  · have hls : t.loopSet = false := by
      cases hx : t.loopSet with
      | false => rfl
      | true => exact absurd (h5 hx) hl
    have hne : (m.cache.loop != m.kern.loop) = true := by simpa using hl
    simp only [hne, if_true]
    rw [if_neg (by simp [hls])]
    exact ⟨_, rfl, (h.setSpec hw hr').withNotes⟩

theorem refines_newRaw {w : World} {st : S} (h : R w st) (s : Nat) (f : RawForm) : Refines w st (.newRaw s f) := by
  unfold Refines
  simp only [Model.Datagram.step]
  by_cases hc : canCreate w s = true
  · simp only [hc, Bool.not_true, Bool.false_eq_true, if_false]
    refine ⟨_, rfl, ?_⟩
    exact h.putSock s (SockR.fresh _ _ _ _ (fun hk => by simp at hk))
  · simp only [hc, Bool.not_false, if_true]
    exact accept_skipped h

theorem refines_newPeer {w : World} {st : S} (h : R w st) (s : Nat) (ip : Ip) (sh : Bool) : Refines w st (.newPeer s ip sh) := by
  unfold Refines
  simp only [Model.Datagram.step]
  by_cases hc : canCreate w s = true
  · simp only [hc, Bool.not_true, Bool.false_eq_true, if_false]
    let kern : Kern := { loop := true, ttl := 1, mcIf := 0, all := false, name := { ip := ip, port := if sh then sharedPort else ownPort s } }
    let cache : Cache := { loop := !kern.loop, ttl := 1, outIf := none, outIp := kern.mcIf, all := false, localAddr := kern.name }
    have hfresh := SockR.fresh w.nbuf .peer kern cache (fun _ => ⟨rfl, rfl, rfl, rfl⟩)
    have h1 := h.putSock s hfresh
    have hw : (Model.Datagram.put w s (freshSock .peer kern cache)).socks s = some (freshSock .peer kern cache) := by
      simp [Model.Datagram.put, upd]
    have ht : (setSock st s { kern := kern, memb := Memb.empty, out := [], pend := none, loopSet := false, isOpen := true }).socks s = some { kern := kern, memb := Memb.empty, out := [], pend := none, loopSet := false, isOpen := true } := by
      simp [setSock, upd]
    obtain ⟨st', hs, hR⟩ := accept_getters h1 hw ht hfresh rfl
    refine ⟨st', ?_, hR⟩
    rw [run_two _ _ _ (st1 := setSock st s { kern := kern, memb := Memb.empty, out := [], pend := none, loopSet := false, isOpen := true }) rfl]
    exact hs
  · simp only [hc, Bool.not_false, if_true]
    exact accept_skipped h


theorem setSock_setSock (st : S) (s : Nat) (a b : Sock) : setSock (setSock st s a) s b = setSock st s b := by
  simp [setSock, upd_upd]

/-- Acceptance of a getters event in a monitor state whose kernel record for `s` may be stale. -/
theorem accept_getters2 {w' : World} {st1 : S} {s : Nat} {m' : MSock} {t1 : Sock} (ht : st1.socks s = some t1)
    (hg : m'.cache.ttl = m'.kern.ttl ∧ m'.cache.localAddr = m'.kern.name ∧ m'.cache.outIp = m'.kern.mcIf
      ∧ m'.cache.outIf.getD 0 = m'.kern.mcIf ∧ (t1.loopSet = true → m'.cache.loop = m'.kern.loop))
    (hR : R w' (setSock st1 s { t1 with kern := m'.kern })) :
    ∃ st', Sonic.Spec.Datagram.step st1 (.getters s (gettersOf m') m'.kern) = .ok st' ∧ R w' st' := by
  obtain ⟨h1, h2, h3, h4, h5⟩ := hg
  simp only [Sonic.Spec.Datagram.step, ht, gettersOf, h1, h2, h3, h4, bne_self_eq_false, Bool.false_eq_true, if_false, Bool.or_self]
  by_cases hl : m'.cache.loop = m'.kern.loop
  · simp only [hl, bne_self_eq_false, Bool.false_eq_true, if_false]
    exact ⟨_, rfl, hR⟩
  · have hls : t1.loopSet = false := by
      cases hx : t1.loopSet with
      | false => rfl
      | true => exact absurd (h5 hx) hl
    have hne : (m'.cache.loop != m'.kern.loop) = true := by simpa using hl
    simp only [hne, if_true]
    rw [if_neg (by simp [hls])]
    exact ⟨_, rfl, hR.withNotes⟩

theorem refines_get {w : World} {st : S} (h : R w st) (s : Nat) : Refines w st (.get s) := by
  unfold Refines
  simp only [Model.Datagram.step]
  cases hl : live w s with
  | none => exact accept_skipped h
  | some m =>
    obtain ⟨hs, hw, hcl, t, ht, hr⟩ := h.ofLive hl
    by_cases hk : m.kind = .peer
    · simp only [hk, bne_self_eq_false, Bool.false_eq_true, if_false]
      rw [run_one]
      exact accept_getters h hw ht hr hk
    · have : (m.kind != Kind.peer) = true := by simpa using hk
      simp only [this, if_true]
      exact accept_skipped h

theorem step_setter {st : S} {s : Nat} {t : Sock} (ht : st.socks s = some t) (which : Setter) (err : Errc) :
    Sonic.Spec.Datagram.step st (.setter s which err)
      = .ok (if which = .loop ∧ err = .nil then setSock st s { t with loopSet := true } else st) := by
  simp [Sonic.Spec.Datagram.step, ht]


theorem SockR.setOpts {n : Nat} {m : MSock} {t : Sock} (hr : SockR n m t) (kern' : Kern) (cache' : Cache) (ls : Bool)
    (hg : m.kind = .peer → cache'.ttl = kern'.ttl ∧ cache'.localAddr = kern'.name ∧ cache'.outIp = kern'.mcIf
      ∧ cache'.outIf.getD 0 = kern'.mcIf ∧ (ls = true → cache'.loop = kern'.loop)) :
    SockR n { m with kern := kern', cache := cache' } { t with kern := kern', loopSet := ls } :=
  ⟨rfl, hr.isOpen, hr.out, hr.pend, hr.closedRead, hr.memb, hg, hr.cands, hr.candsLt, hr.candsInc, hr.readLen⟩

/-- A setter of a peer followed by the getters: new kernel record `kern'`, new cache `cache'`. -/
theorem accept_setter_getters {w : World} {st : S} (h : R w st) {s : Nat} {m : MSock} (hl : live w s = some m)
    (hk : m.kind = .peer) (which : Setter) (err : Errc) (kern' : Kern) (cache' : Cache)
    (hc : cache'.ttl = kern'.ttl ∧ cache'.localAddr = kern'.name ∧ cache'.outIp = kern'.mcIf ∧ cache'.outIf.getD 0 = kern'.mcIf)
    (hl1 : which = .loop ∧ err = .nil → cache'.loop = kern'.loop)
    (hl2 : m.cache.loop = m.kern.loop → cache'.loop = kern'.loop) :
    ∃ st', Sonic.Spec.Datagram.run st
        [.setter s which err, .getters s (gettersOf { m with kern := kern', cache := cache' }) kern'] = .ok st'
      ∧ R (Model.Datagram.put w s { m with kern := kern', cache := cache' }) st' := by
  obtain ⟨hs, hw, hcl, t, ht, hr⟩ := h.ofLive hl
  obtain ⟨g1, g2, g3, g4⟩ := hc
  obtain ⟨_, _, _, _, g5⟩ := hr.getters hk
  rw [run_two _ _ _ (step_setter ht which err)]
  by_cases hcase : which = .loop ∧ err = .nil
  · simp only [hcase, and_self, if_true]
    have ht1 : (setSock st s { t with loopSet := true }).socks s = some { t with loopSet := true } := by simp [setSock, upd]
    refine accept_getters2 (m' := { m with kern := kern', cache := cache' }) ht1 ⟨g1, g2, g3, g4, fun _ => hl1 hcase⟩ ?_
    rw [setSock_setSock]
    exact h.putSock s (hr.setOpts kern' cache' true (fun _ => ⟨g1, g2, g3, g4, fun _ => hl1 hcase⟩))
  · simp only [hcase, if_false]
    refine accept_getters2 (m' := { m with kern := kern', cache := cache' }) ht ⟨g1, g2, g3, g4, fun hx => hl2 (g5 hx)⟩ ?_
    exact h.putSock s (hr.setOpts kern' cache' t.loopSet (fun _ => ⟨g1, g2, g3, g4, fun hx => hl2 (g5 hx)⟩))

theorem put_eta {w : World} {s : Nat} {m : MSock} (hw : w.socks s = some m) :
    Model.Datagram.put w s { m with kern := m.kern, cache := m.cache } = w := put_same hw

theorem refines_setLoop {w : World} {st : S} (h : R w st) (s : Nat) (v : Bool) : Refines w st (.setLoop s v) := by
  unfold Refines
  simp only [Model.Datagram.step]
  cases hl : live w s with
  | none => exact accept_skipped h
  | some m =>
    obtain ⟨hs, hw, hcl, t, ht, hr⟩ := h.ofLive hl
    by_cases hk : m.kind = .peer
    · simp only [hk, bne_self_eq_false, Bool.false_eq_true, if_false]
      obtain ⟨g1, g2, g3, g4, g5⟩ := hr.getters hk
      by_cases hb : m.broken = true
      · simp only [hb, if_true]
        have := accept_setter_getters h hl hk .loop .notsock m.kern m.cache ⟨g1, g2, g3, g4⟩ (by simp) id
        rwa [put_eta hw] at this
      · simp only [hb, Bool.false_eq_true, if_false]
        have key := accept_setter_getters h hl hk .loop .nil { m.kern with loop := v } { m.cache with loop := v }
          ⟨g1, g2, g3, g4⟩ (fun _ => rfl) (fun _ => rfl)
        have hb' : m.broken = false := by simpa using hb
        simpa only [hk, hb'] using key
    · have : (m.kind != Kind.peer) = true := by simpa using hk
      simp only [this, if_true]
      exact accept_skipped h

theorem refines_setTTL {w : World} {st : S} (h : R w st) (s : Nat) (v : Nat) : Refines w st (.setTTL s v) := by
  unfold Refines
  simp only [Model.Datagram.step]
  cases hl : live w s with
  | none => exact accept_skipped h
  | some m =>
    obtain ⟨hs, hw, hcl, t, ht, hr⟩ := h.ofLive hl
    by_cases hk : m.kind = .peer
    · simp only [hk, bne_self_eq_false, Bool.false_eq_true, if_false]
      obtain ⟨g1, g2, g3, g4, g5⟩ := hr.getters hk
      by_cases hb : m.broken = true
      · simp only [hb, if_true]
        have := accept_setter_getters h hl hk .ttl .notsock m.kern m.cache ⟨g1, g2, g3, g4⟩ (by simp) id
        rwa [put_eta hw] at this
      · simp only [hb, Bool.false_eq_true, if_false]
        have key := accept_setter_getters h hl hk .ttl .nil { m.kern with ttl := v } { m.cache with ttl := v }
          ⟨rfl, g2, g3, g4⟩ (by simp) id
        have hb' : m.broken = false := by simpa using hb
        simpa only [hk, hb'] using key
    · have : (m.kind != Kind.peer) = true := by simpa using hk
      simp only [this, if_true]
      exact accept_skipped h

theorem refines_setOut {w : World} {st : S} (h : R w st) (s : Nat) (i : IfName) : Refines w st (.setOut s i) := by
  unfold Refines
  simp only [Model.Datagram.step]
  cases hl : live w s with
  | none => exact accept_skipped h
  | some m =>
    obtain ⟨hs, hw, hcl, t, ht, hr⟩ := h.ofLive hl
    by_cases hk : m.kind = .peer
    · simp only [hk, bne_self_eq_false, Bool.false_eq_true, if_false]
      obtain ⟨g1, g2, g3, g4, g5⟩ := hr.getters hk
      cases i with
      | eth0 =>
        by_cases hb : m.broken = true
        · simp only [hb, if_true]
          have := accept_setter_getters h hl hk .out .nil m.kern m.cache ⟨g1, g2, g3, g4⟩ (by simp) id
          rwa [put_eta hw] at this
        · simp only [hb, Bool.false_eq_true, if_false]
          have key := accept_setter_getters h hl hk .out .nil { m.kern with mcIf := w.host.ifIp }
            { m.cache with outIf := some w.host.ifIp, outIp := w.host.ifIp } ⟨g1, g2, rfl, rfl⟩ (by simp) id
          have hb' : m.broken = false := by simpa using hb
          simpa only [hk, hb'] using key
      | lo =>
        have := accept_setter_getters h hl hk .out .other m.kern m.cache ⟨g1, g2, g3, g4⟩ (by simp) id
        rwa [put_eta hw] at this
      | unknown =>
        have := accept_setter_getters h hl hk .out .other m.kern m.cache ⟨g1, g2, g3, g4⟩ (by simp) id
        rwa [put_eta hw] at this
    · have : (m.kind != Kind.peer) = true := by simpa using hk
      simp only [this, if_true]
      exact accept_skipped h


theorem SockR.setMemb {n : Nat} {m : MSock} {t : Sock} (hr : SockR n m t) (k' : KMembs) (a' : Memb) (hm : MembR k' a') :
    SockR n { m with membs := k' } { t with memb := a' } :=
  ⟨hr.kern, hr.isOpen, hr.out, hr.pend, hr.closedRead, hm, hr.getters, hr.cands, hr.candsLt, hr.candsInc, hr.readLen⟩

theorem step_memb_some {st : S} {s : Nat} {t : Sock} (ht : st.socks s = some t) (op : MOp) (err : Errc) :
    Sonic.Spec.Datagram.step st (.memb s (some op) err) = .ok (setSock st s { t with memb := mstep t.memb op (err == .nil) }) := by
  simp [Sonic.Spec.Datagram.step, ht]

theorem step_memb_none {st : S} {s : Nat} {t : Sock} (ht : st.socks s = some t) (err : Errc) :
    Sonic.Spec.Datagram.step st (.memb s none err) = .ok st := by
  simp [Sonic.Spec.Datagram.step, ht]

theorem refines_membCall {w : World} {st : S} (h : R w st) (s : Nat) (op : Option MOp) (ifok : Bool) :
    ∃ st', Sonic.Spec.Datagram.run st (membCall w s op ifok).2 = .ok st' ∧ R (membCall w s op ifok).1 st' := by
  unfold membCall
  cases hl : live w s with
  | none => exact accept_skipped h
  | some m =>
    obtain ⟨hs, hw, hcl, t, ht, hr⟩ := h.ofLive hl
    by_cases hk : m.kind = .peer
    · simp only [hk, bne_self_eq_false, Bool.false_eq_true, if_false]
      cases op with
      | none => exact ⟨st, by rw [run_one, step_memb_none ht], h⟩
      | some op =>
        have hfail : ∀ e : Errc, (e == Errc.nil) = false →
            ∃ st', Sonic.Spec.Datagram.run st [.memb s (some op) e] = .ok st' ∧ R w st' := by
          intro e he
          refine ⟨_, by rw [run_one, step_memb_some ht], ?_⟩
          rw [he]
          have := h.setSpec hw (hr.setMemb m.membs _ (hr.memb.fail op))
          exact this
        by_cases hi : ifok = true
        · simp only [hi, Bool.not_true, Bool.false_eq_true, if_false]
          by_cases hb : m.broken = true
          · simp only [hb, if_true]; exact hfail .notsock (by decide)
          · simp only [hb, Bool.false_eq_true, if_false]
            refine ⟨_, by rw [run_one, step_memb_some ht], ?_⟩
            have key := h.putSock s (hr.setMemb _ _ (kMemb_refines hr.memb op))
            have hb' : m.broken = false := by simpa using hb
            simpa only [hk, hb'] using key
        · have : (!ifok) = true := by simpa using hi
          simp only [this, if_true]; exact hfail .other (by decide)
    · have : (m.kind != Kind.peer) = true := by simpa using hk
      simp only [this, if_true]
      exact accept_skipped h

theorem refinesOp_join {w : World} {st : S} (h : R w st) (s : Nat) (g : GroupArg) (on : Option IfName) (src : Option SrcArg) :
    Refines w st (.join s g on src) := by
  unfold Refines; simp only [Model.Datagram.step]; exact refines_membCall h _ _ _

theorem refines_leaveOp {w : World} {st : S} (h : R w st) (s : Nat) (g : GroupArg) (src : Option SrcArg) :
    Refines w st (.leave s g src) := by
  unfold Refines; simp only [Model.Datagram.step]; exact refines_membCall h _ _ _

theorem refines_blockOp {w : World} {st : S} (h : R w st) (s : Nat) (g : GroupArg) (src : SrcArg) :
    Refines w st (.block s g src) := by
  unfold Refines; simp only [Model.Datagram.step]; exact refines_membCall h _ _ _

theorem refines_unblockOp {w : World} {st : S} (h : R w st) (s : Nat) (g : GroupArg) (src : SrcArg) :
    Refines w st (.unblock s g src) := by
  unfold Refines; simp only [Model.Datagram.step]; exact refines_membCall h _ _ _

theorem setSock_same {st : S} {s : Nat} {t : Sock} (ht : st.socks s = some t) : setSock st s t = st := by
  have : upd st.socks s (some t) = st.socks := by rw [← ht]; exact upd_self _ _
  simp [setSock, this]

theorem SockR.setBroken {n : Nat} {m : MSock} {t : Sock} (hr : SockR n m t) (b : Bool) : SockR n { m with broken := b } t :=
  ⟨hr.kern, hr.isOpen, hr.out, hr.pend, hr.closedRead, hr.memb, hr.getters, hr.cands, hr.candsLt, hr.candsInc, hr.readLen⟩

theorem refines_brk {w : World} {st : S} (h : R w st) (s : Nat) : Refines w st (.brk s) := by
  unfold Refines
  simp only [Model.Datagram.step]
  cases hl : live w s with
  | none => exact accept_skipped h
  | some m =>
    obtain ⟨hs, hw, hcl, t, ht, hr⟩ := h.ofLive hl
    by_cases hc : (m.kind != .peer || m.broken || m.read.isSome) = true
    · simp only [hc, if_true]; exact accept_skipped h
    · simp only [hc, Bool.false_eq_true, if_false]
      have := h.putSock s (hr.setBroken true)
      rw [setSock_same ht] at this
      exact ⟨st, rfl, this⟩

theorem refines_mend {w : World} {st : S} (h : R w st) (s : Nat) : Refines w st (.mend s) := by
  unfold Refines
  simp only [Model.Datagram.step]
  cases hl : live w s with
  | none => exact accept_skipped h
  | some m =>
    obtain ⟨hs, hw, hcl, t, ht, hr⟩ := h.ofLive hl
    by_cases hc : m.broken = true
    · simp only [hc, if_true]
      have := h.putSock s (hr.setBroken false)
      rw [setSock_same ht] at this
      exact ⟨st, rfl, this⟩
    · simp only [hc, Bool.false_eq_true, if_false]; exact accept_skipped h

theorem refines_close {w : World} {st : S} (h : R w st) (s : Nat) : Refines w st (.close s) := by
  unfold Refines
  simp only [Model.Datagram.step]
  cases hl : live w s with
  | none => exact accept_skipped h
  | some m =>
    obtain ⟨hs, hw, hcl, t, ht, hr⟩ := h.ofLive hl
    by_cases hb : m.broken = true
    · simp only [hb, if_true]; exact accept_skipped h
    · simp only [hb, Bool.false_eq_true, if_false]
      refine ⟨setSock st s { t with isOpen := false, out := [], pend := none }, ?_, ?_⟩
      · rw [run_one]; simp [Sonic.Spec.Datagram.step, ht]
      · refine h.putSock s ⟨hr.kern, rfl, rfl, rfl, fun _ => rfl, hr.memb, hr.getters, ?_, hr.candsLt, hr.candsInc, ?_⟩
        · intro cur len hx; simp at hx
        · intro cur len hx; simp at hx

/-- Operations the theorems are about: buffers handed to a read are not empty. -/
def OpOk : Op → Bool
  | .read _ len => 0 < len
  | .setBuf _ len => 0 < len
  | _ => true

theorem pairwise_snoc {l : List (Nat × Nat)} {n : Nat} (hp : l.Pairwise (fun a b => a.1 < b.1)) (hl : ∀ c ∈ l, c.1 < n) (len : Nat) :
    (l ++ [(n, len)]).Pairwise (fun a b => a.1 < b.1) := by
  rw [List.pairwise_append]
  refine ⟨hp, by simp, ?_⟩
  intro a ha b hb
  simp only [List.mem_singleton] at hb
  subst hb
  exact hl a ha

theorem refines_setBuf {w : World} {st : S} (h : R w st) (s len : Nat) (hlen : 0 < len) : Refines w st (.setBuf s len) := by
  unfold Refines
  simp only [Model.Datagram.step]
  cases hl : live w s with
  | none => exact accept_skipped h
  | some m =>
    obtain ⟨hs, hw, hcl, t, ht, hr⟩ := h.ofLive hl
    by_cases hk : m.kind = .peer
    · simp only [hk, bne_self_eq_false, Bool.false_eq_true, if_false]
      have hlt : ∀ c ∈ m.cands ++ [(w.nbuf, len)], c.1 < w.nbuf + 1 := by
        intro c hc
        simp only [List.mem_append, List.mem_singleton] at hc
        rcases hc with hc | hc
        · exact Nat.lt_succ_of_lt (hr.candsLt c hc)
        · subst hc; exact Nat.lt_succ_self _
      have hinc := pairwise_snoc hr.candsInc hr.candsLt len
      cases hrd : m.read with
      | none =>
        have key : SockR (w.nbuf + 1) { m with cands := m.cands ++ [(w.nbuf, len)], read := m.read.map fun _ => (w.nbuf, len) } t := by
          refine ⟨hr.kern, hr.isOpen, hr.out, ?_, ?_, hr.memb, hr.getters, ?_, hlt, hinc, ?_⟩
          · simp [hrd, hr.pend]
          · intro _; simp [hrd]
          · intro cur l hx; simp [hrd] at hx
          · intro cur l hx; simp [hrd] at hx
        have hR := h.bump.putSock s key
        rw [setSock_same ht] at hR
        refine ⟨st, ?_, by simpa only [hk, hrd] using hR⟩
        rw [run_one]; simp [Sonic.Spec.Datagram.step, ht, hr.pend, hrd]
      | some x =>
        have key : SockR (w.nbuf + 1) { m with cands := m.cands ++ [(w.nbuf, len)], read := m.read.map fun _ => (w.nbuf, len) }
            { t with pend := some (w.nbuf, len) } := by
          refine ⟨hr.kern, hr.isOpen, hr.out, ?_, ?_, hr.memb, hr.getters, ?_, hlt, hinc, ?_⟩
          · simp [hrd]
          · intro hc; simp [hcl] at hc
          · intro cur l hx; simp [hrd] at hx; obtain ⟨h1, h2⟩ := hx; subst h1; subst h2; exact ⟨m.cands, rfl⟩
          · intro cur l hx; simp [hrd] at hx; obtain ⟨h1, h2⟩ := hx; subst h2; exact hlen
        have hR := h.bump.putSock s key
        refine ⟨_, ?_, by simpa only [hk, hrd] using hR⟩
        rw [run_one]; simp [Sonic.Spec.Datagram.step, ht, hr.pend, hrd]
    · have : (m.kind != Kind.peer) = true := by simpa using hk
      simp only [this, if_true]
      exact accept_skipped h


theorem lookup_snoc (L : List (Nat × Nat)) (cur len : Nat) (val : List UInt8) (f : Nat × Nat → List UInt8)
    (hL : ∀ c ∈ L, c.1 ≠ cur) :
    ((L ++ [(cur, len)]).map (fun c => (c.1, if c.1 == cur then val else f c))).lookup cur = some val := by
  induction L with
  | nil => simp [List.lookup]
  | cons c L ih =>
    have hc : c.1 ≠ cur := hL c (by simp)
    have hc' : (cur == c.1) = false := by simpa using fun h => hc h.symm
    simp only [List.cons_append, List.map_cons, List.lookup, hc']
    exact ih (fun x hx => hL x (by simp [hx]))

theorem lookup_shown (cands pre : List (Nat × Nat)) (cur len : Nat) (val : List UInt8) (f : Nat × Nat → List UInt8)
    (hc : cands = pre ++ [(cur, len)]) (hinc : cands.Pairwise (fun a b => a.1 < b.1)) :
    ((cands.drop (cands.length - 4)).map (fun c => (c.1, if c.1 == cur then val else f c))).lookup cur = some val := by
  subst hc
  have hk : (pre ++ [(cur, len)]).length - 4 ≤ pre.length := by simp
  rw [List.drop_append_of_le_length hk]
  apply lookup_snoc
  intro c hcm
  have hm : c ∈ pre := List.mem_of_mem_drop hcm
  rw [List.pairwise_append] at hinc
  have := hinc.2.2 c hm (cur, len) (by simp)
  exact Nat.ne_of_lt this


theorem min_eq_zero_iff_nil {l : List UInt8} {len : Nat} (hlen : 0 < len) : min l.length len = 0 ↔ l = [] := by
  constructor
  · intro h
    have : l.length = 0 := by omega
    exact List.eq_nil_of_length_eq_zero this
  · intro h; subst h; simp

theorem errc_nil_bne : (Errc.nil != Errc.nil) = false := by decide
theorem errc_eof_bne : (Errc.eof != Errc.nil) = true := by decide

/-- One `recvfrom` of the model is accepted by the monitor as the completion of the pending read: it delivers
the oldest queued datagram into the buffer most recently designated. -/
theorem accept_recv {st : S} {s : Nat} {m : MSock} {t : Sock} {cur len : Nat} (hlen : 0 < len)
    (ht : st.socks s = some t) (hout : t.out = m.rxq) (hpend : t.pend = some (cur, len))
    (hc : ∃ pre, m.cands = pre ++ [(cur, len)]) (hinc : m.cands.Pairwise (fun a b => a.1 < b.1))
    {m' : MSock} {ev : Ev} (hrecv : recv s m cur len = some (m', ev)) :
    ∃ d q, m.rxq = d :: q ∧ m' = { m with rxq := q, read := none, cands := [] } ∧
      Sonic.Spec.Datagram.step st ev = .ok (setSock st s { t with out := q, pend := none }) := by
  unfold recv at hrecv
  cases hq : m.rxq with
  | nil => simp [hq] at hrecv
  | cons d q =>
    refine ⟨d, q, rfl, ?_⟩
    simp only [hq] at hrecv
    obtain ⟨pre, hpre⟩ := hc
    have hlook := lookup_shown m.cands pre cur len (d.data.take (min d.data.length len))
      (fun c => prefill c.1 (min (min d.data.length len) c.2)) hpre hinc
    split at hrecv
    · rename_i hn
      have hn : min d.data.length len = 0 := by simpa using hn
      have hd : d.data = [] := (min_eq_zero_iff_nil hlen).1 hn
      split at hrecv
      · simp only [Option.some.injEq, Prod.mk.injEq] at hrecv
        obtain ⟨h1, h2⟩ := hrecv
        subst h1; subst h2
        refine ⟨rfl, ?_⟩
        simp only [Sonic.Spec.Datagram.step, ht, hpend, hout, hq, takeFirst, hd, errc_nil_bne, Bool.false_eq_true, if_false,
          beq_self_eq_true, if_true]
      · simp only [Option.some.injEq, Prod.mk.injEq] at hrecv
        obtain ⟨h1, h2⟩ := hrecv
        subst h1; subst h2
        refine ⟨rfl, ?_⟩
        simp only [Sonic.Spec.Datagram.step, ht, hpend, hout, hq, takeFirst, hd, errc_eof_bne, if_true,
          beq_self_eq_true, Bool.and_self]
    · rename_i hn0
      have hn : ¬ min d.data.length len = 0 := by simpa using hn0
      have hn' : (min d.data.length len == 0) = false := by simpa using hn
      have hd : d.data ≠ [] := fun h0 => hn ((min_eq_zero_iff_nil hlen).2 h0)
      have hd' : (d.data != []) = true := by simpa using hd
      simp only [Option.some.injEq, Prod.mk.injEq] at hrecv
      obtain ⟨h1, h2⟩ := hrecv
      subst h1; subst h2
      refine ⟨rfl, ?_⟩
      simp only [Sonic.Spec.Datagram.step, ht, hpend, hout, hq, takeFirst, fits, hlook, errc_nil_bne, Bool.false_eq_true, if_false,
          beq_self_eq_true, if_true, hn', hd', Bool.and_self]


theorem recv_none {s : Nat} {m : MSock} {cur len : Nat} (h : recv s m cur len = none) : m.rxq = [] := by
  unfold recv at h
  cases hq : m.rxq with
  | nil => rfl
  | cons d q =>
    simp only [hq] at h
    split at h
    · split at h <;> simp at h
    · simp at h

theorem step_readStart {st : S} {s : Nat} {t : Sock} (ht : st.socks s = some t) (hp : t.pend = none) (buf len : Nat) :
    Sonic.Spec.Datagram.step st (.readStart s buf len) = .ok (setSock st s { t with pend := some (buf, len) }) := by
  simp [Sonic.Spec.Datagram.step, ht, hp]

theorem step_readNone {st : S} {s : Nat} {t : Sock} (ht : st.socks s = some t) (ho : t.out = []) :
    Sonic.Spec.Datagram.step st (.readNone s) = .ok (setSock st s { t with pend := none }) := by
  simp [Sonic.Spec.Datagram.step, ht, ho]

theorem step_readPending {st : S} {s : Nat} {t : Sock} (ht : st.socks s = some t) (ho : t.out = []) :
    Sonic.Spec.Datagram.step st (.readPending s) = .ok st := by
  simp [Sonic.Spec.Datagram.step, ht, ho]

theorem refines_read {w : World} {st : S} (h : R w st) (s len : Nat) (hlen : 0 < len) : Refines w st (.read s len) := by
  unfold Refines
  simp only [Model.Datagram.step]
  cases hl : live w s with
  | none => exact accept_skipped h
  | some m =>
    obtain ⟨hs, hw, hcl, t, ht, hr⟩ := h.ofLive hl
    by_cases hc : (m.broken || m.read.isSome) = true
    · simp only [hc, if_true]; exact accept_skipped h
    · simp only [hc, Bool.false_eq_true, if_false]
      have hrd : m.read = none := by
        cases hx : m.read with
        | none => rfl
        | some x => simp [hx] at hc
      have hp : t.pend = none := by rw [hr.pend, hrd]
      have hout : t.out = m.rxq := by rw [hr.out]; simp [hcl]
      have hlt : ∀ c ∈ m.cands ++ [(w.nbuf, len)], c.1 < w.nbuf + 1 := by
        intro c hc
        simp only [List.mem_append, List.mem_singleton] at hc
        rcases hc with hc | hc
        · exact Nat.lt_succ_of_lt (hr.candsLt c hc)
        · subst hc; exact Nat.lt_succ_self _
      have hinc := pairwise_snoc hr.candsInc hr.candsLt len
      have h1 := step_readStart ht hp w.nbuf len
      have ht1 : (setSock st s { t with pend := some (w.nbuf, len) }).socks s = some { t with pend := some (w.nbuf, len) } := by
        simp [setSock, upd]
      cases hrecv : recv s { m with cands := m.cands ++ [(w.nbuf, len)] } w.nbuf len with
      | some x =>
        obtain ⟨m', ev⟩ := x
        obtain ⟨d, q, hq, hm', hstep⟩ := accept_recv (st := setSock st s { t with pend := some (w.nbuf, len) }) hlen ht1
          (m := { m with cands := m.cands ++ [(w.nbuf, len)] }) (by simpa using hout) rfl ⟨m.cands, rfl⟩ hinc hrecv
        simp only
        refine ⟨_, by rw [run_two _ _ _ h1]; exact hstep, ?_⟩
        rw [setSock_setSock, hm']
        refine h.bump.putSock s ⟨hr.kern, hr.isOpen, by simp [hcl], rfl, fun _ => rfl, hr.memb, hr.getters, ?_, ?_, ?_, ?_⟩
        · intro cur l hx; simp at hx
        · intro c hc; simp at hc
        · simp
        · intro cur l hx; simp at hx
      | none =>
        have hq := recv_none hrecv
        have hq' : m.rxq = [] := by simpa using hq
        have hto : t.out = [] := by rw [hout, hq']
        simp only
        by_cases hk : m.kind = .raw
        · simp only [hk, beq_self_eq_true, if_true]
          refine ⟨setSock st s { t with pend := none }, ?_, ?_⟩
          · rw [run_two _ _ _ h1, step_readNone ht1 hto, setSock_setSock]
          · have key := h.bump.putSock s (m := { m with cands := [] }) (t := { t with pend := none })
              ⟨hr.kern, hr.isOpen, hr.out, by simp [hrd], hr.closedRead, hr.memb, hr.getters,
               by intro cur l hx; simp [hrd] at hx, by intro c hc; simp at hc, by simp, by intro cur l hx; simp [hrd] at hx⟩
            simpa only [hk] using key
        · have hk' : (m.kind == Kind.raw) = false := by simpa using hk
          simp only [hk', Bool.false_eq_true, if_false]
          refine ⟨setSock st s { t with pend := some (w.nbuf, len) }, ?_, ?_⟩
          · rw [run_two _ _ _ h1, step_readPending ht1 hto]
          · exact h.bump.putSock s (m := { m with cands := m.cands ++ [(w.nbuf, len)], read := some (w.nbuf, len) })
              ⟨hr.kern, hr.isOpen, hr.out, rfl, fun hx => by simp [hcl] at hx, hr.memb, hr.getters,
               by intro cur l hx; simp at hx; obtain ⟨a, b⟩ := hx; subst a; subst b; exact ⟨m.cands, rfl⟩,
               hlt, hinc, by intro cur l hx; simp at hx; obtain ⟨a, b⟩ := hx; subst b; exact hlen⟩

/-- Socket `s` has no completable read left: if a read is registered, the receive queue is empty. -/
def Drained (w : World) (s : Nat) : Prop := ∀ m, live w s = some m → m.read.isSome = true → m.rxq = []

theorem live_put_other {w : World} {s s' : Nat} (m : MSock) (hne : s' ≠ s) : live (Model.Datagram.put w s m) s' = live w s' := by
  simp [live, Model.Datagram.put, upd, hne]

theorem live_put_same {w : World} {s : Nat} (m : MSock) (hs : s < maxSock) :
    live (Model.Datagram.put w s m) s = if m.closed then none else some m := by
  simp [live, Model.Datagram.put, upd, hs]

theorem run_nil (st : S) : Sonic.Spec.Datagram.run st [] = .ok st := rfl

theorem accept_pollOne {w : World} {st : S} (h : R w st) (s : Nat) :
    ∃ st', Sonic.Spec.Datagram.run st (pollOne w s).2 = .ok st' ∧ R (pollOne w s).1 st' ∧ Drained (pollOne w s).1 s
      ∧ (∀ s', Drained w s' → Drained (pollOne w s).1 s') := by
  unfold pollOne
  cases hl : live w s with
  | none => exact ⟨st, rfl, h, fun m hm => by simp [hl] at hm, fun _ hd => hd⟩
  | some m =>
    dsimp only
    obtain ⟨hs, hw, hcl, t, ht, hr⟩ := h.ofLive hl
    cases hrd : m.read with
    | none =>
      refine ⟨st, rfl, h, fun m' hm' hx => ?_, fun _ hd => hd⟩
      rw [hl] at hm'; cases hm'; simp [hrd] at hx
    | some x =>
      obtain ⟨cur, len⟩ := x
      dsimp only
      cases hrecv : recv s m cur len with
      | none =>
        refine ⟨st, rfl, h, fun m' hm' _ => ?_, fun _ hd => hd⟩
        rw [hl] at hm'; cases hm'; exact recv_none hrecv
      | some y =>
        obtain ⟨m', ev⟩ := y
        have hout : t.out = m.rxq := by rw [hr.out]; simp [hcl]
        obtain ⟨d, q, hq, hm', hstep⟩ := accept_recv (hr.readLen cur len hrd) ht hout (by rw [hr.pend, hrd])
          (hr.cands cur len hrd) hr.candsInc hrecv
        dsimp only
        have hR : R (Model.Datagram.put w s m') (setSock st s { t with out := q, pend := none }) := by
          rw [hm']
          refine h.putSock s ⟨hr.kern, hr.isOpen, by simp [hcl], rfl, fun _ => rfl, hr.memb, hr.getters, ?_, ?_, ?_, ?_⟩
          · intro cur l hx; simp at hx
          · intro c hc; simp at hc
          · simp
          · intro cur l hx; simp at hx
        refine ⟨_, by rw [run_one]; exact hstep, hR, ?_, ?_⟩
        · intro m2 hm2 hx
          rw [live_put_same _ hs] at hm2
          rw [hm'] at hm2
          simp only [hcl, Bool.false_eq_true, if_false, Option.some.injEq] at hm2
          subst hm2
          simp at hx
        · intro s' hd m2 hm2 hx
          by_cases hne : s' = s
          · subst hne
            rw [live_put_same _ hs, hm'] at hm2
            simp only [hcl, Bool.false_eq_true, if_false, Option.some.injEq] at hm2
            subst hm2
            simp at hx
          · rw [live_put_other _ hne] at hm2
            exact hd m2 hm2 hx

theorem accept_pollAll {w : World} {st : S} (h : R w st) (L : List Nat) :
    ∃ st', Sonic.Spec.Datagram.run st (pollAll w L).2 = .ok st' ∧ R (pollAll w L).1 st'
      ∧ (∀ s ∈ L, Drained (pollAll w L).1 s) ∧ (∀ s', Drained w s' → Drained (pollAll w L).1 s') := by
  induction L generalizing w st with
  | nil => exact ⟨st, rfl, h, fun _ hs => by simp at hs, fun _ hd => hd⟩
  | cons s r ih =>
    obtain ⟨st1, hrun1, hR1, hd1, hp1⟩ := accept_pollOne h s
    obtain ⟨st2, hrun2, hR2, hd2, hp2⟩ := ih hR1
    simp only [pollAll]
    refine ⟨st2, ?_, hR2, ?_, fun s' hd => hp2 s' (hp1 s' hd)⟩
    · rw [run_append, hrun1]; exact hrun2
    · intro s' hs'
      simp only [List.mem_cons] at hs'
      rcases hs' with hs' | hs'
      · subst hs'; exact hp2 _ hd1
      · exact hd2 s' hs'

theorem step_polled {st : S}
    (hany : ((List.range maxSock).any fun r => match st.socks r with
      | some t => t.isOpen && t.pend.isSome && !t.out.isEmpty | none => false) = false) :
    Sonic.Spec.Datagram.step st .polled = .ok st := by
  show (if _ = true then _ else _) = _
  rw [if_neg]
  intro hc
  exact Bool.noConfusion (hc.symm.trans hany)

theorem no_completable {w' : World} {st' : S} (hR : R w' st') (L : List Nat) (hL : ∀ r ∈ L, r < maxSock)
    (hd : ∀ s ∈ L, Drained w' s) :
    (L.any fun r => match st'.socks r with
      | some t => t.isOpen && t.pend.isSome && !t.out.isEmpty | none => false) = false := by
  rw [List.any_eq_false]
  intro r hr
  have hrlt : r < maxSock := hL r hr
  have hopt := hR.socks r
  cases hs : st'.socks r with
  | none => simp
  | some t =>
    cases hw : w'.socks r with
    | none => rw [hs, hw] at hopt; simp [OptR] at hopt
    | some m =>
      rw [hs, hw] at hopt
      have hsr : SockR _ m t := hopt
      simp only
      by_cases hcl : m.closed = true
      · simp [hsr.isOpen, hcl]
      · have hcl' : m.closed = false := by simpa using hcl
        have hlive : live w' r = some m := by simp [live, hrlt, hw, hcl']
        cases hp : t.pend with
        | none => simp
        | some x =>
          have hrd : m.read.isSome = true := by rw [← hsr.pend, hp]; rfl
          have hq := hd r hr m hlive hrd
          have : t.out = [] := by rw [hsr.out]; simp [hcl', hq]
          simp [this]

theorem step_poll_eq (w : World) :
    Model.Datagram.step w .poll = ((pollAll w (List.range maxSock)).1, (pollAll w (List.range maxSock)).2 ++ [.polled]) := rfl

theorem refines_poll {w : World} {st : S} (h : R w st) : Refines w st .poll := by
  unfold Refines
  rw [step_poll_eq]
  obtain ⟨st', hrun, hR, hd, _⟩ := accept_pollAll h (List.range maxSock)
  refine ⟨st', ?_, hR⟩
  show Sonic.Spec.Datagram.run st ((pollAll w (List.range maxSock)).2 ++ [.polled]) = .ok st'
  rw [run_append, hrun]
  show Sonic.Spec.Datagram.run st' [.polled] = .ok st'
  rw [run_one]
  exact step_polled (no_completable hR _ (fun r hr => List.mem_range.1 hr) hd)

/-- Queueing a datagram to the sockets it arrived at, on both sides. -/
theorem R.enq {w : World} {st : S} (h : R w st) (arrived : List Nat) (d : Dgram)
    (harr : ∀ r ∈ arrived, ∀ m, w.socks r = some m → m.closed = false) :
    R { w with socks := Model.Datagram.enqueue w.socks arrived d } { st with socks := deliver st.socks arrived d } := by
  refine ⟨h.host, fun i => ?_, h.notes⟩
  have hi := h.socks i
  simp only [Model.Datagram.enqueue, deliver]
  cases hw : w.socks i with
  | none => cases hs : st.socks i with
    | none => simp [OptR]
    | some t => rw [hw, hs] at hi; simp [OptR] at hi
  | some m => cases hs : st.socks i with
    | none => rw [hw, hs] at hi; simp [OptR] at hi
    | some t =>
      rw [hw, hs] at hi
      have hr : SockR w.nbuf m t := hi
      simp only [Option.map, OptR]
      by_cases hc : arrived.contains i = true
      · simp only [hc, if_true]
        have hcl := harr i (by simpa using hc) m hw
        refine ⟨hr.kern, hr.isOpen, ?_, hr.pend, hr.closedRead, hr.memb, hr.getters, hr.cands, hr.candsLt, hr.candsInc, hr.readLen⟩
        simp [hr.out, hcl]
      · simp only [hc, Bool.false_eq_true, if_false]
        exact hr

theorem mem_filter_range {p : Nat → Bool} {r : Nat} : ((List.range maxSock).filter p).contains r = (decide (r < maxSock) && p r) := by
  rw [Bool.eq_iff_iff]
  simp [List.mem_filter, List.mem_range]


/-- The model's loop-back delivery decision agrees with the monitor's verdict for every socket. -/
theorem verdict_none {w : World} {st : S} (h : R w st) (via : Bool) (dst src : Addr) (r : Nat) (hr : r < maxSock) :
    mcastVerdict st via dst src ((List.range maxSock).filter (kDeliver w via dst src.ip)) r = none := by
  unfold mcastVerdict
  rw [mem_filter_range]
  have hopt := h.socks r
  cases hs : st.socks r with
  | none =>
    cases hw : w.socks r with
    | none => simp [kDeliver, hw]
    | some m => rw [hs, hw] at hopt; simp [OptR] at hopt
  | some t =>
    cases hw : w.socks r with
    | none => rw [hs, hw] at hopt; simp [OptR] at hopt
    | some m =>
      rw [hs, hw] at hopt
      have hsr : SockR _ m t := hopt
      simp only [hr, decide_true, Bool.true_and]
      by_cases hk : kDeliver w via dst src.ip r = true
      · have hk' := hk
        simp only [kDeliver, hw, Bool.and_eq_true, Bool.not_eq_true', Bool.or_eq_true] at hk'
        obtain ⟨⟨⟨⟨hcl, hvia⟩, hport⟩, hip⟩, hallow⟩ := hk'
        have hj : joinedFor t dst src.ip = true := by
          simp only [joinedFor, hsr.isOpen, hcl, hsr.kern, Bool.not_false, Bool.true_and, Bool.and_eq_true, Bool.or_eq_true]
          exact ⟨⟨hport, hip⟩, kAllow_sound hsr.memb _ _ hallow⟩
        simp [hk, hj]
      · have hk0 : kDeliver w via dst src.ip r = false := by simpa using hk
        simp only [hk0, Bool.false_and, Bool.false_eq_true, if_false, Bool.not_false, Bool.true_and]
        by_cases hc : (joinedFor t dst src.ip && via && settled t dst.ip) = true
        · exfalso
          simp only [Bool.and_eq_true] at hc
          obtain ⟨⟨hj, hvia⟩, hset⟩ := hc
          simp only [joinedFor, Bool.and_eq_true, Bool.or_eq_true] at hj
          obtain ⟨⟨⟨hopen, hport⟩, hip⟩, hpass⟩ := hj
          have hcl : m.closed = false := by
            have := hsr.isOpen; rw [hopen] at this; simpa using this.symm
          have hset' : t.memb.unsure dst.ip = false := by simpa [settled] using hset
          have hallow : kAllow m.membs dst.ip src.ip = true := by rw [kAllow_complete hsr.memb _ _ hset']; exact hpass
          apply hk
          simp only [kDeliver, hw, hcl, hvia, Bool.not_false, Bool.true_and, Bool.and_eq_true, Bool.or_eq_true]
          rw [← hsr.kern]
          exact ⟨⟨hport, hip⟩, hallow⟩
        · simp only [hc, Bool.false_eq_true, if_false]

theorem accept_sent_mcast {w : World} {st : S} (h : R w st) {s : Nat} {tx : MSock} (hl : live w s = some tx)
    (dst src : Addr) (data : List UInt8) (hm : isMulticast dst.ip = true) :
    Sonic.Spec.Datagram.step st (.sent s dst data .nil data.length src (mcArrived w tx dst src.ip))
      = .ok { st with socks := deliver st.socks (mcArrived w tx dst src.ip) { src := src, dst := dst, data := data } } := by
  obtain ⟨hs, hw, hcl, t, ht, hr⟩ := h.ofLive hl
  have hnone : (List.range maxSock).findSome? (mcastVerdict st (viaMcastIf st.host t.kern.name.ip t.kern.mcIf && t.kern.loop) dst src
      (mcArrived w tx dst src.ip)) = none := by
    rw [List.findSome?_eq_none_iff]
    intro r hrm
    rw [h.host, hr.kern]
    exact verdict_none h _ dst src r (List.mem_range.1 hrm)
  simp only [Sonic.Spec.Datagram.step, ht, errc_nil_bne, Bool.false_eq_true, if_false, bne_self_eq_false, hm, if_true, hnone]


theorem pick_mem {l : List Nat} {r : Nat} {rs : List Nat} (hl : l = r :: rs) (pick : Nat) :
    ∃ x, (if (r :: rs).contains pick then [pick] else [r]) = [x] ∧ x ∈ l := by
  by_cases hc : (r :: rs).contains pick = true
  · exact ⟨pick, by rw [if_pos hc], by rw [hl]; simpa using hc⟩
  · exact ⟨r, by rw [if_neg hc], by rw [hl]; simp⟩

theorem ucArrived_cases (w : World) (dst : Addr) (pick : Nat) :
    (ucArrived w dst pick = [] ∧ ∀ r, r < maxSock → ucastCand w dst true r = false ∧ ucastCand w dst false r = false)
    ∨ ∃ x, ucArrived w dst pick = [x] ∧ x < maxSock ∧ (ucastCand w dst true x = true ∨ ucastCand w dst false x = true) := by
  unfold ucArrived
  cases hA : (List.range maxSock).filter (ucastCand w dst true) with
  | cons r rs =>
    right
    obtain ⟨x, hx, hmem⟩ := pick_mem hA pick
    rw [List.mem_filter, List.mem_range] at hmem
    exact ⟨x, hx, hmem.1, Or.inl hmem.2⟩
  | nil =>
    cases hB : (List.range maxSock).filter (ucastCand w dst false) with
    | cons r rs =>
      right
      obtain ⟨x, hx, hmem⟩ := pick_mem hB pick
      rw [List.mem_filter, List.mem_range] at hmem
      exact ⟨x, hx, hmem.1, Or.inr hmem.2⟩
    | nil =>
      left
      refine ⟨rfl, fun r hr => ?_⟩
      rw [List.filter_eq_nil_iff] at hA hB
      have ha := hA r (List.mem_range.2 hr)
      have hb := hB r (List.mem_range.2 hr)
      exact ⟨by simpa using ha, by simpa using hb⟩

theorem accept_sent_ucast {w : World} {st : S} (h : R w st) {s : Nat} {tx : MSock} (hl : live w s = some tx)
    (dst src : Addr) (data : List UInt8) (pick : Nat) (hm : isMulticast dst.ip = false) :
    Sonic.Spec.Datagram.step st (.sent s dst data .nil data.length src (ucArrived w dst pick))
      = .ok { st with socks := deliver st.socks (ucArrived w dst pick) { src := src, dst := dst, data := data } }
    ∧ ∀ r ∈ ucArrived w dst pick, ∀ m, w.socks r = some m → m.closed = false := by
  obtain ⟨hs, hw, hcl, t, ht, hr⟩ := h.ofLive hl
  rcases ucArrived_cases w dst pick with ⟨hnil, hno⟩ | ⟨x, hx, hxlt, hcand⟩
  · rw [hnil]
    refine ⟨?_, fun r hr => by simp at hr⟩
    have hany : ((List.range maxSock).any fun r => match st.socks r with | some rs => ucastMatch rs dst | none => false) = false := by
      rw [List.any_eq_false]
      intro r hrm
      have hrlt := List.mem_range.1 hrm
      have hopt := h.socks r
      cases hsr : st.socks r with
      | none => simp
      | some t' =>
        cases hwr : w.socks r with
        | none => rw [hsr, hwr] at hopt; simp [OptR] at hopt
        | some m' =>
          rw [hsr, hwr] at hopt
          have hsr' : SockR _ m' t' := hopt
          obtain ⟨h1, h2⟩ := hno r hrlt
          simp only [ucastCand, hwr, if_true, Bool.false_eq_true, if_false] at h1 h2
          simp only [ucastMatch, hsr'.isOpen, hsr'.kern]
          cases hc : m'.closed <;> simp_all
    have : deliver st.socks [] { src := src, dst := dst, data := data } = st.socks := by
      funext r; simp [deliver]
    rw [this]
    simp only [Sonic.Spec.Datagram.step, ht, errc_nil_bne, Bool.false_eq_true, if_false, bne_self_eq_false, hm]
    show (if _ = true then _ else _) = _
    rw [if_neg]
    intro hc
    exact Bool.noConfusion (hc.symm.trans hany)
  · rw [hx]
    have hwx : ∃ m', w.socks x = some m' ∧ m'.closed = false ∧ m'.kern.name.port = dst.port ∧ (m'.kern.name.ip = dst.ip ∨ m'.kern.name.ip = 0) := by
      rcases hcand with hc | hc
      · unfold ucastCand at hc
        cases hwx : w.socks x with
        | none => simp [hwx] at hc
        | some m' => simp [hwx] at hc; exact ⟨m', rfl, hc.1.1, hc.1.2, Or.inl hc.2⟩
      · unfold ucastCand at hc
        cases hwx : w.socks x with
        | none => simp [hwx] at hc
        | some m' => simp [hwx] at hc; exact ⟨m', rfl, hc.1.1, hc.1.2, Or.inr hc.2⟩
    obtain ⟨m', hwx, hclx, hport, hip⟩ := hwx
    have hopt := h.socks x
    rw [hwx] at hopt
    cases hsx : st.socks x with
    | none => rw [hsx] at hopt; simp [OptR] at hopt
    | some t' =>
      rw [hsx] at hopt
      have hsr' : SockR _ m' t' := hopt
      have hmatch : ucastMatch t' dst = true := by
        simp only [ucastMatch, hsr'.isOpen, hsr'.kern, hclx, Bool.not_false, Bool.true_and, Bool.and_eq_true, Bool.or_eq_true, beq_iff_eq]
        exact ⟨hport, hip⟩
      refine ⟨?_, ?_⟩
      · simp only [Sonic.Spec.Datagram.step, ht, errc_nil_bne, Bool.false_eq_true, if_false, bne_self_eq_false, hm, hsx, hmatch, if_true]
      · intro r hr m2 hm2
        simp only [List.mem_singleton] at hr
        subst hr
        rw [hwx] at hm2; cases hm2; exact hclx


theorem mcArrived_open {w : World} {tx : MSock} {dst : Addr} {srcIp : Ip} :
    ∀ r ∈ mcArrived w tx dst srcIp, ∀ m, w.socks r = some m → m.closed = false := by
  intro r hr m hm
  unfold mcArrived at hr
  rw [List.mem_filter] at hr
  have := hr.2
  simp only [kDeliver, hm, Bool.and_eq_true, Bool.not_eq_true'] at this
  exact this.1.1.1.1

theorem accept_sendTo {w : World} {st : S} (h : R w st) {s : Nat} {tx : MSock} (hl : live w s = some tx)
    (dsta : Addr) (data : List UInt8) (pick : Nat) :
    ∃ st', Sonic.Spec.Datagram.run st (sendTo w s tx dsta data pick).2 = .ok st' ∧ R (sendTo w s tx dsta data pick).1 st' := by
  obtain ⟨hs, hw, hcl, t, ht, hr⟩ := h.ofLive hl
  unfold sendTo
  dsimp only
  by_cases herr : sendErr tx.kern dsta data = .nil
  · simp only [herr, bne_self_eq_false, Bool.false_eq_true, if_false]
    by_cases hm : isMulticast dsta.ip = true
    · simp only [hm, if_true]
      refine ⟨_, by rw [run_one]; exact accept_sent_mcast h hl dsta _ data hm, ?_⟩
      exact h.enq _ _ mcArrived_open
    · have hm' : isMulticast dsta.ip = false := by simpa using hm
      simp only [hm', Bool.false_eq_true, if_false]
      obtain ⟨hstep, hopen⟩ := accept_sent_ucast h hl dsta { ip := srcIp w.host tx.kern dsta, port := tx.kern.name.port } data pick hm'
      exact ⟨_, by rw [run_one]; exact hstep, h.enq _ _ hopen⟩
  · have hne : (sendErr tx.kern dsta data != Errc.nil) = true := by simpa using herr
    simp only [hne, if_true]
    refine ⟨st, ?_, h⟩
    rw [run_one]
    -- the model's send errors are the kernel's (EMSGSIZE, EINVAL): never a refusal made by the library
    have hnr : ¬ sendErr tx.kern dsta data = Errc.refused := by
      unfold sendErr; repeat' split
      all_goals simp
    simp [Sonic.Spec.Datagram.step, ht, hne, hnr]

theorem refines_send {w : World} {st : S} (h : R w st) (s : Nat) (dst : Dst) (data : List UInt8) (pick : Nat) :
    Refines w st (.send s dst data pick) := by
  unfold Refines
  simp only [Model.Datagram.step]
  cases hl : live w s with
  | none => exact accept_skipped h
  | some tx =>
    dsimp only
    by_cases hb : tx.broken = true
    · simp only [hb, if_true]; exact accept_skipped h
    · simp only [hb, Bool.false_eq_true, if_false]
      split
      · exact accept_skipped h
      · exact accept_sendTo h hl _ data pick


/-! ### Every operation -/

theorem step_refines {w : World} {st : S} (h : R w st) (op : Op) (hok : OpOk op = true) : Refines w st op := by
  cases op with
  | newPc s f => exact refines_newPc h s f
  | newPeer s ip sh => exact refines_newPeer h s ip sh
  | newRaw s f => exact refines_newRaw h s f
  | get s => exact refines_get h s
  | setLoop s v => exact refines_setLoop h s v
  | setTTL s v => exact refines_setTTL h s v
  | setOut s i => exact refines_setOut h s i
  | join s g on src => exact refinesOp_join h s g on src
  | leave s g src => exact refines_leaveOp h s g src
  | block s g src => exact refines_blockOp h s g src
  | unblock s g src => exact refines_unblockOp h s g src
  | brk s => exact refines_brk h s
  | mend s => exact refines_mend h s
  | send s dst data pick => exact refines_send h s dst data pick
  | read s len => exact refines_read h s len (by simpa [OpOk] using hok)
  | setBuf s len => exact refines_setBuf h s len (by simpa [OpOk] using hok)
  | poll => exact refines_poll h
  | close s => exact refines_close h s

/-- For every script the monitor accepts the model's trace, and the coupling holds in the final state. -/
theorem run_refines {w : World} {st : S} (h : R w st) (ops : List Op) (hok : ∀ op ∈ ops, OpOk op = true) :
    ∃ st', Sonic.Spec.Datagram.run st (Model.Datagram.run w ops) = .ok st' ∧ R (runW w ops) st' := by
  induction ops generalizing w st with
  | nil => exact ⟨st, rfl, h⟩
  | cons op r ih =>
    obtain ⟨st1, hrun1, hR1⟩ := step_refines h op (hok op (by simp))
    obtain ⟨st2, hrun2, hR2⟩ := ih hR1 (fun o ho => hok o (by simp [ho]))
    refine ⟨st2, ?_, hR2⟩
    simp only [Model.Datagram.run]
    rw [run_append, hrun1]
    exact hrun2

end Sonic.Lemmas.Datagram
