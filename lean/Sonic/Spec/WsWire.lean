/-
Property monitor for C16: every frame the WebSocket client writes is well-formed and correctly masked.

The monitor sees what the caller asked for (message / frame with FIN, opcode and payload bytes), what the call
returned, and the bytes the transport accepted.  It parses the complete outgoing byte stream with the RFC 6455
parser of `Spec/WsFrame.lean` (which shares nothing with the code under test) and compares it, frame by frame
and in submission order, with what was asked for.
-/
import Sonic.Spec.WsFrame

namespace Sonic.Spec.WsWire
open Sonic.Spec.WsFrame

/-- What a caller submits: FIN, opcode, the payload bytes *before* masking. -/
structure Req where
  fin     : Bool
  opcode  : Nat
  payload : List UInt8
  deriving Repr, DecidableEq

/-- `b[i] ^= key[i & 3]` (RFC 6455 5.3); its own inverse. -/
def xorKey (key : List UInt8) (b : List UInt8) : List UInt8 :=
  b.zipIdx.map fun (x, i) => x ^^^ key.getD (i % 4) 0

/-- The frame on the wire is a well-formed client frame carrying exactly the request. -/
def FrameOk (r : Req) (f : Frame) : Prop :=
  f.masked = true ∧ f.mask.length = 4 ∧ f.fin = r.fin ∧ f.rsv1 = false ∧ f.rsv2 = false ∧ f.rsv3 = false ∧
  f.opcode = r.opcode ∧ xorKey f.mask f.payload = r.payload
instance (r : Req) (f : Frame) : Decidable (FrameOk r f) := by unfold FrameOk; exact inferInstance

/-- No frame the parser would refuse for its size: the monitor parses with the largest maximum. -/
def parseMax : Int := 4611686018427387897

inductive WireErr where
  | malformed      -- a frame on the wire is not the well-formed, masked encoding of the next submitted request
  | notShortest    -- the length does not use the shortest encoding
  | trailing       -- bytes on the wire that belong to no submitted frame
  deriving Repr, DecidableEq

/-- Match the wire against the queue of submitted requests: returns what is left of both. -/
def consume : Nat → List Req → List UInt8 → Except WireErr (List Req × List UInt8)
  | 0, q, w => .ok (q, w)
  | fuel + 1, q, w =>
    match parse parseMax w with
    | .frame f size =>
      match q with
      | [] => .error .trailing
      | r :: q' =>
        if ¬ FrameOk r f then .error .malformed
        else if w.take size ≠ encode f then .error .notShortest
        else consume fuel q' (w.drop size)
    | .tooBig => .error .malformed
    | .needMore => if q = [] ∧ w ≠ [] then .error .trailing else .ok (q, w)

/-- How a call ended, as far as the monitor cares. -/
inductive Res where
  | ok | tooBig | refused | none      -- nil / ErrMessageTooBig / any other error / no result yet (asynchronous)
  deriving Repr, DecidableEq

structure Obs where
  res      : Res
  /-- For every callback that ran during the call: the index of the submission it belongs to and whether it
  reported success. -/
  done     : List (Nat × Bool)
  wire     : List UInt8
  deriving Repr, DecidableEq

/-- A call of the writing API. `msg` = `Write/AsyncWrite(payload, type)`: subject to the maximum message size. -/
inductive Op where
  | submit (id : Nat) (msg : Bool) (r : Req)    -- Write / WriteFrame / Close and their asynchronous variants
  | other (id : Nat)                             -- Flush, AsyncFlush, pump, configuration: submits nothing
  deriving Repr, DecidableEq

structure S where
  max       : Int
  queue     : List Req        -- submitted, not yet completely on the wire (oldest first)
  wire      : List UInt8      -- bytes on the wire after the last complete frame
  owed      : List (Nat × Nat) -- asynchronous submissions: (id, number of frames that must be on the wire when its callback reports success)
  submitted : Nat             -- frames submitted so far
  written   : Nat             -- frames completely written so far
  deriving Repr, DecidableEq

def init (max : Int) : S := { max := max, queue := [], wire := [], owed := [], submitted := 0, written := 0 }

/-- One monitored call. `.error key` names the violated clause. -/
def step (s : S) (op : Op) (ob : Obs) : Except String S :=
  -- 1. what was submitted
  let sub : Except String S :=
    match op with
    | .submit id msg r =>
      let refusedAsync := ob.done.any fun d => d.1 = id ∧ d.2 = false
      if msg ∧ (r.payload.length : Int) > s.max then
        -- a message above the maximum is refused, nothing is written or queued
        if (ob.res = .tooBig ∨ (ob.res = .none ∧ refusedAsync)) ∧ ob.wire = [] then .ok s
        else .error "key=wswrite.refuse-above-max a message above the maximum was not refused cleanly"
      else if ob.res = .tooBig then .error "key=wswrite.refused-valid a message within the maximum was refused as too big"
      else if ob.res = .refused ∨ (ob.res = .none ∧ refusedAsync) then .ok s        -- e.g. after Close: nothing submitted
      else
        let s := { s with queue := s.queue ++ [r], submitted := s.submitted + 1 }
        .ok (if ob.res = .none then { s with owed := s.owed ++ [(id, s.submitted)] } else s)
    | .other id => .ok (if ob.res = .none then { s with owed := s.owed ++ [(id, s.submitted)] } else s)
  match sub with
  | .error e => .error e
  | .ok s =>
    -- 2. the bytes the transport accepted, parsed independently
    let w := s.wire ++ ob.wire
    match consume (w.length + 1) s.queue w with
    | .error .malformed => .error "key=wswrite.malformed a frame on the wire is not the masked RFC 6455 encoding of the next submitted frame"
    | .error .notShortest => .error "key=wswrite.not-shortest the payload length does not use the shortest encoding"
    | .error .trailing => .error "key=wswrite.trailing bytes on the wire that belong to no submitted frame"
    | .ok (q, rest) =>
      let s := { s with queue := q, wire := rest, written := s.written + (s.queue.length - q.length) }
      -- 3. a call that reports success has put everything submitted before it on the wire, completely
      if ob.res = .ok ∧ (q ≠ [] ∨ rest ≠ []) then
        .error "key=wswrite.incomplete the call returned nil but a submitted frame is not completely on the wire"
      else if ob.done.any (fun d => d.2 ∧ (s.owed.any fun o => o.1 = d.1 ∧ o.2 > s.written)) then
        .error "key=wswrite.incomplete a callback reported success before its frame was completely on the wire"
      else .ok { s with owed := s.owed.filter fun o => ¬ ob.done.any fun d => d.1 = o.1 }

end Sonic.Spec.WsWire
