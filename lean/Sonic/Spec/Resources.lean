/-
Property monitor for C13's Close / create interleavings (component `fds`).

The monitor sees only what a process can observe about its own descriptors: which descriptor numbers a newly created
object got, and — after every operation — which of the descriptors created by the script still answer
`fcntl(F_GETFD)`.  It states what the property says:

* `Close` releases exactly the descriptors the object owns (first Close: its descriptors are gone, nobody else's is);
* closing an object again never closes a descriptor the object no longer owns — in particular not one whose number the
  kernel has meanwhile given to another object.

It knows nothing about closed flags, slots or the allocation policy of the kernel.
-/
namespace Sonic.Spec.Resources

inductive Op where
  | new (k : Nat) (kind : String)     -- create object `k` (a library object, or a pipe / peer socket made by the harness)
  | close (k : Nat)                   -- call Close on object `k` (again)
  deriving Repr, DecidableEq, Inhabited

inductive Obs where
  /-- descriptor numbers the new object owns, and all script-created descriptors that are open afterwards (ascending) -/
  | created (fds : List Nat) (alive : List Nat)
  /-- all script-created descriptors that are open after the Close (ascending) -/
  | closed (alive : List Nat)
  deriving Repr, DecidableEq, Inhabited

structure S where
  open_  : List (Nat × Nat) := []     -- (descriptor, owner) for every descriptor created by the script and not yet closed by its owner
  deriving Repr, DecidableEq, Inhabited

def insertSorted (a : Nat) : List Nat → List Nat
  | [] => [a]
  | b :: r => if a ≤ b then a :: b :: r else b :: insertSorted a r

def sortNat (l : List Nat) : List Nat := l.foldr insertSorted []

def fdsOf (s : S) : List Nat := sortNat (s.open_.map (·.1))

/-- `Except.error key`: the observation violates the property (the key names the clause). -/
def step (s : S) : Op → Obs → Except String S
  | .new k _, .created fds alive =>
    if fds.any (fun fd => s.open_.any (·.1 == fd)) then
      -- the kernel never hands out a number that is open: an earlier close must have hit a descriptor it did not own
      .error "foreign-close-detected-at-create"
    else
      let s' : S := { open_ := fds.map (·, k) ++ s.open_ }
      if alive == fdsOf s' then .ok s'
      else if (fdsOf s).any (fun fd => !alive.contains fd) then .error "create-closed-a-descriptor"
      else .error "create-descriptor-not-open"
  | .close k, .closed alive =>
    let mine := s.open_.filter (·.2 == k)
    let others := s.open_.filter (·.2 != k)
    if others.any (fun e => !alive.contains e.1) then
      -- a descriptor of another object (possibly a number this object used to own) is gone
      .error "foreign-close"
    else if mine.any (fun e => alive.contains e.1) then
      .error "close-not-exact"
    else if alive == sortNat (others.map (·.1)) then
      .ok { open_ := others }
    else .error "alive-set-unexpected"
  | _, _ => .error "malformed"

/-- Replay a list of operations with their observations. -/
def accepts (s : S) : List (Op × Obs) → Bool
  | [] => true
  | (op, ob) :: r => match step s op ob with
    | .ok s' => accepts s' r
    | .error _ => false

end Sonic.Spec.Resources
