/-
Abstract specification (property monitor) for C12: UDP datagram boundaries, addressing and multicast membership.

The monitor sees API-level events of datagram sockets (packet connections, multicast peers, raw peers of the
harness) together with the kernel's own answers (`getsockopt` / `getsockname` records, the source address the
kernel stamps on a datagram, the set of sockets a datagram was queued to).  Its state per socket is

* the datagrams queued to it and not yet read (`out`),
* the buffer most recently designated for the pending read (`pend`),
* the abstract source filter of every joined group, in the style of RFC 3376 (`memb`),
* the kernel's last option record (`kern`).

It knows nothing about reactors, cached settings, `ip_mreq` structures or error numbers beyond "the call
succeeded / failed".  `step` returns `.error key` when an event violates C12.  The one tolerated deviation —
`Loop()` differing from `IP_MULTICAST_LOOP` before the first successful `SetLoop` (known finding) — is recorded
in `notes` instead, so that the rest of the script is still monitored.
-/
namespace Sonic.Spec.Datagram

abbrev Ip := Nat

structure Addr where
  ip   : Ip
  port : Nat
  deriving DecidableEq, Repr, Inhabited

/-- 224.0.0.0/4 -/
def isMulticast (ip : Ip) : Bool := ip / 268435456 == 14
/-- 127.0.0.0/8 -/
def isLoopback (ip : Ip) : Bool := ip / 16777216 == 127

structure Dgram where
  src  : Addr
  dst  : Addr
  data : List UInt8
  deriving DecidableEq, Repr

/-- Error classes the trace distinguishes. -/
inductive Errc where
  | nil | eof | inval | msgsize | notsock | addrinuse | addrnotavail | other
  | refused    -- an error made by the library itself (no errno behind it): the call was not handed to the kernel
  deriving DecidableEq, Repr, Inhabited

/-! ## Source filters (RFC 3376 style) -/

inductive Filter where
  | exclude (srcs : List Ip)     -- any source except these (`Join`, then `BlockSource`)
  | include (srcs : List Ip)     -- only these sources (`JoinSource`)
  deriving DecidableEq, Repr

/-- Membership calls of a peer whose arguments were well-formed. -/
inductive MOp where
  | join (g : Ip) | joinSrc (g s : Ip) | leave (g : Ip) | leaveSrc (g s : Ip) | block (g s : Ip) | unblock (g s : Ip)
  deriving DecidableEq, Repr

def MOp.group : MOp → Ip
  | .join g | .joinSrc g _ | .leave g | .leaveSrc g _ | .block g _ | .unblock g _ => g

def upd {α : Type} (f : Nat → α) (i : Nat) (v : α) : Nat → α := fun j => if j = i then v else f j

/-- Per-socket membership: the filter of every joined group, and whether the last membership call for a group
failed (a failing call may leave the kernel's filter more restrictive than the last successful state: Linux
switches the filter mode as a side effect of a failing `IP_DROP_SOURCE_MEMBERSHIP`). -/
structure Memb where
  filt   : Ip → Option Filter
  unsure : Ip → Bool

def Memb.empty : Memb := { filt := fun _ => none, unsure := fun _ => false }

/-- Effect of a successful membership call. -/
def applyOp (f : Ip → Option Filter) : MOp → Ip → Option Filter
  | .join g => upd f g (some (.exclude []))
  | .joinSrc g s => upd f g (some (match f g with | some (.include l) => .include (s :: l) | _ => .include [s]))
  | .leave g => upd f g none
  | .leaveSrc g s => match f g with
      | some (.include l) => upd f g (if l.erase s = [] then none else some (.include (l.erase s)))
      | _ => f
  | .block g s => match f g with
      | some (.exclude l) => upd f g (some (.exclude (s :: l)))
      | _ => f
  | .unblock g s => match f g with
      | some (.exclude l) => upd f g (some (.exclude (l.erase s)))
      | _ => f

/-- A failed call changes nothing the peer may rely on. -/
def mstep (m : Memb) (op : MOp) (ok : Bool) : Memb :=
  if ok then { filt := applyOp m.filt op, unsure := upd m.unsure op.group false }
  else { m with unsure := upd m.unsure op.group true }

/-- Group joined and not since left, source passes the filter. -/
def passes (m : Memb) (g src : Ip) : Bool :=
  match m.filt g with
  | none => false
  | some (.exclude l) => !l.contains src
  | some (.include l) => l.contains src

/-! ## Sockets -/

/-- The kernel's record of a socket: `IP_MULTICAST_LOOP`, `IP_MULTICAST_TTL`, `IP_MULTICAST_IF`,
`IP_MULTICAST_ALL`, `getsockname`. -/
structure Kern where
  loop : Bool
  ttl  : Nat
  mcIf : Ip
  all  : Bool
  name : Addr
  deriving DecidableEq, Repr, Inhabited

/-- What a multicast peer's getters report. `outIf` is the IPv4 address of the interface `Outbound()` names. -/
structure Getters where
  loop      : Bool
  ttl       : Nat
  outIf     : Option Ip
  outIp     : Ip
  all       : Bool
  localAddr : Addr
  deriving DecidableEq, Repr, Inhabited

structure Sock where
  kern    : Kern
  memb    : Memb
  out     : List Dgram            -- queued to this socket, not yet read (oldest first)
  pend    : Option (Nat × Nat)    -- pending read: buffer most recently designated (id, length)
  loopSet : Bool                  -- a `SetLoop` has succeeded
  isOpen  : Bool

inductive Setter where
  | loop | ttl | out
  deriving DecidableEq, Repr

inductive Ev where
  | opened (s : Nat) (api : Addr) (kern : Kern)
  | getters (s : Nat) (api : Getters) (kern : Kern)
  | setter (s : Nat) (which : Setter) (err : Errc)
  | memb (s : Nat) (op : Option MOp) (err : Errc)         -- `none`: rejected while parsing the arguments
  | sent (s : Nat) (dst : Addr) (data : List UInt8) (err : Errc) (n : Nat) (src : Addr) (arrived : List Nat)
  | readStart (s buf len : Nat)
  | setBuf (s buf len : Nat)
  | readPending (s : Nat)                                   -- the read call returned without completing
  | readNone (s : Nat)                                      -- a raw peer found nothing to receive
  | done (s : Nat) (err : Errc) (n : Nat) (src : Option Addr) (bufs : List (Nat × List UInt8))
  | polled
  | closed (s : Nat)
  | nop                                                      -- a harness-level action without API-visible effect
  | skipped                                                  -- the harness refused the operation (precondition)
  deriving DecidableEq, Repr

/-- The addresses of this host that matter for the direction "a datagram that must arrive does arrive". -/
structure Host where
  loIp : Ip := 2130706433          -- 127.0.0.1 on lo
  ifIp : Ip := 3221225986          -- 192.0.2.2 on eth0, the only interface with the MULTICAST flag
  deriving Repr

def maxSock : Nat := 16

structure S where
  socks : Nat → Option Sock
  host  : Host := {}
  notes : List String := []       -- tolerated deviations seen so far (known finding)

def init : S := { socks := fun _ => none }

/-- A bound address that fixes the source address of outgoing datagrams. -/
def specific (ip : Ip) : Bool := ip != 0 && !isMulticast ip

/-- Does a multicast datagram of a socket bound to `bound` with `IP_MULTICAST_IF = mcIf` leave through the
multicast interface (and is therefore seen by memberships, which all live there)? -/
def viaMcastIf (h : Host) (bound mcIf : Ip) : Bool :=
  if mcIf != 0 then mcIf == h.ifIp
  else if specific bound then !isLoopback bound else true

/-- The receiving side of the delivery predicate: bound port and address let the datagram in, the group is
joined and not left, the source passes the filter (`IP_MULTICAST_ALL = 0`: nobody else's groups count). -/
def joinedFor (r : Sock) (dst : Addr) (srcIp : Ip) : Bool :=
  r.isOpen && r.kern.name.port == dst.port && (r.kern.name.ip == 0 || r.kern.name.ip == dst.ip)
    && passes r.memb dst.ip srcIp

def settled (r : Sock) (g : Ip) : Bool := !r.memb.unsure g

def mcastVerdict (st : S) (via : Bool) (dst src : Addr) (arrived : List Nat) (r : Nat) : Option String :=
  match st.socks r with
  | none => if arrived.contains r then some "delivered-unknown-socket" else none
  | some rs =>
    if arrived.contains r && !joinedFor rs dst src.ip then some "delivered-not-joined"
    else if !arrived.contains r && joinedFor rs dst src.ip && via && settled rs dst.ip then some "not-delivered"
    else none

def ucastMatch (r : Sock) (dst : Addr) : Bool :=
  r.isOpen && r.kern.name.port == dst.port && (r.kern.name.ip == dst.ip || r.kern.name.ip == 0)

def deliver (socks : Nat → Option Sock) (arrived : List Nat) (d : Dgram) : Nat → Option Sock :=
  fun r => (socks r).map fun rs => if arrived.contains r then { rs with out := rs.out ++ [d] } else rs

/-- Does the completion `(n, src, bytes in the designated buffer)` deliver datagram `d` into a buffer of `len` bytes? -/
def fits (d : Dgram) (len n : Nat) (src : Option Addr) (got : Option (List UInt8)) : Bool :=
  n == min d.data.length len && src == some d.src && got == some (d.data.take n)

def takeFirst (p : Dgram → Bool) : List Dgram → Option (Dgram × List Dgram)
  | [] => none
  | d :: r => if p d then some (d, r) else (takeFirst p r).map fun x => (x.1, d :: x.2)

def diagnose (out : List Dgram) (cur len n : Nat) (src : Option Addr) (bufs : List (Nat × List UInt8)) : String :=
  match out.filter (fun d => d.data != []) with
  | [] => "read-no-datagram"
  | d :: _ =>
    if n != min d.data.length len then "read-length"
    else if src != some d.src then "read-sender"
    else if bufs.any (fun b => b.1 != cur && b.2 == d.data.take n && n != 0) then "read-stale-buffer"
    else "read-bytes"

def setSock (st : S) (s : Nat) (t : Sock) : S := { st with socks := upd st.socks s (some t) }

/-- One monitored event. `.error key` = the event violates C12. -/
def step (st : S) : Ev → Except String S
  | .opened s _ kern =>
      .ok (setSock st s { kern := kern, memb := Memb.empty, out := [], pend := none, loopSet := false, isOpen := true })
  | .getters s api kern =>
      match st.socks s with
      | none => .error "unknown-socket"
      | some t =>
        -- reported settings equal getsockopt / getsockname on RawFd()
        if api.localAddr != kern.name then .error "getter-local-address"
        else if api.ttl != kern.ttl then .error "getter-ttl"
        else if api.outIp != kern.mcIf || api.outIf.getD 0 != kern.mcIf then .error "getter-outbound"
        else if api.loop != kern.loop then
          if t.loopSet then .error "getter-loop"
          else .ok { setSock st s { t with kern := kern } with notes := st.notes ++ ["loop-getter-inverted"] }
        else .ok (setSock st s { t with kern := kern })
  | .setter s which err =>
      match st.socks s with
      | none => .error "unknown-socket"
      | some t => .ok (if which = .loop ∧ err = .nil then setSock st s { t with loopSet := true } else st)
  | .memb s op err =>
      match st.socks s, op with
      | none, _ => .error "unknown-socket"
      | some _, none => .ok st
      | some t, some op => .ok (setSock st s { t with memb := mstep t.memb op (err == .nil) })
  | .sent s dst data err n src arrived =>
      match st.socks s with
      | none => .error "unknown-socket"
      | some tx =>
        if err != .nil then
          -- "each write emits exactly one datagram": a refusal by the library itself means the kernel was never asked
          if err == .refused then .error "write-not-emitted"
          else if arrived.isEmpty then .ok st else .error "write-failed-but-delivered"
        else if n != data.length then .error "write-length"
        else
          let d : Dgram := { src := src, dst := dst, data := data }
          if isMulticast dst.ip then
            let via := viaMcastIf st.host tx.kern.name.ip tx.kern.mcIf && tx.kern.loop
            match (List.range maxSock).findSome? (mcastVerdict st via dst src arrived) with
            | some key => .error key
            | none => .ok { st with socks := deliver st.socks arrived d }
          else
            -- exactly one datagram, to the given destination
            match arrived with
            | [r] =>
              match st.socks r with
              | some rs => if ucastMatch rs dst then .ok { st with socks := deliver st.socks arrived d }
                           else .error "write-wrong-destination"
              | none => .error "delivered-unknown-socket"
            | [] =>
              if (List.range maxSock).any (fun r => match st.socks r with | some rs => ucastMatch rs dst | none => false)
              then .error "write-lost" else .ok st
            | _ => .error "write-duplicated"
  | .readStart s buf len =>
      match st.socks s with
      | none => .error "unknown-socket"
      | some t => if t.pend.isSome then .error "read-overlap" else .ok (setSock st s { t with pend := some (buf, len) })
  | .setBuf s buf len =>
      match st.socks s with
      | none => .error "unknown-socket"
      | some t => .ok (if t.pend.isSome then setSock st s { t with pend := some (buf, len) } else st)
  | .readPending s =>
      match st.socks s with
      | none => .error "unknown-socket"
      | some t => if t.out.isEmpty then .ok st else .error "read-not-completed"
  | .readNone s =>
      match st.socks s with
      | none => .error "unknown-socket"
      | some t => if t.out.isEmpty then .ok (setSock st s { t with pend := none }) else .error "read-not-completed"
  | .done s err n src bufs =>
      match st.socks s with
      | none => .error "unknown-socket"
      | some t =>
        match t.pend with
        | none => .error "read-spurious"
        | some (cur, len) =>
          if err != .nil then
            -- outside the property (empty datagrams complete with EOF): an empty datagram, if one is queued, is used up
            match takeFirst (fun d => d.data == [] && err == .eof && n == 0) t.out with
            | some (_, rest) => .ok (setSock st s { t with out := rest, pend := none })
            | none => .ok (setSock st s { t with pend := none })
          else if n == 0 then
            -- a raw peer reports an empty datagram as (nil, 0)
            match takeFirst (fun d => d.data == []) t.out with
            | some (_, rest) => .ok (setSock st s { t with out := rest, pend := none })
            | none => .error "read-length"
          else
            -- exactly one queued datagram: its bytes truncated to the buffer, its length, its sender,
            -- in the buffer most recently designated
            match takeFirst (fun d => d.data != [] && fits d len n src (bufs.lookup cur)) t.out with
            | some (_, rest) => .ok (setSock st s { t with out := rest, pend := none })
            | none => .error (diagnose t.out cur len n src bufs)
  | .polled =>
      if (List.range maxSock).any (fun r => match st.socks r with
          | some t => t.isOpen && t.pend.isSome && !t.out.isEmpty | none => false)
      then .error "read-not-completed" else .ok st
  | .closed s =>
      match st.socks s with
      | none => .error "unknown-socket"
      | some t => .ok (setSock st s { t with isOpen := false, out := [], pend := none })
  | .nop => .ok st
  | .skipped => .ok st

/-- Run the monitor over a trace. -/
def run : S → List Ev → Except String S
  | st, [] => .ok st
  | st, e :: r => match step st e with
      | .ok st' => run st' r
      | .error k => .error k

def accepts (st : S) (tr : List Ev) : Bool :=
  match run st tr with | .ok _ => true | .error _ => false

end Sonic.Spec.Datagram
