/-
Abstract specification (property monitor) for C06: WebSocket message delivery fidelity under fragmentation and
segmentation.

What a conforming peer sends is described at message level: a list of text/binary messages, each cut into one or more
fragments, with Ping/Pong frames inserted in front of any fragment (and after the last message). `wire` turns that
into bytes through the reference encoder of `Spec/WsFrame.lean` (RFC 6455 5.2: the first fragment carries the type
opcode, the others opcode 0, FIN on the last one; server frames are not masked).  What the reader must observe is
stated over the *message list* only: it does not mention frames' byte layout, the way the bytes were cut into
transport reads, or which of the four read APIs was used.
-/
import Sonic.Spec.WsFrame
import Sonic.Spec.WsStream

namespace Sonic.Spec.WsMessages
open Sonic.Spec.WsFrame (Frame encode)
open Sonic.Spec.WsStream (Err InFrame)

abbrev Bytes := List UInt8

/-- A control frame inserted by the peer: opcode 9 (Ping) or 10 (Pong). -/
structure Ctl where
  op : Nat
  payload : Bytes
  deriving Repr, DecidableEq

/-- One message as the peer sends it: its type (1 text, 2 binary) and its fragments in order, each preceded by the
control frames the peer inserted in front of it. -/
structure Sent where
  ty : Nat
  parts : List (List Ctl × Bytes)
  deriving Repr, DecidableEq

/-- The payload of the message: the concatenation of its fragments. -/
def Sent.payload (m : Sent) : Bytes := m.parts.flatMap (·.2)

/-- The control frames sent while the message was in flight, in order. -/
def Sent.ctls (m : Sent) : List Ctl := m.parts.flatMap (·.1)

/-- A session: the messages, then the control frames sent after the last message. -/
structure Session where
  msgs : List Sent
  tail : List Ctl
  deriving Repr, DecidableEq

/-! ## What goes on the wire -/

def ctlFrame (c : Ctl) : Frame :=
  { fin := true, rsv1 := false, rsv2 := false, rsv3 := false, opcode := c.op, masked := false, mask := [], payload := c.payload }

def dataFrame (op : Nat) (fin : Bool) (p : Bytes) : Frame :=
  { fin := fin, rsv1 := false, rsv2 := false, rsv3 := false, opcode := op, masked := false, mask := [], payload := p }

/-- Frames of the fragments of one message (`first` = no fragment of it has been sent yet). -/
def partFrames (ty : Nat) : Bool → List (List Ctl × Bytes) → List Frame
  | _, [] => []
  | first, (cs, p) :: rest =>
    cs.map ctlFrame ++ dataFrame (if first then ty else 0) rest.isEmpty p :: partFrames ty false rest

def Sent.frames (m : Sent) : List Frame := partFrames m.ty true m.parts

def Session.frames (s : Session) : List Frame := s.msgs.flatMap Sent.frames ++ s.tail.map ctlFrame

/-- The byte stream of the session. -/
def wire (s : Session) : Bytes := s.frames.flatMap encode

/-! ## The property's hypotheses on a session -/

/-- A Ping/Pong a conforming peer may send to a receiver whose maximum is `max`. -/
def CtlOk (max : Nat) (c : Ctl) : Prop := (c.op = 9 ∨ c.op = 10) ∧ c.payload.length ≤ 125 ∧ c.payload.length ≤ max
instance (max : Nat) (c : Ctl) : Decidable (CtlOk max c) := by unfold CtlOk; exact inferInstance

/-- Text or binary, at least one fragment, payload within the configured maximum and the caller's buffer. -/
def SentOk (max buf : Nat) (m : Sent) : Prop :=
  (m.ty = 1 ∨ m.ty = 2) ∧ m.parts ≠ [] ∧ m.payload.length ≤ max ∧ m.payload.length ≤ buf ∧ ∀ c ∈ m.ctls, CtlOk max c
instance (max buf : Nat) (m : Sent) : Decidable (SentOk max buf m) := by unfold SentOk; exact inferInstance

def InScope (max buf : Nat) (s : Session) : Prop := (∀ m ∈ s.msgs, SentOk max buf m) ∧ ∀ c ∈ s.tail, CtlOk max c
instance (max buf : Nat) (s : Session) : Decidable (InScope max buf s) := by unfold InScope; exact inferInstance

/-! ## What the reader observes -/

/-- One call of NextMessage / AsyncNextMessage: error, type, reported length, `b[:n]`, "nothing was written outside
`b[:n]`", and what the control callback received during the call. -/
structure MsgOut where
  err : Err
  ty : Nat
  n : Nat
  data : Bytes
  clean : Bool
  ctl : List (Nat × Bytes)
  deriving Repr, DecidableEq

/-- One call of NextFrame / AsyncNextFrame. -/
structure FrameOut where
  err : Err
  f : Option InFrame
  deriving Repr, DecidableEq

def ctlSeen (cs : List Ctl) : List (Nat × Bytes) := cs.map fun c => (c.op, c.payload)

/-- The message is delivered: same type, byte-identical payload, reported length = payload length, nothing outside the
delivered bytes was touched, and the callback saw exactly the control frames sent with it, in order. -/
def msgOk (m : Sent) (o : MsgOut) : Bool :=
  o.err == .nil && o.ty == m.ty && o.n == m.payload.length && o.data == m.payload && o.clean && o.ctl == ctlSeen m.ctls

/-- The call sequence of the message API, read until it reports an error: one delivery per message, in order; then
the transport has nothing more (no invented, repeated or partial message), the trailing control frames having been
handed to the callback. -/
def msgsOk : List Sent → List Ctl → List MsgOut → Bool
  | [], tail, [o] => o.err == .nodata && o.clean && o.ctl == ctlSeen tail
  | m :: ms, tail, o :: os => msgOk m o && msgsOk ms tail os
  | _, _, _ => false

def inFrameOf (f : Frame) : InFrame := { fin := f.fin, rsv := 0, op := f.opcode, masked := false, payload := f.payload }

/-- The call sequence of the frame API: exactly the frames sent, in order, then nothing more. -/
def framesOk : List Frame → List FrameOut → Bool
  | [], [o] => o.err == .nodata && o.f.isNone
  | f :: fs, o :: os => o.err == .nil && o.f == some (inFrameOf f) && framesOk fs os
  | _, _ => false

/-- RFC 6455 5.4 reassembly of a frame sequence (as the frame API delivers it): control frames are skipped, a data frame
starts a message unless one is in progress (`cur` = its type and the payload so far), FIN ends it. -/
def assemble : List InFrame → Option (Nat × Bytes) → List (Nat × Bytes)
  | [], _ => []
  | f :: r, cur =>
    if Sonic.Spec.WsStream.controlOp f.op then assemble r cur
    else
      let ty := match cur with | some c => c.1 | none => f.op
      let data := (match cur with | some c => c.2 | none => []) ++ f.payload
      if f.fin then (ty, data) :: assemble r none else assemble r (some (ty, data))

/-! ## Monitor -/

inductive Api where
  | frame | msg
  deriving Repr, DecidableEq

inductive Op where
  | new (max buf : Nat)
  | msg (m : Sent)
  | tail (cs : List Ctl)
  | cut (n : Nat)
  | encode
  | read (api : Api) (async : Bool) (pre : Option Nat)
  deriving Repr, DecidableEq

inductive Obs where
  | ok
  | wire (bs : Bytes)
  | frames (l : List FrameOut)
  | msgs (l : List MsgOut)
  | panic
  deriving Repr, DecidableEq

structure S where
  max : Nat
  buf : Nat
  sess : Session
  deriving Repr, DecidableEq

def init : S := { max := 0, buf := 0, sess := { msgs := [], tail := [] } }

/-- One monitored step; `none` = the observation violates C06.  The segmentation (`cut`), the blocking/asynchronous
choice and the arrival schedule (`pre`) do not appear on the right-hand side: the expectation is a function of the
message list alone.  Sessions outside the property's hypotheses are not judged. -/
def step (s : S) : Op → Obs → Option S
  | .new max buf, .ok => some { max := max, buf := buf, sess := { msgs := [], tail := [] } }
  | .msg m, .ok => some { s with sess := { s.sess with msgs := s.sess.msgs ++ [m] } }
  | .tail cs, .ok => some { s with sess := { s.sess with tail := s.sess.tail ++ cs } }
  | .cut _, .ok => some s
  | .encode, .wire bs => if bs = wire s.sess then some s else none
  | .read .msg _ _, .msgs l =>
      if InScope s.max s.buf s.sess then (if msgsOk s.sess.msgs s.sess.tail l then some s else none) else some s
  | .read .frame _ _, .frames l =>
      if InScope s.max s.buf s.sess then (if framesOk s.sess.frames l then some s else none) else some s
  | _, _ => none

def accepts : S → List (Op × Obs) → Bool
  | _, [] => true
  | s, (op, ob) :: r => match step s op ob with
    | some s' => accepts s' r
    | none => false

/-- Which clause rejected the observation (the key of a finding). -/
def explainMsgs : List Sent → List Ctl → List MsgOut → String
  | [], tail, [o] =>
      if o.err == .nil then "extra-message" else if o.err != .nodata then "error-after-last-message"
      else if !o.clean then "outside-buffer" else if o.ctl != ctlSeen tail then "control-callback" else "ok"
  | [], _, [] => "missing-end"
  | [], _, _ :: _ :: _ => "extra-message"
  | _ :: _, _, [] => "missing-message"
  | m :: ms, tail, o :: os =>
      if o.err != .nil then "missing-message"
      else if o.ty != m.ty then "message-type"
      else if o.n != m.payload.length then "message-length"
      else if o.data != m.payload then "message-payload"
      else if !o.clean then "outside-buffer"
      else if o.ctl != ctlSeen m.ctls then "control-callback"
      else explainMsgs ms tail os

def explainFrames : List Frame → List FrameOut → String
  | [], [o] => if o.err == .nil then "extra-frame" else if o.err != .nodata then "error-after-last-frame" else "frame"
  | [], [] => "missing-end"
  | [], _ :: _ :: _ => "extra-frame"
  | _ :: _, [] => "missing-frame"
  | f :: fs, o :: os =>
      if o.err != .nil then "missing-frame" else if o.f != some (inFrameOf f) then "frame" else explainFrames fs os

def explain (s : S) : Op → Obs → String
  | _, .panic => "panic"
  | .encode, .wire _ => "harness-encoder"
  | .read .msg _ _, .msgs l => explainMsgs s.sess.msgs s.sess.tail l
  | .read .frame _ _, .frames l => explainFrames s.sess.frames l
  | _, _ => "trace-shape"

end Sonic.Spec.WsMessages
