/-
RFC 6455 section 5.2 framing as a pure function on byte lists, and the property monitor for C07
(`FrameCodec.Decode` is total, bounded and stays in sync).

Nothing here knows the implementation: no buffer indices, no lazy reset flag.  The parser looks at
a byte string and says "need more bytes", "declared payload above the maximum" or "here is the
first frame, it occupies `size` bytes".
-/
namespace Sonic.Spec.WsFrame

/-- A frame as it appears on the wire (`payload` is *not* unmasked; `mask` is `[]` when the mask bit is clear). -/
structure Frame where
  fin     : Bool
  rsv1    : Bool
  rsv2    : Bool
  rsv3    : Bool
  opcode  : Nat
  masked  : Bool
  mask    : List UInt8
  payload : List UInt8
  deriving Repr, DecidableEq

inductive Parse where
  | needMore
  | tooBig
  | frame (f : Frame) (size : Nat)
  deriving Repr, DecidableEq

/-- Big-endian value of a byte string. -/
def beNat (l : List UInt8) : Nat := l.foldl (fun acc b => acc * 256 + b.toNat) 0

/-- Byte `i` of the string (0 when absent; every use below is guarded by a length test). -/
def byteAt (bs : List UInt8) (i : Nat) : Nat := (bs.getD i 0).toNat

/-- Number of extended-length bytes announced by the second header byte. -/
def extLen (b1 : Nat) : Nat := if b1 % 128 = 127 then 8 else if b1 % 128 = 126 then 2 else 0

/-- Declared payload length. -/
def declLen (bs : List UInt8) : Nat :=
  if extLen (byteAt bs 1) = 0 then byteAt bs 1 % 128 else beNat ((bs.drop 2).take (extLen (byteAt bs 1)))

def maskLen (b1 : Nat) : Nat := if b1 ≥ 128 then 4 else 0

/-- Offset of the payload = header length. -/
def hdrLen (bs : List UInt8) : Nat := 2 + extLen (byteAt bs 1) + maskLen (byteAt bs 1)

/-- The frame made of the first `hdrLen + declLen` bytes of `bs`. -/
def frameOf (bs : List UInt8) : Frame :=
  let b0 := byteAt bs 0
  let b1 := byteAt bs 1
  { fin := b0 ≥ 128, rsv1 := b0 / 64 % 2 = 1, rsv2 := b0 / 32 % 2 = 1, rsv3 := b0 / 16 % 2 = 1,
    opcode := b0 % 16, masked := b1 ≥ 128,
    mask := (bs.drop (2 + extLen b1)).take (maskLen b1),
    payload := (bs.drop (hdrLen bs)).take (declLen bs) }

/-- The first frame of `bs`, for a receiver that accepts payloads of at most `max` bytes.  The
length is judged as soon as it is known (before the mask and the payload have arrived). -/
def parse (max : Int) (bs : List UInt8) : Parse :=
  if bs.length < 2 then .needMore
  else if bs.length < 2 + extLen (byteAt bs 1) then .needMore
  else if (declLen bs : Int) > max then .tooBig
  else if bs.length < hdrLen bs then .needMore
  else if bs.length < hdrLen bs + declLen bs then .needMore
  else .frame (frameOf bs) (hdrLen bs + declLen bs)

/-- How a frame sequence ends. -/
inductive Final where
  | needMore | tooBig
  deriving Repr, DecidableEq

/-- The frame sequence of a byte string: parse, drop the frame's bytes, repeat (`fuel` bounds the
number of frames; `frames` supplies enough). An over-long frame ends the sequence for good. -/
def framesFuel (max : Int) : Nat → List UInt8 → List Frame × Final
  | 0, _ => ([], .needMore)
  | fuel + 1, bs =>
    match parse max bs with
    | .needMore => ([], .needMore)
    | .tooBig => ([], .tooBig)
    | .frame f size => let r := framesFuel max fuel (bs.drop size); (f :: r.1, r.2)

def frames (max : Int) (bs : List UInt8) : List Frame × Final := framesFuel max (bs.length + 1) bs

/-- The bytes left over after the frame sequence (an incomplete or refused frame). -/
def restFuel (max : Int) : Nat → List UInt8 → List UInt8
  | 0, bs => bs
  | fuel + 1, bs =>
    match parse max bs with
    | .frame _ size => restFuel max fuel (bs.drop size)
    | _ => bs

def rest (max : Int) (bs : List UInt8) : List UInt8 := restFuel max (bs.length + 1) bs

/-! ## Reference encoder (what "the encoder's output" means in `decode ∘ encode = id`) -/

/-- `n` as `k` big-endian bytes. -/
def beBytes : Nat → Nat → List UInt8
  | 0, _ => []
  | k + 1, n => UInt8.ofNat (n / 256 ^ k % 256) :: beBytes k n

def b2n (b : Bool) : Nat := if b then 1 else 0

/-- Shortest legal length encoding (RFC 6455 5.2): 7 bits up to 125, 16 bits up to 65535, else 64 bits. -/
def lenBytes (masked : Bool) (n : Nat) : List UInt8 :=
  let m := 128 * b2n masked
  if n ≤ 125 then [UInt8.ofNat (m + n)]
  else if n ≤ 65535 then UInt8.ofNat (m + 126) :: beBytes 2 n
  else UInt8.ofNat (m + 127) :: beBytes 8 n

def encode (f : Frame) : List UInt8 :=
  UInt8.ofNat (128 * b2n f.fin + 64 * b2n f.rsv1 + 32 * b2n f.rsv2 + 16 * b2n f.rsv3 + f.opcode % 16)
    :: lenBytes f.masked f.payload.length ++ (if f.masked then f.mask else []) ++ f.payload

/-- Frames the encoder can be asked for: a 4-bit opcode, a 4-byte key exactly when masked, a length
that fits the 64-bit field. -/
def Frame.WF (f : Frame) : Prop :=
  f.opcode < 16 ∧ (if f.masked then f.mask.length = 4 else f.mask = []) ∧ f.payload.length < 2 ^ 63
instance (f : Frame) : Decidable f.WF := by unfold Frame.WF; exact inferInstance

/-! ## Monitor -/

inductive Op where
  | feed (bs : List UInt8)   -- the whole segment is appended to the decoder's buffer
  | read (bs : List UInt8)   -- the segment joins the transport backlog; one transport read follows
  | decode
  deriving Repr, DecidableEq

inductive Outcome where
  | ok                                   -- feed
  | took (n : Nat)                       -- read: bytes the buffer accepted
  | frame (f : Frame) (size : Nat)       -- decode: the yielded frame as seen through the accessors; `size` = len(frame)
  | needMore
  | tooBig
  | panic
  | other                                -- any other error value
  deriving Repr, DecidableEq

/-- What the API shows after a call: the outcome, the number of bytes held by the buffer
(`SaveLen + ReadLen + WriteLen`) and `Reserved()`. -/
structure Obs where
  out      : Outcome
  len      : Int
  reserved : Int
  deriving Repr, DecidableEq

structure S where
  max     : Int
  pending : List UInt8   -- bytes given to the decoder that are not part of a yielded frame
  held    : Nat          -- size of the frame yielded by the previous call (consumed lazily by the next Decode)
  backlog : List UInt8   -- transport bytes no read has taken yet
  deriving Repr, DecidableEq

def init (max : Int) : S := { max := max, pending := [], held := 0, backlog := [] }

/-- One monitored step; `none` = the observation violates C07.  The clauses are exactly:
no panic; the outcome is what `parse` says about the bytes received so far (hence independent of
segmentation, and never a frame above `max`); the buffer holds exactly the unconsumed bytes (a
yielded frame leaves when the next `Decode` starts); on "need more" the next read has room. -/
def step (s : S) : Op → Obs → Option S
  | .feed bs, ⟨.ok, len, _⟩ =>
      let p := s.pending ++ bs
      if len = (s.held + p.length : Nat) then some { s with pending := p } else none
  | .read bs, ⟨.took n, len, _⟩ =>
      let bl := s.backlog ++ bs
      let p := s.pending ++ bl.take n
      if n ≤ bl.length ∧ len = (s.held + p.length : Nat) then some { s with pending := p, backlog := bl.drop n } else none
  | .decode, ⟨o, len, reserved⟩ =>
      match parse s.max s.pending, o with
      | .needMore, .needMore =>
          if len = (s.pending.length : Nat) ∧ 0 < reserved then some { s with held := 0 } else none
      | .tooBig, .tooBig =>
          if len = (s.pending.length : Nat) then some { s with held := 0 } else none
      | .frame f size, .frame f' size' =>
          if f' = f ∧ size' = size ∧ (f'.payload.length : Int) ≤ s.max ∧ len = (s.pending.length : Nat)
          then some { s with pending := s.pending.drop size, held := size } else none
      | _, _ => none
  | _, _ => none

def accepts : S → List (Op × Obs) → Bool
  | _, [] => true
  | s, (op, ob) :: r => match step s op ob with
      | some s' => accepts s' r
      | none => false

/-- Why an observation was rejected (for the replay file; keys name the violated clause). -/
def explain (s : S) (op : Op) (ob : Obs) : String :=
  match op, ob.out with
  | _, .panic => "key=wsdecode.panic the call panicked"
  | .decode, o =>
    match parse s.max s.pending, o with
    | .needMore, .needMore =>
        if ob.reserved ≤ 0 then "key=wsdecode.needmore-no-room ErrNeedMore with Reserved() = 0: the next read cannot progress"
        else s!"key=wsdecode.sync buffer holds {ob.len} bytes, {s.pending.length} bytes are unconsumed"
    | .tooBig, .tooBig => s!"key=wsdecode.sync buffer holds {ob.len} bytes, {s.pending.length} bytes are unconsumed"
    | .frame f size, .frame f' size' =>
        if f' ≠ f ∨ size' ≠ size then s!"key=wsdecode.frame the yielded frame differs from the first frame of the received bytes (size {size'} vs {size})"
        else if ¬ ((f'.payload.length : Int) ≤ s.max) then "key=wsdecode.bounded yielded a frame above the maximum"
        else s!"key=wsdecode.sync buffer holds {ob.len} bytes, {s.pending.length} bytes are unconsumed"
    | .tooBig, _ => "key=wsdecode.bounded the declared payload exceeds the maximum but the decoder did not refuse it"
    | .needMore, .frame _ _ => "key=wsdecode.frame a frame was yielded before all its bytes were received"
    | _, _ => "key=wsdecode.outcome the outcome differs from the RFC 6455 parse of the received bytes"
  | _, _ => s!"key=wsdecode.sync buffer holds {ob.len} bytes after feeding; expected {s.held} + {s.pending.length} + new bytes"

end Sonic.Spec.WsFrame
