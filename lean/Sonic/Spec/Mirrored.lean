/-
Abstract specification (property monitor) for C11: a MirroredBuffer is a ring of exactly `size`
physical byte cells, seen through a double mapping of `2 * size` virtual positions.

Assumption (the mmap mirroring, OS behaviour, checked against the real mapping by the harness and
not provable here): virtual position `v` of the double mapping is physical cell `v % size`.

The monitor does not know the implementation's indices.  Its state is the queue of used
(committed, not yet consumed) physical cells, oldest first, the ring position the next committed
byte goes to, the slice the last `Claim` returned and the contents of the physical cells.  It
consumes one operation together with what the implementation (or the model) answered and either
accepts, moving to the next state, or rejects.  Everything C11 states is one of the checks below.

Two monitors are defined.  `S`/`step`/`accepts` is the reference: the queue is an explicit list of
cells.  `C`/`cstep`/`caccepts` is the same monitor with the queue kept as "the `used` cells that end
just before `next`"; it is what the driver executes (a buffer is at least one page, so explicit
cell lists are too slow to run).  `Sonic.Props.C11.compact_sound` proves that whatever the compact
monitor accepts the reference monitor accepts.
-/
import Sonic.Spec.Bip

namespace Sonic.Spec.Mirrored
open Sonic.Spec.Bip (cells imin)

inductive Op where
  | new (req page : Int)        -- NewMirroredBuffer(req, _) on a system whose page size is `page`
  | claim (n : Int) | commit (n : Int) | consume (n : Int)
  | free | used | full | size | reset
  | write (seed : Int)          -- store a byte pattern through the slice the last Claim returned
  | read (off len : Int)        -- look at `len` bytes at virtual offset `off` of the double mapping
  | prefault                    -- Prefault(): zeroes the memory
  | destroy
  deriving Repr, DecidableEq

/-- What a call returned, as seen through the API.  A slice is `(offset, length)` relative to the
start of the double mapping (reported as `0 0` for an empty / nil slice). -/
inductive Obs where
  | created (size : Int) | refused
  | view (lo len : Int) | int (v : Int) | bool (b : Bool) | unit
  | bytes (bs : List UInt8)
  | released (mapped file : Bool)   -- after Destroy: mapping still listed / backing file still there
  | nobuf                           -- there is no buffer (never created, refused, destroyed)
  | panic
  deriving Repr, DecidableEq

/-- What C11 quantifies over: amounts are non-negative (any size, also above the free or used
space); a request is a Go `int`, the page size a positive one. -/
def OpOk : Op → Prop
  | .new req page => 0 < page ∧ page ≤ 9223372036854775807 ∧ -9223372036854775808 ≤ req ∧ req ≤ 9223372036854775807
  | .claim n | .commit n | .consume n => 0 ≤ n
  | _ => True
instance (op : Op) : Decidable (OpOk op) := by cases op <;> unfold OpOk <;> exact inferInstance

/-! ### The physical cells (the mirroring assumption lives here) -/

abbrev Mem := Array UInt8

def zeros (size : Int) : Mem := Array.replicate size.toNat 0

/-- The pattern byte `write seed` stores at index `i` of a slice. -/
def pat (seed : Int) (i : Nat) : UInt8 := UInt8.ofNat ((seed + (i : Int)) % 256).toNat

/-- Physical cell behind virtual position `v`. -/
def phys (size v : Int) : Nat := (v % size).toNat

/-- Store `pat seed i` at virtual positions `lo + i`, for `i = from, from+1, …` (`count` of them),
in ascending order like a Go `for i := range s`. -/
def storeFrom (size lo seed : Int) (i : Nat) : Nat → Mem → Mem
  | 0, m => m
  | count + 1, m => storeFrom size lo seed (i + 1) count (m.setIfInBounds (phys size (lo + (i : Int))) (pat seed i))

def store (m : Mem) (size lo len seed : Int) : Mem := storeFrom size lo seed 0 len.toNat m

def load (m : Mem) (size off len : Int) : List UInt8 :=
  (List.range len.toNat).map fun (i : Nat) => m.getD (phys size (off + (i : Int))) 0

/-- `read off len` looks inside the double mapping only. -/
def ReadIn (size off len : Int) : Prop := 0 ≤ off ∧ 0 ≤ len ∧ off + len ≤ 2 * size
instance (size off len : Int) : Decidable (ReadIn size off len) := by unfold ReadIn; exact inferInstance

/-- The physical cells behind `k` consecutive virtual positions starting at `start`. -/
def ringCells (size start k : Int) : List Int := (cells start k).map (· % size)

/-! ### Checks shared by both monitors -/

/-- The constructor accepts a request by rounding it up to the next multiple of the page size. -/
def NewOk (req page size : Int) : Prop :=
  0 < page ∧ 0 < size ∧ size % page = 0 ∧ req ≤ size ∧ size < req + page
instance (req page size : Int) : Decidable (NewOk req page size) := by unfold NewOk; exact inferInstance

/-! ### Reference monitor -/

structure S where
  live  : Bool
  size  : Int
  q     : List Int          -- used physical cells, oldest first
  next  : Int               -- ring position (physical cell) the next committed byte goes to
  cLo   : Int               -- slice returned by the last Claim: virtual [cLo, cLo + cLen)
  cLen  : Int
  mem   : Mem
  deriving Repr, DecidableEq

def dead : S := { live := false, size := 0, q := [], next := 0, cLo := 0, cLen := 0, mem := #[] }
def fresh (size : Int) : S :=
  { live := true, size := size, q := [], next := 0, cLo := 0, cLen := 0, mem := zeros size }

def S.used (s : S) : Int := (s.q.length : Int)
def S.free (s : S) : Int := s.size - s.used

/-- A claim is `min n free` contiguous virtual bytes inside the double mapping that start at the
ring position right after the newest committed byte and whose physical cells are all unused. -/
def ClaimOk (s : S) (n lo len : Int) : Prop :=
  len = imin n s.free ∧
  (len = 0 ∨ (0 ≤ lo ∧ lo + len ≤ 2 * s.size ∧ lo % s.size = s.next ∧
              ∀ c ∈ s.q, ∀ v ∈ cells lo len, v % s.size ≠ c))
instance (s : S) (n lo len : Int) : Decidable (ClaimOk s n lo len) := by unfold ClaimOk; exact inferInstance

/-- One monitored step. `none` = the observation violates C11. -/
def step (s : S) : Op → Obs → Option S
  | .new req page, ob =>
    match ob with
    | .created size => if NewOk req page size then some (fresh size) else none
    | .refused => some dead                -- a request that is not accepted creates no buffer
    | _ => none
  | op, ob =>
    if s.live = false then (if ob = .nobuf then some s else none) else
    match op, ob with
    | .claim n, .view lo len =>
        if ClaimOk s n lo len then some { s with cLo := lo, cLen := len } else none
    | .commit n, .int k =>
        -- exactly min(n, free) bytes are committed, into the cells that follow the newest one
        if k = imin n s.free
        then some { s with q := s.q ++ ringCells s.size s.next k, next := (s.next + k) % s.size } else none
    | .consume n, .int k =>
        -- exactly the oldest min(n, used) bytes are freed
        if k = imin n s.used then some { s with q := s.q.drop k.toNat } else none
    | .used, .int v => if v = s.used then some s else none
    | .free, .int v => if v = s.free then some s else none            -- used + free = size
    | .full, .bool b => if b = decide (s.used = s.size) then some s else none
    | .size, .int v => if v = s.size then some s else none
    | .reset, .unit => some { s with q := [], next := 0 }
    | .write seed, .unit => some { s with mem := store s.mem s.size s.cLo s.cLen seed }
    | .prefault, .unit => some { s with mem := zeros s.size }
    | .read off len, .bytes bs =>
        if bs = (if ReadIn s.size off len then load s.mem s.size off len else []) then some s else none
    | .destroy, .released mapped file => if mapped = false ∧ file = false then some dead else none
    | _, _ => none

/-- Run the monitor over a trace. -/
def accepts : S → List (Op × Obs) → Bool
  | _, [] => true
  | s, (op, ob) :: r => match step s op ob with
      | some s' => accepts s' r
      | none => false

/-! ### Compact monitor (executed by the driver) -/

structure C where
  live  : Bool
  size  : Int
  next  : Int               -- ring position the next committed byte goes to
  used  : Int               -- the used cells are the `used` ring positions that end just before `next`
  cLo   : Int
  cLen  : Int
  mem   : Mem
  deriving Repr, DecidableEq

def cdead : C := { live := false, size := 0, next := 0, used := 0, cLo := 0, cLen := 0, mem := #[] }
def cfresh (size : Int) : C :=
  { live := true, size := size, next := 0, used := 0, cLo := 0, cLen := 0, mem := zeros size }

def C.free (s : C) : Int := s.size - s.used

/-- As `ClaimOk`; that the claimed cells are unused follows from `len ≤ free` (`compact_sound`). -/
def CClaimOk (s : C) (n lo len : Int) : Prop :=
  len = imin n s.free ∧ (len = 0 ∨ (0 ≤ lo ∧ lo + len ≤ 2 * s.size ∧ lo % s.size = s.next))
instance (s : C) (n lo len : Int) : Decidable (CClaimOk s n lo len) := by unfold CClaimOk; exact inferInstance

def cstep (s : C) : Op → Obs → Option C
  | .new req page, ob =>
    match ob with
    | .created size => if NewOk req page size then some (cfresh size) else none
    | .refused => some cdead
    | _ => none
  | op, ob =>
    if s.live = false then (if ob = .nobuf then some s else none) else
    match op, ob with
    | .claim n, .view lo len =>
        if CClaimOk s n lo len then some { s with cLo := lo, cLen := len } else none
    | .commit n, .int k =>
        if k = imin n s.free then some { s with used := s.used + k, next := (s.next + k) % s.size } else none
    | .consume n, .int k =>
        if k = imin n s.used then some { s with used := s.used - k } else none
    | .used, .int v => if v = s.used then some s else none
    | .free, .int v => if v = s.free then some s else none
    | .full, .bool b => if b = decide (s.used = s.size) then some s else none
    | .size, .int v => if v = s.size then some s else none
    | .reset, .unit => some { s with used := 0, next := 0 }
    | .write seed, .unit => some { s with mem := store s.mem s.size s.cLo s.cLen seed }
    | .prefault, .unit => some { s with mem := zeros s.size }
    | .read off len, .bytes bs =>
        if bs = (if ReadIn s.size off len then load s.mem s.size off len else []) then some s else none
    | .destroy, .released mapped file => if mapped = false ∧ file = false then some cdead else none
    | _, _ => none

def caccepts : C → List (Op × Obs) → Bool
  | _, [] => true
  | s, (op, ob) :: r => match cstep s op ob with
      | some s' => caccepts s' r
      | none => false

end Sonic.Spec.Mirrored
