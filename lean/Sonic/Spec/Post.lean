/-
Property monitor for C05 on linearised schedules: what an observer of `Post` may see.

State: the handlers posted and not yet run, each with the goroutine that posted it (`none` = the loop goroutine,
i.e. a nested Post), in posting order.  A handler may run only if it is the oldest not-yet-run handler of its poster
(per-poster FIFO), only once, only on the loop thread; Pending() and Posted() equal the number of handlers posted and
not yet run whenever they are observed between calls.
-/
namespace Sonic.Spec.Post

structure S where
  queue : List (Option Nat × Nat) := []      -- (poster, handler) not yet run, in posting order
  done  : List Nat := []
  nests : List (Nat × Nat) := []             -- handler h posts h' when it runs
  deriving Repr, Inhabited

inductive Ev where
  | nest (h h' : Nat)
  | posted (poster h : Nat) (ok : Bool) (pending posted : Int)
  | ran (hs : List Nat) (again : Bool) (sameTid : Bool) (pending posted : Int) (n : Int) (timeout : Bool)
  deriving Repr

def runOne (s : S) (h : Nat) : Except String S :=
  match s.queue.find? (·.2 == h) with
  | none => .error (if s.done.contains h then "handler-ran-twice" else "handler-never-posted")
  | some (p, _) =>
    -- it must be the oldest pending handler of its poster
    match s.queue.find? (·.1 == p) with
    | some (_, first) =>
      if first != h then .error "per-poster-order-violated" else
      let nested := (s.nests.filter (·.1 == h)).map (fun x => ((none : Option Nat), x.2))
      .ok { s with queue := s.queue.filter (·.2 != h) ++ nested, done := h :: s.done }
    | none => .error "handler-never-posted"

def runAll (s : S) : List Nat → Except String S
  | [] => .ok s
  | h :: r => match runOne s h with
    | .ok s' => runAll s' r
    | .error k => .error k

def step (s : S) : Ev → Except String S
  | .nest h h' => .ok { s with nests := s.nests ++ [(h, h')] }
  | .posted p h ok pending posted =>
    if !ok then .error "post-failed-or-blocked" else
    let s := { s with queue := s.queue ++ [(some p, h)] }
    if pending != s.queue.length then .error "pending-not-exact"
    else if posted != s.queue.length then .error "posted-not-exact"
    else .ok s
  | .ran hs again sameTid pending posted n timeout =>
    if again then .error "handler-ran-twice" else
    if !sameTid then .error "handler-off-loop-thread" else
    match runAll s hs with
    | .error k => .error k
    | .ok s' =>
      if pending != s'.queue.length then .error "pending-not-exact"
      else if posted != s'.queue.length then .error "posted-not-exact"
      else if !hs.isEmpty && (n ≤ 0 || timeout) then .error "poll-dispatched-but-reported-nothing"
      else if hs.isEmpty && !s.queue.isEmpty then .error "posted-handler-not-run-by-poll"   -- the wake-up was lost
      else .ok s'

end Sonic.Spec.Post
