/-
Abstract specification (property monitor) for the event-loop properties C01, C02, C03, C04, C14 and the
single-threaded part of C05.

The monitor sees only API-level events: a call is made, a completion callback is entered / exited, a call
returns.  Its state is a *ledger* of operations (starting / in flight / completed / dropped), the nesting of
calls and handlers, per-stream byte offsets, armed timers and posted handlers.  It knows nothing about epoll,
slots, interest bits or the library's counters.  `step` returns `none` when an event violates a property; the
`String` in `Except` names the clause (it becomes the finding key).
-/
namespace Sonic.Spec.Loop

/-- MaxCallbackDispatch (io.go). The driver checks this against the regenerated constant. -/
def maxDispatch : Nat := 32

inductive OpKind where
  | read | readAll | write | writeAll | accept | recvFrom | sendTo | timerOnce | timerRep | post
  deriving Repr, DecidableEq, Inhabited

def OpKind.isRead : OpKind → Bool
  | .read | .readAll | .accept | .recvFrom => true
  | _ => false

def OpKind.isWrite : OpKind → Bool
  | .write | .writeAll | .sendTo => true
  | _ => false

def OpKind.isTimer : OpKind → Bool
  | .timerOnce | .timerRep => true
  | _ => false

inductive ObjKind where
  | stream | regular | adapter | listener | packet | timer
  deriving Repr, DecidableEq, Inhabited

inductive Res where
  | ok | eof | cancelled | err        -- `err` = any other error class
  | timer | post                       -- timer / posted handler invocation (no result)
  deriving Repr, DecidableEq, Inhabited

inductive OpState where
  | starting    -- the starting call has not returned yet
  | inflight    -- deferred: its completion is owed
  | running     -- a repeating schedule whose callback is executing: re-armed when the callback returns, unless the
                -- callback cancelled / closed the timer or left another schedule armed on it
  | done        -- completed (callback entered) — for repeating timers: never
  | dropped     -- its object was closed / its timer cancelled: no callback may follow
  deriving Repr, DecidableEq, Inhabited

structure Op where
  id    : Nat
  obj   : Nat
  kind  : OpKind
  len   : Nat
  state : OpState
  seen  : Nat := 0      -- write ops: bytes of this op the peer has already been seen to receive
  atLimit : Bool := false  -- started while the dispatch counter was at (or above) MaxCallbackDispatch (C14)
  deriving Repr, DecidableEq, Inhabited

/-- What a returning call reported. -/
inductive Ret where
  | plain
  | err (isNil : Bool)
  | poll (n : Int) (res : Res)          -- res: ok (= nil) | timer→unused | err; `eof` unused; timeout is `.cancelled`-free: see `isTimeout`
  | pollTimeout (n : Int)
  | pending (pending posted disp : Int)
  | bool (b : Bool)
  | drained (bytes : List UInt8)
  | peer (ok : Bool)
  | stuck (ops : List Nat)
  deriving Repr, DecidableEq, Inhabited

inductive Ev where
  | obj (obj : Nat) (kind : ObjKind)      -- an object was created; a regular file starts with 256 stream bytes on disk
  | callStart (op obj : Nat) (kind : OpKind) (len : Nat)
  | callCancel (obj : Nat)
  | callClose (obj : Nat)
  | callSched (op obj : Nat) (rep : Bool) (ticks : Int)
  | callTCancel (obj : Nat)
  | callScheduled (obj : Nat)
  | callPost (op : Nat)
  | callSetDisp (n : Int)
  | callPoll
  | callPending
  | callPeerWrite (obj : Nat) (n : Nat)
  | callPeerDrain (obj : Nat)
  | callPeerOther
  | callFinish
  | enter (op : Nat) (res : Res) (n : Int) (data : List UInt8) (early : Bool)
  | exit (op : Nat)
  | ret (r : Ret)
  deriving Repr, DecidableEq, Inhabited

/-- A frame of the call / handler nesting. -/
inductive Frame where
  | start (op : Nat)
  | cancel (obj : Nat) (snapshot : List Nat)      -- ops of `obj` that were in flight when Cancel was called
  | close (obj : Nat)
  | sched (op obj : Nat) (wasArmed wasClosed : Bool)   -- state of the timer when Schedule* was called
  | tcancel (obj : Nat)
  | scheduled (obj : Nat)
  | post (op : Nat)
  | poll (dispatched : Nat)
  | pending
  | peerDrain (obj : Nat)
  | other
  | finish
  | handler (op : Nat) (counts : Bool) (inline : Bool := false)   -- counts: an I/O completion callback that is not a cancellation (C14);
                                        -- inline: entered from inside its own starting call (the library raised `Dispatched` around it)
  deriving Repr, DecidableEq, Inhabited

structure S where
  ops       : List Op := []
  stack     : List Frame := []
  closed    : List Nat := []               -- closed objects
  rxOff     : List (Nat × Nat) := []       -- per stream object: bytes delivered to read callbacks so far
  peerSent  : List (Nat × Nat) := []       -- per stream object: bytes the peer has written so far
  txDone    : List (Nat × List UInt8) := [] -- per object: bytes of completed writes the peer has not drained yet
  posts     : List Nat := []               -- posted, not yet run (FIFO)
  forcedDisp : Int := 0                    -- value the script stored in IO.Dispatched
  regular   : List Nat := []               -- objects that are regular files (epoll refuses them)
  deriving Repr, Inhabited

def streamByte (k i : Nat) : UInt8 := UInt8.ofNat ((i * 7 + k * 13 + 1) % 251)
def opByte (id j : Nat) : UInt8 := UInt8.ofNat ((j * 11 + id * 17 + 3) % 251)

def streamBytes (k off n : Nat) : List UInt8 := (List.range n).map fun i => streamByte k (off + i)
def opBytes (id off n : Nat) : List UInt8 := (List.range n).map fun j => opByte id (off + j)

def lookup (l : List (Nat × α)) (k : Nat) (d : α) : α := ((l.find? (·.1 == k)).map (·.2)).getD d
def update (l : List (Nat × α)) (k : Nat) (v : α) : List (Nat × α) := (k, v) :: l.filter (·.1 != k)

def findOp (s : S) (id : Nat) : Option Op := s.ops.find? (·.id == id)
def setOp (s : S) (o : Op) : S := { s with ops := o :: s.ops.filter (·.id != o.id) }
def mapOps (s : S) (f : Op → Op) : S := { s with ops := s.ops.map f }

def depth (s : S) : Nat := (s.stack.filter fun f => match f with | .handler _ _ _ => true | _ => false).length

def OpKind.isIO (k : OpKind) : Bool := k.isRead || k.isWrite

/-- C14 counts nested completion callbacks of I/O operations (timer and posted handlers are not completions;
callbacks delivered by `Cancel` are not immediately completed operations and are outside C14's quantifier). -/
def ioDepth (s : S) : Nat :=
  (s.stack.filter fun f => match f with | .handler _ c _ => c | _ => false).length

/-- Number of inline completion callbacks on the stack = how far the library has raised `IO.Dispatched` above the value
the program stored (the callback dispatched by the poller is not counted by the library). -/
def inlineDepth (s : S) : Nat :=
  (s.stack.filter fun f => match f with | .handler _ _ i => i | _ => false).length

/-- Innermost *call* frame (handlers skipped): tells in which API call we currently are. -/
def innerCall : List Frame → Option Frame
  | [] => none
  | .handler _ _ _ :: r => innerCall r
  | f :: _ => some f

/-- Is there an enclosing Cancel call on the operation's object?  (An operation started by a handler that runs
inside `Cancel` may be swept up by the same `Cancel`; the snapshot is what *must* be completed.) -/
def inCancel (st : List Frame) (obj : Nat) : Bool :=
  st.any fun f => match f with | .cancel o _ => o == obj | _ => false

def inPoll (st : List Frame) : Bool :=
  st.any fun f => match f with | .poll _ | .finish => true | _ => false

/-- Ops owed a completion: deferred I/O, armed timers, posted handlers. -/
def inflightOps (s : S) : List Op := s.ops.filter (·.state == .inflight)

def armedTimer (s : S) (obj : Nat) : Option Op :=
  s.ops.find? fun o => o.obj == obj && o.kind.isTimer && (o.state == .inflight || o.state == .starting)

/-- bump the `dispatched` counter of the innermost poll frame when a handler is entered directly under it -/
def bumpPoll : List Frame → List Frame
  | [] => []
  | .handler h c i :: r => .handler h c i :: r    -- nested under another handler: not a poller dispatch
  | .poll k :: r => .poll (k + 1) :: r
  | f :: r => f :: r

abbrev M := Except String

/-- First violated clause: each entry is (violated?, key of the clause). -/
def firstFail : List (Bool × String) → Option String
  | [] => none
  | (b, k) :: r => if b then some k else firstFail r

/-- `guarded checks next`: reject with the first violated clause, else move to `next`. -/
def guarded (checks : List (Bool × String)) (next : S) : M S :=
  match firstFail checks with
  | some k => .error k
  | none => .ok next

/-- How a transition treats its clauses. The monitor proper uses `guarded`; the drivers also run the same
transition with `forced` (the next state regardless of the clauses) and `allFailed` (every violated clause, not only
the first) to keep reading a trace after a violation: see `Driver.LoopSpec`. -/
abbrev Guard := List (Bool × String) → S → M S

def forced : Guard := fun _ next => .ok next

def allFailed : Guard := fun checks next =>
  match (checks.filter (·.1)).map (·.2) with
  | [] => .ok next
  | ks => .error (",".intercalate ks)

def innerCallIsCancel (st : List Frame) (obj : Nat) : Bool :=
  match innerCall st with
  | some (.cancel o _) => o == obj
  | _ => false

/-- The clauses checked when the completion callback of `o` is entered. -/
def enterChecks (s : S) (o : Op) (res : Res) (n : Int) (data : List UInt8) (early : Bool) : List (Bool × String) :=
  let off := lookup s.rxOff o.obj 0
  [ -- C01: exactly once, never after close / cancel
    (o.state == .done || o.state == .running, "callback-twice"),
    (o.state == .dropped && o.kind.isTimer, "timer-callback-after-cancel-or-close"),
    (o.state == .dropped, "callback-after-close"),
    (o.kind != .post && !o.kind.isTimer && s.closed.contains o.obj, "callback-after-close"),
    -- inline in its own start call, or (deferred) from the poller / Cancel
    (o.state == .starting && innerCall s.stack != some (.start o.id) && !o.kind.isTimer, "callback-of-starting-op-outside-its-call"),
    (o.state != .starting && !(inPoll s.stack || inCancel s.stack o.obj), "deferred-callback-outside-poll"),
    (res == .cancelled && !inCancel s.stack o.obj, "cancelled-result-without-cancel"),
    (inCancel s.stack o.obj && o.state == .inflight && innerCallIsCancel s.stack o.obj && res == .ok, "cancel-completed-with-success"),
    -- C14: nesting depth; a deferred operation completes with the result it would have had inline
    (o.kind.isIO && res != .cancelled && ioDepth s + 1 > maxDispatch + 1, "nesting-deeper-than-limit"),
    (o.state == .starting && s.regular.contains o.obj && res == .err && s.forcedDisp ≥ (maxDispatch : Int),
      "regular-file-not-deferrable"),
    -- when the bound is reached the next operation is deferred to the poller (only a failure to register is reported at once)
    (o.state == .starting && o.atLimit && o.kind.isIO && res == .ok, "completed-inline-at-the-dispatch-limit"),
    -- C04 / C05
    (o.kind.isTimer && early, "timer-early"),
    (o.kind == .post && s.posts.head? != some o.id, "post-order"),
    -- C02: byte-stream fidelity and counts
    ((o.kind == .read || o.kind == .readAll || o.kind == .recvFrom) && (n < 0 || n.toNat > o.len), "read-count-out-of-range"),
    ((o.kind == .read || o.kind == .readAll) && data != streamBytes o.obj off n.toNat, "read-bytes-differ-from-stream"),
    ((o.kind == .read || o.kind == .readAll) && off + n.toNat > lookup s.peerSent o.obj 0, "read-bytes-invented"),
    ((o.kind == .read || o.kind == .readAll) && res == .ok && n == 0 && o.len != 0, "read-success-with-zero-bytes"),
    (o.kind == .readAll && res == .ok && n.toNat != o.len, "readall-success-partial"),
    ((o.kind == .write || o.kind == .writeAll) && (n < 0 || n.toNat > o.len), "write-count-out-of-range"),
    ((o.kind == .write || o.kind == .writeAll) && res == .ok && n == 0 && o.len != 0, "write-success-with-zero-bytes"),
    (o.kind == .writeAll && res == .ok && n.toNat != o.len, "writeall-success-partial"),
    ((o.kind == .write || o.kind == .writeAll) && n.toNat < o.seen, "write-count-below-bytes-on-wire") ]

def enterNext (s : S) (o : Op) (res : Res) (n : Int) : S :=
  let off := lookup s.rxOff o.obj 0
  let s := if o.kind == .read || o.kind == .readAll then { s with rxOff := update s.rxOff o.obj (off + n.toNat) } else s
  let s := if o.kind == .write || o.kind == .writeAll then
      { s with txDone := update s.txDone o.obj (lookup s.txDone o.obj [] ++ opBytes o.id o.seen (n.toNat - o.seen)) } else s
  let st' : OpState := if o.kind == .timerRep then .running else .done
  let s := setOp s { o with state := st' }
  let s := if o.kind == .post then { s with posts := s.posts.drop 1 } else s
  { s with stack := .handler o.id (o.kind.isIO && res != .cancelled) (o.state == .starting && o.kind.isIO) :: bumpPoll s.stack }

/-- What is checked when a call returns (frame `f` popped, `s` already without it). -/
def retStepWith (g : Guard) (s : S) (f : Frame) (r : Ret) : M S :=
  match f, r with
  | .start op, _ =>
    match findOp s op with
    | some o => .ok (if o.state == .starting then setOp s { o with state := .inflight } else s)
    | none => .ok s
  | .cancel obj snap, _ =>
    -- C01: Cancel completes each in-flight operation exactly once (or the object got closed meanwhile)
    g [(!(snap.all (fun id => match findOp s id with
                                    | some o => o.state == .done || o.state == .dropped
                                    | none => true) || s.closed.contains obj), "cancel-left-operation-in-flight")] s
  | .close obj, _ =>
    -- after Close returns no callback of that object may be invoked: drop its ledger entries
    let s := mapOps s fun o => if o.obj == obj && o.kind != .post && (o.state == .inflight || o.state == .starting || o.state == .running)
                               then { o with state := .dropped } else o
    .ok { s with closed := if s.closed.contains obj then s.closed else obj :: s.closed }
  | .sched op _ wasArmed closedT, .err isNil =>
    match findOp s op with
    | none => .ok s
    | some o =>
      g [(closedT && isNil, "closed-timer-revived"), (wasArmed && isNil, "schedule-while-scheduled-accepted")]
        (if !isNil then setOp s { o with state := if o.state == .starting then .dropped else o.state }
         else if o.state == .starting then setOp s { o with state := .inflight } else s)
  | .tcancel obj, .err isNil =>
    .ok (if isNil then
      mapOps s fun o => if o.obj == obj && o.kind.isTimer && (o.state == .inflight || o.state == .starting || o.state == .running)
                        then { o with state := .dropped } else o
    else s)
  | .scheduled obj, .bool b =>
    -- (inside the timer's own callback the schedule is in transition: a repeating timer is re-armed only after the
    -- callback returns; the property is not read as fixing the flag there)
    let inOwnHandler := s.stack.any fun f => match f with
      | .handler h _ _ => (match findOp s h with | some o => o.obj == obj && o.kind.isTimer | none => false)
      | _ => false
    g [(!inOwnHandler && b != ((s.ops.find? fun o => o.obj == obj && o.kind.isTimer && o.state == .inflight).isSome),
              "scheduled-flag-wrong")] s
  | .post op, .err isNil =>
    match findOp s op with
    | some o => .ok (if isNil then { (setOp s { o with state := .inflight }) with posts := s.posts ++ [op] }
                     else setOp s { o with state := .dropped })
    | none => .ok s
  | .poll k, .poll n res =>
    -- C03: PollOne reports a positive count whenever it dispatched at least one handler, never success for nothing
    -- (`n = -1`: RunOne / RunOneFor, which report no count; `n = -2`: RunPending returned; result `eof` stands for "the
    -- call did not return although every operation in flight had been made completable" — the harness's watchdog)
    g [(k > 0 && n == 0, "poll-dispatched-but-reported-nothing"), (n == 0, "poll-nothing-ready-reported-success"),
       (res == .eof, "poll-run-did-not-return"),
       (res == .err, "poll-reported-error"),
       (n == -2 && res == .ok && !(inflightOps s).isEmpty, "poll-runpending-returned-with-operations-in-flight")] s
  | .poll k, .pollTimeout n =>
    g [(k > 0 && n ≥ 0, "poll-dispatched-but-reported-timeout")] s
  | .pending, .pending p q d =>
    -- C03: with no handler executing, Pending() = operations in flight; C14: depth accounting back to zero
    g [(depth s == 0 && p != ((inflightOps s).length : Int), "pending-differs-from-ledger"),
             (depth s == 0 && q != (s.posts.length : Int), "posted-differs-from-ledger"),
             (depth s == 0 && d != s.forcedDisp, "dispatch-depth-not-restored")] s
  | .peerDrain obj, .drained bytes =>
    -- C02: what the peer received = completed writes in order, then a prefix of the write still in flight
    let done := lookup s.txDone obj []
    if bytes.length ≤ done.length then
      g [(bytes != done.take bytes.length, "peer-received-different-bytes")]
        { s with txDone := update s.txDone obj (done.drop bytes.length) }
    else
      let extra := bytes.drop done.length
      -- (also a write that was dropped by Close / a closed object: what the kernel had accepted before still reaches the peer)
      match (s.ops.find? fun o => o.obj == obj && o.kind.isWrite && (o.state == .inflight || o.state == .starting || o.state == .dropped)
                                   && o.seen < o.len) with
      | none => .error "peer-received-bytes-nobody-wrote"
      | some o =>
        g [(done != bytes.take done.length, "peer-received-different-bytes"),
                 (extra != opBytes o.id o.seen extra.length || o.seen + extra.length > o.len, "peer-received-different-bytes")]
          { (setOp s { o with seen := o.seen + extra.length }) with txDone := update s.txDone obj [] }
  | .finish, .stuck ops =>
    -- C01 (liveness, as far as a run can show it): nothing whose descriptor is ready stays uncompleted
    -- C14: an operation deferred only because the dispatch limit was reached completes later like any other
    -- C04: a schedule whose delay has passed fires as long as the loop is polled
    g [(ops.any (fun id => match findOp s id with | some o => o.kind.isTimer | none => false), "timer-never-fired-although-due"),
       (ops.any (fun id => match findOp s id with | some o => o.atLimit | none => false), "operation-deferred-at-limit-never-completed"),
       (!ops.isEmpty, "operation-never-completed-although-ready")] s
  | _, _ => .ok s

def stepWith (g : Guard) (s : S) : Ev → M S
  | .obj obj kind =>
      .ok (if kind == .regular then { s with regular := obj :: s.regular, peerSent := update s.peerSent obj 256 } else s)
  | .callStart op obj kind len =>
      g [((findOp s op).isSome, "op-id-reused")]
        { (setOp s { id := op, obj := obj, kind := kind, len := len, state := .starting,
                     atLimit := decide (s.forcedDisp + (inlineDepth s : Int) ≥ (maxDispatch : Int)) }) with stack := .start op :: s.stack }
  | .callCancel obj =>
      let snap := (inflightOps s).filter (fun o => o.obj == obj && !o.kind.isTimer && o.kind != .post) |>.map (·.id)
      .ok { s with stack := .cancel obj snap :: s.stack }
  | .callClose obj => .ok { s with stack := .close obj :: s.stack }
  | .callSched op obj rep ticks =>
      g [((findOp s op).isSome, "op-id-reused")]
        { (setOp s { id := op, obj := obj, kind := if rep then .timerRep else .timerOnce, len := ticks.toNat, state := .starting }) with
            stack := .sched op obj (armedTimer s obj).isSome (s.closed.contains obj) :: s.stack }
  | .callTCancel obj => .ok { s with stack := .tcancel obj :: s.stack }
  | .callScheduled obj => .ok { s with stack := .scheduled obj :: s.stack }
  | .callPost op =>
      g [((findOp s op).isSome, "op-id-reused")]
        { (setOp s { id := op, obj := 0, kind := .post, len := 0, state := .starting }) with stack := .post op :: s.stack }
  | .callSetDisp n => .ok { s with forcedDisp := n, stack := .other :: s.stack }
  | .callPoll => .ok { s with stack := .poll 0 :: s.stack }
  | .callPending => .ok { s with stack := .pending :: s.stack }
  | .callPeerWrite obj n =>
      .ok { s with peerSent := update s.peerSent obj (lookup s.peerSent obj 0 + n), stack := .other :: s.stack }
  | .callPeerDrain obj => .ok { s with stack := .peerDrain obj :: s.stack }
  | .callPeerOther => .ok { s with stack := .other :: s.stack }
  | .callFinish => .ok { s with stack := .finish :: s.stack }
  | .enter op res n data early =>
      match findOp s op with
      | none => .error "callback-of-unknown-op"
      | some o => g (enterChecks s o res n data early) (enterNext s o res n)
  | .exit op =>
      match s.stack with
      | .handler h _ _ :: r =>
        if h == op then
          -- the callback of a repeating schedule returns: the schedule continues (is armed again) unless the callback
          -- cancelled / closed the timer (then it is `dropped`) or left another schedule armed on the same timer (the
          -- re-arming `ScheduleOnce` fails and the repeating schedule ends silently)
          let s := match findOp s op with
            | some o => if o.state == OpState.running then
                          setOp s { o with state := if (armedTimer s o.obj).isSome then .dropped else .inflight }
                        else s
            | none => s
          .ok { s with stack := r }
        else .error "handler-nesting-broken"
      | _ => .error "handler-nesting-broken"
  | .ret r =>
      match s.stack with
      | [] => .error "return-without-call"
      | f :: rest => retStepWith g { s with stack := rest } f r

def retStep : S → Frame → Ret → M S := retStepWith guarded

/-- The monitor: one event, first violated clause or the next state. -/
def step : S → Ev → M S := stepWith guarded

/-- Run the monitor over an event list. -/
def run (s : S) : List Ev → M S
  | [] => .ok s
  | e :: r => match step s e with
    | .ok s' => run s' r
    | .error k => .error k

def accepts (evs : List Ev) : Bool := match run {} evs with | .ok _ => true | .error _ => false

end Sonic.Spec.Loop
