/-
The API-level ledger of operations in flight (C01, C03), stated on the events alone.

This is the part of the property monitor that the loop model is *proved* to satisfy for every history
(`Sonic.Props.Ledger`): a shadow ledger that sees only what a user of the library sees — a call is made, a completion
callback is entered or returns, a call returns — and knows nothing about epoll, slots, interest bits or the poller's
counter.  `owed` is the list of operations whose completion callback the loop still owes:

* a read / write / accept / datagram operation is owed from the moment its starting call returns without having
  invoked the callback (it was deferred) until its callback is entered — by the poller or by `Cancel` — or its
  object is closed;
* a one-shot timer schedule with a positive delay is owed from the return of `ScheduleOnce` until it fires, or the timer
  is cancelled or closed;
* a repeating schedule is owed likewise; while its callback runs it is not (the timer is not armed then), and when the
  callback returns it is owed again unless the callback cancelled or closed the timer (however deeply nested) or left
  another schedule armed on it;
* a posted handler is owed from the return of `Post` until it is entered.

The two clauses: a callback is entered only inline in its own starting call or for an operation that is owed (so never
twice, never after Close / Cancel / completion); and whenever no handler is executing, `Pending()` is the number of owed
operations and `Posted()` the number of owed posts.
-/
import Sonic.Spec.Loop

namespace Sonic.Spec.Ledger
open Sonic.Spec.Loop (Ev Ret OpKind)

structure Rec where
  id : Nat
  obj : Nat
  kind : OpKind
  deriving DecidableEq, Repr, Inhabited

inductive LFrame where
  | start (r : Rec) (entered : Bool)
  | sched (r : Rec) (entered : Bool)
  | post (op : Nat)
  | close (obj : Nat)
  | tcancel (obj : Nat)
  | pending
  | handler (r : Rec) (live : Bool)   -- live: no Cancel / Close of the timer since this (repeating) callback started
  | other
  deriving DecidableEq, Repr, Inhabited

structure L where
  owed : List Rec := []
  stack : List LFrame := []
  deriving Repr, Inhabited

def isHandler : LFrame → Bool
  | .handler _ _ => true
  | _ => false

/-- No completion handler is executing. -/
def quiet (st : List LFrame) : Bool := !st.any isHandler

def timerOn (obj : Nat) (r : Rec) : Bool := r.obj == obj && r.kind.isTimer

/-- A successful `Cancel` / `Close` of timer `obj`: every running repeating callback of that timer stops repeating. -/
def killFrames (obj : Nat) : List LFrame → List LFrame
  | [] => []
  | .handler r live :: rest => .handler r (live && !(timerOn obj r)) :: killFrames obj rest
  | f :: rest => f :: killFrames obj rest

def findOwed (l : L) (op : Nat) : Option Rec := l.owed.find? (·.id == op)

def postsOwed (l : L) : Nat := (l.owed.filter (·.kind == .post)).length

def step (l : L) : Ev → Option L
  | .obj _ _ => some l
  | .callStart op obj kind _ => some { l with stack := .start ⟨op, obj, kind⟩ false :: l.stack }
  | .callSched op obj rep _ => some { l with stack := .sched ⟨op, obj, if rep then .timerRep else .timerOnce⟩ false :: l.stack }
  | .callPost op => some { l with stack := .post op :: l.stack }
  | .callClose obj => some { l with stack := .close obj :: l.stack }
  | .callTCancel obj => some { l with stack := .tcancel obj :: l.stack }
  | .callPending => some { l with stack := .pending :: l.stack }
  | .callCancel _ | .callScheduled _ | .callSetDisp _ | .callPoll | .callPeerWrite _ _ | .callPeerDrain _
  | .callPeerOther | .callFinish => some { l with stack := .other :: l.stack }
  | .enter op _ _ _ _ =>
    match l.stack with
    | .start r false :: rest =>
      if r.id == op then some { l with stack := .handler r false :: .start r true :: rest } else none
    | .sched r false :: rest =>
      if r.id == op then some { l with stack := .handler r false :: .sched r true :: rest } else none
    | st =>
      -- dispatched by the poller or delivered by Cancel: only an operation that is owed
      match findOwed l op with
      | none => none
      | some r => some { owed := l.owed.erase r, stack := .handler r (r.kind == .timerRep) :: st }
  | .exit op =>
    match l.stack with
    | .handler r live :: rest =>
      if r.id != op then none
      else if r.kind == .timerRep && live && !(l.owed.any (timerOn r.obj)) then some { owed := r :: l.owed, stack := rest }
      else some { l with stack := rest }
    | _ => none
  | .ret r =>
    match l.stack with
    | [] => none
    | .start rc entered :: rest => some (if entered then { l with stack := rest } else { owed := rc :: l.owed, stack := rest })
    | .sched rc entered :: rest =>
      some (if !entered && r == .err true then { owed := rc :: l.owed, stack := rest } else { l with stack := rest })
    | .post op :: rest =>
      some (if r == .err true then { owed := ⟨op, 0, .post⟩ :: l.owed, stack := rest } else { l with stack := rest })
    | .close obj :: rest =>
      some (if r == .err true then
              { owed := l.owed.filter (fun x => !(x.obj == obj && x.kind != .post)), stack := killFrames obj rest }
            else { l with stack := rest })
    | .tcancel obj :: rest =>
      some (if r == .err true then { owed := l.owed.filter (fun x => !(timerOn obj x)), stack := killFrames obj rest }
            else { l with stack := rest })
    | .handler _ _ :: _ => none
    | .pending :: rest =>
      -- C03: whenever no handler is executing, Pending() = operations in flight and Posted() = posted handlers not yet run
      match r with
      | .pending p q _ =>
        if quiet rest && (p != (l.owed.length : Int) || q != (postsOwed l : Int)) then none else some { l with stack := rest }
      | _ => some { l with stack := rest }
    | .other :: rest => some { l with stack := rest }

def run (l : L) : List Ev → Option L
  | [] => some l
  | e :: r => match step l e with
    | some l' => run l' r
    | none => none

/-- The documented usage of the library: an operation is started on an object only when none of the same direction is in
flight on it (a second one would replace the first one's continuation). Checked where it matters: when a starting call
returns having deferred its operation. -/
def usageOk (l : L) : Ev → Bool
  | .ret _ =>
    match l.stack with
    | .start rc false :: _ => l.owed.all fun r => !(r.obj == rc.obj && r.kind != .post && r.kind.isRead == rc.kind.isRead)
    | _ => true
  | _ => true

/-- The whole history respects `usageOk` (along the ledger's own run). -/
def UsageOk : L → List Ev → Prop
  | _, [] => True
  | l, e :: r => usageOk l e = true ∧ ∀ l', step l e = some l' → UsageOk l' r

/-- The ledger accepts the history. -/
def accepts (evs : List Ev) : Bool := (run {} evs).isSome

end Sonic.Spec.Ledger
