/-
Abstract specification (property monitor) for C20: packets parked in a `ByteBuffer`'s save area and
indexed by a `SlotSequencer` (or a bare `SlotOffsetter`) can be retrieved and discarded in any order.

The monitor knows nothing about Fenwick trees, original indices or offsets.  Its state is a finite
map `key ↦ bytes` of parked packets, kept in arrival order (a key is a sequence number, or a
handle in the offsetter-only stream), the bytes waiting in the read area, and the number of bytes
discarded since the index was last empty.  It consumes one *workflow* operation together with what
the implementation answered and either accepts, moving to the next state, or rejects.

Workflow operations (the documented use, slot_sequencer.go / slot_offsetter.go / the example
`examples/sequencing/receiver/fenwick_proc.go`):

* `park seq bytes n` = `Write(bytes); Commit(len bytes); slot := Save(n); ok, err := Push(seq, slot);
  if !ok { Discard(slot) }`
* `take seq` = `slot, ok := Pop(seq); if ok { read SavedSlot(slot); Discard(slot) }`
* `add bytes n` / `off h` / `reset`: the same with `SlotOffsetter.Add` / `Offset` / `Reset` alone,
  slots named by a handle (the number of successful `add`s before it).

A `Push` between a `Pop` and its `Discard` is outside the documented contract (it shifts indices);
no workflow operation produces it and nothing is claimed about it.
-/
namespace Sonic.Spec.Slots

abbrev Bytes := List UInt8

inductive Op where
  | park (seq : Int) (bytes : Bytes) (n : Int)
  | take (seq : Int)
  | add (bytes : Bytes) (n : Int)
  | off (h : Int)
  | reset
  | resetAll      -- sequencer stream: `SlotSequencer.Reset()` with whatever is parked, and `DiscardAll()` on the buffer
  deriving Repr, DecidableEq

/-- What the calls of one workflow operation returned / made observable.
`sIdx sLen`: the slot `Save` returned (not judged here: that is C09).
`addressed`: `SavedSlot(slot)` just before the discard (`none`: the slot does not lie inside the buffer).
`saved`: the whole save area after the operation. `total`/`size`: `Bytes()`/`Size()` after it. -/
inductive Obs where
  | park (sIdx sLen : Int) (ok err : Bool) (total size : Int) (saved : Bytes)
  | take (hit : Bool) (idx len : Int) (addressed : Option Bytes) (total size : Int) (saved : Bytes)
  | add (sIdx sLen : Int) (err : Bool) (idx len : Int) (saved : Bytes)
  | off (idx len : Int) (addressed : Option Bytes) (saved : Bytes)
  | unit
  | skip          -- the harness did not call anything (unknown handle; `reset` while slots are live)
  | panic
  deriving Repr, DecidableEq

structure S where
  maxSlots : Int
  maxBytes : Int
  readable : Bytes                 -- committed, not yet saved bytes (front first)
  parked   : List (Int × Bytes)    -- parked packets, oldest first: this *is* the save area
  gone     : Int                   -- bytes discarded since the index was last empty / reset
  next     : Int                   -- next handle of the offsetter-only stream
  deriving Repr, DecidableEq

def init (maxSlots maxBytes : Int) : S :=
  { maxSlots := maxSlots, maxBytes := maxBytes, readable := [], parked := [], gone := 0, next := 0 }

/-- The save area that holds exactly the parked packets, oldest first. -/
def flat : List (Int × Bytes) → Bytes
  | [] => []
  | p :: r => p.2 ++ flat r

/-- How many bytes `Save(n)` takes from `avail` readable bytes. -/
def saveLen (n : Int) (avail : Nat) : Nat := if n ≤ 0 then 0 else if n > avail then avail else n.toNat

/-- Bytes `[idx, idx+len)` of `xs`, if that range lies inside `xs`. -/
def slice (xs : Bytes) (idx len : Int) : Option Bytes :=
  if 0 ≤ idx ∧ 0 ≤ len ∧ idx + len ≤ xs.length then some ((xs.drop idx.toNat).take len.toNat) else none

def Dup (s : S) (key : Int) : Prop := (s.parked.lookup key).isSome = true
instance (s : S) (key : Int) : Decidable (Dup s key) := by unfold Dup; exact inferInstance

/-- The byte limit would be exceeded by parking `k` more bytes. -/
def OverBytes (s : S) (k : Nat) : Prop := ((flat s.parked).length : Int) + k > s.maxBytes
/-- The slot limit is reached. -/
def OverSlots (s : S) : Prop := (s.parked.length : Int) ≥ s.maxSlots
/-- The offsetter's index space (`NewSlotOffsetter(maxBytes)`: one cell per byte position counted
from the moment the index was last empty) is used up: position of the new slot plus everything
discarded since then reaches `maxBytes`.  An error is *permitted* here, not required. -/
def IndexSpaceUsedUp (s : S) : Prop := ((flat s.parked).length : Int) + s.gone ≥ s.maxBytes
instance (s : S) (k : Nat) : Decidable (OverBytes s k) := by unfold OverBytes; exact inferInstance
instance (s : S) : Decidable (OverSlots s) := by unfold OverSlots; exact inferInstance
instance (s : S) : Decidable (IndexSpaceUsedUp s) := by unfold IndexSpaceUsedUp; exact inferInstance

/-- Verdict on `Push`'s answer `(ok, err)` for a packet of `k` bytes under `seq`:
accepted only if the number is new and no limit is hit; an error only if a limit is hit
(and then nothing is accepted); a silent rejection only for a duplicate. -/
def PushOk (s : S) (seq : Int) (k : Nat) (ok err : Bool) : Prop :=
  (ok = true → err = false ∧ ¬ Dup s seq ∧ ¬ OverBytes s k ∧ ¬ OverSlots s) ∧
  (err = true → ok = false ∧ (OverBytes s k ∨ OverSlots s ∨ IndexSpaceUsedUp s)) ∧
  (ok = false → err = false → Dup s seq)
instance (s : S) (seq : Int) (k : Nat) (ok err : Bool) : Decidable (PushOk s seq k ok err) := by
  unfold PushOk; exact inferInstance

/-- `Bytes()`, `Size()` and the save area equal the parked totals. -/
def Totals (parked : List (Int × Bytes)) (total size : Int) (saved : Bytes) : Prop :=
  total = ((flat parked).length : Int) ∧ size = (parked.length : Int) ∧ saved = flat parked
instance (p : List (Int × Bytes)) (t z : Int) (sv : Bytes) : Decidable (Totals p t z sv) := by
  unfold Totals; exact inferInstance

def without (parked : List (Int × Bytes)) (key : Int) : List (Int × Bytes) := parked.filter (fun p => p.1 != key)

/-- The slot `(idx, len)` handed out for packet `pkt`, applied to the save area as it is at that
moment, addresses exactly `pkt` — both in the monitor's own picture of the save area and in what
`SavedSlot` returned on the real buffer. -/
def Addresses (parked : List (Int × Bytes)) (pkt : Bytes) (idx len : Int) (addressed : Option Bytes) : Prop :=
  slice (flat parked) idx len = some pkt ∧ addressed = some pkt
instance (p : List (Int × Bytes)) (pkt : Bytes) (i l : Int) (a : Option Bytes) : Decidable (Addresses p pkt i l a) := by
  unfold Addresses; exact inferInstance

/-- One monitored step. `none` = the observation violates C20. -/
def step (s : S) : Op → Obs → Option S
  | .park seq bytes n, .park _ _ ok err total size saved =>
      let rd := s.readable ++ bytes
      let k := saveLen n rd.length
      let parked' := if ok = true then s.parked ++ [(seq, rd.take k)] else s.parked
      if PushOk s seq k ok err ∧ Totals parked' total size saved
      then some { s with readable := rd.drop k, parked := parked' } else none
  | .take seq, .take hit idx len addressed total size saved =>
      match s.parked.lookup seq with
      | none =>
          -- nothing is parked under `seq`: reported as a miss, nothing changes
          if hit = false ∧ Totals s.parked total size saved then some s else none
      | some pkt =>
          let rest := without s.parked seq
          if hit = true ∧ Addresses s.parked pkt idx len addressed ∧ Totals rest total size saved
          then some { s with parked := rest, gone := if rest = [] then 0 else s.gone + pkt.length } else none
  | .add bytes n, .add _ _ err _ _ saved =>
      let rd := s.readable ++ bytes
      let k := saveLen n rd.length
      let parked' := if err = false then s.parked ++ [(s.next, rd.take k)] else s.parked
      if (err = true → IndexSpaceUsedUp s) ∧ saved = flat parked'
      then some { s with readable := rd.drop k, parked := parked', next := if err = false then s.next + 1 else s.next }
      else none
  | .off h, .off idx len addressed saved =>
      match s.parked.lookup h with
      | none => none
      | some pkt =>
          let rest := without s.parked h
          if Addresses s.parked pkt idx len addressed ∧ saved = flat rest
          then some { s with parked := rest, gone := s.gone + pkt.length } else none
  | .off h, .skip => if (s.parked.lookup h).isNone then some s else none
  | .reset, .unit => if s.parked = [] then some { s with gone := 0 } else none
  | .reset, .skip => if s.parked = [] then none else some s
  -- nothing is parked any more (and nothing of it is left in the save area); what was only readable stays readable
  | .resetAll, .unit => some { s with parked := [], gone := 0 }
  | _, _ => none

/-- Run the monitor over a trace. -/
def accepts : S → List (Op × Obs) → Bool
  | _, [] => true
  | s, (op, ob) :: r => match step s op ob with
      | some s' => accepts s' r
      | none => false

end Sonic.Spec.Slots
