/-
Abstract specification (property monitor) for C09: a ByteBuffer is three adjacent FIFO regions.

The monitor knows nothing of indices or of a backing array.  Its state is three byte lists
  saved     bytes kept by `Save`, addressable through slots until discarded
  readable  committed and not yet consumed bytes, oldest first (what readers see)
  pending   written but not yet committed bytes (never visible to readers)
plus the capacity the implementation last reported (only used to decide whether a `Claim` fits).

Every public call has an effect on the three lists and a return value (`eff`).  Clamping of integer
arguments is the clamping built into `List.take`/`List.drop` on `n.toNat` (negative ↦ 0, more than
there is ↦ everything).  `step` compares what the implementation (or the model) answered with `eff`
and additionally requires after every call: the three regions read back exactly as the lists, the
region lengths add up to the buffer length, the length is at most the capacity, and no panic.

Outside the property (the monitor says so explicitly instead of guessing):
* `Discard`/`SavedSlot` with a slot that is not inside the save area (`ValidSlot`, decidable).  Slots
  are not integers; the code does not validate them.  After such a call the monitor is `void`
  (accepts everything): the three-list reading of the buffer is no longer defined.
* `Reserve n` whose growth exceeds what the Go allocator can ever provide (`growth > MaxAlloc`):
  the runtime panics inside `append`.  The monitor accepts that panic **only if the buffer reads back
  unchanged afterwards**.
* Callees of `ReadFrom`/`WriteTo` follow the `io.Reader`/`io.Writer` contract (`0 ≤ n ≤ len(p)`), which
  is built into the shape of the operations (counts are `Nat` and clipped to the slice they get).
-/
namespace Sonic.Spec.ByteBuffer

inductive Err where
  | nil | eof | needMore | other
  deriving Repr, DecidableEq

/-- Largest allocation the Go runtime can ever satisfy on linux/amd64 (`maxAlloc` = 2^48 bytes). -/
def MaxAlloc : Int := 281474976710656

/-- One public call, together with the behaviour of the callee where the API takes one.

* `claim ret seed`: `Claim(fn)` where `fn` fills the whole slice it is given with the pattern
  `seed, seed+1, …` and returns `ret` (any integer).
* `claimFixed n seed`: `ClaimFixed(n)`; the caller fills the claimed slice with the pattern.
* `readFrom n seed err`: `ReadFrom(r)` where `r` either fails with `err ≠ nil` returning count `n`
  (having written nothing), or fills the slice it is given with the pattern and returns
  `min n len(p)`, `nil`.
* `writeTo resps`: `WriteTo(w)` where the k-th call of `w.Write(p)` answers `resps[k] = (n, fail)`:
  `fail` ↦ `(0, error)`; otherwise it accepts `min n len(p)` bytes; once `resps` is used up it accepts
  everything.
* `reserve`/`write*` carry nothing: the capacity chosen by `append` is read off the observation. -/
inductive Op where
  | reserve (n : Int)
  | commit (n : Int)
  | consume (n : Int)
  | save (n : Int)
  | discard (idx len : Int)
  | discardAll
  | savedSlot (idx len : Int)
  | reset
  | read (dstLen : Nat)
  | readByte
  | readFrom (n : Nat) (seed : UInt8) (err : Err)
  | unreadByte
  | write (bs : List UInt8)
  | writeByte (x : UInt8)
  | writeString (bs : List UInt8)
  | writeTo (resps : List (Nat × Bool))
  | prepareRead (n : Int)
  | claim (ret : Int) (seed : UInt8)
  | claimFixed (n : Int) (seed : UInt8)
  | shrinkBy (n : Int)
  | shrinkTo (n : Int)
  deriving Repr, DecidableEq

/-- What a call returned. -/
inductive Ret where
  | unit
  | int (v : Int)
  | slot (idx len : Int)
  | bytes (bs : Option (List UInt8))            -- `SavedSlot`; `none` = reaches beyond `len(data)` (stale memory)
  | rd (n : Int) (got : List UInt8) (e : Err)   -- `Read`: count, `dst[:n]`, error
  | rb (x : Option UInt8) (e : Err)             -- `ReadByte`: the byte (reported only when `e = nil`)
  | nerr (n : Int) (e : Err)                    -- `Write`, `WriteString`, `ReadFrom`
  | err (e : Err)                               -- `WriteByte`, `UnreadByte`, `PrepareRead`
  | wt (n : Int) (out : List UInt8) (e : Err)   -- `WriteTo`: count, bytes the writer accepted (in order), error
  | claimed (len : Int)                         -- `ClaimFixed`: length of the returned slice
  deriving Repr, DecidableEq

/-- The buffer as read back through the public accessors after a call:
`Saved()`, `Data()`, the write area, `Len()`, `Cap()`, `Reserved()`. -/
structure Dump where
  saved    : List UInt8
  readable : List UInt8
  pending  : List UInt8
  len      : Int
  cap      : Int
  reserved : Int
  deriving Repr, DecidableEq

/-- Observation of one call: `ret = none` ⇔ the call panicked; `dump = none` ⇔ reading the buffer
back panicked (or was not attempted after a panic). -/
structure Obs where
  ret  : Option Ret
  dump : Option Dump
  deriving Repr, DecidableEq

structure S where
  saved    : List UInt8
  readable : List UInt8
  pending  : List UInt8
  cap      : Int            -- capacity last reported by the implementation
  void     : Bool := false  -- a call outside the property's scope happened (invalid slot)
  deriving Repr, DecidableEq

def S.len (s : S) : Int := (s.saved.length : Int) + s.readable.length + s.pending.length

def init (cap : Int) : S := { saved := [], readable := [], pending := [], cap := cap }

/-- `n` bytes `seed, seed+1, …` (what scripted callees write; position-dependent so that loss,
duplication and reordering are visible). -/
def pattern (seed : UInt8) (n : Nat) : List UInt8 :=
  (List.range n).map (fun i => seed + UInt8.ofNat i)

/-- A slot lies inside the save area. -/
def ValidSlot (s : S) (idx len : Int) : Prop := 0 ≤ idx ∧ 0 ≤ len ∧ idx + len ≤ s.saved.length
instance (s : S) (idx len : Int) : Decidable (ValidSlot s idx len) := by unfold ValidSlot; exact inferInstance

/-- Free room behind the pending bytes, as far as the monitor knows it. -/
def S.room (s : S) : Int := s.cap - s.len

/-- `WriteTo`: feed the remaining readable bytes to the scripted writer.
Returns (bytes accepted so far, error). -/
def feed : List UInt8 → List (Nat × Bool) → List UInt8 → List UInt8 × Err
  | [],   _,                  acc => (acc, .nil)
  | rest, [],                 acc => (acc ++ rest, .nil)
  | _,    (_, true) :: _,     acc => (acc, .other)
  | rest, (n, false) :: more, acc => feed (rest.drop n) more (acc ++ rest.take n)

/-- Effect of a call on the three lists, and its return value.  `none` = outside the property. -/
def eff (s : S) : Op → Option (S × Ret)
  | .reserve _ => some (s, .unit)
  | .commit n =>
      some ({ s with readable := s.readable ++ s.pending.take n.toNat, pending := s.pending.drop n.toNat }, .unit)
  | .consume n => some ({ s with readable := s.readable.drop n.toNat }, .unit)
  | .save n =>
      let k := (s.readable.take n.toNat).length
      some ({ s with saved := s.saved ++ s.readable.take n.toNat, readable := s.readable.drop n.toNat },
            if k = 0 then .slot 0 0 else .slot s.saved.length k)
  | .discard idx len =>
      if len ≤ 0 then some (s, .int 0)
      else if ValidSlot s idx len then
        some ({ s with saved := s.saved.take idx.toNat ++ s.saved.drop (idx + len).toNat }, .int len)
      else none
  | .discardAll => some ({ s with saved := [] }, .unit)
  | .savedSlot idx len =>
      if ValidSlot s idx len then some (s, .bytes (some ((s.saved.drop idx.toNat).take len.toNat))) else none
  | .reset => some ({ s with saved := [], readable := [], pending := [] }, .unit)
  | .read dstLen =>
      if dstLen = 0 then some (s, .rd 0 [] .nil)
      else if s.readable = [] then some (s, .rd 0 [] .eof)
      else some ({ s with readable := s.readable.drop dstLen },
                 .rd (s.readable.take dstLen).length (s.readable.take dstLen) .nil)
  | .readByte =>
      match s.readable with
      | [] => some (s, .rb none .eof)
      | x :: r => some ({ s with readable := r }, .rb (some x) .nil)
  | .readFrom n seed e =>
      if e = .nil then
        let k := min n s.room.toNat
        some ({ s with pending := s.pending ++ pattern seed k }, .nerr k .nil)
      else some (s, .nerr n e)
  | .unreadByte =>
      if s.pending = [] then some (s, .err .eof) else some ({ s with pending := s.pending.dropLast }, .err .nil)
  | .write bs => some ({ s with pending := s.pending ++ bs }, .nerr bs.length .nil)
  | .writeByte x => some ({ s with pending := s.pending ++ [x] }, .err .nil)
  | .writeString bs => some ({ s with pending := s.pending ++ bs }, .nerr bs.length .nil)
  | .writeTo resps =>
      let r := feed s.readable resps []
      some ({ s with readable := s.readable.drop r.1.length }, .wt r.1.length r.1 r.2)
  | .prepareRead n =>
      if n ≤ s.readable.length then some (s, .err .nil)
      else if n - s.readable.length ≤ s.pending.length then
        let k := (n - s.readable.length).toNat
        some ({ s with readable := s.readable ++ s.pending.take k, pending := s.pending.drop k }, .err .nil)
      else some (s, .err .needMore)
  | .claim ret seed =>
      if 0 ≤ ret ∧ ret ≤ s.room then some ({ s with pending := s.pending ++ pattern seed ret.toNat }, .unit)
      else some (s, .unit)
  | .claimFixed n seed =>
      if 0 ≤ n ∧ n ≤ s.room then some ({ s with pending := s.pending ++ pattern seed n.toNat }, .claimed n)
      else some (s, .claimed 0)
  | .shrinkBy n =>
      let k := min n.toNat s.pending.length
      some ({ s with pending := s.pending.take (s.pending.length - k) }, .int k)
  | .shrinkTo n =>
      some ({ s with pending := s.pending.take n.toNat }, .int (s.pending.length - (s.pending.take n.toNat).length))

/-- The buffer reads back as the three lists, lengths add up, length ≤ capacity. -/
def DumpOk (s : S) (d : Dump) : Prop :=
  d.saved = s.saved ∧ d.readable = s.readable ∧ d.pending = s.pending ∧
  d.len = s.len ∧ d.len ≤ d.cap ∧ d.reserved = d.cap - d.len
instance (s : S) (d : Dump) : Decidable (DumpOk s d) := by unfold DumpOk; exact inferInstance

/-- `Reserve n` asks for more than the allocator can ever provide. -/
def BeyondAlloc (s : S) (n : Int) : Prop := n - s.room > MaxAlloc
instance (s : S) (n : Int) : Decidable (BeyondAlloc s n) := by unfold BeyondAlloc; exact inferInstance

/-- What a call must additionally guarantee about the capacity. -/
def PostOk (d : Dump) : Op → Prop
  | .reserve n => n ≤ d.reserved
  | _ => True
instance (d : Dump) (op : Op) : Decidable (PostOk d op) := by cases op <;> unfold PostOk <;> exact inferInstance

/-- One monitored step. `none` = the observation violates C09. -/
def step (s : S) (op : Op) (ob : Obs) : Option S :=
  if s.void then some s else
  match ob.ret, ob.dump with
  | none, some d =>
      -- a panic: only an un-allocatable Reserve may, and the buffer must read back unchanged
      match op with
      | .reserve n => if BeyondAlloc s n ∧ DumpOk s d ∧ d.cap = s.cap then some s else none
      | _ => none
  | none, none =>
      match eff s op with
      | none => some { s with void := true }      -- invalid slot: outside the property
      | some _ => none
  | some _, none =>
      match eff s op with
      | none => some { s with void := true }
      | some _ => none                             -- reading the buffer back panicked
  | some r, some d =>
      match eff s op with
      | none => some { s with void := true }
      | some (s', r') =>
          if r = r' ∧ DumpOk s' d ∧ PostOk d op then some { s' with cap := d.cap } else none

/-- Run the monitor over a trace. -/
def accepts : S → List (Op × Obs) → Bool
  | _, [] => true
  | s, (op, ob) :: r => match step s op ob with
      | some s' => accepts s' r
      | none => false

end Sonic.Spec.ByteBuffer
