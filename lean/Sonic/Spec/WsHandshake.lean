/-
Abstract specification (property monitor) for C18: the WebSocket opening handshake of a client stream.

The monitor knows nothing about buffers or read loops.  For one handshake it is given what the server did —
the response head it sent (as bytes, and as the generator built it: status code, Upgrade value, whether the
Sec-WebSocket-Accept value is the one derived from the key of this request), the bytes it sent right after
the head, whether and where it closed — and what was observed: what the server saw of the request, the
result of `Handshake` / `AsyncHandshake`, `State()`, `Pending()`, the first frame read afterwards, and what the
server received unasked.  HTTP parsing, SHA-1 and base64 are not re-implemented: the accept value is
"right" or "not right" by construction of the response.
-/
namespace Sonic.Spec.WsHandshake

abbrev Bytes := List UInt8

/-- ASCII lower case. -/
def lowerChar (c : Char) : Char := if 'A' ≤ c ∧ c ≤ 'Z' then Char.ofNat (c.toNat + 32) else c

/-- Case-insensitive comparison (ASCII), as RFC 6455 requires for the `Upgrade` token. -/
def eqFold (a b : String) : Bool := a.toList.map lowerChar == b.toList.map lowerChar

/-- Does the byte string start with CR LF CR LF? -/
def startsBlank : Bytes → Bool
  | a :: b :: c :: d :: _ => a == 13 && b == 10 && c == 13 && d == 10
  | _ => false

/-- Length of the response head: index just past the first blank line, if there is one. -/
def headEnd : Bytes → Option Nat
  | [] => none
  | x :: xs => if startsBlank (x :: xs) then some 4 else (headEnd xs).map (· + 1)

/-- What the generator built into the response head. -/
structure Resp where
  parseOk  : Bool             -- a well-formed HTTP/1.1 status line and header block
  status   : Nat
  upgrade  : Option String    -- value of the Upgrade header, if present
  acceptOk : Bool             -- a Sec-WebSocket-Accept header is present and its (first) value is the one derived from the key sent
  deriving Repr, DecidableEq

/-- RFC 6455 §4.1: the only response that completes the handshake. -/
def Resp.good (r : Resp) : Bool :=
  r.parseOk && r.status == 101 && (match r.upgrade with | some u => eqFold u "websocket" | none => false) && r.acceptOk

inductive Err where
  | nil | eof | cannotUpgrade | malformed | other
  deriving Repr, DecidableEq

inductive StState where
  | handshake | active | closedByUs | closedByPeer | closeAcked | terminated | unknown
  deriving Repr, DecidableEq

/-- First frame read after the handshake. -/
inductive FrameObs where
  | none                                        -- not attempted (nothing was sent after the head and the server stayed)
  | ok (fin : Bool) (opcode : Nat) (payload : Bytes)
  | err (e : Err)
  deriving Repr, DecidableEq

/-- One scripted handshake. -/
structure Plan where
  async   : Bool
  head    : Bytes             -- response head as sent (accept value rendered by the server)
  resp    : Resp
  trail   : Bytes             -- sent right after the head
  cuts    : List Nat          -- sizes of the server's separate writes
  closeAt : Option Nat        -- the server closes its sending side after that many bytes of head ++ trail
  extra   : List (String × String)
  deriving Repr, DecidableEq

inductive Op where
  | new | stale | hs (p : Plan)
  deriving Repr, DecidableEq

structure HsObs where
  reqOk      : Bool           -- GET, Host, Upgrade: websocket, Connection: upgrade, Sec-WebSocket-Version: 13,
                              -- fresh base64 16-byte key, the caller's extra headers on the wire
  err        : Err
  state      : StState
  pending    : Nat
  peerClosed : Bool           -- after a failure: the server saw the connection closed
  frame      : FrameObs
  srvExtra   : Nat            -- bytes the server received after the request
  deriving Repr, DecidableEq

inductive Obs where
  | st (state : StState) (pending : Nat)      -- answer to `new` / `stale`
  | hs (o : HsObs)
  deriving Repr, DecidableEq

/-- What the server actually delivered. -/
def delivered (p : Plan) : Bytes :=
  match p.closeAt with
  | some k => (p.head ++ p.trail).take k
  | none => p.head ++ p.trail

/-- A server-to-client frame with a 7-bit length (unmasked): `(fin, opcode, payload)` and what follows. -/
def firstFrame : Bytes → Option (Bool × Nat × Bytes)
  | b0 :: b1 :: r =>
      if b1.toNat < 126 ∧ b1.toNat ≤ r.length then some (b0.toNat ≥ 128, b0.toNat % 16, r.take b1.toNat) else none
  | _ => none

/-- The first frame the client must see after a successful handshake, given every byte that followed the blank line. -/
def expectedFrame (after : Bytes) (closed : Bool) : FrameObs :=
  match firstFrame after with
  | some (fin, op, payload) => .ok fin op payload
  | none => if closed then .err .eof else .none

/-- The check for one handshake.  It becomes active **iff** the complete head arrived and it is the good response;
otherwise: error, terminated, connection released.  Either way nothing of an earlier session survives
(`pending = 0`, nothing sent unasked), and after success the frame layer sees exactly the bytes after the
blank line — the first frame is the piggy-backed one, byte for byte. -/
def hsOk (p : Plan) (o : HsObs) : Bool :=
  o.reqOk && o.pending == 0 && o.srvExtra == 0 &&
  (match headEnd (delivered p) with
   | some k =>
      if p.resp.good then
        o.err == .nil && o.state == .active && o.frame == expectedFrame ((delivered p).drop k) p.closeAt.isSome
      else o.err != .nil && o.state == .terminated && o.peerClosed && o.frame == .none
   | none => o.err != .nil && o.state == .terminated && o.peerClosed && o.frame == .none)

/-- One monitored step (the monitor itself is stateless: every handshake starts afresh). -/
def step : Op → Obs → Bool
  | .new, .st state pending => state == .handshake && pending == 0
  | .stale, .st _ _ => true
  | .hs p, .hs o => hsOk p o
  | _, _ => false

def accepts : List (Op × Obs) → Bool
  | [] => true
  | (op, ob) :: r => step op ob && accepts r

end Sonic.Spec.WsHandshake
