/-
Abstract specification (property monitor) for C08 and C15: the RFC 6455 §5.4/§5.5/§7 rules of a WebSocket
*client*, stated over what can be observed from outside the library, at frame granularity:

* what the peer (server) has sent: frames `(fin, rsv, opcode, masked, payload)`, transport EOF, transport error;
* what every API call returned (error class; the frame or message delivered);
* `State()`, `Pending()`, and the frames the client put on the transport (recovered from the raw bytes by a parser
  that is independent of the library).

The monitor knows nothing of the implementation's fields. Its state is the closing-handshake stage, the frames still
in flight from the peer, and the list `expect` of frames the client is obliged to have submitted so far (Pong replies,
accepted application frames, its single Close), in order. Everything C08/C15 state is one of the checks of `retOk`
and `postOk` below; `advance` is the RFC state machine.
-/
namespace Sonic.Spec.WsStream

abbrev Bytes := List UInt8

/-! ## Vocabulary shared with the executable model and the trace driver -/

/-- `StreamState` of definitions.go, as reported by `State()`. -/
inductive StreamState where
  | handshake | active | closedByUs | closedByPeer | closeAcked | terminated
  deriving Repr, DecidableEq, Inhabited

/-- A frame sent by the peer. `rsv` = RSV1·4 + RSV2·2 + RSV3. For a masked frame `payload` is the payload as it
appears on the wire. -/
structure InFrame where
  fin : Bool
  rsv : Nat
  op : Nat
  masked : Bool
  payload : Bytes
  deriving Repr, DecidableEq, Inhabited

/-- A frame the client put (or is about to put) on the transport; payload unmasked. -/
structure OutFrame where
  fin : Bool
  op : Nat
  masked : Bool
  payload : Bytes
  deriving Repr, DecidableEq, Inhabited

inductive Viol where
  | rsv | masked | ctlFin | ctlBig | opcode
  deriving Repr, DecidableEq

/-- Error classes of the trace protocol. -/
inductive Err where
  | nil | eof | cancelled | needmore
  | tooBig            -- ErrMessageTooBig
  | overMax           -- ErrPayloadOverMaxSize (decoder)
  | proto (v : Viol)  -- framing violation
  | unexpCont | expCont
  | nodata | ioerr    -- transport errors of the scripted transport (nothing to read / injected failure)
  | other
  deriving Repr, DecidableEq

inductive Op where
  | peer (f : InFrame) | eof | ioerr
  | nextFrame (async : Bool)
  | nextMsg (async : Bool) (buf : Nat)
  | write (async : Bool) (ty : Nat) (payload : Bytes)
  | writeFrame (async : Bool) (fin : Bool) (op : Nat) (payload : Bytes)
  | flush (async : Bool)
  | close (async : Bool) (code : Nat) (reason : Bytes)
  deriving Repr, DecidableEq

/-- Observable after every call. `wire` = frames written to the transport during the call. -/
structure Post where
  state : StreamState
  pending : Nat
  wire : List OutFrame
  deriving Repr, DecidableEq

/-- What a call returned. -/
inductive Ret where
  | none                                                  -- peer events return nothing
  | frame (e : Err) (f : Option InFrame)                   -- NextFrame / AsyncNextFrame
  | msg (e : Err) (ty n : Nat) (data : Bytes) (clean : Bool) (ctl : List (Nat × Bytes))
        -- NextMessage / AsyncNextMessage: error, type, n, b[:n], "nothing was written outside b[:n]",
        -- control frames handed to the control callback
  | call (e : Err)                                         -- writes, flush, close
  deriving Repr, DecidableEq

inductive Obs where
  | ok (r : Ret) (p : Post)
  | panic
  deriving Repr, DecidableEq

/-! ## RFC 6455 definitions -/

def u16 (c : Nat) : Bytes := [UInt8.ofNat (c / 256), UInt8.ofNat (c % 256)]

def closeCodeOf : Bytes → Nat
  | a :: b :: _ => a.toNat * 256 + b.toNat
  | _ => 0

/-- RFC 3629 well-formed UTF-8: consume one encoded code point. -/
def utf8Step : Bytes → Option Bytes
  | [] => none
  | a :: r =>
    let cont (x : UInt8) : Bool := 0x80 ≤ x && x ≤ 0xBF
    if a < 0x80 then some r
    else if 0xC2 ≤ a && a ≤ 0xDF then
      match r with
      | b :: r => if cont b then some r else none
      | _ => none
    else if 0xE0 ≤ a && a ≤ 0xEF then
      match r with
      | b :: c :: r =>
        let lo : UInt8 := if a == 0xE0 then 0xA0 else 0x80
        let hi : UInt8 := if a == 0xED then 0x9F else 0xBF
        if lo ≤ b && b ≤ hi && cont c then some r else none
      | _ => none
    else if 0xF0 ≤ a && a ≤ 0xF4 then
      match r with
      | b :: c :: d :: r =>
        let lo : UInt8 := if a == 0xF0 then 0x90 else 0x80
        let hi : UInt8 := if a == 0xF4 then 0x8F else 0xBF
        if lo ≤ b && b ≤ hi && cont c && cont d then some r else none
      | _ => none
    else none

def utf8Fuel : Nat → Bytes → Bool
  | _, [] => true
  | 0, _ => false
  | n + 1, l => match utf8Step l with
    | some r => utf8Fuel n r
    | none => false

def utf8Valid (l : Bytes) : Bool := utf8Fuel l.length l

/-- Status codes that may appear in a Close frame (RFC 6455 §7.4 and the IANA registry: 1000–1003, 1007–1013,
3000–4999). -/
def validCloseCode (c : Nat) : Bool :=
  c == 1000 || c == 1001 || c == 1002 || c == 1003 || c == 1007 || c == 1008 || c == 1009 || c == 1010 ||
  c == 1011 || c == 1012 || c == 1013 || (3000 ≤ c && c ≤ 4999)

/-- The status code the client's Close reply must carry: the peer's code, 1000 if it carried none, 1002 if the
payload was invalid (one byte, a code that may not be sent, a reason that is not UTF-8). -/
def replyCode (payload : Bytes) : Nat :=
  if payload.length = 0 then 1000
  else if payload.length < 2 then 1002
  else if !utf8Valid (payload.drop 2) then 1002
  else if !validCloseCode (closeCodeOf payload) then 1002
  else closeCodeOf payload

/-- Control opcodes: 0x8–0xF. -/
def controlOp (op : Nat) : Bool := 8 ≤ op
/-- Opcodes RFC 6455 reserves: 3–7 and 0xB–0xF. -/
def reservedOp (op : Nat) : Bool := (3 ≤ op && op ≤ 7) || 11 ≤ op

/-- The framing violations of C15 (for a client): reserved bit set, reserved opcode, masked frame from the server,
fragmented control frame, control frame with more than 125 payload bytes. -/
def isViolation (f : InFrame) : Bool :=
  f.rsv != 0 || f.masked || reservedOp f.op || (controlOp f.op && (!f.fin || f.payload.length > 125))

def OutFrame.isClose (f : OutFrame) : Bool := f.op == 8

def pong (payload : Bytes) : OutFrame := { fin := true, op := 10, masked := true, payload := payload }

/-! ## Monitor state -/

inductive Stage where
  | opened       -- the connection is open
  | closing      -- the client has queued its Close (local Close, or after a violation); waiting for the peer's
  | peerClosed   -- the peer's Close was received in `opened` and answered
  | acked        -- the peer's Close arrived after ours
  | aborted      -- the transport ended without a closing handshake (1006)
  deriving Repr, DecidableEq

/-- One frame the client is obliged to have submitted. -/
inductive Expect where
  | frame (f : OutFrame)       -- exactly this frame
  | closeCode (code : Nat)     -- a Close frame whose status code is `code`
  | closeAny                   -- a Close frame
  deriving Repr, DecidableEq

def Expect.matches : Expect → OutFrame → Bool
  | .frame f, g => f == g
  | .closeCode c, g => g.fin && g.op == 8 && g.masked && g.payload.take 2 == u16 c
  | .closeAny, g => g.fin && g.op == 8 && g.masked

def matchAll : List Expect → List OutFrame → Bool
  | _, [] => true
  | [], _ :: _ => false
  | e :: es, g :: gs => e.matches g && matchAll es gs

/-- Nothing follows a Close frame on the wire (`sent` = a Close frame is already on the wire). -/
def discipline : Bool → List OutFrame → Bool
  | _, [] => true
  | sent, g :: gs => !sent && discipline (sent || g.isClose) gs

structure S where
  max : Nat                 -- configured maximum message size
  stage : Stage
  ended : Bool              -- a read has reported end-of-stream
  inq : List InFrame        -- sent by the peer, not yet received by the client
  rerr : Bool               -- the transport will fail once when `inq` is drained
  eof : Bool                -- the transport has ended
  expect : List Expect      -- every frame the client must have submitted so far, in order
  seen : Nat                -- how many of them were observed on the wire
  sentClose : Bool          -- a Close frame was observed on the wire
  deriving Repr, DecidableEq

def init (max : Nat) : S :=
  { max := max, stage := .opened, ended := false, inq := [], rerr := false, eof := false, expect := [], seen := 0,
    sentClose := false }

def S.push (s : S) (e : Expect) : S := { s with expect := s.expect ++ [e] }

/-- The client may read only while the closing handshake is not complete. -/
def S.readable (s : S) : Bool := s.stage == .opened || s.stage == .closing

/-- The client received a conforming control or data frame `f`. -/
def recv (s : S) (f : InFrame) : S :=
  if f.op = 9 then
    -- a Ping received while open is answered by one Pong with the identical payload
    if s.stage = .opened then s.push (.frame (pong f.payload)) else s
  else if f.op = 8 then
    match s.stage with
    | .opened => { s.push (.closeCode (replyCode f.payload)) with stage := .peerClosed }
    | .closing => { s with stage := .acked }
    | _ => s
  else s   -- Pongs are not answered; data frames have no effect on the handshake

/-- The client received a frame that violates the framing rules: Close(1002) unless its Close is already out. -/
def violate (s : S) : S :=
  if s.stage = .opened then { s.push (.closeCode 1002) with stage := .closing } else s

/-- Next thing the transport hands to a read. -/
inductive Rx where
  | gated                 -- the closing handshake is over: the transport is not touched
  | frame (f : InFrame)
  | over                  -- the next frame is larger than the maximum: refused, the stream cannot go past it
  | eof | ioerr | nodata
  deriving Repr, DecidableEq

def rx (s : S) : Rx × S :=
  if !s.readable then (.gated, { s with ended := true })
  else match s.inq with
    | f :: r => if f.payload.length > s.max then (.over, s) else (.frame f, { s with inq := r })
    | [] =>
      if s.rerr then (.ioerr, { s with rerr := false })
      else if s.eof then (.eof, { s with stage := .aborted })
      else (.nodata, s)

/-- What the call must return. -/
inductive Want where
  | nothing
  | eos                                   -- end-of-stream after the closing handshake
  | abnormal                              -- unexpected end of the transport: EOF (+ a Close frame 1006 for the frame API)
  | transport (e : Err)                   -- the transport's own error is passed on
  | over                                  -- frame over the maximum: an error, nothing delivered
  | violation (before : Bytes)            -- framing violation: an error; only `before` (earlier fragments) was copied
  | deliverFrame (f : InFrame)
  | tooBig                                -- message over the maximum / the caller's buffer
  | frag (e : Err)                        -- fragmentation rule broken: ErrUnexpectedContinuation / ErrExpectedContinuation
  | deliverMsg (ty : Nat) (data : Bytes)
  | accepted | refused
  deriving Repr, DecidableEq

/-- One frame handed to the client by a read. -/
inductive Got where
  | stop (w : Want)        -- nothing was received; the read returns `w`
  | violated               -- a frame that violates the framing rules was received
  | frame (f : InFrame)    -- a conforming frame was received (its effects on the handshake are applied)
  deriving Repr, DecidableEq

def receive (s : S) : S × Got :=
  match rx s with
  | (.gated, s) => (s, .stop .eos)
  | (.over, s) => (s, .stop .over)
  | (.eof, s) => (s, .stop .abnormal)
  | (.ioerr, s) => (s, .stop (.transport .ioerr))
  | (.nodata, s) => (s, .stop (.transport .nodata))
  | (.frame f, s) => if isViolation f then (violate s, .violated) else (recv s f, .frame f)

/-- Frame API: one frame. -/
def readFrame (s : S) : S × Want :=
  match receive s with
  | (s, .stop w) => (s, w)
  | (s, .violated) => (s, .violation [])
  | (s, .frame f) => (s, .deliverFrame f)

/-- Message assembly (RFC 6455 §5.4): control frames may be interleaved; a message is a FIN data frame with opcode
text/binary, or a non-FIN one followed by continuation frames, the last with FIN. `ty` = type of the message in
progress, `acc` = payload assembled so far. `closedNow` = the client reports `closedByUs` after the call (rejecting a
message that is too big may start the closing handshake). -/
def readMsg (closedNow : Bool) (buf : Nat) : Nat → S → Option Nat → Bytes → S × Want
  | 0, s, _, _ => (s, .transport .other)
  | fuel + 1, s, ty, acc =>
    match receive s with
    | (s, .stop w) => (s, w)
    | (s, .violated) => (s, .violation acc)
    | (s, .frame f) =>
      if controlOp f.op then readMsg closedNow buf fuel s ty acc
      else
        let data := acc ++ f.payload
        if data.length > buf || data.length > s.max then
          (if s.stage = .opened && closedNow then { s.push .closeAny with stage := .closing } else s, .tooBig)
        else if ty.isNone && f.op = 0 then (s, .frag .unexpCont)
        else if ty.isSome && f.op ≠ 0 then (s, .frag .expCont)
        else if f.fin then (s, .deliverMsg (ty.getD f.op) data)
        else readMsg closedNow buf fuel s (some (ty.getD f.op)) data

/-- The RFC machine: effect of an event/call and what the call must return. -/
def advance (s : S) (closedNow : Bool) : Op → S × Want
  | .peer f => ({ s with inq := s.inq ++ [f] }, .nothing)
  | .eof => ({ s with eof := true }, .nothing)
  | .ioerr => ({ s with rerr := true }, .nothing)
  | .nextFrame _ => readFrame s
  | .nextMsg _ buf => readMsg closedNow buf (s.inq.length + 2) s none []
  | .write _ ty payload =>
    -- application writes are accepted only while open (and within the configured maximum)
    if s.stage = .opened && payload.length ≤ s.max
    then (s.push (.frame { fin := true, op := ty, masked := true, payload := payload }), .accepted)
    else (s, .refused)
  | .writeFrame _ fin op payload =>
    if s.stage = .opened
    then (s.push (.frame { fin := fin, op := op, masked := true, payload := payload }), .accepted)
    else (s, .refused)
  | .flush _ => (s, .accepted)
  | .close _ code reason =>
    if s.stage = .opened
    then ({ s.push (.frame { fin := true, op := 8, masked := true, payload := u16 code ++ reason }) with stage := .closing },
          .accepted)
    else (s, .refused)

def Err.isProto : Err → Bool
  | .proto _ => true
  | _ => false

/-- Does the return value meet the expectation? -/
def retOk : Want → Ret → Bool
  | .nothing, .none => true
  -- frame API
  | .eos, .frame e f => e == .eof && f.isNone
  | .abnormal, .frame e f =>
      e == .eof && (match f with | some g => g.op == 8 && g.fin && g.payload == u16 1006 | none => false)
  | .transport x, .frame e f => e == x && f.isNone
  | .over, .frame e f => e == .overMax && f.isNone
  | .violation _, .frame e _ => e.isProto          -- the frame value that accompanies an error is not data
  | .deliverFrame g, .frame e f => e == .nil && f == some g
  -- message API
  | .eos, .msg e _ _ _ clean _ => e == .eof && clean
  | .abnormal, .msg e _ _ _ clean _ => e == .eof && clean
  | .transport x, .msg e _ _ _ clean _ => e == x && clean
  | .over, .msg e _ _ _ clean _ => e == .overMax && clean
  | .violation before, .msg e _ n data clean _ => e.isProto && clean && n == data.length && data == before
  | .tooBig, .msg e _ _ _ clean _ => e == .tooBig && clean
  | .frag x, .msg e _ _ _ clean _ => e == x && clean
  | .deliverMsg ty d, .msg e t n data clean _ => e == .nil && t == ty && n == d.length && data == d && clean
  -- writes, flush, close
  | .accepted, .call e => e == .nil
  | .refused, .call e => e != .nil
  | _, _ => false

/-- `State()` reflects the stage reached. After the closing handshake a read that reports end-of-stream may also move
the client to `terminated` (the asynchronous read path does, the blocking one does not). -/
def stateOk (stage : Stage) (ended : Bool) (st : StreamState) : Bool :=
  match stage with
  | .opened => st == .active
  | .closing => st == .closedByUs
  | .peerClosed => st == .closedByPeer || (ended && st == .terminated)
  | .acked => st == .closeAcked || (ended && st == .terminated)
  | .aborted => st == .terminated

/-- The transport side: wire ++ pending is exactly what the client is obliged to have submitted, in order. -/
def postOk (s : S) (p : Post) : Bool :=
  stateOk s.stage s.ended p.state
  && s.seen + p.wire.length + p.pending == s.expect.length
  && matchAll (s.expect.drop s.seen) p.wire
  && discipline s.sentClose p.wire

def commit (s : S) (p : Post) : S :=
  { s with seen := s.seen + p.wire.length, sentClose := s.sentClose || p.wire.any OutFrame.isClose }

/-- One monitored step. `none` = the observation violates C08/C15. -/
def step (s : S) (op : Op) : Obs → Option S
  | .panic => none
  | .ok r p =>
    let (s', want) := advance s (p.state == .closedByUs) op
    if retOk want r && postOk s' p then some (commit s' p) else none

def accepts : S → List (Op × Obs) → Bool
  | _, [] => true
  | s, (op, ob) :: r => match step s op ob with
    | some s' => accepts s' r
    | none => false

/-- The monitor's state after a trace (`none` = rejected). -/
def exec : S → List (Op × Obs) → Option S
  | s, [] => some s
  | s, (op, ob) :: r => match step s op ob with
    | some s' => exec s' r
    | none => none

/-- Diagnosis for the driver: which clause rejected the observation (the key of a finding). -/
def explain (s : S) (op : Op) : Obs → String
  | .panic => "panic"
  | .ok r p =>
    let (s', want) := advance s (p.state == .closedByUs) op
    if !retOk want r then
      match want with
      | .violation _ => "violation-not-reported"
      | .frag _ => "fragmentation-not-reported"
      | .tooBig | .over => "too-big-not-rejected"
      | .eos => "read-after-close"
      | .abnormal => "abnormal-closure"
      | .refused => "write-not-refused"
      | .accepted => "call-failed"
      | .transport _ => "transport-error"
      | .deliverFrame _ | .deliverMsg _ _ => "delivery"
      | .nothing => "event"
    else if !stateOk s'.stage s'.ended p.state then "state"
    else if s'.seen + p.wire.length + p.pending > s'.expect.length then
      (if s'.stage != .opened then "frame-after-close" else "unsolicited-frame")
    else if s'.seen + p.wire.length + p.pending < s'.expect.length then "missing-frame"
    else if !matchAll (s'.expect.drop s'.seen) p.wire then "wrong-frame"
    else if !discipline s'.sentClose p.wire then "frame-after-close"
    else "ok"

end Sonic.Spec.WsStream
