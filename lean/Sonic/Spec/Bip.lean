/-
Abstract specification (property monitor) for C10: a BipBuffer is a FIFO of byte cells.

The monitor does not know the implementation's indices.  Its state is the queue of committed and
not yet consumed *cell positions* (oldest first) plus the outstanding claim.  It consumes one
operation together with what the implementation (or the model) answered and either accepts, moving
to the next state, or rejects.  Everything C10 states is one of the checks below.
-/
namespace Sonic.Spec.Bip

inductive Op where
  | claim (n : Int) | commit (n : Int) | head | consume (n : Int) | committed | reset
  deriving Repr, DecidableEq

/-- What a call returned, as seen through the API: a slice is `(offset, length)` relative to the
start of the buffer's memory (offset is reported as 0 for an empty / nil slice). -/
inductive Obs where
  | view (lo len : Int) | int (v : Int) | unit | panic
  deriving Repr, DecidableEq

structure S where
  size  : Int
  q     : List Int          -- committed, unconsumed cell positions, oldest first
  cLo   : Int               -- outstanding claim: cells [cLo, cLo + cLen)
  cLen  : Int
  deriving Repr, DecidableEq

def init (size : Int) : S := { size := size, q := [], cLo := 0, cLen := 0 }

/-- cells `[lo, lo+len)` in ascending order. -/
def cells (lo len : Int) : List Int := (List.range len.toNat).map (fun (i : Nat) => lo + (i : Int))

/-- Length of the maximal prefix of consecutive ascending positions: the first contiguous chunk run. -/
def runLen : List Int → Nat
  | [] => 0
  | [_] => 1
  | x :: y :: r => if y = x + 1 then 1 + runLen (y :: r) else 1

def imin (a b : Int) : Int := if a ≤ b then a else b

/-- A claim is a slice inside the buffer, no longer than asked, that shares no cell with queued
data; an empty buffer grants `min n size`. -/
def ClaimOk (s : S) (n lo len : Int) : Prop :=
  0 ≤ len ∧ len ≤ n ∧ (len = 0 ∨ (0 ≤ lo ∧ lo + len ≤ s.size))
    ∧ (∀ c ∈ s.q, ¬ (lo ≤ c ∧ c < lo + len))
    ∧ (s.q = [] → len = imin n s.size)
instance (s : S) (n lo len : Int) : Decidable (ClaimOk s n lo len) := by unfold ClaimOk; exact inferInstance

/-- Exactly the first `min n claimed` claimed cells are committed, as one chunk. -/
def CommitOk (s : S) (n lo len : Int) : Prop :=
  len = imin n s.cLen ∧ (imin n s.cLen = 0 ∨ lo = s.cLo)
instance (s : S) (n lo len : Int) : Decidable (CommitOk s n lo len) := by unfold CommitOk; exact inferInstance

/-- The head is the maximal contiguous run at the front of the queue, as one slice. -/
def HeadOk (s : S) (lo len : Int) : Prop :=
  len = (runLen s.q : Int) ∧ (len = 0 ∨ some lo = s.q.head?)
instance (s : S) (lo len : Int) : Decidable (HeadOk s lo len) := by unfold HeadOk; exact inferInstance

/-- One monitored step. `none` = the observation violates C10. -/
def step (s : S) : Op → Obs → Option S
  | .claim n, .view lo len =>
      if ClaimOk s n lo len then some { s with cLo := lo, cLen := len } else none
  | .commit n, .view lo len =>
      if CommitOk s n lo len
      then some { s with q := s.q ++ cells s.cLo (imin n s.cLen), cLo := 0, cLen := 0 } else none
  | .head, .view lo len => if HeadOk s lo len then some s else none
  | .consume n, .unit =>
      -- consuming frees the oldest cells: min(n, |Head|) of them (n ≥ 0)
      some { s with q := s.q.drop (imin n (runLen s.q)).toNat }
  | .committed, .int v => if v = (s.q.length : Int) then some s else none
  | .reset, .unit => some { s with q := [], cLo := 0, cLen := 0 }
  | _, _ => none

/-- Run the monitor over a trace. -/
def accepts : S → List (Op × Obs) → Bool
  | _, [] => true
  | s, (op, ob) :: r => match step s op ob with
      | some s' => accepts s' r
      | none => false

end Sonic.Spec.Bip
