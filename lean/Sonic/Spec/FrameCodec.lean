/-
Abstract specification (property monitor) for C19: a `CodecConn` with the length-prefixed frame codec
carries a sequence of payloads, each as `len32be ++ payload`, independently of how the transport cuts
the byte stream.

The monitor knows nothing about buffers, indices or the decoder's state machine.  Its state is

* `inb`  — the concatenation of every byte the transport has been given for reading, minus the frames
           already returned as items (a pure parser, `front`, says what the next call may return);
* `owed` — the bytes of the frames of all items accepted by `WriteNext/AsyncWriteNext` that the raw
           peer has not received yet.

It consumes one operation together with what the implementation (or the model) answered and either
accepts, moving to the next state, or rejects.  Everything C19 states is one of the checks below.
-/
namespace Sonic.Spec.FrameCodec

abbrev Bytes := List UInt8

/-- Big-endian 32-bit length prefix (of `n mod 2^32`). -/
def be32 (n : Nat) : Bytes :=
  [UInt8.ofNat (n / 16777216 % 256), UInt8.ofNat (n / 65536 % 256), UInt8.ofNat (n / 256 % 256), UInt8.ofNat (n % 256)]

def len32 (a b c d : UInt8) : Nat := a.toNat * 16777216 + b.toNat * 65536 + c.toNat * 256 + d.toNat

/-- Wire form of one payload. -/
def frame (p : Bytes) : Bytes := be32 p.length ++ p

/-- Wire form of a payload sequence. -/
def wire : List Bytes → Bytes
  | [] => []
  | p :: ps => frame p ++ wire ps

/-- What the front of an unparsed byte string is. -/
inductive Front where
  | item (p rest : Bytes)      -- a complete frame with payload `p`, followed by `rest`
  | incomplete                 -- fewer than 4 prefix bytes, or fewer payload bytes than declared
  | tooBig                     -- the prefix declares more than the limit
  deriving Repr, DecidableEq

/-- The pure parser: depends only on the bytes, never on how they arrived. -/
def front (limit : Nat) : Bytes → Front
  | a :: b :: c :: d :: r =>
      if len32 a b c d > limit then .tooBig
      else if len32 a b c d ≤ r.length then .item (r.take (len32 a b c d)) (r.drop (len32 a b c d))
      else .incomplete
  | _ => .incomplete

/-- All complete frames at the front of a byte string (stops at an incomplete or over-limit prefix).
`fuel` only bounds the recursion; `b.length + 1` always suffices. -/
def parseAll (limit : Nat) : Nat → Bytes → List Bytes
  | 0, _ => []
  | f + 1, b => match front limit b with
      | .item p rest => p :: parseAll limit f rest
      | _ => []

inductive Err where
  | nil | eof | wouldblock | toobig | needmore | cancelled | other
  deriving Repr, DecidableEq

inductive Op where
  | feed (b : Bytes)            -- the transport receives one more segment
  | eof                         -- the peer closed its sending side
  | plan (ks : List Nat)        -- the next transport writes accept k bytes each (0 = would block)
  | defer (on : Bool)           -- asynchronous transport writes complete at the next pump only
  | read | aread                -- ReadNext / AsyncReadNext
  | write (p : Bytes) | awrite (p : Bytes)   -- WriteNext / AsyncWriteNext
  | pump                        -- the transport completes what it can
  deriving Repr, DecidableEq

/-- Outcome of a read-side call. -/
inductive RStat where
  | item (p : Bytes) | err (e : Err) | pending | none | busy | panic | stuck
  deriving Repr, DecidableEq

structure RObs where
  stat : RStat
  cap  : Nat     -- capacity of the source buffer after the call (`Cap()`)
  rlen : Nat     -- `ReadLen()` of the source buffer
  wlen : Nat     -- `WriteLen()` of the source buffer
  deriving Repr, DecidableEq

inductive WStat where
  | done | pending | none | busy | panic
  deriving Repr, DecidableEq

structure WObs where
  stat : WStat
  n    : Nat     -- byte count reported by the call / its callback
  err  : Err
  out  : Bytes   -- bytes the raw peer received during this operation
  rlen : Nat     -- `ReadLen()` of the destination buffer afterwards
  wlen : Nat     -- `WriteLen()` of the destination buffer afterwards
  deriving Repr, DecidableEq

inductive Obs where
  | ok | r (o : RObs) | w (o : WObs) | wr (w : WObs) (r : RObs)
  deriving Repr, DecidableEq

structure S where
  limit    : Nat
  inb      : Bytes := []
  eof      : Bool := false
  rejected : Bool := false       -- an over-limit prefix has been reported
  rpend    : Bool := false       -- an AsyncReadNext has not completed yet
  cap      : Nat                 -- capacity of the source buffer as last observed
  owed     : Bytes := []
  wpend    : Option Nat := none  -- an AsyncWriteNext has not completed: the byte count it has to report
  deriving Repr, DecidableEq

def init (limit cap : Nat) : S := { limit := limit, cap := cap }

/-- No complete item is being withheld: the unparsed input is an incomplete frame (or the stream was
already rejected). -/
def Starved (s : S) : Prop := s.rejected = true ∨ front s.limit s.inb = .incomplete
instance (s : S) : Decidable (Starved s) := by unfold Starved; exact inferInstance

/-- A read-side call that was actually made (not `busy`) ends in one of these ways.
`mayPend` = the call is asynchronous. -/
def readDone (s : S) (mayPend : Bool) (o : RObs) : Option S :=
  match o.stat with
  | .item p =>
      -- exactly the next payload of the concatenated input, byte-identical, one per call
      match front s.limit s.inb with
      | .item p' rest =>
          if s.rejected = false ∧ p = p' then some { s with inb := rest, rpend := false, cap := o.cap } else none
      | _ => none
  | .err .toobig =>
      -- rejected, and before any buffering: the capacity of the source buffer has not moved
      if (s.rejected = true ∨ front s.limit s.inb = .tooBig) ∧ o.cap = s.cap
      then some { s with rejected := true, rpend := false } else none
  | .err .eof =>
      if s.eof = true ∧ Starved s then some { s with rpend := false, cap := o.cap } else none
  | .err .wouldblock =>
      if mayPend = false ∧ Starved s then some { s with cap := o.cap } else none
  | .pending =>
      if mayPend = true ∧ Starved s then some { s with rpend := true, cap := o.cap } else none
  | _ => none     -- panic, stuck, any other error: never

/-- A write-side completion (`done`) for bytes `exp` that had to reach the peer. -/
def writeDone (s : S) (exp : Bytes) (report : Nat) (o : WObs) : Option S :=
  -- the peer received a prefix of what was owed, in order; on success all of it, nothing stays behind
  if o.out.isPrefixOf exp = true ∧ o.n = report ∧
     (o.err = .nil ∨ o.err = .wouldblock) ∧
     (o.err = .nil → o.out = exp ∧ o.rlen = 0 ∧ o.wlen = 0)
  then some { s with owed := exp.drop o.out.length, wpend := none } else none

/-- `pump`, write side: a pending AsyncWriteNext progresses or completes. -/
def onPumpWrite (s : S) (w : WObs) : Option S :=
  match w.stat, s.wpend with
  | .none, none => if w.out = [] then some s else none
  | .pending, some _ =>
      if w.out.isPrefixOf s.owed = true then some { s with owed := s.owed.drop w.out.length } else none
  | .done, some total => if w.err = .nil then writeDone s s.owed total w else none
  | _, _ => none

/-- `pump`, read side: a pending AsyncReadNext completes, stays pending, or there is none. -/
def onPumpRead (s : S) (r : RObs) : Option S :=
  match r.stat with
  | .none => if s.rpend then none else some s
  | _ => if s.rpend then readDone s true r else none

/-- One monitored step. `none` = the observation violates C19. -/
def step (s : S) : Op → Obs → Option S
  | .feed b, .ok => some { s with inb := s.inb ++ b }
  | .eof, .ok => some { s with eof := true }
  | .plan _, .ok => some s
  | .defer _, .ok => some s
  | .read, .r o =>
      if o.stat = .busy then (if s.rpend then some s else none) else
      if s.rpend then none else readDone s false o
  | .aread, .r o =>
      if o.stat = .busy then (if s.rpend then some s else none) else
      if s.rpend then none else readDone s true o
  | .write p, .w o =>
      match o.stat with
      | .busy => if s.wpend.isSome then some s else none
      | .done =>
          if s.wpend.isSome then none else
          if p.length > s.limit then
            (if o.err = .toobig ∧ o.n = 0 ∧ o.out = [] then some s else none)
          else writeDone s (s.owed ++ frame p) o.out.length o
      | _ => none
  | .awrite p, .w o =>
      match o.stat with
      | .busy => if s.wpend.isSome then some s else none
      | .done =>
          if s.wpend.isSome then none else
          if p.length > s.limit then
            (if o.err = .toobig ∧ o.n = 0 ∧ o.out = [] then some s else none)
          else if o.err = .nil then writeDone s (s.owed ++ frame p) (s.owed ++ frame p).length o else none
      | .pending =>
          if s.wpend.isSome ∨ p.length > s.limit then none else
          if o.out.isPrefixOf (s.owed ++ frame p) = true
          then some { s with owed := (s.owed ++ frame p).drop o.out.length, wpend := some (s.owed ++ frame p).length }
          else none
      | _ => none
  | .pump, .wr w r => (onPumpWrite s w).bind (onPumpRead · r)
  | _, _ => none

/-- What `n` successive blocking reads of a byte string must return, by the pure parser alone. -/
def specReads (limit : Nat) (eof : Bool) : Nat → Bytes → List RStat
  | 0, _ => []
  | n + 1, u => match front limit u with
      | .item p rest => .item p :: specReads limit eof n rest
      | .tooBig => .err .toobig :: specReads limit eof n u
      | .incomplete => (if eof then .err .eof else .err .wouldblock) :: specReads limit eof n u

/-- Run the monitor over a trace. -/
def accepts : S → List (Op × Obs) → Bool
  | _, [] => true
  | s, (op, ob) :: r => match step s op ob with
      | some s' => accepts s' r
      | none => false

end Sonic.Spec.FrameCodec
