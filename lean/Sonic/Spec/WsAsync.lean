/-
Abstract specification (property monitor) for C17: asynchronous reads and writes of one WebSocket stream that are in
flight together each complete exactly once, and what reaches the wire is the sequence of submitted frames.

The monitor sees only what an application and the raw peer can see: API calls being made and returning, completion
callbacks being entered and left (with their result and `State()`), the control callback, the frames the peer sent,
and the frames an independent RFC 6455 parser recovered from the bytes the peer received. Its state is

* a *ledger* of callback ids (started / done),
* `expect`: the frames the client is obliged to put on the wire, in submission order, not yet seen there
  (application frames in the order of the write calls; a Pong / Close reply at the point where the read path handed
  the Ping / Close to the application, i.e. after the frames queued before it was read),
* `inq`: the frames the peer has sent that no read has delivered yet.

`healthy` is cleared when the transport itself reports a failure (`transportErr`, what the `io.ReadWriter` under the
adapter returned) or a callback completes with a transport error; from then on completions may carry errors and the
wire is no longer compared (the property is stated for a healthy transport), the ledger still is.

It knows nothing of pendingFrames, flush owners, waiters or reactors.
-/
import Sonic.Spec.WsStream

namespace Sonic.Spec.WsAsync
open Sonic.Spec.WsStream (Bytes InFrame StreamState replyCode isViolation u16 controlOp)

/-! ## Vocabulary -/

/-- Result classes of a completion callback. -/
inductive Res where
  | ok | cancelled | eof | tooBig
  | proto      -- a framing / fragmentation rule was violated by the peer
  | err        -- anything else (transport errors)
  deriving Repr, DecidableEq, Inhabited

inductive Kind where
  | read | readMsg | write | writeFrame | flush | close
  deriving Repr, DecidableEq, Inhabited

def Kind.isRead : Kind → Bool
  | .read | .readMsg => true
  | _ => false

/-- A frame recovered from the bytes the peer received; the payload (unmasked) is summarised by its length, its
FNV-1a hash and its first bytes. -/
structure WireFrame where
  fin : Bool
  rsv : Nat
  op : Nat
  masked : Bool
  len : Nat
  hash : UInt64
  head : Bytes
  deriving Repr, DecidableEq, Inhabited

/-- Payload of the frame written for callback id `id`: byte `j` is `(11 j + 17 id + 3) mod 251`. -/
def patByte (id j : Nat) : UInt8 := UInt8.ofNat ((j * 11 + id * 17 + 3) % 251)
def pattern (id n : Nat) : Bytes := (List.range n).map (patByte id)

def fnv (b : Bytes) : UInt64 := b.foldl (fun h x => (h ^^^ x.toUInt64) * 1099511628211) 14695981039346656037

/-- A frame the client must put on the wire. -/
inductive Want where
  | exact (fin : Bool) (op : Nat) (payload : Bytes)   -- exactly this frame, masked, no reserved bits
  | closeCode (code : Nat)                             -- a Close frame carrying this status code
  deriving Repr, DecidableEq

def Want.matches : Want → WireFrame → Bool
  | .exact fin op p, g => g.fin == fin && g.op == op && g.masked && g.rsv == 0 && g.len == p.length && g.hash == fnv p
  | .closeCode c, g => g.fin && g.op == 8 && g.masked && g.rsv == 0 && g.len ≥ 2 && g.len ≤ 125 && g.head.take 2 == u16 c

inductive Ev where
  | callRead (cb : Nat)
  | callReadMsg (cb : Nat) (room : Nat)
  | callWrite (cb : Nat) (ty : Nat) (len : Nat)
  | callWriteFrame (cb : Nat) (fin : Bool) (op : Nat) (len : Nat)
  | callFlush (cb : Nat)
  | callClose (cb : Nat) (code : Nat) (reason : Bytes)
  | callPoll
  | ret (st : StreamState)
  | enter (cb : Nat) (res : Res) (frame : Option InFrame) (data : Option Bytes) (st : StreamState)
  | exit (cb : Nat)
  | ctl (op : Nat) (payload : Bytes) (st : StreamState)
  | peer (f : InFrame)
  | peerEof
  | wire (frames : List WireFrame)
  | transportErr                      -- the transport under the adapter reported an error to a read(2) / write(2)
  | finish (partialBytes : Nat) (healthy : Bool)
  | skip
  deriving Repr, DecidableEq

structure Cb where
  id : Nat
  kind : Kind
  done : Bool := false
  returned : Bool := false     -- the call that started it has returned: a completion from now on is deferred
  deriving Repr, DecidableEq, Inhabited

inductive Frame where
  | call (cb : Option Nat)
  | handler (cb : Nat)
  deriving Repr, DecidableEq

structure S where
  max : Nat                          -- configured maximum message size
  cbs : List Cb := []
  stack : List Frame := []
  expect : List Want := []
  inq : List InFrame := []
  macc : Bytes := []                 -- payload of the fragments the message read in flight has consumed so far
  synced : Bool := true              -- read results can still be compared with the peer's stream
  last : StreamState := .active      -- `State()` as last observed
  healthy : Bool := true
  deriving Repr

abbrev M := Except String

def findCb (s : S) (id : Nat) : Option Cb := s.cbs.find? (·.id == id)
def setCb (s : S) (c : Cb) : S := { s with cbs := c :: s.cbs.filter (·.id != c.id) }
def S.push (s : S) (w : Want) : S := { s with expect := s.expect ++ [w] }

def start (s : S) (cb : Nat) (k : Kind) : M S :=
  if (findCb s cb).isSome then .error "callback-id-reused"
  else .ok { (setCb s { id := cb, kind := k }) with stack := .call (some cb) :: s.stack }

/-- Consume the data fragments at the head of `inq` up to (excluding) the first control frame or (including) the
first final fragment; returns the gathered payload and whether a final fragment was consumed. -/
def takeData : Nat → List InFrame → Bytes → Bytes × Bool × List InFrame
  | 0, q, acc => (acc, false, q)
  | _, [], acc => (acc, false, [])
  | n + 1, f :: r, acc =>
    if controlOp f.op then (acc, false, f :: r)
    else if f.fin then (acc ++ f.payload, true, r)
    else takeData n r (acc ++ f.payload)

/-- The reply the read path owes for a delivered frame `f` (state before the delivery = `last`). -/
def replyFor (last : StreamState) (f : InFrame) : Option Want :=
  if isViolation f || last != .active then none
  else if f.op == 9 then some (.exact true 10 f.payload)
  else if f.op == 8 then some (.closeCode (replyCode f.payload))
  else none

def pushReply (s : S) (f : InFrame) : S :=
  match replyFor s.last f with
  | some w => s.push w
  | none => s

/-- Replies owed because a read failed: Close(1002) after a violation, Close(1001) after an oversized message. -/
def pushFailure (s : S) (res : Res) (st : StreamState) : S :=
  if s.last == .active && st == .closedByUs then
    if res == .proto then s.push (.closeCode 1002)
    else if res == .tooBig then s.push (.closeCode 1001)
    else s
  else s

/-- What the completion of a frame read delivered, against the peer's stream. -/
def deliverFrame (s : S) (res : Res) (frame : Option InFrame) : M S :=
  if !s.synced then .ok s else
  match frame with
  | some f =>
    if res == .ok || (res == .proto && isViolation f) then
      match s.inq with
      | g :: r => if f == g then .ok { s with inq := r } else .error "read-result-differs-from-peer-stream"
      | [] => .error "read-result-differs-from-peer-stream"
    else .ok { s with synced := s.synced && res == .eof }
  | none => .ok { s with synced := s.synced && (res == .eof || res == .cancelled) }

def deliverMsg (s : S) (res : Res) (data : Bytes) : M S :=
  if !s.synced then .ok s else
  if res == .ok then
    let (acc, fin, rest) := takeData (s.inq.length + 1) s.inq s.macc
    if fin && acc == data then .ok { s with inq := rest, macc := [] }
    else .error "read-result-differs-from-peer-stream"
  else .ok { s with synced := s.synced && (res == .eof || res == .cancelled), macc := [] }

def deliverCtl (s : S) (op : Nat) (payload : Bytes) : M S :=
  if !s.synced then .ok s else
  let (acc, _, rest) := takeData (s.inq.length + 1) s.inq s.macc
  match rest with
  | g :: r =>
    if controlOp g.op && g.op == op && g.payload == payload then .ok { s with inq := r, macc := acc }
    else .error "read-result-differs-from-peer-stream"
  | [] => .error "read-result-differs-from-peer-stream"

def matchWire : List Want → List WireFrame → M (List Want)
  | ws, [] => .ok ws
  | [], _ :: _ => .error "wire-frame-nobody-submitted"
  | w :: ws, g :: gs =>
    if w.matches g then matchWire ws gs
    else if g.rsv != 0 || !g.masked then .error "wire-frame-malformed"
    else .error "wire-frame-out-of-order-or-altered"

def step (s : S) : Ev → M S
  | .callRead cb => start s cb .read
  | .callReadMsg cb _ => start s cb .readMsg
  | .callWrite cb ty len => do
      let s' ← start s cb .write
      -- an application frame is submitted by the call itself, if the stream accepts writes
      pure (if s.last == .active && len ≤ s.max then s'.push (.exact true ty (pattern cb len)) else s')
  | .callWriteFrame cb fin op len => do
      let s' ← start s cb .writeFrame
      pure (if s.last == .active then s'.push (.exact fin op (pattern cb len)) else s')
  | .callFlush cb => start s cb .flush
  | .callClose cb code reason => do
      let s' ← start s cb .close
      pure (if s.last == .active then s'.push (.exact true 8 (u16 code ++ reason)) else s')
  | .callPoll => .ok { s with stack := .call none :: s.stack }
  | .ret st =>
      match s.stack with
      | .call (some cb) :: r =>
        let s := { s with stack := r, last := st }
        match findCb s cb with
        | some c => .ok (setCb s { c with returned := true })
        | none => .ok s
      | .call none :: r => .ok { s with stack := r, last := st }
      | _ => .error "return-without-call"
  | .enter cb res frame data st =>
      match findCb s cb with
      | none => .error "callback-of-unknown-call"
      | some c =>
        if c.done then .error "callback-twice"
        else if !c.kind.isRead && c.returned && res != .ok && s.healthy then .error "write-completed-with-error-on-healthy-transport"
        else if !c.kind.isRead && !c.returned && (res == .cancelled || res == .eof) && s.last == .active then
          .error "write-rejected-although-active"
        else do
          let s1 ← match c.kind, data with
            | .readMsg, some d => deliverMsg s res d
            | .readMsg, none => deliverMsg s res []
            | _, _ => if c.kind == .read then deliverFrame s res frame else pure s
          let s2 := match frame with
            | some f => if c.kind == .read && res == .ok then pushReply s1 f else s1
            | none => s1
          let s3 := if c.kind.isRead then pushFailure s2 res st else s2
          pure { (setCb s3 { c with done := true }) with stack := .handler cb :: s3.stack, last := st,
                                                           healthy := s3.healthy && res != .err }
  | .exit cb =>
      match s.stack with
      | .handler h :: r => if h == cb then .ok { s with stack := r } else .error "handler-nesting-broken"
      | _ => .error "handler-nesting-broken"
  | .ctl op payload st => do
      let s1 ← deliverCtl s op payload
      let s2 := pushReply s1 { fin := true, rsv := 0, op := op, masked := false, payload := payload }
      pure { s2 with last := st }
  | .peer f => .ok { s with inq := s.inq ++ [f] }
  | .peerEof => .ok s
  | .wire frames =>
      -- the order on the wire is promised while the transport is healthy (a failed write loses its frame)
      if !s.healthy then .ok s else do
      let rest ← matchWire s.expect frames
      pure { s with expect := rest }
  | .transportErr => .ok { s with healthy := false }
  | .finish partialBytes healthy =>
      if !(healthy && s.healthy) then .ok s
      else if s.cbs.any (fun c => !c.done) then .error "callback-never-invoked"
      else if partialBytes != 0 then .error "wire-bytes-that-form-no-frame"
      else if !s.expect.isEmpty then .error "wire-frame-missing"
      else .ok s
  | .skip => .ok s

def run (s : S) : List Ev → M S
  | [] => .ok s
  | e :: r => match step s e with
    | .ok s' => run s' r
    | .error k => .error k

def accepts (max : Nat) (evs : List Ev) : Bool := match run { max := max } evs with | .ok _ => true | .error _ => false

end Sonic.Spec.WsAsync
