/-
Property monitor for single transfers (C02), in the terms of the property text only: a FIFO byte stream the peer
wrote, read operations with a caller buffer of `len` bytes, write operations with a caller buffer `b`.
An observation is what the completion callback was given (result class, count) plus what the harness can see:
`b[:n]` after a read and whether `b[n:]` was left alone; the bytes the transport accepted during a write.
-/
namespace Sonic.Spec.Xfer

inductive Res where
  | ok | eof | err
  deriving Repr, DecidableEq

inductive Op where
  | read (len : Nat) (all : Bool)
  | write (b : List UInt8) (all : Bool)
  deriving Repr, DecidableEq

inductive Obs where
  | read (res : Res) (n : Nat) (buf : List UInt8) (clean : Bool)
  | write (res : Res) (n : Nat) (wire : List UInt8)
  deriving Repr, DecidableEq

/-- Monitor state: what is left of the stream the peer wrote (oldest byte first), and everything the transport
accepted from writes so far. -/
structure S where
  stream : List UInt8
  wire : List UInt8 := []
  deriving Repr, DecidableEq

/-- What the property says about the count and the result class. -/
def countOk (res : Res) (n len : Nat) (all : Bool) : Bool :=
  decide (n ≤ len) && (res != .ok || (decide (1 ≤ n) && (!all || n == len)))

/-- `none` = the observation violates the property. -/
def step (s : S) : Op → Obs → Option S
  | .read len all, .read res n buf clean =>
    if buf = s.stream.take n ∧ buf.length = n ∧ clean = true ∧ countOk res n len all = true
    then some { s with stream := s.stream.drop n } else none
  | .write b all, .write res n wire =>
    if wire = b.take n ∧ countOk res n b.length all = true
    then some { s with wire := s.wire ++ wire } else none
  | _, _ => none

end Sonic.Spec.Xfer
