/-
Executable model of `sonic.CodecConn[[]byte, []byte]` (codec.go) with `codec/frame.Codec`
(codec/frame/frame.go) over the `ByteBuffer` methods they use (byte_buffer.go) and a scripted transport.

Mirrors the Go code function by function.  Conventions:

* `BB` is the part of `ByteBuffer` the codec touches.  The codec never calls `Save`, so the save area is
  empty (`si = 0`) throughout and is not represented; `data` is `b.data[0:wi]` (so `wi = data.length`),
  `ri` the end of the read area, `cap` the capacity.  All quantities are lengths of byte slices or a
  32-bit prefix plus 4, far below 2^63, so Go's `int` arithmetic is exact and `Nat` is used
  (`n <= 0` tests of the Go code become `n = 0`).
* The capacity `append` chooses when `Reserve` grows a buffer is not predicted: `reserve` takes the
  surplus (`slack`) over the required capacity as an argument; theorems quantify over all values, the
  trace acceptor reads it off the implementation's trace.
* `frame.Codec` keeps its own pointer to the source buffer (`c.src`, used by `resetDecode`) next to
  the `src` argument of `Decode`; a `CodecConn` is wired with the same buffer for both, as the model is.
-/
import Sonic.Spec.FrameCodec

namespace Sonic.Model.FrameCodec
open Sonic.Spec.FrameCodec

/-- `frame.HeaderLen` -/
def headerLen : Nat := 4
/-- `frame.MaxPayloadLength` -/
def maxPayloadLength : Nat := 1073741824
/-- capacity of `NewByteBuffer()` -/
def initialCap : Nat := 512

/-! ## ByteBuffer (byte_buffer.go), restricted to `si = 0` -/

structure BB where
  data : Bytes
  ri   : Nat
  cap  : Nat
  deriving Repr, DecidableEq

namespace BB

def new : BB := { data := [], ri := 0, cap := initialCap }

def readLen (b : BB) : Nat := b.ri
def writeLen (b : BB) : Nat := b.data.length - b.ri

/-- `Data()` = `b.data[si:ri]` -/
def view (b : BB) : Bytes := b.data.take b.ri

/-- `Reserve(n)`: `existing := cap - wi; if n > existing { grow by need = n - existing (at least) }`. -/
def reserve (b : BB) (n slack : Nat) : BB :=
  if n > b.cap - b.data.length then { b with cap := b.cap + (n - (b.cap - b.data.length)) + slack } else b

/-- `Commit(n)` -/
def commit (b : BB) (n : Nat) : BB :=
  if n = 0 then b else { b with ri := b.ri + min n b.writeLen }

/-- `Consume(n)`: clamp to the read area, move the rest down, shrink. -/
def consume (b : BB) (n : Nat) : BB :=
  if n = 0 then b else
  if min n b.readLen > 0 then { b with data := b.data.drop (min n b.readLen), ri := b.ri - min n b.readLen } else b

/-- `PrepareRead(n)`; `true` = `ErrNeedMore`. -/
def prepareRead (b : BB) (n : Nat) : BB × Bool :=
  if n > b.readLen then
    (if b.writeLen ≥ n - b.readLen then (b.commit (n - b.readLen), false) else (b, true))
  else (b, false)

/-- Bytes appended at `wi` (`ReadFrom` after a successful transport read, `Claim` after `fn`). -/
def append (b : BB) (x : Bytes) : BB := { b with data := b.data ++ x }

end BB

/-! ## frame.Codec -/

structure Dec where
  decodeReset : Bool := false
  decodeBytes : Nat := 0
  deriving Repr, DecidableEq

inductive DecRes where
  | item (p : Bytes) | needMore | tooBig | panic
  deriving Repr, DecidableEq

/-- `resetDecode` -/
def resetDecode (d : Dec) (b : BB) : Dec × BB :=
  if d.decodeReset then ({ decodeReset := false, decodeBytes := 0 }, b.consume d.decodeBytes) else (d, b)

/-- `Decode(src)` after `c.resetDecode()`. `slack` is only used if `Reserve` has to grow the buffer. -/
def decodeBody (limit slack : Nat) (d : Dec) (b : BB) : Dec × BB × DecRes :=
  -- if err := src.PrepareRead(HeaderLen); err != nil { return nil, err }
  if (b.prepareRead headerLen).2 then (d, (b.prepareRead headerLen).1, .needMore) else
  -- binary.BigEndian.Uint32(src.Data()[:HeaderLen])
  match (b.prepareRead headerLen).1.view with
  | a0 :: a1 :: a2 :: a3 :: _ =>
    if len32 a0 a1 a2 a3 > limit then (d, (b.prepareRead headerLen).1, .tooBig) else
    -- err := src.PrepareRead(HeaderLen + int(payloadLen)); on ErrNeedMore: src.Reserve(HeaderLen + int(payloadLen))
    if ((b.prepareRead headerLen).1.prepareRead (headerLen + len32 a0 a1 a2 a3)).2 then
      (d, (((b.prepareRead headerLen).1.prepareRead (headerLen + len32 a0 a1 a2 a3)).1).reserve (headerLen + len32 a0 a1 a2 a3) slack, .needMore)
    else
      -- src.Consume(HeaderLen); c.decodeReset = true; c.decodeBytes = int(payloadLen); return src.Data()[:payloadLen]
      let b2 := (((b.prepareRead headerLen).1.prepareRead (headerLen + len32 a0 a1 a2 a3)).1).consume headerLen
      let d2 : Dec := { decodeReset := true, decodeBytes := len32 a0 a1 a2 a3 }
      if len32 a0 a1 a2 a3 ≤ b2.view.length then (d2, b2, .item (b2.view.take (len32 a0 a1 a2 a3))) else (d2, b2, .panic)
  | _ => (d, (b.prepareRead headerLen).1, .panic)    -- slice bounds out of range

/-- `Decode(src)` -/
def decode (limit slack : Nat) (d : Dec) (b : BB) : Dec × BB × DecRes :=
  decodeBody limit slack (resetDecode d b).1 (resetDecode d b).2

inductive EncRes where
  | ok | tooBig | panic
  deriving Repr, DecidableEq

/-- `Encode(frame, dst)`: `Reserve`, then `Claim` with a callback writing prefix and payload into the spare
capacity `data[wi:cap]`. -/
def encode (limit slack : Nat) (b : BB) (p : Bytes) : BB × EncRes :=
  if p.length > limit then (b, .tooBig) else
  let b := b.reserve (headerLen + p.length) slack
  let room := b.cap - b.data.length
  -- PutUint32(into[:HeaderLen], …) panics if the claimed slice is shorter than the header
  if room < headerLen then (b, .panic) else
  -- Claim: the write area grows by n only if 0 ≤ n ≤ room
  if headerLen + p.length ≤ room then (b.append (be32 p.length ++ p), .ok) else (b, .ok)

/-! ## scripted transport (harness/memstream.go behind the `codecStream` wrapper) -/

structure Tr where
  inq    : List Bytes := []   -- queued segments, each non-empty
  eof    : Bool := false
  plan   : List Nat := []
  deferW : Bool := false
  deriving Repr, DecidableEq

inductive TrRes where
  | got (x : Bytes) | eof | block
  deriving Repr, DecidableEq

/-- One transport read into a buffer of `avail` bytes: at most one segment, truncated to the buffer. -/
def Tr.read (t : Tr) (avail : Nat) : Tr × TrRes :=
  match t.inq with
  | ch :: rest =>
      if min avail ch.length = ch.length then ({ t with inq := rest }, .got ch)
      else ({ t with inq := ch.drop (min avail ch.length) :: rest }, .got (ch.take (min avail ch.length)))
  | [] => if t.eof then (t, .eof) else (t, .block)

def Tr.feed (t : Tr) (b : Bytes) : Tr := if b = [] then t else { t with inq := t.inq ++ [b] }

/-- `ByteBuffer.WriteTo` over blocking transport writes: loops while something is left; a plan entry `k > 0`
accepts `min k len` bytes, `0` = `ErrWouldBlock`, no plan = everything.  Returns bytes written, error, plan left. -/
def writeLoop : List Nat → Bytes → Nat → Nat × Err × List Nat
  | plan, [], acc => (acc, .nil, plan)
  | [], rest, acc => (acc + rest.length, .nil, [])
  | k :: plan, rest, acc =>
      if k = 0 then (acc, .wouldblock, plan)
      else writeLoop plan (rest.drop (min k rest.length)) (acc + min k rest.length)

/-- `memStream.pumpWrite` for an `AsyncWriteAll`: `some total` = completed, `none` = still pending.
Returns also the bytes accepted so far and the plan left. -/
def pumpLoop : List Nat → Bytes → Nat → Option Nat × Nat × List Nat
  | [], rest, done => (some (done + rest.length), done + rest.length, [])
  | k :: plan, rest, done =>
      if rest.drop (min k rest.length) = [] then (some (done + min k rest.length), done + min k rest.length, plan)
      else if min k rest.length = 0 then (none, done, plan)
      else pumpLoop plan (rest.drop (min k rest.length)) (done + min k rest.length)

/-! ## CodecConn -/

structure PW where
  buf  : Bytes     -- the slice `dst.data[si:ri]` handed to AsyncWriteAll
  done : Nat       -- bytes of it the transport has accepted
  deriving Repr, DecidableEq

structure Conn where
  src   : BB := BB.new
  dec   : Dec := {}
  dst   : BB := BB.new
  tr    : Tr := {}
  rpend : Bool := false          -- an asynchronous transport read (issued by AsyncReadNext) is pending
  wpend : Option PW := none      -- an AsyncWriteAll (issued by AsyncWriteNext) is pending
  deriving Repr, DecidableEq

def Conn.new : Conn := {}

/-- Result of one turn of the `ReadNext` / `AsyncReadNext` loop. -/
inductive Turn where
  | done (s : RStat)     -- the call returns / the callback is invoked
  | again                -- a transport read delivered bytes: decode again
  deriving Repr, DecidableEq

/-- The transport read issued after `ErrNeedMore` (`src.ReadFrom` / `src.AsyncReadFrom`), or its
completion by `pump`: buffer `data[wi:cap]`. -/
def transportRead (async : Bool) (c : Conn) : Conn × Turn :=
  match c.tr.read (c.src.cap - c.src.data.length) with
  | (t, .got x) => ({ c with tr := t, src := c.src.append x, rpend := false }, .again)
  | (t, .eof) => ({ c with tr := t, rpend := false }, .done (.err .eof))
  | (t, .block) =>
      if async then ({ c with tr := t, rpend := true }, .done .pending)
      else ({ c with tr := t }, .done (.err .wouldblock))

/-- One turn: `Decode`; on `ErrNeedMore` one transport read. -/
def readTurn (limit slack : Nat) (async : Bool) (c : Conn) : Conn × Turn :=
  match decode limit slack c.dec c.src with
  | (d, b, .item p) => ({ c with dec := d, src := b }, .done (.item p))
  | (d, b, .tooBig) => ({ c with dec := d, src := b }, .done (.err .toobig))
  | (d, b, .panic) => ({ c with dec := d, src := b }, .done .panic)
  | (d, b, .needMore) => transportRead async { c with dec := d, src := b }

/-- `ReadNext` (`async = false`) / `AsyncReadNext` (`async = true`): turns until the call ends.  `env` gives the
capacity surplus for each turn.  Running out of fuel is the endless loop a zero-length read buffer would cause
(`stuck`); `C19_total` shows it cannot happen. -/
def readLoop (limit : Nat) (async : Bool) : Nat → List Nat → Conn → Conn × RStat
  | 0, _, c => (c, .stuck)
  | fuel + 1, env, c =>
      match readTurn limit (env.headD 0) async c with
      | (c', .done s) => (c', s)
      | (c', .again) => readLoop limit async fuel env.tail c'

/-- Turns needed at most: every turn that continues moves at least one queued byte. -/
def fuelFor (c : Conn) : Nat := (c.tr.inq.map List.length).sum + 1

def robs (c : Conn) (s : RStat) : RObs := { stat := s, cap := c.src.cap, rlen := c.src.readLen, wlen := c.src.writeLen }
def wobs (c : Conn) (s : WStat) (n : Nat) (e : Err) (out : Bytes) : WObs :=
  { stat := s, n := n, err := e, out := out, rlen := c.dst.readLen, wlen := c.dst.writeLen }

def readNext (limit : Nat) (async : Bool) (env : List Nat) (c : Conn) : Conn × RObs :=
  if c.rpend then (c, robs c .busy) else
  let (c', s) := readLoop limit async (fuelFor c) env c
  (c', robs c' s)

/-- `pump`, read side: the pending transport read completes (if it can) and its callback re-enters
`AsyncReadNext`. -/
def pumpRead (limit : Nat) (env : List Nat) (c : Conn) : Conn × RObs :=
  if c.rpend then
    match transportRead true c with
    | (c', .done s) => (c', robs c' s)
    | (c', .again) => let (c'', s) := readLoop limit true (fuelFor c') env c'; (c'', robs c'' s)
  else (c, robs c .none)

/-- `WriteNext`: `Encode`, `Commit(WriteLen())`, `WriteTo` (consume what was written). -/
def writeNext (limit slack : Nat) (c : Conn) (p : Bytes) : Conn × WObs :=
  if c.wpend.isSome then (c, wobs c .busy 0 .nil []) else
  match encode limit slack c.dst p with
  | (_, .tooBig) => (c, wobs c .done 0 .toobig [])
  | (b, .panic) => let c' := { c with dst := b }; (c', wobs c' .panic 0 .nil [])
  | (b, .ok) =>
      let b := b.commit b.writeLen
      match writeLoop c.tr.plan b.view 0 with
      | (written, err, plan) =>
          let c' := { c with dst := b.consume written, tr := { c.tr with plan := plan } }
          (c', wobs c' .done written err (b.view.take written))

/-- `memStream.pumpWrite` and the completion callback of `AsyncWriteTo` (`Consume(n)` on success). -/
def pumpWrite (c : Conn) : Conn × WObs :=
  match c.wpend with
  | none => (c, wobs c .none 0 .nil [])
  | some pw =>
      match pumpLoop c.tr.plan (pw.buf.drop pw.done) pw.done with
      | (some total, done, plan) =>
          let c' := { c with dst := c.dst.consume total, tr := { c.tr with plan := plan }, wpend := none }
          (c', wobs c' .done total .nil ((pw.buf.drop pw.done).take (done - pw.done)))
      | (none, done, plan) =>
          let c' := { c with tr := { c.tr with plan := plan }, wpend := some { pw with done := done } }
          (c', wobs c' .pending 0 .nil ((pw.buf.drop pw.done).take (done - pw.done)))

/-- `AsyncWriteNext`: `Encode`, `Commit(WriteLen())`, `AsyncWriteTo` = `AsyncWriteAll(data[si:ri])`. -/
def asyncWriteNext (limit slack : Nat) (c : Conn) (p : Bytes) : Conn × WObs :=
  if c.wpend.isSome then (c, wobs c .busy 0 .nil []) else
  match encode limit slack c.dst p with
  | (_, .tooBig) => (c, wobs c .done 0 .toobig [])
  | (b, .panic) => let c' := { c with dst := b }; (c', wobs c' .panic 0 .nil [])
  | (b, .ok) =>
      let b := b.commit b.writeLen
      let c' := { c with dst := b, wpend := some { buf := b.view, done := 0 } }
      if c.tr.deferW then (c', wobs c' .pending 0 .nil []) else pumpWrite c'

/-- One scripted operation. `env`: capacity surpluses chosen by the runtime during this operation. -/
def step (limit : Nat) (c : Conn) (op : Op) (env : List Nat) : Conn × Obs :=
  match op with
  | .feed b => ({ c with tr := c.tr.feed b }, .ok)
  | .eof => ({ c with tr := { c.tr with eof := true } }, .ok)
  | .plan ks => ({ c with tr := { c.tr with plan := c.tr.plan ++ ks } }, .ok)
  | .defer on => ({ c with tr := { c.tr with deferW := on } }, .ok)
  | .read => let (c', o) := readNext limit false env c; (c', .r o)
  | .aread => let (c', o) := readNext limit true env c; (c', .r o)
  | .write p => let (c', o) := writeNext limit (env.headD 0) c p; (c', .w o)
  | .awrite p => let (c', o) := asyncWriteNext limit (env.headD 0) c p; (c', .w o)
  | .pump =>
      let (c1, w) := pumpWrite c
      let (c2, r) := pumpRead limit env c1
      (c2, .wr w r)

/-- The model's trace for a script; `envs` supplies the runtime's choices per operation. -/
def run (limit : Nat) : Conn → List (Op × List Nat) → List (Op × Obs)
  | _, [] => []
  | c, (op, env) :: r => let (c', ob) := step limit c op env; (op, ob) :: run limit c' r

/-- The connection after a script (same fold as `run`). -/
def runState (limit : Nat) : Conn → List (Op × List Nat) → Conn
  | c, [] => c
  | c, (op, env) :: r => runState limit (step limit c op env).1 r

/-! ### the plain round trip, spelled out -/

/-- A fresh connection whose transport has received the given segments, in order. -/
def fed (segs : List Bytes) : Conn := segs.foldl (fun c b => { c with tr := c.tr.feed b }) Conn.new

/-- `n` successive blocking `ReadNext` calls; what each one returned. -/
def readMany (limit : Nat) : List (List Nat) → Nat → Conn → List RStat
  | _, 0, _ => []
  | envs, n + 1, c =>
      (readNext limit false (envs.headD []) c).2.stat :: readMany limit envs.tail n (readNext limit false (envs.headD []) c).1

/-- One blocking `WriteNext` per payload; the observations. -/
def writeMany (limit : Nat) : List Nat → Conn → List Bytes → List WObs
  | _, _, [] => []
  | sl, c, p :: ps => (writeNext limit (sl.headD 0) c p).2 :: writeMany limit sl.tail (writeNext limit (sl.headD 0) c p).1 ps

/-- Everything the raw peer received during a list of write observations. -/
def sent (os : List WObs) : Bytes := (os.map (·.out)).flatten

end Sonic.Model.FrameCodec
