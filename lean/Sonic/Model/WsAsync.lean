/-
Model of the asynchronous API of one `websocket.Stream` over an `AsyncAdapter` (C17), as a labelled transition system.

Mirrors codec/websocket/stream.go (`AsyncNextFrame/asyncNextFrame`, `AsyncNextMessage/asyncNextMessage`, `AsyncWrite`,
`AsyncWriteFrame`, `prepareWrite`, `AsyncClose/prepareClose`, `AsyncFlush/asyncFlush` with `asyncFlushing` and
`asyncFlushWaiters`, `handleFrame/handleControlFrame`), codec.go (`AsyncReadNext`, `AsyncWriteNext`), byte_buffer.go
(`AsyncReadFrom`, `AsyncWriteTo`) and async_adapter.go: ONE read reactor and ONE write reactor; `AsyncWriteAll` /
`AsyncRead` always schedule (they never complete inside the starting call), a later poll runs the reactor.

Frames are identities (who submitted them) with an encoded size; their bytes are C16's business. Callbacks are
defunctionalised: the flush callbacks the library passes around are `Cont`s, user callbacks are ids whose body is a
*program* `prog : CbId → List Action` run inside the callback (so calls are issued from inside callbacks, nested to
any depth). Synchronous nesting is kept on an explicit control stack of `Task`s: a label executes the task on top and
pushes what that piece of code does next, so every step is a small total function and no fuel is needed.

`ser = true` is the code as it is (commit 54ea8af: flushes serialised by `asyncFlushing`); `ser = false` ignores the flag
and is the code before that commit, kept to document why the flag is needed (`Props/C17.lean`).
-/
namespace Sonic.Model.WsAsync

abbrev CbId := Nat

/-- `StreamState` without `StateHandshake` (the stream is attached after a handshake). -/
inductive WsState where
  | active | closedByUs | closedByPeer | closeAcked | terminated
  deriving DecidableEq, Repr, Inhabited

def WsState.canRead : WsState → Bool
  | .active | .closedByUs => true
  | _ => false

/-- Who put a frame on the outgoing queue. `rx` numbers the incoming frames in the order they were handled. -/
inductive Tag where
  | app (cb : CbId)            -- AsyncWrite / AsyncWriteFrame with this callback
  | closeApp (cb : CbId)       -- AsyncClose with this callback
  | pong (rx : Nat)            -- handleControlFrame: reply to a Ping
  | closeReply (rx : Nat)      -- handleControlFrame: reply to a Close
  | closeViolation (rx : Nat)  -- handleFrame: Close(1002) after a protocol violation
  | closeTooBig (rx : Nat)     -- asyncNextMessage: Close(1001) after a message that does not fit
  deriving DecidableEq, Repr

structure OutFrame where
  tag : Tag
  size : Nat      -- encoded length in bytes
  deriving DecidableEq, Repr

inductive InOp where
  | cont | text | binary | ping | pong | close | reserved
  deriving DecidableEq, Repr

def InOp.isControl : InOp → Bool
  | .ping | .pong | .close => true
  | _ => false

/-- An incoming frame, as far as `handleFrame` and `asyncNextMessage` look at it. -/
structure InFrame where
  op : InOp
  fin : Bool
  len : Nat        -- payload length
  viol : Bool      -- `verifyFrame` fails (reserved bit, masked frame from the server)
  closeOk : Bool   -- Close payload: status code valid and reason UTF-8 (decides whether it is echoed)
  deriving DecidableEq, Repr

/-- What kind of read a reader callback belongs to; for `AsyncNextMessage` the loop variables of `asyncNextMessage`. -/
inductive RKind where
  | frame
  | message (room : Nat) (continuation : Bool)
  deriving DecidableEq, Repr

/-- The callbacks handed to `AsyncFlush`, defunctionalised. -/
inductive Cont where
  | user (cb : CbId)                    -- the application's callback (AsyncWrite, AsyncWriteFrame, AsyncFlush, AsyncClose)
  | readStart (cb : CbId) (k : RKind)   -- the closure of AsyncNextFrame: start the read for `cb` once the flush is done
  | discard                             -- `func(err error) {}` of the internal AsyncClose
  deriving DecidableEq, Repr

/-- Result classes of user callbacks. `proto` = the peer broke a framing / fragmentation rule (the errors of
`verifyFrame`, `handleControlFrame`, `ErrUnexpectedContinuation`, `ErrExpectedContinuation`); `err` = anything else
(transport errors). -/
inductive Res where
  | ok | cancelled | eof | tooBig | proto | err
  deriving DecidableEq, Repr

inductive Action where
  | read (cb : CbId)
  | readMsg (cb : CbId) (room : Nat)
  | write (cb : CbId) (size : Nat)
  | writeTooBig (cb : CbId)            -- AsyncWrite of a message above the maximum size
  | writeFrame (cb : CbId) (size : Nat)
  | flush (cb : CbId)
  | close (cb : CbId) (size : Nat)
  | poll                                -- ioc.PollOne(): the reactors may run
  deriving DecidableEq, Repr

def Action.cb? : Action → Option CbId
  | .read cb | .readMsg cb _ | .write cb _ | .writeTooBig cb | .writeFrame cb _ | .flush cb | .close cb _ => some cb
  | .poll => none

def Action.isRead : Action → Bool
  | .read _ | .readMsg _ _ => true
  | _ => false

/-- Control stack entries: what the code on the (Go) call stack does next. -/
inductive Task where
  | call (a : Action)                                   -- the running callback's program makes this call next
  | ret                                                 -- the current API call returns
  | pollRet                                             -- PollOne returns (the reactors run while this is on top)
  | invoke (cb : CbId) (r : Res) (isRead : Bool)        -- the library invokes the user callback `cb`
  | exit (cb : CbId)                                    -- the callback returns
  | resume (cb : CbId) (k : RKind) (ok : Bool)          -- the library runs AsyncNextFrame's closure (flush finished)
  | again (cb : CbId) (k : RKind)                       -- asyncNextMessage calls AsyncNextFrame again
  | ctl                                                 -- asyncNextMessage calls the control callback
  deriving DecidableEq, Repr

/-- The adapter's write reactor while a write is in flight. -/
structure WSlot where
  buf : List OutFrame     -- frames whose encoded bytes are the buffer handed to AsyncWriteAll (dst's read area)
  sofar : Nat             -- bytes of it the transport has accepted (`wroteSoFar`)
  k : Cont                -- the flush this write belongs to (the reactor's callback)
  deriving DecidableEq, Repr

structure St where
  ws : WsState := .active
  pending : List OutFrame := []          -- pendingFrames
  flushing : Bool := false               -- asyncFlushing
  waiters : List Cont := []              -- asyncFlushWaiters
  wr : Option WSlot := none              -- adapter write reactor in flight
  rd : Option (CbId × RKind) := none     -- adapter read reactor in flight (the reader that waits for bytes)
  inbox : List InFrame := []             -- complete frames already in src, not yet decoded
  stack : List Task := []
  rx : Nat := 0                          -- incoming frames handled so far
  -- history (ghost) variables
  wire : List OutFrame := []             -- frames completely accepted by the transport, in order
  bytes : List (Tag × Nat) := []         -- every byte accepted by the transport: (frame, offset in the frame)
  log : List CbId := []                  -- user callback invocations
  started : List CbId := []              -- callbacks handed to the API
  submitted : List OutFrame := []        -- frames in prepareWrite order
  readBusy : Bool := false               -- a read was started and its callback has not been entered yet
  overwritten : Bool := false            -- a write was started while the write reactor was in use
  healthy : Bool := true                 -- no transport error so far
  deriving Repr, DecidableEq

/-! ## Library code -/

def frameBytes (f : OutFrame) : List (Tag × Nat) := (List.range f.size).map fun i => (f.tag, i)
def bufBytes (b : List OutFrame) : List (Tag × Nat) := b.flatMap frameBytes
def bufSize (b : List OutFrame) : Nat := (b.map (·.size)).sum

def push (s : St) (ts : List Task) : St := { s with stack := ts ++ s.stack }

/-- `prepareWrite`: mask and append to pendingFrames. -/
def prepare (s : St) (f : OutFrame) : St :=
  { s with pending := s.pending ++ [f], submitted := s.submitted ++ [f] }

/-- Calling a flush callback with result `ok`/error: a user callback is entered, AsyncNextFrame's closure is run. -/
def contTask (k : Cont) (ok : Bool) : List Task :=
  match k with
  | .user cb => [.invoke cb (if ok then .ok else .err) false]
  | .readStart cb rk => [.resume cb rk ok]
  | .discard => []

/-- `AsyncWriteNext → AsyncWriteTo → AsyncWriteAll`: the frame is encoded after whatever dst still holds, the reactor
is (re)initialised with dst's read area and callback, and the write is scheduled. -/
def startWrite (s : St) (f : OutFrame) (k : Cont) : St :=
  match s.wr with
  | none => { s with wr := some { buf := [f], sofar := 0, k := k } }
  | some w => { s with wr := some { buf := w.buf ++ [f], sofar := 0, k := k }, overwritten := true }

/-- Completion of `AsyncFlush` for callback `k`: with serialisation, the closure that clears the flag, calls the owner
and then every waiter; without, just the callback. -/
def flushDone (ser : Bool) (s : St) (k : Cont) (ok : Bool) : St :=
  if ser then
    push { s with flushing := false, waiters := [] } (contTask k ok ++ s.waiters.flatMap (contTask · ok))
  else push s (contTask k ok)

/-- `asyncFlush`: next pending frame, or done. -/
def asyncFlushGo (ser : Bool) (s : St) (k : Cont) : St :=
  match s.pending with
  | [] => flushDone ser s k true
  | f :: rest => startWrite { s with pending := rest } f k

/-- `AsyncFlush`. -/
def asyncFlush (ser : Bool) (s : St) (k : Cont) : St :=
  if ser then
    if s.flushing then { s with waiters := s.waiters ++ [k] }
    else asyncFlushGo ser { s with flushing := true } k
  else asyncFlushGo ser s k

/-- `AsyncClose` (also the internal one of asyncNextMessage). `cancelled` / `eof` are delivered at once. -/
def asyncClose (ser : Bool) (s : St) (f : OutFrame) (k : Cont) : St :=
  match s.ws with
  | .active => asyncFlush ser (prepare { s with ws := .closedByUs } f) k
  | .closedByUs =>
    match k with
    | .user cb => push s [.invoke cb .cancelled false]
    | _ => s
  | _ =>
    match k with
    | .user cb => push s [.invoke cb .eof false]
    | _ => s

/-- `handleFrame` (with verifyFrame, handleControlFrame, handleDataFrame) for a stream in state `ws` and the `n`-th
incoming frame: the new state, the frames it queues (prepareWrite / prepareClose) and whether it reports an error. -/
def handleOutcome (ws : WsState) (n : Nat) (f : InFrame) : WsState × List OutFrame × Bool :=
  let r : WsState × List OutFrame × Bool :=
    if f.viol then (ws, [], true)                                  -- verifyFrame
    else if f.op.isControl then
      if !f.fin || f.len > 125 then (ws, [], true)                 -- ErrInvalidControlFrame / ErrControlFrameTooBig
      else match f.op with
        | .ping => (ws, if ws = .active then [⟨.pong n, 6 + f.len⟩] else [], false)
        | .close =>
          match ws with
          | .active => (.closedByPeer, [⟨.closeReply n, if f.len ≥ 2 && f.closeOk then 6 + f.len else 8⟩], false)
          | .closedByUs => (.closeAcked, [], false)
          | _ => (ws, [], false)
        | _ => (ws, [], false)
    else if f.op = .reserved then (ws, [], true)                   -- ErrReservedOpcode / unknown control opcode
    else (ws, [], false)
  if r.2.2 then
    -- `if err != nil { if s.state == StateActive { prepareClose(1002) }; s.state = StateClosedByUs }`
    (.closedByUs, if r.1 = .active then r.2.1 ++ [⟨.closeViolation n, 8⟩] else r.2.1, true)
  else r

def handleFrame (s : St) (f : InFrame) : St × Bool :=
  let o := handleOutcome s.ws s.rx f
  ({ s with rx := s.rx + 1, ws := o.1, pending := s.pending ++ o.2.1, submitted := s.submitted ++ o.2.1 }, o.2.2)

/-- The closure of `asyncNextFrame` for a decoded frame, followed by the reader's own callback. -/
def onFrame (ser : Bool) (s : St) (cb : CbId) (rk : RKind) (f : InFrame) : St :=
  let n := s.rx
  let (s, failed) := handleFrame s f
  match rk with
  | .frame => push s [.invoke cb (if failed then .proto else .ok) true]
  | .message room cont =>
    if failed then push s [.invoke cb .proto true]
    else if f.op.isControl then push s [.ctl, .again cb rk]
    else if f.len > room then
      -- the message does not fit: AsyncClose(GoingAway, "payload too big", func(error){}) and report
      push (asyncClose ser s ⟨.closeTooBig n, 23⟩ .discard) [.invoke cb .tooBig true]
    else
      let bad := if cont then f.op != .cont else f.op == .cont
      if bad then push s [.invoke cb .proto true]
      else if f.fin then push s [.invoke cb .ok true]
      else push s [.again cb (.message (room - f.len) true)]

/-- `CodecConn.AsyncReadNext`: decode from src, or ask the adapter for bytes. -/
def readNext (ser : Bool) (s : St) (cb : CbId) (rk : RKind) : St :=
  match s.inbox with
  | f :: rest => onFrame ser { s with inbox := rest } cb rk f
  | [] => { s with rd := some (cb, rk) }

/-- The closure AsyncNextFrame hands to AsyncFlush. -/
def resumeRead (ser : Bool) (s : St) (cb : CbId) (rk : RKind) (ok : Bool) : St :=
  if ok && s.ws.canRead then readNext ser s cb rk
  else push { s with ws := .terminated } [.invoke cb (if ok then .eof else .err) true]

/-- An API call made by the application (`ret` is already on the stack). -/
def doCall (ser : Bool) (s : St) : Action → St
  | .read cb => asyncFlush ser { s with readBusy := true } (.readStart cb .frame)
  | .readMsg cb room => asyncFlush ser { s with readBusy := true } (.readStart cb (.message room false))
  | .write cb size =>
    if s.ws = .active then asyncFlush ser (prepare s ⟨.app cb, size⟩) (.user cb)
    else push s [.invoke cb .cancelled false]
  | .writeTooBig cb => push s [.invoke cb .tooBig false]
  | .writeFrame cb size =>
    if s.ws = .active then asyncFlush ser (prepare s ⟨.app cb, size⟩) (.user cb)
    else push s [.invoke cb .cancelled false]
  | .flush cb => asyncFlush ser s (.user cb)
  | .close cb size => asyncClose ser s ⟨.closeApp cb, size⟩ (.user cb)
  | .poll => s

/-- The usage the documentation asks for: a callback id names one call, one read at a time, poll at top level. -/
def callOk (s : St) (a : Action) : Bool :=
  match a with
  | .poll => s.stack.isEmpty
  | _ => (match a.cb? with | some cb => !s.started.contains cb | none => true) && !(a.isRead && s.readBusy)

def beginCall (ser : Bool) (s : St) (a : Action) : St :=
  match a with
  | .poll => { s with stack := .pollRet :: s.stack }
  | _ =>
    let s := { s with stack := .ret :: s.stack, started := (match a.cb? with | some cb => s.started ++ [cb] | none => s.started) }
    doCall ser s a

/-! ## Labels and the step function -/

inductive Label where
  | call (a : Action)                 -- a call is made: at top level (any call) or the next one of the running program
  | skip (a : Action)                 -- the running program's next call does not meet `callOk` and is left out
  | ret
  | enter (cb : CbId) (r : Res)       -- a user callback is entered
  | exit (cb : CbId)
  | ctl                               -- the control callback runs
  | tau                               -- the library runs its own continuation
  | wrote (n : Nat)                   -- (in poll) the write reactor ran and the transport accepted n bytes
  | wrErr                             -- (in poll) the write reactor ran and the transport failed
  | rdGot (fs : List InFrame)         -- (in poll) the read reactor ran; the bytes read complete these frames
  | rdEof | rdErr                     -- (in poll) the read reactor ran and the transport ended / failed
  deriving DecidableEq, Repr

def step (ser : Bool) (prog : CbId → List Action) (s : St) : Label → Option St
  | .call a =>
    match s.stack with
    | [] => if callOk s a then some (beginCall ser s a) else none
    | .call a' :: rest => if a = a' ∧ callOk { s with stack := rest } a then some (beginCall ser { s with stack := rest } a) else none
    | _ => none
  | .skip a =>
    match s.stack with
    | .call a' :: rest => if a = a' ∧ !callOk { s with stack := rest } a then some { s with stack := rest } else none
    | _ => none
  | .ret =>
    match s.stack with
    | .ret :: rest => some { s with stack := rest }
    | .pollRet :: rest => some { s with stack := rest }
    | _ => none
  | .enter cb r =>
    match s.stack with
    | .invoke cb' r' isRead :: rest =>
      if cb = cb' ∧ r = r' then
        some { s with stack := (prog cb).map .call ++ .exit cb :: rest, log := s.log ++ [cb],
                      readBusy := if isRead then false else s.readBusy }
      else none
    | _ => none
  | .exit cb =>
    match s.stack with
    | .exit cb' :: rest => if cb = cb' then some { s with stack := rest } else none
    | _ => none
  | .ctl =>
    match s.stack with
    | .ctl :: rest => some { s with stack := rest }
    | _ => none
  | .tau =>
    match s.stack with
    | .resume cb rk ok :: rest => some (resumeRead ser { s with stack := rest } cb rk ok)
    | .again cb rk :: rest => some (asyncFlush ser { s with stack := rest } (.readStart cb rk))
    | _ => none
  | .wrote n =>
    match s.stack, s.wr with
    | .pollRet :: _, some w =>
      if w.sofar + n ≤ bufSize w.buf then
        let s := { s with bytes := s.bytes ++ ((bufBytes w.buf).drop w.sofar).take n }
        if w.sofar + n = bufSize w.buf then
          -- AsyncWriteTo's callback consumes the buffer, asyncFlush's callback releases the frame and goes on
          some (asyncFlushGo ser { s with wr := none, wire := s.wire ++ w.buf } w.k)
        else some { s with wr := some { w with sofar := w.sofar + n } }
      else none
    | _, _ => none
  | .wrErr =>
    match s.stack, s.wr with
    | .pollRet :: _, some w => some (flushDone ser { s with wr := none, healthy := false } w.k false)
    | _, _ => none
  | .rdGot fs =>
    match s.stack, s.rd with
    | .pollRet :: _, some (cb, rk) =>
      if s.inbox.isEmpty then
        match fs with
        | [] => some s          -- no complete frame yet: AsyncReadNext asks the adapter again
        | f :: rest => some (onFrame ser { s with rd := none, inbox := rest } cb rk f)
      else none
    | _, _ => none
  | .rdEof =>
    match s.stack, s.rd with
    | .pollRet :: _, some (cb, _) =>
      some (push { s with rd := none, ws := .terminated } [.invoke cb .eof true])
    | _, _ => none
  | .rdErr =>
    match s.stack, s.rd with
    | .pollRet :: _, some (cb, _) => some (push { s with rd := none, healthy := false } [.invoke cb .err true])
    | _, _ => none

/-- Reachable states of the code as it is (`ser = true`), for any program of the callbacks. -/
inductive Reach (prog : CbId → List Action) : St → Prop where
  | init : Reach prog {}
  | step {s s' : St} (l : Label) : Reach prog s → step true prog s l = some s' → Reach prog s'

/-- Run a list of labels (used by the acceptor and by the concrete witnesses). -/
def run (ser : Bool) (prog : CbId → List Action) : St → List Label → Option St
  | s, [] => some s
  | s, l :: r => match step ser prog s l with
    | some s' => run ser prog s' r
    | none => none

/-- Nothing is executing and no reactor is armed. -/
def quiescent (s : St) : Prop := s.stack = [] ∧ s.wr = none ∧ s.rd = none

instance (s : St) : Decidable (quiescent s) := by unfold quiescent; exact inferInstance

end Sonic.Model.WsAsync
