/-
Resource path tables (property C13): the vocabulary of `Sonic/Gen/Resources.lean`, which `tools/respaths`
regenerates from the Go sources on every run, and the interpreter of a path over a set of live resources.

A *path* is one control-flow path through a constructor / connect / accept / handshake function or a `Close`
method: the resource events in program order and how the path ends.  Resource ids are path-local names
(0, 1, … in order of acquisition).
-/
namespace Sonic.Model.ResPath

/-- What kind of thing was acquired: a descriptor, a name in the file system, a memory mapping. -/
inductive Cls where
  | fd | path | mapping
  deriving Repr, DecidableEq, Inhabited

inductive Ev where
  /-- a configured library / system call returned a new resource -/
  | acquire (r : Nat) (c : Cls) (via : String)
  /-- one of the repo's own listed acquiring functions (index into the constructor table) succeeded: the caller owns
      what its ok-returns own -/
  | call (callee : Nat) (name : String) (rs : List (Nat × Cls))
  /-- `syscall.Close(x)`, `x.Close()`, `x.Destroy()`, `os.Remove(x)`, `syscall.Munmap(x)` on a value holding `r` -/
  | release (r : Nat) (via : String)
  /-- a close of a value that holds no resource on this path (`fd = -1` after a failed system call) -/
  | releaseInvalid (via : String)
  /-- a call that can fail and neither acquires nor releases: which failure point this path is -/
  | step (what : String) (ok : Bool)
  /-- boundary between two consecutive calls (Close; Close) -/
  | mark (what : String)
  deriving Repr, DecidableEq, Inhabited

inductive Term where
  /-- `return …, nil` / `cb(nil, …)`: the listed resources are reachable from what was returned (or from the receiver) -/
  | ok (owned : List Nat)
  /-- a non-nil error; `handed` = resources still live that the caller was handed together with the error -/
  | fail (handed : List Nat)
  deriving Repr, DecidableEq, Inhabited

structure Path where
  evs  : List Ev
  term : Term
  line : Nat
  deriving Repr, DecidableEq, Inhabited

structure Func where
  name  : String
  file  : String
  line  : Nat
  paths : List Path
  deriving Repr, Inhabited

def distinct : List Nat → Bool
  | [] => true
  | a :: r => !r.contains a && distinct r

def insertSorted (a : Nat) : List Nat → List Nat
  | [] => [a]
  | b :: r => if a ≤ b then a :: b :: r else b :: insertSorted a r

def sortNat (l : List Nat) : List Nat := l.foldr insertSorted []

/-- One event over the set of live resources. `none`: the event is impossible for a correct program — acquiring an id
that is live, or releasing one that is not (a double close, i.e. a close of a number the object no longer owns). -/
def stepEv (live : List Nat) : Ev → Option (List Nat)
  | .acquire r _ _ => if live.contains r then none else some (r :: live)
  | .call _ _ rs =>
      let ids := rs.map (·.1)
      if ids.any live.contains || !distinct ids then none else some (ids ++ live)
  | .release r _ => if live.contains r then some (live.erase r) else none
  | .releaseInvalid _ => some live
  | .step _ _ => some live
  | .mark _ => some live

def run (live : List Nat) : List Ev → Option (List Nat)
  | [] => some live
  | e :: r => match stepEv live e with
    | some l => run l r
    | none => none

/-- Same elements (both lists are duplicate-free here). -/
def sameSet (a b : List Nat) : Bool := a.all b.contains && b.all a.contains

def Term.isFail : Term → Bool
  | .fail _ => true
  | .ok _ => false

def Term.ids : Term → List Nat
  | .fail l => l
  | .ok l => l

/-- The path runs without a double acquire / double release and ends with exactly the resources its terminator names. -/
def Path.balanced (p : Path) : Bool :=
  match run [] p.evs with
  | some live => sameSet live p.term.ids
  | none => false

/-- Class of a resource on a path. -/
def clsOf (evs : List Ev) (r : Nat) : Option Cls :=
  evs.findSome? fun
    | .acquire r' c _ => if r' == r then some c else none
    | .call _ _ rs => (rs.find? (·.1 == r)).map (·.2)
    | _ => none

/-- Classes of what an ok-return owns, in order of acquisition. -/
def Path.ownedClasses (p : Path) : List Cls :=
  (sortNat p.term.ids).filterMap (clsOf p.evs)

/-- A `call` event is justified by the callee's own paths: every ok-return of the callee owns resources of exactly the
classes the caller received (and the callee is an earlier entry of the table, so there is no circularity). -/
def callJustified (table : List Func) (self : Nat) : Ev → Bool
  | .call callee _ rs =>
      callee < self &&
      match table[callee]? with
      | some f => f.paths.any (!·.term.isFail) &&
                  f.paths.all fun p => p.term.isFail || p.ownedClasses == rs.map (·.2)
      | none => false
  | _ => true

end Sonic.Model.ResPath
