/-
Executable model of `sonic.ByteBuffer`, written by hand to mirror byte_buffer.go method by method
and statement by statement (same clamps, same order of index updates, same early returns).

State: the three end indices, the bytes of `b.data` (`data.length` is `len(b.data)`) and `cap(b.data)`.
Go `int` arithmetic goes through `Go.add`/`Go.sub` (64-bit wrap) wherever the code adds or subtracts;
every slice expression is checked with Go's rule `0 ≤ lo ≤ hi ≤ cap` (`none` = the call panics).
The capacity chosen by `append` when it reallocates is an input (`envCap`, read off the trace); the
model only insists it is at least what was needed (`imax`).  Bytes of the backing array beyond
`len(b.data)` are not modelled: whenever the code extends `data` over them (`Claim`, `ClaimFixed`,
`ReadFrom`) the operation says what the callee/caller wrote there.
-/
import Sonic.Go.Prelude
import Sonic.Spec.ByteBuffer

namespace Sonic.Model.ByteBuffer
open Sonic.Spec.ByteBuffer

structure BB where
  si   : Int
  ri   : Int
  wi   : Int
  data : List UInt8
  cap  : Int
  deriving Repr, DecidableEq

/-- `NewByteBuffer()`: `make([]byte, 0, 512)`; the capacity is read off the trace. -/
def new (cap : Int) : BB := { si := 0, ri := 0, wi := 0, data := [], cap := cap }

def imax (a b : Int) : Int := if a ≤ b then b else a

def BB.len (b : BB) : Int := b.data.length

/-- Go's check for `b.data[lo:hi]`. -/
def BB.sliceOk (b : BB) (lo hi : Int) : Prop := 0 ≤ lo ∧ lo ≤ hi ∧ hi ≤ b.cap
instance (b : BB) (lo hi : Int) : Decidable (b.sliceOk lo hi) := by unfold BB.sliceOk; exact inferInstance

/-- Bytes `data[lo:hi]` (the positions below `len(data)`). -/
def BB.bytes (b : BB) (lo hi : Int) : List UInt8 := (b.data.take hi.toNat).drop lo.toNat

/-- `b.data = b.data[:n]`. -/
def BB.reslice (b : BB) (n : Int) : Option BB :=
  if b.sliceOk 0 n then some { b with data := b.data.take n.toNat } else none

/-- `copy(data[i:], data[j:hi])` (memmove semantics), for in-range `i`, `j`, `hi`. -/
def copyWithin (data : List UInt8) (i j hi : Nat) : List UInt8 :=
  let m := min (data.length - i) (hi - j)
  data.take i ++ (data.drop j).take m ++ data.drop (i + m)

/-- `len(b.data[0:b.si])` -/
def BB.SaveLen (b : BB) : Option Int := if b.sliceOk 0 b.si then some (Go.sub b.si 0) else none
/-- `len(b.data[b.si:b.ri])` -/
def BB.ReadLen (b : BB) : Option Int := if b.sliceOk b.si b.ri then some (Go.sub b.ri b.si) else none
/-- `len(b.data[b.ri:b.wi])` -/
def BB.WriteLen (b : BB) : Option Int := if b.sliceOk b.ri b.wi then some (Go.sub b.wi b.ri) else none

/-- `Reserve(n)`. `envCap` = capacity after the call as the runtime chose it. -/
def BB.Reserve (b : BB) (n envCap : Int) : Option BB :=
  let existing := Go.sub b.cap b.wi
  if n > existing then
    let need := Go.sub n existing
    -- b.data = append(b.data[:cap(b.data)], make([]byte, need)...)
    if need > MaxAlloc then none                         -- growslice: len out of range
    else
      let b1 := { b with cap := imax envCap (b.cap + need) }
      b1.reslice b.wi
  else b.reslice b.wi

/-- `Commit(n)`. -/
def BB.Commit (b : BB) (n : Int) : BB :=
  if n ≤ 0 then b else
  let writeLen := Go.sub b.wi b.ri
  let n := if n > writeLen then writeLen else n
  { b with ri := Go.add b.ri n }

/-- `Consume(n)`. -/
def BB.Consume (b : BB) (n : Int) : Option BB :=
  if n ≤ 0 then some b else
  match b.ReadLen with
  | none => none
  | some readLen =>
    let n := if n > readLen then readLen else n
    if n > 0 then
      -- copy(b.data[b.si:], b.data[b.si+n:b.wi])
      let j := Go.add b.si n
      if (0 ≤ b.si ∧ b.si ≤ b.len) ∧ b.sliceOk j b.wi then
        let b1 := { b with data := copyWithin b.data b.si.toNat j.toNat b.wi.toNat }
        let b2 := { b1 with ri := Go.sub b.ri n }
        let b3 := { b2 with wi := Go.sub b.wi n }
        b3.reslice b3.wi
      else none
    else some b

/-- `Save(n)`. -/
def BB.Save (b : BB) (n : Int) : Option (BB × Int × Int) :=
  match b.ReadLen with
  | none => none
  | some readLen =>
    let n := if n > readLen then readLen else n
    if n ≤ 0 then some (b, 0, 0)
    else some ({ b with si := Go.add b.si n }, b.si, n)

/-- `SavedSlot(slot)`: `b.data[slot.Index : slot.Index+slot.Length]`. -/
def BB.SavedSlot (b : BB) (idx len : Int) : Option (Option (List UInt8)) :=
  let hi := Go.add idx len
  if b.sliceOk idx hi then
    if hi ≤ b.len then some (some (b.bytes idx hi)) else some none
  else none

/-- `Discard(slot)`. -/
def BB.Discard (b : BB) (idx len : Int) : Option (BB × Int) :=
  if len ≤ 0 then some (b, 0) else
  -- copy(b.data[slot.Index:], b.data[slot.Index+slot.Length:b.wi])
  let j := Go.add idx len
  if (0 ≤ idx ∧ idx ≤ b.len) ∧ b.sliceOk j b.wi then
    let b1 := { b with data := copyWithin b.data idx.toNat j.toNat b.wi.toNat }
    let b2 := { b1 with si := Go.sub b.si len }
    let b3 := { b2 with ri := Go.sub b.ri len }
    let b4 := { b3 with wi := Go.sub b.wi len }
    match b4.reslice b4.wi with
    | none => none
    | some b5 => some (b5, len)
  else none

/-- `DiscardAll()`. -/
def BB.DiscardAll (b : BB) : Option BB :=
  match b.SaveLen with
  | none => none
  | some n => (b.Discard 0 n).map (·.1)

/-- `Reset()`. -/
def BB.Reset (b : BB) : Option BB :=
  ({ b with si := 0, ri := 0, wi := 0 } : BB).reslice 0

/-- `Read(dst)` with `len(dst) = dstLen`: returns (state, n, dst[:n], err). -/
def BB.Read (b : BB) (dstLen : Nat) : Option (BB × Int × List UInt8 × Err) :=
  if dstLen = 0 then some (b, 0, [], .nil)
  else if b.ri = b.si then some (b, 0, [], .eof)
  else
    -- n := copy(dst, b.data[b.si:b.ri])
    if b.sliceOk b.si b.ri then
      let src := b.bytes b.si b.ri
      let got := src.take dstLen
      let n : Int := got.length
      match b.Consume n with
      | none => none
      | some b' => some (b', n, got, .nil)
    else none

/-- `ReadFrom(r)`; see `Op.readFrom` for the reader's behaviour. -/
def BB.ReadFrom (b : BB) (n : Nat) (seed : UInt8) (e : Err) : Option (BB × Int × Err) :=
  -- r.Read(b.data[b.wi:cap(b.data)])
  if b.sliceOk b.wi b.cap then
    if e = .nil then
      let k := min n (Go.sub b.cap b.wi).toNat
      let b1 := { b with wi := Go.add b.wi k, data := b.data ++ pattern seed k }
      match b1.reslice b1.wi with
      | none => none
      | some b2 => some (b2, k, .nil)
    else some (b, n, e)
  else none

/-- `UnreadByte()`. -/
def BB.UnreadByte (b : BB) : Option (BB × Err) :=
  match b.WriteLen with
  | none => none
  | some w =>
    if w > 0 then
      let b1 := { b with wi := Go.sub b.wi 1 }
      match b1.reslice b1.wi with
      | none => none
      | some b2 => some (b2, .nil)
    else some (b, .eof)

/-- `append(b.data, bs...)` followed by `b.wi += len(bs); b.data = b.data[:b.wi]`
(`Write`, `WriteString`, and `WriteByte` with one byte). -/
def BB.Append (b : BB) (bs : List UInt8) (envCap : Int) : Option BB :=
  let newLen := b.len + bs.length
  let cap' := if newLen ≤ b.cap then b.cap else imax envCap newLen
  let b1 := { b with data := b.data ++ bs, cap := cap' }
  let b2 := { b1 with wi := Go.add b.wi bs.length }
  b2.reslice b2.wi

/-- The loop of `WriteTo(w)`; returns (writtenBytes, bytes accepted by the writer, err). -/
def BB.writeLoop (b : BB) : List (Nat × Bool) → Int → List UInt8 → Option (Int × List UInt8 × Err)
  | [], written, out =>
      if Go.add b.si written < b.ri then
        let lo := Go.add b.si written
        if b.sliceOk lo b.ri then
          let p := b.bytes lo b.ri
          some (Go.add written p.length, out ++ p, .nil)   -- accepts everything; the loop then ends
        else none
      else some (written, out, .nil)
  | (n, fail) :: more, written, out =>
      if Go.add b.si written < b.ri then
        let lo := Go.add b.si written
        if b.sliceOk lo b.ri then
          let p := b.bytes lo b.ri
          if fail then some (written, out, .other)
          else
            let k := min n p.length
            b.writeLoop more (Go.add written k) (out ++ p.take k)
        else none
      else some (written, out, .nil)

/-- `WriteTo(w)`. -/
def BB.WriteTo (b : BB) (resps : List (Nat × Bool)) : Option (BB × Int × List UInt8 × Err) :=
  match b.writeLoop resps 0 [] with
  | none => none
  | some (written, out, e) =>
    match b.Consume written with
    | none => none
    | some b' => some (b', written, out, e)

/-- `PrepareRead(n)`. -/
def BB.PrepareRead (b : BB) (n : Int) : Option (BB × Err) :=
  match b.ReadLen with
  | none => none
  | some readLen =>
    if n > readLen then
      let need := Go.sub n readLen
      match b.WriteLen with
      | none => none
      | some writeLen =>
        if writeLen ≥ need then some (b.Commit need, .nil) else some (b, .needMore)
    else some (b, .nil)

/-- `Claim(fn)`; `fn` fills the slice it gets with the pattern and returns `ret`. -/
def BB.Claim (b : BB) (ret : Int) (seed : UInt8) : Option BB :=
  if b.sliceOk b.wi b.cap then
    if ret ≥ 0 ∧ ret ≤ Go.sub b.cap b.wi then
      let wi := Go.add b.wi ret
      let b1 := { b with wi := wi, data := b.data ++ pattern seed ret.toNat }
      b1.reslice b1.wi
    else some b
  else none

/-- `ClaimFixed(n)`; the caller fills the returned slice with the pattern. Returns its length. -/
def BB.ClaimFixed (b : BB) (n : Int) (seed : UInt8) : Option (BB × Int) :=
  if n ≥ 0 ∧ n ≤ Go.sub b.cap b.wi then
    let wi := Go.add b.wi n
    if b.sliceOk b.wi wi then
      let b1 := { b with wi := wi, data := b.data ++ pattern seed n.toNat }
      match b1.reslice b1.wi with
      | none => none
      | some b2 => some (b2, Go.sub wi b.wi)
    else none
  else some (b, 0)

/-- `ShrinkBy(n)`. -/
def BB.ShrinkBy (b : BB) (n : Int) : Option (BB × Int) :=
  if n ≤ 0 then some (b, 0) else
  match b.WriteLen with
  | none => none
  | some length =>
    let n := if n > length then length else n
    let b1 := { b with wi := Go.sub b.wi n }
    match b1.reslice b1.wi with
    | none => none
    | some b2 => some (b2, n)

/-- `ShrinkTo(n)`. -/
def BB.ShrinkTo (b : BB) (n : Int) : Option (BB × Int) :=
  let n := if n < 0 then 0 else n
  match b.WriteLen with
  | none => none
  | some w => b.ShrinkBy (Go.sub w n)

/-- Reading the buffer back through `SaveLen/ReadLen/WriteLen/Len/Cap/Reserved/Saved/Data`. -/
def BB.dump (b : BB) : Option Dump :=
  match b.SaveLen, b.ReadLen, b.WriteLen with
  | some _, some _, some _ =>
    if b.wi ≤ b.len then
      some { saved := b.bytes 0 b.si, readable := b.bytes b.si b.ri, pending := b.bytes b.ri b.wi,
             len := b.len, cap := b.cap, reserved := Go.sub b.cap b.wi }
    else none
  | _, _, _ => none

def ok (b : BB) (r : Ret) : BB × Obs := (b, { ret := some r, dump := b.dump })
/-- A panicking call. The buffer is read back afterwards only for `Reserve` (which panics before
touching anything); for every other call the script ends at the panic. -/
def panicked (b : BB) (readBack : Bool) : BB × Obs :=
  (b, { ret := none, dump := if readBack then b.dump else none })

/-- One call. `envCap` is the capacity the implementation reported after the call. -/
def step (b : BB) (op : Op) (envCap : Int) : BB × Obs :=
  match op with
  | .reserve n => match b.Reserve n envCap with
      | some b' => ok b' .unit | none => panicked b true
  | .commit n => ok (b.Commit n) .unit
  | .consume n => match b.Consume n with
      | some b' => ok b' .unit | none => panicked b false
  | .save n => match b.Save n with
      | some (b', i, l) => ok b' (.slot i l) | none => panicked b false
  | .discard idx len => match b.Discard idx len with
      | some (b', n) => ok b' (.int n) | none => panicked b false
  | .discardAll => match b.DiscardAll with
      | some b' => ok b' .unit | none => panicked b false
  | .savedSlot idx len => match b.SavedSlot idx len with
      | some bs => ok b (.bytes bs) | none => panicked b false
  | .reset => match b.Reset with
      | some b' => ok b' .unit | none => panicked b false
  | .read dstLen => match b.Read dstLen with
      | some (b', n, got, e) => ok b' (.rd n got e) | none => panicked b false
  | .readByte => match b.Read 1 with
      | some (b', _, got, e) => ok b' (.rb (if e = .nil then got.head? else none) e) | none => panicked b false
  | .readFrom n seed e => match b.ReadFrom n seed e with
      | some (b', k, e') => ok b' (.nerr k e') | none => panicked b false
  | .unreadByte => match b.UnreadByte with
      | some (b', e) => ok b' (.err e) | none => panicked b false
  | .write bs => match b.Append bs envCap with
      | some b' => ok b' (.nerr bs.length .nil) | none => panicked b false
  | .writeByte x => match b.Append [x] envCap with
      | some b' => ok b' (.err .nil) | none => panicked b false
  | .writeString bs => match b.Append bs envCap with
      | some b' => ok b' (.nerr bs.length .nil) | none => panicked b false
  | .writeTo resps => match b.WriteTo resps with
      | some (b', n, out, e) => ok b' (.wt n out e) | none => panicked b false
  | .prepareRead n => match b.PrepareRead n with
      | some (b', e) => ok b' (.err e) | none => panicked b false
  | .claim ret seed => match b.Claim ret seed with
      | some b' => ok b' .unit | none => panicked b false
  | .claimFixed n seed => match b.ClaimFixed n seed with
      | some (b', l) => ok b' (.claimed l) | none => panicked b false
  | .shrinkBy n => match b.ShrinkBy n with
      | some (b', k) => ok b' (.int k) | none => panicked b false
  | .shrinkTo n => match b.ShrinkTo n with
      | some (b', k) => ok b' (.int k) | none => panicked b false

/-- The model's trace for a script; each call comes with the capacity the environment reports. -/
def run : BB → List (Op × Int) → List (Op × Obs)
  | _, [] => []
  | b, (op, c) :: r => let (b', ob) := step b op c; (op, ob) :: run b' r

end Sonic.Model.ByteBuffer
