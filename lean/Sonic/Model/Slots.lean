/-
Executable model of the slot machinery, written by hand to mirror the Go code function by function:

* `util/fenwick_tree.go`   → `Tree` (`add`, `sumUntil`, `sum`, `sumRange`, `at`, `clear`, `reset`); the two loops
  are fuel recursions over the same index recurrences `i | (i+1)` and `i & (i+1) - 1`;
* `slot.go`                → `Sonic.Gen.Slot.OffsetSlot` (regenerated from the source on every run);
* `slot_offsetter.go`      → `offsetterAdd`, `offsetterOffset`;
* `sequenced_slots.go`     → `search` (`sort.Search` by its contract: the first index whose predicate holds),
  `containerPush`, `containerPop`;
* `slot_sequencer.go`      → `Seqr.push`, `Seqr.pop`;
* the save-area methods of `byte_buffer.go` → `Buf.write/commit/save/savedSlot/discard/discardAll`.

`step` composes them into the documented workflow operations of `Sonic.Spec.Slots`.
A Go panic (slice/index out of range) is `none`.
-/
import Sonic.Gen.Slot
import Sonic.Spec.Slots

namespace Sonic.Model.Slots
open Sonic.Gen.Slot Sonic.Spec.Slots

/-! ## util/fenwick_tree.go -/

abbrev Tree := List Int

/-- `index | (index + 1)`: next cell on the update chain. -/
def up (i : Nat) : Nat := i ||| (i + 1)
/-- `index & (index + 1)`: first position covered by cell `index` (the query loop continues at `down i - 1`). -/
def down (i : Nat) : Nat := i &&& (i + 1)

def Tree.new (n : Int) : Tree := List.replicate n.toNat 0

/-- `for index < len(t.data) { t.data[index] += delta; index = index | (index + 1) }` -/
def addLoop : Nat → Tree → Nat → Int → Tree
  | 0, d, _, _ => d
  | fuel + 1, d, i, delta =>
      if i < d.length then addLoop fuel (d.set i (d.getD i 0 + delta)) (up i) delta else d

/-- `Add(index, delta)` for `index ≥ 0` (the index strictly increases, so `len` iterations suffice). -/
def Tree.add (d : Tree) (i : Nat) (delta : Int) : Tree := addLoop d.length d i delta

/-- `for index >= 0 { sum += t.data[index]; index = index&(index+1) - 1 }` -/
def sumLoop : Nat → Tree → Nat → Int → Int
  | 0, _, _, acc => acc
  | fuel + 1, d, i, acc =>
      let acc := acc + d.getD i 0
      if down i = 0 then acc else sumLoop fuel d (down i - 1) acc

/-- `SumUntil(index)`; a negative index skips the loop (the index strictly decreases: `index+1` iterations suffice). -/
def Tree.sumUntil (d : Tree) (i : Int) : Int := if i < 0 then 0 else sumLoop (i.toNat + 1) d i.toNat 0

def Tree.sum (d : Tree) : Int := d.sumUntil ((d.length : Int) - 1)
def Tree.sumRange (d : Tree) (l r : Int) : Int := d.sumUntil r - d.sumUntil (l - 1)
def Tree.at (d : Tree) (i : Int) : Int := d.sumRange i i
def Tree.clear (d : Tree) (i : Nat) : Tree × Int := let v := d.at i; (d.add i (-v), v)
def Tree.reset (d : Tree) : Tree := List.replicate d.length 0
def Tree.size (d : Tree) : Int := d.length

/-! ## slot_offsetter.go -/

/-- `Add`: `slot.Index += tree.Sum(); if slot.Index >= tree.Size() { return Slot{}, ErrNoSpaceLeftForSlot }`.
`none` = the error. -/
def offsetterAdd (t : Tree) (slot : Slot) : Option Slot :=
  let slot : Slot := { Index := slot.Index + t.sum, Length := slot.Length }
  if slot.Index ≥ t.size then none else some slot

/-- `Offset`: `offset := tree.SumUntil(slot.Index); tree.Add(slot.Index, slot.Length); return OffsetSlot(offset, slot)`.
`none` = panic: `t.data[index]` is out of range exactly when the index is outside `[0, len)`. -/
def offsetterOffset (t : Tree) (slot : Slot) : Option (Tree × Slot) :=
  if slot.Index < 0 ∨ slot.Index ≥ t.size then none
  else
    let offset := t.sumUntil slot.Index
    let t' := t.add slot.Index.toNat slot.Length
    some (t', OffsetSlot offset slot)

/-! ## sequenced_slots.go -/

structure SSlot where
  slot : Slot
  seq : Int
  deriving Repr, DecidableEq

/-- `sort.Search(len(slots), func(i) bool { return slots[i].seq >= seq })` on a slice sorted by `seq`:
the first index whose element has `seq' ≥ seq`, or `len`. -/
def search (slots : List SSlot) (seq : Int) : Nat := slots.findIdx (fun e => decide (e.seq ≥ seq))

/-- `Push`: `(slots', ok, err)`. -/
def containerPush (maxSlots : Int) (slots : List SSlot) (seq : Int) (slot : Slot) : List SSlot × Bool × Bool :=
  let ix := search slots seq
  let newSlot : SSlot := { slot := slot, seq := seq }
  if ix ≥ slots.length then
    if (slots.length : Int) ≥ maxSlots then (slots, false, true)
    else (slots ++ [newSlot], true, false)
  else if (slots.getD ix newSlot).seq ≠ seq then
    if (slots.length : Int) ≥ maxSlots then (slots, false, true)
    else (slots.take ix ++ newSlot :: slots.drop ix, true, false)
  else (slots, false, false)

/-- `Pop`: `(slots', slot, ok)`. -/
def containerPop (slots : List SSlot) (seq : Int) : List SSlot × Slot × Bool :=
  let ix := search slots seq
  match slots[ix]? with
  | some e => if e.seq = seq then (slots.take ix ++ slots.drop (ix + 1), e.slot, true) else (slots, ⟨0, 0⟩, false)
  | none => (slots, ⟨0, 0⟩, false)

/-! ## slot_sequencer.go -/

structure Seqr where
  maxBytes : Int
  maxSlots : Int
  bytes : Int
  slots : List SSlot
  tree : Tree
  deriving Repr

def Seqr.new (maxSlots maxBytes : Int) : Seqr :=
  { maxBytes := maxBytes, maxSlots := maxSlots, bytes := 0, slots := [], tree := Tree.new maxBytes }

/-- `Push`: `(s', ok, err)`. -/
def Seqr.push (s : Seqr) (seq : Int) (slot : Slot) : Seqr × Bool × Bool :=
  if s.bytes + slot.Length > s.maxBytes then (s, false, true)
  else match offsetterAdd s.tree slot with
    | none => (s, false, true)
    | some slot =>
      let r := containerPush s.maxSlots s.slots seq slot
      if r.2.1 = true ∧ r.2.2 = false then ({ s with slots := r.1, bytes := s.bytes + slot.Length }, r.2.1, r.2.2)
      else ({ s with slots := r.1 }, r.2.1, r.2.2)

/-- `Pop`: `(s', slot, ok)`; `none` = panic inside the offsetter. -/
def Seqr.pop (s : Seqr) (seq : Int) : Option (Seqr × Slot × Bool) :=
  let r := containerPop s.slots seq
  if r.2.2 = true then
    match offsetterOffset s.tree r.2.1 with
    | none => none
    | some (t, slot) =>
      let t := if r.1.length = 0 then t.reset else t
      some ({ s with slots := r.1, tree := t, bytes := s.bytes - slot.Length }, slot, true)
  else some (s, r.2.1, false)

def Seqr.size (s : Seqr) : Int := s.slots.length

/-- `Reset`: `offsetter.Reset(); container.Reset(); bytes = 0`. -/
def Seqr.reset (s : Seqr) : Seqr := { s with slots := [], bytes := 0, tree := s.tree.reset }

/-! ## byte_buffer.go (the three areas; `wi = len(data)`, capacity is not modelled) -/

structure Buf where
  data : Bytes
  si : Int
  ri : Int
  deriving Repr

def Buf.new : Buf := { data := [], si := 0, ri := 0 }
def Buf.wi (b : Buf) : Int := b.data.length

/-- `Write`: append to the write area. -/
def Buf.write (b : Buf) (bb : Bytes) : Buf := { b with data := b.data ++ bb }

/-- `Commit(n)`. -/
def Buf.commit (b : Buf) (n : Int) : Buf :=
  if n ≤ 0 then b
  else
    let writeLen := b.wi - b.ri
    let n := if n > writeLen then writeLen else n
    { b with ri := b.ri + n }

/-- `Save(n)`. -/
def Buf.save (b : Buf) (n : Int) : Buf × Slot :=
  let readLen := b.ri - b.si
  let n := if n > readLen then readLen else n
  if n ≤ 0 then (b, ⟨0, 0⟩)
  else ({ b with si := b.si + n }, ⟨b.si, n⟩)

/-- `Saved()`. -/
def Buf.saved (b : Buf) : Bytes := b.data.take b.si.toNat

/-- `SavedSlot(slot)`: `none` when the range does not lie inside the buffer's bytes
(Go would panic, or return stale bytes between `len` and `cap`). -/
def Buf.savedSlot (b : Buf) (slot : Slot) : Option Bytes := slice b.data slot.Index slot.Length

/-- `Discard(slot)`; `none` = panic on a slice bound. -/
def Buf.discard (b : Buf) (slot : Slot) : Option (Buf × Int) :=
  if slot.Length ≤ 0 then some (b, 0)
  else if 0 ≤ slot.Index ∧ slot.Index + slot.Length ≤ b.wi then
    some ({ data := b.data.take slot.Index.toNat ++ b.data.drop (slot.Index + slot.Length).toNat,
            si := b.si - slot.Length, ri := b.ri - slot.Length }, slot.Length)
  else none

/-- `SaveLen()`. -/
def Buf.saveLen (b : Buf) : Int := b.si

/-- `DiscardAll()`. -/
def Buf.discardAll (b : Buf) : Option Buf := (b.discard ⟨0, b.saveLen⟩).map (·.1)

/-! ## The workflow operations -/

structure St where
  buf : Buf
  sq : Seqr                         -- sequencer stream
  tree : Tree                       -- offsetter-only stream: the bare offsetter …
  live : List (Int × Slot)          -- … and the slots the caller holds, by handle
  next : Int
  deriving Repr

def init (maxSlots maxBytes : Int) : St :=
  { buf := Buf.new, sq := Seqr.new maxSlots maxBytes, tree := Tree.new maxBytes, live := [], next := 0 }

/-- `Write(bytes); Commit(len bytes); Save(n)`. -/
def feed (b : Buf) (bytes : Bytes) (n : Int) : Buf × Slot := ((b.write bytes).commit bytes.length).save n

def step (s : St) : Op → St × Obs
  | .park seq bytes n =>
      let f := feed s.buf bytes n                 -- (buffer, slot returned by Save)
      let p := s.sq.push seq f.2                  -- (sequencer, ok, err)
      if p.2.1 = true then
        ({ s with buf := f.1, sq := p.1 }, .park f.2.Index f.2.Length p.2.1 p.2.2 p.1.bytes p.1.size f.1.saved)
      else match f.1.discard f.2 with
        | none => (s, .panic)
        | some d => ({ s with buf := d.1, sq := p.1 }, .park f.2.Index f.2.Length p.2.1 p.2.2 p.1.bytes p.1.size d.1.saved)
  | .take seq =>
      match s.sq.pop seq with
      | none => (s, .panic)
      | some p =>                                 -- (sequencer, slot, ok)
        if p.2.2 = true then
          match s.buf.discard p.2.1 with
          | none => (s, .panic)
          | some d =>
            ({ s with buf := d.1, sq := p.1 },
              .take true p.2.1.Index p.2.1.Length (s.buf.savedSlot p.2.1) p.1.bytes p.1.size d.1.saved)
        else ({ s with sq := p.1 }, .take false p.2.1.Index p.2.1.Length none p.1.bytes p.1.size s.buf.saved)
  | .add bytes n =>
      let f := feed s.buf bytes n
      match offsetterAdd s.tree f.2 with
      | some slot' =>
        ({ s with buf := f.1, live := s.live ++ [(s.next, slot')], next := s.next + 1 },
          .add f.2.Index f.2.Length false slot'.Index slot'.Length f.1.saved)
      | none => match f.1.discard f.2 with
        | none => (s, .panic)
        | some d => ({ s with buf := d.1 }, .add f.2.Index f.2.Length true 0 0 d.1.saved)
  | .off h =>
      match s.live.lookup h with
      | none => (s, .skip)
      | some slot =>
        match offsetterOffset s.tree slot with
        | none => (s, .panic)
        | some o =>                               -- (tree, offset slot)
          match s.buf.discard o.2 with
          | none => (s, .panic)
          | some d =>
            ({ s with buf := d.1, tree := o.1, live := s.live.filter (fun p => p.1 != h) },
              .off o.2.Index o.2.Length (s.buf.savedSlot o.2) d.1.saved)
  | .reset =>
      if s.live = [] then ({ s with tree := s.tree.reset }, .unit) else (s, .skip)
  | .resetAll =>
      match s.buf.discardAll with
      | none => (s, .panic)
      | some b => ({ s with buf := b, sq := s.sq.reset }, .unit)

/-- The model's trace for a script. -/
def run : St → List Op → List (Op × Obs)
  | _, [] => []
  | s, op :: r => let (s', ob) := step s op; (op, ob) :: run s' r

end Sonic.Model.Slots
