/-
What a process observes of a run of the asynchronous WebSocket model (`Sonic.Model.WsAsync`): the function from model
runs to the events the property monitor `Sonic.Spec.WsAsync` is fed with (C17 refinement, `Props/C17.lean`).

The model is at frame-identity granularity (`Tag`s with sizes, incoming frames reduced to what `handleFrame` looks at);
the monitor sees concrete things: call arguments, the frames the peer sent, frames and message bytes handed to
callbacks, the frames an independent parser recovered from the bytes the peer received. An *observed label* (`OLabel`)
is a model label together with the concrete data a real trace line carries (`Call` = a `call` line with its arguments,
`peer g` = the frame the peer sent, `rdGot k` = "the read brought k complete frames", ...); `ostep` executes the model
label it stands for (`Call.action`, `absFrame` are the abstractions the trace driver uses, `Driver/WsAsync.lean`) and
returns the monitor events of that line (`Call.ev` etc. are what `Driver/WsAsyncSpec.lean` parses from it). The observer
state `Ob` carries the concrete content the model does not: the frames on their way from the peer, the frame the
completing read hands over, the bytes a message read has gathered, and for every submitted frame identity the content
its submitter gave it (`Sub`: what the frame must look like on the wire - frame bytes themselves are C16's business).

`ostep` is total on the model's transitions: it fails only if the model cannot take the label or if an event of the
environment is placed where the harness never places it (`drain` / `finish` while code is executing, a `drain` that
reports more frames than the transport has completely accepted, `finish` before the run has come to rest).
-/
import Sonic.Model.WsAsync
import Sonic.Spec.WsAsync

namespace Sonic.Model.WsAsyncObs
open Sonic.Model.WsAsync
open Sonic.Spec.WsStream (Bytes StreamState replyCode closeCodeOf u16)
open Sonic.Spec.WsAsync (Ev Kind Want WireFrame pattern fnv)

/-- a frame sent by the peer, concretely -/
abbrev CFrame := Sonic.Spec.WsStream.InFrame
abbrev SRes := Sonic.Spec.WsAsync.Res

/-- encoded size of a client frame with `len` payload bytes (header, extended length, mask) -/
def frameSize (len : Nat) : Nat := 2 + (if len ≤ 125 then 0 else if len ≤ 65535 then 2 else 8) + 4 + len

def opOf (n : Nat) : InOp :=
  if n = 0 then .cont else if n = 1 then .text else if n = 2 then .binary else if n = 8 then .close
  else if n = 9 then .ping else if n = 10 then .pong else .reserved

/-- what `handleFrame` / `asyncNextMessage` look at in a frame of the peer -/
def absFrame (g : CFrame) : InFrame :=
  { op := opOf g.op, fin := g.fin, len := g.payload.length, viol := g.rsv != 0 || g.masked,
    closeOk := g.payload.length ≥ 2 && replyCode g.payload == closeCodeOf g.payload }

def stOf : WsState → StreamState
  | .active => .active | .closedByUs => .closedByUs | .closedByPeer => .closedByPeer | .closeAcked => .closeAcked
  | .terminated => .terminated

def resOf : Res → SRes
  | .ok => .ok | .cancelled => .cancelled | .eof => .eof | .tooBig => .tooBig | .proto => .proto | .err => .err

/-- An API call with the arguments the application gave it (a `call` line of a trace). -/
inductive Call where
  | read (cb : CbId)
  | readMsg (cb : CbId) (room : Nat)
  | write (cb : CbId) (ty : Nat) (len : Nat)                      -- payload = `pattern cb len`
  | writeFrame (cb : CbId) (fin : Bool) (op : Nat) (len : Nat)
  | flush (cb : CbId)
  | close (cb : CbId) (code : Nat) (reason : Bytes)
  | poll
  deriving Repr, DecidableEq

/-- the model's view of a call (`max` = configured maximum message size) -/
def Call.action (max : Nat) : Call → Action
  | .read cb => .read cb
  | .readMsg cb room => .readMsg cb room
  | .write cb _ len => if len > max then .writeTooBig cb else .write cb (frameSize len)
  | .writeFrame cb _ _ len => .writeFrame cb (frameSize len)
  | .flush cb => .flush cb
  | .close cb _ reason => .close cb (frameSize (2 + reason.length))
  | .poll => .poll

/-- the monitor's view of a call -/
def Call.ev : Call → Ev
  | .read cb => .callRead cb
  | .readMsg cb room => .callReadMsg cb room
  | .write cb ty len => .callWrite cb ty len
  | .writeFrame cb fin op len => .callWriteFrame cb fin op len
  | .flush cb => .callFlush cb
  | .close cb code reason => .callClose cb code reason
  | .poll => .callPoll

def Call.reg : Call → Option (CbId × Kind)
  | .read cb => some (cb, .read)
  | .readMsg cb _ => some (cb, .readMsg)
  | .write cb _ _ => some (cb, .write)
  | .writeFrame cb _ _ _ => some (cb, .writeFrame)
  | .flush cb => some (cb, .flush)
  | .close cb _ _ => some (cb, .close)
  | .poll => none

/-- the frame with these header bits and this (unmasked) payload, as the peer's parser reports it -/
def wfOf (fin : Bool) (op : Nat) (p : Bytes) : WireFrame :=
  { fin := fin, rsv := 0, op := op, masked := true, len := p.length, hash := fnv p, head := p.take 4 }

/-- A submitted frame identity with its content: what the monitor will want on the wire, and what the peer's parser
reports when it arrives. -/
structure Sub where
  frame : OutFrame
  want : Want
  wf : WireFrame
  deriving Repr

def subExact (f : OutFrame) (fin : Bool) (op : Nat) (p : Bytes) : Sub := ⟨f, .exact fin op p, wfOf fin op p⟩
def subClose (f : OutFrame) (code : Nat) (rest : Bytes) : Sub := ⟨f, .closeCode code, wfOf true 8 (u16 code ++ rest)⟩

/-- "payload too big" -/
def tooBigReason : Bytes := [112, 97, 121, 108, 111, 97, 100, 32, 116, 111, 111, 32, 98, 105, 103]

/-- The content of a frame the model has just queued: an application frame carries what the call `c` gave it, a reply
answers the frame `g` the read path has just handled (Pong: the Ping's payload; Close reply: the status code
`replyCode`, with the peer's reason when the peer's payload is echoed), the library's own Close frames carry their fixed
codes. -/
def conc (c : Option Call) (g : Option CFrame) (f : OutFrame) : Sub :=
  match f.tag, c, g with
  | .app cb, some (.write _ ty len), _ => subExact f true ty (pattern cb len)
  | .app cb, some (.writeFrame _ fin op len), _ => subExact f fin op (pattern cb len)
  | .closeApp _, some (.close _ code reason), _ => subExact f true 8 (u16 code ++ reason)
  | .pong _, _, some g => subExact f true 10 g.payload
  | .closeReply _, _, some g =>
    subClose f (replyCode g.payload) (if g.payload.length ≥ 2 && (absFrame g).closeOk then g.payload.drop 2 else [])
  | .closeViolation _, _, _ => subClose f 1002 []
  | .closeTooBig _, _, _ => subClose f 1001 tooBigReason
  | _, _, _ => subExact f false 0 []      -- never reached (`Coupled.subM`)

/-- Observer state: the concrete content of a run. -/
structure Ob where
  kinds : List (CbId × Kind) := []   -- which API call every callback id was handed to
  net : List CFrame := []            -- sent by the peer, not yet read by the adapter
  inboxC : List CFrame := []         -- read by the adapter, not yet decoded (the model's `inbox`)
  held : List CFrame := []           -- data fragments the message read in flight has consumed since its last callback
  cur : Option CFrame := none        -- the frame the read path has just handled, not yet handed to a callback
  macc : Bytes := []                 -- payload the message read in flight had gathered at its last control callback
  sub : List Sub := []               -- the model's `submitted`, with content
  reported : Nat := 0                -- frames of the wire the peer has already reported
  reader : Option (CbId × Bool) := none   -- the read that is outstanding (callback id, "is a message read")
  deriving Repr

def kindOf (o : Ob) (cb : CbId) : Kind := (o.kinds.lookup cb).getD .flush

def payloads (fs : List CFrame) : Bytes := fs.flatMap (·.payload)

/-- the frames queued by the model step `s → s'` get their content -/
def grow (s s' : St) (o : Ob) (c : Option Call) (g : Option CFrame) : Ob :=
  { o with sub := o.sub ++ (s'.submitted.drop s.submitted.length).map (conc c g) }

/-- the read path took frame `g` (model step `s → s'`): it is kept as a fragment if the message read goes on, and is
the frame the next callback is about otherwise -/
def took (s s' : St) (o : Ob) (g : CFrame) : Ob :=
  let o := grow s s' o none (some g)
  match s'.stack with
  | .again .. :: _ => { o with held := o.held ++ [g], cur := none }
  | _ => { o with cur := some g }

/-- the Close(1006) frame `asyncNextFrame` hands to the callback when the transport ends -/
def close1006 : CFrame := { fin := true, rsv := 0, op := 8, masked := false, payload := u16 1006 }

/-- Observed labels: the lines of a trace. -/
inductive OLabel where
  | call (c : Call)
  | skip (a : Action)
  | ret
  | enter (cb : CbId) (r : Res)
  | exit (cb : CbId)
  | ctl
  | tau
  | wrote (n : Nat)
  | wrErr
  | rdGot (k : Nat)          -- the read reactor ran; the bytes read complete the next `k` frames the peer sent
  | rdEof | rdErr
  | peer (g : CFrame)        -- the peer sends a frame
  | peerEof                  -- the peer half-closes
  | drain (k : Nat)          -- the peer reads what the transport accepted and reports the next `k` complete frames
  | finish                   -- end of the run
  deriving Repr, DecidableEq

/-- One observed step: the model transition of the line and the monitor events it produces. -/
def ostep (max : Nat) (prog : CbId → List Action) (s : St) (o : Ob) : OLabel → Option (St × Ob × List Ev)
  | .call c =>
    match step true prog s (.call (c.action max)) with
    | none => none
    | some s' =>
      let o1 := grow s s' o (some c) none
      some (s', { o1 with kinds := (match c.reg with | some p => p :: o.kinds | none => o.kinds),
                          reader := (match c with
                            | .read cb => some (cb, false)
                            | .readMsg cb _ => some (cb, true)
                            | _ => o.reader) }, [c.ev])
  | .skip a => (step true prog s (.skip a)).map fun s' => (s', o, [.skip])
  | .ret => (step true prog s .ret).map fun s' => (s', o, [.ret (stOf s'.ws)])
  | .enter cb r =>
    (step true prog s (.enter cb r)).map fun s' =>
      let k := kindOf o cb
      (s', if k.isRead then { o with held := [], cur := none, macc := [], reader := none } else o,
       [.enter cb (resOf r) (if k == .read then o.cur else none)
          (if k == .readMsg then some (o.macc ++ payloads o.held ++ payloads o.cur.toList) else none) (stOf s'.ws)])
  | .exit cb => (step true prog s (.exit cb)).map fun s' => (s', o, [.exit cb])
  | .ctl =>
    (step true prog s .ctl).map fun s' =>
      let g := o.cur.getD default
      (s', { o with macc := o.macc ++ payloads o.held, held := [], cur := none }, [.ctl g.op g.payload (stOf s'.ws)])
  | .tau =>
    (step true prog s .tau).map fun s' =>
      match s.stack with
      | .resume _ _ ok :: _ =>
        if ok && s.ws.canRead then
          match o.inboxC with
          | g :: rest => (s', took s s' { o with inboxC := rest } g, [])
          | [] => (s', o, [])
        else (s', { o with cur := none }, [])       -- `callback(err, nil)`
      | _ => (s', o, [])
  | .wrote n => (step true prog s (.wrote n)).map fun s' => (s', o, [])
  | .wrErr => (step true prog s .wrErr).map fun s' => (s', o, [.transportErr])
  | .rdGot k =>
    (step true prog s (.rdGot ((o.net.take k).map absFrame))).map fun s' =>
      match o.net.take k with
      | [] => (s', o, [])
      | g :: rest => (s', took s s' { o with net := o.net.drop k, inboxC := rest } g, [])
  | .rdEof => (step true prog s .rdEof).map fun s' => (s', { o with cur := some close1006 }, [])
  | .rdErr => (step true prog s .rdErr).map fun s' => (s', { o with cur := none }, [.transportErr])
  | .peer g => some (s, { o with net := o.net ++ [g] }, [.peer g])
  | .peerEof => some (s, o, [.peerEof])
  | .drain k =>
    if s.stack = [] ∧ o.reported + k ≤ s.wire.length then
      some (s, { o with reported := o.reported + k }, [.wire (((o.sub.drop o.reported).take k).map (·.wf))])
    else none
  | .finish =>
    if quiescent s ∧ s.pending = [] ∧ o.reported = s.wire.length then some (s, o, [.finish 0 s.healthy]) else none

/-- The events a process observes of a run, from the initial state on. -/
def otrace (max : Nat) (prog : CbId → List Action) : St → Ob → List OLabel → Option (List Ev)
  | _, _, [] => some []
  | s, o, l :: r =>
    match ostep max prog s o l with
    | none => none
    | some (s', o', evs) => (otrace max prog s' o' r).map (evs ++ ·)

/-- the model label an observed label stands for (`none`: an event of the environment, no model transition) -/
def OLabel.label (max : Nat) (o : Ob) : OLabel → Option Label
  | .call c => some (.call (c.action max))
  | .skip a => some (.skip a)
  | .ret => some .ret
  | .enter cb r => some (.enter cb r)
  | .exit cb => some (.exit cb)
  | .ctl => some .ctl
  | .tau => some .tau
  | .wrote n => some (.wrote n)
  | .wrErr => some .wrErr
  | .rdGot k => some (.rdGot ((o.net.take k).map absFrame))
  | .rdEof => some .rdEof
  | .rdErr => some .rdErr
  | .peer _ | .peerEof | .drain _ | .finish => none

end Sonic.Model.WsAsyncObs
