/-
The part of `sonic.ByteBuffer` (byte_buffer.go) that the websocket frame codec and the codec
connection use, method by method: `Reserve`, `Reserved`, `Commit`, `Data`, `ReadLen`, `WriteLen`,
`SaveLen`, `Consume`, `PrepareRead`, `Write`, `ReadFrom`.

`data` holds `b.data[:b.wi]` (the code keeps `len(b.data) = b.wi` after every call); bytes between
`wi` and `cap` are never read before they are overwritten, so they are not stored.  Every slice
expression of the Go code is a checked operation here: a bound outside `0 ≤ lo ≤ hi ≤ cap` is the
outcome `.error .sliceBounds` (Go would panic).  The capacity after `append` is chosen by the Go
runtime: it is an argument (`cap'`), checked for admissibility where it is used.

Index arithmetic is over `Int` without wrap-around: under `Buf.Inv` (proved to hold in every reachable
state, `Lemmas/WsDecode.lean`) all operands lie in `[0, cap] ⊆ [0, MaxInt64]`; `PrepareRead`'s
`n - ReadLen()`, which the codec can reach with a wrapped `n`, uses `Go.sub`.
-/
import Sonic.Go.Prelude

namespace Sonic.Model.WsBuf

inductive Panic where
  | sliceBounds       -- slice bounds out of range
  | indexRange        -- index out of range
  | outsideReceived   -- no Go panic, but bytes outside the read area (not yet received) would be interpreted
  | allocRange        -- `make`/`append` asked for more than MaxInt64 bytes (Go panics: len out of range)
  | env               -- not a failure of the code: the capacity reported by the runtime is not one `append` can produce
  deriving Repr, DecidableEq

abbrev M := Except Panic

structure Buf where
  si   : Int
  ri   : Int
  wi   : Int
  cap  : Int
  data : List UInt8
  deriving Repr, DecidableEq

namespace Buf

/-- `NewByteBuffer()`: `make([]byte, 0, 512)`. -/
def new : Buf := { si := 0, ri := 0, wi := 0, cap := 512, data := [] }

/-- `len(b.data[lo:hi])`; Go checks `0 ≤ lo ≤ hi ≤ cap(b.data)`. -/
def sliceLen (b : Buf) (lo hi : Int) : M Int :=
  if 0 ≤ lo ∧ lo ≤ hi ∧ hi ≤ b.cap then pure (hi - lo) else throw .sliceBounds

def SaveLen (b : Buf) : M Int := b.sliceLen 0 b.si
def ReadLen (b : Buf) : M Int := b.sliceLen b.si b.ri
def WriteLen (b : Buf) : M Int := b.sliceLen b.ri b.wi
def Reserved (b : Buf) : Int := b.cap - b.wi

/-- `Reserve(n)`. When it has to grow (`append(b.data[:cap], make([]byte, need)...)`) the new capacity `cap'` is the
runtime's choice: anything that holds `cap + need = wi + n` bytes. -/
def Reserve (b : Buf) (n : Int) (cap' : Int) : M Buf :=
  let existing := b.cap - b.wi
  if n > existing then
    if b.wi + n > Go.I64MAX then throw .allocRange
    else if ¬ (b.wi + n ≤ cap' ∧ cap' ≤ Go.I64MAX) then throw .env
    -- b.data = b.data[:cap(b.data)]; b.data = append(b.data, make([]byte, need)...); b.data = b.data[:b.wi]
    else if 0 ≤ b.wi ∧ b.wi ≤ cap' then pure { b with cap := cap' } else throw .sliceBounds
  else
    if 0 ≤ b.wi ∧ b.wi ≤ b.cap then pure b else throw .sliceBounds

def Commit (b : Buf) (n : Int) : Buf :=
  if n ≤ 0 then b
  else
    let writeLen := b.wi - b.ri
    let n := if n > writeLen then writeLen else n
    { b with ri := b.ri + n }

/-- `PrepareRead(n)`; the boolean is `err == ErrNeedMore`. -/
def PrepareRead (b : Buf) (n : Int) : M (Buf × Bool) := do
  if n > (← b.ReadLen) then
    let need := Go.sub n (← b.ReadLen)
    if (← b.WriteLen) ≥ need then pure (b.Commit need, false) else pure (b, true)
  else pure (b, false)

def Consume (b : Buf) (n : Int) : M Buf :=
  if n ≤ 0 then pure b
  else do
    let readLen ← b.ReadLen
    let n := if n > readLen then readLen else n
    if n > 0 then
      -- copy(b.data[b.si:], b.data[b.si+n:b.wi]); b.ri -= n; b.wi -= n; b.data = b.data[:b.wi]
      if 0 ≤ b.si ∧ b.si ≤ b.wi ∧ b.si + n ≤ b.wi ∧ b.wi ≤ b.cap ∧ 0 ≤ b.wi - n then
        pure { b with ri := b.ri - n, wi := b.wi - n,
                      data := b.data.take b.si.toNat ++ b.data.drop (b.si + n).toNat }
      else throw .sliceBounds
    else pure b

/-- `Write(bb)`: `b.data = append(b.data, bb...)`; `b.wi += n`; `b.data = b.data[:b.wi]`. The capacity stays if the
bytes fit, otherwise it is the runtime's choice `cap'`. -/
def Write (b : Buf) (bs : List UInt8) (cap' : Int) : M Buf :=
  let wi := b.wi + bs.length
  if wi ≤ b.cap then pure { b with wi := wi, data := b.data ++ bs }
  else if wi ≤ cap' ∧ cap' ≤ Go.I64MAX then pure { b with wi := wi, cap := cap', data := b.data ++ bs }
  else throw .env

/-- `ReadFrom(r)` for a reader that hands over as much of `avail` as fits into `b.data[b.wi:cap(b.data)]`.
Returns the buffer and the number of bytes taken. -/
def ReadFrom (b : Buf) (avail : List UInt8) : M (Buf × Nat) := do
  let room ← b.sliceLen b.wi b.cap
  let n := min room.toNat avail.length
  pure ({ b with wi := b.wi + n, data := b.data ++ avail.take n }, n)

/-- `b.Data()[:n]` as a byte list.  `b.Data()` is `b.data[b.si:b.ri]` (capacity `cap - si`), so Go accepts any
`0 ≤ n ≤ cap - si`; bytes past `ri` have not been received, which the model reports as its own outcome. -/
def dataPrefix (b : Buf) (n : Int) : M (List UInt8) :=
  if ¬ (0 ≤ b.si ∧ b.si ≤ b.ri ∧ b.ri ≤ b.cap) then throw .sliceBounds
  else if ¬ (0 ≤ n ∧ n ≤ b.cap - b.si) then throw .sliceBounds
  else if n > b.ri - b.si then throw .outsideReceived
  else pure ((b.data.drop b.si.toNat).take n.toNat)

/-- The documented invariant plus the model's representation invariant. -/
def Inv (b : Buf) : Prop :=
  b.si = 0 ∧ 0 ≤ b.ri ∧ b.ri ≤ b.wi ∧ b.wi ≤ b.cap ∧ b.cap ≤ Go.I64MAX ∧ (b.data.length : Int) = b.wi
instance (b : Buf) : Decidable b.Inv := by unfold Inv; exact inferInstance

end Buf
end Sonic.Model.WsBuf
