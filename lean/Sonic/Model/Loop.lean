/-
Executable model of the event loop's bookkeeping (io.go, internal/poll_linux.go, file.go, async_adapter.go,
listen_conn.go, packet.go, timer.go, internal/timer_linux.go), as a labelled transition system over the same
events the harness records and the monitor `Sonic.Spec.Loop` reads.

`step w e = none` means: the library, in state `w`, cannot produce event `e`.  Everything the kernel decides
(did the syscall complete, which registered descriptors are reported by epoll and in which order) is resolved by
the event itself, so the model is deterministic given the trace and needs no model of the kernel: at a poll any
registered handler may be dispatched.  What the model does track is exactly the library's own state: the
interest bits and stored handlers of every slot, the poller's pending count and post queue, the IO registry,
`IO.Dispatched`, the timer state machine, and the continuation of every library frame on the stack.
-/
import Sonic.Spec.Loop

namespace Sonic.Model.Loop
open Sonic.Spec.Loop

inductive TState where
  | ready | scheduled | closed
  deriving Repr, DecidableEq, Inhabited

structure Obj where
  id : Nat
  kind : ObjKind
  closed : Bool := false
  evR : Bool := false          -- slot.Events & read
  evW : Bool := false          -- slot.Events & write
  hR : Nat := 0                -- operation whose continuation is stored in slot.Handlers[ReadEvent]
  hW : Nat := 0
  registered : Bool := false   -- the IO registry holds the slot
  tstate : TState := .ready    -- timers
  cancelled : Bool := false
  cancels : Nat := 0           -- number of successful Cancel calls so far (`Timer.cancels`)
  rep : Bool := false
  deriving Repr, DecidableEq, Inhabited

/-- What the library does when the user handler on top of it returns. -/
inductive After where
  | none
  | decDisp                    -- `ioc.Dispatched--` (inline completion wrapper)
  | postDone                   -- `pending--` after a posted handler
  | timerDone (obj : Nat) (rep : Bool) (cancelsBefore : Nat)   -- a repeating schedule re-arms unless a Cancel succeeded while its
                               -- callback ran (`cancelsBefore`: the counter when the wrapper started)
  deriving Repr, DecidableEq, Inhabited

inductive Phase where
  | reads | writes | done
  deriving Repr, DecidableEq, Inhabited

/-- Library frames (defunctionalised continuations) and user handler frames. -/
inductive K where
  | startCall (op obj : Nat) (kind : OpKind) (completed : Bool)
  | user (op : Nat) (after : After)
  | cancelCall (obj : Nat) (phase : Phase)
  | closeCall (obj : Nat)
  | schedCall (op obj : Nat) (rep : Bool) (ticks : Int) (completed : Bool)
  | tcancelCall (obj : Nat)
  | scheduledCall (obj : Nat)
  | postCall (op : Nat)
  | pollCall (any : Bool)
  | pendingCall
  | otherCall
  | finishCall                 -- the harness' drain phase: further calls are made from inside it
  deriving Repr, DecidableEq, Inhabited

structure OpInfo where
  id : Nat
  obj : Nat
  kind : OpKind
  deriving Repr, DecidableEq, Inhabited

structure World where
  objs : List Obj := []
  pending : Int := 0           -- poller.pending
  dispatched : Int := 0        -- IO.Dispatched
  posts : List Nat := []       -- poller.posts
  ops : List OpInfo := []      -- every operation ever started (ids are fresh)
  stack : List K := []
  deriving Repr, Inhabited

def getObj (w : World) (k : Nat) : Option Obj := w.objs.find? (·.id == k)
def setObj (w : World) (o : Obj) : World := { w with objs := w.objs.map fun x => if x.id == o.id then o else x }
def getOp (w : World) (id : Nat) : Option OpInfo := w.ops.find? (·.id == id)

/-- Control is in user code: top level or inside a handler. -/
def inUser (w : World) : Bool :=
  match w.stack with
  | [] => true
  | .user _ _ :: _ => true
  | .finishCall :: _ => true
  | _ => false

/-- poller.SetRead + slot.Set (the handler is stored first, the interest is added only if absent). -/
def setRead (w : World) (o : Obj) (op : Nat) : World :=
  if o.evR then setObj w { o with hR := op, registered := true }
  else setObj { w with pending := w.pending + 1 } { o with hR := op, evR := true, registered := true }

def setWrite (w : World) (o : Obj) (op : Nat) : World :=
  if o.evW then setObj w { o with hW := op, registered := true }
  else setObj { w with pending := w.pending + 1 } { o with hW := op, evW := true, registered := true }

/-- poller.DelRead followed by IO.Deregister (which keeps the slot while the other direction is registered). -/
def delRead (w : World) (o : Obj) : World :=
  if o.evR then setObj { w with pending := w.pending - 1 } { o with evR := false, registered := o.evW }
  else w

def delWrite (w : World) (o : Obj) : World :=
  if o.evW then setObj { w with pending := w.pending - 1 } { o with evW := false, registered := o.evR }
  else w

def hasInline : ObjKind → Bool
  | .adapter => false
  | _ => true

def hasCancel : ObjKind → Bool
  | .stream | .regular | .adapter => true
  | _ => false

/-- Arm a timer slot (internal.Timer.Set → SetRead). -/
def armTimer (w : World) (o : Obj) (op : Nat) (rep : Bool) : World :=
  let w := if o.evR then w else { w with pending := w.pending + 1 }
  setObj w { o with evR := true, hR := op, tstate := .scheduled, cancelled := false, rep := rep }

/-- internal.Timer.Unset → poller.Del: the pending count drops iff the timer was armed. The caller clears `evR`. -/
def unsetPending (w : World) (o : Obj) : World :=
  { w with pending := w.pending - (if o.evR then 1 else 0) }

def push (w : World) (k : K) : World := { w with stack := k :: w.stack }

/-- What happens after the user handler on top returns. -/
def applyAfter (w : World) (op : Nat) : After → World
  | .none => w
  | .decDisp => { w with dispatched := w.dispatched - 1 }
  | .postDone => { w with pending := w.pending - 1 }
  | .timerDone k rep cb =>
    match getObj w k with
    | none => w
    | some o =>
      if !rep || o.kind != .timer then w
      else if o.cancelled || o.cancels != cb then setObj w { o with cancelled := false }
      else if o.tstate == .ready then armTimer w o op true       -- ScheduleOnce(repeat, ccb)
      else w                                                      -- ErrCancelled, ignored by ccb

/-- `enter op` while a poll is dispatching: the handler of a registered interest, a posted handler. -/
def pollDispatch (w : World) (op : Nat) (rest : List K) : Option World :=
  match getOp w op with
  | none => none
  | some info =>
    if info.kind == .post then
      match w.posts with
      | p :: ps => if p == op then some { w with posts := ps, stack := .user op .postDone :: .pollCall true :: rest } else none
      | [] => none
    else
      match getObj w info.obj with
      | none => none
      | some o =>
        if info.kind.isTimer then
          if o.kind == .timer && o.evR && o.hR == op then
            -- timer handler: DelRead by the poller, then `delete pendingTimers; state = ready; cb()`; the wrapper of a
          -- repeating schedule notes the number of Cancels so far (`cancelsBefore := t.cancels`) when it starts
            let w := setObj { w with pending := w.pending - 1 } { o with evR := false, tstate := .ready }
            some { w with stack := .user op (.timerDone o.id (info.kind == .timerRep) o.cancels) :: .pollCall true :: rest }
          else none
        else if o.kind == .timer then none
        else if info.kind.isRead then
          if o.evR && o.hR == op then
            some { (delRead w o) with stack := .user op .none :: .pollCall true :: rest }
          else none
        else
          if o.evW && o.hW == op then
            some { (delWrite w o) with stack := .user op .none :: .pollCall true :: rest }
          else none

def isErrRes (r : Res) : Bool := r == .eof || r == .err || r == .cancelled

/-- Cancel: cancelReads, then cancelWrites. -/
def cancelStep (w : World) (k : Nat) (phase : Phase) (rest : List K) (e : Ev) : Option World :=
  match getObj w k with
  | none => none
  | some o =>
    let canR := hasCancel o.kind && o.evR && phase == .reads
    let canW := hasCancel o.kind && o.evW && phase != .done
    match e with
    | .enter op res _ _ _ =>
      if canR then
        if op == o.hR && (res == .cancelled || res == .err) then
          let w := delRead w o
          some { w with stack := .user op .none :: .cancelCall k .writes :: rest }
        else none
      else if canW then
        if op == o.hW && (res == .cancelled || res == .err) then
          let w := delWrite w o
          some { w with stack := .user op .none :: .cancelCall k .done :: rest }
        else none
      else none
    | .ret _ => if canR || canW then none else some { w with stack := rest }
    | _ => none

/-- `Close`: `poller.Del` (both interests, the pending count drops by one for each that was set), `Deregister`,
mark closed.  Timers: `Unset` + state closed. -/
def closeObj (w : World) (o : Obj) : World :=
  if o.kind == .timer then
    setObj (unsetPending w o) { o with evR := false, tstate := .closed }
  else
    setObj { w with pending := w.pending - ((if o.evR then 1 else 0) + (if o.evW then 1 else 0)) }
      { o with evR := false, evW := false, closed := true, registered := false }

def step (w : World) (e : Ev) : Option World :=
  match w.stack, e with
  -- object creation (top level only)
  | [], .obj k kind => if (getObj w k).isSome then none else some { w with objs := { id := k, kind := kind } :: w.objs }
  -- a handler returns to the library
  | .user op after :: rest, .exit op' =>
    if op == op' then some (applyAfter { w with stack := rest } op after) else none
  -- inside Cancel
  | .cancelCall k phase :: rest, e => cancelStep w k phase rest e
  -- inside a start call
  | .startCall op k kind false :: rest, .enter op' res _ _ _ =>
    if op != op' then none else
    match getObj w k with
    | none => none
    | some o =>
      -- `if ioc.Dispatched < MaxCallbackDispatch { asyncReadNow(..., wrapper) } else { scheduleRead(...) }`
      if hasInline o.kind && decide (w.dispatched < (maxDispatch : Int)) then
        some { w with dispatched := w.dispatched + 1, stack := .user op .decDisp :: .startCall op k kind true :: rest }
      else if (o.closed && res == .eof) || res == .err then
        -- scheduleRead/Write on a closed object, or the registration failed: callback without the wrapper
        some { w with stack := .user op .none :: .startCall op k kind true :: rest }
      else none
  | .startCall op k kind completed :: rest, .ret _ =>
    if completed then some { w with stack := rest } else
    match getObj w k with
    | none => none
    | some o =>
      if o.closed || o.kind == .timer then none
      else if kind.isRead then some { (setRead w o op) with stack := rest }
      else some { (setWrite w o op) with stack := rest }
  -- Close
  | .closeCall k :: rest, .ret (.err isNil) =>
    match getObj w k with
    | none => none
    | some o =>
      let already := if o.kind == .timer then false else o.closed
      if already then (if isNil then none else some { w with stack := rest })
      else if !isNil then none
      else if o.kind == .timer && o.tstate == .closed then some { w with stack := rest }
      else some { (closeObj w o) with stack := rest }
  -- Schedule
  | .schedCall op k rep ticks false :: rest, .enter op' _ _ _ _ =>
    match getObj w k with
    | none => none
    | some o =>
      if op == op' && !rep && ticks ≤ 0 && o.tstate == .ready && o.kind == .timer then
        some { (setObj w { o with cancelled := false }) with stack := .user op .none :: .schedCall op k rep ticks true :: rest }
      else none
  | .schedCall op k rep ticks completed :: rest, .ret (.err isNil) =>
    match getObj w k with
    | none => none
    | some o =>
      if completed then (if isNil then some { w with stack := rest } else none)
      else if (rep && ticks ≤ 0) || o.tstate != .ready then (if isNil then none else some { w with stack := rest })
      else if ticks ≤ 0 then none
      else if isNil && o.kind == .timer then some { (armTimer w o op rep) with stack := rest } else none
  | .tcancelCall k :: rest, .ret (.err isNil) =>
    match getObj w k with
    | none => none
    | some o =>
      if !isNil || o.kind != .timer then none
      else if o.tstate == .closed then some { w with stack := rest }
      else
        some { (setObj (unsetPending w o) { o with evR := false, cancelled := true, cancels := o.cancels + 1, tstate := .ready }) with stack := rest }
  | .scheduledCall k :: rest, .ret (.bool b) =>
    match getObj w k with
    | none => none
    | some o => if b == (o.tstate == .scheduled) then some { w with stack := rest } else none
  | .postCall op :: rest, .ret (.err isNil) =>
    if isNil then some { w with posts := w.posts ++ [op], pending := w.pending + 1, stack := rest } else none
  -- poll
  | .pollCall _ :: rest, .enter op _ _ _ _ => pollDispatch w op rest
  | .pollCall any :: rest, .ret (.poll n _) => if n == 0 then none else some { w with stack := rest }
  | .pollCall any :: rest, .ret (.pollTimeout n) => if any && n ≥ 0 then none else some { w with stack := rest }
  | .pendingCall :: rest, .ret (.pending p q d) =>
    if p == w.pending && q == (w.posts.length : Int) && d == w.dispatched then some { w with stack := rest } else none
  | .otherCall :: rest, .ret _ => some { w with stack := rest }
  -- calls from user code
  | st, e =>
    if !inUser w then none else
    match e with
    | .callStart op k kind _ =>
      match getObj w k with
      | none => none
      | some o =>
        -- (operation ids are fresh; timers have their own calls; `kind` is one of the I/O kinds)
        if (getOp w op).isSome || o.kind == .timer || !kind.isIO then none else
        some { w with ops := { id := op, obj := k, kind := kind } :: w.ops, stack := .startCall op k kind false :: st }
    | .callCancel k => some (push w (.cancelCall k .reads))
    | .callClose k => some (push w (.closeCall k))
    | .callSched op k rep ticks =>
      if (getOp w op).isSome || ((getObj w k).map (·.kind)) != some .timer then none else
      some { w with ops := { id := op, obj := k, kind := if rep then .timerRep else .timerOnce } :: w.ops,
                    stack := .schedCall op k rep ticks false :: st }
    | .callTCancel k => some (push w (.tcancelCall k))
    | .callScheduled k => some (push w (.scheduledCall k))
    | .callPost op =>
      if (getOp w op).isSome then none else
      some { w with ops := { id := op, obj := 0, kind := .post } :: w.ops, stack := .postCall op :: st }
    | .callSetDisp n => some { w with dispatched := n, stack := .otherCall :: st }
    | .callPoll => some (push w (.pollCall false))
    | .callPending => some (push w .pendingCall)
    | .callPeerWrite _ _ | .callPeerDrain _ | .callPeerOther => some (push w .otherCall)
    | .callFinish => some (push w .finishCall)
    | .ret (.stuck _) => (match st with | .finishCall :: rest => some { w with stack := rest } | _ => none)
    | _ => none

def run (w : World) : List Ev → Option World
  | [] => some w
  | e :: r => match step w e with
    | some w' => run w' r
    | none => none

end Sonic.Model.Loop
