/-
Executable model of the write path of `websocket.Stream` (stream.go) in the client role, at frame granularity:
`Write/WriteFrame/AsyncWrite/AsyncWriteFrame`, `prepareWrite`, `Close/AsyncClose/prepareClose`, `Flush`,
`AsyncFlush/asyncFlush`, on top of `CodecConn.WriteNext/AsyncWriteNext` (codec.go), `FrameCodec.Encode` and the frame
building model of `Model/WsEncode.lean`, writing to the scripted transport of the harness (`memstream.go`), whose
partial-write plan and deferral flag are part of the state.

Environment values: the masking keys (`crypto/rand`), and for caller-built frames the length of the pooled
slice `AcquireFrame` returned (`sync.Pool` is the runtime's).
-/
import Sonic.Model.WsEncode

namespace Sonic.Model.WsWritePath
open Sonic.Model.WsBuf Sonic.Model.WsFrame Sonic.Model.WsEncode

/-- `Write`-type errors. -/
inductive Err where
  | nil | tooBig | cancelled | eof
  deriving Repr, DecidableEq

/-- An asynchronous write sitting in the transport (`memStream.pendingWrite` with `all = true`). -/
structure InFlight where
  bytes : List UInt8     -- the encoded frame (read area of `dst`)
  done  : Nat
  deriving Repr, DecidableEq

structure WS where
  max      : Int
  active   : Bool                 -- `state == StateActive` (false after Close: `StateClosedByUs`)
  pending  : List (List UInt8)    -- `pendingFrames`, each as the bytes `Encode` will produce (frames do not change once queued)
  flushing : Bool                 -- `asyncFlushing`
  owner    : Nat                  -- callback of the `AsyncFlush` in progress
  waiters  : List Nat             -- `asyncFlushWaiters`
  inflight : Option InFlight
  plan     : List Nat             -- `memStream.writePlan`
  deferW   : Bool                 -- `memStream.deferWrites`
  /-- Ghost (no influence on behaviour): every frame ever queued, in submission order, and every byte the transport accepted. -/
  hist     : List (List UInt8) := []
  out      : List UInt8 := []
  deriving Repr, DecidableEq

def WS.init (max : Int) : WS :=
  { max := max, active := true, pending := [], flushing := false, owner := 0, waiters := [], inflight := none, plan := [], deferW := false }

/-- What one call shows: result, callbacks run (id, error), bytes accepted by the transport and their split. -/
structure Out where
  res  : Option Err := none
  cbs  : List (Nat × Err) := []
  wire : List UInt8 := []
  segs : List Nat := []
  deriving Repr, DecidableEq

/-- `memStream.accept`: the transport takes `min(len(b), plan[0])` bytes (everything without a plan). -/
def accept (plan : List Nat) (n : Nat) : Nat × List Nat :=
  match plan with
  | [] => (n, [])
  | p :: rest => (min n p, rest)

/-- `ByteBuffer.WriteTo(stream)` for the blocking path: write until the read area is empty. A transport that keeps
accepting 0 bytes would loop forever; `fuel` turns that into `none` (outside the modelled usage). -/
def writeAll : Nat → List Nat → List UInt8 → List Nat → Option (List Nat × List Nat)
  | _, plan, [], segs => some (plan, segs)
  | 0, _, _ :: _, _ => none
  | fuel + 1, plan, b, segs =>
    let (n, plan') := accept plan b.length
    writeAll fuel plan' (b.drop n) (segs ++ [n])

/-- `Flush()`: every pending frame, in order, encoded and written completely. -/
def flushSync (s : WS) (o : Out) : Option (WS × Out) :=
  s.pending.foldlM (init := ({ s with pending := [] }, o)) fun (s, o) fr =>
    match writeAll (fr.length + s.plan.length + 1) s.plan fr [] with
    | none => none
    | some (plan', segs) => some ({ s with plan := plan', out := s.out ++ fr }, { o with wire := o.wire ++ fr, segs := o.segs ++ segs })

/-- `memStream.pumpWrite` for `AsyncWriteAll`: accept until the frame is complete or the transport takes 0 bytes. -/
def pumpWrite : Nat → List Nat → InFlight → List Nat → List Nat × InFlight × List Nat × Bool
  | 0, plan, w, segs => (plan, w, segs, false)
  | fuel + 1, plan, w, segs =>
    let (n, plan') := accept plan (w.bytes.length - w.done)
    let w' := { w with done := w.done + n }
    if w'.done = w.bytes.length then (plan', w', segs ++ [n], true)
    else if n = 0 then (plan', w', segs ++ [n], false)
    else pumpWrite fuel plan' w' (segs ++ [n])

/-- `asyncFlush(callback)` and what happens when the transport completes a write: send the next pending frame, or,
with nothing pending, run the owner's callback and the waiters'. `start = true` enters at `asyncFlush`, `false`
re-enters the transport with the frame in flight (`pump`). -/
def asyncRun : Nat → WS → Out → Bool → WS × Out
  | 0, s, o, _ => (s, o)
  | fuel + 1, s, o, start =>
    if start then
      match s.pending with
      | [] =>
        -- callback(nil): asyncFlushing = false; waiters = nil; callback(err); for waiters: waiter(err)
        ({ s with flushing := false, waiters := [] }, { o with cbs := o.cbs ++ (s.owner, Err.nil) :: s.waiters.map (·, Err.nil) })
      | fr :: rest =>
        let s := { s with pending := rest, inflight := some { bytes := fr, done := 0 } }
        if s.deferW then (s, o) else asyncRun fuel s o false
    else
      match s.inflight with
      | none => (s, o)
      | some w =>
        let (plan', w', segs, complete) := pumpWrite (w.bytes.length + s.plan.length + 1) s.plan w []
        let emitted := (w.bytes.drop w.done).take (w'.done - w.done)
        let o := { o with wire := o.wire ++ emitted, segs := o.segs ++ segs }
        if complete then asyncRun fuel { s with plan := plan', inflight := none, out := s.out ++ emitted } o true
        else ({ s with plan := plan', inflight := some w', out := s.out ++ emitted }, o)

/-- `AsyncFlush(callback)`. -/
def asyncFlush (s : WS) (o : Out) (id : Nat) : WS × Out :=
  if s.flushing then ({ s with waiters := s.waiters ++ [id] }, o)
  else asyncRun (2 * s.pending.length + 4) { s with flushing := true, owner := id } o true

/-- Caller-visible operations with the environment's answers. -/
inductive WOp where
  | plan (l : List Nat)
  | defer (b : Bool)
  | write (async : Bool) (opcode : UInt8) (payload : List UInt8) (keys : List (List UInt8))
  | frame (async : Bool) (opcode : UInt8) (fin : Bool) (payload : Option (List UInt8)) (flen : Nat) (keys : List (List UInt8))
  | flush (async : Bool)
  | close (async : Bool) (code : Nat) (reason : List UInt8) (keys : List (List UInt8))
  | pump
  deriving Repr, DecidableEq

/-- `AcquireFrame()` (client: `SetIsMasked`), `SetFIN`, `SetOpcode`, `SetPayload`, then `prepareWrite`'s `MaskPayload`,
and finally the bytes `Encode` will hand to the write buffer. `pooled` is the slice the pool returned; `key` is the
key `crypto/rand` produces if one is drawn (iff `len(f.Payload()) > 0`). Returns the bytes and whether a key was drawn. -/
def buildFrame (pooled : PFrame) (fin : Bool) (opcode : UInt8) (payload : Option (List UInt8)) (key : List UInt8) :
    M (List UInt8 × Bool) := do
  let f ← pooled.SetIsMasked
  let f ← if fin then f.SetFIN else pure f
  let f ← f.SetOpcode opcode
  let f ← match payload with
    | some b => f.SetPayload b
    | none => pure f
  -- MaskPayload draws a key only when the frame's payload slice is not empty
  let poff ← payloadOffset (← f.SetIsMasked).bytes
  let needKey := decide (f.len > poff)
  if needKey ∧ key.length ≠ 4 then throw .env
  let f ← f.MaskPayload key
  pure (← f.wire, needKey)

/-- The keys the environment reported for one call must be exactly the keys the call drew. -/
def keysOk (used : Bool) (keys : List (List UInt8)) : Bool := if used then keys.length == 1 else keys.isEmpty

/-- `buildFrame` with the keys the environment reported for the call: at most one, 4 bytes long, present iff drawn. -/
def buildChecked (pooled : PFrame) (fin : Bool) (opcode : UInt8) (payload : Option (List UInt8)) (keys : List (List UInt8)) :
    M (List UInt8) :=
  if (keys.headD [0, 0, 0, 0]).length ≠ 4 then throw .env
  else do
    let r ← buildFrame pooled fin opcode payload (keys.headD [0, 0, 0, 0])
    if keysOk r.2 keys then pure r.1 else throw .env

/-- A pooled frame of length `n` whose header bytes are zero (`releaseFrame` resets them); the backing array has at least
the 14 bytes `NewFrame` allocated. (Contents past the header are stale bytes in reality; `C16_wire_format` shows
that they never reach the wire, whatever they are.) -/
def pooledFrame (n : Nat) : PFrame := { arr := List.replicate (max n 14) 0, len := n }

def submit (s : WS) (o : Out) (async : Bool) (id : Nat) (fr : List UInt8) : Option (WS × Out) :=
  let s := { s with pending := s.pending ++ [fr], hist := s.hist ++ [fr] }
  if async then some (asyncFlush s o id)
  else if s.inflight.isSome ∨ s.flushing then none      -- a blocking write while an asynchronous one is in flight: not modelled (C17)
  else (flushSync s o).map fun (s, o) => (s, { o with res := some .nil })

/-- One operation. `none` inside `M` = the script leaves the modelled usage (blocking call during an asynchronous
flush, transport that never accepts a byte). -/
def step (s : WS) (id : Nat) : WOp → M (Option (WS × Out))
  | .plan l => pure (some ({ s with plan := l }, {}))
  | .defer b => pure (some ({ s with deferW := b }, {}))
  | .write async opcode payload keys => do
      if (payload.length : Int) > s.max then
        pure (some (s, if async then { cbs := [(id, .tooBig)] } else { res := some .tooBig }))
      else if s.active then
        let fr ← buildChecked PFrame.new true opcode (some payload) keys
        pure (submit s {} async id fr)
      else pure (some (s, if async then { cbs := [(id, .cancelled)] } else { res := some .cancelled }))
  | .frame async opcode fin payload flen keys => do
      if s.active then
        let fr ← buildChecked (pooledFrame flen) fin opcode payload keys
        pure (submit s {} async id fr)
      else pure (some (s, if async then { cbs := [(id, .cancelled)] } else { res := some .cancelled }))
  | .flush async =>
      if async then pure (some (asyncFlush s {} id))
      else if s.inflight.isSome ∨ s.flushing then pure none
      else pure ((flushSync s {}).map fun (s, o) => (s, { o with res := some .nil }))
  | .close async code reason keys => do
      if s.active then
        let payload := Spec.WsFrame.beBytes 2 (code % 65536) ++ reason
        let fr ← buildChecked PFrame.new true 8 (some payload) keys
        pure (submit { s with active := false } {} async id fr)
      else pure (some (s, if async then { cbs := [(id, .cancelled)] } else { res := some .cancelled }))
  | .pump => pure (some (asyncRun (2 * s.pending.length + 4) s {} false))

end Sonic.Model.WsWritePath
