/-
Executable model of the read path of `websocket.Stream` (client role) from transport bytes to delivered messages:
the composition of

* the byte-level decoder model of C07 — `FrameCodec.Decode` over the ByteBuffer (`Model/WsFrame.lean`, `Model/WsBuf.lean`),
* `CodecConn.ReadNext` / `AsyncReadNext` (codec.go): decode; on `ErrNeedMore` one transport read into the buffer's free
  space (`ByteBuffer.ReadFrom` / `AsyncReadFrom`); decode again — new here, `readNextFuel`,
* the frame-level stream model of C08 — `handleFrame` (verifyFrame, handleControlFrame, handleDataFrame), `Flush`,
  `canRead` and the assembly record `Asm` of `Model/WsStream.lean`,
* `NextFrame/nextFrame`, `AsyncNextFrame/asyncNextFrame`, `NextMessage`, `asyncNextMessage` (stream.go) on top of
  that reader — the same decision trees as in `Model/WsStream.lean`, with the abstract "next frame of the peer"
  replaced by the decoder.

The transport is the scripted one of the harness: a queue of segments; a read returns the first segment, cut to the
room offered (the rest stays queued); with nothing queued it reports "no data" (a script never blocks).  The capacity
the Go runtime gives the read buffer when `Reserve` has to grow it is an environment value: `rooms` lists, per
transport read, the room (`Reserved()`) that was offered.
-/
import Sonic.Model.WsFrame
import Sonic.Model.WsStream
import Sonic.Spec.WsMessages

namespace Sonic.Model.WsMsg
open Sonic.Model.WsBuf Sonic.Model.WsFrame Sonic.Spec.WsStream
open Sonic.Model.WsStream (M Next Asm handleFrame flush canRead close1006 close isControl tooBigReason)

inductive Fail where
  | buf (p : Panic)     -- the decoder / buffer model failed (panic, bytes outside the read area, inadmissible capacity)
  | unreachable         -- Go `panic("unreachable")` in handleControlFrame
  | fuel                -- a loop of the code did not end within the model's bound
  deriving Repr, DecidableEq

abbrev X := Except Fail

def lift {α : Type} (x : WsBuf.M α) : X α :=
  match x with
  | .ok a => .ok a
  | .error p => .error (.buf p)

structure W where
  m : M                          -- the stream: state, pendingFrames, frames written (its peer queue is not used)
  c : Codec                      -- FrameCodec + `src`
  chunks : List (List UInt8)     -- transport: segments not yet read
  rooms : List Int               -- environment: room offered to each coming transport read
  reads : List (Int × Nat)       -- ghost: (room offered, bytes taken) of every transport read so far
  deriving Repr, DecidableEq

/-- A fresh stream: `NewWebsocketStream` + `VerifAttach` + `SetMaxMessageSize(max)`; `cap` = capacity of `src` after the
constructor's `Reserve(4096)`. -/
def W.init (max : Nat) (cap : Int) (chunks : List (List UInt8)) (rooms : List Int) : W :=
  { m := Sonic.Model.WsStream.new max, c := Codec.new { Buf.new with cap := cap } max, chunks := chunks, rooms := rooms,
    reads := [] }

/-- The frame as `handleFrame` and the caller see it (through the accessors). -/
def toIn (f : Spec.WsFrame.Frame) : InFrame :=
  { fin := f.fin, rsv := (if f.rsv1 then 4 else 0) + (if f.rsv2 then 2 else 0) + (if f.rsv3 then 1 else 0),
    op := f.opcode, masked := f.masked, payload := f.payload }

/-- The capacity the runtime gives `src` if this `Decode` grows it: the one that leaves the observed room. -/
def capFor (c : Codec) (rooms : List Int) : Int :=
  match rooms, c.resetDecode with
  | r :: _, .ok c1 => c1.buf.wi + r
  | _, _ => c.buf.cap

/-- `c.src.ReadFrom(c.stream)` / `AsyncReadFrom` after `ErrNeedMore`: one transport read into `data[wi:cap]`, then
`k` = decode again. With nothing queued the scripted transport reports "no data". -/
def transportRead (k : W → X (W × Next)) (w : W) : X (W × Next) :=
  let room := w.c.buf.Reserved
  let w := { w with rooms := w.rooms.tail }
  match w.chunks with
  | [] => pure ({ w with reads := w.reads ++ [(room, 0)] }, .err .nodata)
  | ch :: rest => do
    let rr ← lift (w.c.buf.ReadFrom ch)
    let chunks := if rr.2 < ch.length then ch.drop rr.2 :: rest else rest
    k { w with c := { w.c with buf := rr.1 }, chunks := chunks, reads := w.reads ++ [(room, rr.2)] }

/-- What `ReadNext` does with the outcome of `Decode`. -/
def onDecoded (k : W → X (W × Next)) (w : W) : Decoded → X (W × Next)
  | .frame fb => do
    let v ← lift (view fb)
    pure (w, .frame (toIn v.1))
  | .tooBig => pure (w, .err .overMax)
  | .needMore => transportRead k w

/-- `CodecConn.ReadNext` and the callback chain of `AsyncReadNext` (the same loop). -/
def readNextFuel : Nat → W → X (W × Next)
  | 0, _ => throw .fuel
  | fuel + 1, w => do
    let r ← lift (w.c.Decode (capFor w.c w.rooms))
    onDecoded (readNextFuel fuel) { w with c := r.1 } r.2.1

/-- Every iteration but the last takes at least one byte of a segment, or removes an empty one. -/
def readFuel (w : W) : Nat := (w.chunks.map List.length).sum + w.chunks.length + 1

def readNext (w : W) : X (W × Next) := readNextFuel (readFuel w) w

/-- `nextFrame` and the callback of `asyncNextFrame`. -/
def nextFrameInner (w : W) : X (W × Err × Option InFrame) := do
  let r ← readNext w
  match r.2 with
  | .err e =>
    if e = .eof then pure ({ r.1 with m := { r.1.m with state := .terminated } }, .eof, some close1006)
    else pure (r.1, e, none)
  | .frame f =>
    match handleFrame r.1.m f with
    | none => throw .unreachable
    | some (m, e) => pure ({ r.1 with m := m }, e, some f)

/-- `NextFrame` / `AsyncNextFrame`. -/
def nextFrame (async : Bool) (w : W) : X (W × Err × Option InFrame) := do
  let w := { w with m := flush w.m }
  if !canRead w.m then
    pure (if async then { w with m := { w.m with state := .terminated } } else w, .eof, none)
  else
    let r ← nextFrameInner w
    pure (if !async && r.2.1 == .eof then { r.1 with m := { r.1.m with state := .terminated } } else r.1, r.2.1, r.2.2)

/-- The body of the loop of `NextMessage` / the callback of `asyncNextMessage` for a frame delivered without error;
`k` = read the next frame. -/
def onFrame (k : W → Asm → X (W × Err × Asm)) (buf : Nat) (w : W) (a : Asm) (f : InFrame) : X (W × Err × Asm) :=
  if isControl f.op then
    k w { a with ctl := a.ctl ++ [(f.op, f.payload)] }     -- s.controlCallback(MessageType(f.Opcode()), f.Payload())
  else
    let ty := if a.ty = 255 then f.op else a.ty
    let n := a.n + min (buf - a.n) f.payload.length                  -- copy(b[readBytes:], f.Payload())
    let data := a.data ++ f.payload.take (min (buf - a.n) f.payload.length)
    if n > w.m.max ∨ min (buf - a.n) f.payload.length ≠ f.payload.length then
      pure ({ w with m := (close w.m 1001 tooBigReason).1 }, .tooBig, { a with ty := ty, n := n, data := data })
    else
      let e : Err :=
        if !a.cont then (if f.op = 0 then .unexpCont else .nil)
        else (if f.op ≠ 0 then .expCont else .nil)
      if e ≠ .nil ∨ (!f.fin) = false then pure (w, e, { a with ty := ty, n := n, data := data, cont := !f.fin })
      else k w { a with ty := ty, n := n, data := data, cont := !f.fin }

/-- `NextMessage` / `asyncNextMessage`: the loop over frames, `a` = (messageType, readBytes, b[:readBytes], continuation)
and what the control callback has received. -/
def nextMessageFuel (async : Bool) (buf : Nat) : Nat → W → Asm → X (W × Err × Asm)
  | 0, _, _ => throw .fuel
  | fuel + 1, w, a => do
    let r ← nextFrame async w
    if r.2.1 ≠ .nil then pure (r.1, r.2.1, a)
    else match r.2.2 with
    | none => pure (r.1, .other, a)      -- not reachable: a frame accompanies err == nil
    | some f => onFrame (nextMessageFuel async buf fuel) buf r.1 a f

/-- Every frame takes at least two bytes. -/
def msgFuel (w : W) : Nat := w.c.buf.data.length + (w.chunks.map List.length).sum + 2

def nextMessage (async : Bool) (buf : Nat) (w : W) : X (W × Err × Asm) := nextMessageFuel async buf (msgFuel w) w {}

/-! ## The readers of the harness: call the API until it reports an error (at most `k` times) -/

def runFrames (async : Bool) : Nat → W → X (List (Err × Option InFrame) × W)
  | 0, w => pure ([], w)
  | k + 1, w => do
    let r ← nextFrame async w
    if r.2.1 ≠ .nil then pure ([(r.2.1, r.2.2)], r.1)
    else
      let t ← runFrames async k r.1
      pure ((r.2.1, r.2.2) :: t.1, t.2)

def runMsgs (async : Bool) (buf : Nat) : Nat → W → X (List (Err × Asm) × W)
  | 0, w => pure ([], w)
  | k + 1, w => do
    let r ← nextMessage async buf w
    if r.2.1 ≠ .nil then pure ([(r.2.1, r.2.2)], r.1)
    else
      let t ← runMsgs async buf k r.1
      pure ((r.2.1, r.2.2) :: t.1, t.2)

/-- The scripted segmentation: segments of the given lengths, what is left after the last cut is one more segment;
a cut of 0 queues an empty segment (a transport read that completes with no bytes and no error). -/
def segments : List Nat → List UInt8 → List (List UInt8)
  | [], bs => if bs.isEmpty then [] else [bs]
  | n :: r, bs => if n = 0 then [] :: segments r bs else if bs.isEmpty then segments r bs else bs.take n :: segments r (bs.drop n)

/-! ## What the harness prints for a `read` operation -/

/-- The model has no memory outside `b[:n]`: `clean` is always true here; that the real code leaves the caller's buffer
beyond `n` alone is checked on the implementation only (sentinel bytes in the harness). -/
def msgOutOf (x : Err × Asm) : Spec.WsMessages.MsgOut :=
  { err := x.1, ty := x.2.ty, n := x.2.n, data := x.2.data, clean := true, ctl := x.2.ctl }

def frameOutOf (x : Err × Option InFrame) : Spec.WsMessages.FrameOut := { err := x.1, f := x.2 }

/-- One reader on a fresh stream: the observation, and the final state (for the transport-read log). -/
def observe (api : Spec.WsMessages.Api) (async : Bool) (buf k : Nat) (w : W) : X (Spec.WsMessages.Obs × W) :=
  match api with
  | .frame => (runFrames async k w).map fun x => (.frames (x.1.map frameOutOf), x.2)
  | .msg => (runMsgs async buf k w).map fun x => (.msgs (x.1.map msgOutOf), x.2)

end Sonic.Model.WsMsg
