/-
Descriptor-table model for property C13: objects that own descriptors, `Close` guarded by a closed flag (what
`file.go`, `listen_conn.go`, `packet.go`, `async_adapter.go`, `socket.go`, `multicast/peer.go`, `timer.go` and
`internal/poll_linux.go` do — the path table `Gen/Resources.closeTwice` is the tie to that code), and the kernel's
descriptor allocation.

The kernel's choice of descriptor numbers is an *input* (`Op.new k fds`): any numbers that are not open are allowed, so
the theorems hold for every allocation policy; `lowestFree` is the policy Linux implements and what the trace acceptor
checks the observed numbers against.
-/
import Sonic.Gen.Resources

namespace Sonic.Model.Resources

structure Obj where
  id     : Nat
  fds    : List Nat          -- the numbers stored in the object's fields (`slot.Fd`, `fd`): they stay there after Close
  closed : Bool := false
  deriving Repr, DecidableEq, Inhabited

/-- A `close(fd)` system call issued by `Close` of object `obj`, with the owner of that number at that moment. -/
structure CloseEv where
  obj   : Nat
  fd    : Nat
  owner : Option Nat
  deriving Repr, DecidableEq, Inhabited

structure World where
  table : List (Nat × Nat) := []     -- the open descriptors: (number, owning object)
  objs  : List Obj := []
  log   : List CloseEv := []
  deriving Repr, DecidableEq, Inhabited

inductive Op where
  | new (k : Nat) (fds : List Nat)    -- object `k` is created and the kernel gives it these (unused, distinct) numbers
  | close (k : Nat)                   -- `Close` is called on object `k` (any number of times)
  deriving Repr, DecidableEq, Inhabited

def ownerOf (w : World) (fd : Nat) : Option Nat := (w.table.find? (·.1 == fd)).map (·.2)
def getObj (w : World) (k : Nat) : Option Obj := w.objs.find? (·.id == k)
def isOpen (w : World) (fd : Nat) : Bool := w.table.any (·.1 == fd)

def distinct : List Nat → Bool
  | [] => true
  | a :: r => !r.contains a && distinct r

/-- `guard = true` is the library (closed flag tested first); `guard = false` is the code before the repairs
a913e9d / ace3dfc (listener and packet connection closed their stored number unconditionally). `none`: the operation
is impossible (the kernel never hands out an open number, object ids are fresh). -/
def step (guard : Bool) (w : World) : Op → Option World
  | .new k fds =>
    if (getObj w k).isSome || !distinct fds || fds.any (isOpen w) then none
    else some { w with table := fds.map (·, k) ++ w.table, objs := { id := k, fds := fds } :: w.objs }
  | .close k =>
    match getObj w k with
    | none => none
    | some o =>
      if o.closed && guard then some w                      -- `if !CompareAndSwap(&closed, 0, 1) { return io.EOF }`
      else some { table := w.table.filter (fun e => !o.fds.contains e.1),
                  objs := w.objs.map (fun x => if x.id == k then { x with closed := true } else x),
                  log := w.log ++ o.fds.map (fun fd => { obj := k, fd := fd, owner := ownerOf w fd }) }

def run (guard : Bool) (w : World) : List Op → Option World
  | [] => some w
  | op :: r => match step guard w op with
    | some w' => run guard w' r
    | none => none

/-- A close that hit a descriptor the closing object did not own at that moment. -/
def CloseEv.foreign (e : CloseEv) : Bool := e.owner != some e.obj

/-! ### The kernel's allocation policy: lowest free number -/

def lowestFreeAux (used : List Nat) : Nat → Nat → Nat
  | 0, n => n
  | fuel + 1, n => if used.contains n then lowestFreeAux used fuel (n + 1) else n

def lowestFree (used : List Nat) : Nat := lowestFreeAux used used.length 0

/-- `n` consecutive allocations. -/
def allocN (used : List Nat) : Nat → List Nat
  | 0 => []
  | n + 1 => let fd := lowestFree used; fd :: allocN (fd :: used) n

/-! ### Descriptor tables under a resource path (C13_no_leak, table form)

`runFds T evs`: interpret the descriptor-class events of a path against the table `T` of open descriptor numbers, every
acquisition taking the lowest free number. -/

/-- one descriptor acquisition: resource `r` gets the lowest free number -/
def acqFd (st : List Nat × List (Nat × Nat)) (r : Nat) : Option (List Nat × List (Nat × Nat)) :=
  if st.2.any (·.1 == r) then none else
  let fd := lowestFree st.1
  some (fd :: st.1, (r, fd) :: st.2)

open Sonic.Model.ResPath in
def acqAll (st : List Nat × List (Nat × Nat)) : List (Nat × Cls) → Option (List Nat × List (Nat × Nat))
  | [] => some st
  | (r, .fd) :: rest => match acqFd st r with
    | some st' => acqAll st' rest
    | none => none
  | _ :: rest => acqAll st rest

open Sonic.Model.ResPath in
def stepFd (st : List Nat × List (Nat × Nat)) : Ev → Option (List Nat × List (Nat × Nat))
  | .acquire r .fd _ => acqFd st r
  | .call _ _ rs => acqAll st rs
  | .release r _ =>
    match st.2.find? (·.1 == r) with
    | some e => some (st.1.filter (· != e.2), st.2.filter (·.1 != r))
    | none => some st            -- not a descriptor (a mapping or a file name): judged by `ResPath.run`
  | _ => some st

open Sonic.Model.ResPath in
def runFds (st : List Nat × List (Nat × Nat)) : List Ev → Option (List Nat × List (Nat × Nat))
  | [] => some st
  | e :: r => match stepFd st e with
    | some st' => runFds st' r
    | none => none

end Sonic.Model.Resources
