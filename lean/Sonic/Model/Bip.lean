/-
Executable model of `sonic.BipBuffer`: the definitions regenerated from bip_buffer.go
(`Sonic.Gen.BipBuffer`) wrapped into an operation/observation step function.
-/
import Sonic.Gen.BipBuffer
import Sonic.Spec.Bip

namespace Sonic.Model.Bip
open Sonic.Gen.BipBuffer Sonic.Spec.Bip

def obsView (v : Go.View) : Obs :=
  if v.valid = false then .panic
  else if v.hi - v.lo ≤ 0 then .view 0 0 else .view v.lo (v.hi - v.lo)

def new (size : Int) : BipBuffer :=
  { size := size, head := 0, tail := 0, wrappedHead := 0, wrappedTail := 0, claimHead := 0, claimTail := 0 }

def step (b : BipBuffer) : Op → BipBuffer × Obs
  | .claim n   => let r := b.Claim n;  (r.1, obsView r.2)
  | .commit n  => let r := b.Commit n; (r.1, obsView r.2)
  | .head      => (b, obsView b.Head)
  | .consume n => (b.Consume n, .unit)
  | .committed => (b, .int b.Committed)
  | .reset     => (b.Reset, .unit)

/-- The model's trace for a script. -/
def run : BipBuffer → List Op → List (Op × Obs)
  | _, [] => []
  | b, op :: r => let (b', ob) := step b op; (op, ob) :: run b' r

end Sonic.Model.Bip
