/-
Executable model of the websocket frame layer, function by function:

* `codec/websocket/frame.go`   — the `Frame` accessors the decoder and the harness use
  (`ExtendedPayloadLengthBytes`, `PayloadLength`, `IsFIN/IsRSV*/Opcode/IsMasked`, `MaskBytes`, `maskOffset`,
  `Mask`, `payloadOffset`, `Payload`);
* `codec/websocket/frame_codec.go` — `resetDecode` and `Decode`, branch by branch, over the ByteBuffer
  model of `Model/WsBuf.lean`.

A Go `Frame` value (a byte slice) is the list of its `len(f)` bytes.  `f[i]` is a checked index.  A slice
expression `f[lo:hi]` must stay within `len(f)` (Go itself allows up to `cap(f)`; going past `len(f)` would
interpret bytes that are not part of the frame and is reported like a panic).
-/
import Sonic.Model.WsBuf
import Sonic.Spec.WsFrame

namespace Sonic.Model.WsFrame
open Sonic.Model.WsBuf

abbrev FrameBytes := List UInt8

/-- `f[i]`. -/
def idx (f : FrameBytes) (i : Nat) : M UInt8 :=
  if i < f.length then pure (f.getD i 0) else throw .indexRange

/-- `f[lo:hi]`. -/
def slice (f : FrameBytes) (lo hi : Nat) : M FrameBytes :=
  if lo ≤ hi ∧ hi ≤ f.length then pure ((f.drop lo).take (hi - lo)) else throw .sliceBounds

/-- `binary.BigEndian.UintNN(b)`: the bytes of `b`, most significant first. -/
def beUint (l : List UInt8) : Nat := l.foldl (fun acc b => acc * 256 + b.toNat) 0

/-- `int(x)` for `x : uint64`: reinterpretation of the 64 bits (values ≥ 2^63 become negative). -/
def u64ToInt (x : Nat) : Int := (BitVec.ofNat 64 x).toInt

def frameHeaderLength : Nat := 2
def frameMaskLength : Nat := 4
def frameMaxHeaderLength : Nat := 14

def ExtendedPayloadLengthBytes (f : FrameBytes) : M Nat := do
  let b ← idx f 1
  let v := b &&& 0x7f
  if v == 127 then pure 8 else if v == 126 then pure 2 else pure 0

def PayloadLength (f : FrameBytes) : M Int := do
  let b ← idx f 1
  let length := b &&& 0x7f
  if length == 127 then
    let s ← slice f frameHeaderLength (frameHeaderLength + 8)
    pure (u64ToInt (beUint s))
  else if length == 126 then
    let s ← slice f frameHeaderLength (frameHeaderLength + 2)
    pure (beUint s : Int)
  else pure (length.toNat : Int)

def IsFIN (f : FrameBytes) : M Bool := do let b ← idx f 0; pure ((b &&& 0x80) != 0)
def IsRSV1 (f : FrameBytes) : M Bool := do let b ← idx f 0; pure ((b &&& 0x40) != 0)
def IsRSV2 (f : FrameBytes) : M Bool := do let b ← idx f 0; pure ((b &&& 0x20) != 0)
def IsRSV3 (f : FrameBytes) : M Bool := do let b ← idx f 0; pure ((b &&& 0x10) != 0)
def Opcode (f : FrameBytes) : M UInt8 := do let b ← idx f 0; pure (b &&& 0x0f)
def IsMasked (f : FrameBytes) : M Bool := do let b ← idx f 1; pure ((b &&& 0x80) != 0)

def MaskBytes (f : FrameBytes) : M Nat := do
  if (← IsMasked f) then pure frameMaskLength else pure 0

def maskOffset (f : FrameBytes) : M Nat := do
  pure (frameHeaderLength + (← ExtendedPayloadLengthBytes f))

/-- `Mask()`: `f[f.maskOffset():][:frameMaskLength]`, or nil. -/
def Mask (f : FrameBytes) : M FrameBytes := do
  if (← IsMasked f) then
    let off ← maskOffset f
    slice f off (off + frameMaskLength)
  else pure []

def payloadOffset (f : FrameBytes) : M Nat := do
  pure (frameHeaderLength + (← ExtendedPayloadLengthBytes f) + (← MaskBytes f))

/-- `Payload()`: `f[f.payloadOffset():]`. -/
def Payload (f : FrameBytes) : M FrameBytes := do
  let off ← payloadOffset f
  slice f off f.length

/-- A frame as the harness prints it: through the accessors only. -/
def view (f : FrameBytes) : M (Spec.WsFrame.Frame × Nat) := do
  let fin ← IsFIN f
  let r1 ← IsRSV1 f
  let r2 ← IsRSV2 f
  let r3 ← IsRSV3 f
  let op ← Opcode f
  let m ← IsMasked f
  let mask ← Mask f
  let p ← Payload f
  pure ({ fin := fin, rsv1 := r1, rsv2 := r2, rsv3 := r3, opcode := op.toNat, masked := m, mask := mask, payload := p },
        f.length)

/-! ## FrameCodec -/

structure Codec where
  buf      : Buf      -- `c.src` (the harness and the stream pass the same buffer to `Decode`)
  frameLen : Int      -- `len(c.decodeFrame)`; the frame aliases `src.Data()[:frameLen]`
  reset    : Bool     -- `c.decodeReset`
  max      : Int      -- `c.maxMessageSize`
  deriving Repr, DecidableEq

/-- `NewFrameCodec`: `decodeFrame = NewFrame()` (14 bytes), `decodeReset = false`. -/
def Codec.new (buf : Buf) (max : Int) : Codec :=
  { buf := buf, frameLen := frameMaxHeaderLength, reset := false, max := max }

inductive Decoded where
  | frame (f : FrameBytes)
  | needMore
  | tooBig
  deriving Repr, DecidableEq

def Codec.resetDecode (c : Codec) : M Codec :=
  if c.reset then do
    let b ← c.buf.Consume c.frameLen
    pure { c with reset := false, buf := b, frameLen := 0 }
  else pure c

/-- Leaving `Decode` with `c.decodeFrame = nil`. -/
def Codec.fail (c : Codec) (b : Buf) (o : Decoded) : Codec × Decoded × Option Int :=
  ({ c with buf := b, frameLen := 0 }, o, none)

/-! `Decode` after `resetDecode`, cut into its four "read …" paragraphs. Each returns the codec, the outcome
and — ghost, for `C07_bounded` — the argument of `src.Reserve` when it was called. `cap'` is the capacity
after that `Reserve` (chosen by the runtime). -/

/-- "read the payload": `readSoFar += payloadLength` … `return c.decodeFrame, nil`. -/
def Codec.readPayload (c : Codec) (b : Buf) (readSoFar payloadLength cap' : Int) : M (Codec × Decoded × Option Int) := do
  let readSoFar := Go.add readSoFar payloadLength
  let r ← b.PrepareRead readSoFar
  if r.2 then
    let b ← r.1.Reserve payloadLength cap'
    pure ({ c with buf := b, frameLen := 0 }, .needMore, some payloadLength)
  else
    let f ← r.1.dataPrefix readSoFar
    pure ({ c with buf := r.1, frameLen := f.length, reset := true }, .frame f, none)

/-- "read mask if any". -/
def Codec.readMask (c : Codec) (b : Buf) (f : FrameBytes) (readSoFar payloadLength cap' : Int) :
    M (Codec × Decoded × Option Int) := do
  if (← IsMasked f) then
    let readSoFar := readSoFar + frameMaskLength
    let r ← b.PrepareRead readSoFar
    if r.2 then pure (c.fail r.1 .needMore) else
    let _f ← r.1.dataPrefix readSoFar
    c.readPayload r.1 readSoFar payloadLength cap'
  else c.readPayload b readSoFar payloadLength cap'

/-- "read the extended payload length (0, 2 or 8 bytes) and check if within bounds". -/
def Codec.readLength (c : Codec) (b : Buf) (f : FrameBytes) (readSoFar cap' : Int) : M (Codec × Decoded × Option Int) := do
  let readSoFar := readSoFar + (← ExtendedPayloadLengthBytes f)
  let r ← b.PrepareRead readSoFar
  if r.2 then pure (c.fail r.1 .needMore) else
  let f ← r.1.dataPrefix readSoFar
  let payloadLength ← PayloadLength f
  if payloadLength < 0 ∨ payloadLength > c.max then pure (c.fail r.1 .tooBig) else
  c.readMask r.1 f readSoFar payloadLength cap'

/-- "read the mandatory header". -/
def Codec.decodeBody (c : Codec) (cap' : Int) : M (Codec × Decoded × Option Int) := do
  let readSoFar : Int := frameHeaderLength
  let r ← c.buf.PrepareRead readSoFar
  if r.2 then pure (c.fail r.1 .needMore) else
  let f ← r.1.dataPrefix readSoFar
  c.readLength r.1 f readSoFar cap'

def Codec.Decode (c : Codec) (cap' : Int) : M (Codec × Decoded × Option Int) := do
  let c ← c.resetDecode
  c.decodeBody cap'

/-! ## The decoder as a script interpreter (what the driver replays and the theorems quantify over) -/

/-- Operations with the environment's answers: `cap'` is the capacity of `src` after the call (`append`'s choice). -/
inductive DOp where
  | feed (bs : List UInt8) (cap' : Int)
  | read (bs : List UInt8)
  | decode (cap' : Int)
  | commit (n : Int)        -- `src.Commit(n)` by the caller: received bytes move from the write area into the read area
  deriving Repr, DecidableEq

def DOp.toSpec : DOp → Spec.WsFrame.Op
  | .feed bs _ => .feed bs
  | .read bs => .read bs
  | .decode _ => .decode
  | .commit _ => .feed []     -- the monitor sees no new bytes; the buffer must still hold exactly the unconsumed ones

structure DState where
  c : Codec
  backlog : List UInt8      -- transport bytes not yet taken by a `ReadFrom`
  deriving Repr, DecidableEq

/-- A fresh codec over a fresh buffer of capacity `cap` (`NewByteBuffer()` gives 512; `Reserve` may have grown it). -/
def DState.init (max cap : Int) : DState :=
  { c := Codec.new { Buf.new with cap := cap } max, backlog := [] }

/-- What the harness prints after a call. -/
def observe (b : Buf) (o : Spec.WsFrame.Outcome) : M Spec.WsFrame.Obs := do
  pure { out := o, len := (← b.SaveLen) + (← b.ReadLen) + (← b.WriteLen), reserved := b.Reserved }

/-- One operation: new state, observation, and (ghost) the argument of `Reserve` if `Decode` called it. -/
def DState.step (m : DState) : DOp → M (DState × Spec.WsFrame.Obs × Option Int)
  | .feed bs cap' => do
      let b ← m.c.buf.Write bs cap'
      pure ({ m with c := { m.c with buf := b } }, ← observe b .ok, none)
  | .read bs => do
      let bl := m.backlog ++ bs
      let r ← m.c.buf.ReadFrom bl
      pure ({ c := { m.c with buf := r.1 }, backlog := bl.drop r.2 }, ← observe r.1 (.took r.2), none)
  | .commit n => do
      let b := m.c.buf.Commit n
      pure ({ m with c := { m.c with buf := b } }, ← observe b .ok, none)
  | .decode cap' => do
      let r ← m.c.Decode cap'
      match r.2.1 with
      | .needMore => pure ({ m with c := r.1 }, ← observe r.1.buf .needMore, r.2.2)
      | .tooBig => pure ({ m with c := r.1 }, ← observe r.1.buf .tooBig, r.2.2)
      | .frame fb =>
          let v ← view fb
          pure ({ m with c := r.1 }, ← observe r.1.buf (.frame v.1 v.2), r.2.2)

/-- The model's trace for a script (stops at the first panic / inadmissible environment value). -/
def DState.run : DState → List DOp → M (List (DOp × Spec.WsFrame.Obs × Option Int))
  | _, [] => pure []
  | m, op :: rest => do
      let r ← m.step op
      let t ← r.1.run rest
      pure ((op, r.2.1, r.2.2) :: t)

end Sonic.Model.WsFrame
