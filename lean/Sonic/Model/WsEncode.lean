/-
Executable model of the frame *building and encoding* path (frame.go, util.go, util/bytes.go,
frame_codec.go `Encode`), function by function.

A frame that is written lives in a pooled byte slice: `arr` is the whole backing array (`cap(f)` bytes,
whatever an earlier use left there), `len` is `len(f)`.  `append` in `ExtendSlice` may over-allocate; the
extra capacity is zeroed by the runtime and can only be observed through a later `ExtendSlice`, which
would append zeros anyway, so the model allocates exactly `need` bytes.
-/
import Sonic.Model.WsFrame

namespace Sonic.Model.WsEncode
open Sonic.Model.WsBuf Sonic.Model.WsFrame

structure PFrame where
  arr : List UInt8
  len : Nat
  deriving Repr, DecidableEq

namespace PFrame

/-- The Go value `f` (its first `len(f)` bytes). -/
def bytes (f : PFrame) : FrameBytes := f.arr.take f.len

/-- `NewFrame()`: 14 zero bytes. -/
def new : PFrame := { arr := List.replicate 14 0, len := 14 }

/-- `f[i] = g(f[i])`. -/
def modify (f : PFrame) (i : Nat) (g : UInt8 → UInt8) : M PFrame :=
  if i < f.len ∧ i < f.arr.length then pure { f with arr := f.arr.set i (g (f.arr.getD i 0)) } else throw .indexRange

/-- `copy(f[off:], src)` for `off ≤ len(f)`: overwrites `min(len(f) - off, len(src))` bytes. -/
def copyAt (f : PFrame) (off : Nat) (src : List UInt8) : M PFrame :=
  if off ≤ f.len ∧ f.len ≤ f.arr.length then
    let k := min (f.len - off) src.length
    pure { f with arr := f.arr.take off ++ src.take k ++ f.arr.drop (off + k) }
  else throw .sliceBounds

/-- `Reset()`: `copy(f, zeroBytes[:])`. -/
def Reset (f : PFrame) : M PFrame := f.copyAt 0 (List.replicate 14 0)

def SetFIN (f : PFrame) : M PFrame := f.modify 0 (· ||| 0x80)
def SetRSV1 (f : PFrame) : M PFrame := f.modify 0 (· ||| 0x40)
def SetRSV2 (f : PFrame) : M PFrame := f.modify 0 (· ||| 0x20)
def SetRSV3 (f : PFrame) : M PFrame := f.modify 0 (· ||| 0x10)
def SetIsMasked (f : PFrame) : M PFrame := f.modify 1 (· ||| 0x80)

/-- `SetOpcode(c)`: `c &= 0x0f; f[0] &= 0xf0; f[0] |= c`. -/
def SetOpcode (f : PFrame) (c : UInt8) : M PFrame := do
  let f ← f.modify 0 (· &&& 0xf0)
  f.modify 0 (· ||| (c &&& 0x0f))

/-- `binary.BigEndian.PutUintNN(f[2:], v)`: needs `len(f) - 2 ≥ k`. -/
def putBE (f : PFrame) (k : Nat) (v : Nat) : M PFrame :=
  if 2 ≤ f.len ∧ k ≤ f.len - 2 then f.copyAt 2 (Spec.WsFrame.beBytes k v) else throw .indexRange

/-- `util.ExtendSlice(f, need)`: `f[:cap(f)]`, grown with zeros if `need > cap(f)`, then `[:need]`. -/
def extend (f : PFrame) (need : Nat) : PFrame :=
  { arr := if need > f.arr.length then f.arr ++ List.replicate (need - f.arr.length) 0 else f.arr, len := need }

/-- `setPayloadLength(n)` for `n = len(b) ≥ 0` (`uint64(n)`, `uint16(n)`, `byte(n)` are exact in their branches). A reused
frame that was shrunk below the full header is first re-extended to 14 bytes (`frameMaxHeaderLength`). -/
def setPayloadLength (f : PFrame) (n : Nat) : M PFrame := do
  let f := if f.len < frameMaxHeaderLength then f.extend frameMaxHeaderLength else f
  let f ← f.modify 1 (· &&& 0x80)
  if n > 65535 then
    let f ← f.modify 1 (· ||| 127)
    f.putBE 8 (n % 2 ^ 64)
  else if n > 125 then
    let f ← f.modify 1 (· ||| 126)
    f.putBE 2 n
  else f.modify 1 (· ||| UInt8.ofNat n)

/-- `SetPayload(b)`. -/
def SetPayload (f : PFrame) (b : List UInt8) : M PFrame := do
  let f ← f.setPayloadLength b.length
  let off ← payloadOffset f.bytes
  let f := f.extend (off + b.length)
  let off ← payloadOffset f.bytes      -- `f.Payload()` = `f[f.payloadOffset():]`
  if off > f.len then throw .sliceBounds else
  f.copyAt off b

/-- `MaskPayload()` with the key `crypto/rand` produced (an environment value). -/
def MaskPayload (f : PFrame) (key : List UInt8) : M PFrame := do
  let f ← f.SetIsMasked
  let moff ← maskOffset f.bytes
  let _ ← slice f.bytes moff (moff + frameMaskLength)        -- f.Mask()
  let poff ← payloadOffset f.bytes
  let payload ← slice f.bytes poff f.len                      -- f.Payload()
  if payload.length > 0 then
    let f ← f.copyAt moff (key.take 4)                        -- GenMask(mask)
    -- Mask(mask, payload): b[i] ^= mask[i&3]
    f.copyAt poff (payload.zipIdx.map fun (b, i) => b ^^^ key.getD (i % 4) 0)
  else pure f

/-- `Encode`'s first statement and `WriteTo`: the bytes handed to the destination buffer are
`frame[:payloadOffset()+PayloadLength()]` (checked against `cap(frame)`). -/
def wire (f : PFrame) : M (List UInt8) := do
  let off ← payloadOffset f.bytes
  let pl ← PayloadLength f.bytes
  let n := (off : Int) + pl
  if 0 ≤ n ∧ n ≤ f.arr.length then pure (f.arr.take n.toNat) else throw .sliceBounds

end PFrame

/-- What the harness operation `encfeed` does with a fresh frame. -/
def buildFresh (fin r1 r2 r3 : Bool) (opcode : UInt8) (masked : Bool) (mask payload : List UInt8) : M (List UInt8) := do
  let f := PFrame.new
  let f ← if fin then f.SetFIN else pure f
  let f ← if r1 then f.SetRSV1 else pure f
  let f ← if r2 then f.SetRSV2 else pure f
  let f ← if r3 then f.SetRSV3 else pure f
  let f ← f.SetOpcode opcode
  let f ← if masked then f.SetIsMasked else pure f
  let f ← f.SetPayload payload
  let f ← if masked then do
      let off ← maskOffset f.bytes
      f.copyAt off (mask.take 4)          -- copy(f.Mask(), mask)
    else pure f
  f.wire

end Sonic.Model.WsEncode
