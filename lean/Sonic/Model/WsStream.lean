/-
Executable model of `websocket.Stream` (client role) at frame granularity, mirroring codec/websocket/stream.go
function by function: NextFrame/nextFrame, AsyncNextFrame/asyncNextFrame, NextMessage/asyncNextMessage,
handleFrame/verifyFrame/handleControlFrame/handleDataFrame, Write/WriteFrame/AsyncWrite/AsyncWriteFrame/prepareWrite,
Close/AsyncClose/prepareClose, Flush/AsyncFlush, canRead, State, Pending.

The frame decoder (`CodecConn.ReadNext` + `FrameCodec.Decode`) is abstracted as `readNext`: the next incoming frame, a
decode error (payload over the maximum; the decoder does not consume such a frame, so it stays in front for ever), or
what the scripted transport answers when nothing is queued (injected error once, EOF, "no data"). The encoder is
abstracted as "the frame is put on the wire" (`flush`); the transport accepts every write.
-/
import Sonic.Spec.WsStream

namespace Sonic.Model.WsStream
open Sonic.Spec.WsStream

structure M where
  max : Nat                       -- maxMessageSize (stream and codec)
  state : StreamState
  pending : List OutFrame         -- pendingFrames
  wire : List OutFrame            -- frames written to the transport
  inq : List InFrame              -- transport: frames sent by the peer, not yet read
  rerr : Bool                     -- transport: fails once when nothing is queued
  eof : Bool                      -- transport: ended
  deriving Repr, DecidableEq

def new (max : Nat) : M :=
  { max := max, state := .active, pending := [], wire := [], inq := [], rerr := false, eof := false }

/-! ### Flush / AsyncFlush, prepareWrite, prepareClose -/

def flush (m : M) : M := { m with wire := m.wire ++ m.pending, pending := [] }

def prepareWrite (m : M) (f : OutFrame) : M := { m with pending := m.pending ++ [{ f with masked := true }] }

def prepareClose (m : M) (payload : Bytes) : M :=
  prepareWrite m { fin := true, op := 8, masked := true, payload := payload }

def canRead (m : M) : Bool := m.state == .active || m.state == .closedByUs

/-! ### the decoder + transport -/

inductive Next where
  | frame (f : InFrame)
  | err (e : Err)
  deriving Repr, DecidableEq

def readNext (m : M) : M × Next :=
  match m.inq with
  | f :: rest =>
    if f.payload.length > m.max then (m, .err .overMax) else ({ m with inq := rest }, .frame f)
  | [] =>
    if m.rerr then ({ m with rerr := false }, .err .ioerr)
    else if m.eof then (m, .err .eof)
    else (m, .err .nodata)

/-! ### handleFrame -/

def isControl (op : Nat) : Bool := op == 9 || op == 10 || op == 8
def isReserved (op : Nat) : Bool := op != 0 && op != 1 && op != 2 && op != 8 && op != 9 && op != 10

def verifyFrame (f : InFrame) : Err :=
  if f.rsv != 0 then .proto .rsv
  else if f.masked then .proto .masked      -- role is RoleClient
  else .nil

/-- `none` = Go panic("unreachable"). -/
def handleControlFrame (m : M) (f : InFrame) : Option (M × Err) :=
  if !f.fin then some (m, .proto .ctlFin)
  else if f.payload.length > 125 then some (m, .proto .ctlBig)
  else if f.op == 9 then
    if m.state == .active then some (prepareWrite m { fin := true, op := 10, masked := true, payload := f.payload }, .nil)
    else some (m, .nil)
  else if f.op == 10 then some (m, .nil)
  else if f.op == 8 then
    match m.state with
    | .handshake => none
    | .active =>
      let m := { m with state := .closedByPeer }
      if f.payload.length ≥ 2 then
        if !utf8Valid (f.payload.drop 2) then some (prepareClose m (u16 1002), .nil)
        else if !validCloseCode (closeCodeOf f.payload) then some (prepareClose m (u16 1002), .nil)
        else some (prepareClose m f.payload, .nil)
      else if f.payload.length > 0 then some (prepareClose m (u16 1002), .nil)
      else some (prepareClose m (u16 1000), .nil)
    | .closedByPeer | .closeAcked => some (m, .nil)
    | .closedByUs => some ({ m with state := .closeAcked }, .nil)
    | .terminated => none
  else some (m, .proto .ctlFin)   -- default: ErrInvalidControlFrame (not reachable: isControl)

def handleDataFrame (f : InFrame) : Err :=
  if isReserved f.op then .proto .opcode else .nil     -- validateUTF8 is off

def handleFrame (m : M) (f : InFrame) : Option (M × Err) :=
  let r : Option (M × Err) :=
    if verifyFrame f = .nil then
      (if isControl f.op then handleControlFrame m f else some (m, handleDataFrame f))
    else some (m, verifyFrame f)
  match r with
  | none => none
  | some (m, e) =>
    if e = .nil then some (m, .nil)
    else
      let m := if m.state == .active then prepareClose m (u16 1002) else m
      some ({ m with state := .closedByUs }, e)

/-! ### NextFrame / AsyncNextFrame -/

def close1006 : InFrame := { fin := true, rsv := 0, op := 8, masked := false, payload := u16 1006 }

/-- `nextFrame` and the callback of `asyncNextFrame` (they are the same decision tree). -/
def nextFrameInner (m : M) : Option (M × Err × Option InFrame) :=
  match readNext m with
  | (m, .err e) =>
    if e = .eof then some ({ m with state := .terminated }, .eof, some close1006)
    else some (m, e, none)
  | (m, .frame f) =>
    match handleFrame m f with
    | none => none
    | some (m, e) => some (m, e, some f)

def nextFrame (async : Bool) (m : M) : Option (M × Err × Option InFrame) :=
  let m := flush m
  if !canRead m then
    -- blocking: err = io.EOF, state untouched; asynchronous: state = StateTerminated, callback(EOF, nil)
    some (if async then { m with state := .terminated } else m, .eof, none)
  else
    match nextFrameInner m with
    | none => none
    | some (m, e, f) =>
      -- blocking NextFrame: `if err == io.EOF { s.state = StateTerminated }` (already so)
      some (if !async && e == .eof then { m with state := .terminated } else m, e, f)

/-! ### Close / AsyncClose -/

def close (m : M) (code : Nat) (reason : Bytes) : M × Err :=
  match m.state with
  | .active => (flush (prepareClose { m with state := .closedByUs } (u16 code ++ reason)), .nil)
  | .closedByUs | .handshake => (m, .cancelled)
  | _ => (m, .eof)

/-! ### NextMessage / AsyncNextMessage -/

structure Asm where
  ty : Nat := 255           -- TypeNone
  n : Nat := 0              -- readBytes
  data : Bytes := []        -- b[:readBytes]
  cont : Bool := false      -- continuation
  ctl : List (Nat × Bytes) := []
  deriving Repr, DecidableEq

def tooBigReason : Bytes := "payload too big".toUTF8.toList

def nextMessage (async : Bool) (buf : Nat) : Nat → M → Asm → Option (M × Err × Asm)
  | 0, m, a => some (m, .other, a)
  | fuel + 1, m, a =>
    match nextFrame async m with
    | none => none
    | some (m, e, fo) =>
      if e ≠ .nil then some (m, e, a)
      else match fo with
      | none => some (m, .other, a)      -- not reachable: a frame accompanies err == nil
      | some f =>
        if isControl f.op then
          nextMessage async buf fuel m { a with ctl := a.ctl ++ [(f.op, f.payload)] }
        else
          let ty := if a.ty = 255 then f.op else a.ty
          let k := min (buf - a.n) f.payload.length            -- copy(b[readBytes:], f.Payload())
          let n := a.n + k
          let data := a.data ++ f.payload.take k
          if n > m.max ∨ k ≠ f.payload.length then
            some ((close m 1001 tooBigReason).1, .tooBig, { a with ty := ty, n := n, data := data })
          else
            let e : Err :=
              if !a.cont then (if f.op = 0 then .unexpCont else .nil)
              else (if f.op ≠ 0 then .expCont else .nil)
            let cont := !f.fin
            if e ≠ .nil ∨ cont = false then some (m, e, { a with ty := ty, n := n, data := data, cont := cont })
            else nextMessage async buf fuel m { a with ty := ty, n := n, data := data, cont := cont }

/-! ### Write / WriteFrame and the asynchronous twins -/

def write (m : M) (ty : Nat) (payload : Bytes) : M × Err :=
  if payload.length > m.max then (m, .tooBig)
  else if m.state == .active then
    (flush (prepareWrite m { fin := true, op := ty % 16, masked := true, payload := payload }), .nil)
  else (m, .cancelled)

def writeFrame (m : M) (fin : Bool) (op : Nat) (payload : Bytes) : M × Err :=
  if m.state == .active then
    (flush (prepareWrite m { fin := fin, op := op % 16, masked := true, payload := payload }), .nil)
  else (m, .cancelled)

/-! ### one operation -/

def post (m0 m : M) : Post :=
  { state := m.state, pending := m.pending.length, wire := m.wire.drop m0.wire.length }

def step (m : M) : Op → M × Obs
  | .peer f => let m' := { m with inq := m.inq ++ [f] }; (m', .ok .none (post m m'))
  | .eof => let m' := { m with eof := true }; (m', .ok .none (post m m'))
  | .ioerr => let m' := { m with rerr := true }; (m', .ok .none (post m m'))
  | .nextFrame async =>
    match nextFrame async m with
    | none => (m, .panic)
    | some (m', e, f) => (m', .ok (.frame e f) (post m m'))
  | .nextMsg async buf =>
    match nextMessage async buf (m.inq.length + 2) m {} with
    | none => (m, .panic)
    | some (m', e, a) => (m', .ok (.msg e a.ty a.n a.data true a.ctl) (post m m'))
  | .write _ ty payload => let (m', e) := write m ty payload; (m', .ok (.call e) (post m m'))
  | .writeFrame _ fin op payload => let (m', e) := writeFrame m fin op payload; (m', .ok (.call e) (post m m'))
  | .flush _ => let m' := flush m; (m', .ok (.call .nil) (post m m'))
  | .close _ code reason => let (m', e) := close m code reason; (m', .ok (.call e) (post m m'))

/-- The model's trace for a script. -/
def run : M → List Op → List (Op × Obs)
  | _, [] => []
  | m, op :: r => let (m', ob) := step m op; (op, ob) :: run m' r

def final : M → List Op → M
  | m, [] => m
  | m, op :: r => final (step m op).1 r

end Sonic.Model.WsStream
