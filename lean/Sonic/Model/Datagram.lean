/-
Executable model of the datagram objects of the library at API granularity (C12):

* `packetConn` (packet.go): `NewPacketConn`, `AsyncReadFrom`/`AsyncReadAllFrom` (`ReadFrom` = one `recvfrom`;
  would-block is deferred to the poller; the buffer is captured by the handler), `AsyncWriteTo` (one `sendto`),
  `LocalAddr` (the address resolved before `bind`, so port 0 stays 0), `Close`;
* `multicast.UDPPeer` (multicast/peer.go, multicast/reactor.go, net/ipv4/multicast*.go): the constructor
  (`getsockname`, `GetMulticastInterfaceAddr`, `GetMulticastLoop` with its inverted test, `SetMulticastAll(false)`),
  the setters with their caches (`SetLoop`, `SetTTL`, `SetOutboundIPv4` which swallows the system call's error),
  `Join*/Leave*/BlockSource/UnblockSource` (argument parsing, interface resolution, one `setsockopt` each),
  `AsyncRead` with the reactor's replaceable buffer `read.b` (`SetAsyncReadBuffer`), `AsyncWrite`, `Close`;
* the kernel side as far as these calls observe it: one receive queue of datagrams per socket, the option record
  `{IP_MULTICAST_LOOP, TTL, IF, ALL, bound address}`, the per-socket multicast source filters of Linux
  (`ip_mc_join_group`, `ip_mc_leave_group`, `ip_mc_source` including its mode switch for empty filters and its
  error numbers, `ip_mc_sf_allow`), source-address and outgoing-interface selection for this host, loop-back
  delivery of multicast (`IP_MULTICAST_LOOP` of the sender, bound address and port of the receiver).

`step` answers with the same events the monitor reads (`Spec.Datagram.Ev`), so the driver can compare them with
the implementation's line by line.
-/
import Sonic.Spec.Datagram

namespace Sonic.Model.Datagram
open Sonic.Spec.Datagram

/-! ## Script operations -/

inductive IfName where
  | eth0 | lo | unknown
  deriving DecidableEq, Repr

inductive GroupArg where
  | ip (g : Ip)        -- a multicast address
  | notMulticast       -- parses, but `IsMulticast` is false
  | junk               -- does not parse
  deriving DecidableEq, Repr

inductive SrcArg where
  | ip (s : Ip) | junk
  deriving DecidableEq, Repr

inductive PcForm where
  | lo | any | empty
  deriving DecidableEq, Repr

inductive RawForm where
  | tx3 | rxlo | rxif
  deriving DecidableEq, Repr

inductive Dst where
  | group (g : Ip) | sock (j : Nat)
  deriving DecidableEq, Repr

inductive Op where
  | newPc (s : Nat) (f : PcForm)
  | newPeer (s : Nat) (ip : Ip) (shared : Bool)      -- bind address; port = the script's shared port or 0
  | newRaw (s : Nat) (f : RawForm)
  | get (s : Nat)
  | setLoop (s : Nat) (v : Bool)
  | setTTL (s : Nat) (v : Nat)
  | setOut (s : Nat) (i : IfName)
  | join (s : Nat) (g : GroupArg) (on : Option IfName) (src : Option SrcArg)
  | leave (s : Nat) (g : GroupArg) (src : Option SrcArg)
  | block (s : Nat) (g : GroupArg) (src : SrcArg)
  | unblock (s : Nat) (g : GroupArg) (src : SrcArg)
  | brk (s : Nat)
  | mend (s : Nat)
  | send (s : Nat) (dst : Dst) (data : List UInt8) (pick : Nat)   -- `pick`: the kernel's choice among SO_REUSEPORT sockets
  | read (s : Nat) (len : Nat)
  | setBuf (s : Nat) (len : Nat)
  | poll
  | close (s : Nat)
  deriving DecidableEq, Repr

/-! ## Kernel: multicast source filters of one socket (net/ipv4/igmp.c) -/

/-- `struct ip_mc_socklist` of one group (all memberships of a script live on the one multicast interface, so the
kernel's list keyed by (group, interface) is a finite map from groups). -/
structure KFilt where
  incl    : Bool          -- sfmode = MCAST_INCLUDE
  srcs    : List Ip       -- sflist entries
  hasList : Bool          -- sflist allocated (stays allocated when the last source is removed in exclude mode)
  deriving DecidableEq, Repr

abbrev KMembs := Ip → Option KFilt

/-- `ip_mc_join_group_ssm`: EADDRINUSE if already a member. -/
def joinGroup (k : KMembs) (g : Ip) (incl : Bool) : KMembs × Errc :=
  match k g with
  | some _ => (k, .addrinuse)
  | none => (upd k g (some { incl := incl, srcs := [], hasList := false }), .nil)

/-- `ip_mc_leave_group`. -/
def leaveGroup (k : KMembs) (g : Ip) : KMembs × Errc :=
  match k g with
  | some _ => (upd k g none, .nil)
  | none => (k, .addrnotavail)

/-- `ip_mc_source(add, omode, …)`. -/
def mcSource (k : KMembs) (add omodeIncl : Bool) (g s : Ip) : KMembs × Errc :=
  match k g with
  | none => (k, .inval)                                   -- must have a prior join
  | some f =>
    if f.hasList && f.incl != omodeIncl then (k, .inval)  -- a source filter was set: same mode as before
    else
      -- "allow mode switches for empty-set filters" — also when the call then fails
      let f := { f with incl := omodeIncl }
      if !add then
        if !f.hasList || !f.srcs.contains s then (upd k g (some f), .addrnotavail)
        else if f.srcs.length == 1 && omodeIncl then (upd k g none, .nil)      -- (INCLUDE, empty) == LEAVE_GROUP
        else (upd k g (some { f with srcs := f.srcs.erase s }), .nil)
      else
        if f.srcs.contains s then (upd k g (some f), .addrnotavail)             -- address already there is an error
        else (upd k g (some { f with srcs := s :: f.srcs, hasList := true }), .nil)

/-- `ip_mc_sf_allow` with `IP_MULTICAST_ALL = 0`. -/
def kAllow (k : KMembs) (g src : Ip) : Bool :=
  match k g with
  | none => false
  | some f => if !f.hasList then !f.incl else if f.incl then f.srcs.contains src else !f.srcs.contains src

/-- The `setsockopt` behind each well-formed membership call. -/
def kMemb (ms : KMembs) : MOp → KMembs × Errc
  | .join g => joinGroup ms g false                                     -- IP_ADD_MEMBERSHIP
  | .joinSrc g s =>                                                      -- IP_ADD_SOURCE_MEMBERSHIP
      let r := joinGroup ms g true
      mcSource r.1 true true g s
  | .leave g => leaveGroup ms g                                          -- IP_DROP_MEMBERSHIP
  | .leaveSrc g s => mcSource ms false true g s                          -- IP_DROP_SOURCE_MEMBERSHIP
  | .block g s => mcSource ms true false g s                             -- IP_BLOCK_SOURCE
  | .unblock g s => mcSource ms false false g s                          -- IP_UNBLOCK_SOURCE

/-! ## Sockets and the world -/

inductive Kind where
  | pc | peer | raw
  deriving DecidableEq, Repr

/-- Cached settings of a `UDPPeer` (multicast/peer.go:18-37). -/
structure Cache where
  loop      : Bool
  ttl       : Nat
  outIf     : Option Ip
  outIp     : Ip
  all       : Bool
  localAddr : Addr
  deriving DecidableEq, Repr

structure MSock where
  kind   : Kind
  kern   : Kern                    -- the kernel's option record and bound address
  membs  : KMembs
  rxq    : List Dgram              -- the kernel's receive queue
  cache  : Cache
  read   : Option (Nat × Nat)      -- a read is registered with the poller; (id, length) of the buffer it will use
  cands  : List (Nat × Nat)        -- buffers designated since the last completion (what the harness inspects)
  broken : Bool                    -- the descriptor number refers to something that is not a socket
  closed : Bool

structure World where
  socks : Nat → Option MSock
  nbuf  : Nat := 0
  host  : Host := {}

def World.init : World := { socks := fun _ => none }

def ip3 : Ip := 3221225987      -- 192.0.2.3, the transparent raw sender's address
def sharedPort : Nat := 1
def ownPort (s : Nat) : Nat := 10 + s
def maxDatagram : Nat := 65507

def prefill (id n : Nat) : List UInt8 := (List.range n).map fun i => UInt8.ofNat (id * 29 + i * 3 + 90)

def live (w : World) (s : Nat) : Option MSock :=
  if s < maxSock then (match w.socks s with | some m => if m.closed then none else some m | none => none) else none

def put (w : World) (s : Nat) (m : MSock) : World := { w with socks := upd w.socks s (some m) }

def gettersOf (m : MSock) : Getters :=
  { loop := m.cache.loop, ttl := m.cache.ttl, outIf := m.cache.outIf, outIp := m.cache.outIp, all := m.cache.all,
    localAddr := m.cache.localAddr }

def freshSock (kind : Kind) (kern : Kern) (cache : Cache) : MSock :=
  { kind := kind, kern := kern, membs := fun _ => none, rxq := [], cache := cache, read := none, cands := [], broken := false,
    closed := false }

def canCreate (w : World) (s : Nat) : Bool := s < maxSock && (w.socks s).isNone

/-! ### Sending: source address, outgoing interface, delivery -/

/-- Source address the kernel gives a datagram towards `dst`. -/
def srcIp (h : Host) (k : Kern) (dst : Addr) : Ip :=
  if specific k.name.ip then k.name.ip
  else if isMulticast dst.ip then (if k.mcIf != 0 then k.mcIf else h.ifIp)
  else if isLoopback dst.ip then h.loIp else h.ifIp

/-- Errors of `udp_sendmsg` in the order the kernel checks them: the 16-bit length field, the route (a loopback
source cannot leave through another interface), the size the IP layer can still fragment. -/
def sendErr (k : Kern) (dst : Addr) (data : List UInt8) : Errc :=
  if data.length > 65535 then .msgsize
  else if isMulticast dst.ip && specific k.name.ip && isLoopback k.name.ip && k.mcIf != 0 && !isLoopback k.mcIf then .inval
  else if data.length > maxDatagram then .msgsize
  else .nil

/-- Multicast loop-back delivery to socket `r` (udp4_lib_mcast_deliver + ip_mc_sf_allow). -/
def kDeliver (w : World) (via : Bool) (dst : Addr) (src : Ip) (r : Nat) : Bool :=
  match w.socks r with
  | none => false
  | some m => !m.closed && via && m.kern.name.port == dst.port && (m.kern.name.ip == 0 || m.kern.name.ip == dst.ip)
      && kAllow m.membs dst.ip src

def ucastCand (w : World) (dst : Addr) (exact : Bool) (r : Nat) : Bool :=
  match w.socks r with
  | none => false
  | some m => !m.closed && m.kern.name.port == dst.port && (if exact then m.kern.name.ip == dst.ip else m.kern.name.ip == 0)

def enqueue (socks : Nat → Option MSock) (arrived : List Nat) (d : Dgram) : Nat → Option MSock :=
  fun r => (socks r).map fun m => if arrived.contains r then { m with rxq := m.rxq ++ [d] } else m

/-- The sockets a multicast datagram of `tx` is looped back to. -/
def mcArrived (w : World) (tx : MSock) (dst : Addr) (srcIp : Ip) : List Nat :=
  (List.range maxSock).filter (kDeliver w (viaMcastIf w.host tx.kern.name.ip tx.kern.mcIf && tx.kern.loop) dst srcIp)

/-- The socket a unicast datagram is queued to: an exactly bound socket wins over a wildcard one; among equals
(SO_REUSEPORT) the kernel hashes — `pick` is its choice. -/
def ucArrived (w : World) (dst : Addr) (pick : Nat) : List Nat :=
  match (List.range maxSock).filter (ucastCand w dst true) with
  | r :: rs => if (r :: rs).contains pick then [pick] else [r]
  | [] => match (List.range maxSock).filter (ucastCand w dst false) with
    | r :: rs => if (r :: rs).contains pick then [pick] else [r]
    | [] => []

/-- One `sendto` of socket `s` (= `tx`) to `dsta`. -/
def sendTo (w : World) (s : Nat) (tx : MSock) (dsta : Addr) (data : List UInt8) (pick : Nat) : World × List Ev :=
  let src : Addr := { ip := srcIp w.host tx.kern dsta, port := tx.kern.name.port }
  let err := sendErr tx.kern dsta data
  if err != .nil then (w, [.sent s dsta data err 0 src []])
  else
    let d : Dgram := { src := src, dst := dsta, data := data }
    let arrived := if isMulticast dsta.ip then mcArrived w tx dsta src.ip else ucArrived w dsta pick
    ({ w with socks := enqueue w.socks arrived d }, [.sent s dsta data .nil data.length src arrived])

/-! ### Receiving -/

/-- One `recvfrom` of socket `s` into the buffer `(cur, len)`; `none` = would block. -/
def recv (s : Nat) (m : MSock) (cur len : Nat) : Option (MSock × Ev) :=
  match m.rxq with
  | [] => none
  | d :: q =>
    let n := min d.data.length len
    let shown := (m.cands.drop (m.cands.length - 4)).map fun c =>
      (c.1, if c.1 == cur then d.data.take n else prefill c.1 (min n c.2))
    let m' := { m with rxq := q, read := none, cands := [] }
    if n == 0 then
      -- `n == 0` is reported as io.EOF; packetConn passes the address on, Socket.RecvFrom does not
      if m.kind == .raw then some (m', .done s .nil 0 (some d.src) shown)
      else some (m', .done s .eof 0 (if m.kind == .peer then none else some d.src) shown)
    else some (m', .done s .nil n (some d.src) shown)

def pollOne (w : World) (s : Nat) : World × List Ev :=
  match live w s with
  | none => (w, [])
  | some m =>
    match m.read with
    | none => (w, [])
    | some (cur, len) =>
      match recv s m cur len with
      | none => (w, [])
      | some (m', ev) => (put w s m', [ev])

def pollAll (w : World) : List Nat → World × List Ev
  | [] => (w, [])
  | s :: r =>
    let a := pollOne w s
    let b := pollAll a.1 r
    (b.1, a.2 ++ b.2)

/-! ### The peer's membership calls (multicast/peer.go:310-509) -/

/-- Argument parsing (`parseMulticastIP`, `parseIP`); `none` = the call returns an error before anything else. -/
def parseMemb (g : GroupArg) (src : Option SrcArg) (mk : Ip → Option Ip → MOp) : Option MOp :=
  match g with
  | .ip gi =>
    match src with
    | some .junk => none
    | some (.ip si) => some (mk gi (some si))
    | none => some (mk gi none)
  | _ => none

/-- `resolveMulticastInterface`: only eth0 exists, is up and carries the MULTICAST flag on this host. -/
def ifaceOk : Option IfName → Bool
  | none | some .eth0 => true
  | _ => false

def membCall (w : World) (s : Nat) (op : Option MOp) (ifok : Bool) : World × List Ev :=
  match live w s with
  | none => (w, [.skipped])
  | some m =>
    if m.kind != .peer then (w, [.skipped]) else
    match op with
    | none => (w, [.memb s none .other])
    | some op =>
      if !ifok then (w, [.memb s (some op) .other])
      else if m.broken then (w, [.memb s (some op) .notsock])
      else
        let r := kMemb m.membs op
        (put w s { m with membs := r.1 }, [.memb s (some op) r.2])

/-! ## One operation -/

def step (w : World) : Op → World × List Ev
  | .newPc s f =>
      if !canCreate w s then (w, [.skipped]) else
      -- CreateSocketUDP resolves the address, NewPacketConn binds it and keeps the *resolved* address
      let ip := match f with | .lo => w.host.loIp | _ => 0
      let kern : Kern := { loop := true, ttl := 1, mcIf := 0, all := true, name := { ip := ip, port := ownPort s } }
      let api : Addr := { ip := ip, port := 0 }
      let m := freshSock .pc kern { loop := false, ttl := 0, outIf := none, outIp := 0, all := false, localAddr := api }
      (put w s m, [.opened s api kern])
  | .newPeer s ip shared =>
      if !canCreate w s then (w, [.skipped]) else
      let name : Addr := { ip := ip, port := if shared then sharedPort else ownPort s }
      -- kernel defaults: loop = 1, ttl = 1, no interface; the constructor clears IP_MULTICAST_ALL
      let kern : Kern := { loop := true, ttl := 1, mcIf := 0, all := false, name := name }
      -- localAddr = getsockname; outboundIP = GetMulticastInterfaceAddr; loop = GetMulticastLoop (true iff the option is 0)
      let cache : Cache := { loop := !kern.loop, ttl := 1, outIf := none, outIp := kern.mcIf, all := false, localAddr := name }
      let m := freshSock .peer kern cache
      (put w s m, [.opened s name kern, .getters s (gettersOf m) kern])
  | .newRaw s f =>
      if !canCreate w s then (w, [.skipped]) else
      let ip := match f with | .tx3 => ip3 | .rxlo => w.host.loIp | .rxif => w.host.ifIp
      let name : Addr := { ip := ip, port := ownPort s }
      let kern : Kern := { loop := true, ttl := 1, mcIf := (match f with | .tx3 => w.host.ifIp | _ => 0), all := true, name := name }
      let m := freshSock .raw kern { loop := false, ttl := 0, outIf := none, outIp := 0, all := false, localAddr := name }
      (put w s m, [.opened s name kern])
  | .get s =>
      match live w s with
      | none => (w, [.skipped])
      | some m => if m.kind != .peer then (w, [.skipped]) else (w, [.getters s (gettersOf m) m.kern])
  | .setLoop s v =>
      match live w s with
      | none => (w, [.skipped])
      | some m =>
        if m.kind != .peer then (w, [.skipped]) else
        -- if err := SetMulticastLoop(...); err != nil { return err } else { p.loop = loop }
        if m.broken then (w, [.setter s .loop .notsock, .getters s (gettersOf m) m.kern])
        else
          let m' := { m with kern := { m.kern with loop := v }, cache := { m.cache with loop := v } }
          (put w s m', [.setter s .loop .nil, .getters s (gettersOf m') m'.kern])
  | .setTTL s v =>
      match live w s with
      | none => (w, [.skipped])
      | some m =>
        if m.kind != .peer then (w, [.skipped]) else
        if m.broken then (w, [.setter s .ttl .notsock, .getters s (gettersOf m) m.kern])
        else
          let m' := { m with kern := { m.kern with ttl := v }, cache := { m.cache with ttl := v } }
          (put w s m', [.setter s .ttl .nil, .getters s (gettersOf m') m'.kern])
  | .setOut s i =>
      match live w s with
      | none => (w, [.skipped])
      | some m =>
        if m.kind != .peer then (w, [.skipped]) else
        match i with
        | .eth0 =>
          -- SetMulticastInterface: setsockopt(IP_MULTICAST_IF, first IPv4 address); SetOutboundIPv4 returns nil
          -- when that fails, and caches nothing
          if m.broken then (w, [.setter s .out .nil, .getters s (gettersOf m) m.kern])
          else
            let a := w.host.ifIp
            let m' := { m with kern := { m.kern with mcIf := a }, cache := { m.cache with outIf := some a, outIp := a } }
            (put w s m', [.setter s .out .nil, .getters s (gettersOf m') m'.kern])
        | _ => (w, [.setter s .out .other, .getters s (gettersOf m) m.kern])   -- resolveMulticastInterface fails
  | .join s g on src =>
      membCall w s (parseMemb g src fun gi si => match si with | none => .join gi | some si => .joinSrc gi si) (ifaceOk on)
  | .leave s g src =>
      membCall w s (parseMemb g src fun gi si => match si with | none => .leave gi | some si => .leaveSrc gi si) true
  | .block s g src =>
      membCall w s (parseMemb g (some src) fun gi si => .block gi (si.getD 0)) true
  | .unblock s g src =>
      membCall w s (parseMemb g (some src) fun gi si => .unblock gi (si.getD 0)) true
  | .brk s =>
      match live w s with
      | none => (w, [.skipped])
      | some m =>
        if m.kind != .peer || m.broken || m.read.isSome then (w, [.skipped]) else (put w s { m with broken := true }, [.nop])
  | .mend s =>
      match live w s with
      | none => (w, [.skipped])
      | some m => if m.broken then (put w s { m with broken := false }, [.nop]) else (w, [.skipped])
  | .send s dst data pick =>
      match live w s with
      | none => (w, [.skipped])
      | some tx =>
        if tx.broken then (w, [.skipped]) else
        let dsta : Option Addr := match dst with
          | .group g => some { ip := g, port := sharedPort }
          | .sock j => (live w j).map fun t => { ip := if t.kern.name.ip == 0 then w.host.loIp else t.kern.name.ip, port := t.kern.name.port }
        match dsta with
        | none => (w, [.skipped])
        | some dsta => sendTo w s tx dsta data pick
  | .read s len =>
      match live w s with
      | none => (w, [.skipped])
      | some m =>
        if m.broken || m.read.isSome then (w, [.skipped]) else
        let buf := w.nbuf
        let w := { w with nbuf := w.nbuf + 1 }
        let m := { m with cands := m.cands ++ [(buf, len)] }
        -- the call tries immediately (IO.Dispatched is 0 at top level) and defers on would-block
        match recv s m buf len with
        | some (m', ev) => (put w s m', [.readStart s buf len, ev])
        | none =>
          if m.kind == .raw then (put w s { m with cands := [] }, [.readStart s buf len, .readNone s])
          else (put w s { m with read := some (buf, len) }, [.readStart s buf len, .readPending s])
  | .setBuf s len =>
      match live w s with
      | none => (w, [.skipped])
      | some m =>
        if m.kind != .peer then (w, [.skipped]) else
        let buf := w.nbuf
        let w := { w with nbuf := w.nbuf + 1 }
        -- p.read.b = to: the registered reactor reads into it; a later AsyncRead designates its own buffer
        let m := { m with cands := m.cands ++ [(buf, len)], read := m.read.map fun _ => (buf, len) }
        (put w s m, [.setBuf s buf len])
  | .poll =>
      let r := pollAll w (List.range maxSock)
      (r.1, r.2 ++ [.polled])
  | .close s =>
      match live w s with
      | none => (w, [.skipped])
      | some m => if m.broken then (w, [.skipped]) else (put w s { m with closed := true, read := none }, [.closed s])

/-- The model's event trace for a script. -/
def run : World → List Op → List Ev
  | _, [] => []
  | w, op :: r => let x := step w op; x.2 ++ run x.1 r

def runW : World → List Op → World
  | w, [] => w
  | w, op :: r => runW (step w op).1 r

end Sonic.Model.Datagram
