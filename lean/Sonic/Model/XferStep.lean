/-
The transfer model (`Sonic.Model.Xfer`) as a step function over the operations and observations of the C02
monitor (`Sonic.Spec.Xfer`): what the model says the completion callback of one operation is given, as a function
of the per-call results of the transport (`sched`).  This is what `sonicdrv xfer` compares with the real
`AsyncAdapter` / `Conn` on the same schedule.
-/
import Sonic.Model.Xfer
import Sonic.Spec.Xfer

namespace Sonic.Model.XferStep
open Sonic.Model.Xfer

def toRes : Sonic.Model.Xfer.Res → Sonic.Spec.Xfer.Res
  | .ok => .ok | .eof => .eof | .err => .err

/-- The model's observation for one operation; `none` = still in flight when the schedule ends. -/
def mstep (s : Sonic.Spec.Xfer.S) : Sonic.Spec.Xfer.Op → List KRes → Option Sonic.Spec.Xfer.Obs
  | .read len all, sched => (readOp len all 0 [] s.stream sched).map fun o => .read (toRes o.res) o.n o.buf true
  | .write b all, sched => (writeOp b all 0 [] sched).map fun o => .write (toRes o.res) o.n o.wire

/-- Run the monitor over the model's own observations. -/
def accepts : Sonic.Spec.Xfer.S → List (Sonic.Spec.Xfer.Op × List KRes) → Bool
  | _, [] => true
  | s, (op, sched) :: rest =>
    match mstep s op sched with
    | none => true            -- in flight at the end of the schedule: nothing was observed
    | some ob =>
      match Sonic.Spec.Xfer.step s op ob with
      | none => false
      | some s' => accepts s' rest

end Sonic.Model.XferStep
