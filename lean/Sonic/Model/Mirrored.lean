/-
Executable model of `bytes.MirroredBuffer`: the index logic regenerated from
bytes/mirrored_buffer.go (`Sonic.Gen.MirroredBuffer`: FreeSpace/UsedSpace/Claim/Commit/Consume/
Full/Size/Reset) wrapped into an operation/observation step function.

Modelled by hand (the translator cannot take `NewMirroredBuffer` apart; tied to the code by the
harness on every run): the constructor's size rounding (`roundSize`), and the memory behind the
double mapping (`Spec.Mirrored.store/load`: virtual position `v` is physical cell `v % size` — the
mmap mirroring, an assumption about the OS).
-/
import Sonic.Gen.MirroredBuffer
import Sonic.Spec.Mirrored

namespace Sonic.Model.Mirrored
open Sonic.Gen.MirroredBuffer Sonic.Spec.Mirrored

/-- `NewMirroredBuffer`, lines `pageSize := …` to `if size <= 0 { return nil, … }`:
```
if remainder := size % pageSize; remainder > 0 { size += pageSize - remainder }
if size <= 0 { return nil, fmt.Errorf("invalid buffer size %d", size) }
```
`none` = rejected. -/
def roundSize (pageSize size : Int) : Option Int :=
  let remainder := Go.mod size pageSize
  let size := if remainder > 0 then Go.add size (Go.sub pageSize remainder) else size
  if size ≤ 0 then none else some size

/-- The constructor then maps `2*size` bytes; a length that is not a positive `int` cannot be
mapped (`mmap` fails), and the constructor returns the error. -/
def mappable (size : Int) : Bool := decide (0 < Go.mul 2 size)

structure St where
  buf  : Option MirroredBuffer
  cLo  : Int                 -- the slice the last Claim returned (the harness keeps it to write through)
  cLen : Int
  mem  : Mem
  deriving Repr, DecidableEq

def init : St := { buf := none, cLo := 0, cLen := 0, mem := #[] }

def mk (size : Int) : MirroredBuffer :=
  { size := size, sizeMask := Go.sub size 1, head := 0, tail := 0, used := 0 }

def live (size : Int) : St := { buf := some (mk size), cLo := 0, cLen := 0, mem := zeros size }

def obsView (v : Go.View) : Obs :=
  if v.valid = false then .panic
  else if v.hi - v.lo ≤ 0 then .view 0 0 else .view v.lo (v.hi - v.lo)

def step (s : St) : Op → St × Obs
  | .new req page =>
      match roundSize page req with
      | none => (init, .refused)
      | some size => if mappable size then (live size, .created size) else (init, .refused)
  | op =>
    match s.buf with
    | none => (s, .nobuf)
    | some b =>
      match op with
      | .new _ _ => (s, .nobuf)   -- unreachable
      | .claim n =>
          let v := b.Claim n
          if v.valid = false then (s, .panic)
          else if v.hi - v.lo ≤ 0 then ({ s with cLo := 0, cLen := 0 }, .view 0 0)
          else ({ s with cLo := v.lo, cLen := v.hi - v.lo }, .view v.lo (v.hi - v.lo))
      | .commit n  => let r := b.Commit n;  ({ s with buf := some r.1 }, .int r.2)
      | .consume n => let r := b.Consume n; ({ s with buf := some r.1 }, .int r.2)
      | .used      => (s, .int b.UsedSpace)
      | .free      => (s, .int b.FreeSpace)
      | .full      => (s, .bool b.Full)
      | .size      => (s, .int b.Size)
      | .reset     => ({ s with buf := some b.Reset }, .unit)
      | .write seed => ({ s with mem := store s.mem b.size s.cLo s.cLen seed }, .unit)
      | .prefault  => ({ s with mem := zeros b.size }, .unit)
      | .read off len =>
          (s, .bytes (if ReadIn b.size off len then load s.mem b.size off len else []))
      | .destroy   => (init, .released false false)

/-- The model's trace for a script. -/
def run : St → List Op → List (Op × Obs)
  | _, [] => []
  | s, op :: r => let (s', ob) := step s op; (op, ob) :: run s' r

end Sonic.Model.Mirrored
