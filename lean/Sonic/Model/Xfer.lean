/-
Model of the transfer loops of file.go (`asyncReadNow` / `asyncWriteNow` + `onRead` / `onWrite`) and
async_adapter.go (`asyncReadNow` / `asyncWriteNow` + re-scheduling): one asynchronous read or write operation as
a function of what the kernel does at every `read(2)` / `write(2)` the reactor issues.

The kernel side is a FIFO byte stream.  A schedule entry says what the next syscall does: move `k ≥ 1` bytes
(clipped to what was asked for and to what the stream holds), would-block (the reactor registers with the poller
and resumes at the next readiness, or — for the adapter — simply waits for the next readiness), end-of-file, or fail.
-/
namespace Sonic.Model.Xfer

inductive KRes where
  | move (k : Nat)     -- the syscall transfers up to k bytes (k ≥ 1 in a well-formed schedule)
  | block              -- EAGAIN: would block
  | eof                -- read returned 0
  | fail               -- any other error
  deriving Repr, DecidableEq

inductive Res where
  | ok | eof | err
  deriving Repr, DecidableEq

/-- Outcome of one asynchronous read: result class, the count passed to the callback, the bytes now in `b[:n]`,
what is left of the stream, and the unused rest of the schedule; `none` = still in flight when the schedule ends. -/
structure ROut where
  res : Res
  n : Nat
  buf : List UInt8
  stream : List UInt8
  sched : List KRes
  deriving Repr, DecidableEq

/-- `AsyncRead` (`all = false`) / `AsyncReadAll` (`all = true`) into a buffer of `len` bytes.
`soFar`/`buf` are `readSoFar` and `b[:readSoFar]`. -/
def readOp (len : Nat) (all : Bool) : Nat → List UInt8 → List UInt8 → List KRes → Option ROut
  | _, _, _, [] => none
  | soFar, buf, stream, .move k :: rest =>
    let got := stream.take (min k (len - soFar))
    if got.isEmpty then
      -- nothing to move (empty stream or full buffer): the syscall would have blocked / returned 0; skip the entry
      readOp len all soFar buf stream rest
    else
      let soFar' := soFar + got.length
      if all && soFar' != len then readOp len all soFar' (buf ++ got) (stream.drop got.length) rest
      else some { res := .ok, n := soFar', buf := buf ++ got, stream := stream.drop got.length, sched := rest }
  | soFar, buf, stream, .block :: rest => readOp len all soFar buf stream rest
  | soFar, buf, stream, .eof :: rest => some { res := .eof, n := soFar, buf := buf, stream := stream, sched := rest }
  | soFar, buf, stream, .fail :: rest => some { res := .err, n := soFar, buf := buf, stream := stream, sched := rest }

structure WOut where
  res : Res
  n : Nat
  wire : List UInt8          -- what this operation put on the wire
  sched : List KRes
  deriving Repr, DecidableEq

/-- `AsyncWrite` / `AsyncWriteAll` of the buffer `b`; `soFar` = `wroteSoFar`, `wire` = what the operation has
put on the wire so far. -/
def writeOp (b : List UInt8) (all : Bool) : Nat → List UInt8 → List KRes → Option WOut
  | _, _, [] => none
  | soFar, wire, .move k :: rest =>
    let put := (b.drop soFar).take k
    if put.isEmpty then writeOp b all soFar wire rest
    else
      let soFar' := soFar + put.length
      if all && soFar' != b.length then writeOp b all soFar' (wire ++ put) rest
      else some { res := .ok, n := soFar', wire := wire ++ put, sched := rest }
  | soFar, wire, .block :: rest => writeOp b all soFar wire rest
  | soFar, wire, .eof :: rest => some { res := .eof, n := soFar, wire := wire, sched := rest }
  | soFar, wire, .fail :: rest => some { res := .err, n := soFar, wire := wire, sched := rest }

/-- A sequence of reads (buffer length, ReadAll?) issued one after the other on the same stream. -/
def readOps : List (Nat × Bool) → List UInt8 → List KRes → List ROut
  | [], _, _ => []
  | (len, all) :: ops, stream, sched =>
    match readOp len all 0 [] stream sched with
    | none => []
    | some o => o :: readOps ops o.stream o.sched

end Sonic.Model.Xfer
