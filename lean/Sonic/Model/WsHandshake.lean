/-
Executable model of the client opening handshake of `codec/websocket.Stream` (stream.go: `Handshake`,
`AsyncHandshake`, `handshake`, `dial`, `upgrade`, `reset`, `init`, `makeHandshakeKey`; rfc6455.go: `IsUpgradeRes`).

What is *not* modelled but taken as a parameter (trusted base of C18): `net/http` (request serialisation,
`http.ReadResponse` = `Params.parse`), SHA-1 + base64 (`Params.acceptOf`), `crypto/rand` (the key is an
argument), the capacity `append` picks when the handshake buffer grows (`Params.grow`), TCP (the bytes the
server delivered, whether it closed, and how many bytes each `Read` returned = `cuts`).  `Handshake` and
`AsyncHandshake` run the same `handshake` function (the latter on a goroutine, completing through `Post`), so
one model serves both.
-/
import Sonic.Spec.WsHandshake

namespace Sonic.Model.WsHandshake
open Sonic.Spec.WsHandshake

/-- `maxHandshakeResponseLength` -/
def maxHandshakeResponseLength : Nat := 65536
/-- `make([]byte, 1024)` in `NewWebsocketStream` -/
def initialHandshakeBuffer : Nat := 1024

/-- Result of `http.ReadResponse` as far as `upgrade` looks at it. -/
structure HttpResp where
  status  : Nat
  upgrade : Option String     -- `res.Header.Get("Upgrade")`, none if absent
  accept  : Option String     -- `res.Header.Get("Sec-WebSocket-Accept")`
  deriving Repr, DecidableEq

structure Params where
  acceptOf : String → String              -- base64(sha1(key ++ GUID))
  parse    : Bytes → Option HttpResp      -- http.ReadResponse on exactly the head; none = error
  grow     : Nat → Nat                    -- capacity after `append(buf, 0)` on a full buffer (only `grow c > c` matters)

/-- The session fields of `Stream` (configuration — role, callbacks, limits, TLS config, pools — is never touched
by a handshake and is left out). -/
structure St where
  state         : StState := .handshake
  conn          : Bool := false     -- s.conn != nil
  stream        : Bool := false     -- s.stream != nil
  codecAttached : Bool := false     -- s.codec / s.codecConn built by init
  src           : Bytes := []       -- read buffer contents
  dst           : Bytes := []       -- write buffer contents
  hbLen         : Nat := initialHandshakeBuffer    -- len(handshakeBuffer)
  hbCap         : Nat := initialHandshakeBuffer    -- cap(handshakeBuffer)
  pending       : Nat := 0          -- len(pendingFrames)
  asyncFlushing : Bool := false
  flushWaiters  : Nat := 0
  deriving Repr, DecidableEq

/-- `NewWebsocketStream` -/
def St.new : St := {}

/-- `reset()` -/
def reset (s : St) : St :=
  { s with hbLen := s.hbCap, state := .handshake, stream := false, conn := false, src := [], dst := [],
           pending := 0, asyncFlushing := false, flushWaiters := 0 }

/-- The headers `upgrade` puts on the request (before `req.Write`): the fixed ones, then the caller's, which
replace an earlier header of the same key. -/
def requestHeaders (host key : String) (extra : List (String × String)) : List (String × String) :=
  let base := [("Host", host), ("Upgrade", "websocket"), ("Connection", "upgrade"),
               ("Sec-WebSocket-Key", key), ("Sec-Websocket-Version", "13")]
  extra.foldl (fun hs h => hs.filter (fun x => !eqFold x.1 h.1) ++ [h]) base

/-- The transport during `upgrade`: bytes not yet read, whether the server closed after them, and how many
bytes the following `Read` calls return (0 or missing = as many as fit). -/
structure Wire where
  rest   : Bytes
  closed : Bool
  cuts   : List Nat
  deriving Repr, DecidableEq

inductive LoopRes where
  | found (resLen : Nat) (buf : Bytes) (cap : Nat) (w : Wire)
  | eof | tooLong | blocked | fuel
  deriving Repr, DecidableEq

/-- The incremental search: `bytes.Index(buf[searchFrom:], "\r\n\r\n")`, reported as the index past the match. -/
def findFrom (searchFrom : Nat) (buf : Bytes) : Option Nat :=
  (headEnd (buf.drop searchFrom)).map (· + searchFrom)

/-- How many bytes the next `Read` is willing to return when `avail` are there (`cuts` is the environment). -/
def wantOf (cuts : List Nat) (avail : Nat) : Nat :=
  match cuts with
  | c :: _ => if c = 0 then avail else c
  | [] => avail

/-- The read-until-terminator loop of `upgrade` (one turn per `Read`). -/
def readLoop (P : Params) : Nat → Bytes → Nat → Wire → LoopRes
  | 0, _, _, _ => .fuel
  | fuel + 1, buf, cap, w =>
      -- if len == cap { if cap >= max { return ErrCannotUpgrade }; grow }
      if buf.length = cap ∧ cap ≥ maxHandshakeResponseLength then .tooLong else
      let cap := if buf.length = cap then P.grow cap else cap
      -- n, err := stream.Read(buf[len:cap])
      match w.rest with
      | [] => if w.closed then .eof else .blocked
      | _ :: _ =>
        let n := min (wantOf w.cuts w.rest.length) (min (cap - buf.length) w.rest.length)
        let searchFrom := buf.length - 3          -- len - len(headerEnd) + 1, clamped at 0
        let buf' := buf ++ w.rest.take n
        let w' : Wire := { w with rest := w.rest.drop n, cuts := w.cuts.tail }
        match findFrom searchFrom buf' with
        | some resLen => .found resLen buf' cap w'
        | none => readLoop P fuel buf' cap w'

/-- `IsUpgradeRes` (rfc6455.go) -/
def isUpgradeRes (res : HttpResp) : Bool :=
  res.status == 101 && (match res.upgrade with | some u => eqFold u "websocket" | none => false)

/-- `upgrade`, after the request has been written.  Returns the new state, the error, and the transport. -/
def upgrade (P : Params) (s : St) (key : String) (w : Wire) : St × Err × Wire :=
  -- s.handshakeBuffer = s.handshakeBuffer[:0]
  match readLoop P (w.rest.length + 1) [] s.hbCap w with
  | .eof => ({ s with hbLen := 0 }, .eof, { w with rest := [] })
  | .tooLong => ({ s with hbLen := 0 }, .cannotUpgrade, w)
  | .blocked => ({ s with hbLen := 0 }, .other, w)
  | .fuel => ({ s with hbLen := 0 }, .other, w)
  | .found resLen buf cap w' =>
      match P.parse (buf.take resLen) with
      | none => ({ s with hbLen := buf.length, hbCap := cap }, .malformed, w')
      | some res =>
          -- leftover bytes go to the read buffer; the handshake buffer is emptied
          let s := { s with src := s.src ++ buf.drop resLen, hbLen := 0, hbCap := cap }
          if isUpgradeRes res = false then (s, .cannotUpgrade, w')                    -- !IsUpgradeRes(res)
          else if (res.accept == some (P.acceptOf key)) = false then (s, .cannotUpgrade, w')    -- key != expectedKey
          else (s, .nil, w')

/-- `Handshake` / `AsyncHandshake` once the connection is established: `reset`, `dial` (ok), `upgrade`, then either
`CloseNextLayer` + `StateTerminated` or `StateActive` + `init`. -/
def handshake (P : Params) (s : St) (key : String) (w : Wire) : St × Err × Wire :=
  let s := reset s
  let s := { s with conn := true }                       -- dial succeeded
  match upgrade P s key w with
  | (s, .nil, w') => ({ s with state := .active, stream := true, codecAttached := true }, .nil, w')
  | (s, e, w') => ({ s with conn := false, state := .terminated }, e, w')    -- CloseNextLayer; state = Terminated

/-- What the frame layer reads after a successful handshake: the read buffer, then the transport. -/
def frameStream (s : St) (w : Wire) : Bytes := s.src ++ w.rest

/-- What the scripted server checks on the request: the five mandatory headers and the caller's. -/
def reqWellFormed (hs : List (String × String)) (host key : String) (extra : List (String × String)) : Bool :=
  hs.contains ("Host", host) && hs.any (fun h => eqFold h.1 "Upgrade" && eqFold h.2 "websocket") &&
  hs.any (fun h => eqFold h.1 "Connection" && eqFold h.2 "upgrade") &&
  hs.any (fun h => eqFold h.1 "Sec-WebSocket-Version" && h.2 == "13") &&
  hs.any (fun h => eqFold h.1 "Sec-WebSocket-Key" && h.2 == key) && extra.all hs.contains

/-- The transport of a scripted handshake. -/
def wireOf (p : Plan) : Wire := { rest := delivered p, closed := p.closeAt.isSome, cuts := p.cuts }

/-- Everything observable of one scripted handshake, as the model predicts it. -/
def observe (P : Params) (s : St) (host key : String) (p : Plan) : St × HsObs :=
  let r := handshake P s key (wireOf p)
  (r.1, { reqOk := reqWellFormed (requestHeaders host key p.extra) host key p.extra, err := r.2.1, state := r.1.state,
          pending := r.1.pending, peerClosed := r.2.1 ≠ .nil ∧ ¬ r.1.conn,
          frame := if r.2.1 = .nil then expectedFrame (frameStream r.1 r.2.2) p.closeAt.isSome else .none,
          srvExtra := 0 })

end Sonic.Model.WsHandshake
