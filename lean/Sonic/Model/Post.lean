/-
Interleaving model of `Post` (internal/poll_linux.go `Post`, `dispatch`, the waker eventfd) for C05.

Any number of posting threads (indexed by `Nat`) and the loop thread take atomic steps in any order.  The shared
state is exactly the poller's: the mutex `lck`, the `posts` queue, the atomic `pending` counter and the eventfd
counter.  The order of the steps inside `Post` and `dispatch` is the order of the synchronisation-relevant
statements extracted from the source on every run (`Sonic.Gen.PostAccess.seqPost` / `seqDispatch`; `Props/C05.lean`
checks they are the sequences this model implements):

  Post:      lock; append; atomic-inc pending; unlock; wake (eventfd write)
  dispatch:  drain (eventfd read until empty); lock; take posts; clear posts; unlock; for each: run; atomic-dec pending

A handler may itself call `Post` (nested): the loop thread then performs the `Post` steps itself.
-/
namespace Sonic.Model.Post

abbrev H := Nat

/-- Where a thread is inside `Post(h)`. -/
inductive PPc where
  | idle        -- not inside Post (about to start the next one)
  | locked      -- holds lck, has not appended yet
  | appended    -- appended + pending++ done, still holds lck
  | unlocked    -- released lck, has not written the eventfd yet
  deriving DecidableEq, Repr

structure Poster where
  todo : List H := []
  pc : PPc := .idle
  cur : H := 0
  deriving Repr

inductive LPc where
  | waiting       -- blocked in epoll_wait until the eventfd is readable
  | draining      -- woken: about to read the eventfd until it is empty
  | wantLock
  | swapping      -- holds lck: posts := p.posts; p.posts = nil
  | unlocking
  | running       -- picks the next handler of the batch
  | inHandler     -- the handler runs (it may Post)
  | decrementing  -- handler returned: pending--
  deriving DecidableEq, Repr

structure St where
  holder : Option (Option Nat) := none   -- who holds lck: `some none` = loop thread, `some (some i)` = poster i
  posts : List H := []
  pending : Int := 0
  counter : Nat := 0                      -- eventfd counter
  posters : Nat → Poster
  lpc : LPc := .waiting
  batch : List H := []                    -- the loop's local copy, handlers not yet started
  nest : Poster := {}                     -- the loop thread as a poster (nested Post from the running handler)
  executed : List H := []                 -- handlers in the order their execution started
  postedLog : List H := []                -- ghost: handlers in the order they were appended

/-- One step of a thread that is inside (or about to enter) `Post`; `me` identifies it for the mutex. -/
def posterStep (s : St) (me : Option Nat) (p : Poster) : Option (St × Poster) :=
  match p.pc with
  | .idle =>
    match p.todo with
    | [] => none
    | h :: rest => if s.holder = none then some ({ s with holder := some me }, { todo := rest, pc := .locked, cur := h }) else none
  | .locked =>
    some ({ s with posts := s.posts ++ [p.cur], postedLog := s.postedLog ++ [p.cur], pending := s.pending + 1 }, { p with pc := .appended })
  | .appended => some ({ s with holder := none }, { p with pc := .unlocked })
  | .unlocked => some ({ s with counter := s.counter + 1 }, { p with pc := .idle })

def setPoster (s : St) (i : Nat) (p : Poster) : St := { s with posters := fun j => if j = i then p else s.posters j }

/-- A thread takes a step (`none` = the loop thread). `nested h` = the handlers `h` posts when it runs. -/
def step (nested : H → List H) (s : St) : Option Nat → Option St
  | some i =>
    match posterStep s (some i) (s.posters i) with
    | some (s', p') => some (setPoster s' i p')
    | none => none
  | none =>
    match s.lpc with
    | .waiting => if s.counter > 0 then some { s with lpc := .draining } else none
    | .draining => some { s with counter := 0, lpc := .wantLock }
    | .wantLock => if s.holder = none then some { s with holder := some none, lpc := .swapping } else none
    | .swapping => some { s with batch := s.posts, posts := [], lpc := .unlocking }
    | .unlocking => some { s with holder := none, lpc := .running }
    | .running =>
      match s.batch with
      | [] => some { s with lpc := .waiting }
      | h :: r => some { s with batch := r, executed := s.executed ++ [h], nest := { todo := nested h }, lpc := .inHandler }
    | .inHandler =>
      if s.nest.todo = [] ∧ s.nest.pc = .idle then some { s with lpc := .decrementing }
      else match posterStep s none s.nest with
        | some (s', p') => some { s' with nest := p' }
        | none => none
    | .decrementing => some { s with pending := s.pending - 1, lpc := .running }

def init (progs : Nat → List H) : St := { posters := fun i => { todo := progs i } }

/-- Reachable states: any interleaving of any threads. -/
inductive Reach (nested : H → List H) (progs : Nat → List H) : St → Prop where
  | init : Reach nested progs (init progs)
  | step {s s' : St} (t : Option Nat) : Reach nested progs s → step nested s t = some s' → Reach nested progs s'

end Sonic.Model.Post
