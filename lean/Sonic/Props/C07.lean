/-
C07 — the WebSocket frame decoder is total, bounded and stays in sync.

Model: `Sonic.Model.WsFrame` (`FrameCodec.Decode` with its lazy reset, over the ByteBuffer model of
`Sonic.Model.WsBuf`), driven by scripts `feed bytes | read bytes | decode` in which every capacity chosen by
the Go runtime is an argument.  Spec: the pure RFC 6455 parser and monitor of `Sonic.Spec.WsFrame`.

Hypotheses (`InitOk`): the configured maximum leaves room for a header below `MaxInt64`
(`max ≤ MaxInt64 - 14`; see `C07_huge_max_panics` for what happens otherwise) and the buffer starts with
capacity ≥ 14 (`NewByteBuffer` gives 512).
-/
import Sonic.Lemmas.WsDecode
import Sonic.Lemmas.WsFrames

namespace Sonic.Props.C07
open Sonic.Model.WsBuf Sonic.Model.WsFrame Sonic.Spec.WsFrame

/-- Coupling between the implementation model and the monitor. -/
def R (m : DState) (s : S) : Prop :=
  m.c.Inv ∧ s.max = m.c.max ∧ s.held = m.c.held ∧ s.pending = m.c.unconsumed ∧ s.backlog = m.backlog

def InitOk (max cap : Int) : Prop := max ≤ Go.I64MAX - 14 ∧ 14 ≤ cap ∧ cap ≤ Go.I64MAX
instance (max cap : Int) : Decidable (InitOk max cap) := by unfold InitOk; exact inferInstance

theorem R_init {max cap : Int} (h : InitOk max cap) : R (DState.init max cap) (init max) := by
  obtain ⟨h1, h2, h3⟩ := h
  refine ⟨⟨⟨rfl, Int.le_refl _, Int.le_refl _, ?_, h3, rfl⟩, h2, h1, fun hr => by cases hr⟩, rfl, rfl, rfl, rfl⟩
  show (0 : Int) ≤ cap; omega

theorem observe_eq {b : Buf} (hI : b.Inv) (o : Outcome) : observe b o = .ok ⟨o, b.wi, b.cap - b.wi⟩ := by
  unfold observe
  rw [SaveLen_eq hI, ReadLen_eq hI, WriteLen_eq hI]
  simp only [ebind_ok, epure, Buf.Reserved]
  have : (0 : Int) + b.ri + (b.wi - b.ri) = b.wi := by omega
  rw [this]

theorem wi_eq {c : Codec} (hI : c.Inv) : c.buf.wi = ((c.held + c.unconsumed.length : Nat) : Int) := by
  have hh := held_le hI
  obtain ⟨hb, _⟩ := hI
  obtain ⟨_, _, h2, _, _, h5⟩ := hb
  unfold Codec.unconsumed
  rw [List.length_drop]; omega

/-- What one model step guarantees beyond acceptance: the ghost `Reserve` argument is within `[0, max]`. -/
def ReserveOk (max : Int) (g : Option Int) : Prop := ∀ k, g = some k → 0 ≤ k ∧ k ≤ max

/-- **One step refines the monitor**: from coupled states, every operation with every runtime answer either
is an inadmissible answer (`.env`), or the model does not panic, its observation is accepted by the monitor and
the states stay coupled. -/
theorem step_refines {m : DState} {s : S} (hR : R m s) (op : DOp) :
    m.step op = .error .env ∨
    ∃ m' ob g, m.step op = .ok (m', ob, g) ∧ ReserveOk s.max g ∧ ∃ s', step s op.toSpec ob = some s' ∧ R m' s' := by
  obtain ⟨hI, hmax, hheld, hpend, hback⟩ := hR
  have hI' := hI
  obtain ⟨hb, hcap, hmx, hr⟩ := hI'
  have hhl := held_le hI
  have hdl : (m.c.held : Int) ≤ m.c.buf.data.length := by obtain ⟨_, _, h2, _, _, h5⟩ := hb; omega
  cases op with
  | feed bs cap' =>
    rcases write_cases bs cap' hb with he | ⟨B, hB, bi, bd, br, bc⟩
    · left; simp only [DState.step]; rw [he]; rfl
    · right
      simp only [DState.step, hB, ebind_ok, observe_eq bi, epure]
      have hI2 : ({ m.c with buf := B } : Codec).Inv := ⟨bi, (by dsimp only; omega), hmx, fun h => (by rw [br]; exact hr h)⟩
      refine ⟨_, _, none, rfl, (fun k hk => by cases hk), ?_⟩
      have hun : ({ m.c with buf := B } : Codec).unconsumed = m.c.unconsumed ++ bs := by
        unfold Codec.unconsumed Codec.held
        dsimp only
        rw [bd, List.drop_append_of_le_length (by unfold Codec.held at hdl; omega)]
      have hw := wi_eq hI2
      rw [hun] at hw
      dsimp only at hw
      refine ⟨{ s with pending := s.pending ++ bs }, ?_, hI2, hmax, hheld, (by dsimp only; rw [hun, hpend]), hback⟩
      dsimp only [DOp.toSpec, step]
      rw [if_pos (by rw [hw, hheld, hpend]; rfl)]
  | read bs =>
    obtain ⟨B, n, hB, bi, bn, bd, br, bc⟩ := readFrom_eq (m.backlog ++ bs) hb
    right
    simp only [DState.step, hB, ebind_ok, observe_eq bi, epure]
    have hI2 : ({ m.c with buf := B } : Codec).Inv := ⟨bi, (by dsimp only; omega), hmx, fun h => (by rw [br]; exact hr h)⟩
    refine ⟨_, _, none, rfl, (fun k hk => by cases hk), ?_⟩
    have hun : ({ m.c with buf := B } : Codec).unconsumed = m.c.unconsumed ++ (m.backlog ++ bs).take n := by
      unfold Codec.unconsumed Codec.held
      dsimp only
      rw [bd, List.drop_append_of_le_length (by unfold Codec.held at hdl; omega)]
    have hw := wi_eq hI2
    rw [hun] at hw
    dsimp only at hw
    refine ⟨{ s with pending := s.pending ++ (s.backlog ++ bs).take n, backlog := (s.backlog ++ bs).drop n }, ?_,
      hI2, hmax, hheld, (by dsimp only; rw [hun, hpend, hback]), (by dsimp only; rw [hback])⟩
    dsimp only [DOp.toSpec, step]
    rw [if_pos ⟨by rw [hback]; exact bn, by rw [hw, hheld, hpend, hback]; rfl⟩]
  | decode cap' =>
    cases hp : parse m.c.max m.c.unconsumed with
    | needMore =>
      rcases decode_needMore cap' hI hp with he | ⟨c', g, hD, ci, cr, cd, cm, cpos, cg⟩
      · left; simp only [DState.step]; rw [he]; rfl
      · right
        simp only [DState.step, hD, ebind_ok, observe_eq ci.1, epure]
        refine ⟨_, _, g, rfl, (by rw [hmax]; exact cg), { s with held := 0 }, ?_, ci, (by rw [cm]; exact hmax), ?_, ?_, hback⟩
        · dsimp only [DOp.toSpec, step]
          rw [hmax, hpend, hp]
          dsimp only
          have : c'.buf.wi = (m.c.unconsumed.length : Nat) := by
            obtain ⟨_, _, _, _, _, h5⟩ := ci.1; rw [← h5, cd]
          rw [if_pos ⟨this, cpos⟩]
        · unfold Codec.held; rw [cr]; rfl
        · unfold Codec.unconsumed Codec.held; rw [cr, cd, hpend]; rfl
    | tooBig =>
      obtain ⟨c', hD, ci, cr, cd, cm, cc⟩ := decode_tooBig cap' hI hp
      right
      simp only [DState.step, hD, ebind_ok, observe_eq ci.1, epure]
      refine ⟨_, _, none, rfl, (fun k hk => by cases hk), { s with held := 0 }, ?_, ci, (by rw [cm]; exact hmax), ?_, ?_, hback⟩
      · dsimp only [DOp.toSpec, step]
        rw [hmax, hpend, hp]
        dsimp only
        have : c'.buf.wi = (m.c.unconsumed.length : Nat) := by
          obtain ⟨_, _, _, _, _, h5⟩ := ci.1; rw [← h5, cd]
        rw [if_pos this]
      · unfold Codec.held; rw [cr]; rfl
      · unfold Codec.unconsumed Codec.held; rw [cr, cd, hpend]; rfl
    | frame f n =>
      obtain ⟨c', hD, ci, cr, cf, cd, cm, cc⟩ := decode_frame cap' hI hp
      obtain ⟨h2, hn, hle, hf, hd⟩ := parse_frame hp
      have hge := hdrLen_ge m.c.unconsumed
      have hh : 2 + extLen (byteAt m.c.unconsumed 1) ≤ hdrLen m.c.unconsumed := by unfold hdrLen; omega
      have hv : view (m.c.unconsumed.take n) = .ok (f, n) := by
        have hl : (m.c.unconsumed.take n).length = n := by rw [List.length_take]; omega
        rw [view_eq (by omega) (by rw [hl, hdrLen_take h2 (by omega), declLen_take h2 (by omega) (by omega)]; exact hn), hl,
          frameOf_take h2 (by omega) (by omega), hf]
      right
      simp only [DState.step, hD, ebind_ok, hv, observe_eq ci.1, epure]
      refine ⟨_, _, none, rfl, (fun k hk => by cases hk), { s with pending := s.pending.drop n, held := n }, ?_, ci,
        (by rw [cm]; exact hmax), ?_, ?_, hback⟩
      · dsimp only [DOp.toSpec, step]
        rw [hmax, hpend, hp]
        dsimp only
        have : c'.buf.wi = (m.c.unconsumed.length : Nat) := by
          obtain ⟨_, _, _, _, _, h5⟩ := ci.1; rw [← h5, cd]
        rw [if_pos ⟨rfl, rfl, parse_frame_bounded hp, this⟩]
      · unfold Codec.held; rw [cr, cf]; simp
      · unfold Codec.unconsumed Codec.held; rw [cr, cf, cd, hpend]; simp

/-- The trace the monitor sees. -/
def specTrace (tr : List (DOp × Obs × Option Int)) : List (Op × Obs) := tr.map fun x => (x.1.toSpec, x.2.1)

/-- **Refinement for whole scripts** (induction over the operation list; no bound on its length, on the
bytes, on the segmentation or on the runtime's capacity answers). -/
theorem run_refines : ∀ (ops : List DOp) (m : DState) (s : S), R m s →
    m.run ops = .error .env ∨
    ∃ tr, m.run ops = .ok tr ∧ accepts s (specTrace tr) = true ∧ (∀ x ∈ tr, ReserveOk s.max x.2.2) := by
  intro ops
  induction ops with
  | nil => intro m s _; right; exact ⟨[], rfl, rfl, fun x hx => by cases hx⟩
  | cons op rest ih =>
    intro m s hR
    rcases step_refines hR op with he | ⟨m', ob, g, hst, hg, s', hs, hR'⟩
    · left; unfold DState.run; rw [he]; rfl
    · rcases ih m' s' hR' with he | ⟨tr, htr, hacc, hres⟩
      · left; unfold DState.run; rw [hst]; simp only [ebind_ok]; rw [he]; rfl
      · right
        refine ⟨(op, ob, g) :: tr, ?_, ?_, ?_⟩
        · unfold DState.run; rw [hst]; simp only [ebind_ok]; rw [htr]; rfl
        · unfold specTrace accepts; simp only [List.map_cons]; rw [hs]; exact hacc
        · intro x hx
          rcases List.mem_cons.mp hx with h | h
          · rw [h]; exact hg
          · have := hres x h; rw [step_max hs] at this; exact this

end Sonic.Props.C07
