/-
C07 — the WebSocket frame decoder is total, bounded and stays in sync.

Model: `Sonic.Model.WsFrame` (`FrameCodec.Decode` with its lazy reset, over the ByteBuffer model of
`Sonic.Model.WsBuf`), driven by scripts `feed bytes | read bytes | decode` in which every capacity chosen by
the Go runtime is an argument.  Spec: the pure RFC 6455 parser and monitor of `Sonic.Spec.WsFrame`.

Hypotheses (`InitOk`): twice the configured maximum plus a header fits in an `int`
(`2*max + 14 ≤ MaxInt64`, i.e. `max < 2^62 - 7`; see `C07_huge_max_panics` for what happens otherwise) and the
buffer starts with capacity ≥ 14 (`NewByteBuffer` gives 512).  Memory exhaustion is outside the model: a
`Reserve` of up to `max` bytes is assumed to succeed.
-/
import Sonic.Lemmas.WsDecode
import Sonic.Lemmas.WsFrames
import Sonic.Lemmas.WsEncodeSpec
import Sonic.Props.WsFrameTie

namespace Sonic.Props.C07
open Sonic.Model.WsBuf Sonic.Model.WsFrame Sonic.Spec.WsFrame

/-- Coupling between the implementation model and the monitor. -/
def R (m : DState) (s : S) : Prop :=
  m.c.Inv ∧ s.max = m.c.max ∧ s.held = m.c.held ∧ s.pending = m.c.unconsumed ∧ s.backlog = m.backlog

def InitOk (max cap : Int) : Prop := 2 * max + 14 ≤ Go.I64MAX ∧ 14 ≤ cap ∧ cap ≤ Go.I64MAX
instance (max cap : Int) : Decidable (InitOk max cap) := by unfold InitOk; exact inferInstance

theorem R_init {max cap : Int} (h : InitOk max cap) : R (DState.init max cap) (init max) := by
  obtain ⟨h1, h2, h3⟩ := h
  refine ⟨⟨⟨rfl, Int.le_refl _, Int.le_refl _, ?_, h3, rfl⟩, h2, h1, fun hr => by cases hr⟩, rfl, rfl, rfl, rfl⟩
  show (0 : Int) ≤ cap; omega

theorem observe_eq {b : Buf} (hI : b.Inv) (o : Outcome) : observe b o = .ok ⟨o, b.wi, b.cap - b.wi⟩ := by
  unfold observe
  rw [SaveLen_eq hI, ReadLen_eq hI, WriteLen_eq hI]
  simp only [ebind_ok, epure, Buf.Reserved]
  have : (0 : Int) + b.ri + (b.wi - b.ri) = b.wi := by omega
  rw [this]

theorem wi_eq {c : Codec} (hI : c.Inv) : c.buf.wi = ((c.held + c.unconsumed.length : Nat) : Int) := by
  have hh := held_le hI
  obtain ⟨hb, _⟩ := hI
  obtain ⟨_, _, h2, _, _, h5⟩ := hb
  unfold Codec.unconsumed
  rw [List.length_drop]; omega

/-- What one model step guarantees beyond acceptance: the ghost `Reserve` argument is within `[0, max]`. -/
def ReserveOk (max : Int) (g : Option Int) : Prop := ∀ k, g = some k → 0 ≤ k ∧ k ≤ max

/-- **One step refines the monitor**: from coupled states, every operation with every runtime answer either
is an inadmissible answer (`.env`), or the model does not panic, its observation is accepted by the monitor and
the states stay coupled. -/
theorem step_refines {m : DState} {s : S} (hR : R m s) (op : DOp) :
    m.step op = .error .env ∨
    ∃ m' ob g, m.step op = .ok (m', ob, g) ∧ ReserveOk s.max g ∧ ∃ s', step s op.toSpec ob = some s' ∧ R m' s' := by
  obtain ⟨hI, hmax, hheld, hpend, hback⟩ := hR
  have hI' := hI
  obtain ⟨hb, hcap, hmx, hr⟩ := hI'
  have hhl := held_le hI
  have hdl : (m.c.held : Int) ≤ m.c.buf.data.length := by obtain ⟨_, _, h2, _, _, h5⟩ := hb; omega
  cases op with
  | feed bs cap' =>
    rcases write_cases bs cap' hb with he | ⟨B, hB, bi, bd, br, bc⟩
    · left; simp only [DState.step]; rw [he]; rfl
    · right
      simp only [DState.step, hB, ebind_ok, observe_eq bi, epure]
      have hI2 : ({ m.c with buf := B } : Codec).Inv := ⟨bi, (by dsimp only; omega), hmx, fun h => (by rw [br]; exact hr h)⟩
      refine ⟨_, _, none, rfl, (fun k hk => by cases hk), ?_⟩
      have hun : ({ m.c with buf := B } : Codec).unconsumed = m.c.unconsumed ++ bs := by
        unfold Codec.unconsumed Codec.held
        dsimp only
        rw [bd, List.drop_append_of_le_length (by unfold Codec.held at hdl; omega)]
      have hw := wi_eq hI2
      rw [hun] at hw
      dsimp only at hw
      refine ⟨{ s with pending := s.pending ++ bs }, ?_, hI2, hmax, hheld, (by dsimp only; rw [hun, hpend]), hback⟩
      dsimp only [DOp.toSpec, step]
      rw [if_pos (by rw [hw, hheld, hpend]; rfl)]
  | read bs =>
    obtain ⟨B, n, hB, bi, bn, bd, br, bc⟩ := readFrom_eq (m.backlog ++ bs) hb
    right
    simp only [DState.step, hB, ebind_ok, observe_eq bi, epure]
    have hI2 : ({ m.c with buf := B } : Codec).Inv := ⟨bi, (by dsimp only; omega), hmx, fun h => (by rw [br]; exact hr h)⟩
    refine ⟨_, _, none, rfl, (fun k hk => by cases hk), ?_⟩
    have hun : ({ m.c with buf := B } : Codec).unconsumed = m.c.unconsumed ++ (m.backlog ++ bs).take n := by
      unfold Codec.unconsumed Codec.held
      dsimp only
      rw [bd, List.drop_append_of_le_length (by unfold Codec.held at hdl; omega)]
    have hw := wi_eq hI2
    rw [hun] at hw
    dsimp only at hw
    refine ⟨{ s with pending := s.pending ++ (s.backlog ++ bs).take n, backlog := (s.backlog ++ bs).drop n }, ?_,
      hI2, hmax, hheld, (by dsimp only; rw [hun, hpend, hback]), (by dsimp only; rw [hback])⟩
    dsimp only [DOp.toSpec, step]
    rw [if_pos ⟨by rw [hback]; exact bn, by rw [hw, hheld, hpend, hback]; rfl⟩]
  | commit n =>
    right
    have bi : (m.c.buf.Commit n).Inv ∧ (m.c.buf.Commit n).data = m.c.buf.data ∧ (m.c.buf.Commit n).cap = m.c.buf.cap ∧
        m.c.buf.ri ≤ (m.c.buf.Commit n).ri := by
      obtain ⟨h0, h1, h2, h3, h4, h5⟩ := hb
      unfold Buf.Commit
      by_cases hn : n ≤ 0
      · rw [if_pos hn]; exact ⟨⟨h0, h1, h2, h3, h4, h5⟩, rfl, rfl, Int.le_refl _⟩
      · rw [if_neg hn]
        dsimp only
        by_cases hw : n > m.c.buf.wi - m.c.buf.ri
        · rw [if_pos hw]; refine ⟨⟨h0, ?_, ?_, h3, h4, h5⟩, rfl, rfl, ?_⟩ <;> (try dsimp only) <;> omega
        · rw [if_neg hw]; refine ⟨⟨h0, ?_, ?_, h3, h4, h5⟩, rfl, rfl, ?_⟩ <;> (try dsimp only) <;> omega
    obtain ⟨bi, bd, bc, br⟩ := bi
    simp only [DState.step, ebind_ok, observe_eq bi, epure]
    have hI2 : ({ m.c with buf := m.c.buf.Commit n } : Codec).Inv :=
      ⟨bi, (by dsimp only; omega), hmx, fun h => (by have := hr h; dsimp only; omega)⟩
    refine ⟨_, _, none, rfl, (fun k hk => by cases hk), ?_⟩
    have hun : ({ m.c with buf := m.c.buf.Commit n } : Codec).unconsumed = m.c.unconsumed := by
      unfold Codec.unconsumed Codec.held
      dsimp only
      rw [bd]
    have hw := wi_eq hI2
    rw [hun] at hw
    dsimp only at hw
    refine ⟨{ s with pending := s.pending ++ [] }, ?_, hI2, hmax, hheld, (by dsimp only; rw [hun, hpend, List.append_nil]), hback⟩
    dsimp only [DOp.toSpec, step]
    rw [if_pos (by rw [hw, hheld, hpend, List.append_nil]; rfl)]
  | decode cap' =>
    cases hp : parse m.c.max m.c.unconsumed with
    | needMore =>
      rcases decode_needMore cap' hI hp with he | ⟨c', g, hD, ci, cr, cd, cm, cpos, cg⟩
      · left; simp only [DState.step]; rw [he]; rfl
      · right
        simp only [DState.step, hD, ebind_ok, observe_eq ci.1, epure]
        refine ⟨_, _, g, rfl, (by rw [hmax]; exact cg), { s with held := 0 }, ?_, ci, (by rw [cm]; exact hmax), ?_, ?_, hback⟩
        · dsimp only [DOp.toSpec, step]
          rw [hmax, hpend, hp]
          dsimp only
          have : c'.buf.wi = (m.c.unconsumed.length : Nat) := by
            obtain ⟨_, _, _, _, _, h5⟩ := ci.1; rw [← h5, cd]
          rw [if_pos ⟨this, cpos⟩]
        · unfold Codec.held; rw [cr]; rfl
        · unfold Codec.unconsumed Codec.held; rw [cr, cd, hpend]; rfl
    | tooBig =>
      obtain ⟨c', hD, ci, cr, cd, cm, cc⟩ := decode_tooBig cap' hI hp
      right
      simp only [DState.step, hD, ebind_ok, observe_eq ci.1, epure]
      refine ⟨_, _, none, rfl, (fun k hk => by cases hk), { s with held := 0 }, ?_, ci, (by rw [cm]; exact hmax), ?_, ?_, hback⟩
      · dsimp only [DOp.toSpec, step]
        rw [hmax, hpend, hp]
        dsimp only
        have : c'.buf.wi = (m.c.unconsumed.length : Nat) := by
          obtain ⟨_, _, _, _, _, h5⟩ := ci.1; rw [← h5, cd]
        rw [if_pos this]
      · unfold Codec.held; rw [cr]; rfl
      · unfold Codec.unconsumed Codec.held; rw [cr, cd, hpend]; rfl
    | frame f n =>
      obtain ⟨c', hD, ci, cr, cf, cd, cm, cc⟩ := decode_frame cap' hI hp
      obtain ⟨h2, hn, hle, hf, hd⟩ := parse_frame hp
      have hge := hdrLen_ge m.c.unconsumed
      have hh : 2 + extLen (byteAt m.c.unconsumed 1) ≤ hdrLen m.c.unconsumed := by unfold hdrLen; omega
      have hv : view (m.c.unconsumed.take n) = .ok (f, n) := by
        have hl : (m.c.unconsumed.take n).length = n := by rw [List.length_take]; omega
        rw [view_eq (by omega) (by rw [hl, hdrLen_take h2 (by omega), declLen_take h2 (by omega) (by omega)]; exact hn), hl,
          frameOf_take h2 (by omega) (by omega), hf]
      right
      simp only [DState.step, hD, ebind_ok, hv, observe_eq ci.1, epure]
      refine ⟨_, _, none, rfl, (fun k hk => by cases hk), { s with pending := s.pending.drop n, held := n }, ?_, ci,
        (by rw [cm]; exact hmax), ?_, ?_, hback⟩
      · dsimp only [DOp.toSpec, step]
        rw [hmax, hpend, hp]
        dsimp only
        have : c'.buf.wi = (m.c.unconsumed.length : Nat) := by
          obtain ⟨_, _, _, _, _, h5⟩ := ci.1; rw [← h5, cd]
        rw [if_pos ⟨rfl, rfl, parse_frame_bounded hp, this⟩]
      · unfold Codec.held; rw [cr, cf]; simp
      · unfold Codec.unconsumed Codec.held; rw [cr, cf, cd, hpend]; simp

/-- The trace the monitor sees. -/
def specTrace (tr : List (DOp × Obs × Option Int)) : List (Op × Obs) := tr.map fun x => (x.1.toSpec, x.2.1)

/-- **Refinement for whole scripts** (induction over the operation list; no bound on its length, on the
bytes, on the segmentation or on the runtime's capacity answers). -/
theorem run_refines : ∀ (ops : List DOp) (m : DState) (s : S), R m s →
    m.run ops = .error .env ∨
    ∃ tr, m.run ops = .ok tr ∧ accepts s (specTrace tr) = true ∧ (∀ x ∈ tr, ReserveOk s.max x.2.2) := by
  intro ops
  induction ops with
  | nil => intro m s _; right; exact ⟨[], rfl, rfl, fun x hx => by cases hx⟩
  | cons op rest ih =>
    intro m s hR
    rcases step_refines hR op with he | ⟨m', ob, g, hst, hg, s', hs, hR'⟩
    · left; unfold DState.run; rw [he]; rfl
    · rcases ih m' s' hR' with he | ⟨tr, htr, hacc, hres⟩
      · left; unfold DState.run; rw [hst]; simp only [ebind_ok]; rw [he]; rfl
      · right
        refine ⟨(op, ob, g) :: tr, ?_, ?_, ?_⟩
        · unfold DState.run; rw [hst]; simp only [ebind_ok]; rw [htr]; rfl
        · unfold specTrace accepts; simp only [List.map_cons]; rw [hs]; exact hacc
        · intro x hx
          rcases List.mem_cons.mp hx with h | h
          · rw [h]; exact hg
          · have := hres x h; rw [step_max hs] at this; exact this

/-! ## The property, clause by clause -/

abbrev Trace := List (DOp × Obs × Option Int)

/-- The model's run from a fresh codec. -/
def runInit (max cap : Int) (ops : List DOp) : M Trace := (DState.init max cap).run ops

/-- **Total**: for every byte list, every segmentation, every placement of `Decode` calls and every capacity
the runtime may answer, the decoder never panics and never interprets bytes it has not received — the only
way the model's run can stop is an inadmissible capacity answer. -/
theorem C07_total (max cap : Int) (h : InitOk max cap) (ops : List DOp) :
    ∀ e, runInit max cap ops = .error e → e = .env := by
  intro e he
  rcases run_refines ops _ _ (R_init h) with h1 | ⟨tr, h1, _⟩
  · unfold runInit at he; rw [h1] at he; cases he; rfl
  · unfold runInit at he; rw [h1] at he; cases he

/-- **Accepted**: every observation of every run is accepted by the RFC 6455 monitor. -/
theorem C07_accepted (max cap : Int) (h : InitOk max cap) (ops : List DOp) (tr : Trace)
    (hrun : runInit max cap ops = .ok tr) : accepts (init max) (specTrace tr) = true := by
  rcases run_refines ops _ _ (R_init h) with h1 | ⟨tr', h1, hacc, _⟩
  · unfold runInit at hrun; rw [h1] at hrun; cases hrun
  · unfold runInit at hrun; rw [h1] at hrun; cases hrun; exact hacc

/-- **Bounded**: no yielded frame has a payload above the maximum, and whenever the decoder asks the buffer
to make room (`src.Reserve(n)`) it asks for `0 ≤ n ≤ max`. -/
theorem C07_bounded (max cap : Int) (h : InitOk max cap) (ops : List DOp) (tr : Trace)
    (hrun : runInit max cap ops = .ok tr) :
    ∀ x ∈ tr, (∀ f n, x.2.1.out = .frame f n → (f.payload.length : Int) ≤ max) ∧
              (∀ k, x.2.2 = some k → 0 ≤ k ∧ k ≤ max) := by
  rcases run_refines ops _ _ (R_init h) with h1 | ⟨tr', h1, hacc, hres⟩
  · unfold runInit at hrun; rw [h1] at hrun; cases hrun
  · unfold runInit at hrun; rw [h1] at hrun; cases hrun
    intro x hx
    refine ⟨?_, hres x hx⟩
    have := accepts_good _ _ hacc (x.1.toSpec, x.2.1) (List.mem_map.mpr ⟨x, hx, rfl⟩)
    exact this.2.2.1

/-- **64-bit lengths with the top bit set** (the defect repaired by 549141a) are refused as soon as the length
field is complete, from every reachable codec state and whatever follows. -/
theorem C07_bounded_top_bit (c : Codec) (cap' : Int) (hI : c.Inv) (h10 : 10 ≤ c.unconsumed.length)
    (h127 : byteAt c.unconsumed 1 % 128 = 127) (htop : 2 ^ 63 ≤ beNat ((c.unconsumed.drop 2).take 8)) :
    ∃ c', c.Decode cap' = .ok (c', .tooBig, none) := by
  have hext : extLen (byteAt c.unconsumed 1) = 8 := by unfold extLen; rw [if_pos h127]
  have hd : declLen c.unconsumed = beNat ((c.unconsumed.drop 2).take 8) := by
    unfold declLen; rw [hext, if_neg (by omega)]
  have hm := hI.max_le
  have hp : parse c.max c.unconsumed = .tooBig :=
    parse_tooBig_of (by omega) (by omega) (by rw [hd]; unfold Go.I64MAX at hm; omega)
  obtain ⟨c', hc, _⟩ := decode_tooBig cap' hI hp
  exact ⟨c', hc⟩

/-- **A `need more` answer leaves room for the next read** (`Reserved() > 0`): a transport read into the
buffer is never a zero-length read that would be taken for EOF. -/
theorem C07_needmore_can_progress (max cap : Int) (h : InitOk max cap) (ops : List DOp) (tr : Trace)
    (hrun : runInit max cap ops = .ok tr) : ∀ x ∈ tr, x.2.1.out = .needMore → 0 < x.2.1.reserved := by
  intro x hx
  have := accepts_good _ _ (C07_accepted max cap h ops tr hrun) (x.1.toSpec, x.2.1) (List.mem_map.mpr ⟨x, hx, rfl⟩)
  exact this.2.2.2

/-- **Consumes exactly**: a successful `Decode` hands out exactly the first `len(frame)` unconsumed bytes and the
next `Decode` starts right after them; an unsuccessful one consumes nothing. (`unconsumed` = buffer contents
minus the frame handed out by the previous call, which the lazy reset drops.) -/
theorem C07_consumes_exactly (c c' : Codec) (cap' : Int) (o : Decoded) (g : Option Int) (hI : c.Inv)
    (hD : c.Decode cap' = .ok (c', o, g)) :
    c'.Inv ∧
    match o with
    | .frame fb => fb = c.unconsumed.take fb.length ∧ fb.length ≤ c.unconsumed.length ∧ 2 ≤ fb.length ∧
                   c'.unconsumed = c.unconsumed.drop fb.length
    | _ => c'.unconsumed = c.unconsumed := by
  cases hp : parse c.max c.unconsumed with
  | needMore =>
    rcases decode_needMore cap' hI hp with he | ⟨c2, g2, hD2, ci, cr, cd, _⟩
    · rw [he] at hD; cases hD
    · rw [hD2] at hD; cases hD
      refine ⟨ci, ?_⟩
      show c'.unconsumed = _
      unfold Codec.unconsumed Codec.held at *; rw [cr, cd]; rfl
  | tooBig =>
    obtain ⟨c2, hD2, ci, cr, cd, _⟩ := decode_tooBig cap' hI hp
    rw [hD2] at hD; cases hD
    refine ⟨ci, ?_⟩
    show c'.unconsumed = _
    unfold Codec.unconsumed Codec.held at *; rw [cr, cd]; rfl
  | frame f n =>
    obtain ⟨c2, hD2, ci, cr, cf, cd, _⟩ := decode_frame cap' hI hp
    obtain ⟨h2, hn, hle, _, _⟩ := parse_frame hp
    have hge := hdrLen_ge c.unconsumed
    rw [hD2] at hD; cases hD
    have hl : (c.unconsumed.take n).length = n := by rw [List.length_take]; omega
    refine ⟨ci, ?_⟩
    show _ ∧ _ ∧ _ ∧ c'.unconsumed = _
    rw [hl]
    refine ⟨rfl, hle, by omega, ?_⟩
    unfold Codec.unconsumed Codec.held at *; rw [cr, cf, cd]; simp

/-! ### Segmentation independence -/

/-- The bytes of the `feed` operations of a script, in order. -/
def opsBytes : List DOp → List UInt8
  | [] => []
  | .feed bs _ :: r => bs ++ opsBytes r
  | _ :: r => opsBytes r

/-- The script delivers bytes with `feed` only (no partial transport reads). -/
def FeedOnly (ops : List DOp) : Prop := ∀ op ∈ ops, ∀ bs, op ≠ .read bs

/-- The last call of the trace is a `Decode` that returned `need more` or `too big`: the decoder was run to
exhaustion on what it had been given. -/
def Drained (tr : Trace) (fin : Final) : Prop :=
  ∃ ob, (specTrace tr).getLast? = some (.decode, ob) ∧
    ((fin = .needMore ∧ ob.out = .needMore) ∨ (fin = .tooBig ∧ ob.out = .tooBig))

theorem run_ops : ∀ (ops : List DOp) (m : DState) (tr : Trace), m.run ops = .ok tr → tr.map (·.1) = ops := by
  intro ops
  induction ops with
  | nil => intro m tr h; cases h; rfl
  | cons op r ih =>
    intro m tr h
    unfold DState.run at h
    cases hs : m.step op with
    | error e => rw [hs] at h; cases h
    | ok x =>
      rw [hs] at h
      simp only [ebind_ok] at h
      cases hr : x.1.run r with
      | error e => rw [hr] at h; cases h
      | ok t => rw [hr] at h; cases h; simp [ih _ _ hr]

theorem fedBytes_specTrace : ∀ (tr : Trace), fedBytes (specTrace tr) = opsBytes (tr.map (·.1)) := by
  intro tr
  induction tr with
  | nil => rfl
  | cons x r ih =>
    obtain ⟨op, ob, g⟩ := x
    cases op <;> simp [specTrace, fedBytes, opsBytes, DOp.toSpec] <;> exact ih

theorem noRead_specTrace (tr : Trace) (h : FeedOnly (tr.map (·.1))) : NoRead (specTrace tr) := by
  intro e he bs hc
  obtain ⟨x, hx, rfl⟩ := List.mem_map.mp he
  obtain ⟨op, ob, g⟩ := x
  cases op with
  | feed b c => cases hc
  | decode c => cases hc
  | commit n => cases hc
  | read b => exact h (.read b) (List.mem_map.mpr ⟨_, hx, rfl⟩) b rfl

/-- **The frames are the frames of the byte stream**: whatever the segmentation, wherever `Decode` was called
and whatever the runtime answered, once the decoder has been run to exhaustion the frames it yielded are
exactly the frame sequence (RFC 6455 parse, repeated) of the concatenation of the delivered bytes, and the
final answer (`need more` / `too big`) is the one of that sequence. -/
theorem C07_frames_of_stream (max cap : Int) (h : InitOk max cap) (ops : List DOp) (tr : Trace)
    (hrun : runInit max cap ops = .ok tr) (hfeed : FeedOnly ops) (fin : Final) (hdr : Drained tr fin) :
    frames max (opsBytes ops) = (yielded (specTrace tr), fin) := by
  have hacc := C07_accepted max cap h ops tr hrun
  have hops := run_ops ops _ tr hrun
  obtain ⟨ob, hl, hfin⟩ := hdr
  have hd := frames_drained hacc hl
  have hdel : delivered (init max) (specTrace tr) = opsBytes ops := by
    rw [delivered_noRead _ _ hacc (noRead_specTrace tr (by rw [hops]; exact hfeed)), fedBytes_specTrace, hops]
  rw [hdel] at hd
  simp only [init, List.nil_append] at hd
  rcases hfin with ⟨rfl, ho⟩ | ⟨rfl, ho⟩
  · exact hd.1 ho
  · exact hd.2 ho

/-- **Segmentation independence**: two scripts that deliver the same bytes — split differently, with `Decode`
called at different moments, with different runtime capacities — yield the same frames and end the same way. -/
theorem C07_segmentation_independent (max cap₁ cap₂ : Int) (h₁ : InitOk max cap₁) (h₂ : InitOk max cap₂)
    (ops₁ ops₂ : List DOp) (tr₁ tr₂ : Trace)
    (hrun₁ : runInit max cap₁ ops₁ = .ok tr₁) (hrun₂ : runInit max cap₂ ops₂ = .ok tr₂)
    (hf₁ : FeedOnly ops₁) (hf₂ : FeedOnly ops₂) (hbytes : opsBytes ops₁ = opsBytes ops₂)
    (fin₁ fin₂ : Final) (hd₁ : Drained tr₁ fin₁) (hd₂ : Drained tr₂ fin₂) :
    yielded (specTrace tr₁) = yielded (specTrace tr₂) ∧ fin₁ = fin₂ := by
  have e1 := C07_frames_of_stream max cap₁ h₁ ops₁ tr₁ hrun₁ hf₁ fin₁ hd₁
  have e2 := C07_frames_of_stream max cap₂ h₂ ops₂ tr₂ hrun₂ hf₂ fin₂ hd₂
  rw [hbytes, e2] at e1
  exact ⟨(Prod.mk.inj e1).1.symm, (Prod.mk.inj e1).2.symm⟩

/-- The same with partial transport reads (`read`): the yielded frames are the frame sequence of the bytes that
entered the buffer. -/
theorem C07_frames_of_stream_reads (max cap : Int) (h : InitOk max cap) (ops : List DOp) (tr : Trace)
    (hrun : runInit max cap ops = .ok tr) (fin : Final) (hdr : Drained tr fin) :
    frames max (delivered (init max) (specTrace tr)) = (yielded (specTrace tr), fin) := by
  have hacc := C07_accepted max cap h ops tr hrun
  obtain ⟨ob, hl, hfin⟩ := hdr
  have hd := frames_drained hacc hl
  simp only [init, List.nil_append] at hd
  rcases hfin with ⟨rfl, ho⟩ | ⟨rfl, ho⟩
  · exact hd.1 ho
  · exact hd.2 ho

/-- **decode ∘ encode = id**: for every list of frames (every FIN/RSV/opcode/mask combination, every payload
length up to the maximum, hence every length class 7/16/64 bit), feeding the encoder's output in any
segmentation and decoding to exhaustion returns exactly those frames. -/
theorem C07_decode_encode (max cap : Int) (h : InitOk max cap) (fs : List Frame)
    (hfs : ∀ f ∈ fs, f.WF ∧ (f.payload.length : Int) ≤ max)
    (ops : List DOp) (tr : Trace) (hrun : runInit max cap ops = .ok tr) (hfeed : FeedOnly ops)
    (hbytes : opsBytes ops = fs.flatMap encode) (fin : Final) (hdr : Drained tr fin) :
    yielded (specTrace tr) = fs ∧ fin = .needMore := by
  have e := C07_frames_of_stream max cap h ops tr hrun hfeed fin hdr
  rw [hbytes, frames_encode max fs hfs] at e
  exact ⟨(Prod.mk.inj e).1.symm, (Prod.mk.inj e).2.symm⟩

/-! ## Non-vacuity: the hypotheses are satisfiable, the monitor is not trivial, the hypothesis on `max` is needed -/

def outs (r : M Trace) : Option (List Outcome) := match r with | .ok tr => some (tr.map (·.2.1.out)) | .error _ => none
def err (r : M Trace) : Option Panic := match r with | .ok _ => none | .error e => some e
def traceOf (r : M Trace) : Trace := match r with | .ok tr => tr | .error _ => []

theorem ok_of_err_none {r : M Trace} (h : err r = none) : r = .ok (traceOf r) := by
  cases r with
  | ok tr => rfl
  | error e => cases h

/-- `DefaultMaxMessageSize` and the stream's initial `Reserve(4096)`. -/
example : InitOk 524288 4096 := by decide

/-- The corpus witness of the repaired defect: `82 7f 80 00 00 00 00 00 00 00` (length 2^63) is refused, twice. -/
example : outs (runInit 524288 4096 [.feed [0x82, 0x7f, 0x80, 0, 0, 0, 0, 0, 0, 0] 4096, .decode 4096, .decode 4096])
    = some [.ok, .tooBig, .tooBig] := by decide

def exFrame : Frame := { fin := true, rsv1 := false, rsv2 := false, rsv3 := false, opcode := 1, masked := true,
                         mask := [1, 2, 3, 4], payload := [0x49, 0x6b] }
def exOps : List DOp :=
  [.feed [0x81] 512, .decode 512, .feed [0x82, 1, 2] 512, .decode 512, .feed [3, 4, 0x49, 0x6b] 512, .decode 512, .decode 512]

example : encode exFrame = [0x81, 0x82, 1, 2, 3, 4, 0x49, 0x6b] := by decide

/-- A masked text frame delivered in three segments: need more, need more, the frame, need more. -/
example : outs (runInit 200 512 exOps) = some [.ok, .needMore, .ok, .needMore, .ok, .frame exFrame 8, .needMore] := by decide

/-- All hypotheses of `C07_decode_encode` / `C07_frames_of_stream` hold together for that script. -/
example : InitOk 200 512 ∧ runInit 200 512 exOps = .ok (traceOf (runInit 200 512 exOps)) ∧ FeedOnly exOps ∧
    opsBytes exOps = [exFrame].flatMap encode ∧ (∀ f ∈ [exFrame], f.WF ∧ (f.payload.length : Int) ≤ 200) ∧
    Drained (traceOf (runInit 200 512 exOps)) .needMore := by
  refine ⟨by decide, ok_of_err_none (by decide), ?_, by decide, by decide, ?_⟩
  · intro op hop bs hc; subst hc; simp [exOps] at hop
  · exact ⟨⟨.needMore, 0, 512⟩, by decide, Or.inl ⟨rfl, rfl⟩⟩

/-- The monitor rejects a frame that has not been received, and a `need more` that leaves no room. -/
example : step (init 200) .decode ⟨.frame exFrame 8, 0, 512⟩ = none := by decide
example : step { init 200 with pending := [0x81, 0x05, 1, 2] } .decode ⟨.needMore, 4, 0⟩ = none := by decide
example : step { init 200 with pending := [0x81, 0x05, 1, 2] } .decode ⟨.needMore, 4, 508⟩ ≠ none := by decide

/-- Without the hypothesis on `max` the property is false: with `maxMessageSize = MaxInt64` the declared length
2^63-1 passes the check, `readSoFar += payloadLength` wraps to a negative number, `PrepareRead` has nothing to do
and `src.Data()[:readSoFar]` panics with a negative slice bound. -/
theorem C07_huge_max_panics :
    err (runInit Go.I64MAX 512 [.feed [0x82, 0x7f, 0x7f, 0xff, 0xff, 0xff, 0xff, 0xff, 0xff, 0xff] 512, .decode 512])
      = some .sliceBounds := by decide

end Sonic.Props.C07
