/-
C03 — Event-loop accounting and RunPending termination.

Theorems about the loop model `Sonic.Model.Loop` (which the correspondence check accepts real traces of the event
loop against): in every reachable state `poller.pending` equals the number of registered interests (one per deferred
read / write / accept and per armed timer) plus the posted handlers not yet run (queued or currently running);
hence `Pending()` is exact whenever no handler executes, `RunPending`'s loop condition is false exactly when
nothing is in flight, and a poll that dispatched a handler reports a positive count, never a timeout.

Tie T: `Sonic.Props.C03Poller` (imported here, theorems `C03_poller_*`) proves that the model's helpers `setRead / setWrite /
delRead / delWrite / closeObj / armTimer / unsetPending` do to `(evR, evW, pending)` exactly what the functions regenerated
from `internal/poll_linux.go` (`Sonic.Gen.Poller`) do, for every slot state and every outcome of the system calls.
-/
import Sonic.Lemmas.LoopAcct
import Sonic.Props.Ledger
import Sonic.Props.C03Poller

namespace Sonic.Props.C03
open Sonic.Model.Loop
open Sonic.Spec.Loop (Ev Ret Res OpKind ObjKind)

/-- `Reach evs w`: the loop model accepts the event list `evs` from the initial state and ends in `w`. -/
def Reach (evs : List Ev) (w : World) : Prop := run {} evs = some w

theorem run_acct (w w' : World) (evs : List Ev) (hI : AcctInv w) (h : run w evs = some w') : AcctInv w' := by
  induction evs generalizing w with
  | nil => simp only [run] at h; cases h; exact hI
  | cons e r ih =>
    simp only [run] at h
    cases hs : step w e with
    | none => simp [hs] at h
    | some w1 => simp only [hs] at h; exact ih w1 (step_acct w w1 e hI hs) h

theorem acct_init : AcctInv ({} : World) := by
  refine ⟨by simp [ids], ?_⟩
  simp [bits, postFrames]

/-- **C03 (accounting invariant).** For every event history the model accepts — any sequence of start / complete /
cancel / close / timer arm / disarm / post, over any number of objects, with any poll batches — the pending count
equals registered interests + queued posts + posted handlers currently running. -/
theorem C03_pending_accounting (evs : List Ev) (w : World) (h : Reach evs w) :
    w.pending = bits w.objs + w.posts.length + postFrames w.stack := by
  have := (run_acct {} w evs acct_init h).2
  omega

theorem bits_nonneg : ∀ l : List Obj, 0 ≤ bits l
  | [] => by simp [bits]
  | o :: r => by
    have := bits_nonneg r
    simp only [bits, bitsOf]; split <;> split <;> omega

theorem postFrames_nonneg : ∀ st : List K, 0 ≤ postFrames st
  | [] => by simp [postFrames]
  | k :: r => by
    have := postFrames_nonneg r
    cases k with
    | user op a => cases a <;> simp [postFrames] <;> omega
    | _ => simpa [postFrames] using this

/-- **C03 (Pending() is exact when no handler executes).** If the model accepts a `Pending()`/`Posted()`
observation `(p, q)` at top level, then `p` is the number of registered interests plus queued posts and `q` the
number of queued posts. -/
theorem C03_pending_reported_exact (evs : List Ev) (w w' : World) (p q d : Int) (h : Reach evs w)
    (htop : w.stack = [.pendingCall]) (hs : step w (.ret (.pending p q d)) = some w') :
    p = bits w.objs + w.posts.length ∧ q = w.posts.length := by
  have hacc := C03_pending_accounting evs w h
  unfold step at hs
  simp only [htop] at hs
  split at hs
  · rename_i hc
    simp only [Bool.and_eq_true, beq_iff_eq] at hc
    rw [htop] at hacc
    simp only [postFrames] at hacc
    exact ⟨by omega, hc.1.2⟩
  · cases hs

/-- **C03 (RunPending).** `RunPending` loops while `Pending() > 0`. At a loop head (top level, no handler running)
that condition is false exactly when no interest is registered and no post is queued: it never returns with an
operation in flight and never keeps waiting with none. -/
theorem C03_runpending_exit_iff_idle (evs : List Ev) (w : World) (h : Reach evs w) (htop : w.stack = []) :
    w.pending ≤ 0 ↔ (bits w.objs = 0 ∧ w.posts = []) := by
  have hacc := C03_pending_accounting evs w h
  rw [htop] at hacc
  simp only [postFrames] at hacc
  have h1 := bits_nonneg w.objs
  constructor
  · intro hp
    have : (w.posts.length : Int) = 0 := by omega
    exact ⟨by omega, List.eq_nil_of_length_eq_zero (by omega)⟩
  · rintro ⟨hb, hp⟩
    rw [hb, hp] at hacc; simp at hacc; omega

/-- **C03 (PollOne result).** A poll during which a handler was dispatched cannot report a timeout, and no poll
reports success with a zero count. -/
theorem C03_poll_result (w w' : World) (any : Bool) (rest : List K) (r : Ret)
    (hst : w.stack = .pollCall any :: rest) (hs : step w (.ret r) = some w') :
    (∀ n res, r = .poll n res → n ≠ 0) ∧ (∀ n, r = .pollTimeout n → any = true → n < 0) := by
  constructor
  · intro n res hr
    subst hr
    unfold step at hs
    simp only [hst] at hs
    split at hs
    · cases hs
    · rename_i hc; simpa using hc
  · intro n hr hany
    subst hr hany
    unfold step at hs
    simp only [hst] at hs
    split at hs
    · cases hs
    · rename_i hc; simp at hc; omega

/-! ### The wait interrupted by a signal (io.go `poll`): decision logic stated outright -/

inductive WaitOutcome where
  | events (n : Nat) | eintr | timeoutErr | otherErr
  deriving DecidableEq, Repr

inductive PollReturn where
  | ok (n : Nat) | timeout | nilZero | error
  deriving DecidableEq, Repr

/-- Mirror of `(*IO).poll` (io.go): how the poller's result is turned into the caller's. -/
def ioPoll (timeoutMs : Int) : WaitOutcome → PollReturn
  | .events n => .ok n
  | .eintr => if timeoutMs ≥ 0 then .timeout else .nilZero
  | .timeoutErr => .timeout
  | .otherErr => .error

/-- **C03 (EINTR).** A wait interrupted by a signal is never reported as an error. -/
theorem C03_eintr_not_an_error (t : Int) : ioPoll t .eintr ≠ .error := by
  simp only [ioPoll]; split <;> simp

/-! Non-vacuity: a concrete history with a deferred read, a post and a poll is accepted and ends balanced. -/
example : ∃ w, Reach [.obj 1 .stream, .callStart 11 1 .read 8, .ret .plain, .callPost 12, .ret (.err true),
                      .callPending, .ret (.pending 2 1 0), .callPoll, .enter 12 .post 0 [] false, .exit 12,
                      .enter 11 .ok 5 [] false, .exit 11, .ret (.poll 2 .ok), .callPending, .ret (.pending 0 0 0)] w
              ∧ w.pending = 0 := by
  refine ⟨_, rfl, ?_⟩
  decide

/-! ### Over the API-level ledger (`Sonic.Props.Ledger`): interest bits ↔ operations in flight -/

/-- **C03 (Pending() = operations in flight), at the API level.** See `Sonic.Props.Ledger`: the ledger knows nothing
about interest bits or the counter, only which operations were started, completed, cancelled or closed. -/
theorem C03_pending_is_operations_in_flight (evs : List Ev) (p q d : Int) (w : World) (l : Sonic.Spec.Ledger.L)
    (h : run {} (evs ++ [.callPending, .ret (.pending p q d)]) = some w)
    (hU : Sonic.Spec.Ledger.UsageOk {} (evs ++ [.callPending, .ret (.pending p q d)]))
    (hl : Sonic.Spec.Ledger.run {} evs = some l) (hq : Sonic.Spec.Ledger.quiet l.stack = true) :
    p = l.owed.length ∧ q = Sonic.Spec.Ledger.postsOwed l :=
  Sonic.Props.Ledger.C03_pending_is_operations_in_flight evs p q d w l h hU hl hq

/-- Every history of the model (documented usage) is accepted by the ledger, pending observations included. -/
theorem C03_ledger_accepts_model (evs : List Ev) (w : World) (h : run {} evs = some w) (hU : Sonic.Spec.Ledger.UsageOk {} evs) :
    Sonic.Spec.Ledger.accepts evs = true :=
  Sonic.Props.Ledger.ledger_accepts_model evs w h hU

/-- The ledger's owed operations are as many as the model's registered interests plus queued posts, in every reachable state. -/
theorem C03_owed_is_registered (evs : List Ev) (w : World) (h : run {} evs = some w) (hU : Sonic.Spec.Ledger.UsageOk {} evs) :
    ∃ l, Sonic.Spec.Ledger.run {} evs = some l ∧ (l.owed.length : Int) = bits w.objs + w.posts.length :=
  Sonic.Props.Ledger.C03_owed_is_registered evs w h hU

end Sonic.Props.C03
