/-
C03, tie T — the poller bookkeeping the accounting theorems rest on, stated about the code itself.

`Sonic.Gen.Poller` is regenerated from `internal/poll_linux.go` on every run (`setRW`, `SetRead`, `SetWrite`, `DelRead`,
`DelWrite`, `Del`).  A state `s : poller` is one slot as the poller sees it: `s.slot_Events` (the `uint32` mask),
`s.pending` (the poller's counter), `s.oracle` (what the `epoll_ctl` wrappers `add / modify / del` will answer, call by
call — universally quantified in every theorem) and `s.calls` (the system calls made so far).

The theorems say: the generated functions act on `(read interest, write interest, pending)` exactly like the helpers of
the hand-written loop model `Sonic.Model.Loop` over which `C03_pending_accounting` is proved; and, directly on the
generated code, that `pending` moves by +1 exactly on a first successful registration of a direction, by −1 exactly on
removal of a set direction, and never otherwise.
-/
import Sonic.Lemmas.PollerTie
import Sonic.Gen.PostAccess

namespace Sonic.Props.C03
open Sonic.Gen.Poller
open Sonic.Lemmas.PollerTie
open Sonic.Model.Loop
open Sonic.Spec.Loop (ObjKind)

/-- **C03 (tie T, the two event flags).** The flags the source defines do not overlap and are not empty — what the
source's `init()` checks at start-up, proved for the constants read from the source on this run. -/
theorem C03_poller_flags_distinct :
    PollerReadEvent &&& PollerWriteEvent = 0 ∧ PollerReadEvent ≠ 0 ∧ PollerWriteEvent ≠ 0 :=
  ⟨flags_disjoint, read_ne_zero, write_ne_zero⟩

/-- **C03 (tie T, registration).** Whenever the generated state and the model agree on a slot (`absOf s = viewOf w o`) and
the system call succeeds, `SetRead` / `SetWrite` return nil and leave the slot exactly as the model's `setRead` / `setWrite`
(and `armTimer`, which is `SetRead` on a timer slot) leave it: same interest bits, same pending count. -/
theorem C03_poller_set_refines_model (s : poller) (w : World) (o : Obj) (op : Nat)
    (hg : getObj w o.id = some o) (hrel : absOf s = viewOf w o) (hp : PendOk s) (hok : ans s.oracle = .nil) :
    (s.SetRead.2 = .nil ∧ viewAt (setRead w o op) o.id = some (absOf s.SetRead.1)) ∧
    (s.SetWrite.2 = .nil ∧ viewAt (setWrite w o op) o.id = some (absOf s.SetWrite.1)) ∧
    (∀ rep, viewAt (armTimer w o op rep) o.id = some (absOf s.SetRead.1)) := by
  have hr := SetRead_view s hp hok
  have hw := SetWrite_view s hp hok
  refine ⟨⟨hr.2, ?_⟩, ⟨hw.2, ?_⟩, fun rep => ?_⟩
  · rw [model_setRead_view w o op hg, hr.1, hrel]
  · rw [model_setWrite_view w o op hg, hw.1, hrel]
  · rw [model_armTimer_view w o op rep hg, hr.1, hrel]

/-- **C03 (tie T, failed registration).** If the system call fails, `SetRead` / `SetWrite` leave the mask and `pending`
exactly as they were and report the error (the model takes no `setRead` / `setWrite` step then: the operation completes
with the error instead). -/
theorem C03_poller_set_failure_changes_nothing (s : poller) (hf : ans s.oracle ≠ .nil) :
    (s.SetRead.1.slot_Events = s.slot_Events ∧ s.SetRead.1.pending = s.pending ∧ (rd s = false → s.SetRead.2 ≠ .nil)) ∧
    (s.SetWrite.1.slot_Events = s.slot_Events ∧ s.SetWrite.1.pending = s.pending ∧ (wr s = false → s.SetWrite.2 ≠ .nil)) := by
  constructor
  · have F := SetRead_abs s
    cases h : rd s with
    | true => rw [F.1 h]; simp
    | false => obtain ⟨h1, h2, h3⟩ := F.2.2 h hf; exact ⟨h1, h2, fun _ => by rw [h3]; exact hf⟩
  · have F := SetWrite_abs s
    cases h : wr s with
    | true => rw [F.1 h]; simp
    | false => obtain ⟨h1, h2, h3⟩ := F.2.2 h hf; exact ⟨h1, h2, fun _ => by rw [h3]; exact hf⟩

/-- **C03 (tie T, removal).** For every oracle — whatever `epoll_ctl` answers — `DelRead` / `DelWrite` leave the slot
exactly as the model's `delRead` / `delWrite`: the bit is cleared and `pending` decremented iff the bit was set. -/
theorem C03_poller_del_refines_model (s : poller) (w : World) (o : Obj)
    (hg : getObj w o.id = some o) (hrel : absOf s = viewOf w o) (hp : PendOk s) :
    viewAt (delRead w o) o.id = some (absOf s.DelRead.1) ∧ viewAt (delWrite w o) o.id = some (absOf s.DelWrite.1) := by
  unfold PendOk at hp
  constructor
  · rw [model_delRead_view w o hg, DelRead_view s (by omega) (by omega), hrel]
  · rw [model_delWrite_view w o hg, DelWrite_view s (by omega) (by omega), hrel]

/-- **C03 (tie T, close).** For every oracle `Del` removes both directions and uncounts each that was set: it leaves the
slot as the model's `closeObj` does (objects other than timers), and `pending` as `unsetPending` does (timer slots, which
never carry the write interest). -/
theorem C03_poller_close_refines_model (s : poller) (w : World) (o : Obj)
    (hg : getObj w o.id = some o) (hrel : absOf s = viewOf w o) (hp : PendOk s) :
    (o.kind ≠ .timer → viewAt (closeObj w o) o.id = some (absOf s.Del.1)) ∧
    (o.evW = false → (unsetPending w o).pending = s.Del.1.pending ∧ rd s.Del.1 = false ∧ wr s.Del.1 = false) := by
  have hd := Del_view s hp
  constructor
  · intro hk
    rw [model_closeObj_view w o hk hg, hd, hrel]
  · intro hW
    have hv := model_unset_view w o { o with evR := false } hW rfl hW
    rw [← hrel, ← hd] at hv
    have h1 := congrArg PView.pending hv
    have h2 := congrArg PView.evR hv
    have h3 := congrArg PView.evW hv
    simp only [viewOf, absOf] at h1 h2 h3
    exact ⟨h1, h2.symm, by rw [← h3]; exact hW⟩

/-- **C03 (tie T, counting — stated on the generated code alone).** For every slot state and every oracle:
`SetRead` / `SetWrite` add one to `pending` exactly when the direction was not yet registered and the system call
succeeded; `DelRead` / `DelWrite` subtract one exactly when the direction was registered; `Del` subtracts one per
registered direction; nothing else changes `pending`. -/
theorem C03_poller_pending_delta (s : poller) (hp : PendOk s) :
    s.SetRead.1.pending = s.pending + (if rd s = false ∧ ans s.oracle = .nil then 1 else 0) ∧
    s.SetWrite.1.pending = s.pending + (if wr s = false ∧ ans s.oracle = .nil then 1 else 0) ∧
    s.DelRead.1.pending = s.pending - (if rd s = true then 1 else 0) ∧
    s.DelWrite.1.pending = s.pending - (if wr s = true then 1 else 0) ∧
    s.Del.1.pending = s.pending - nbits s := by
  have hp' := hp
  unfold PendOk at hp'
  have a1 := add_one (p := s.pending) (by omega) (by omega)
  have a2 := add_neg_one (p := s.pending) (by omega) (by omega)
  refine ⟨?_, ?_, ?_, ?_, ?_⟩
  · have F := SetRead_abs s
    cases h : rd s with
    | true => rw [F.1 h]; simp
    | false =>
      by_cases hok : ans s.oracle = .nil
      · rw [(F.2.1 h hok).2.2.1, a1]; simp [hok]
      · rw [(F.2.2 h hok).2.1]; simp [hok]
  · have F := SetWrite_abs s
    cases h : wr s with
    | true => rw [F.1 h]; simp
    | false =>
      by_cases hok : ans s.oracle = .nil
      · rw [(F.2.1 h hok).2.2.1, a1]; simp [hok]
      · rw [(F.2.2 h hok).2.1]; simp [hok]
  · have F := DelRead_abs s
    cases h : rd s with
    | true => rw [(F.2 h).2.2.1, a2]; simp
    | false => rw [F.1 h]; simp
  · have F := DelWrite_abs s
    cases h : wr s with
    | true => rw [(F.2 h).2.2.1, a2]; simp
    | false => rw [F.1 h]; simp
  · exact congrArg PView.pending (Del_view s hp)

/-- **C03 (tie T, the interest bits afterwards).** For every slot state and every oracle: after `SetRead` the read
interest is set iff it was set before or the system call succeeded, and the write interest is untouched; after `DelRead`
the read interest is clear and the write interest untouched; symmetrically for write; after `Del` both are clear. -/
theorem C03_poller_bits_after (s : poller) :
    (rd s.SetRead.1 = (rd s || decide (ans s.oracle = .nil)) ∧ wr s.SetRead.1 = wr s) ∧
    (wr s.SetWrite.1 = (wr s || decide (ans s.oracle = .nil)) ∧ rd s.SetWrite.1 = rd s) ∧
    (rd s.DelRead.1 = false ∧ wr s.DelRead.1 = wr s) ∧
    (wr s.DelWrite.1 = false ∧ rd s.DelWrite.1 = rd s) ∧
    (rd s.Del.1 = false ∧ wr s.Del.1 = false) := by
  have dr : rd s.DelRead.1 = false ∧ wr s.DelRead.1 = wr s := by
    have F := DelRead_abs s
    cases h : rd s with
    | true => exact ⟨(F.2 h).1, (F.2 h).2.1⟩
    | false => rw [F.1 h]; exact ⟨h, rfl⟩
  have dw : ∀ t : poller, wr t.DelWrite.1 = false ∧ rd t.DelWrite.1 = rd t := by
    intro t
    have F := DelWrite_abs t
    cases h : wr t with
    | true => exact ⟨(F.2 h).1, (F.2 h).2.1⟩
    | false => rw [F.1 h]; exact ⟨h, rfl⟩
  refine ⟨?_, ?_, dr, dw s, ?_⟩
  · have F := SetRead_abs s
    cases h : rd s with
    | true => rw [F.1 h]; simp [h]
    | false =>
      by_cases hok : ans s.oracle = .nil
      · obtain ⟨h1, h2, _⟩ := F.2.1 h hok; simp [h1, h2, hok]
      · obtain ⟨h1, _, _⟩ := F.2.2 h hok
        exact ⟨by rw [rd_of_events (s := s) (s' := s.SetRead.1) (by rw [h1]), h]; simp [hok], wr_of_events (by rw [h1])⟩
  · have F := SetWrite_abs s
    cases h : wr s with
    | true => rw [F.1 h]; simp [h]
    | false =>
      by_cases hok : ans s.oracle = .nil
      · obtain ⟨h1, h2, _⟩ := F.2.1 h hok; simp [h1, h2, hok]
      · obtain ⟨h1, _, _⟩ := F.2.2 h hok
        exact ⟨by rw [wr_of_events (s := s) (s' := s.SetWrite.1) (by rw [h1]), h]; simp [hok], rd_of_events (by rw [h1])⟩
  · rw [Del_eq]
    exact ⟨by rw [(dw s.DelRead.1).2]; exact dr.1, (dw s.DelRead.1).1⟩

/-! ### Any sequence of poller calls on a slot, any oracle -/

/-- The calls the rest of the library makes on a slot. -/
inductive POp where
  | setRead | setWrite | delRead | delWrite | del
  deriving DecidableEq, Repr

def POp.run : POp → poller → poller
  | .setRead, s => s.SetRead.1
  | .setWrite, s => s.SetWrite.1
  | .delRead, s => s.DelRead.1
  | .delWrite, s => s.DelWrite.1
  | .del, s => s.Del.1

def runOps : List POp → poller → poller
  | [], s => s
  | op :: r, s => runOps r (op.run s)

/-- The part of `pending` that is not explained by this slot's interests stays clear of the ends of `int64`. -/
def BaseOk (s : poller) : Prop := Go.I64MIN + 2 ≤ s.pending - nbits s ∧ s.pending - nbits s + 4 ≤ Go.I64MAX
instance (s : poller) : Decidable (BaseOk s) := by unfold BaseOk; exact inferInstance

theorem nbits_range (s : poller) : 0 ≤ nbits s ∧ nbits s ≤ 2 := by
  unfold nbits; split <;> split <;> omega

theorem pendOk_of_baseOk {s : poller} (h : BaseOk s) : PendOk s := by
  have := nbits_range s
  unfold BaseOk at h; unfold PendOk; omega

/-- One call keeps `pending − (number of interests set)`. -/
theorem step_balanced (op : POp) (s : poller) (h : BaseOk s) :
    (op.run s).pending - nbits (op.run s) = s.pending - nbits s := by
  have hp := pendOk_of_baseOk h
  have D := C03_poller_pending_delta s hp
  have B := C03_poller_bits_after s
  cases op with
  | setRead =>
    simp only [POp.run, nbits, D.1, B.1.1, B.1.2]
    cases rd s <;> cases wr s <;> by_cases hok : ans s.oracle = .nil <;> simp [hok] <;> omega
  | setWrite =>
    simp only [POp.run, nbits, D.2.1, B.2.1.1, B.2.1.2]
    cases rd s <;> cases wr s <;> by_cases hok : ans s.oracle = .nil <;> simp [hok] <;> omega
  | delRead =>
    simp only [POp.run, nbits, D.2.2.1, B.2.2.1.1, B.2.2.1.2]
    cases rd s <;> cases wr s <;> simp <;> omega
  | delWrite =>
    simp only [POp.run, nbits, D.2.2.2.1, B.2.2.2.1.1, B.2.2.2.1.2]
    cases rd s <;> cases wr s <;> simp <;> omega
  | del =>
    simp only [POp.run, D.2.2.2.2]
    simp only [nbits, B.2.2.2.2.1, B.2.2.2.2.2]
    simp

/-- **C03 (tie T, accounting of one slot over any history).** For every sequence of `SetRead / SetWrite / DelRead /
DelWrite / Del` calls on a slot and every sequence of system-call outcomes, `pending` minus the number of interests set in
the slot's mask is what it was at the start: the generated code keeps, per slot, the balance that `C03_pending_accounting`
sums over all objects. -/
theorem C03_poller_run_balanced (ops : List POp) (s : poller) (h : BaseOk s) :
    (runOps ops s).pending - nbits (runOps ops s) = s.pending - nbits s := by
  induction ops generalizing s with
  | nil => rfl
  | cons op r ih =>
    have hs := step_balanced op s h
    have h' : BaseOk (op.run s) := by unfold BaseOk at h ⊢; rw [hs]; exact h
    simp only [runOps]
    rw [ih (op.run s) h', hs]

/-- Special case: a fresh slot (empty mask). Afterwards `pending` exceeds its initial value by exactly the number of
interests that are set. -/
theorem C03_poller_run_from_empty (ops : List POp) (s : poller) (h0 : s.slot_Events = 0)
    (hb : Go.I64MIN + 2 ≤ s.pending ∧ s.pending + 4 ≤ Go.I64MAX) :
    (runOps ops s).pending = s.pending + nbits (runOps ops s) := by
  have hz := rd_wr_of_zero h0
  have hn : nbits s = 0 := by simp [nbits, hz.1, hz.2]
  have := C03_poller_run_balanced ops s (by unfold BaseOk; rw [hn]; omega)
  rw [hn] at this
  omega

/-! ### System calls follow the mask -/

/-- **C03 (tie T, one `epoll_ctl` per change).** A registration that is already there makes no system call; a new one
makes exactly one — `EPOLL_CTL_ADD` iff the mask was empty, else `EPOLL_CTL_MOD` — carrying the new mask; a removal of a
set direction makes exactly one — `EPOLL_CTL_MOD` with the remaining mask, or `EPOLL_CTL_DEL` when nothing remains; a
removal of a clear direction makes none. -/
theorem C03_poller_syscall_follows_mask (s : poller) :
    (rd s = true → s.SetRead.1.calls = s.calls) ∧
    (rd s = false → s.SetRead.1.calls =
        ((if s.slot_Events = 0 then Ext.add else Ext.modify), [s.slot_Fd, Int.ofNat (s.slot_Events ||| PollerReadEvent).toNat]) :: s.calls) ∧
    (wr s = true → s.SetWrite.1.calls = s.calls) ∧
    (wr s = false → s.SetWrite.1.calls =
        ((if s.slot_Events = 0 then Ext.add else Ext.modify), [s.slot_Fd, Int.ofNat (s.slot_Events ||| PollerWriteEvent).toNat]) :: s.calls) ∧
    (rd s = false → s.DelRead.1.calls = s.calls) ∧
    (rd s = true → s.DelRead.1.calls =
        (if s.slot_Events ^^^ PollerReadEvent ≠ 0
         then (Ext.modify, [s.slot_Fd, Int.ofNat (s.slot_Events ^^^ PollerReadEvent).toNat])
         else (Ext.del, [s.slot_Fd])) :: s.calls) ∧
    (wr s = false → s.DelWrite.1.calls = s.calls) ∧
    (wr s = true → s.DelWrite.1.calls =
        (if s.slot_Events ^^^ PollerWriteEvent ≠ 0
         then (Ext.modify, [s.slot_Fd, Int.ofNat (s.slot_Events ^^^ PollerWriteEvent).toNat])
         else (Ext.del, [s.slot_Fd])) :: s.calls) := by
  have R := setRW_facts s s.slot_Fd PollerReadEvent
  have W := setRW_facts s s.slot_Fd PollerWriteEvent
  have DR := DelRead_facts s
  have DW := DelWrite_facts s
  rw [SetRead_eq, SetWrite_eq]
  refine ⟨fun h => by rw [R.1 (rd_true.1 h)], fun h => (R.2.1 (rd_false.1 h)).2.2,
          fun h => by rw [W.1 (wr_true.1 h)], fun h => (W.2.1 (wr_false.1 h)).2.2,
          fun h => by rw [DR.1 (rd_false.1 h)], fun h => (DR.2 (rd_true.1 h)).2.2.2.2.2,
          fun h => by rw [DW.1 (wr_false.1 h)], fun h => (DW.2 (wr_true.1 h)).2.2.2.2.2⟩

/-! ### Who else writes `pending` (access table and statement order of the same file, regenerated on every run) -/

open Sonic.Gen.PostAccess in
/-- **C03 (tie T, the other writers of `pending`).** In `internal/poll_linux.go` the methods that write `poller.pending`
are, in source order, `Post`, `dispatch`, `setRW`, `DelRead`, `DelWrite` — each through `sync/atomic` — and no other.
`Post` increments it once (after appending the handler, before waking the loop) and never decrements; `dispatch`
decrements it once per handler, after running it, and never increments — the `+1` of the model's `Post` transition and the
`−1` of its `postDone` frame. -/
theorem C03_poller_pending_writers :
    ((table.filter fun a => a.field == "pending" && a.write).map (·.fn)) = ["Post", "dispatch", "setRW", "DelRead", "DelWrite"] ∧
    (∀ a ∈ table, a.field = "pending" → a.atomic = true) ∧
    seqPost.count "atomic-inc:pending" = 1 ∧ seqPost.count "atomic-dec:pending" = 0 ∧
    seqDispatch.count "atomic-dec:pending" = 1 ∧ seqDispatch.count "atomic-inc:pending" = 0 ∧
    seqDispatch.drop (seqDispatch.length - 4) = ["range{", "run", "atomic-dec:pending", "}"] := by
  decide

/-! ### Non-vacuity -/

/-- A fresh stream object in the model and the matching generated state (`pending = 3` from other objects). -/
def demoW : World := { objs := [{ id := 1, kind := .stream }], pending := 3 }
def demoO : Obj := { id := 1, kind := .stream }
def demoS (oracle : List Go.Error) : poller := { oracle := oracle, calls := [], pending := 3, slot_Fd := 9, slot_Events := 0 }

-- the hypotheses of the refinement theorems are met, and the result is not trivial: pending 3 → 4, read interest set
example : getObj demoW demoO.id = some demoO ∧ absOf (demoS []) = viewOf demoW demoO ∧ PendOk (demoS []) ∧
    ans (demoS []).oracle = .nil ∧ absOf (demoS []).SetRead.1 = { evR := true, evW := false, pending := 4 } := by decide
-- a failing registration: the error comes back, nothing is counted
example : ans (demoS [.err 1]).oracle ≠ .nil ∧ (demoS [.err 1]).SetRead = ({ demoS [] with calls := [(.add, [9, 1])] }, .err 1) := by
  decide
-- both directions registered (second system call is a MOD with mask 5), then `Del` with a failing first system call:
-- both uncounted, both bits clear, two system calls (MOD 4, DEL)
example : (runOps [.setRead, .setWrite] (demoS [])).pending = 5 ∧
    (runOps [.setRead, .setWrite] (demoS [])).calls = [(.modify, [9, 5]), (.add, [9, 1])] ∧
    (runOps [.setRead, .setWrite, .del] (demoS [.nil, .nil, .err 7])).pending = 3 ∧
    (runOps [.setRead, .setWrite, .del] (demoS [.nil, .nil, .err 7])).slot_Events = 0 ∧
    (runOps [.setRead, .setWrite, .del] (demoS [.nil, .nil, .err 7])).calls =
      [(.del, [9]), (.modify, [9, 4]), (.modify, [9, 5]), (.add, [9, 1])] := by decide
-- a model state with both interests set, closed: hypotheses of the close theorem are met
example : let w : World := { objs := [{ id := 1, kind := .stream, evR := true, evW := true }], pending := 5 }
    let o : Obj := { id := 1, kind := .stream, evR := true, evW := true }
    let s : poller := { oracle := [], calls := [], pending := 5, slot_Fd := 9, slot_Events := 5 }
    getObj w o.id = some o ∧ absOf s = viewOf w o ∧ PendOk s ∧ o.kind ≠ .timer ∧ (closeObj w o).pending = 3 ∧
      s.Del.1.pending = 3 := by decide
example : BaseOk (demoS [.err 1, .nil]) := by decide
-- other bits of the mask (never set by the library) are carried along untouched
example : ({ demoS [] with slot_Events := 0x18 } : poller).SetWrite.1.DelWrite.1.slot_Events = 0x18 := by decide

end Sonic.Props.C03
