/-
C01 — Exactly-once completion of every asynchronous operation (safety part, on the loop model).

The model's transitions are the only ways the library can invoke a completion callback.  The theorems state, for
every state and every event, the facts that make a second invocation impossible: an operation completes inline
inside its start call *or* is registered with the poller, never both; the poller and `Cancel` clear the interest
before they run the handler, so the same registration cannot fire again; `Cancel` does not return while an interest
of the object is still registered; `Close` leaves no interest of the object behind, so no callback of the object can
be dispatched after it.  (The liveness half — "never zero times while the loop is run" — depends on the kernel
reporting readiness and is exercised by the correspondence check's drain phase, not proven.)
-/
import Sonic.Lemmas.LoopAcct
import Sonic.Props.Ledger
import Sonic.Lemmas.LoopOnceRun

namespace Sonic.Props.C01
open Sonic.Model.Loop
open Sonic.Spec.Loop (Ev Ret Res OpKind ObjKind maxDispatch)

/-- **Inline xor deferred.** When a start call returns, the operation is registered with the poller exactly if
its callback was not invoked inside the call. -/
theorem C01_inline_xor_deferred (w w' : World) (op k : Nat) (kind : OpKind) (completed : Bool) (rest : List K) (r : Ret)
    (o : Obj) (hst : w.stack = .startCall op k kind completed :: rest) (hg : getObj w k = some o)
    (hs : step w (.ret r) = some w') :
    (completed = true → w'.objs = w.objs ∧ w'.pending = w.pending) ∧
    (completed = false → o.closed = false ∧
        w' = { (if kind.isRead then setRead w o op else setWrite w o op) with stack := rest }) := by
  unfold step at hs
  simp only [hst, hg] at hs
  constructor
  · intro hc
    subst hc
    simp only [if_true] at hs
    cases hs; exact ⟨rfl, rfl⟩
  · intro hc
    subst hc
    simp only [Bool.false_eq_true, if_false] at hs
    split at hs
    · cases hs
    · rename_i hcl
      split at hs
      · rename_i hk; cases hs; exact ⟨(by simpa using hcl : o.closed = false ∧ ¬o.kind = ObjKind.timer).1, by simp [hk]⟩
      · rename_i hk; cases hs; exact ⟨(by simpa using hcl : o.closed = false ∧ ¬o.kind = ObjKind.timer).1, by simp [hk]⟩

/-- The inline callback can be delivered only once per start call: after it, the frame is marked completed and the
model has no second `enter` transition for it. -/
theorem C01_no_second_inline (w : World) (op k : Nat) (kind : OpKind) (rest : List K)
    (op' : Nat) (res : Res) (n : Int) (data : List UInt8) (early : Bool)
    (hst : w.stack = .startCall op k kind true :: rest) :
    step w (.enter op' res n data early) = none := by
  unfold step
  simp only [hst]
  simp [inUser]

/-- **The poller clears the interest before the handler runs.** After the poller dispatched the handler of a read
(resp. write) operation, the object's read (resp. write) interest is no longer registered. -/
theorem C01_dispatch_clears_interest (w w' : World) (op : Nat) (rest : List K) (info : OpInfo) (o : Obj)
    (hop : getOp w op = some info) (hio : info.kind.isTimer = false ∧ info.kind ≠ .post)
    (hg : getObj w info.obj = some o) (hn : (ids w.objs).Nodup)
    (h : pollDispatch w op rest = some w') :
    ∃ o', getObj w' info.obj = some o' ∧ (if info.kind.isRead then o'.evR = false else o'.evW = false) := by
  have hid := getObj_id hg
  have hg' : getObj w o.id = some o := by rw [hid]; exact hg
  unfold pollDispatch at h
  simp only [hop, hg] at h
  have hp : (info.kind == OpKind.post) = false := by simpa using hio.2
  simp only [hp, hio.1, Bool.false_eq_true, if_false] at h
  split at h
  · cases h
  · split at h
    · rename_i hr
      split at h
      · rename_i hc
        cases h
        have hev : o.evR = true := by simp at hc; exact hc.1
        refine ⟨{ o with evR := false, registered := o.evW }, ?_, by simp [hr]⟩
        unfold delRead
        simp only [hev, if_true]
        rw [← hid]
        exact getObj_setObj_self _ o _ hg' rfl
      · cases h
    · rename_i hr
      split at h
      · rename_i hc
        cases h
        have hev : o.evW = true := by simp at hc; exact hc.1
        refine ⟨{ o with evW := false, registered := o.evR }, ?_, by simp [hr]⟩
        unfold delWrite
        simp only [hev, if_true]
        rw [← hid]
        exact getObj_setObj_self _ o _ hg' rfl
      · cases h

/-- **Cancel does not return while an interest is registered.** `Cancel` can only return (the model has a `ret`
transition) when neither the read nor the write interest it is responsible for is still set. -/
theorem C01_cancel_completes_all (w w' : World) (k : Nat) (phase : Phase) (rest : List K) (r : Ret) (o : Obj)
    (hst : w.stack = .cancelCall k phase :: rest) (hg : getObj w k = some o) (hc : hasCancel o.kind = true)
    (hs : step w (.ret r) = some w') :
    (phase = .reads → o.evR = false) ∧ (phase ≠ .done → o.evW = false) := by
  unfold step at hs
  simp only [hst] at hs
  unfold cancelStep at hs
  simp only [hg, hc, Bool.true_and] at hs
  split at hs
  · cases hs
  · rename_i hcond
    simp only [Bool.or_eq_true, Bool.and_eq_true, not_or, not_and, Bool.not_eq_true] at hcond
    constructor
    · intro hp; subst hp
      cases hr : o.evR with
      | false => rfl
      | true => exact absurd (hcond.1 hr) (by simp)
    · intro hp
      cases hw : o.evW with
      | false => rfl
      | true =>
        have := hcond.2 hw
        cases phase <;> simp at this hp

/-- The only results `Cancel` can deliver to a handler are the cancellation error or the error of the failed
de-registration. -/
theorem C01_cancel_result (w w' : World) (k : Nat) (phase : Phase) (rest : List K)
    (op : Nat) (res : Res) (n : Int) (data : List UInt8) (early : Bool)
    (hst : w.stack = .cancelCall k phase :: rest) (hs : step w (.enter op res n data early) = some w') :
    res = .cancelled ∨ res = .err := by
  unfold step at hs
  simp only [hst] at hs
  unfold cancelStep at hs
  cases hg : getObj w k with
  | none => simp [hg] at hs
  | some o =>
    simp only [hg] at hs
    repeat' split at hs
    all_goals first
      | (cases hs; done)
      | (rename_i hc; simp only [Bool.and_eq_true, Bool.or_eq_true, beq_iff_eq] at hc; exact hc.2)

/-- **Close silences the object.** After `Close` neither interest of the object is registered and it is marked
closed, so the poller has no handler of the object to dispatch and a later start is answered immediately. -/
theorem C01_close_silences (w : World) (o : Obj) (hn : (ids w.objs).Nodup) (hg : getObj w o.id = some o)
    (hk : o.kind ≠ .timer) :
    ∃ o', getObj (closeObj w o) o.id = some o' ∧ o'.evR = false ∧ o'.evW = false ∧ o'.closed = true ∧ o'.registered = false := by
  unfold closeObj
  have hk' : (o.kind == ObjKind.timer) = false := by simpa using hk
  simp only [hk', Bool.false_eq_true, if_false]
  exact ⟨_, getObj_setObj_self _ o _ hg rfl, rfl, rfl, rfl, rfl⟩

/-- A deferred start on a closed object is answered immediately (with end-of-file) and registers nothing. -/
theorem C01_start_on_closed_not_registered (w w' : World) (op k : Nat) (kind : OpKind) (rest : List K) (r : Ret) (o : Obj)
    (hst : w.stack = .startCall op k kind false :: rest) (hg : getObj w k = some o) (hc : o.closed = true) :
    step w (.ret r) = none := by
  unfold step
  simp only [hst, hg, hc]
  simp

/-! ### At most once, over whole histories -/

theorem refs_nonneg (w : World) (x : Nat) : 0 ≤ refs w x := by
  have := frameRefs_nonneg x w.stack; have := objRefs_nonneg x w.objs; have := postRefs_nonneg x w.posts
  unfold refs; omega

theorem kindOk_init : KindOk ({} : World) := by
  intro op k c hm; cases hm

theorem acct_init' : AcctInv ({} : World) := by
  refine ⟨by simp [ids], ?_⟩
  simp [bits, postFrames]

/-- **C01 (at most once).** For every event history the loop model accepts — any set of objects on one IO context,
any order in which their descriptors become ready (any poll batches), any handler behaviour (re-issue, cancel, close,
re-arm itself or another object), inline or deferred completion — the completion callback of an operation that is
not a repeating timer is entered at most as many times as the program started an operation under that id: with
fresh ids (each id started at most once), **at most once**. Together with the correspondence check (every trace of
the real loop is a history the model accepts) this is the "never twice" half of the property. -/
theorem C01_at_most_once (evs : List Ev) (w : World) (x : Nat) (h : run {} evs = some w)
    (hnr : ∀ info, getOp w x = some info → info.kind ≠ .timerRep) (hfresh : startCount x evs ≤ 1) :
    enterCount x evs ≤ 1 := by
  have h1 := run_refs x evs {} w h acct_init' kindOk_init hnr
  have h2 := refs_nonneg w x
  have h3 : refs ({} : World) x = 0 := by simp [refs, frameRefs, objRefs, postRefs]
  omega

/-- A callback that was never started is never entered. -/
theorem C01_no_callback_without_start (evs : List Ev) (w : World) (x : Nat) (h : run {} evs = some w)
    (hnr : ∀ info, getOp w x = some info → info.kind ≠ .timerRep) (hnone : startCount x evs = 0) :
    enterCount x evs = 0 := by
  have h1 := run_refs x evs {} w h acct_init' kindOk_init hnr
  have h2 := refs_nonneg w x
  have h3 : refs ({} : World) x = 0 := by simp [refs, frameRefs, objRefs, postRefs]
  have h4 : 0 ≤ enterCount x evs := by
    clear h1 hnone h
    induction evs with
    | nil => simp [enterCount]
    | cons e r ih => simp only [enterCount]; have : 0 ≤ entersOf x e := by cases e <;> simp only [entersOf] <;> first | omega | (split <;> omega)
                     omega
  omega

/-- Once the callback has been entered, nothing in the model can still invoke it: no reference is left. -/
theorem C01_completed_leaves_no_reference (evs : List Ev) (w : World) (x : Nat) (h : run {} evs = some w)
    (hnr : ∀ info, getOp w x = some info → info.kind ≠ .timerRep) (hfresh : startCount x evs ≤ 1)
    (hdone : enterCount x evs = 1) : refs w x = 0 := by
  have h1 := run_refs x evs {} w h acct_init' kindOk_init hnr
  have h2 := refs_nonneg w x
  have h3 : refs ({} : World) x = 0 := by simp [refs, frameRefs, objRefs, postRefs]
  omega

/-! Non-vacuity: a history with a deferred read completed by the poller, a write completing inline whose handler
cancels another read, and a post; every id is started once and entered once. -/
def demo : List Ev :=
  [.obj 1 .stream, .obj 2 .stream, .callStart 11 1 .read 8, .ret .plain, .callStart 12 2 .read 4, .ret .plain,
   .callPost 13, .ret (.err true), .callStart 14 1 .write 3, .enter 14 .ok 3 [] false, .callCancel 2,
   .enter 12 .cancelled 0 [] false, .exit 12, .ret .plain, .exit 14, .ret .plain,
   .callPoll, .enter 13 .post 0 [] false, .exit 13, .enter 11 .ok 5 [] false, .exit 11, .ret (.poll 2 .ok)]

example : (run {} demo).isSome = true := by decide
example : startCount 11 demo = 1 ∧ enterCount 11 demo = 1 ∧ startCount 12 demo = 1 ∧ enterCount 12 demo = 1 := by decide
-- and the model has no transition that would enter 11 a second time
example : (run {} (demo ++ [.callPoll, .enter 11 .ok 1 [] false])) = none := by decide

/-! ### Over the API-level ledger (`Sonic.Props.Ledger`) -/

/-- **C01 (callbacks only when owed).** See `Sonic.Props.Ledger.C01_callback_only_when_owed`: in every history of the
model (documented usage), a completion callback is entered only inline in its own starting call or for an operation the
API-level ledger owes — never twice, never after Close, never after a successful Cancel. -/
theorem C01_callback_only_when_owed (evs : List Ev) (op : Nat) (res : Res) (n : Int) (data : List UInt8) (early : Bool)
    (w : World) (l : Sonic.Spec.Ledger.L) (h : run {} (evs ++ [.enter op res n data early]) = some w)
    (hU : Sonic.Spec.Ledger.UsageOk {} (evs ++ [.enter op res n data early])) (hl : Sonic.Spec.Ledger.run {} evs = some l) :
    (∃ r rest, (l.stack = .start r false :: rest ∨ l.stack = .sched r false :: rest) ∧ r.id = op) ∨
    (∃ r, r ∈ l.owed ∧ r.id = op) :=
  Sonic.Props.Ledger.C01_callback_only_when_owed evs op res n data early w l h hU hl

/-- **C01 / C03 (the model refines the ledger).** -/
theorem C01_ledger_accepts_model (evs : List Ev) (w : World) (h : run {} evs = some w) (hU : Sonic.Spec.Ledger.UsageOk {} evs) :
    Sonic.Spec.Ledger.accepts evs = true :=
  Sonic.Props.Ledger.ledger_accepts_model evs w h hU

end Sonic.Props.C01
