/-
C01 — Exactly-once completion of every asynchronous operation (safety part, on the loop model).

The model's transitions are the only ways the library can invoke a completion callback.  The theorems state, for
every state and every event, the facts that make a second invocation impossible: an operation completes inline
inside its start call *or* is registered with the poller, never both; the poller and `Cancel` clear the interest
before they run the handler, so the same registration cannot fire again; `Cancel` does not return while an interest
of the object is still registered; `Close` leaves no interest of the object behind, so no callback of the object can
be dispatched after it.  (The liveness half — "never zero times while the loop is run" — depends on the kernel
reporting readiness and is exercised by the correspondence check's drain phase, not proven.)
-/
import Sonic.Lemmas.LoopAcct

namespace Sonic.Props.C01
open Sonic.Model.Loop
open Sonic.Spec.Loop (Ev Ret Res OpKind ObjKind maxDispatch)

/-- **Inline xor deferred.** When a start call returns, the operation is registered with the poller exactly if
its callback was not invoked inside the call. -/
theorem C01_inline_xor_deferred (w w' : World) (op k : Nat) (kind : OpKind) (completed : Bool) (rest : List K) (r : Ret)
    (o : Obj) (hst : w.stack = .startCall op k kind completed :: rest) (hg : getObj w k = some o)
    (hs : step w (.ret r) = some w') :
    (completed = true → w'.objs = w.objs ∧ w'.pending = w.pending) ∧
    (completed = false → o.closed = false ∧
        w' = { (if kind.isRead then setRead w o op else setWrite w o op) with stack := rest }) := by
  unfold step at hs
  simp only [hst, hg] at hs
  constructor
  · intro hc
    subst hc
    simp only [if_true] at hs
    cases hs; exact ⟨rfl, rfl⟩
  · intro hc
    subst hc
    simp only [Bool.false_eq_true, if_false] at hs
    split at hs
    · cases hs
    · rename_i hcl
      split at hs
      · rename_i hk; cases hs; exact ⟨by simpa using hcl, by simp [hk]⟩
      · rename_i hk; cases hs; exact ⟨by simpa using hcl, by simp [hk]⟩

/-- The inline callback can be delivered only once per start call: after it, the frame is marked completed and the
model has no second `enter` transition for it. -/
theorem C01_no_second_inline (w : World) (op k : Nat) (kind : OpKind) (rest : List K)
    (op' : Nat) (res : Res) (n : Int) (data : List UInt8) (early : Bool)
    (hst : w.stack = .startCall op k kind true :: rest) :
    step w (.enter op' res n data early) = none := by
  unfold step
  simp only [hst]
  simp [inUser]

/-- **The poller clears the interest before the handler runs.** After the poller dispatched the handler of a read
(resp. write) operation, the object's read (resp. write) interest is no longer registered. -/
theorem C01_dispatch_clears_interest (w w' : World) (op : Nat) (rest : List K) (info : OpInfo) (o : Obj)
    (hop : getOp w op = some info) (hio : info.kind.isTimer = false ∧ info.kind ≠ .post)
    (hg : getObj w info.obj = some o) (hn : (ids w.objs).Nodup)
    (h : pollDispatch w op rest = some w') :
    ∃ o', getObj w' info.obj = some o' ∧ (if info.kind.isRead then o'.evR = false else o'.evW = false) := by
  have hid := getObj_id hg
  have hg' : getObj w o.id = some o := by rw [hid]; exact hg
  unfold pollDispatch at h
  simp only [hop, hg] at h
  have hp : (info.kind == OpKind.post) = false := by simpa using hio.2
  simp only [hp, hio.1, Bool.false_eq_true, if_false] at h
  split at h
  · rename_i hr
    split at h
    · rename_i hc
      cases h
      have hev : o.evR = true := by simp at hc; exact hc.1
      refine ⟨{ o with evR := false, registered := o.evW }, ?_, by simp [hr]⟩
      unfold delRead
      simp only [hev, if_true]
      rw [← hid]
      exact getObj_setObj_self _ o _ hg' rfl
    · cases h
  · rename_i hr
    split at h
    · rename_i hc
      cases h
      have hev : o.evW = true := by simp at hc; exact hc.1
      refine ⟨{ o with evW := false, registered := o.evR }, ?_, by simp [hr]⟩
      unfold delWrite
      simp only [hev, if_true]
      rw [← hid]
      exact getObj_setObj_self _ o _ hg' rfl
    · cases h

/-- **Cancel does not return while an interest is registered.** `Cancel` can only return (the model has a `ret`
transition) when neither the read nor the write interest it is responsible for is still set. -/
theorem C01_cancel_completes_all (w w' : World) (k : Nat) (phase : Phase) (rest : List K) (r : Ret) (o : Obj)
    (hst : w.stack = .cancelCall k phase :: rest) (hg : getObj w k = some o) (hc : hasCancel o.kind = true)
    (hs : step w (.ret r) = some w') :
    (phase = .reads → o.evR = false) ∧ (phase ≠ .done → o.evW = false) := by
  unfold step at hs
  simp only [hst] at hs
  unfold cancelStep at hs
  simp only [hg, hc, Bool.true_and] at hs
  split at hs
  · cases hs
  · rename_i hcond
    simp only [Bool.or_eq_true, Bool.and_eq_true, not_or, not_and, Bool.not_eq_true] at hcond
    constructor
    · intro hp; subst hp
      cases hr : o.evR with
      | false => rfl
      | true => exact absurd (hcond.1 hr) (by simp)
    · intro hp
      cases hw : o.evW with
      | false => rfl
      | true =>
        have := hcond.2 hw
        cases phase <;> simp at this hp

/-- The only results `Cancel` can deliver to a handler are the cancellation error or the error of the failed
de-registration. -/
theorem C01_cancel_result (w w' : World) (k : Nat) (phase : Phase) (rest : List K)
    (op : Nat) (res : Res) (n : Int) (data : List UInt8) (early : Bool)
    (hst : w.stack = .cancelCall k phase :: rest) (hs : step w (.enter op res n data early) = some w') :
    res = .cancelled ∨ res = .err := by
  unfold step at hs
  simp only [hst] at hs
  unfold cancelStep at hs
  cases hg : getObj w k with
  | none => simp [hg] at hs
  | some o =>
    simp only [hg] at hs
    repeat' split at hs
    all_goals first
      | (cases hs; done)
      | (rename_i hc; simp only [Bool.and_eq_true, Bool.or_eq_true, beq_iff_eq] at hc; exact hc.2)

/-- **Close silences the object.** After `Close` neither interest of the object is registered and it is marked
closed, so the poller has no handler of the object to dispatch and a later start is answered immediately. -/
theorem C01_close_silences (w : World) (o : Obj) (hn : (ids w.objs).Nodup) (hg : getObj w o.id = some o)
    (hk : o.kind ≠ .timer) :
    ∃ o', getObj (closeObj w o) o.id = some o' ∧ o'.evR = false ∧ o'.evW = false ∧ o'.closed = true ∧ o'.registered = false := by
  unfold closeObj
  have hk' : (o.kind == ObjKind.timer) = false := by simpa using hk
  simp only [hk', Bool.false_eq_true, if_false]
  -- first the read interest, then the write interest, then the flag
  have g1 : ∃ o1, getObj (delRead w o) o.id = some o1 ∧ o1.id = o.id ∧ o1.evR = false := by
    unfold delRead
    by_cases h : o.evR
    · simp only [h, if_true]
      exact ⟨_, getObj_setObj_self _ o _ (show getObj { w with pending := w.pending - 1 } o.id = some o from hg) rfl, rfl, rfl⟩
    · simp only [h]; exact ⟨o, hg, rfl, by simpa using h⟩
  obtain ⟨o1, hg1, hid1, hr1⟩ := g1
  have hg1' : getObj (delRead w o) o1.id = some o1 := by rw [hid1]; exact hg1
  have g2 : ∃ o2, getObj (delWrite (delRead w o) o1) o.id = some o2 ∧ o2.id = o.id ∧ o2.evR = false ∧ o2.evW = false := by
    unfold delWrite
    by_cases h : o1.evW
    · simp only [h, if_true]
      refine ⟨{ o1 with evW := false, registered := o1.evR }, ?_, hid1, hr1, rfl⟩
      rw [← hid1]
      exact getObj_setObj_self _ o1 _ (show getObj { (delRead w o) with pending := (delRead w o).pending - 1 } o1.id = some o1 from hg1') rfl
    · simp only [h]; exact ⟨o1, hg1, hid1, hr1, by simpa using h⟩
  obtain ⟨o2, hg2, hid2, r2, w2⟩ := g2
  simp only [hg1, hg2, Option.getD_some]
  refine ⟨{ o2 with closed := true, registered := false }, ?_, r2, w2, rfl, rfl⟩
  rw [← hid2]
  exact getObj_setObj_self _ o2 _ (by rw [hid2]; exact hg2) rfl

/-- A deferred start on a closed object is answered immediately (with end-of-file) and registers nothing. -/
theorem C01_start_on_closed_not_registered (w w' : World) (op k : Nat) (kind : OpKind) (rest : List K) (r : Ret) (o : Obj)
    (hst : w.stack = .startCall op k kind false :: rest) (hg : getObj w k = some o) (hc : o.closed = true) :
    step w (.ret r) = none := by
  unfold step
  simp only [hst, hg, hc]
  simp

end Sonic.Props.C01
