/-
C15 — WebSocket protocol violations are reported, never delivered as data.

Same model and monitor as C08. `C15_refines` is the statement over all histories (every single-violation mutation of
every conforming session at every position is one of the quantified sequences, for the blocking and the asynchronous
APIs); the other theorems state the clauses outright for every model state that meets their hypotheses.
Segmentation of the byte stream is the subject of C07 (the frame decoder); here a frame is one event.
-/
import Sonic.Props.C08
import Sonic.Props.WsFrameTie

set_option linter.unusedSimpArgs false

namespace Sonic.Props.C15
open Sonic.Spec.WsStream Sonic.Model.WsStream Sonic.Lemmas.WsOut Sonic.Lemmas.WsRefine Sonic.Lemmas.WsFacts
open Sonic.Props.C08 (OpsOk)

/-- **All histories.** For every maximum, every sequence of peer frames (conforming or not), transport events and local
calls, the monitor accepts the model's trace. Its clauses for C15: a frame that violates the framing rules makes the
read return a protocol error (`retOk (.violation _)`), the message API has copied nothing of it (`data = before`),
nothing is written outside the caller's buffer, a Close(1002) is owed unless the client's Close is already out, the
stage is `closing` so later writes must be refused; a continuation with nothing to continue / a new data frame inside a
fragmented message makes the message API return the corresponding error; a frame over the maximum, a message over the
maximum or over the caller's buffer is an error; no call panics. -/
theorem C15_refines (max : Nat) (ops : List Op) (h : OpsOk ops) :
    accepts (init max) (run (new max) ops) = true := Sonic.Props.C08.C08_refines max ops h

theorem C15_no_panic (max : Nat) (ops : List Op) (h : OpsOk ops) :
    ∀ x ∈ run (new max) ops, x.2 ≠ Obs.panic := Sonic.Props.C08.C08_no_panic max ops h

/-- The five classes of framing violation (for a client) are violations for the monitor, and nothing else is. -/
theorem isViolation_iff (f : InFrame) :
    isViolation f = true ↔
      f.rsv ≠ 0 ∨ f.masked = true ∨ (3 ≤ f.op ∧ f.op ≤ 7) ∨ 11 ≤ f.op ∨
      (8 ≤ f.op ∧ f.op ≤ 10 ∧ (f.fin = false ∨ f.payload.length > 125)) := by
  simp only [isViolation, reservedOp, controlOp, Bool.or_eq_true, Bool.and_eq_true, bne_iff_ne, ne_eq,
    decide_eq_true_eq, Bool.not_eq_true']
  constructor
  · rintro (((h | h) | (⟨h1, h2⟩ | h)) | ⟨h1, h2⟩)
    · exact Or.inl h
    · exact Or.inr (Or.inl h)
    · exact Or.inr (Or.inr (Or.inl ⟨h1, h2⟩))
    · exact Or.inr (Or.inr (Or.inr (Or.inl h)))
    · by_cases h11 : 11 ≤ f.op
      · exact Or.inr (Or.inr (Or.inr (Or.inl h11)))
      · exact Or.inr (Or.inr (Or.inr (Or.inr ⟨h1, by omega, h2⟩)))
  · rintro (h | h | ⟨h1, h2⟩ | h | ⟨h1, _, h3⟩)
    · exact Or.inl (Or.inl (Or.inl h))
    · exact Or.inl (Or.inl (Or.inr h))
    · exact Or.inl (Or.inr (Or.inl ⟨h1, h2⟩))
    · exact Or.inl (Or.inr (Or.inr h))
    · exact Or.inr ⟨h1, h3⟩

/-- **A framing violation is an error from every read API.** From every state in which the client may read, if the
next frame violates the framing rules (and is within the maximum, otherwise `C15_too_big` applies): NextFrame and
AsyncNextFrame return a protocol error; NextMessage and AsyncNextMessage return the same error with the assembly state
untouched (no byte of the frame is copied, `n` does not move); the state becomes `closedByUs`; a Close frame with status
1002 is queued if and only if the client was still `active` (never a second Close); afterwards Write, WriteFrame and
Close are refused. -/
theorem C15_frame_violation_is_error (m : M) (async : Bool) (f : InFrame) (rest : List InFrame)
    (hq : m.inq = f :: rest) (hr : canRead m = true) (hv : isViolation f = true) (hmax : f.payload.length ≤ m.max) :
    ∃ e m', e.isProto = true ∧ e ≠ .nil ∧
      nextFrame async m = some (m', e, some f) ∧
      (∀ buf fuel a, nextMessage async buf (fuel + 1) m a = some (m', e, a)) ∧
      m'.state = .closedByUs ∧ m'.inq = rest ∧
      out m' = out m ++ (if m.state = .active
        then [{ fin := true, op := 8, masked := true, payload := u16 1002 }] else []) ∧
      (∀ ty p, (write m' ty p).2 ≠ .nil ∧ (write m' ty p).1 = m') ∧
      (∀ fin op p, writeFrame m' fin op p = (m', .cancelled)) ∧
      (∀ code reason, close m' code reason = (m', .cancelled)) := by
  obtain ⟨e, hp, hnf⟩ := nextFrame_violation m async f rest hq hr hv hmax
  have hne : e ≠ .nil := by intro hx; subst hx; simp [Err.isProto] at hp
  have hst : (violated (deq (flush m) rest)).state = .closedByUs := rfl
  have hl := (Sonic.Props.C08.C08_local_close (violated (deq (flush m) rest))).2 hst
  refine ⟨e, _, hp, hne, hnf, ?_, hst, ?_, ?_, hl.1, hl.2.1, hl.2.2.1⟩
  · intro buf fuel a
    rw [nextMessage]
    simp [hnf, hne]
  · unfold violated; simp only; split <;> rfl
  · have hs : (deq (flush m) rest).state = m.state := rfl
    unfold violated
    by_cases ha : m.state = .active
    · simp only [hs, ha, beq_self_eq_true, if_true]
      simp [out, prepareClose, prepareWrite, deq, flush]
    · have hb : (m.state == StreamState.active) = false := by simpa using ha
      simp only [hs, hb, Bool.false_eq_true, if_false, ha]
      simp [out, deq, flush]

/-- **Fragmentation rules (message API).** With a conforming data frame next that fits the caller's buffer and the
maximum: if no message is in progress and the frame is a continuation, NextMessage/AsyncNextMessage return
`ErrUnexpectedContinuation`; if a fragmented message is in progress and the frame is not a continuation, they return
`ErrExpectedContinuation`. Neither is reported as a message (the error is not nil). -/
theorem C15_fragmentation (m : M) (async : Bool) (buf fuel : Nat) (a : Asm) (f : InFrame) (rest : List InFrame)
    (hq : m.inq = f :: rest) (hr : canRead m = true) (hconf : isViolation f = false)
    (hdata : f.op = 0 ∨ f.op = 1 ∨ f.op = 2)
    (hfit : a.n + f.payload.length ≤ buf ∧ a.n + f.payload.length ≤ m.max) :
    (a.cont = false → f.op = 0 → ∃ m' a', nextMessage async buf (fuel + 1) m a = some (m', .unexpCont, a')) ∧
    (a.cont = true → f.op ≠ 0 → ∃ m' a', nextMessage async buf (fuel + 1) m a = some (m', .expCont, a')) := by
  have hmax : f.payload.length ≤ m.max := by omega
  have hnf := nextFrame_conform m async f rest hq hr hconf hmax
  obtain ⟨hc, _⟩ := notControl_of f.op hdata
  have hcm : (conform (deq (flush m) rest) f).max = m.max := by
    unfold conform
    have h9 : f.op ≠ 9 := by omega
    have h8 : f.op ≠ 8 := by omega
    simp [h9, h8, deq, flush]
  have hk : min (buf - a.n) f.payload.length = f.payload.length := by omega
  have hnb : ¬ (a.n + f.payload.length > m.max) := by omega
  constructor
  · intro hcont h0
    rw [nextMessage]
    simp only [hnf, ne_eq, not_true_eq_false, if_false, hc, Bool.false_eq_true, hk, hcm, hnb, or_self, hcont,
      Bool.not_false, if_true, h0, reduceCtorEq, not_false_eq_true, true_or]
    exact ⟨_, _, rfl⟩
  · intro hcont h0
    rw [nextMessage]
    simp only [hnf, ne_eq, not_true_eq_false, if_false, hc, Bool.false_eq_true, hk, hcm, hnb, or_self, hcont,
      Bool.not_true, h0, not_false_eq_true, if_true, reduceCtorEq, true_or]
    exact ⟨_, _, rfl⟩

/-- A whole call: a fresh NextMessage whose first data frame is a continuation reports `ErrUnexpectedContinuation`. -/
theorem C15_unexpected_continuation (m : M) (async : Bool) (buf fuel : Nat) (f : InFrame) (rest : List InFrame)
    (hq : m.inq = f :: rest) (hr : canRead m = true) (hconf : isViolation f = false) (h0 : f.op = 0)
    (hfit : f.payload.length ≤ buf ∧ f.payload.length ≤ m.max) :
    ∃ m' a', nextMessage async buf (fuel + 1) m {} = some (m', .unexpCont, a') :=
  (C15_fragmentation m async buf fuel {} f rest hq hr hconf (Or.inl h0)
    (by simpa using hfit)).1 rfl h0

/-- A whole call: a fresh NextMessage that reads the first fragment of a message and then a new text/binary frame
reports `ErrExpectedContinuation`. -/
theorem C15_expected_continuation (m : M) (async : Bool) (buf fuel : Nat) (f1 f2 : InFrame) (rest : List InFrame)
    (hq : m.inq = f1 :: f2 :: rest) (hr : canRead m = true)
    (hc1 : isViolation f1 = false) (hc2 : isViolation f2 = false)
    (h1 : (f1.op = 1 ∨ f1.op = 2) ∧ f1.fin = false) (h2 : f2.op = 1 ∨ f2.op = 2)
    (hfit : f1.payload.length + f2.payload.length ≤ buf ∧ f1.payload.length + f2.payload.length ≤ m.max) :
    ∃ m' a', nextMessage async buf (fuel + 2) m {} = some (m', .expCont, a') := by
  have hmax1 : f1.payload.length ≤ m.max := by omega
  have hnf := nextFrame_conform m async f1 (f2 :: rest) hq hr hc1 hmax1
  have hd1 : f1.op = 0 ∨ f1.op = 1 ∨ f1.op = 2 := Or.inr h1.1
  obtain ⟨hc, _⟩ := notControl_of f1.op hd1
  have h9 : f1.op ≠ 9 := by omega
  have h8 : f1.op ≠ 8 := by omega
  have h0 : f1.op ≠ 0 := by omega
  have hcf : conform (deq (flush m) (f2 :: rest)) f1 = deq (flush m) (f2 :: rest) := by
    unfold conform; simp [h9, h8]
  rw [hcf] at hnf
  have hk : min (buf - 0) f1.payload.length = f1.payload.length := by omega
  have hnb : ¬ (0 + f1.payload.length > m.max) := by omega
  have hm1 : (deq (flush m) (f2 :: rest)).max = m.max := rfl
  rw [nextMessage]
  simp only [hnf, ne_eq, not_true_eq_false, if_false, hc, Bool.false_eq_true, hk, hm1, hnb, or_self,
    Bool.not_false, if_true, h0, h1.2, Bool.not_false, reduceCtorEq, Bool.true_eq_false]
  have hr1 : canRead (deq (flush m) (f2 :: rest)) = true := hr
  exact (C15_fragmentation (deq (flush m) (f2 :: rest)) async buf fuel _ f2 rest rfl hr1 hc2 (Or.inr h2)
    (by simp only [hm1]; omega)).2 rfl (by omega)

/-- **Size limits.** (1) A frame whose payload is larger than the configured maximum is refused by every read API with
`ErrPayloadOverMaxSize` before anything is buffered or delivered; state and queue are untouched (the stream cannot go
past it). (2) A conforming data frame that would make the message larger than the caller's buffer or than the
maximum makes NextMessage/AsyncNextMessage return `ErrMessageTooBig`. (3) `Write` of a message over the maximum is
refused with `ErrMessageTooBig` and nothing is queued. -/
theorem C15_too_big (m : M) (async : Bool) (f : InFrame) (rest : List InFrame) (hq : m.inq = f :: rest)
    (hr : canRead m = true) :
    (f.payload.length > m.max →
      nextFrame async m = some (flush m, .overMax, none) ∧
      (∀ buf fuel a, nextMessage async buf (fuel + 1) m a = some (flush m, .overMax, a)) ∧
      (flush m).inq = m.inq ∧ (flush m).state = m.state ∧ out (flush m) = out m) ∧
    (f.payload.length ≤ m.max → isViolation f = false → (f.op = 0 ∨ f.op = 1 ∨ f.op = 2) →
      ∀ buf fuel a, a.n ≤ buf → (a.n + f.payload.length > buf ∨ a.n + f.payload.length > m.max) →
        ∃ m' a', nextMessage async buf (fuel + 1) m a = some (m', .tooBig, a')) ∧
    (∀ ty p, p.length > m.max → write m ty p = (m, .tooBig)) := by
  refine ⟨?_, ?_, ?_⟩
  · intro hbig
    have hr' : canRead (flush m) = true := hr
    have hq' : (flush m).inq = f :: rest := hq
    have hm' : (flush m).max = m.max := rfl
    have hnf : nextFrame async m = some (flush m, .overMax, none) := by
      unfold nextFrame
      simp only [hr', Bool.not_true, Bool.false_eq_true, if_false]
      unfold nextFrameInner readNext
      simp only [hq', hm', hbig, if_true]
      simp
    refine ⟨hnf, ?_, rfl, rfl, out_flush m⟩
    intro buf fuel a
    rw [nextMessage]
    simp [hnf]
  · intro hmax hconf hdata buf fuel a hn hbig
    have hnf := nextFrame_conform m async f rest hq hr hconf hmax
    obtain ⟨hc, _⟩ := notControl_of f.op hdata
    have hcm : (conform (deq (flush m) rest) f).max = m.max := by
      unfold conform
      have h9 : f.op ≠ 9 := by omega
      have h8 : f.op ≠ 8 := by omega
      simp [h9, h8, deq, flush]
    have hm : (a.n + min (buf - a.n) f.payload.length > m.max ∨
        min (buf - a.n) f.payload.length ≠ f.payload.length) := by omega
    rw [nextMessage]
    simp only [hnf, ne_eq, not_true_eq_false, if_false, hc, Bool.false_eq_true, hcm, hm, if_true]
    exact ⟨_, _, rfl⟩
  · intro ty p hp
    unfold write
    simp [hp]

/-! ## Non-vacuity -/

/-- One violation of each class injected into a session, through the four read APIs; fragmentation errors; size limits. -/
def demo : List Op :=
  [.peer { fin := false, rsv := 0, op := 1, masked := false, payload := [104] },
   .peer { fin := true, rsv := 0, op := 9, masked := false, payload := [] },
   .peer { fin := true, rsv := 0, op := 2, masked := false, payload := [1] },
   .nextMsg false 8,                      -- ErrExpectedContinuation
   .peer { fin := true, rsv := 0, op := 0, masked := false, payload := [2] },
   .nextMsg true 8,                       -- ErrUnexpectedContinuation
   .peer { fin := false, rsv := 0, op := 10, masked := false, payload := [] },
   .nextMsg true 8,                       -- fragmented control frame: protocol error, Close(1002) queued
   .write false 1 [97],                   -- refused
   .peer { fin := true, rsv := 2, op := 1, masked := false, payload := [] },
   .nextFrame false,                      -- second violation: no second Close
   .flush true]

example : OpsOk demo := by decide
example : accepts (init 16) (run (new 16) demo) = true := by decide
example : (run (new 16) demo).map (fun x => match x.2 with
      | .ok (.msg e _ _ _ _ _) _ => some e | .ok (.frame e _) _ => some e | .ok (.call e) _ => some e | _ => none) =
    [none, none, none, some .expCont, none, some .unexpCont, none, some (.proto .ctlFin), some .cancelled, none,
     some (.proto .rsv), some .nil] := by decide
example : out (final (new 16) demo) =
    [pong [], { fin := true, op := 8, masked := true, payload := u16 1002 }] := by decide

/-- The monitor rejects a violating frame delivered as data, a violation after which no Close(1002) is queued, and a
fragmentation error passed off as a message. -/
example : accepts (init 16)
    [(.peer { fin := true, rsv := 4, op := 1, masked := false, payload := [9] }, .ok .none ⟨.active, 0, []⟩),
     (.nextFrame false, .ok (.frame .nil (some { fin := true, rsv := 4, op := 1, masked := false, payload := [9] }))
        ⟨.active, 0, []⟩)] = false := by decide
example : accepts (init 16)
    [(.peer { fin := true, rsv := 0, op := 3, masked := false, payload := [] }, .ok .none ⟨.active, 0, []⟩),
     (.nextFrame true, .ok (.frame (.proto .opcode) none) ⟨.closedByUs, 0, []⟩)] = false := by decide
example : accepts (init 16)
    [(.peer { fin := true, rsv := 0, op := 0, masked := false, payload := [9] }, .ok .none ⟨.active, 0, []⟩),
     (.nextMsg false 8, .ok (.msg .nil 0 1 [9] true []) ⟨.active, 0, []⟩)] = false := by decide

end Sonic.Props.C15
