/-
C19 — Codec connection framing is independent of transport segmentation.

Model: `Sonic.Model.FrameCodec` (codec.go `CodecConn`, codec/frame/frame.go, the `ByteBuffer` methods they
use, a scripted transport).  Monitor: `Sonic.Spec.FrameCodec` (a pure parser of `len32be ++ payload`
sequences plus the bytes still owed to the peer).  All theorems quantify over every script, every
segmentation, every capacity the runtime may choose when a buffer grows (`env`), and every limit.
-/
import Sonic.Lemmas.FrameCodecRoundtrip

namespace Sonic.Props.C19
open Sonic.Spec.FrameCodec Sonic.Model.FrameCodec Sonic.Lemmas.FrameCodec

/-! ## Refinement: every trace of the model is accepted by the frame-stream monitor -/

theorem run_accepted (limit : Nat) (c : Conn) (s : S) (ops : List (Op × List Nat)) (hR : R limit c s) :
    accepts s (run limit c ops) = true := by
  induction ops generalizing c s with
  | nil => rfl
  | cons x r ih =>
    obtain ⟨op, env⟩ := x
    obtain ⟨s', h1, h2⟩ := step_refines limit c s op env hR
    simp only [run, accepts, h1]
    exact ih _ _ h2

/-- **C19 (main theorem).** For every limit, every script of feed / eof / plan / defer / ReadNext /
AsyncReadNext / WriteNext / AsyncWriteNext / pump operations (any order, any segment contents and sizes —
so any splitting or coalescing, also inside the 4-byte prefix, would-block in mid-item in both directions,
hostile bytes) and every capacity the runtime picks when a buffer grows, everything the connection
answers is accepted by the monitor: each read returns exactly the next payload of the concatenated
input, one per call, or reports would-block / pending / EOF only when no complete item is buffered;
an over-limit prefix is rejected with the source buffer's capacity unchanged; nothing panics or spins;
the peer receives exactly the frames of the written items in order, and a write that reports success
leaves the destination buffer empty. -/
theorem C19_trace_accepted (limit : Nat) (ops : List (Op × List Nat)) :
    accepts (init limit initialCap) (run limit Conn.new ops) = true :=
  run_accepted limit _ _ ops (R_init limit)

/-- The coupling (hence the buffer invariants) holds in every reachable state. -/
theorem reachable (limit : Nat) (ops : List (Op × List Nat)) :
    ∀ c s, R limit c s → ∃ s', R limit (runState limit c ops) s' := by
  induction ops with
  | nil => intro c s h; exact ⟨s, h⟩
  | cons x r ih =>
    intro c s h
    obtain ⟨op, env⟩ := x
    obtain ⟨s', _, h2⟩ := step_refines limit c s op env h
    exact ih _ s' h2

/-! ## The round trip, spelled out -/

/-- **Round trip.** Any payload sequence (each payload from empty up to the limit) written with blocking
`WriteNext` calls under any partial-write plan reaches the peer as `wire ps`; and however those bytes are
cut into transport segments (`segs`, arbitrary, including cuts inside the length prefix, or everything
coalesced) and whatever capacities the buffer grows to, `ReadNext` returns the same payloads, byte for
byte, one per call. -/
theorem C19_roundtrip (limit : Nat) (hlim : limit < 4294967296) (ps : List Bytes) (hps : ∀ p ∈ ps, p.length ≤ limit)
    (plan : List Nat) (hplan : ∀ k ∈ plan, k ≠ 0) (slacks : List Nat)
    (segs : List Bytes) (envs : List (List Nat))
    (hsegs : segs.flatten = sent (writeMany limit slacks { Conn.new with tr := { plan := plan } } ps)) :
    readMany limit envs ps.length (fed segs) = ps.map .item := by
  have hw := (writeMany_spec limit ps slacks { Conn.new with tr := { plan := plan } } ⟨rfl, rfl, rfl, hplan⟩ hps).1
  obtain ⟨f1, f2, f3, f4⟩ := fed_spec limit segs
  rw [readMany_spec limit _ envs _ f1 f2, f3, f4, hsegs, hw]
  have := specReads_wire limit false hlim ps [] hps
  rwa [List.append_nil] at this

/-- **Segmentation independence, for arbitrary (also hostile) input.** What a sequence of `ReadNext` calls
returns depends only on the concatenation of the segments — not on where they are cut, nor on the
capacities chosen when the buffer grows. -/
theorem C19_segmentation_independent (limit : Nat) (segs₁ segs₂ : List Bytes) (envs₁ envs₂ : List (List Nat)) (n : Nat)
    (h : segs₁.flatten = segs₂.flatten) :
    readMany limit envs₁ n (fed segs₁) = readMany limit envs₂ n (fed segs₂) := by
  obtain ⟨f1, f2, f3, f4⟩ := fed_spec limit segs₁
  obtain ⟨g1, g2, g3, g4⟩ := fed_spec limit segs₂
  rw [readMany_spec limit _ envs₁ _ f1 f2, readMany_spec limit _ envs₂ _ g1 g2, f3, g3, f4, g4, h]

/-! ## The clauses of the property, stated outright -/

/-- **Overflow rejected before any buffering.** In every reachable state with no read pending, if the bytes not
yet returned as items (buffered or still queued in the transport, `unparsed`) start with a prefix declaring more
than the limit, `ReadNext` / `AsyncReadNext` report `toobig`, and the capacity of the source buffer is what
it was: `Reserve` was not called with the declared length. -/
theorem C19_overflow_rejected (limit : Nat) (ops : List (Op × List Nat)) (async : Bool) (env : List Nat)
    (hrp : (runState limit Conn.new ops).rpend = false)
    (hbig : front limit (unparsed (runState limit Conn.new ops)) = .tooBig) :
    (readNext limit async env (runState limit Conn.new ops)).2.stat = .err .toobig ∧
    (readNext limit async env (runState limit Conn.new ops)).1.src.cap = (runState limit Conn.new ops).src.cap := by
  obtain ⟨s, hR⟩ := reachable limit ops _ _ (R_init limit)
  obtain ⟨c', st, e, hout⟩ := readNext_spec limit async env _ hR.1.inv hrp
  obtain ⟨h1, _, h3, _⟩ := hout.big hbig
  rw [e]; exact ⟨h1, h3⟩

/-- An observation that reports a panic or the endless loop of a zero-length read buffer. -/
def Bad : Obs → Prop
  | .r o => o.stat = .panic ∨ o.stat = .stuck
  | .w o => o.stat = .panic
  | .wr w r => w.stat = .panic ∨ r.stat = .panic ∨ r.stat = .stuck
  | .ok => False

theorem accepts_mem {s : S} {tr : List (Op × Obs)} (h : accepts s tr = true) :
    ∀ x ∈ tr, ∃ s1 s2, Spec.FrameCodec.step s1 x.1 x.2 = some s2 := by
  induction tr generalizing s with
  | nil => intro x hx; cases hx
  | cons y r ih =>
    intro x hx
    simp only [accepts] at h
    cases hy : Spec.FrameCodec.step s y.1 y.2 with
    | none => rw [hy] at h; cases h
    | some s' =>
      rw [hy] at h
      rcases List.mem_cons.mp hx with rfl | hx
      · exact ⟨s, s', hy⟩
      · exact ih h x hx

theorem readDone_not_bad {s s' : S} {a : Bool} {o : RObs} (h : readDone s a o = some s') :
    o.stat ≠ .panic ∧ o.stat ≠ .stuck := by
  unfold readDone at h
  constructor <;> intro hc <;> rw [hc] at h <;> cases h

theorem step_not_bad {s s' : S} {op : Op} {ob : Obs} (h : Spec.FrameCodec.step s op ob = some s') : ¬ Bad ob := by
  cases ob with
  | ok => exact fun h => h
  | r o =>
    intro hb
    cases op <;> simp only [Spec.FrameCodec.step] at h <;> try (cases h)
    all_goals
      split at h
      · rename_i hbusy; rcases hb with hb | hb <;> rw [hb] at hbusy <;> cases hbusy
      · split at h
        · cases h
        · have := readDone_not_bad h; rcases hb with hb | hb <;> simp [hb] at this
  | w o =>
    intro hb
    simp only [Bad] at hb
    cases op <;> simp only [Spec.FrameCodec.step, hb] at h <;> cases h
  | wr w r =>
    intro hb
    cases op <;> simp only [Spec.FrameCodec.step] at h <;> try (cases h)
    cases h1 : onPumpWrite s w with
    | none => rw [h1] at h; cases h
    | some s1 =>
      rw [h1] at h
      simp only [Option.bind_some] at h
      rcases hb with hb | hb
      · simp only [onPumpWrite, hb] at h1
        first | cases h1 | (split at h1 <;> cases h1)
      · simp only [onPumpRead] at h
        split at h
        · rename_i hn; rcases hb with hb | hb <;> rw [hb] at hn <;> cases hn
        · split at h
          · have := readDone_not_bad h; rcases hb with hb | hb <;> simp [hb] at this
          · cases h

/-- **Totality.** Whatever bytes arrive, in whatever pieces, no call of the connection panics (slice bounds in
`Decode`/`Encode`) or spins on a zero-length read buffer: no observation of any script is `panic` or `stuck`. -/
theorem C19_total (limit : Nat) (ops : List (Op × List Nat)) :
    ∀ x ∈ run limit Conn.new ops, ¬ Bad x.2 := by
  intro x hx
  obtain ⟨s1, s2, h⟩ := accepts_mem (C19_trace_accepted limit ops) x hx
  exact step_not_bad h

theorem writeDone_clause {s s' : S} {exp : Bytes} {n : Nat} {o : WObs} (h : writeDone s exp n o = some s')
    (he : o.err = .nil) : o.rlen = 0 ∧ o.wlen = 0 ∧ s'.owed = [] := by
  unfold writeDone at h
  split at h
  · rename_i hc
    obtain ⟨_, _, _, h4⟩ := hc
    obtain ⟨h5, h6, h7⟩ := h4 he
    injection h with h
    rw [← h]
    exact ⟨h6, h7, by simp [h5]⟩
  · cases h

/-- The write-side part of an observation. -/
def wpart : Obs → Option WObs
  | .w o => some o
  | .wr w _ => some w
  | _ => none

theorem step_nothing_left {s s' : S} {op : Op} {ob : Obs} {o : WObs} (h : Spec.FrameCodec.step s op ob = some s')
    (hw : wpart ob = some o) (hd : o.stat = .done) (he : o.err = .nil) : o.rlen = 0 ∧ o.wlen = 0 := by
  cases ob with
  | ok => cases hw
  | r _ => cases hw
  | w o' =>
    simp only [wpart] at hw; injection hw with hw; subst hw
    cases op <;> simp only [Spec.FrameCodec.step, hd] at h <;> try (cases h)
    all_goals
      split at h
      · cases h
      · split at h
        · split at h
          · rename_i hc; rw [he] at hc; cases hc.1
          · cases h
        · first
          | (have := writeDone_clause h he; exact ⟨this.1, this.2.1⟩)
          | (split at h
             · have := writeDone_clause h he; exact ⟨this.1, this.2.1⟩
             · cases h)
  | wr w r =>
    simp only [wpart] at hw; injection hw with hw; subst hw
    cases op <;> simp only [Spec.FrameCodec.step] at h <;> try (cases h)
    cases h1 : onPumpWrite s w with
    | none => rw [h1] at h; cases h
    | some s1 =>
      simp only [onPumpWrite, hd] at h1
      split at h1
      · rename_i hq1 hq2; cases hq1
      · rename_i hq1 hq2; cases hq1
      · rw [if_pos he] at h1
        have := writeDone_clause h1 he; exact ⟨this.1, this.2.1⟩
      · cases h1

/-- **Nothing left behind.** Whenever `WriteNext` returns, or the callback of `AsyncWriteNext` is invoked, with a
nil error (`done`, `nil`), the destination buffer is empty: `ReadLen() = 0` and `WriteLen() = 0` — nothing of
the item (or of an earlier, partially written one) remains to be re-sent or interleaved with the next item. -/
theorem C19_nothing_left (limit : Nat) (ops : List (Op × List Nat)) :
    ∀ x ∈ run limit Conn.new ops, ∀ o, wpart x.2 = some o → o.stat = .done → o.err = .nil → o.rlen = 0 ∧ o.wlen = 0 := by
  intro x hx o hw hd he
  obtain ⟨s1, s2, h⟩ := accepts_mem (C19_trace_accepted limit ops) x hx
  exact step_nothing_left h hw hd he

/-! ## Non-vacuity -/

-- the real limit satisfies the hypothesis of the round trip
example : maxPayloadLength < 4294967296 := by decide

-- a concrete round trip: two payloads written under a partial-write plan, cut inside the prefix, read back
example : readMany 100 [] 2 (fed [[0, 0], [0, 2, 7], [8, 0, 0, 0, 0]]) = [.item [7, 8], .item []] := by decide
example : sent (writeMany 100 [] { Conn.new with tr := { plan := [1, 3] } } [[7, 8], []]) = [0, 0, 0, 2, 7, 8, 0, 0, 0, 0] := by
  decide

-- a script that mixes both directions, would-block in mid-item and an asynchronous read is accepted …
example : accepts (init 100 512)
    (run 100 Conn.new [(.feed [0, 0], []), (.read, []), (.feed [0, 1, 7, 0], []), (.aread, []), (.aread, []),
      (.plan [2, 0], []), (.write [9], []), (.write [], []), (.feed [0, 0, 0], []), (.pump, []), (.read, [])]) = true := by
  decide

-- … and the monitor does reject wrong behaviour: a wrong payload byte, an item returned twice, a successful write
-- that left bytes behind (the defect repaired by 427e6d3), an over-limit prefix answered after buffering
example : Spec.FrameCodec.step { limit := 100, cap := 512, inb := [0, 0, 0, 1, 7] } .read
    (.r { stat := .item [8], cap := 512, rlen := 1, wlen := 0 }) = none := by decide
example : accepts { limit := 100, cap := 512, inb := [0, 0, 0, 1, 7] }
    [(.read, .r { stat := .item [7], cap := 512, rlen := 1, wlen := 0 }),
     (.read, .r { stat := .item [7], cap := 512, rlen := 1, wlen := 0 })] = false := by decide
example : Spec.FrameCodec.step (init 100 512) (.write [1])
    (.w { stat := .done, n := 0, err := .nil, out := [], rlen := 0, wlen := 5 }) = none := by decide
example : Spec.FrameCodec.step { limit := 100, cap := 512, inb := [0, 0, 0, 101] } .read
    (.r { stat := .err .toobig, cap := 1024, rlen := 4, wlen := 0 }) = none := by decide

end Sonic.Props.C19
