/-
C19 — Codec connection framing is independent of transport segmentation (work in progress).
-/
import Sonic.Model.FrameCodec

namespace Sonic.Props.C19
open Sonic.Spec.FrameCodec Sonic.Model.FrameCodec

example : accepts (init 100 512)
    (run 100 Conn.new [(.feed [0,0], []), (.read, []), (.feed [0,1,7,0], []), (.read, []), (.read, [])]) = true := by
  decide

end Sonic.Props.C19
