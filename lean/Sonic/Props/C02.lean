/-
C02 — Byte-stream fidelity and the ReadAll/WriteAll contract (the reactor arithmetic, for every kernel schedule).

Over `Sonic.Model.Xfer` (the transfer loops of file.go and async_adapter.go as a function of what the kernel does
at each syscall): for every buffer length, every stream content and every schedule of partial transfers,
would-blocks, end-of-file and errors, the bytes in `b[:n]` are exactly the next `n` bytes of the stream, the stream
loses exactly those, the count is exact, `ReadAll`/`WriteAll` succeed only with the whole buffer, and a sequence of
reads delivers a prefix of the stream with nothing lost, duplicated or invented.  That the kernel's stream is FIFO
and the real reactors behave like the model is the correspondence check's part (position-dependent payloads, the
ledger monitor's data clauses on real sockets).
-/
import Sonic.Model.Xfer
import Sonic.Model.XferStep

namespace Sonic.Props.C02
open Sonic.Model.Xfer

theorem take_append_drop_len (l : List UInt8) (m : Nat) : l.take m ++ l.drop (l.take m).length = l := by
  by_cases h : m ≤ l.length
  · rw [List.length_take, Nat.min_eq_left h, List.take_append_drop]
  · rw [List.take_of_length_le (by omega), List.drop_length, List.append_nil]

/-- Everything one read guarantees, for every schedule (induction over the schedule). -/
theorem readOp_spec (len : Nat) (all : Bool) :
    ∀ (sched : List KRes) (soFar : Nat) (buf stream : List UInt8) (o : ROut),
      buf.length = soFar → soFar ≤ len →
      readOp len all soFar buf stream sched = some o →
      (∃ d, o.buf = buf ++ d ∧ stream = d ++ o.stream)      -- delivered bytes are the next bytes of the stream
      ∧ o.n = o.buf.length ∧ o.n ≤ len                      -- the count is exactly what is in b[:n]
      ∧ (o.res = .ok → soFar < o.n ∧ (all = true → o.n = len))
  | [], _, _, _, _, _, _, h => by simp [readOp] at h
  | .move k :: rest, soFar, buf, stream, o, hb, hl, h => by
    simp only [readOp] at h
    split at h
    · exact readOp_spec len all rest soFar buf stream o hb hl h
    · rename_i hne
      have hgot : (stream.take (min k (len - soFar))).length ≤ len - soFar := by
        simp only [List.length_take]; omega
      have hpos : 0 < (stream.take (min k (len - soFar))).length := by
        cases hg : stream.take (min k (len - soFar)) with
        | nil => simp [hg] at hne
        | cons _ _ => simp
      have hsplit : stream = stream.take (min k (len - soFar)) ++ stream.drop (stream.take (min k (len - soFar))).length :=
        (take_append_drop_len stream _).symm
      split at h
      · -- ReadAll, buffer not full yet: keep reading
        have ih := readOp_spec len all rest (soFar + (stream.take (min k (len - soFar))).length)
          (buf ++ stream.take (min k (len - soFar))) (stream.drop (stream.take (min k (len - soFar))).length) o
          (by simp only [List.length_append, hb]) (by omega) h
        obtain ⟨⟨d, hd1, hd2⟩, hn, hle, hok⟩ := ih
        refine ⟨⟨stream.take (min k (len - soFar)) ++ d, by rw [hd1, List.append_assoc], ?_⟩, hn, hle, ?_⟩
        · rw [List.append_assoc, ← hd2]; exact hsplit
        · intro hr; have := hok hr; exact ⟨by omega, this.2⟩
      · rename_i hfull
        cases h
        refine ⟨⟨_, rfl, hsplit⟩, by simp [hb], ?_, ?_⟩
        · show soFar + _ ≤ len; omega
        · intro _
          refine ⟨by show soFar < soFar + _; omega, ?_⟩
          intro ha
          simp only [ha, Bool.true_and, bne_iff_ne, ne_eq, Decidable.not_not] at hfull
          exact hfull
  | .block :: rest, soFar, buf, stream, o, hb, hl, h => by
    simp only [readOp] at h
    exact readOp_spec len all rest soFar buf stream o hb hl h
  | .eof :: rest, soFar, buf, stream, o, hb, hl, h => by
    simp only [readOp] at h
    cases h
    exact ⟨⟨[], by simp, by simp⟩, by simp [hb], hl, by intro hr; cases hr⟩
  | .fail :: rest, soFar, buf, stream, o, hb, hl, h => by
    simp only [readOp] at h
    cases h
    exact ⟨⟨[], by simp, by simp⟩, by simp [hb], hl, by intro hr; cases hr⟩

/-- **C02 (one read).** For every buffer length, stream and kernel schedule: `b[:n]` holds exactly the next `n`
bytes of the stream (none invented, none skipped), the stream has lost exactly those, `n ≤ len(b)`; success means
`n ≥ 1`, and for `AsyncReadAll` success means the whole buffer — however the transfer was split into partial reads,
including a would-block in the middle. On error the count equals the bytes actually transferred. -/
theorem C02_read (len : Nat) (all : Bool) (stream : List UInt8) (sched : List KRes) (o : ROut)
    (h : readOp len all 0 [] stream sched = some o) :
    stream = o.buf ++ o.stream ∧ o.n = o.buf.length ∧ o.n ≤ len ∧
    (o.res = .ok → 1 ≤ o.n ∧ (all = true → o.n = len)) := by
  obtain ⟨⟨d, hd1, hd2⟩, hn, hle, hok⟩ := readOp_spec len all sched 0 [] stream o rfl (Nat.zero_le _) h
  simp only [List.nil_append] at hd1
  subst hd1
  exact ⟨hd2, hn, hle, fun hr => ⟨(hok hr).1, (hok hr).2⟩⟩

/-- **C02 (stream fidelity over any number of reads).** The concatenation, in completion order, of what the read
callbacks delivered, followed by what is still in the stream, is the stream: nothing lost, duplicated or reordered. -/
theorem C02_read_prefix : ∀ (ops : List (Nat × Bool)) (stream : List UInt8) (sched : List KRes),
    ∃ rest, stream = ((readOps ops stream sched).map (·.buf)).flatten ++ rest
  | [], stream, _ => ⟨stream, by simp [readOps]⟩
  | (len, all) :: ops, stream, sched => by
    simp only [readOps]
    cases h : readOp len all 0 [] stream sched with
    | none => exact ⟨stream, by simp⟩
    | some o =>
      obtain ⟨hs, _⟩ := C02_read len all stream sched o h
      obtain ⟨rest, hr⟩ := C02_read_prefix ops o.stream o.sched
      refine ⟨rest, ?_⟩
      simp only [List.map_cons, List.flatten_cons, List.append_assoc]
      rw [← hr]; exact hs

theorem take_grow (b : List UInt8) (s k : Nat) :
    b.take s ++ (b.drop s).take k = b.take (s + ((b.drop s).take k).length) := by
  rw [List.take_add]
  congr 1
  by_cases h : k ≤ (b.drop s).length
  · rw [List.length_take, Nat.min_eq_left h]
  · rw [List.take_of_length_le (by omega), List.take_of_length_le (Nat.le_refl _)]

theorem writeOp_spec (b : List UInt8) (all : Bool) :
    ∀ (sched : List KRes) (soFar : Nat) (wire : List UInt8) (o : WOut), soFar ≤ b.length → wire = b.take soFar →
      writeOp b all soFar wire sched = some o →
      o.wire = b.take o.n ∧ soFar ≤ o.n ∧ o.n ≤ b.length
      ∧ (o.res = .ok → soFar < o.n ∧ (all = true → o.n = b.length))
  | [], _, _, _, _, _, h => by simp [writeOp] at h
  | .move k :: rest, soFar, wire, o, hl, hw, h => by
    simp only [writeOp] at h
    split at h
    · exact writeOp_spec b all rest soFar wire o hl hw h
    · rename_i hne
      have hlen : ((b.drop soFar).take k).length ≤ b.length - soFar := by
        simp only [List.length_take, List.length_drop]; omega
      have hpos : 0 < ((b.drop soFar).take k).length := by
        cases hg : (b.drop soFar).take k with
        | nil => simp [hg] at hne
        | cons _ _ => simp
      have hwire : wire ++ (b.drop soFar).take k = b.take (soFar + ((b.drop soFar).take k).length) := by
        rw [hw]; exact take_grow b soFar k
      split at h
      · obtain ⟨h1, h2, h3, h4⟩ := writeOp_spec b all rest _ _ o (by omega) hwire h
        exact ⟨h1, by omega, h3, fun hr => ⟨by have := (h4 hr).1; omega, (h4 hr).2⟩⟩
      · rename_i hfull
        cases h
        refine ⟨hwire, ?_, ?_, ?_⟩
        · show soFar ≤ soFar + _; omega
        · show soFar + _ ≤ b.length; omega
        · intro _
          refine ⟨by show soFar < soFar + _; omega, ?_⟩
          intro ha
          simp only [ha, Bool.true_and, bne_iff_ne, ne_eq, Decidable.not_not] at hfull
          exact hfull
  | .block :: rest, soFar, wire, o, hl, hw, h => by
    simp only [writeOp] at h
    exact writeOp_spec b all rest soFar wire o hl hw h
  | .eof :: rest, soFar, wire, o, hl, hw, h => by
    simp only [writeOp] at h
    cases h
    exact ⟨hw, Nat.le_refl _, hl, by intro hr; cases hr⟩
  | .fail :: rest, soFar, wire, o, hl, hw, h => by
    simp only [writeOp] at h
    cases h
    exact ⟨hw, Nat.le_refl _, hl, by intro hr; cases hr⟩

/-- **C02 (one write).** What an `AsyncWrite`/`AsyncWriteAll` put on the wire is exactly the first `n` bytes of the
caller's buffer, in order, `n` being the count passed to the callback; `WriteAll` reports success only with
`n = len(b)`, whatever the split into partial writes and would-blocks; on error `n` is what was actually sent. -/
theorem C02_write (b : List UInt8) (all : Bool) (sched : List KRes) (o : WOut)
    (h : writeOp b all 0 [] sched = some o) :
    o.wire = b.take o.n ∧ o.n ≤ b.length ∧ (o.res = .ok → 1 ≤ o.n ∧ (all = true → o.n = b.length)) := by
  obtain ⟨h1, _, h3, h4⟩ := writeOp_spec b all sched 0 [] o (Nat.zero_le _) (by simp) h
  exact ⟨h1, h3, fun hr => ⟨(h4 hr).1, (h4 hr).2⟩⟩

/-! Non-vacuity: a ReadAll of 8 bytes split 3 / would-block / 5 succeeds with exactly the first 8 stream bytes; a
partial read followed by an error reports the partial count (the defect repaired by 61144e4 reported success here). -/
example : readOp 8 true 0 [] [1,2,3,4,5,6,7,8,9,10] [.move 3, .block, .move 7] =
    some { res := .ok, n := 8, buf := [1,2,3,4,5,6,7,8], stream := [9,10], sched := [] } := by decide
example : (readOp 8 true 0 [] [1,2,3] [.move 3, .eof]).map (fun o => (o.res, o.n)) = some (.eof, 3) := by decide
example : (writeOp [1,2,3,4,5] true 0 [] [.move 2, .block, .move 9]).map (fun o => (o.res, o.n, o.wire)) =
    some (.ok, 5, [1,2,3,4,5]) := by decide

/-! ### The monitor of `Spec/Xfer.lean` (the property's clauses on observations) accepts the model -/
section Monitor
open Sonic.Model.XferStep

theorem countOk_of (res : Res) (n len : Nat) (all : Bool) (hle : n ≤ len)
    (hok : res = .ok → 1 ≤ n ∧ (all = true → n = len)) :
    Sonic.Spec.Xfer.countOk (toRes res) n len all = true := by
  unfold Sonic.Spec.Xfer.countOk
  cases res <;> simp [toRes, hle]
  obtain ⟨h1, h2⟩ := hok rfl
  refine ⟨h1, ?_⟩
  cases all <;> simp_all

/-- **C02 (monitor, one read).** Whatever the schedule, the monitor accepts what the model's read callback is given,
and the monitor's stream afterwards is the model's. -/
theorem C02_monitor_accepts_read (s : Sonic.Spec.Xfer.S) (len : Nat) (all : Bool) (sched : List KRes) (o : ROut)
    (h : readOp len all 0 [] s.stream sched = some o) :
    Sonic.Spec.Xfer.step s (.read len all) (.read (toRes o.res) o.n o.buf true) = some { s with stream := o.stream } := by
  obtain ⟨hs, hn, hle, hok⟩ := C02_read len all s.stream sched o h
  have ht : s.stream.take o.n = o.buf := by rw [hs, hn, List.take_left']; rfl
  have hd : s.stream.drop o.n = o.stream := by rw [hs, hn, List.drop_left']; rfl
  rw [hn] at ht hd
  simp only [Sonic.Spec.Xfer.step, hn, countOk_of o.res o.buf.length len all (hn ▸ hle) (hn ▸ hok), ht, hd, and_self, if_true]

/-- **C02 (monitor, one write).** -/
theorem C02_monitor_accepts_write (s : Sonic.Spec.Xfer.S) (b : List UInt8) (all : Bool) (sched : List KRes) (o : WOut)
    (h : writeOp b all 0 [] sched = some o) :
    Sonic.Spec.Xfer.step s (.write b all) (.write (toRes o.res) o.n o.wire) = some { s with wire := s.wire ++ o.wire } := by
  obtain ⟨hw, hle, hok⟩ := C02_write b all sched o h
  simp only [Sonic.Spec.Xfer.step, hw, countOk_of o.res o.n b.length all hle hok, and_self, if_true]

/-- **C02 (monitor accepts the model).** For every sequence of reads and writes, every buffer, every stream and every
per-call behaviour of the transport, the monitor that `sonicdrv xfer` runs on the implementation's observations accepts
the model's observations: an implementation that agrees with the model on a schedule satisfies the property on it. -/
theorem C02_monitor_accepts_model : ∀ (ops : List (Sonic.Spec.Xfer.Op × List KRes)) (s : Sonic.Spec.Xfer.S),
    accepts s ops = true
  | [], _ => rfl
  | (.read len all, sched) :: rest, s => by
    simp only [accepts, mstep]
    cases h : readOp len all 0 [] s.stream sched with
    | none => rfl
    | some o =>
      simp only [Option.map_some, C02_monitor_accepts_read s len all sched o h]
      exact C02_monitor_accepts_model rest _
  | (.write b all, sched) :: rest, s => by
    simp only [accepts, mstep]
    cases h : writeOp b all 0 [] sched with
    | none => rfl
    | some o =>
      simp only [Option.map_some, C02_monitor_accepts_write s b all sched o h]
      exact C02_monitor_accepts_model rest _

/-- The monitor is not trivially accepting: a count above the bytes moved, an invented byte, a `ReadAll` success with a
short count and a dirty tail are all rejected. -/
example : Sonic.Spec.Xfer.step { stream := [1,2,3] } (.read 4 false) (.read .ok 3 [1,2,9] true) = none := by decide
example : Sonic.Spec.Xfer.step { stream := [1,2,3] } (.read 4 true) (.read .ok 3 [1,2,3] true) = none := by decide
example : Sonic.Spec.Xfer.step { stream := [1,2,3] } (.read 4 false) (.read .ok 2 [1,2] false) = none := by decide
example : Sonic.Spec.Xfer.step { stream := [] } (.write [1,2,3] true) (.write .err 3 [1,2] ) = none := by decide
end Monitor

/-! ### What acceptance by the monitor means at the level of the whole connection

These two theorems are about the monitor alone, hence about *any* trace it accepts — the model's (by
`C02_monitor_accepts_model`) and the implementation's (checked on every run by `sonicdrv xfer`). -/
section Stream
open Sonic.Spec.Xfer

/-- The monitor run over a list of (operation, observation) pairs. -/
def runMon : S → List (Op × Obs) → Option S
  | s, [] => some s
  | s, (op, ob) :: rest => match step s op ob with
    | none => none
    | some s' => runMon s' rest

/-- what a completion delivered to the caller (reads) -/
def delivered : Op × Obs → List UInt8
  | (.read _ _, .read _ _ buf _) => buf
  | _ => []

/-- what a completion reports as taken from the caller's buffer (writes): the first `n` bytes of it -/
def taken : Op × Obs → List UInt8
  | (.write b _, .write _ n _) => b.take n
  | _ => []

/-- **C02 (stream fidelity of an accepted trace, reads).** If the monitor accepts a trace — any number of reads and
writes, interleaved in any way — then the bytes delivered by the read completions, concatenated in completion order and
followed by what is left of the peer's stream, are the peer's stream: none lost, duplicated, reordered or invented. -/
theorem C02_accepted_reads_are_the_stream : ∀ (tr : List (Op × Obs)) (s s' : S), runMon s tr = some s' →
    s.stream = (tr.map delivered).flatten ++ s'.stream
  | [], s, s', h => by simp only [runMon, Option.some.injEq] at h; subst h; simp
  | (op, ob) :: rest, s, s', h => by
    simp only [runMon] at h
    cases hs : step s op ob with
    | none => rw [hs] at h; cases h
    | some s1 =>
      rw [hs] at h
      have ih := C02_accepted_reads_are_the_stream rest s1 s' h
      simp only [List.map_cons, List.flatten_cons, List.append_assoc]
      rw [← ih]
      cases op with
      | read len all =>
        cases ob with
        | read res n buf clean =>
          simp only [step] at hs
          split at hs
          · rename_i hc
            cases hs
            simp only [delivered]
            rw [hc.1]; exact (List.take_append_drop n s.stream).symm
          · cases hs
        | write _ _ _ => simp [step] at hs
      | write b all =>
        cases ob with
        | read _ _ _ _ => simp [step] at hs
        | write res n wire =>
          simp only [step] at hs
          split at hs
          · cases hs; simp [delivered]
          · cases hs

/-- **C02 (stream fidelity of an accepted trace, writes).** Likewise the bytes the transport accepted, in order, are the
concatenation of `b[:n]` over the write completions: the count passed to each callback is exactly what that operation
moved out of the caller's buffer, and bytes of different operations are never interleaved. -/
theorem C02_accepted_writes_are_the_wire : ∀ (tr : List (Op × Obs)) (s s' : S), runMon s tr = some s' →
    s'.wire = s.wire ++ (tr.map taken).flatten
  | [], s, s', h => by simp only [runMon, Option.some.injEq] at h; subst h; simp
  | (op, ob) :: rest, s, s', h => by
    simp only [runMon] at h
    cases hs : step s op ob with
    | none => rw [hs] at h; cases h
    | some s1 =>
      rw [hs] at h
      have ih := C02_accepted_writes_are_the_wire rest s1 s' h
      rw [ih]
      simp only [List.map_cons, List.flatten_cons]
      cases op with
      | read len all =>
        cases ob with
        | read res n buf clean =>
          simp only [step] at hs
          split at hs
          · cases hs; simp [taken]
          · cases hs
        | write _ _ _ => simp [step] at hs
      | write b all =>
        cases ob with
        | read _ _ _ _ => simp [step] at hs
        | write res n wire =>
          simp only [step] at hs
          split at hs
          · rename_i hc
            cases hs
            simp only [taken, List.append_assoc]
            rw [hc.1]
          · cases hs

example : runMon { stream := [1,2,3,4,5] } [(.read 2 false, .read .ok 2 [1,2] true), (.write [9,8,7] true, .write .ok 3 [9,8,7]),
    (.read 4 true, .read .eof 3 [3,4,5] true)] = some { stream := [], wire := [9,8,7] } := by decide
end Stream

/-! ### Would-blocks and deferrals do not change what an operation reports

Where the kernel says "would block" — before the first attempt (the operation was deferred to the poller, e.g. at the dispatch
limit, C14), between two partial transfers, or repeatedly — is irrelevant to the result class, the count, the bytes and the state
of the stream: the operation completes with the result it would have had without them. -/
section Blocks

def ROut.core (o : ROut) : Res × Nat × List UInt8 × List UInt8 := (o.res, o.n, o.buf, o.stream)
def WOut.core (o : WOut) : Res × Nat × List UInt8 := (o.res, o.n, o.wire)

def noBlocks (sched : List KRes) : List KRes := sched.filter (fun k => k != .block)

theorem C02_read_would_block_irrelevant (len : Nat) (all : Bool) : ∀ (sched : List KRes) (soFar : Nat) (buf stream : List UInt8),
    (readOp len all soFar buf stream (noBlocks sched)).map ROut.core = (readOp len all soFar buf stream sched).map ROut.core
  | [], _, _, _ => by simp [noBlocks, readOp]
  | .block :: rest, soFar, buf, stream => by
    have ih := C02_read_would_block_irrelevant len all rest soFar buf stream
    simpa [noBlocks, readOp] using ih
  | .eof :: rest, _, _, _ => by simp [noBlocks, readOp, ROut.core]
  | .fail :: rest, _, _, _ => by simp [noBlocks, readOp, ROut.core]
  | .move k :: rest, soFar, buf, stream => by
    have h1 : noBlocks (.move k :: rest) = .move k :: noBlocks rest := by simp [noBlocks]
    rw [h1]
    simp only [readOp]
    split
    · exact C02_read_would_block_irrelevant len all rest soFar buf stream
    · split
      · exact C02_read_would_block_irrelevant len all rest _ _ _
      · simp [ROut.core]

theorem C02_write_would_block_irrelevant (b : List UInt8) (all : Bool) : ∀ (sched : List KRes) (soFar : Nat) (wire : List UInt8),
    (writeOp b all soFar wire (noBlocks sched)).map WOut.core = (writeOp b all soFar wire sched).map WOut.core
  | [], _, _ => by simp [noBlocks, writeOp]
  | .block :: rest, soFar, wire => by
    have ih := C02_write_would_block_irrelevant b all rest soFar wire
    simpa [noBlocks, writeOp] using ih
  | .eof :: rest, _, _ => by simp [noBlocks, writeOp, WOut.core]
  | .fail :: rest, _, _ => by simp [noBlocks, writeOp, WOut.core]
  | .move k :: rest, soFar, wire => by
    have h1 : noBlocks (.move k :: rest) = .move k :: noBlocks rest := by simp [noBlocks]
    rw [h1]
    simp only [writeOp]
    split
    · exact C02_write_would_block_irrelevant b all rest soFar wire
    · split
      · exact C02_write_would_block_irrelevant b all rest _ _
      · simp [WOut.core]

/-- **C14 / C02 (deferred = inline).** An operation whose first attempt is left to the poller (a would-block in front of the
schedule: issued at the dispatch limit, or the descriptor was not ready) completes with exactly the result of the same
operation tried at once. -/
theorem C14_deferred_read_same_result (len : Nat) (all : Bool) (sched : List KRes) (stream : List UInt8) :
    (readOp len all 0 [] stream (.block :: sched)).map ROut.core = (readOp len all 0 [] stream sched).map ROut.core := by
  simp [readOp]

theorem C14_deferred_write_same_result (b : List UInt8) (all : Bool) (sched : List KRes) :
    (writeOp b all 0 [] (.block :: sched)).map WOut.core = (writeOp b all 0 [] sched).map WOut.core := by
  simp [writeOp]

example : (readOp 8 true 0 [] [1,2,3,4,5,6,7,8,9] [.block, .move 3, .block, .block, .move 9]).map ROut.core =
    (readOp 8 true 0 [] [1,2,3,4,5,6,7,8,9] [.move 3, .move 9]).map ROut.core := by decide
end Blocks

end Sonic.Props.C02
