import Sonic.Model.WsHandshake
namespace Sonic.Props.C18
end Sonic.Props.C18
