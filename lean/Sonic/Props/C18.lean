/-
C18 — WebSocket opening handshake: sound acceptance, robust parsing, no lost bytes.

Model: `Sonic.Model.WsHandshake` (stream.go `Handshake`/`AsyncHandshake`/`handshake`/`upgrade`/`reset`/`init`,
rfc6455.go `IsUpgradeRes`).  PARTIAL: `net/http` response parsing (`Params.parse`), SHA-1 + base64
(`Params.acceptOf`), randomness of the key, the growth of the handshake buffer (`Params.grow`) and TCP are
parameters of the theorems, not proven; they are exercised against the real thing by the trace check
(`harness wshandshake`).  All theorems hold for every value of those parameters, every segmentation of the
response (`Wire.cuts`), every state the stream was in before, and every response shorter than
`maxHandshakeResponseLength`.
-/
import Sonic.Lemmas.WsHandshakeOutcome

namespace Sonic.Props.C18
open Sonic.Spec.WsHandshake Sonic.Model.WsHandshake Sonic.Lemmas.WsHandshake

/-- The hypotheses shared by the theorems: the runtime's `append` really grows a full buffer, and the delivered
bytes (response head and whatever was piggy-backed) fit the handshake buffer's limit. -/
def Admissible (P : Params) (w : Wire) : Prop :=
  (∀ c, c < P.grow c) ∧ w.rest.length < maxHandshakeResponseLength

/-- **Sound and complete acceptance.** The handshake ends without error **iff** the delivered bytes contain a
complete response head (up to the first blank line), `http.ReadResponse` parses it, its status is 101, it has an
`Upgrade` header equal to `websocket` ignoring case, and its `Sec-WebSocket-Accept` value is the one derived
from the key that was sent.  Then the stream is active on an open connection; in every other case the call
reports an error and leaves the stream terminated with the connection released — never half-open. -/
theorem C18_accept_iff (P : Params) (s : St) (key : String) (w : Wire) (h : Admissible P w) :
    ((handshake P s key w).2.1 = .nil ↔
      ∃ k res, headEnd w.rest = some k ∧ P.parse (w.rest.take k) = some res ∧ res.status = 101 ∧
        (∃ u, res.upgrade = some u ∧ eqFold u "websocket" = true) ∧ res.accept = some (P.acceptOf key)) ∧
    ((handshake P s key w).2.1 = .nil →
      (handshake P s key w).1.state = .active ∧ (handshake P s key w).1.conn = true ∧ (handshake P s key w).1.stream = true) ∧
    ((handshake P s key w).2.1 ≠ .nil →
      (handshake P s key w).1.state = .terminated ∧ (handshake P s key w).1.conn = false) := by
  obtain ⟨h1, _, _, _, _, h6, h7⟩ := handshake_spec P h.1 s key w h.2
  refine ⟨?_, fun hn => ⟨(h6 hn).1, (h6 hn).2.1, (h6 hn).2.2.1⟩, h7⟩
  rw [h1]
  constructor
  · intro ho
    obtain ⟨k, res, hk, hp, hg⟩ := outcome_nil ho
    refine ⟨k, res, hk, hp, ?_⟩
    simp only [goodRes, isUpgradeRes, Bool.and_eq_true, beq_iff_eq] at hg
    obtain ⟨⟨hs, hu⟩, ha⟩ := hg
    refine ⟨hs, ?_, ha⟩
    cases hup : res.upgrade with
    | none => rw [hup] at hu; cases hu
    | some u => rw [hup] at hu; exact ⟨u, rfl, hu⟩
  · rintro ⟨k, res, hk, hp, hs, ⟨u, hu1, hu2⟩, ha⟩
    simp only [outcome, hk, hp]
    have : goodRes P key res = true := by
      simp [goodRes, isUpgradeRes, hs, hu1, hu2, ha]
    rw [this]; rfl

/-- **Segmentation independence.** Two runs that differ only in how the transport cuts the delivered bytes into
reads (and in the stream's previous state and buffer capacity) end with the same error and the same state. -/
theorem C18_segmentation_independent (P : Params) (s₁ s₂ : St) (key : String) (w₁ w₂ : Wire)
    (h₁ : Admissible P w₁) (hrest : w₂.rest = w₁.rest) (hclosed : w₂.closed = w₁.closed) :
    (handshake P s₁ key w₁).2.1 = (handshake P s₂ key w₂).2.1 ∧
    (handshake P s₁ key w₁).1.state = (handshake P s₂ key w₂).1.state ∧
    (handshake P s₁ key w₁).1.conn = (handshake P s₂ key w₂).1.conn := by
  have h₂ : Admissible P w₂ := ⟨h₁.1, by rw [hrest]; exact h₁.2⟩
  obtain ⟨a1, _, _, _, _, a6, a7⟩ := handshake_spec P h₁.1 s₁ key w₁ h₁.2
  obtain ⟨b1, _, _, _, _, b6, b7⟩ := handshake_spec P h₂.1 s₂ key w₂ h₂.2
  have he : (handshake P s₁ key w₁).2.1 = (handshake P s₂ key w₂).2.1 := by rw [a1, b1, hrest, hclosed]
  refine ⟨he, ?_, ?_⟩
  · by_cases hn : (handshake P s₁ key w₁).2.1 = .nil
    · rw [(a6 hn).1, (b6 (he ▸ hn)).1]
    · rw [(a7 hn).1, (b7 (he ▸ hn)).1]
  · by_cases hn : (handshake P s₁ key w₁).2.1 = .nil
    · rw [(a6 hn).2.1, (b6 (he ▸ hn)).2.1]
    · rw [(a7 hn).2, (b7 (he ▸ hn)).2]

/-- **No byte lost, none duplicated.** After a successful handshake, the read buffer followed by what the
transport still holds is exactly the delivered bytes after the blank line that ends the response — for every
segmentation (also when the blank line straddles reads or frames arrive in the same read as the head), every
header spelling and every previous content of the buffers. -/
theorem C18_leftover_exact (P : Params) (s : St) (key : String) (w : Wire) (h : Admissible P w)
    (hok : (handshake P s key w).2.1 = .nil) :
    ∃ k, headEnd w.rest = some k ∧
      frameStream (handshake P s key w).1 (handshake P s key w).2.2 = w.rest.drop k := by
  obtain ⟨h1, _, _, _, _, h6, _⟩ := handshake_spec P h.1 s key w h.2
  obtain ⟨k, _, hk, _, _⟩ := outcome_nil (h1 ▸ hok)
  exact ⟨k, hk, (h6 hok).2.2.2.2 k hk⟩

/-- The session fields of the stream (everything except configuration and the capacity of the handshake buffer). -/
def session (s : St) : StState × Bool × Bool × Bytes × Bytes × Nat × Bool × Nat :=
  (s.state, s.conn, s.stream, s.src, s.dst, s.pending, s.asyncFlushing, s.flushWaiters)

/-- **A new handshake starts afresh.** `reset` (the first thing `Handshake`/`AsyncHandshake` do) puts every session
field back to the value a new stream has — whatever state, buffers, queued frames (`pendingFrames`, the defect
repaired by da0389d) or flush bookkeeping the previous session left — and the handshake buffer is whole again. -/
theorem C18_rehandshake_fresh (s : St) :
    session (reset s) = session St.new ∧ (reset s).hbLen = (reset s).hbCap ∧ (reset s).hbCap = s.hbCap := by
  exact ⟨rfl, rfl, rfl⟩

/-- … and so is the stream a handshake leaves behind: nothing queued, nothing in the write buffer, no flush in
flight, whatever came before. -/
theorem C18_handshake_leaves_nothing_stale (P : Params) (s : St) (key : String) (w : Wire) (h : Admissible P w) :
    (handshake P s key w).1.pending = 0 ∧ (handshake P s key w).1.dst = [] ∧
    (handshake P s key w).1.asyncFlushing = false ∧ (handshake P s key w).1.flushWaiters = 0 := by
  obtain ⟨_, h2, h3, h4, h5, _, _⟩ := handshake_spec P h.1 s key w h.2
  exact ⟨h2, h3, h4, h5⟩

theorem mem_fold_headers (extra : List (String × String)) :
    ∀ (hs : List (String × String)) (m : String × String), m ∈ hs → (∀ h ∈ extra, eqFold m.1 h.1 = false) →
      m ∈ extra.foldl (fun hs h => hs.filter (fun x => !eqFold x.1 h.1) ++ [h]) hs := by
  induction extra with
  | nil => intro hs m hm _; exact hm
  | cons h r ih =>
    intro hs m hm hne
    simp only [List.foldl_cons]
    apply ih
    · apply List.mem_append_left
      rw [List.mem_filter]
      exact ⟨hm, by rw [hne h (List.mem_cons_self ..)]; rfl⟩
    · intro h' hh'; exact hne h' (List.mem_cons_of_mem _ hh')

/-- The request carries the mandatory headers with the key that is later checked, plus the caller's headers
(provided they do not replace a mandatory one). -/
theorem C18_request_wellformed (host key : String) (extra : List (String × String))
    (hextra : ∀ h ∈ extra, ∀ m ∈ ["Host", "Upgrade", "Connection", "Sec-WebSocket-Key", "Sec-Websocket-Version"], eqFold m h.1 = false) :
    ∀ m ∈ [("Host", host), ("Upgrade", "websocket"), ("Connection", "upgrade"), ("Sec-WebSocket-Key", key),
            ("Sec-Websocket-Version", "13")], m ∈ requestHeaders host key extra := by
  intro m hm
  unfold requestHeaders
  apply mem_fold_headers extra _ m hm
  intro h hh
  simp only [List.mem_cons, List.not_mem_nil, or_false] at hm
  rcases hm with rfl | rfl | rfl | rfl | rfl
  · exact hextra h hh "Host" (by simp)
  · exact hextra h hh "Upgrade" (by simp)
  · exact hextra h hh "Connection" (by simp)
  · exact hextra h hh "Sec-WebSocket-Key" (by simp)
  · exact hextra h hh "Sec-Websocket-Version" (by simp)

/-- **The model is accepted by the monitor.** For every scripted handshake — any response, any cut of it into
writes, any close point, any previous state of the stream — whose head `http.ReadResponse` reads the way the
generator built it (`hcons`), what the model predicts is accepted by the monitor `hsOk`: active iff good
response, first frame = the piggy-backed bytes, otherwise error + terminated + released; nothing stale. -/
theorem C18_observation_accepted (P : Params) (s : St) (host key : String) (p : Plan) (h : Admissible P (wireOf p))
    (hreq : reqWellFormed (requestHeaders host key p.extra) host key p.extra = true)
    (hcons : ∀ k, headEnd (delivered p) = some k →
      match P.parse ((delivered p).take k) with
      | none => p.resp.parseOk = false
      | some r => goodRes P key r = p.resp.good)
    (hwait : headEnd (delivered p) = none → p.closeAt.isSome = true) :
    hsOk p (observe P s host key p).2 = true := by
  obtain ⟨h1, h2, _, _, _, h6, h7⟩ := handshake_spec P h.1 s key (wireOf p) h.2
  have hrest : (wireOf p).rest = delivered p := rfl
  have hclosed : (wireOf p).closed = p.closeAt.isSome := rfl
  rw [hrest, hclosed] at h1
  rw [hrest] at h6
  unfold hsOk observe
  simp only [hreq, h2, Bool.true_and, beq_self_eq_true]
  generalize hr : handshake P s key (wireOf p) = r at *
  cases hh : headEnd (delivered p) with
  | none =>
    simp only
    have he : r.2.1 = .eof := by rw [h1]; simp [outcome, hh, hwait hh]
    have hne : r.2.1 ≠ .nil := by rw [he]; simp
    obtain ⟨t1, t2⟩ := h7 hne
    simp [hne, t1, t2]
  | some k =>
    simp only
    have hc := hcons k hh
    cases hp : P.parse ((delivered p).take k) with
    | none =>
      rw [hp] at hc
      have hg : p.resp.good = false := by simp [Resp.good, hc]
      have he : r.2.1 = .malformed := by rw [h1]; simp [outcome, hh, hp]
      have hne : r.2.1 ≠ .nil := by rw [he]; simp
      obtain ⟨t1, t2⟩ := h7 hne
      rw [hg]
      simp [hne, t1, t2]
    | some res =>
      rw [hp] at hc
      cases hg : p.resp.good with
      | false =>
        have he : r.2.1 = .cannotUpgrade := by rw [h1]; simp [outcome, hh, hp, hc, hg]
        have hne : r.2.1 ≠ .nil := by rw [he]; simp
        obtain ⟨t1, t2⟩ := h7 hne
        simp [hne, t1, t2]
      | true =>
        have he : r.2.1 = .nil := by rw [h1]; simp [outcome, hh, hp, hc, hg]
        obtain ⟨t1, _, _, _, t5⟩ := h6 he
        simp [he, t1, t5 k hh]

/-! ## Non-vacuity -/

/-- The parameters used for replaying traces: a formal accept value and a fixed parse. -/
def demoParams (res : Option HttpResp) : Params :=
  { acceptOf := fun k => "accept(" ++ k ++ ")", parse := fun _ => res, grow := fun c => 2 * c + 1 }

def demoHead : Bytes := [72, 84, 84, 80, 13, 10, 13, 10]     -- "HTTP\r\n\r\n"
def demoGood : HttpResp := { status := 101, upgrade := some "WebSocket", accept := some "accept(k)" }

-- the hypotheses are satisfiable
example : Admissible (demoParams (some demoGood)) { rest := demoHead ++ [0x81, 0], closed := false, cuts := [3, 4] } :=
  ⟨fun c => by show c < 2 * c + 1; omega, by decide⟩

-- a good response cut inside the blank line, with a frame piggy-backed, on a stream that had a frame pending:
-- accepted, active, nothing stale, and the frame layer sees exactly the two frame bytes
example :
    let r := handshake (demoParams (some demoGood)) { St.new with pending := 1, state := .active, src := [1, 2, 3] } "k"
      { rest := demoHead ++ [0x81, 0], closed := false, cuts := [6, 1, 2] }
    (r.2.1, r.1.state, r.1.pending, frameStream r.1 r.2.2) = (.nil, .active, 0, [0x81, 0]) := by decide

-- status 200, a case-changed accept value, a missing Upgrade header, a truncated head: refused and terminated
example : (handshake (demoParams (some { demoGood with status := 200 })) St.new "k" { rest := demoHead, closed := false, cuts := [] }).2.1 = .cannotUpgrade := by decide
example : (handshake (demoParams (some { demoGood with accept := some "ACCEPT(K)" })) St.new "k" { rest := demoHead, closed := false, cuts := [] }).2.1 = .cannotUpgrade := by decide
example : (handshake (demoParams (some { demoGood with upgrade := none })) St.new "k" { rest := demoHead, closed := false, cuts := [] }).1.state = .terminated := by decide
example : (handshake (demoParams (some demoGood)) St.new "k" { rest := demoHead.take 7, closed := true, cuts := [2] }).2.1 = .eof := by decide

-- the monitor rejects a refused good response, an accepted bad one, a lost piggy-backed byte, a stale frame
def demoPlan (good : Bool) : Plan :=
  { async := false, head := demoHead, resp := { parseOk := true, status := if good then 101 else 200, upgrade := some "websocket", acceptOk := true },
    trail := [0x81, 1, 65], cuts := [], closeAt := none, extra := [] }
example : hsOk (demoPlan true) { reqOk := true, err := .nil, state := .active, pending := 0, peerClosed := false, frame := .ok true 1 [65], srvExtra := 0 } = true := by decide
example : hsOk (demoPlan true) { reqOk := true, err := .eof, state := .terminated, pending := 0, peerClosed := true, frame := .none, srvExtra := 0 } = false := by decide
example : hsOk (demoPlan false) { reqOk := true, err := .nil, state := .active, pending := 0, peerClosed := false, frame := .ok true 1 [65], srvExtra := 0 } = false := by decide
example : hsOk (demoPlan true) { reqOk := true, err := .nil, state := .active, pending := 0, peerClosed := false, frame := .ok true 1 [66], srvExtra := 0 } = false := by decide
example : hsOk (demoPlan true) { reqOk := true, err := .nil, state := .active, pending := 1, peerClosed := false, frame := .ok true 1 [65], srvExtra := 0 } = false := by decide

end Sonic.Props.C18
