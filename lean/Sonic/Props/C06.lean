/-
C06 — WebSocket message delivery fidelity under fragmentation / segmentation.

Model: `Sonic.Model.WsMsg` — the read path of `websocket.Stream` from transport bytes to delivered messages: the
byte-level decoder model of C07 (`FrameCodec.Decode` over the ByteBuffer), the `CodecConn.ReadNext/AsyncReadNext` loop,
`handleFrame` of the C08 stream model, and `NextFrame/AsyncNextFrame/NextMessage/asyncNextMessage` on top.
Spec: `Sonic.Spec.WsMessages` — sessions of a conforming peer at message level, their byte stream `wire`, and the
monitor over what the reader observes.

All theorems quantify over EVERY session that meets `InScope` (any number of text/binary messages, any fragmentation
into ≥ 1 fragments including empty ones, any Ping/Pong placement in front of any fragment and after the last message,
payloads up to the configured maximum and the caller's buffer), EVERY segmentation of its byte stream into transport
reads (`segs.flatten = wire s`: every split point, inside headers and length fields too, empty reads allowed), EVERY
capacity the Go runtime may give the read buffer (`rooms`; an inadmissible answer is the outcome `.error (.buf .env)`),
and both the blocking and the asynchronous variant.  Hypothesis `InitOk`: `2·max + 14 ≤ MaxInt64` and an initial buffer
capacity ≥ 14 (C07's hypothesis; `NewWebsocketStream` reserves 4096).
-/
import Sonic.Lemmas.WsMsgSession

set_option linter.unusedSimpArgs false

namespace Sonic.Props.C06
open Sonic.Model.WsBuf Sonic.Model.WsMsg Sonic.Spec.WsMessages Sonic.Lemmas.WsMsg
open Sonic.Spec.WsFrame (Frame encode)
open Sonic.Spec.WsStream (Err InFrame)

def InitOk (max : Nat) (cap : Int) : Prop := 2 * (max : Int) + 14 ≤ Go.I64MAX ∧ 14 ≤ cap ∧ cap ≤ Go.I64MAX
instance (max : Nat) (cap : Int) : Decidable (InitOk max cap) := by unfold InitOk; exact inferInstance

/-- One reader of the harness: a fresh stream (maximum `max`, read buffer of capacity `cap`) over a transport that
holds the segments `segs`; the API is called until it reports an error (at most `k` times). -/
def reader (api : Api) (async : Bool) (max buf : Nat) (cap : Int) (segs : List (List UInt8)) (rooms : List Int) (k : Nat) :
    X Obs :=
  (observe api async buf k (W.init max cap segs rooms)).map (·.1)

/-- What the message API must report for a session: every message once, in order, with its type, its payload, the
payload's length, and the control frames sent with it; then "no more data" (with the trailing control frames). -/
def expectMsgs (s : Session) : List MsgOut :=
  s.msgs.map (fun m => { err := .nil, ty := m.ty, n := m.payload.length, data := m.payload, clean := true, ctl := ctlSeen m.ctls })
    ++ [{ err := .nodata, ty := 255, n := 0, data := [], clean := true, ctl := ctlSeen s.tail }]

/-- What the frame API must report: every frame once, in order; then "no more data". -/
def expectFrames (s : Session) : List FrameOut :=
  s.frames.map (fun f => { err := .nil, f := some (inFrameOf f) }) ++ [{ err := .nodata, f := none }]

theorem expectMsgs_ok : ∀ (msgs : List Sent) (tail : List Ctl), msgsOk msgs tail (expectMsgs { msgs := msgs, tail := tail }) = true
  | [], tail => by simp [expectMsgs, msgsOk]
  | m :: ms, tail => by
    have := expectMsgs_ok ms tail
    simp only [expectMsgs, List.map_cons, List.cons_append, msgsOk, msgOk] at this ⊢
    simp [this]

theorem framesOk_expect : ∀ (fs : List Frame),
    framesOk fs (fs.map (fun f => ({ err := .nil, f := some (inFrameOf f) } : FrameOut)) ++ [{ err := .nodata, f := none }]) = true
  | [] => by simp [framesOk]
  | f :: fs => by
    have := framesOk_expect fs
    simp only [List.map_cons, List.cons_append, framesOk]
    simp [this]

theorem map_delivered (s : Session) : (delivered s).map msgOutOf = expectMsgs s := by
  unfold delivered expectMsgs
  simp [msgOutOf, asmOf, asmEnd, Function.comp_def]

/-- **Delivery through the message API.**  For every in-scope session, every segmentation of its byte stream and every
runtime answer, `NextMessage` (async = false) and `AsyncNextMessage` (async = true), called until they report an error,
deliver exactly the messages: each once, in order, with the same type, a byte-identical payload and `n` = payload
length, the control callback having received exactly the control frames sent with each message; then the transport has
nothing more.  (The only other outcome is an inadmissible capacity answer of the environment.) -/
theorem C06_delivery (max buf : Nat) (cap : Int) (hinit : InitOk max cap) (s : Session) (hs : InScope max buf s)
    (segs : List (List UInt8)) (hseg : segs.flatten = wire s) (rooms : List Int) (async : Bool) (k : Nat)
    (hk : s.msgs.length + 1 ≤ k) :
    reader .msg async max buf cap segs rooms k = .error (.buf .env) ∨
    reader .msg async max buf cap segs rooms k = .ok (.msgs (expectMsgs s)) := by
  obtain ⟨hS, hmx, hrem⟩ := init_inv max cap segs rooms hinit
  obtain ⟨msgs, tail⟩ := s
  rcases runMsgs_session async buf msgs tail k _ hS (by rw [hmx]; exact hs) (by rw [hrem]; exact hseg) hk with he | ⟨w', h'⟩
  · left; unfold reader observe; rw [he]; rfl
  · right; unfold reader observe; rw [h']
    show Except.ok (Obs.msgs ((delivered { msgs := msgs, tail := tail }).map msgOutOf)) = _
    rw [map_delivered]

/-- **Delivery through the frame API.**  `NextFrame` / `AsyncNextFrame` deliver exactly the frame list of the session
(the fragments with their opcodes and FIN bits, the Ping and Pong frames), each once, in order, byte-identical payloads;
then nothing more. -/
theorem C06_frame_api (max buf : Nat) (cap : Int) (hinit : InitOk max cap) (s : Session) (hs : InScope max buf s)
    (segs : List (List UInt8)) (hseg : segs.flatten = wire s) (rooms : List Int) (async : Bool) (k : Nat)
    (hk : s.frames.length + 1 ≤ k) :
    reader .frame async max buf cap segs rooms k = .error (.buf .env) ∨
    reader .frame async max buf cap segs rooms k = .ok (.frames (expectFrames s)) := by
  obtain ⟨hS, hmx, hrem⟩ := init_inv max cap segs rooms hinit
  rcases runFrames_frames async s.frames k _ hS (by rw [hmx]; exact session_frames_ok hs) (by rw [hrem]; exact hseg) hk with he | ⟨w', h'⟩
  · left; unfold reader observe; rw [he]; rfl
  · right; unfold reader observe; rw [h']
    show Except.ok (Obs.frames ((s.frames.map (fun f => (Err.nil, some (inFrameOf f))) ++ [(Err.nodata, none)]).map frameOutOf)) = _
    simp [expectFrames, frameOutOf, Function.comp_def]

/-- **The monitor accepts** what the model's readers observe (all four of them), for every in-scope session, every
segmentation, every arrival schedule `pre` and every runtime answer. -/
theorem C06_monitor_accepts (max buf : Nat) (cap : Int) (hinit : InitOk max cap) (s : Session) (hs : InScope max buf s)
    (segs : List (List UInt8)) (hseg : segs.flatten = wire s) (rooms : List Int) (api : Api) (async : Bool) (pre : Option Nat)
    (ob : Obs) (hrun : reader api async max buf cap segs rooms (s.frames.length + 3) = .ok ob) :
    step { max := max, buf := buf, sess := s } (.read api async pre) ob = some { max := max, buf := buf, sess := s } := by
  have hfm := msgs_le_frames hs
  cases api with
  | msg =>
    rcases C06_delivery max buf cap hinit s hs segs hseg rooms async (s.frames.length + 3) (by omega) with he | h
    · rw [he] at hrun; cases hrun
    · rw [h] at hrun; cases hrun
      simp only [step, hs, if_true]
      obtain ⟨msgs, tail⟩ := s
      rw [expectMsgs_ok]; rfl
  | frame =>
    rcases C06_frame_api max buf cap hinit s hs segs hseg rooms async (s.frames.length + 3) (by omega) with he | h
    · rw [he] at hrun; cases hrun
    · rw [h] at hrun; cases hrun
      simp only [step, hs, if_true]
      unfold expectFrames
      rw [framesOk_expect]; rfl

/-- **Blocking and asynchronous variants agree, and the segmentation does not matter**: two runs of the same API over
the same session — one blocking, one asynchronous or both alike; the byte stream cut differently; different buffer
capacities and runtime answers — observe the same sequence. -/
theorem C06_sync_async_agree (max buf : Nat) (cap₁ cap₂ : Int) (h₁ : InitOk max cap₁) (h₂ : InitOk max cap₂) (s : Session)
    (hs : InScope max buf s) (segs₁ segs₂ : List (List UInt8)) (hseg₁ : segs₁.flatten = wire s) (hseg₂ : segs₂.flatten = wire s)
    (rooms₁ rooms₂ : List Int) (api : Api) (async₁ async₂ : Bool) (ob₁ ob₂ : Obs)
    (hrun₁ : reader api async₁ max buf cap₁ segs₁ rooms₁ (s.frames.length + 3) = .ok ob₁)
    (hrun₂ : reader api async₂ max buf cap₂ segs₂ rooms₂ (s.frames.length + 3) = .ok ob₂) : ob₁ = ob₂ := by
  have hfm := msgs_le_frames hs
  cases api with
  | frame =>
    rcases C06_frame_api max buf cap₁ h₁ s hs segs₁ hseg₁ rooms₁ async₁ (s.frames.length + 3) (by omega) with he | e1
    · rw [he] at hrun₁; cases hrun₁
    rcases C06_frame_api max buf cap₂ h₂ s hs segs₂ hseg₂ rooms₂ async₂ (s.frames.length + 3) (by omega) with he | e2
    · rw [he] at hrun₂; cases hrun₂
    rw [e1] at hrun₁; rw [e2] at hrun₂; cases hrun₁; cases hrun₂; rfl
  | msg =>
    have hk : s.msgs.length + 1 ≤ s.frames.length + 3 := by omega
    rcases C06_delivery max buf cap₁ h₁ s hs segs₁ hseg₁ rooms₁ async₁ _ hk with he | e1
    · rw [he] at hrun₁; cases hrun₁
    rcases C06_delivery max buf cap₂ h₂ s hs segs₂ hseg₂ rooms₂ async₂ _ hk with he | e2
    · rw [he] at hrun₂; cases hrun₂
    rw [e1] at hrun₁; rw [e2] at hrun₂; cases hrun₁; cases hrun₂; rfl

/-- **Segmentation independence** (the special case of the previous theorem with the same API variant). -/
theorem C06_segmentation_independent (max buf : Nat) (cap : Int) (h : InitOk max cap) (s : Session) (hs : InScope max buf s)
    (segs₁ segs₂ : List (List UInt8)) (hseg₁ : segs₁.flatten = wire s) (hseg₂ : segs₂.flatten = wire s)
    (rooms₁ rooms₂ : List Int) (api : Api) (async : Bool) (ob₁ ob₂ : Obs)
    (hrun₁ : reader api async max buf cap segs₁ rooms₁ (s.frames.length + 3) = .ok ob₁)
    (hrun₂ : reader api async max buf cap segs₂ rooms₂ (s.frames.length + 3) = .ok ob₂) : ob₁ = ob₂ :=
  C06_sync_async_agree max buf cap cap h h s hs segs₁ segs₂ hseg₁ hseg₂ rooms₁ rooms₂ api async async ob₁ ob₂ hrun₁ hrun₂

/-- **Frame API and message API agree**: reassembling (RFC 6455 5.4: skip control frames, a data frame starts a message,
FIN ends it) the frames that NextFrame/AsyncNextFrame deliver for a session gives exactly the (type, payload) sequence that
NextMessage/AsyncNextMessage deliver for it — whatever the segmentations, the variants and the runtime answers of the
two runs. -/
theorem C06_frame_message_consistent (max buf : Nat) (cap₁ cap₂ : Int) (h₁ : InitOk max cap₁) (h₂ : InitOk max cap₂) (s : Session)
    (hs : InScope max buf s) (segs₁ segs₂ : List (List UInt8)) (hseg₁ : segs₁.flatten = wire s) (hseg₂ : segs₂.flatten = wire s)
    (rooms₁ rooms₂ : List Int) (async₁ async₂ : Bool) (lf : List FrameOut) (lm : List MsgOut)
    (hrun₁ : reader .frame async₁ max buf cap₁ segs₁ rooms₁ (s.frames.length + 3) = .ok (.frames lf))
    (hrun₂ : reader .msg async₂ max buf cap₂ segs₂ rooms₂ (s.frames.length + 3) = .ok (.msgs lm)) :
    assemble (lf.filterMap (·.f)) none = (lm.filter (·.err == .nil)).map (fun o => (o.ty, o.data)) := by
  have hfm := msgs_le_frames hs
  rcases C06_frame_api max buf cap₁ h₁ s hs segs₁ hseg₁ rooms₁ async₁ (s.frames.length + 3) (by omega) with he | e1
  · rw [he] at hrun₁; cases hrun₁
  rcases C06_delivery max buf cap₂ h₂ s hs segs₂ hseg₂ rooms₂ async₂ (s.frames.length + 3) (by omega) with he | e2
  · rw [he] at hrun₂; cases hrun₂
  rw [e1] at hrun₁; rw [e2] at hrun₂; cases hrun₁; cases hrun₂
  have hl : (expectFrames s).filterMap (·.f) = s.frames.map inFrameOf := by
    unfold expectFrames
    simp [List.filterMap_append, List.filterMap_map, Function.comp_def]
  have hr : ((expectMsgs s).filter (·.err == .nil)).map (fun o => (o.ty, o.data)) = s.msgs.map fun m => (m.ty, m.payload) := by
    unfold expectMsgs
    simp [List.filter_append, List.filter_map, Function.comp_def]
    congr 1
    exact List.filter_eq_self.mpr (fun _ _ => rfl)
  rw [hl, hr]
  obtain ⟨msgs, tail⟩ := s
  exact assemble_session msgs tail hs

theorem flatMap_ctl_expect (s : Session) :
    (expectMsgs s).flatMap (·.ctl) = ctlSeen (s.msgs.flatMap Sent.ctls ++ s.tail) := by
  obtain ⟨msgs, tail⟩ := s
  unfold expectMsgs
  simp only [List.flatMap_append, List.flatMap_cons, List.flatMap_nil, List.append_nil, ctlSeen, List.map_append]
  congr 1
  induction msgs with
  | nil => rfl
  | cons m ms ih => simp only [List.map_cons, List.flatMap_cons, List.map_append, ih]

/-- **The control callback** is invoked once per control frame, in the order sent, with the frame's opcode and payload:
over the whole read sequence of the message API (blocking or asynchronous, any segmentation) the callback log is exactly
the list of the Ping/Pong frames of the session — those in front of and between the fragments of every message, then
those after the last message. (That each call's log holds the frames sent with *its* message is part of `C06_delivery`.) -/
theorem C06_control_callback (max buf : Nat) (cap : Int) (hinit : InitOk max cap) (s : Session) (hs : InScope max buf s)
    (segs : List (List UInt8)) (hseg : segs.flatten = wire s) (rooms : List Int) (async : Bool) (l : List MsgOut)
    (hrun : reader .msg async max buf cap segs rooms (s.frames.length + 3) = .ok (.msgs l)) :
    l.flatMap (·.ctl) = ctlSeen (s.msgs.flatMap Sent.ctls ++ s.tail) := by
  have hfm := msgs_le_frames hs
  rcases C06_delivery max buf cap hinit s hs segs hseg rooms async (s.frames.length + 3) (by omega) with he | h
  · rw [he] at hrun; cases hrun
  · rw [h] at hrun; cases hrun
    exact flatMap_ctl_expect s

/-! ## Non-vacuity -/

def okOf (r : X Obs) : Option Obs := match r with | .ok o => some o | .error _ => none


def exCtl : Ctl := { op := 9, payload := [0xaa] }

/-- "Hel" + Ping(aa) + "lo" + empty final fragment (text), then a binary message in one fragment, then a trailing Pong. -/
def exSession : Session :=
  { msgs := [{ ty := 1, parts := [([], [0x48, 0x65, 0x6c]), ([exCtl], [0x6c, 0x6f]), ([], [])] },
             { ty := 2, parts := [([], [1, 2, 3])] }],
    tail := [{ op := 10, payload := [] }] }

example : InScope 16 5 exSession := by decide
example : InitOk 16 4096 := by decide

example : wire exSession =
    [0x01, 0x03, 0x48, 0x65, 0x6c, 0x89, 0x01, 0xaa, 0x00, 0x02, 0x6c, 0x6f, 0x80, 0x00, 0x82, 0x03, 1, 2, 3, 0x8a, 0x00] := by decide

/-- A segmentation that cuts inside the first header, inside the Ping and inside the binary frame's header. -/
def exSegs : List (List UInt8) :=
  [[0x01], [0x03, 0x48, 0x65, 0x6c, 0x89, 0x01], [0xaa, 0x00, 0x02, 0x6c, 0x6f, 0x80, 0x00, 0x82], [0x03, 1, 2, 3, 0x8a, 0x00]]

example : exSegs.flatten = wire exSession := by decide

/-- The model's blocking message reader on that segmentation: both messages, then "no data". -/
example : okOf (reader .msg false 16 5 4096 exSegs [] 8) = some (.msgs (expectMsgs exSession)) := by decide

example : expectMsgs exSession =
    [{ err := .nil, ty := 1, n := 5, data := [0x48, 0x65, 0x6c, 0x6c, 0x6f], clean := true, ctl := [(9, [0xaa])] },
     { err := .nil, ty := 2, n := 3, data := [1, 2, 3], clean := true, ctl := [] },
     { err := .nodata, ty := 255, n := 0, data := [], clean := true, ctl := [(10, [])] }] := by decide

/-- The asynchronous frame reader, byte by byte. -/
example : okOf (reader .frame true 16 5 4096 ((wire exSession).map fun b => [b]) [] 10) = some (.frames (expectFrames exSession)) := by decide

/-- The monitor is not trivial: it rejects a dropped fragment, a wrong type, a wrong length, a message delivered twice,
a missing control callback, and a control frame's payload delivered as data. -/
def exS : S := { max := 16, buf := 5, sess := exSession }
def good : List MsgOut := expectMsgs exSession

example : step exS (.read .msg false none) (.msgs good) = some exS := by decide
example : step exS (.read .msg true (some 1)) (.msgs good) = some exS := by decide
example : step exS (.read .msg false none)
    (.msgs [{ err := .nil, ty := 1, n := 3, data := [0x48, 0x65, 0x6c], clean := true, ctl := [(9, [0xaa])] },
            { err := .nil, ty := 2, n := 3, data := [1, 2, 3], clean := true, ctl := [] },
            { err := .nodata, ty := 255, n := 0, data := [], clean := true, ctl := [(10, [])] }]) = none := by decide
example : step exS (.read .msg false none)
    (.msgs [{ err := .nil, ty := 2, n := 5, data := [0x48, 0x65, 0x6c, 0x6c, 0x6f], clean := true, ctl := [(9, [0xaa])] },
            { err := .nil, ty := 2, n := 3, data := [1, 2, 3], clean := true, ctl := [] },
            { err := .nodata, ty := 255, n := 0, data := [], clean := true, ctl := [(10, [])] }]) = none := by decide
example : step exS (.read .msg true none)
    (.msgs [{ err := .nil, ty := 1, n := 4, data := [0x48, 0x65, 0x6c, 0x6c, 0x6f], clean := true, ctl := [(9, [0xaa])] },
            { err := .nil, ty := 2, n := 3, data := [1, 2, 3], clean := true, ctl := [] },
            { err := .nodata, ty := 255, n := 0, data := [], clean := true, ctl := [(10, [])] }]) = none := by decide
example : step exS (.read .msg false none) (.msgs (good.take 1 ++ good)) = none := by decide
example : step exS (.read .msg false none)
    (.msgs [{ err := .nil, ty := 1, n := 5, data := [0x48, 0x65, 0x6c, 0x6c, 0x6f], clean := true, ctl := [] },
            { err := .nil, ty := 2, n := 3, data := [1, 2, 3], clean := true, ctl := [] },
            { err := .nodata, ty := 255, n := 0, data := [], clean := true, ctl := [(10, [])] }]) = none := by decide
example : step exS (.read .msg false none)
    (.msgs [{ err := .nil, ty := 1, n := 6, data := [0x48, 0x65, 0x6c, 0xaa, 0x6c, 0x6f], clean := true, ctl := [(9, [0xaa])] },
            { err := .nil, ty := 2, n := 3, data := [1, 2, 3], clean := true, ctl := [] },
            { err := .nodata, ty := 255, n := 0, data := [], clean := true, ctl := [(10, [])] }]) = none := by decide
example : step exS (.read .frame false none) (.frames ((expectFrames exSession).drop 1)) = none := by decide
example : step exS (.read .frame true none) (.frames (expectFrames exSession)) = some exS := by decide

/-- **The scripted segmentation loses nothing**: for every list of `cut` lengths (a cut of 0 queues an empty segment: a transport
read that completes with no bytes and no error) the segments the harness feeds, concatenated, are the byte stream. So the
hypothesis `segs.flatten = wire s` of the theorems above holds for every segmentation tie D executes, empty reads included. -/
theorem C06_segments_flatten (cuts : List Nat) (bs : List UInt8) : (segments cuts bs).flatten = bs := by
  induction cuts generalizing bs with
  | nil =>
    unfold segments
    split <;> simp_all
  | cons n r ih =>
    unfold segments
    split
    · simp [ih]
    · split
      · exact ih bs
      · simp [ih, List.take_append_drop]

example : segments [1, 0, 2] [10, 20, 30, 40] = [[10], [], [20, 30], [40]] := by decide

end Sonic.Props.C06
