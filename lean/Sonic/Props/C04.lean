/-
C04 — Timer guarantees: never early, at most once, never after cancel (the state-machine part, on the loop model).

`timer.go` / `internal/timer_linux.go` are modelled inside `Sonic.Model.Loop`: state ∈ {ready, scheduled, closed},
the `cancelled` flag, the read interest of the timer slot, the continuation that re-arms a repeating schedule.
Proved: the interest is registered exactly while the state is `scheduled` (so `Scheduled()` tells whether a
callback is still due); scheduling while scheduled or closed fails and changes nothing; a firing clears the
interest before the callback runs and a one-shot schedule is not re-armed; a successful `Cancel` leaves no interest
and stops a repeating schedule even from inside its own callback; a closed timer stays closed.  "Never before the
delay" and "fires once the delay has passed" are `timerfd` behaviour: checked on the real loop (monotonic clock
at the scheduling call vs. callback entry; drain phase), not proven.
-/
import Sonic.Lemmas.LoopTimer
import Sonic.Props.Ledger

namespace Sonic.Props.C04
open Sonic.Model.Loop
open Sonic.Spec.Loop (Ev Ret Res OpKind ObjKind maxDispatch)

theorem run_timer (w w' : World) (evs : List Ev) (hI : TimerInv w) (h : run w evs = some w') : TimerInv w' := by
  induction evs generalizing w with
  | nil => simp only [run] at h; cases h; exact hI
  | cons e r ih =>
    simp only [run] at h
    cases hs : step w e with
    | none => simp [hs] at h
    | some w1 => simp only [hs] at h; exact ih w1 (step_timer w w1 e hI hs) h

/-- **Scheduled() ↔ a callback is still due.** In every reachable state, for every timer, the read interest (the
only thing that can make the poller run the timer's callback) is registered exactly when the state is `scheduled`. -/
theorem C04_scheduled_flag (evs : List Ev) (w : World) (h : run {} evs = some w) (o : Obj) (hm : o ∈ w.objs)
    (hk : o.kind = .timer) : o.evR = (o.tstate == .scheduled) ∧ o.evW = false :=
  (run_timer {} w evs (fun _ hm => by cases hm) h) o hm hk

/-- **A timer holds at most one schedule; a closed timer cannot be revived.** `Schedule*` on a timer that is not
`ready` (scheduled or closed) can only return an error, and leaves every object, the pending count and the post
queue unchanged. -/
theorem C04_single_schedule (w w' : World) (op k : Nat) (rep : Bool) (ticks : Int) (rest : List K) (isNil : Bool) (o : Obj)
    (hst : w.stack = .schedCall op k rep ticks false :: rest) (hg : getObj w k = some o) (hns : o.tstate ≠ .ready)
    (hs : step w (.ret (.err isNil)) = some w') :
    isNil = false ∧ w'.objs = w.objs ∧ w'.pending = w.pending ∧ w'.posts = w.posts := by
  unfold step at hs
  simp only [hst, hg] at hs
  have h1 : (o.tstate != TState.ready) = true := by simpa using hns
  simp only [Bool.false_eq_true, if_false, h1, Bool.or_true, if_true] at hs
  split at hs
  · cases hs
  · rename_i hn; cases hs; exact ⟨by simpa using hn, rfl, rfl, rfl⟩

/-- The inline (zero-delay) path is closed to a timer that is not ready, too. -/
theorem C04_no_inline_unless_ready (w : World) (op k : Nat) (rep : Bool) (ticks : Int) (rest : List K) (o : Obj)
    (op' : Nat) (res : Res) (n : Int) (data : List UInt8) (early : Bool)
    (hst : w.stack = .schedCall op k rep ticks false :: rest) (hg : getObj w k = some o) (hns : o.tstate ≠ .ready) :
    step w (.enter op' res n data early) = none := by
  unfold step
  simp only [hst, hg]
  have h1 : (o.tstate == TState.ready) = false := by simpa using hns
  simp [h1]

/-- **Never after a successful Cancel.** `Cancel` on an open timer removes the interest, makes the timer ready and
records the cancellation (which stops a repeating schedule whose callback is running). -/
theorem C04_cancel_disarms (w w' : World) (k : Nat) (rest : List K) (isNil : Bool) (o : Obj)
    (hst : w.stack = .tcancelCall k :: rest) (hg : getObj w k = some o) (hopen : o.tstate ≠ .closed)
    (hs : step w (.ret (.err isNil)) = some w') :
    ∃ o', getObj w' k = some o' ∧ o'.evR = false ∧ o'.tstate = .ready ∧ o'.cancelled = true := by
  have hid := getObj_id hg
  unfold step at hs
  simp only [hst, hg] at hs
  have h1 : (o.tstate == TState.closed) = false := by simpa using hopen
  split at hs
  · cases hs
  · simp only [h1, Bool.false_eq_true, if_false] at hs
    cases hs
    refine ⟨{ o with evR := false, cancelled := true, cancels := o.cancels + 1, tstate := .ready }, ?_, rfl, rfl, rfl⟩
    rw [← hid]
    exact getObj_setObj_self _ o _ (by rw [hid]; exact hg) rfl

/-- `Cancel` on a closed timer changes nothing: closed is final. -/
theorem C04_cancel_on_closed_is_noop (w w' : World) (k : Nat) (rest : List K) (isNil : Bool) (o : Obj)
    (hst : w.stack = .tcancelCall k :: rest) (hg : getObj w k = some o) (hcl : o.tstate = .closed)
    (hs : step w (.ret (.err isNil)) = some w') : w'.objs = w.objs ∧ w'.pending = w.pending := by
  unfold step at hs
  simp only [hst, hg, hcl] at hs
  split at hs
  · cases hs
  · cases hs; exact ⟨rfl, rfl⟩

/-- **At most once per schedule.** When the poller fires a timer it clears the interest and the `scheduled` state
before the callback runs, so the same schedule cannot fire again … -/
theorem C04_fire_disarms (w w' : World) (op : Nat) (rest : List K) (info : OpInfo) (o : Obj)
    (hop : getOp w op = some info) (ht : info.kind.isTimer = true) (hg : getObj w info.obj = some o)
    (h : pollDispatch w op rest = some w') :
    ∃ o', getObj w' info.obj = some o' ∧ o'.evR = false ∧ o'.tstate = .ready := by
  have hid := getObj_id hg
  unfold pollDispatch at h
  simp only [hop, hg, ht] at h
  have hp : (info.kind == OpKind.post) = false := by
    cases hk : info.kind <;> simp [hk, OpKind.isTimer] at ht ⊢
  simp only [hp, Bool.false_eq_true, if_false, if_true] at h
  split at h
  · cases h
    refine ⟨{ o with evR := false, tstate := .ready }, ?_, rfl, rfl⟩
    rw [← hid]
    exact getObj_setObj_self _ o _ (show getObj { w with pending := w.pending - 1 } o.id = some o by rw [hid]; exact hg) rfl
  · cases h

/-- A firing notes the number of successful Cancels so far in the continuation of the callback (`cancelsBefore :=
t.cancels` in the wrapper of a repeating schedule) and leaves the counter itself alone — also when the firing is that of
another schedule of the same timer in a poll nested inside the repeating callback, so a Cancel during the outer callback
is not forgotten (an earlier version of this model, with a flag instead of the counter, diverged from `timer.go` there:
found while deriving the ledger, confirmed on the real loop, kept as corpus scripts). -/
theorem C04_fire_keeps_cancel_count (w w' : World) (op : Nat) (rest : List K) (info : OpInfo) (o : Obj)
    (hop : getOp w op = some info) (ht : info.kind.isTimer = true) (hg : getObj w info.obj = some o)
    (h : pollDispatch w op rest = some w') :
    (∃ o', getObj w' info.obj = some o' ∧ o'.cancels = o.cancels) ∧
    w'.stack = .user op (.timerDone o.id (info.kind == .timerRep) o.cancels) :: .pollCall true :: rest := by
  have hid := getObj_id hg
  unfold pollDispatch at h
  simp only [hop, hg, ht] at h
  have hp : (info.kind == OpKind.post) = false := by
    cases hk : info.kind <;> simp [hk, OpKind.isTimer] at ht ⊢
  simp only [hp, Bool.false_eq_true, if_false, if_true] at h
  split at h
  · cases h
    refine ⟨⟨{ o with evR := false, tstate := .ready }, ?_, rfl⟩, rfl⟩
    rw [← hid]
    exact getObj_setObj_self _ o _ (show getObj { w with pending := w.pending - 1 } o.id = some o by rw [hid]; exact hg) rfl
  · cases h

/-- … and after the callback of a one-shot schedule returns nothing is re-armed. -/
theorem C04_once_not_rearmed (w : World) (op k cb : Nat) : applyAfter w op (.timerDone k false cb) = w := by
  simp only [applyAfter]
  cases getObj w k <;> simp

/-- **Cancelled from inside its own callback, a repeating schedule stops** — also when the callback went on to
schedule something else after the Cancel (which clears `cancelled`; the defect repaired by 313bd86): a successful
Cancel since the callback started (the counter moved) is enough. -/
theorem C04_cancel_inside_own_callback_stops (w : World) (op k cb : Nat) (o : Obj) (hg : getObj w k = some o)
    (hk : o.kind = .timer) (hc : o.cancelled = true ∨ o.cancels ≠ cb) :
    applyAfter w op (.timerDone k true cb) = setObj w { o with cancelled := false } := by
  rcases hc with hc | hc <;> simp [applyAfter, hg, hk, hc]

/-- `Cancel` moves the counter: every repeating callback of this timer that is running (however deeply nested) sees it. -/
theorem C04_cancel_marks_running_repeat (w w' : World) (k : Nat) (rest : List K) (isNil : Bool) (o : Obj)
    (hst : w.stack = .tcancelCall k :: rest) (hg : getObj w k = some o) (hopen : o.tstate ≠ .closed)
    (hs : step w (.ret (.err isNil)) = some w') :
    ∃ o', getObj w' k = some o' ∧ o'.cancels = o.cancels + 1 := by
  have hid := getObj_id hg
  unfold step at hs
  simp only [hst, hg] at hs
  have h1 : (o.tstate == TState.closed) = false := by simpa using hopen
  split at hs
  · cases hs
  · simp only [h1, Bool.false_eq_true, if_false] at hs
    cases hs
    refine ⟨{ o with evR := false, cancelled := true, cancels := o.cancels + 1, tstate := .ready }, ?_, rfl⟩
    rw [← hid]
    exact getObj_setObj_self _ o _ (by rw [hid]; exact hg) rfl

/-- A repeating schedule whose timer was closed (or re-scheduled) from inside its callback is not re-armed either. -/
theorem C04_closed_inside_own_callback_stops (w : World) (op k cb : Nat) (o : Obj) (hg : getObj w k = some o)
    (hc : o.cancelled = false) (hcr : o.cancels = cb) (hs : o.tstate ≠ .ready) :
    applyAfter w op (.timerDone k true cb) = w := by
  have h1 : (o.tstate == TState.ready) = false := by simpa using hs
  simp only [applyAfter, hg, hc, hcr, h1]
  simp

/-- Otherwise the repeating schedule continues: the timer is armed again for the same operation. -/
theorem C04_repeating_continues (w : World) (op k cb : Nat) (o : Obj) (hg : getObj w k = some o) (hk : o.kind = .timer)
    (hc : o.cancelled = false) (hcr : o.cancels = cb) (hs : o.tstate = .ready) :
    applyAfter w op (.timerDone k true cb) = armTimer w o op true := by
  simp [applyAfter, hg, hk, hc, hcr, hs]

/-! ### At the API level (the ledger of `Sonic.Spec.Ledger`, which every history of the model satisfies) -/

/-- **Never after a successful Cancel / Close, for every history.** Every history of the model is accepted by the API-level
ledger (`Sonic.Props.Ledger.ledger_accepts_model`), which admits a callback only for an operation it owes; and when a
timer's `Cancel` (or `Close`) returns successfully the ledger owes no schedule of that timer any more — so a timer callback
entered later belongs to a schedule made after the Cancel. -/
theorem C04_cancel_clears_ledger (l l' : Sonic.Spec.Ledger.L) (k : Nat) (rest : List Sonic.Spec.Ledger.LFrame)
    (hst : l.stack = .tcancel k :: rest) (h : Sonic.Spec.Ledger.step l (.ret (.err true)) = some l') :
    ∀ r ∈ l'.owed, Sonic.Spec.Ledger.timerOn k r = false := by
  simp only [Sonic.Spec.Ledger.step, hst] at h
  have h' := Option.some.inj h
  rw [← h']
  intro r hr
  simp only [beq_self_eq_true, if_true, List.mem_filter, Bool.not_eq_true'] at hr
  exact hr.2

theorem C04_close_clears_ledger (l l' : Sonic.Spec.Ledger.L) (k : Nat) (rest : List Sonic.Spec.Ledger.LFrame)
    (hst : l.stack = .close k :: rest) (h : Sonic.Spec.Ledger.step l (.ret (.err true)) = some l') :
    ∀ r ∈ l'.owed, Sonic.Spec.Ledger.timerOn k r = false := by
  simp only [Sonic.Spec.Ledger.step, hst] at h
  have h' := Option.some.inj h
  rw [← h']
  intro r hr
  simp only [beq_self_eq_true, if_true, List.mem_filter, Bool.not_eq_true', Bool.and_eq_false_imp] at hr
  unfold Sonic.Spec.Ledger.timerOn
  cases hk : (r.obj == k) with
  | false => rfl
  | true =>
    have := hr.2 hk
    simp only [bne_eq_false_iff_eq] at this
    rw [this]; rfl

/-- The model's histories are accepted by that ledger (documented usage). -/
theorem C04_ledger_accepts_model (evs : List Ev) (w : World) (h : run {} evs = some w) (hU : Sonic.Spec.Ledger.UsageOk {} evs) :
    Sonic.Spec.Ledger.accepts evs = true :=
  Sonic.Props.Ledger.ledger_accepts_model evs w h hU

/-! Non-vacuity: schedule, fire, re-schedule while scheduled fails, cancel, close, cancel-after-close, schedule fails. -/
example : ∃ w, run {} [.obj 1 .timer, .callSched 11 1 false 2, .ret (.err true), .callSched 12 1 false 2, .ret (.err false),
                       .callScheduled 1, .ret (.bool true), .callPoll, .enter 11 .timer 0 [] false, .exit 11, .ret (.poll 1 .ok),
                       .callScheduled 1, .ret (.bool false), .callSched 13 1 true 1, .ret (.err true),
                       .callTCancel 1, .ret (.err true), .callClose 1, .ret (.err true), .callTCancel 1, .ret (.err true),
                       .callSched 14 1 false 0, .ret (.err false)] = some w ∧ w.pending = 0 := ⟨_, rfl, by decide⟩

end Sonic.Props.C04
