/-
C01 / C03 — the loop model refines the API-level ledger of operations in flight.

`Sonic.Spec.Ledger` is a shadow ledger over the events a user of the library can see (calls, callback entries and
returns), with no knowledge of epoll, slots, interest bits or `poller.pending`.  The theorems below say that **every
history the loop model can produce is accepted by that ledger**, for all objects, operations, poll batches, handler
behaviours (re-issue, cancel, close, re-arm, nested polls) and lengths — by a coupling invariant between model states
and ledger states (`Lemmas/LoopLedgerSim.lean: step_sim`) and induction over the history:

* C01: a completion callback is entered only inline in its own starting call or for an operation the ledger owes — so
  never twice, never after Close, never after a successful Cancel, never for a schedule that was cancelled or replaced;
* C03: whenever no handler is executing, the `Pending()` the model reports equals the number of owed operations and
  `Posted()` the number of owed posts — counting nothing that completed inline, was cancelled, was closed, or failed
  to register.

Hypothesis `UsageOk`: the documented usage (no second operation of the same direction is started on an object while
one is in flight).  Together with the correspondence check (every trace of the real loop is a history of the model) this
carries both clauses over to the implementation.
-/
import Sonic.Lemmas.LoopLedgerSim
import Sonic.Lemmas.LoopAcct

namespace Sonic.Props.Ledger
open Sonic.Model.Loop
open Sonic.Spec.Loop (Ev Ret Res OpKind ObjKind)
open Sonic.Spec.Ledger (L LFrame Rec UsageOk)

abbrev lrun := Sonic.Spec.Ledger.run

theorem sim_init : Sim ({} : World) ({} : L) := ⟨List.Perm.refl _, trivial⟩

theorem linv_init : LInv ({} : World) := ⟨(fun o ho => by cases ho), (fun p hp => by cases hp), (fun f hf => by cases hf)⟩

theorem timer_init : TimerInv ({} : World) := fun o ho => by cases ho

theorem acct_init : AcctInv ({} : World) := by
  refine ⟨by simp [ids], ?_⟩
  simp [bits, postFrames]

/-- **Refinement, over whole histories.** -/
theorem run_sim : ∀ (evs : List Ev) (w w' : World) (l : L), AcctInv w → TimerInv w → LInv w → Sim w l → UsageOk l evs →
    run w evs = some w' → ∃ l', lrun l evs = some l' ∧ Sim w' l' ∧ AcctInv w' ∧ TimerInv w' ∧ LInv w'
  | [], w, w', l, hA, hT, hI, hS, _, h => by
    simp only [run] at h; cases h
    exact ⟨l, rfl, hS, hA, hT, hI⟩
  | e :: r, w, w', l, hA, hT, hI, hS, hU, h => by
    simp only [run] at h
    cases hs : step w e with
    | none => simp [hs] at h
    | some w1 =>
      simp only [hs] at h
      obtain ⟨l1, hl1, hS1⟩ := step_sim w w1 l e hA hT hI hS hU.1 hs
      obtain ⟨l', hl', hrest⟩ := run_sim r w1 w' l1 (step_acct w w1 e hA hs) (step_timer w w1 e hT hs) (step_linv w w1 e hI hs) hS1
        (hU.2 l1 hl1) h
      refine ⟨l', ?_, hrest⟩
      show Sonic.Spec.Ledger.run l (e :: r) = some l'
      simp only [Sonic.Spec.Ledger.run]
      have : Sonic.Spec.Ledger.step l e = some l1 := hl1
      rw [this]; exact hl'

/-- **C01 / C03 (ledger).** Every history of the loop model that respects the documented usage is accepted by the
API-level ledger: callbacks are entered only when owed (or inline in their own starting call), and every `Pending()` /
`Posted()` observation made while no handler executes equals the number of operations / posted handlers in flight. -/
theorem ledger_accepts_model (evs : List Ev) (w : World) (h : run {} evs = some w) (hU : UsageOk {} evs) :
    Sonic.Spec.Ledger.accepts evs = true := by
  obtain ⟨l, hl, _⟩ := run_sim evs {} w {} acct_init timer_init linv_init sim_init hU h
  unfold Sonic.Spec.Ledger.accepts
  have : Sonic.Spec.Ledger.run {} evs = some l := hl
  rw [this]; rfl

/-- In every reachable state the ledger holds exactly (a permutation of) what the model's registered interests and queued
posts stand for; in particular their numbers agree. -/
theorem C03_owed_is_registered (evs : List Ev) (w : World) (h : run {} evs = some w) (hU : UsageOk {} evs) :
    ∃ l, lrun {} evs = some l ∧ (l.owed.length : Int) = bits w.objs + w.posts.length := by
  obtain ⟨l, hl, hS, _⟩ := run_sim evs {} w {} acct_init timer_init linv_init sim_init hU h
  exact ⟨l, hl, by rw [hS.owed.length_eq]; exact absOwed_length w⟩

theorem lrun_append : ∀ (a b : List Ev) (l : L), lrun l (a ++ b) = (lrun l a).bind (fun l1 => lrun l1 b)
  | [], b, l => rfl
  | e :: r, b, l => by
    simp only [List.cons_append, lrun, Sonic.Spec.Ledger.run]
    cases Sonic.Spec.Ledger.step l e with
    | none => rfl
    | some l1 => exact lrun_append r b l1

/-- **C03 (Pending() equals the operations in flight), stated outright.** If the model accepts a history followed by a
`Pending()` / `Posted()` observation `(p, q)`, and no handler is executing at that point, then `p` is the number of
operations the ledger owes after that history and `q` the number of posted handlers among them. -/
theorem C03_pending_is_operations_in_flight (evs : List Ev) (p q d : Int) (w : World) (l : L)
    (h : run {} (evs ++ [.callPending, .ret (.pending p q d)]) = some w)
    (hU : UsageOk {} (evs ++ [.callPending, .ret (.pending p q d)]))
    (hl : lrun {} evs = some l) (hq : Sonic.Spec.Ledger.quiet l.stack = true) :
    p = l.owed.length ∧ q = Sonic.Spec.Ledger.postsOwed l := by
  have hacc := ledger_accepts_model _ w h hU
  unfold Sonic.Spec.Ledger.accepts at hacc
  have := lrun_append evs [.callPending, .ret (.pending p q d)] {}
  rw [show Sonic.Spec.Ledger.run {} (evs ++ [Ev.callPending, Ev.ret (Ret.pending p q d)]) = _ from this, hl] at hacc
  simp only [Option.bind_some, lrun, Sonic.Spec.Ledger.run, Sonic.Spec.Ledger.step, hq, Bool.true_and] at hacc
  have hpo : ∀ s, Sonic.Spec.Ledger.postsOwed { owed := l.owed, stack := s } = Sonic.Spec.Ledger.postsOwed l := fun _ => rfl
  simp only [hpo] at hacc
  by_cases h1 : p = (l.owed.length : Int)
  · by_cases h2 : q = (Sonic.Spec.Ledger.postsOwed l : Int)
    · exact ⟨h1, h2⟩
    · simp [h1, h2] at hacc
  · simp [h1] at hacc

/-- **C01 (only owed callbacks).** If the model accepts a history followed by the entry of the callback of `op`, the
ledger after that history either is inside the call that starts `op` (inline completion) or owes `op`. -/
theorem C01_callback_only_when_owed (evs : List Ev) (op : Nat) (res : Res) (n : Int) (data : List UInt8) (early : Bool)
    (w : World) (l : L) (h : run {} (evs ++ [.enter op res n data early]) = some w)
    (hU : UsageOk {} (evs ++ [.enter op res n data early])) (hl : lrun {} evs = some l) :
    (∃ r rest, (l.stack = .start r false :: rest ∨ l.stack = .sched r false :: rest) ∧ r.id = op) ∨
    (∃ r, r ∈ l.owed ∧ r.id = op) := by
  have hacc := ledger_accepts_model _ w h hU
  unfold Sonic.Spec.Ledger.accepts at hacc
  have := lrun_append evs [.enter op res n data early] {}
  rw [show Sonic.Spec.Ledger.run {} (evs ++ [Ev.enter op res n data early]) = _ from this, hl] at hacc
  simp only [Option.bind_some, lrun, Sonic.Spec.Ledger.run, Sonic.Spec.Ledger.step] at hacc
  have hgen : (match Sonic.Spec.Ledger.findOwed l op with
      | none => (none : Option L)
      | some r => some { owed := l.owed.erase r, stack := .handler r (r.kind == OpKind.timerRep) :: l.stack }).isSome = true →
      ∃ r, r ∈ l.owed ∧ r.id = op := by
    intro hx
    cases hf : Sonic.Spec.Ledger.findOwed l op with
    | none => rw [hf] at hx; cases hx
    | some r =>
      unfold Sonic.Spec.Ledger.findOwed at hf
      exact ⟨r, List.mem_of_find?_eq_some hf, by simpa using List.find?_some hf⟩
  cases hst : l.stack with
  | nil => rw [hst] at hacc; right; apply hgen; rw [hst]; revert hacc; cases Sonic.Spec.Ledger.findOwed l op <;> simp
  | cons f rest =>
    rw [hst] at hacc
    cases f with
    | start r e =>
      cases e with
      | false =>
        left
        refine ⟨r, rest, Or.inl rfl, ?_⟩
        by_cases hid : (r.id == op) = true
        · simpa using hid
        · simp [hid] at hacc
      | true => right; apply hgen; rw [hst]; revert hacc; cases Sonic.Spec.Ledger.findOwed l op <;> simp
    | sched r e =>
      cases e with
      | false =>
        left
        refine ⟨r, rest, Or.inr rfl, ?_⟩
        by_cases hid : (r.id == op) = true
        · simpa using hid
        · simp [hid] at hacc
      | true => right; apply hgen; rw [hst]; revert hacc; cases Sonic.Spec.Ledger.findOwed l op <;> simp
    | _ => right; apply hgen; rw [hst]; revert hacc; cases Sonic.Spec.Ledger.findOwed l op <;> simp

/-! ### Non-vacuity and non-triviality -/

/-- A history with a deferred read, a post, a timer, a cancellation and a close is produced by the model, respects the
usage rule, and is accepted by the ledger with the reported counts. -/
def sample : List Ev :=
  [.obj 1 .stream, .obj 2 .timer, .callStart 11 1 .read 8, .ret .plain, .callPost 12, .ret (.err true),
   .callSched 13 2 false 3, .ret (.err true), .callPending, .ret (.pending 3 1 0),
   .callPoll, .enter 12 .post 0 [] false, .exit 12, .enter 11 .ok 5 [] false, .callStart 14 1 .read 4, .ret .plain, .exit 11,
   .ret (.poll 2 .ok), .callPending, .ret (.pending 2 0 0), .callTCancel 2, .ret (.err true), .callClose 1, .ret (.err true),
   .callPending, .ret (.pending 0 0 0)]

example : (run {} sample).isSome = true := by decide

example : Sonic.Spec.Ledger.accepts sample = true := by decide

/-- The ledger rejects a callback after Close … -/
example : Sonic.Spec.Ledger.accepts [.obj 1 .stream, .callStart 11 1 .read 8, .ret .plain, .callClose 1, .ret (.err true),
    .callPoll, .enter 11 .ok 5 [] false] = false := by decide

/-- … a second callback of the same operation … -/
example : Sonic.Spec.Ledger.accepts [.obj 1 .stream, .callStart 11 1 .read 8, .ret .plain,
    .callPoll, .enter 11 .ok 5 [] false, .exit 11, .enter 11 .ok 5 [] false] = false := by decide

/-- … a timer callback after a successful Cancel … -/
example : Sonic.Spec.Ledger.accepts [.obj 2 .timer, .callSched 13 2 false 3, .ret (.err true), .callTCancel 2, .ret (.err true),
    .callPoll, .enter 13 .timer 0 [] false] = false := by decide

/-- … and a `Pending()` that counts an operation which completed inline. -/
example : Sonic.Spec.Ledger.accepts [.obj 1 .stream, .callStart 11 1 .read 8, .enter 11 .ok 8 [] false, .exit 11, .ret .plain,
    .callPending, .ret (.pending 1 0 0)] = false := by decide

end Sonic.Props.Ledger
