/-
C07 / C15 / C16, tie T — the websocket frame header logic the three properties rest on, stated about the code itself.

`Sonic.Gen.WsFrameBits` is regenerated on every run from `codec/websocket/frame.go` (`ExtendedPayloadLengthBytes`,
`PayloadLength`, `IsFIN`, `IsRSV1..3`, `Opcode`, `IsMasked`, `MaskBytes`, the `Set*` bit setters, `clearOpcode`, `SetOpcode`,
`extendedPayloadLengthOffset`, `maskOffset`, `payloadOffset`, `setPayloadLength`), `codec/websocket/rfc6455.go` (the opcode
predicates, `ValidCloseCode`, every constant they mention) and `util/bytes.go` (`ExtendSlice`).  A slice value is
`Go.Bytes` (backing array up to the capacity, length); `lift` reads a result of generated code (value or Go panic) as a
result of the models' monad; `natM` reads a natural-number result of the model as a Go `int`.

The theorems say that the generated functions are the definitions of the hand-written models (`Model/WsFrame.lean`,
`Model/WsEncode.lean`, `Model/WsStream.lean`, `Spec/WsStream.lean`) over which C07, C15 and C16 are proved — for every
slice content: all 2^16 combinations of the two mandatory header bytes, every extended length, every length of the
slice (a too short one panics on both sides).
-/
import Sonic.Lemmas.WsFrameTie

open Sonic.Gen.WsFrameBits
open Sonic.Lemmas.WsFrameTie
open Sonic.Model
open Sonic.Model.WsEncode (PFrame)

namespace Sonic.Props.C07

/-- **C07 (tie T, header accessors).** For every slice value — any content, any length, any spare capacity — the
accessors the decoder uses are the model's: the same value, or the same index-out-of-range panic. -/
theorem C07_tie_header_accessors (b : Go.Bytes) :
    lift (Frame.ExtendedPayloadLengthBytes b) = natM (WsFrame.ExtendedPayloadLengthBytes b.toList) ∧
    lift (Frame.IsFIN b) = WsFrame.IsFIN b.toList ∧
    lift (Frame.IsRSV1 b) = WsFrame.IsRSV1 b.toList ∧
    lift (Frame.IsRSV2 b) = WsFrame.IsRSV2 b.toList ∧
    lift (Frame.IsRSV3 b) = WsFrame.IsRSV3 b.toList ∧
    lift (Frame.Opcode b) = WsFrame.Opcode b.toList ∧
    lift (Frame.IsMasked b) = WsFrame.IsMasked b.toList ∧
    lift (Frame.MaskBytes b) = natM (WsFrame.MaskBytes b.toList) ∧
    lift (Frame.maskOffset b) = natM (WsFrame.maskOffset b.toList) ∧
    lift (Frame.payloadOffset b) = natM (WsFrame.payloadOffset b.toList) :=
  ⟨extLenBytes_eq b, isFIN_eq b, isRSV1_eq b, isRSV2_eq b, isRSV3_eq b, opcode_eq b, isMasked_eq b, maskBytes_eq b,
   maskOffset_eq b, payloadOffset_eq b⟩

/-- **C07 (tie T, the constants).** The header, mask and maximal header lengths read from the source are the model's. -/
theorem C07_tie_constants :
    frameHeaderLength = (WsFrame.frameHeaderLength : Int) ∧ frameMaskLength = (WsFrame.frameMaskLength : Int) ∧
    frameMaxHeaderLength = (WsFrame.frameMaxHeaderLength : Int) ∧ Frame.extendedPayloadLengthOffset (Go.Bytes.ofList []) = 2 := by
  decide

/-- **C07 (tie T, `PayloadLength`).** On every byte string (a slice without spare capacity) the generated `PayloadLength`
is the model's: the 7-bit length, the 16-bit big-endian length, the 64-bit big-endian length read as a two's-complement
`int`, or the panic of a slice that is too short for its length field. -/
theorem C07_tie_payload_length (l : List UInt8) :
    lift (Frame.PayloadLength (Go.Bytes.ofList l)) = WsFrame.PayloadLength l :=
  payloadLength_eq l

/-- **C07 (tie T, `PayloadLength` with spare capacity).** The decoder's frame aliases the buffer and has spare capacity;
Go lets a slice expression reach into it, the model refuses.  Whenever the model yields a length, the generated code
yields the same one. -/
theorem C07_tie_payload_length_spare_capacity (b : Go.Bytes) (v : Int) (h : WsFrame.PayloadLength b.toList = .ok v) :
    Frame.PayloadLength b = .ok v :=
  payloadLength_refines b v h

/-- **C07 (tie T, 64-bit lengths).** A 64-bit length field below 2^63 is returned as it is; one with the top bit set comes
back as a negative `int` — which `Decode` refuses (`payloadLength < 0`, `C07_bounded_top_bit`). -/
theorem C07_tie_payload_length_64 (l : List UInt8) (h10 : 10 ≤ l.length) (h127 : (l.getD 1 0 &&& 127) = 127) :
    ∃ v, Frame.PayloadLength (Go.Bytes.ofList l) = .ok v ∧
      (Sonic.Spec.WsFrame.beNat ((l.drop 2).take 8) < 2 ^ 63 → v = Sonic.Spec.WsFrame.beNat ((l.drop 2).take 8)) ∧
      (2 ^ 63 ≤ Sonic.Spec.WsFrame.beNat ((l.drop 2).take 8) → v < 0) := by
  rcases idx_cases1 (Go.Bytes.ofList l) with ⟨x, h1, -, -, -, hx⟩ | ⟨-, -, hn⟩
  · have hx' : x = l.getD 1 0 := hx
    rw [payloadLength_gen _ x h1, hx', if_pos h127]
    rw [show (Go.Bytes.ofList l).arr = l from rfl, if_pos h10]
    refine ⟨_, rfl, ?_, ?_⟩
    · intro hlt; exact u64ToInt_id _ hlt
    · intro hge
      refine u64ToInt_neg _ hge ?_
      have := beNat_lt ((l.drop 2).take 8)
      have hl : ((l.drop 2).take 8).length ≤ 8 := by simp; omega
      have h2 : 256 ^ ((l.drop 2).take 8).length ≤ 256 ^ 8 := Nat.pow_le_pow_right (by decide) hl
      have : Go.beNat ((l.drop 2).take 8) < 256 ^ 8 := by omega
      exact this
  · exfalso; apply hn
    simp only [Go.Bytes.ofList]; omega

end Sonic.Props.C07

namespace Sonic.Props.C15

/-- **C15 (tie T, reserved opcodes).** `Opcode.IsReserved`, as written in the source with the source's opcode constants,
is the model's `isReserved` for each of the 256 byte values. -/
theorem C15_tie_opcode_reserved (c : UInt8) : Opcode.IsReserved c = WsStream.isReserved c.toNat := isReserved_eq c

/-- **C15 (tie T, control opcodes).** `Opcode.IsControl` (through `IsPing / IsPong / IsClose`) is the model's `isControl`. -/
theorem C15_tie_opcode_control (c : UInt8) : Opcode.IsControl c = WsStream.isControl c.toNat := isControl_eq c

/-- **C15 (tie T, the opcode table).** Which four-bit opcodes the source treats as reserved and as control:
reserved = 3–7 and 11–15, control = 8, 9, 10 (RFC 6455 §5.2 defines 0, 1, 2, 8, 9, 10). -/
theorem C15_tie_opcode_table :
    (List.range 16).filter (fun n => Opcode.IsReserved (UInt8.ofNat n)) = [3, 4, 5, 6, 7, 11, 12, 13, 14, 15] ∧
    (List.range 16).filter (fun n => Opcode.IsControl (UInt8.ofNat n)) = [8, 9, 10] := by
  decide

/-- **C15 (tie T, control payload limit).** The limit the source names is the 125 the model and the monitor use. -/
theorem C15_tie_control_payload_limit : MaxControlFramePayloadLength = 125 := by decide

/-- **C15 (tie T, close codes).** `ValidCloseCode`, with the source's close-code constants, is the specification's
`validCloseCode` for each of the 65536 values of a `uint16`. -/
theorem C15_tie_valid_close_code (c : UInt16) : ValidCloseCode c = Sonic.Spec.WsStream.validCloseCode c.toNat :=
  validCloseCode_eq c

end Sonic.Props.C15

namespace Sonic.Props.C16

/-- **C16 (tie T, the bit setters).** On every pooled frame (array + length, whatever an earlier use left there) the
generated setters are the model's. -/
theorem C16_tie_setters (f : PFrame) (c : UInt8) :
    lift (Frame.SetFIN (toB f)) = toB <$> f.SetFIN ∧
    lift (Frame.SetRSV1 (toB f)) = toB <$> f.SetRSV1 ∧
    lift (Frame.SetRSV2 (toB f)) = toB <$> f.SetRSV2 ∧
    lift (Frame.SetRSV3 (toB f)) = toB <$> f.SetRSV3 ∧
    lift (Frame.SetIsMasked (toB f)) = toB <$> f.SetIsMasked ∧
    lift (Frame.SetOpcode (toB f) c) = toB <$> f.SetOpcode c :=
  ⟨setFIN_eq f, setRSV1_eq f, setRSV2_eq f, setRSV3_eq f, setIsMasked_eq f, setOpcode_eq f c⟩

/-- **C16 (tie T, the named opcode setters)** are `SetOpcode` with the source's opcode constants 0, 1, 2, 8, 9, 10. -/
theorem C16_tie_named_opcode_setters (b : Go.Bytes) :
    Frame.SetContinuation b = Frame.SetOpcode b 0 ∧ Frame.SetText b = Frame.SetOpcode b 1 ∧
    Frame.SetBinary b = Frame.SetOpcode b 2 ∧ Frame.SetClose b = Frame.SetOpcode b 8 ∧
    Frame.SetPing b = Frame.SetOpcode b 9 ∧ Frame.SetPong b = Frame.SetOpcode b 10 := by
  refine ⟨?_, ?_, ?_, ?_, ?_, ?_⟩ <;>
    (simp only [Frame.SetContinuation, Frame.SetText, Frame.SetBinary, Frame.SetClose, Frame.SetPing, Frame.SetPong,
      OpcodeContinuation, OpcodeText, OpcodeBinary, OpcodeClose, OpcodePing, OpcodePong])

/-- **C16 (tie T, offsets on the writer side).** `maskOffset` and `payloadOffset` of a pooled frame are the model's. -/
theorem C16_tie_offsets (f : PFrame) :
    lift (Frame.maskOffset (toB f)) = natM (WsFrame.maskOffset f.bytes) ∧
    lift (Frame.payloadOffset (toB f)) = natM (WsFrame.payloadOffset f.bytes) :=
  ⟨maskOffset_eq (toB f), payloadOffset_eq (toB f)⟩

/-- **C16 (tie T, `ExtendSlice`).** `util.ExtendSlice` is the model's `extend`. -/
theorem C16_tie_extend_slice (f : PFrame) (need : Nat) (hc : (f.arr.length : Int) ≤ Go.I64MAX) (hn : (need : Int) ≤ Go.I64MAX) :
    ExtendSlice (toB f) need = .ok (toB (f.extend need)) :=
  extendSlice_eq f need hc hn

/-- **C16 (tie T, `setPayloadLength`).** For every pooled frame and every payload length the generated
`setPayloadLength` is the model's: re-extension of a shrunk frame to the full header, mask bit kept, length class chosen
at 125/126 and 65535/65536, extended length written big-endian. -/
theorem C16_tie_set_payload_length (f : PFrame) (n : Nat) (hc : (f.arr.length : Int) ≤ Go.I64MAX) :
    lift (Frame.setPayloadLength (toB f) n) = toB <$> f.setPayloadLength n :=
  setPayloadLength_eq f n hc

/-- A fresh 14-byte frame with the mask bit set. -/
def fresh : Go.Bytes := ⟨0 :: 0x80 :: List.replicate 12 0, 14⟩

/-- **C16 (tie T, length-class boundaries)**, on the generated code alone: a fresh 14-byte frame with the mask bit set,
given the lengths 125, 126, 65535, 65536. -/
theorem C16_tie_length_class_boundaries :
    (Frame.setPayloadLength fresh 125).toOption = some ⟨0 :: 0xfd :: List.replicate 12 0, 14⟩ ∧
    (Frame.setPayloadLength fresh 126).toOption = some ⟨0 :: 0xfe :: 0 :: 126 :: List.replicate 10 0, 14⟩ ∧
    (Frame.setPayloadLength fresh 65535).toOption = some ⟨0 :: 0xfe :: 0xff :: 0xff :: List.replicate 10 0, 14⟩ ∧
    (Frame.setPayloadLength fresh 65536).toOption = some ⟨0 :: 0xff :: 0 :: 0 :: 0 :: 0 :: 0 :: 1 :: 0 :: 0 :: List.replicate 4 0, 14⟩ := by
  decide

end Sonic.Props.C16
