/-
C09 — ByteBuffer behaves as three adjacent FIFO regions.

Theorems are about `Sonic.Model.ByteBuffer` (the hand-written model that mirrors byte_buffer.go method
by method, tied to the real code by the differential trace check) and the three-list monitor
`Sonic.Spec.ByteBuffer`.
-/
import Sonic.Lemmas.ByteBufferOps
import Sonic.Lemmas.ByteBufferHeld

set_option linter.unusedVariables false

namespace Sonic.Props.C09
open Sonic.Spec.ByteBuffer Sonic.Model.ByteBuffer

/-! ## Hypotheses -/

/-- What a call must satisfy (decidable on the abstract state).

* integer arguments are Go `int`s (`InI64`) — **every** such value is allowed;
* slots passed to `Discard`/`SavedSlot` lie inside the save area (`ValidSlot`; `Discard` ignores
  non-positive lengths whatever the index).  Slots are not integers and the code does not validate them;
* memory is finite: a call that grows the buffer keeps its length within `int`, the capacity `c` the
  runtime reports is an `int`, and `Reserve` does not ask for more than the allocator can ever provide
  (`BeyondAlloc`: growth > 2^48 — there `append` itself panics, leaving the buffer untouched). -/
def OpOk (s : S) (op : Op) (c : Int) : Prop :=
  match op with
  | .reserve n => Go.InI64 n ∧ Go.InI64 c ∧ ¬ BeyondAlloc s n ∧ s.len + n ≤ Go.I64MAX
  | .commit n | .consume n | .save n | .prepareRead n | .shrinkBy n | .shrinkTo n => Go.InI64 n
  | .discard idx len => len ≤ 0 ∨ ValidSlot s idx len
  | .savedSlot idx len => ValidSlot s idx len
  | .write bs | .writeString bs => Go.InI64 c ∧ s.len + bs.length ≤ Go.I64MAX
  | .writeByte _ => Go.InI64 c ∧ s.len + 1 ≤ Go.I64MAX
  | .claim n _ | .claimFixed n _ => Go.InI64 n
  | _ => True

instance (s : S) (op : Op) (c : Int) : Decidable (OpOk s op c) := by
  cases op <;> unfold OpOk <;> exact inferInstance

/-- The invariant the source file states: `0 ≤ si ≤ ri ≤ wi = len(data) ≤ cap(data)`. -/
def Inv (b : BB) : Prop :=
  0 ≤ b.si ∧ b.si ≤ b.ri ∧ b.ri ≤ b.wi ∧ b.wi = b.data.length ∧ b.wi ≤ b.cap ∧ b.cap ≤ Go.I64MAX

instance (b : BB) : Decidable (Inv b) := by unfold Inv; exact inferInstance

/-- Abstraction: the three regions of an implementation state. -/
def abs (b : BB) : S :=
  { saved := b.bytes 0 b.si, readable := b.bytes b.si b.ri, pending := b.bytes b.ri b.wi, cap := b.cap }

theorem R_inv {b : BB} {s : S} (hR : R b s) : Inv b := by
  obtain ⟨h1, h2, h3, h4, h5, h6, h7, h8⟩ := hR
  refine ⟨by omega, by omega, by omega, ?_, h5, h6⟩
  rw [h4]; simp only [List.length_append]; omega

theorem R_unique {b : BB} {s : S} (hR : R b s) : s = abs b := by
  have hd := dump_R hR
  obtain ⟨h1, h2, h3, h4, h5, h6, h7, h8⟩ := hR
  unfold BB.dump at hd
  split at hd
  · split at hd
    · injection hd with hd
      injection hd with e1 e2 e3
      cases s
      simp only at e1 e2 e3 h7 h8
      unfold abs
      rw [e1, e2, e3, h7, h8]
    · exact absurd hd (by simp)
  · exact absurd hd (by simp)

theorem R_abs {b : BB} (hi : Inv b) : R b (abs b) := by
  obtain ⟨h0, h1, h2, h3, h4, h5⟩ := hi
  obtain ⟨a, ha⟩ : ∃ a : Nat, b.si = a := ⟨b.si.toNat, by omega⟩
  obtain ⟨a', ha'⟩ : ∃ a' : Nat, b.ri = a' := ⟨b.ri.toNat, by omega⟩
  have e0 : (0 : Int).toNat = 0 := rfl
  have e1 : b.si.toNat = a := by omega
  have e2 : b.ri.toNat = a' := by omega
  have e3 : b.wi.toNat = b.data.length := by omega
  have l1 : ((b.data.take a).drop 0).length = a := by simp; omega
  have l2 : ((b.data.take a').drop a).length = a' - a := by simp; omega
  have l3 : ((b.data.take b.data.length).drop a').length = b.data.length - a' := by simp
  unfold abs BB.bytes
  rw [e0, e1, e2, e3]
  refine ⟨?_, ?_, ?_, ?_, h4, h5, rfl, rfl⟩
  · dsimp only; rw [l1]; exact ha
  · dsimp only; rw [l1, l2]; omega
  · dsimp only; rw [l1, l2, l3]; omega
  · dsimp only
    rw [List.drop_zero, List.take_of_length_le (Nat.le_refl _)]
    have : b.data.take a = (b.data.take a').take a := by rw [List.take_take, Nat.min_eq_left (by omega)]
    rw [this, List.take_append_drop, List.take_append_drop]

/-! ## One step -/

theorem R_setcap {b : BB} {s : S} (hR : R b s) : R b { s with cap := b.cap } := by
  obtain ⟨h1, h2, h3, h4, h5, h6, h7, h8⟩ := hR
  exact ⟨h1, h2, h3, h4, h5, h6, rfl, h8⟩

theorem R_samecap {b b' : BB} {s s1 : S} (hR : R b s) (hR' : R b' s1) : R b' { s1 with cap := b'.cap } := R_setcap hR'

/-- A step of the model is *good* for the abstract state `s` when it does not panic, returns what the
specification's effect returns, and the new state is coupled to the specification's new lists. -/
def Good (b : BB) (s : S) (op : Op) (c : Int) : Prop :=
  ∃ b' s1 r, Model.ByteBuffer.step b op c = ok b' r ∧ eff s op = some (s1, r) ∧ R b' { s1 with cap := b'.cap } ∧
    (∀ d, b'.dump = some d → PostOk d op)

theorem post_triv {b' : BB} {op : Op} (h : ∀ n, op ≠ .reserve n) : ∀ d, b'.dump = some d → PostOk d op := by
  intro d _
  cases op <;> first | trivial | exact absurd rfl (h _)

theorem setcap_eq {b' : BB} {s1 : S} (hR : R b' s1) : ({ s1 with cap := b'.cap } : S) = s1 := by
  have := hR.2.2.2.2.2.2.1
  cases s1; simp only at this; subst this; rfl

/-- **Every call is good**: for every coupled pair of states and every call meeting `OpOk`. -/
theorem step_good {b : BB} {s : S} (hR : R b s) (op : Op) (c : Int) (hok : OpOk s op c) : Good b s op c := by
  unfold Good
  cases op with
  | reserve n =>
    obtain ⟨h1, h2, h3, h4⟩ := hok
    obtain ⟨b', hb, hR', hp⟩ := reserve_spec hR n c h1 h2 h3 h4
    refine ⟨b', s, .unit, by dsimp only [Sonic.Model.ByteBuffer.step]; rw [hb], rfl, hR', ?_⟩
    intro d hd
    rw [dump_R hR'] at hd
    injection hd with hd; subst hd
    exact hp
  | commit n =>
    obtain ⟨hR', hc⟩ := commit_spec hR n hok
    exact ⟨_, _, _, rfl, rfl, R_setcap hR', post_triv (by intro _ h; cases h)⟩
  | consume n =>
    obtain ⟨b', hb, hR', hc⟩ := consume_spec hR n
    exact ⟨b', _, _, by dsimp only [Sonic.Model.ByteBuffer.step]; rw [hb], rfl, R_setcap hR', post_triv (by intro _ h; cases h)⟩
  | save n =>
    obtain ⟨b', i, l, hb, hR', hc, hret⟩ := save_spec hR n hok
    refine ⟨b', _, _, by dsimp only [Sonic.Model.ByteBuffer.step]; rw [hb], ?_, R_setcap hR', post_triv (by intro _ h; cases h)⟩
    dsimp only [eff]; rw [hret]
  | discard idx len =>
    by_cases hl : len ≤ 0
    · refine ⟨b, s, .int 0, ?_, ?_, R_setcap hR, post_triv (by intro _ h; cases h)⟩
      · dsimp only [Sonic.Model.ByteBuffer.step]; unfold BB.Discard; rw [if_pos hl]
      · dsimp only [eff]; rw [if_pos hl]
    · have hv : ValidSlot s idx len := by cases hok with | inl h => exact absurd h hl | inr h => exact h
      obtain ⟨b', hb, hR', hc⟩ := discard_spec hR idx len (by omega) hv
      refine ⟨b', _, _, by dsimp only [Sonic.Model.ByteBuffer.step]; rw [hb], ?_, R_setcap hR', post_triv (by intro _ h; cases h)⟩
      dsimp only [eff]; rw [if_neg hl, if_pos hv]
  | discardAll =>
    obtain ⟨b', hb, hR', hc⟩ := discardAll_spec hR
    exact ⟨b', _, _, by dsimp only [Sonic.Model.ByteBuffer.step]; rw [hb], rfl, R_setcap hR', post_triv (by intro _ h; cases h)⟩
  | savedSlot idx len =>
    have hok : ValidSlot s idx len := hok
    have hb := savedSlot_spec hR idx len hok
    refine ⟨b, s, _, by dsimp only [Sonic.Model.ByteBuffer.step]; rw [hb], ?_, R_setcap hR, post_triv (by intro _ h; cases h)⟩
    dsimp only [eff]; rw [if_pos hok]
  | reset =>
    obtain ⟨b', hb, hR', hc⟩ := reset_spec hR
    exact ⟨b', _, _, by dsimp only [Sonic.Model.ByteBuffer.step]; rw [hb], rfl, R_setcap hR', post_triv (by intro _ h; cases h)⟩
  | read dstLen =>
    by_cases h0 : dstLen = 0
    · subst h0
      refine ⟨b, s, _, by dsimp only [Sonic.Model.ByteBuffer.step]; rw [read_zero], ?_, R_setcap hR, post_triv (by intro _ h; cases h)⟩
      dsimp only [eff]; rw [if_pos rfl]
    · by_cases he : s.readable = []
      · refine ⟨b, s, _, by dsimp only [Sonic.Model.ByteBuffer.step]; rw [read_eof hR dstLen h0 he], ?_, R_setcap hR, post_triv (by intro _ h; cases h)⟩
        dsimp only [eff]; rw [if_neg h0, if_pos he]
      · obtain ⟨b', hb, hR', hc⟩ := read_spec hR dstLen h0 he
        refine ⟨b', _, _, by dsimp only [Sonic.Model.ByteBuffer.step]; rw [hb], ?_, R_setcap hR', post_triv (by intro _ h; cases h)⟩
        dsimp only [eff]; rw [if_neg h0, if_neg he]
  | readByte =>
    cases hrd : s.readable with
    | nil =>
      refine ⟨b, s, .rb none .eof, ?_, ?_, R_setcap hR, post_triv (by intro _ h; cases h)⟩
      · dsimp only [Sonic.Model.ByteBuffer.step]; rw [read_eof hR 1 (by decide) hrd]; rfl
      · dsimp only [eff]; rw [hrd]
    | cons x xs =>
      obtain ⟨b', hb, hR', hc⟩ := read_spec hR 1 (by decide) (by rw [hrd]; simp)
      rw [hrd] at hb hR'
      refine ⟨b', { s with readable := xs }, .rb (some x) .nil, ?_, ?_, R_setcap hR', post_triv (by intro _ h; cases h)⟩
      · dsimp only [Sonic.Model.ByteBuffer.step]; rw [hb]; rfl
      · dsimp only [eff]; rw [hrd]
  | readFrom n seed e =>
    by_cases he : e = .nil
    · subst he
      obtain ⟨b', hb, hc, hR'⟩ := readFrom_ok hR n seed
      refine ⟨b', _, _, by dsimp only [Sonic.Model.ByteBuffer.step]; rw [hb], ?_, R_setcap hR', post_triv (by intro _ h; cases h)⟩
      dsimp only [eff]; rw [if_pos rfl]
    · refine ⟨b, s, _, by dsimp only [Sonic.Model.ByteBuffer.step]; rw [readFrom_err hR n seed e he], ?_, R_setcap hR, post_triv (by intro _ h; cases h)⟩
      dsimp only [eff]; rw [if_neg he]
  | unreadByte =>
    by_cases hp : s.pending = []
    · refine ⟨b, s, _, by dsimp only [Sonic.Model.ByteBuffer.step]; rw [unreadByte_eof hR hp], ?_, R_setcap hR, post_triv (by intro _ h; cases h)⟩
      dsimp only [eff]; rw [if_pos hp]
    · obtain ⟨b', hb, hc, hR'⟩ := unreadByte_ok hR hp
      refine ⟨b', _, _, by dsimp only [Sonic.Model.ByteBuffer.step]; rw [hb], ?_, R_setcap hR', post_triv (by intro _ h; cases h)⟩
      dsimp only [eff]; rw [if_neg hp]
  | write bs =>
    obtain ⟨b', hb, hR'⟩ := append_spec hR bs c hok.1 hok.2
    exact ⟨b', { s with pending := s.pending ++ bs }, _, by dsimp only [Sonic.Model.ByteBuffer.step]; rw [hb], rfl, hR', post_triv (by intro _ h; cases h)⟩
  | writeByte x =>
    obtain ⟨b', hb, hR'⟩ := append_spec hR [x] c hok.1 hok.2
    exact ⟨b', { s with pending := s.pending ++ [x] }, _, by dsimp only [Sonic.Model.ByteBuffer.step]; rw [hb], rfl, hR', post_triv (by intro _ h; cases h)⟩
  | writeString bs =>
    obtain ⟨b', hb, hR'⟩ := append_spec hR bs c hok.1 hok.2
    exact ⟨b', { s with pending := s.pending ++ bs }, _, by dsimp only [Sonic.Model.ByteBuffer.step]; rw [hb], rfl, hR', post_triv (by intro _ h; cases h)⟩
  | writeTo resps =>
    obtain ⟨b', hb, hc, hR'⟩ := writeTo_spec hR resps
    exact ⟨b', _, _, by dsimp only [Sonic.Model.ByteBuffer.step]; rw [hb], rfl, R_setcap hR', post_triv (by intro _ h; cases h)⟩
  | prepareRead n =>
    by_cases h1 : n ≤ s.readable.length
    · refine ⟨b, s, _, by dsimp only [Sonic.Model.ByteBuffer.step]; rw [prepareRead_have hR n h1], ?_, R_setcap hR, post_triv (by intro _ h; cases h)⟩
      dsimp only [eff]; rw [if_pos h1]
    · by_cases h2 : n - s.readable.length ≤ s.pending.length
      · obtain ⟨b', hb, hc, hR'⟩ := prepareRead_commit hR n hok h1 h2
        refine ⟨b', _, _, by dsimp only [Sonic.Model.ByteBuffer.step]; rw [hb], ?_, R_setcap hR', post_triv (by intro _ h; cases h)⟩
        dsimp only [eff]; rw [if_neg h1, if_pos h2]
      · refine ⟨b, s, _, by dsimp only [Sonic.Model.ByteBuffer.step]; rw [prepareRead_needMore hR n hok h1 h2], ?_, R_setcap hR, post_triv (by intro _ h; cases h)⟩
        dsimp only [eff]; rw [if_neg h1, if_neg h2]
  | claim ret seed =>
    by_cases hfit : 0 ≤ ret ∧ ret ≤ s.room
    · obtain ⟨b', hb, hc, hR'⟩ := claim_ok hR ret seed hok hfit
      refine ⟨b', _, _, by dsimp only [Sonic.Model.ByteBuffer.step]; rw [hb], ?_, R_setcap hR', post_triv (by intro _ h; cases h)⟩
      dsimp only [eff]; rw [if_pos hfit]
    · refine ⟨b, s, _, by dsimp only [Sonic.Model.ByteBuffer.step]; rw [claim_rejected hR ret seed hok hfit], ?_, R_setcap hR, post_triv (by intro _ h; cases h)⟩
      dsimp only [eff]; rw [if_neg hfit]
  | claimFixed n seed =>
    by_cases hfit : 0 ≤ n ∧ n ≤ s.room
    · obtain ⟨b', hb, hc, hR'⟩ := claimFixed_ok hR n seed hok hfit
      refine ⟨b', _, _, by dsimp only [Sonic.Model.ByteBuffer.step]; rw [hb], ?_, R_setcap hR', post_triv (by intro _ h; cases h)⟩
      dsimp only [eff]; rw [if_pos hfit]
    · refine ⟨b, s, _, by dsimp only [Sonic.Model.ByteBuffer.step]; rw [claimFixed_rejected hR n seed hok hfit], ?_, R_setcap hR, post_triv (by intro _ h; cases h)⟩
      dsimp only [eff]; rw [if_neg hfit]
  | shrinkBy n =>
    obtain ⟨b', hb, hc, hR'⟩ := shrinkBy_spec hR n hok
    exact ⟨b', _, _, by dsimp only [Sonic.Model.ByteBuffer.step]; rw [hb], rfl, R_setcap hR', post_triv (by intro _ h; cases h)⟩
  | shrinkTo n =>
    obtain ⟨b', hb, hc, hR'⟩ := shrinkTo_spec hR n hok
    exact ⟨b', _, _, by dsimp only [Sonic.Model.ByteBuffer.step]; rw [hb], rfl, R_setcap hR', post_triv (by intro _ h; cases h)⟩

/-- One step of the implementation model is accepted by the three-list monitor and preserves the coupling. -/
theorem step_refines {b : BB} {s : S} (hR : R b s) (op : Op) (c : Int) (hok : OpOk s op c) :
    ∃ s', Spec.ByteBuffer.step s op (Model.ByteBuffer.step b op c).2 = some s' ∧
          R (Model.ByteBuffer.step b op c).1 s' := by
  obtain ⟨b', s1, r, hstep, heff, hR', hpost⟩ := step_good hR op c hok
  have hd := dump_R hR'
  have hlen : b'.wi = s1.len := by have := wi_R hR'; exact this
  have hcap := hR'.2.2.2.2.1
  rw [hstep]
  unfold ok Spec.ByteBuffer.step
  rw [if_neg (by rw [hR.2.2.2.2.2.2.2]; simp)]
  dsimp only
  rw [hd]
  dsimp only
  rw [heff]
  dsimp only
  rw [if_pos ⟨rfl, ⟨rfl, rfl, rfl, rfl, by show s1.len ≤ b'.cap; rw [← hlen]; exact hcap, rfl⟩, hpost _ hd⟩]
  exact ⟨_, rfl, hR'⟩

/-- Scripts whose every call meets `OpOk` in the state where it is made (decidable, computable). -/
def RunOk : BB → List (Op × Int) → Prop
  | _, [] => True
  | b, (op, c) :: r => OpOk (abs b) op c ∧ RunOk (Model.ByteBuffer.step b op c).1 r

instance instDecRunOk : (b : BB) → (ops : List (Op × Int)) → Decidable (RunOk b ops)
  | _, [] => isTrue trivial
  | b, (op, c) :: r =>
    have := instDecRunOk (Model.ByteBuffer.step b op c).1 r
    by unfold RunOk; exact inferInstance

theorem run_accepted (ops : List (Op × Int)) : ∀ (b : BB) (s : S), R b s → RunOk b ops →
    accepts s (run b ops) = true := by
  induction ops with
  | nil => intro b s _ _; rfl
  | cons oc r ih =>
    intro b s hR hok
    obtain ⟨op, c⟩ := oc
    obtain ⟨h1, h2⟩ := hok
    rw [← R_unique hR] at h1
    obtain ⟨s', hs, hR'⟩ := step_refines hR op c h1
    simp only [run, accepts, hs]
    exact ih _ _ hR' h2

/-! ## The property theorems -/

/-- **C09 (main theorem, refinement).**  For every initial capacity and **every** sequence of calls of the
public API (Reserve, Commit, Consume, Save, Discard, DiscardAll, SavedSlot, Reset, Read, ReadByte,
ReadFrom, UnreadByte, Write, WriteByte, WriteString, WriteTo, PrepareRead, Claim, ClaimFixed, ShrinkBy,
ShrinkTo) with every `int` argument, every scripted behaviour of the callees and every capacity the
runtime may choose when it reallocates, the trace of the implementation model is accepted by the
three-list monitor: each call returns what the three lists say, afterwards the regions read back
exactly as the three lists (nothing lost, duplicated or reordered), readers see only readable bytes,
lengths add up, and nothing panics.  Hypothesis `RunOk`: valid slots, finite memory (see `OpOk`). -/
theorem C09_three_fifo_regions (c0 : Int) (h0 : 0 ≤ c0) (h1 : c0 ≤ Go.I64MAX)
    (ops : List (Op × Int)) (hok : RunOk (Model.ByteBuffer.new c0) ops) :
    accepts (Spec.ByteBuffer.init c0) (run (Model.ByteBuffer.new c0) ops) = true :=
  run_accepted ops _ _ ⟨rfl, rfl, rfl, rfl, h0, h1, rfl, rfl⟩ hok

/-- The same from any state satisfying the invariant. -/
theorem C09_refines (b : BB) (hi : Inv b) (ops : List (Op × Int)) (hok : RunOk b ops) :
    accepts (abs b) (run b ops) = true :=
  run_accepted ops _ _ (R_abs hi) hok

/-- **Invariant.** `0 ≤ si ≤ ri ≤ wi = len(data) ≤ cap` is preserved by every call, for every `int`
argument, every behaviour of the callee and every capacity chosen by the runtime. -/
theorem C09_inv (b : BB) (op : Op) (c : Int) (hi : Inv b) (hok : OpOk (abs b) op c) :
    Inv (Model.ByteBuffer.step b op c).1 := by
  obtain ⟨s', _, hR'⟩ := step_refines (R_abs hi) op c hok
  exact R_inv hR'

/-- The invariant holds in every reachable state. -/
theorem C09_inv_reachable (c0 : Int) (h0 : 0 ≤ c0) (h1 : c0 ≤ Go.I64MAX) (ops : List (Op × Int))
    (hok : RunOk (Model.ByteBuffer.new c0) ops) :
    Inv (ops.foldl (fun b oc => (Model.ByteBuffer.step b oc.1 oc.2).1) (Model.ByteBuffer.new c0)) := by
  have hnew : Inv (Model.ByteBuffer.new c0) := ⟨Int.le_refl 0, Int.le_refl 0, Int.le_refl 0, rfl, h0, h1⟩
  suffices ∀ (l : List (Op × Int)) b, Inv b → RunOk b l →
      Inv (l.foldl (fun b oc => (Model.ByteBuffer.step b oc.1 oc.2).1) b) from this ops _ hnew hok
  intro l
  induction l with
  | nil => intro b hi _; exact hi
  | cons oc r ih =>
    intro b hi hr
    obtain ⟨op, c⟩ := oc
    exact ih _ (C09_inv b op c hi hr.1) hr.2

/-- **No panic.** No call panics, and the buffer can be read back afterwards, for every `int` argument
(slots restricted to `ValidSlot`, `Reserve` to what the allocator can provide — see `OpOk`). -/
theorem C09_no_panic (b : BB) (op : Op) (c : Int) (hi : Inv b) (hok : OpOk (abs b) op c) :
    (Model.ByteBuffer.step b op c).2.ret ≠ none ∧ (Model.ByteBuffer.step b op c).2.dump ≠ none := by
  obtain ⟨b', s1, r, hstep, _, hR', _⟩ := step_good (R_abs hi) op c hok
  rw [hstep]; unfold ok; dsimp only
  rw [dump_R hR']
  exact ⟨by simp, by simp⟩

/-- **Effect and return value.** Each call's effect on `(saved, readable, pending)` and its return
value are exactly the specification's (`eff`: clamping = `take`/`drop`). -/
theorem C09_effect (b : BB) (op : Op) (c : Int) (hi : Inv b) (hok : OpOk (abs b) op c) :
    ∃ s1 r, eff (abs b) op = some (s1, r) ∧ (Model.ByteBuffer.step b op c).2.ret = some r ∧
      abs (Model.ByteBuffer.step b op c).1 = { s1 with cap := (Model.ByteBuffer.step b op c).1.cap } := by
  obtain ⟨b', s1, r, hstep, heff, hR', _⟩ := step_good (R_abs hi) op c hok
  refine ⟨s1, r, heff, by rw [hstep]; rfl, ?_⟩
  rw [hstep]; unfold ok; dsimp only
  exact (R_unique hR').symm

/-- **Lengths add up** in every state satisfying the invariant (hence in every reachable state):
`SaveLen + ReadLen + WriteLen = Len ≤ Cap` and `Reserved = Cap - Len`, read through the accessors. -/
theorem C09_lengths_add_up (b : BB) (hi : Inv b) :
    ∃ d, b.dump = some d ∧ (d.saved.length : Int) + d.readable.length + d.pending.length = d.len ∧
      d.len ≤ d.cap ∧ d.reserved = d.cap - d.len := by
  have hR := R_abs hi
  refine ⟨_, dump_R hR, rfl, ?_, rfl⟩
  show (abs b).len ≤ b.cap
  rw [← wi_R hR]; exact hR.2.2.2.2.1

/-- **Read values (1).** `ReadByte` returns the first readable byte and reports `EOF` iff nothing is
readable — whatever the save area and the write area hold. -/
theorem C09_readByte_value (b : BB) (c : Int) (hi : Inv b) :
    (Model.ByteBuffer.step b .readByte c).2.ret =
      some (match (abs b).readable with | [] => .rb none .eof | x :: _ => .rb (some x) .nil) := by
  obtain ⟨s1, r, heff, hret, _⟩ := C09_effect b .readByte c hi trivial
  rw [hret]
  dsimp only [eff] at heff
  cases hr : (abs b).readable with
  | nil => rw [hr] at heff; dsimp only at heff; injection heff with h; injection h with _ h2; rw [← h2]
  | cons x xs => rw [hr] at heff; dsimp only at heff; injection heff with h; injection h with _ h2; rw [← h2]

/-- **Read values (2).** `Read` into a non-empty destination returns exactly the readable prefix that
fits, and reports `EOF` iff nothing is readable. -/
theorem C09_read_value (b : BB) (n : Nat) (c : Int) (hi : Inv b) (hn : n ≠ 0) :
    (Model.ByteBuffer.step b (.read n) c).2.ret =
      some (if (abs b).readable = [] then .rd 0 [] .eof
            else .rd ((abs b).readable.take n).length ((abs b).readable.take n) .nil) := by
  obtain ⟨s1, r, heff, hret, _⟩ := C09_effect b (.read n) c hi trivial
  rw [hret]
  dsimp only [eff] at heff
  rw [if_neg hn] at heff
  by_cases he : (abs b).readable = []
  · rw [if_pos he] at heff; rw [if_pos he]; injection heff with h; injection h with _ h2; rw [← h2]
  · rw [if_neg he] at heff; rw [if_neg he]; injection heff with h; injection h with _ h2; rw [← h2]

/-- **Read values (3).** `WriteTo` hands the writer a prefix of the readable bytes, in order, returns
its length and consumes exactly that prefix. -/
theorem C09_writeTo_value (b : BB) (resps : List (Nat × Bool)) (c : Int) (hi : Inv b) :
    ∃ (L : Nat) (e : Err), L ≤ (abs b).readable.length ∧
      (Model.ByteBuffer.step b (.writeTo resps) c).2.ret = some (.wt L ((abs b).readable.take L) e) ∧
      (abs (Model.ByteBuffer.step b (.writeTo resps) c).1).readable = (abs b).readable.drop L := by
  obtain ⟨s1, r, heff, hret, habs⟩ := C09_effect b (.writeTo resps) c hi trivial
  obtain ⟨L, e, hL, hf, _⟩ := writeLoop_spec (R_abs hi) resps 0 (Nat.zero_le _)
  rw [List.drop_zero, List.take_zero] at hf
  dsimp only [eff] at heff
  rw [hf] at heff
  have hlen : ((abs b).readable.take L).length = L := by rw [List.length_take]; omega
  injection heff with h; injection h with h1 h2
  refine ⟨L, e, hL, ?_, ?_⟩
  · rw [hret, ← h2]; dsimp only; rw [hlen]
  · rw [habs, ← h1]; dsimp only; rw [hlen]

/-- **Saved bytes stay byte-identical until discarded**: only `Save` (which appends), `Discard`,
`DiscardAll` and `Reset` change the saved list — read off the specification. -/
theorem C09_saved_stable (s s1 : S) (op : Op) (r : Ret) (h : eff s op = some (s1, r))
    (hop : (∀ n, op ≠ .save n) ∧ (∀ i l, op ≠ .discard i l) ∧ op ≠ .discardAll ∧ op ≠ .reset) :
    s1.saved = s.saved := by
  obtain ⟨h1, h2, h3, h4⟩ := hop
  cases op <;> dsimp only [eff] at h <;>
    first
    | exact absurd rfl (h1 _)
    | exact absurd rfl (h2 _ _)
    | exact absurd rfl h3
    | exact absurd rfl h4
    | (injection h with h; injection h with h _; rw [← h])
    | (repeat' split at h) <;> first | (injection h with h; injection h with h _; rw [← h]) | exact absurd h (by simp)

/-- **Uncommitted bytes are never visible to readers**: what `Read`, `ReadByte` and `WriteTo` return
and the readable list after them do not depend on the pending bytes — read off the specification. -/
theorem C09_pending_invisible (s : S) (p' : List UInt8) (op : Op)
    (hop : (∃ n, op = .read n) ∨ op = .readByte ∨ (∃ rs, op = .writeTo rs)) :
    (eff { s with pending := p' } op).map (fun x => (x.1.readable, x.2)) = (eff s op).map (fun x => (x.1.readable, x.2)) := by
  rcases hop with ⟨n, rfl⟩ | rfl | ⟨rs, rfl⟩
  · dsimp only [eff]
    by_cases h0 : n = 0
    · rw [if_pos h0, if_pos h0]; rfl
    · rw [if_neg h0, if_neg h0]
      by_cases he : s.readable = []
      · rw [if_pos he, if_pos he]; rfl
      · rw [if_neg he, if_neg he]; rfl
  · dsimp only [eff]; split <;> rfl
  · rfl

/-! ## What is *not* true (known finding `bytebuffer.reserve.alloc-limit`)

`OpOk` excludes `Reserve n` whose growth exceeds the allocator's limit.  Without that exclusion the
no-panic clause is false: the statement is kept visible and refuted by a concrete witness. -/

/-- "Reserve never panics, for every `int`" — the clause without the allocator exemption. -/
def C09_reserve_total : Prop :=
  ∀ (b : BB) (n c : Int), Inv b → Go.InI64 n → Go.InI64 c → (Model.ByteBuffer.step b (.reserve n) c).2.ret ≠ none

theorem C09_reserve_total_false : ¬ C09_reserve_total := by
  intro h
  exact h (Model.ByteBuffer.new 512) Go.I64MAX 512 (by decide) (by decide) (by decide) (by decide)

/-- …but such a `Reserve` leaves the buffer untouched (what the monitor demands of the exempted panic). -/
theorem C09_reserve_panic_untouched (b : BB) (n c : Int)
    (h : (Model.ByteBuffer.step b (.reserve n) c).2.ret = none) : (Model.ByteBuffer.step b (.reserve n) c).1 = b := by
  dsimp only [Model.ByteBuffer.step] at h ⊢
  split
  · rename_i b' hb; rw [hb] at h; exact absurd h (by simp [ok])
  · rfl

/-! ## Non-vacuity

A non-trivial reachable state meets the invariant; a script that exercises growth across reallocation,
clamping at both ends, a discard in the middle, hostile `int`s and scripted callees meets `RunOk`; the
monitor rejects wrong behaviour (so acceptance is not trivial). -/

example : Inv { si := 2, ri := 5, wi := 7, data := [1, 2, 3, 4, 5, 6, 7], cap := 512 } := by decide

def demo : List (Op × Int) :=
  [(.write [1, 2, 3, 4, 5, 6], 512), (.commit 4, 512), (.save 3, 512), (.discard 1 1, 512),
   (.consume Go.I64MAX, 512), (.commit Go.I64MIN, 512), (.prepareRead Go.I64MIN, 512), (.shrinkTo Go.I64MIN, 512),
   (.claimFixed Go.I64MAX 7, 512), (.claim 3 9, 512), (.reserve 600, 1024), (.write [8, 9], 1024),
   (.readFrom 5 1 .nil, 1024), (.commit 6, 1024), (.writeTo [(1, false), (0, true)], 1024), (.readByte, 1024),
   (.read 100, 1024), (.readByte, 1024), (.savedSlot 0 2, 1024), (.discardAll, 1024), (.reset, 1024)]

example : RunOk (Model.ByteBuffer.new 512) demo := by decide
example : accepts (Spec.ByteBuffer.init 512) (run (Model.ByteBuffer.new 512) demo) = true := by decide

-- the monitor rejects: an invented byte when only saved bytes exist (the defect repaired by 84f4631) …
example : Spec.ByteBuffer.step { saved := [1, 2], readable := [], pending := [], cap := 512 } .readByte
    { ret := some (.rb (some 0) .nil),
      dump := some { saved := [1, 2], readable := [], pending := [], len := 2, cap := 512, reserved := 510 } } = none := by
  decide
-- … a panic (the defect repaired by 117e551) …
example : Spec.ByteBuffer.step { saved := [], readable := [], pending := [1], cap := 512 } (.commit Go.I64MAX)
    { ret := none, dump := none } = none := by decide
-- … a Consume that loses a pending byte, a Discard that reorders saved bytes, an uncommitted byte shown to a reader
example : Spec.ByteBuffer.step { saved := [], readable := [1, 2], pending := [3], cap := 512 } (.consume 1)
    { ret := some .unit,
      dump := some { saved := [], readable := [2], pending := [], len := 1, cap := 512, reserved := 511 } } = none := by
  decide
example : Spec.ByteBuffer.step { saved := [1, 2, 3], readable := [], pending := [], cap := 512 } (.discard 0 1)
    { ret := some (.int 1),
      dump := some { saved := [3, 2], readable := [], pending := [], len := 2, cap := 512, reserved := 510 } } = none := by
  decide
example : Spec.ByteBuffer.step { saved := [], readable := [1], pending := [2], cap := 512 } (.read 4)
    { ret := some (.rd 2 [1, 2] .nil),
      dump := some { saved := [], readable := [], pending := [], len := 0, cap := 512, reserved := 512 } } = none := by
  decide
-- … and lengths that do not add up
example : Spec.ByteBuffer.step { saved := [], readable := [1], pending := [], cap := 512 } (.commit 0)
    { ret := some .unit,
      dump := some { saved := [], readable := [1], pending := [], len := 2, cap := 512, reserved := 510 } } = none := by
  decide

/-- **Held completion of a write-out** (re-export of `Sonic.Lemmas.ByteBufferHeld.held_completion_commutes`): with `Write`,
`WriteByte`, `WriteString` and `Commit` calls made while the `n` bytes of the read area are with the writer, the completion removes
exactly those bytes: they are still the first `n` readable bytes, what was committed meanwhile stays readable in order, the save
area is untouched — the same state as completing first and making the calls afterwards. -/
theorem C09_held_completion_commutes (ops : List Op) (s s1 : S) (n : Nat)
    (hops : ∀ op ∈ ops, Sonic.Lemmas.ByteBufferHeld.HeldOk op) (hn : n ≤ s.readable.length)
    (h : Sonic.Lemmas.ByteBufferHeld.runEff s ops = some s1) :
    Sonic.Lemmas.ByteBufferHeld.runEff (Sonic.Lemmas.ByteBufferHeld.completed s n) ops
        = some (Sonic.Lemmas.ByteBufferHeld.completed s1 n)
      ∧ s1.readable.take n = s.readable.take n ∧ s1.saved = s.saved :=
  Sonic.Lemmas.ByteBufferHeld.held_completion_commutes ops s s1 n hops hn h

end Sonic.Props.C09
