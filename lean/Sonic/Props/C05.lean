/-
C05 — Post is thread-safe, exactly-once, ordered and wakes the loop.

Over the interleaving model `Sonic.Model.Post` (any number of posting threads, the loop thread, handlers that post
again; every interleaving of their atomic steps), whose step order inside `Post` and `dispatch` is checked below
against the statement order extracted from internal/poll_linux.go on every run, and over the access table
extracted from the same file.  What a theorem cannot exhibit — a data race in the binary, the Go memory model,
`sync.Mutex` itself — is assumed; the stress harness (`harness post direct`, also built with `-race` in the thorough
tier) searches for a failing schedule.
-/
import Sonic.Lemmas.PostInv
import Sonic.Gen.PostAccess

namespace Sonic.Props.C05
open Sonic.Model.Post

variable {nested : H → List H} {progs : Nat → List H}

/-- **Exactly once, in order.** In every reachable state, the handlers already started, then the loop's local
batch, then the queue are exactly the handlers appended so far, in the order they were appended: none is lost,
none is duplicated, and execution follows posting order (globally, hence per posting goroutine). -/
theorem C05_exactly_once_in_order {s : St} (h : Reach nested progs s) :
    s.executed ++ s.batch ++ s.posts = s.postedLog := (reach_inv h).fifo

theorem C05_executed_is_prefix {s : St} (h : Reach nested progs s) : s.executed <+: s.postedLog :=
  ⟨s.batch ++ s.posts, by rw [← List.append_assoc]; exact C05_exactly_once_in_order h⟩

/-- Once the queue has drained, every posted handler has been executed, exactly in posting order. -/
theorem C05_all_executed_when_drained {s : St} (h : Reach nested progs s) (hp : s.posts = []) (hb : s.batch = []) :
    s.executed = s.postedLog := by
  have := C05_exactly_once_in_order h
  rw [hp, hb] at this; simpa using this

/-- **Handlers run on the loop thread only.** A step of a posting thread never starts a handler. -/
theorem C05_on_loop_thread {s s' : St} (i : Nat) (h : step nested s (some i) = some s') : s'.executed = s.executed := by
  simp only [step] at h
  cases hp : posterStep s (some i) (s.posters i) with
  | none => simp [hp] at h
  | some r =>
    obtain ⟨s1, p'⟩ := r
    simp only [hp, Option.some.injEq] at h
    subst h
    rcases posterStep_cases hp with ⟨_, _, _, _, _, rfl, _⟩ | ⟨_, rfl, _⟩ | ⟨_, rfl, _⟩ | ⟨_, rfl, _⟩ <;> rfl

/-- **No lost wake-up.** If the loop is blocked waiting with nothing signalled on the eventfd, and no thread is between
its append and its eventfd write, then the queue is empty. -/
theorem C05_no_lost_wakeup {s : St} (h : Reach nested progs s) (hw : s.lpc = .waiting) (hc : s.counter = 0)
    (hq : ∀ i, ¬ sigP (s.posters i)) : s.posts = [] := by
  by_cases hne : s.posts = []
  · exact hne
  · rcases (reach_inv h).wake hne with h1 | ⟨i, hi⟩ | ⟨h3, _⟩ | h4 | h5
    · omega
    · exact absurd hi (hq i)
    · rw [hw] at h3; cases h3
    · rw [hw] at h4; cases h4
    · rw [hw] at h5; cases h5

/-- **The mutex is held only for non-blocking sections**, by at most one thread, and never while a handler runs
(so a handler can Post): the loop holds it exactly in `swapping`/`unlocking`, or while it performs the locked part of a
nested Post. -/
theorem C05_mutex_discipline {s : St} (h : Reach nested progs s) :
    (∀ i, holdsP (s.posters i) ↔ s.holder = some (some i)) ∧
    ((s.lpc = .swapping ∨ s.lpc = .unlocking ∨ (s.lpc = .inHandler ∧ holdsP s.nest)) ↔ s.holder = some none) :=
  ⟨(reach_inv h).mutexP, (reach_inv h).mutexL⟩

/-- **No deadlock.** If no thread at all can take a step, then there is nothing left to do: every posting thread has
finished, the loop is waiting with an empty queue, and every posted handler has been executed. In particular `Post`
from inside a handler never blocks the loop against itself. -/
theorem C05_no_deadlock {s : St} (h : Reach nested progs s) (hstuck : ∀ t, step nested s t = none) :
    s.lpc = .waiting ∧ s.counter = 0 ∧ s.posts = [] ∧ s.batch = [] ∧ s.executed = s.postedLog ∧
    (∀ i, (s.posters i).pc = .idle ∧ (s.posters i).todo = []) := by
  have hI := reach_inv h
  -- nobody holds the mutex: a holder could always step
  have hfree : s.holder = none := by
    cases hh : s.holder with
    | none => rfl
    | some t =>
      exfalso
      cases t with
      | some i =>
        have hp := (hI.mutexP i).2 hh
        have := hstuck (some i)
        simp only [step, posterStep] at this
        rcases hp with hp | hp <;> simp [hp] at this
      | none =>
        have := hstuck none
        rcases hI.mutexL.2 hh with hl | hl | ⟨hl, hp⟩
        · simp [step, hl] at this
        · simp [step, hl] at this
        · simp only [step, hl, posterStep] at this
          rcases hp with hp | hp <;> simp [hp] at this
  -- every posting thread is idle with nothing to do
  have hposters : ∀ i, (s.posters i).pc = .idle ∧ (s.posters i).todo = [] := by
    intro i
    have := hstuck (some i)
    simp only [step, posterStep] at this
    cases hpc : (s.posters i).pc with
    | idle =>
      cases htodo : (s.posters i).todo with
      | nil => exact ⟨rfl, rfl⟩
      | cons a r => simp [hpc, htodo, hfree] at this
    | locked => simp [hpc] at this
    | appended => simp [hpc] at this
    | unlocked => simp [hpc] at this
  -- the loop thread is blocked in the wait with nothing signalled
  have hloop : s.lpc = .waiting ∧ s.counter = 0 := by
    have := hstuck none
    cases hl : s.lpc with
    | waiting =>
      simp only [step, hl] at this
      refine ⟨rfl, ?_⟩
      by_cases hc : s.counter > 0
      · simp [hc] at this
      · omega
    | draining => simp [step, hl] at this
    | wantLock => simp [step, hl, hfree] at this
    | swapping => simp [step, hl] at this
    | unlocking => simp [step, hl] at this
    | running => simp only [step, hl] at this; split at this <;> simp at this
    | decrementing => simp [step, hl] at this
    | inHandler =>
      simp only [step, hl, posterStep] at this
      cases hpc : s.nest.pc with
      | idle =>
        cases htodo : s.nest.todo with
        | nil => simp [hpc, htodo] at this
        | cons a r => simp [hpc, htodo, hfree] at this
      | locked => simp [hpc] at this
      | appended => simp [hpc] at this
      | unlocked => simp [hpc] at this
  have hposts : s.posts = [] :=
    C05_no_lost_wakeup h hloop.1 hloop.2 (fun i hs => by
      have := (hposters i).1; rcases hs with hs | hs <;> rw [this] at hs <;> cases hs)
  have hbatch : s.batch = [] := hI.batchEmpty (Or.inl hloop.1)
  exact ⟨hloop.1, hloop.2, hposts, hbatch, C05_all_executed_when_drained h hposts hbatch, hposters⟩

/-- **Pending() / Posted() are exact.** The pending count contributed by posts is: queued + taken but not started +
the one currently running; `Posted()` (the queue length, read under the lock) is the first summand. When the loop
is idle both are the number of handlers posted and not yet run. -/
theorem C05_pending_exact {s : St} (h : Reach nested progs s) :
    s.pending = s.posts.length + s.batch.length + (if s.lpc = .inHandler ∨ s.lpc = .decrementing then 1 else 0) :=
  (reach_inv h).pend

theorem C05_pending_zero_when_done {s : St} (h : Reach nested progs s) (hw : s.lpc = .waiting) (hp : s.posts = []) :
    s.pending = 0 := by
  have := C05_pending_exact h
  rw [hw, hp, (reach_inv h).batchEmpty (Or.inl hw)] at this
  simpa using this

/-! ### Tie to the source: access table and statement order, regenerated on every run -/

open Sonic.Gen.PostAccess in
/-- **Race freedom of the access table.** Any two accesses to the same field of the poller, at least one of them a
write, are either both made through `sync/atomic` or both made with `lck` held. -/
theorem C05_race_free :
    ∀ a ∈ table, ∀ b ∈ table, a.field = b.field → (a.write = true ∨ b.write = true) →
      (a.atomic = true ∧ b.atomic = true) ∨ (a.locked = true ∧ b.locked = true) := by
  decide

open Sonic.Gen.PostAccess in
/-- The model's step order inside `Post` and `dispatch` is the source's statement order. -/
theorem C05_source_order :
    seqPost = ["lock", "append:posts", "atomic-inc:pending", "unlock", "wake"] ∧
    seqDispatch = ["loop{", "drain", "}", "lock", "take:posts", "clear:posts", "unlock", "range{", "run",
                   "atomic-dec:pending", "}"] ∧
    seqPosted = ["lock", "defer-unlock"] ∧ seqPending = ["atomic-load:pending"] := by
  decide

/-! Non-vacuity: a concrete interleaving — poster 0 posts handler 7 (which posts 8 when run), the loop wakes, runs 7,
the nested Post of 8 happens on the loop thread, the loop goes round again and runs 8 — is reachable and ends with
everything executed in order. -/
def demoNested : H → List H := fun h => if h = 7 then [8] else []
def demoProgs : Nat → List H := fun i => if i = 0 then [7] else []
def demoSchedule : List (Option Nat) :=
  [some 0, some 0, some 0, some 0,                 -- Post(7): lock, append, unlock, wake
   none, none, none, none, none, none,             -- loop: wake, drain, lock, swap, unlock, run 7
   none, none, none, none,                         -- nested Post(8) on the loop thread
   none, none,                                     -- handler done, pending--
   none,                                           -- batch empty: back to waiting
   none, none, none, none, none, none, none, none, none]  -- second round: run 8

def runSchedule (s : St) : List (Option Nat) → Option St
  | [] => some s
  | t :: r => match step demoNested s t with
    | some s' => runSchedule s' r
    | none => none

example : (runSchedule (init demoProgs) demoSchedule).map (fun s => (s.executed, s.postedLog, s.pending, s.posts)) =
    some ([7, 8], [7, 8], 0, []) := by decide

end Sonic.Props.C05
