/-
C20 — Out-of-order slot retrieval addresses exactly the bytes saved.

Theorems are stated about the hand-written model `Sonic.Model.Slots` (Fenwick tree, offsetter,
sorted container, sequencer, the save area of the buffer; `OffsetSlot` is the definition
regenerated from slot.go) and about the abstract monitor `Sonic.Spec.Slots` (a finite map
`sequence number ↦ bytes` of parked packets).
-/
import Sonic.Lemmas.SlotsFacts

namespace Sonic.Props.C20
open Sonic.Gen.Slot Sonic.Spec.Slots Sonic.Model.Slots Sonic.Lemmas.Fenwick Sonic.Lemmas.SlotsFacts

/-! ## Refinement: the implementation model is accepted by the parked-packets monitor -/

/-- Coupling between implementation state and monitor state: there is a description `G` of the
parked packets (with the original indices the offsetter stored for them) and an array `a` of
discarded lengths such that the buffer holds exactly the parked packets followed by the readable
bytes, and the sequencer's container and tree describe `G` and `a`. -/
def R (m : St) (s : S) : Prop :=
  ∃ (a : Nat → Int) (G : List GE),
    s.maxSlots = m.sq.maxSlots ∧ s.maxBytes = m.sq.maxBytes ∧ s.parked = toParked G ∧
    s.gone = psum a m.sq.tree.length ∧ BufOk m.buf (flat s.parked) s.readable ∧ IdxOk m.sq a G

/-- The sequencer stream: packets of every size (empty ones included), any `Save` argument, any
sequence numbers, any order. -/
def OpOk : Op → Prop
  | .park _ _ _ => True
  | .take _ => True
  | .resetAll => True
  | _ => False
instance : (op : Op) → Decidable (OpOk op)
  | .park _ _ _ => by unfold OpOk; exact inferInstance
  | .take _ => by unfold OpOk; exact inferInstance
  | .add _ _ => by unfold OpOk; exact inferInstance
  | .off _ => by unfold OpOk; exact inferInstance
  | .reset => by unfold OpOk; exact inferInstance
  | .resetAll => by unfold OpOk; exact inferInstance

/-- The configuration: limits are non-negative Go `int`s. -/
def CfgOk (_maxSlots maxBytes : Int) : Prop := 0 ≤ maxBytes ∧ maxBytes ≤ Go.I64MAX
instance (a b : Int) : Decidable (CfgOk a b) := by unfold CfgOk; exact inferInstance

theorem saved_of_bufOk {b : Buf} {sv rd : Bytes} (h : BufOk b sv rd) : b.saved = sv := by
  obtain ⟨hd, hs, _⟩ := h
  unfold Buf.saved
  rw [hd, hs]; simp

theorem toParked_length (G : List GE) : (toParked G).length = G.length := by simp [toParked]

theorem dup_iff (s : S) (G : List GE) (hp : s.parked = toParked G) (hn : G.Pairwise (fun g1 g2 => g1.seq ≠ g2.seq))
    (seq : Int) : Dup s seq ↔ ∃ g ∈ G, g.seq = seq := by
  unfold Dup
  rw [hp]
  constructor
  · intro h
    apply Classical.byContradiction
    intro hno
    rw [lookup_toParked_none G seq hno] at h
    cases h
  · rintro ⟨g, hg, rfl⟩
    obtain ⟨G1, G2, rfl⟩ := List.append_of_mem hg
    rw [lookup_toParked_some G1 G2 g (nodup_unique hn).1]; rfl

/-- The monitor's verdict on a `park`, in a form that can be applied. -/
theorem spec_park (s : S) (seq : Int) (bytes : Bytes) (n i l : Int) (ok err : Bool) (total size : Int) (saved : Bytes)
    (h1 : PushOk s seq (saveLen n (s.readable ++ bytes).length) ok err)
    (h2 : Totals (if ok = true then s.parked ++ [(seq, (s.readable ++ bytes).take (saveLen n (s.readable ++ bytes).length))]
      else s.parked) total size saved) :
    Spec.Slots.step s (.park seq bytes n) (.park i l ok err total size saved) =
      some { s with readable := (s.readable ++ bytes).drop (saveLen n (s.readable ++ bytes).length),
                    parked := if ok = true then s.parked ++ [(seq, (s.readable ++ bytes).take (saveLen n (s.readable ++ bytes).length))]
                      else s.parked } := by
  unfold Spec.Slots.step
  dsimp only
  rw [if_pos ⟨h1, h2⟩]

theorem step_park (m : St) (s : S) (seq : Int) (bytes : Bytes) (n : Int) (hR : R m s) :
    ∃ s', Spec.Slots.step s (.park seq bytes n) (Model.Slots.step m (.park seq bytes n)).2 = some s' ∧
          R (Model.Slots.step m (.park seq bytes n)).1 s' := by
  obtain ⟨a, G, c1, c2, hpk, hgone, hbuf, hidx⟩ := hR
  -- the packet
  have hkle := saveLen_le n (s.readable ++ bytes).length
  have hpktlen : ((s.readable ++ bytes).take (saveLen n (s.readable ++ bytes).length)).length
      = saveLen n (s.readable ++ bytes).length := by
    rw [List.length_take]; omega
  have hgl : (flat s.parked).length = glen G := by rw [hpk]; rfl
  obtain ⟨hs0, hs1⟩ := sidx_le G ((s.readable ++ bytes).take (saveLen n (s.readable ++ bytes).length))
  -- Write; Commit; Save
  obtain ⟨hf1, hf2⟩ := feed_spec m.buf (flat s.parked) s.readable bytes n hbuf
  have hf2' : (feed m.buf bytes n).2 = ⟨sidx G ((s.readable ++ bytes).take (saveLen n (s.readable ++ bytes).length)),
      ((s.readable ++ bytes).take (saveLen n (s.readable ++ bytes).length)).length⟩ := by
    rw [hf2, hpktlen]
    unfold sidx
    by_cases hk0 : saveLen n (s.readable ++ bytes).length = 0
    · rw [if_pos hk0, hk0]; simp
    · rw [if_neg hk0, if_neg (by
        intro hx; have h' := congrArg List.length hx; rw [hpktlen, List.length_nil] at h'; exact hk0 h'), hgl]
  -- Push
  have hps := push_spec m.sq a G hidx seq ((s.readable ++ bytes).take (saveLen n (s.readable ++ bytes).length))
  -- a failed Push is followed by Discard of the slot just saved
  have hdis := discard_at (feed m.buf bytes n).1 (flat s.parked)
    ((s.readable ++ bytes).take (saveLen n (s.readable ++ bytes).length)) [] _
    (sidx G ((s.readable ++ bytes).take (saveLen n (s.readable ++ bytes).length)))
    (by rw [List.append_nil]; exact hf1)
    (by intro hne; unfold sidx; rw [if_neg hne, hgl])
    hs0 (Int.le_trans hs1 (by rw [← hgl]; exact Int.ofNat_le.mpr (by simp)))
  simp only [List.append_nil] at hdis
  obtain ⟨_, _, b', r', hd1, hd2⟩ := hdis
  have hsv' := saved_of_bufOk hd2
  have hsv1 := saved_of_bufOk hf1
  have hdupiff := dup_iff s G hpk hidx.nodup seq
  have hOB : OverBytes s (saveLen n (s.readable ++ bytes).length) ↔
      (glen G : Int) + ((s.readable ++ bytes).take (saveLen n (s.readable ++ bytes).length)).length > m.sq.maxBytes := by
    unfold OverBytes; rw [hgl, c2, hpktlen]
  have hOS : OverSlots s ↔ (G.length : Int) ≥ m.sq.maxSlots := by
    unfold OverSlots; rw [hpk, toParked_length, c1]
  have hIS : sidx G ((s.readable ++ bytes).take (saveLen n (s.readable ++ bytes).length)) + psum a m.sq.tree.length
      ≥ m.sq.maxBytes → IndexSpaceUsedUp s := by
    intro hx; unfold IndexSpaceUsedUp; rw [hgl, c2, hgone]; omega
  have htot : Totals s.parked m.sq.bytes m.sq.size (flat s.parked) := by
    refine ⟨by rw [hidx.bytes, hgl], ?_, rfl⟩
    unfold Seqr.size; rw [hidx.len, hpk, toParked_length]
  -- what the model does when the Push failed
  have hfail : ∀ err : Bool, m.sq.push seq (feed m.buf bytes n).2 = (m.sq, false, err) →
      (Model.Slots.step m (.park seq bytes n)) =
        ({ m with buf := b', sq := m.sq }, .park (feed m.buf bytes n).2.Index (feed m.buf bytes n).2.Length false err
          m.sq.bytes m.sq.size (flat s.parked)) := by
    intro err he
    unfold Model.Slots.step
    dsimp only
    rw [he]
    dsimp only
    rw [if_neg (by simp)]
    rw [hf2', hd1]
    dsimp only
    rw [hsv']
  have hRfail : R { m with buf := b', sq := m.sq }
      { s with readable := (s.readable ++ bytes).drop (saveLen n (s.readable ++ bytes).length) } :=
    ⟨a, G, c1, c2, hpk, hgone, hd2, hidx⟩
  rw [← hf2'] at hps
  rcases hps with ⟨h1, he⟩ | ⟨h1, he⟩ | ⟨h0, h1, he⟩ | ⟨h0, h1, he⟩ | ⟨h0, h1, h2, q', he, hq', e1, e2, e3⟩
  · -- byte limit
    rw [hfail true he]
    exact ⟨_, spec_park s seq bytes n _ _ false true _ _ _ ⟨by simp, fun _ => ⟨rfl, Or.inl (hOB.mpr h1)⟩, by simp⟩ htot, hRfail⟩
  · -- index space used up
    rw [hfail true he]
    exact ⟨_, spec_park s seq bytes n _ _ false true _ _ _ ⟨by simp, fun _ => ⟨rfl, Or.inr (Or.inr (hIS h1))⟩, by simp⟩ htot, hRfail⟩
  · -- duplicate
    rw [hfail false he]
    exact ⟨_, spec_park s seq bytes n _ _ false false _ _ _ ⟨by simp, by simp, fun _ _ => hdupiff.mpr h1⟩ htot, hRfail⟩
  · -- slot limit
    rw [hfail true he]
    exact ⟨_, spec_park s seq bytes n _ _ false true _ _ _ ⟨by simp, fun _ => ⟨rfl, Or.inr (Or.inl (hOS.mpr h1))⟩, by simp⟩ htot, hRfail⟩
  · -- accepted
    have hstep : (Model.Slots.step m (.park seq bytes n)) =
        ({ m with buf := (feed m.buf bytes n).1, sq := q' },
          .park (feed m.buf bytes n).2.Index (feed m.buf bytes n).2.Length true false q'.bytes q'.size
            (flat s.parked ++ (s.readable ++ bytes).take (saveLen n (s.readable ++ bytes).length))) := by
      unfold Model.Slots.step
      dsimp only
      rw [he]
      dsimp only
      rw [if_pos rfl, hsv1]
    rw [hstep]
    have hpk' : s.parked ++ [(seq, (s.readable ++ bytes).take (saveLen n (s.readable ++ bytes).length))] =
        toParked (G ++ [⟨seq, (sidx G ((s.readable ++ bytes).take (saveLen n (s.readable ++ bytes).length)) +
          psum a m.sq.tree.length).toNat,
          (s.readable ++ bytes).take (saveLen n (s.readable ++ bytes).length)⟩]) := by
      rw [toParked_append, hpk]; rfl
    have hflat' : flat (s.parked ++ [(seq, (s.readable ++ bytes).take (saveLen n (s.readable ++ bytes).length))]) =
        flat s.parked ++ (s.readable ++ bytes).take (saveLen n (s.readable ++ bytes).length) := by
      rw [flat_append]; simp [flat]
    refine ⟨_, spec_park s seq bytes n _ _ true false _ _ _ ⟨fun _ => ⟨rfl, fun hx => h1 (hdupiff.mp hx),
        fun hx => h0 (hOB.mp hx), fun hx => h2 (hOS.mp hx)⟩, by simp, by simp⟩ ?_, ?_⟩
    · show Totals (s.parked ++ [(seq, (s.readable ++ bytes).take (saveLen n (s.readable ++ bytes).length))]) _ _ _
      refine ⟨?_, ?_, hflat'.symm⟩
      · rw [hq'.bytes, hpk']; rfl
      · unfold Seqr.size; rw [hq'.len, hpk', toParked_length]
    · refine ⟨a, _, by rw [e2]; exact c1, by rw [e1]; exact c2, hpk', by rw [e3]; exact hgone, ?_, hq'⟩
      show BufOk (feed m.buf bytes n).1
        (flat (s.parked ++ [(seq, (s.readable ++ bytes).take (saveLen n (s.readable ++ bytes).length))])) _
      rw [hflat']; exact hf1

theorem spec_take_miss (s : S) (seq i l : Int) (ad : Option Bytes) (total size : Int) (saved : Bytes)
    (h0 : s.parked.lookup seq = none) (h1 : Totals s.parked total size saved) :
    Spec.Slots.step s (.take seq) (.take false i l ad total size saved) = some s := by
  unfold Spec.Slots.step
  dsimp only
  rw [h0]
  dsimp only
  rw [if_pos ⟨rfl, h1⟩]

theorem spec_take_hit (s : S) (seq i l : Int) (ad : Option Bytes) (total size : Int) (saved pkt : Bytes)
    (h0 : s.parked.lookup seq = some pkt) (h1 : Addresses s.parked pkt i l ad)
    (h2 : Totals (without s.parked seq) total size saved) :
    Spec.Slots.step s (.take seq) (.take true i l ad total size saved) =
      some { s with parked := without s.parked seq,
                    gone := if without s.parked seq = [] then 0 else s.gone + pkt.length } := by
  unfold Spec.Slots.step
  dsimp only
  rw [h0]
  dsimp only
  rw [if_pos ⟨rfl, h1, h2⟩]

/-- `Pop` + `SavedSlot` + `Discard` of a parked packet, whatever was discarded before. -/
theorem take_hit (m : St) (s : S) (seq : Int) (pkt : Bytes) (hR : R m s) (hp : s.parked.lookup seq = some pkt) :
    ∃ q' b' r idx, m.sq.pop seq = some (q', ⟨idx, pkt.length⟩, true) ∧
      slice (flat s.parked) idx pkt.length = some pkt ∧
      m.buf.savedSlot ⟨idx, pkt.length⟩ = some pkt ∧
      m.buf.discard ⟨idx, pkt.length⟩ = some (b', r) ∧ b'.saved = flat (without s.parked seq) ∧
      q'.bytes = (flat (without s.parked seq)).length ∧ q'.size = (without s.parked seq).length ∧
      R { m with buf := b', sq := q' }
        { s with parked := without s.parked seq, gone := if without s.parked seq = [] then 0 else s.gone + pkt.length } := by
  obtain ⟨a, G, c1, c2, hpk, hgone, hbuf, hidx⟩ := hR
  have hin : ∃ g ∈ G, g.seq = seq := by
    apply Classical.byContradiction
    intro hno
    rw [hpk, lookup_toParked_none G seq hno] at hp; cases hp
  obtain ⟨g, hg, rfl⟩ := hin
  obtain ⟨G1, G2, rfl⟩ := List.append_of_mem hg
  obtain ⟨hu1, hu2⟩ := nodup_unique hidx.nodup
  have hpkt : pkt = g.bytes := by
    rw [hpk, lookup_toParked_some G1 G2 g hu1] at hp; exact (Option.some.inj hp).symm
  subst hpkt
  obtain ⟨q', a', idx, hpop, hi1, hi2, hi3, hq', e1, e2, hps⟩ := pop_hit m.sq a G1 G2 g hidx
  have hflat : flat s.parked = flat (toParked G1) ++ g.bytes ++ flat (toParked G2) := by
    rw [hpk, toParked_append, flat_append]
    show _ ++ (g.bytes ++ flat (toParked G2)) = _
    rw [List.append_assoc]
  have hbuf' := hbuf
  rw [hflat] at hbuf'
  have hlen1 : (flat (toParked G1)).length = glen G1 := rfl
  obtain ⟨hslice, hsl, b', r', hd1, hd2⟩ := discard_at m.buf _ _ _ _ idx hbuf'
    (by intro hne; rw [hlen1]; exact hi1 hne) hi2
    (by rw [← hflat, hpk]; exact hi3)
  have hrest : without s.parked g.seq = toParked (G1 ++ G2) := by
    rw [hpk]; exact without_toParked G1 G2 g hu1 hu2
  have hflat' : flat (toParked (G1 ++ G2)) = flat (toParked G1) ++ flat (toParked G2) := by
    rw [toParked_append, flat_append]
  refine ⟨q', b', r', idx, hpop, ?_, hsl, hd1, ?_, ?_, ?_, ?_⟩
  · rw [hflat]; exact hslice
  · rw [saved_of_bufOk hd2, hrest, hflat']
  · rw [hq'.bytes, hrest]; rfl
  · unfold Seqr.size; rw [hq'.len, hrest, toParked_length]
  · refine ⟨a', G1 ++ G2, by rw [e2]; exact c1, by rw [e1]; exact c2, hrest, ?_, ?_, hq'⟩
    · show (if without s.parked g.seq = [] then 0 else s.gone + (g.bytes.length : Int)) = _
      rw [hps, hrest, hgone]
      by_cases hE : G1 ++ G2 = []
      · rw [if_pos hE, if_pos (by rw [hE]; rfl)]
      · rw [if_neg hE, if_neg (by
          intro hx; apply hE
          have := congrArg List.length hx
          rw [toParked_length] at this
          exact List.length_eq_zero_iff.mp this)]
    · show BufOk b' (flat (without s.parked g.seq)) s.readable
      rw [hrest, hflat']; exact hd2

theorem step_take (m : St) (s : S) (seq : Int) (hR : R m s) :
    ∃ s', Spec.Slots.step s (.take seq) (Model.Slots.step m (.take seq)).2 = some s' ∧
          R (Model.Slots.step m (.take seq)).1 s' := by
  cases hl : s.parked.lookup seq with
  | some pkt =>
    obtain ⟨q', b', r', idx, hpop, hslice, hsl, hd1, hsv, hby, hsz, hR'⟩ := take_hit m s seq pkt hR hl
    have hstep : Model.Slots.step m (.take seq) =
        ({ m with buf := b', sq := q' },
          .take true idx pkt.length (some pkt) q'.bytes q'.size (flat (without s.parked seq))) := by
      unfold Model.Slots.step
      dsimp only
      rw [hpop]
      dsimp only
      rw [if_pos rfl, hd1]
      dsimp only
      rw [hsl, hsv]
    rw [hstep]
    exact ⟨_, spec_take_hit s seq _ _ _ _ _ _ pkt hl ⟨hslice, rfl⟩ ⟨hby, hsz, rfl⟩, hR'⟩
  | none =>
    obtain ⟨a, G, c1, c2, hpk, hgone, hbuf, hidx⟩ := hR
    have hin : ¬ ∃ g ∈ G, g.seq = seq := by
      intro hx
      have := (dup_iff s G hpk hidx.nodup seq).mpr hx
      unfold Dup at this; rw [hl] at this; cases this
    have hgl : (flat s.parked).length = glen G := by rw [hpk]; rfl
    have htot : Totals s.parked m.sq.bytes m.sq.size (flat s.parked) := by
      refine ⟨by rw [hidx.bytes, hgl], ?_, rfl⟩
      unfold Seqr.size; rw [hidx.len, hpk, toParked_length]
    have hpop := pop_miss m.sq a G hidx seq hin
    have hstep : Model.Slots.step m (.take seq) =
        (m, .take false 0 0 none m.sq.bytes m.sq.size (flat s.parked)) := by
      unfold Model.Slots.step
      dsimp only
      rw [hpop]
      dsimp only
      rw [if_neg (by simp), saved_of_bufOk hbuf]
    rw [hstep]
    exact ⟨s, spec_take_miss s seq _ _ _ _ _ _ hl htot, a, G, c1, c2, hpk, hgone, hbuf, hidx⟩

/-- `SlotSequencer.Reset()` with whatever is parked, followed by `DiscardAll()`: nothing is parked any more, the save
area is empty, what was only readable is still readable, and the sequencer is as good as new (coupled to the monitor
with no packet and no discarded prefix). -/
theorem step_resetAll (m : St) (s : S) (hR : R m s) :
    ∃ s', Spec.Slots.step s .resetAll (Model.Slots.step m .resetAll).2 = some s' ∧
          R (Model.Slots.step m .resetAll).1 s' := by
  obtain ⟨a, G, c1, c2, hpk, hgone, hbuf, hidx⟩ := hR
  obtain ⟨hd, hs, hr⟩ := hbuf
  -- DiscardAll on a buffer whose save area is `flat s.parked`
  have hda : ∃ b, m.buf.discardAll = some b ∧ BufOk b [] s.readable := by
    unfold Buf.discardAll Buf.discard Buf.saveLen
    by_cases h0 : m.buf.si ≤ 0
    · dsimp only
      rw [if_pos h0]
      have hnil : flat s.parked = [] := List.eq_nil_of_length_eq_zero (by omega)
      refine ⟨m.buf, rfl, ?_, ?_, hr⟩
      · rw [hd, hnil]
      · rw [hs, hnil]
    · dsimp only
      rw [if_neg h0]
      have hwi : m.buf.wi = ((flat s.parked).length + s.readable.length : Nat) := by
        unfold Buf.wi; rw [hd, List.length_append]
      rw [if_pos ⟨Int.le_refl 0, by rw [hwi, hs]; omega⟩]
      refine ⟨_, rfl, ?_, ?_, ?_⟩
      · dsimp only
        rw [hs, hd]
        simp
      · dsimp only; rw [hs]; simp
      · dsimp only
        rw [hr, hs, hd]
        simp
        omega
  obtain ⟨b, hb, hbok⟩ := hda
  have hstep : Model.Slots.step m .resetAll = ({ m with buf := b, sq := m.sq.reset }, .unit) := by
    show (match m.buf.discardAll with | none => (m, Obs.panic) | some b => ({ m with buf := b, sq := m.sq.reset }, Obs.unit)) = _
    rw [hb]
  rw [hstep]
  refine ⟨{ s with parked := [], gone := 0 }, rfl, fun _ => 0, [], c1, c2, rfl, (psum_zero _).symm, hbok, ?_⟩
  constructor
  · exact hidx.nLo
  · exact hidx.nHi
  · show ((m.sq.tree.reset).length : Int) = _
    rw [reset_length]; exact hidx.treeLen
  · exact List.Pairwise.nil
  · intro e; simp [Seqr.reset]
  · rfl
  · exact List.Pairwise.nil
  · rfl
  · exact off_reset _

/-- One workflow step of the implementation model is accepted by the monitor and preserves the coupling. -/
theorem step_refines (m : St) (s : S) (op : Op) (hR : R m s) (hop : OpOk op) :
    ∃ s', Spec.Slots.step s op (Model.Slots.step m op).2 = some s' ∧ R (Model.Slots.step m op).1 s' := by
  cases op with
  | park seq bytes n => exact step_park m s seq bytes n hR
  | take seq => exact step_take m s seq hR
  | add _ _ => exact absurd hop id
  | off _ => exact absurd hop id
  | reset => exact absurd hop id
  | resetAll => exact step_resetAll m s hR

theorem run_accepted (m : St) (s : S) (ops : List Op) (hR : R m s) (hops : ∀ op ∈ ops, OpOk op) :
    accepts s (run m ops) = true := by
  induction ops generalizing m s with
  | nil => rfl
  | cons op r ih =>
    obtain ⟨s', h1, h2⟩ := step_refines m s op hR (hops op (List.mem_cons_self ..))
    simp only [run, accepts, h1]
    exact ih _ _ h2 (fun o ho => hops o (List.mem_cons_of_mem _ ho))

theorem R_init (maxSlots maxBytes : Int) (h : CfgOk maxSlots maxBytes) :
    R (Model.Slots.init maxSlots maxBytes) (Spec.Slots.init maxSlots maxBytes) := by
  refine ⟨fun _ => 0, [], rfl, rfl, rfl, (psum_zero _).symm, ⟨rfl, rfl, rfl⟩, ?_⟩
  constructor
  · exact h.1
  · exact h.2
  · show ((Tree.new maxBytes).length : Int) = maxBytes
    rw [new_length]; have := h.1; omega
  · exact List.Pairwise.nil
  · intro e; simp [Model.Slots.init, Seqr.new]
  · rfl
  · exact List.Pairwise.nil
  · rfl
  · exact off_new maxBytes

/-- **C20 (main theorem).** For every pair of limits and every interleaving of `park` (any sequence
numbers in any order, duplicates, every size including empty packets, limits hit or not), `take` (parked or not,
in any order, draining the sequencer or never draining it) and `resetAll` (`SlotSequencer.Reset()` + `DiscardAll()` with
whatever is parked, after which the sequencer is used again), everything the implementation model
returns is accepted by the parked-packets monitor: the slot `Pop` returns, applied to the save area
as it is at that moment, addresses exactly the bytes saved under that number; discarding it removes
exactly those bytes and leaves every other parked packet in place; duplicates are rejected without
effect; the byte and slot limits are reported as errors that change nothing; `Bytes()`, `Size()` and
the save area equal the parked totals; and nothing panics. -/
theorem C20_addresses_saved_bytes (maxSlots maxBytes : Int) (h : CfgOk maxSlots maxBytes)
    (ops : List Op) (hops : ∀ op ∈ ops, OpOk op) :
    accepts (Spec.Slots.init maxSlots maxBytes) (run (Model.Slots.init maxSlots maxBytes) ops) = true :=
  run_accepted _ _ ops (R_init maxSlots maxBytes h) hops

/-- The coupling holds in every reachable state, with the monitor state reached on the same script. -/
theorem C20_inv_reachable (maxSlots maxBytes : Int) (h : CfgOk maxSlots maxBytes)
    (ops : List Op) (hops : ∀ op ∈ ops, OpOk op) :
    ∃ s, R (ops.foldl (fun m op => (Model.Slots.step m op).1) (Model.Slots.init maxSlots maxBytes)) s := by
  suffices ∀ m s, R m s → ∃ s', R (ops.foldl (fun m op => (Model.Slots.step m op).1) m) s' from
    this _ _ (R_init maxSlots maxBytes h)
  induction ops with
  | nil => intro m s hR; exact ⟨s, hR⟩
  | cons op r ih =>
    intro m s hR
    obtain ⟨s', _, h2⟩ := step_refines m s op hR (hops op (List.mem_cons_self ..))
    exact ih (fun o ho => hops o (List.mem_cons_of_mem _ ho)) _ s' h2

/-! ## The clauses of C20 stated outright, for any state coupled to a map of parked packets -/

/-- `Bytes()`, `Size()` and `Saved()` equal the parked totals. -/
theorem C20_totals (m : St) (s : S) (hR : R m s) :
    m.sq.bytes = (flat s.parked).length ∧ m.sq.size = s.parked.length ∧ m.buf.saved = flat s.parked := by
  obtain ⟨a, G, _, _, hpk, _, hbuf, hidx⟩ := hR
  refine ⟨by rw [hidx.bytes, hpk]; rfl, ?_, saved_of_bufOk hbuf⟩
  unfold Seqr.size; rw [hidx.len, hpk, toParked_length]

/-- Whatever was discarded before, `Pop` of a parked number returns a slot that — applied to the
buffer as it is at that moment — addresses exactly the bytes saved under that number. -/
theorem C20_pop_addresses (m : St) (s : S) (seq : Int) (pkt : Bytes) (hR : R m s)
    (hp : s.parked.lookup seq = some pkt) :
    ∃ q' slot, m.sq.pop seq = some (q', slot, true) ∧ m.buf.savedSlot slot = some pkt ∧
      slice m.buf.saved slot.Index slot.Length = some pkt := by
  obtain ⟨q', b', r', idx, hpop, hslice, hsl, _, _, _, _, _⟩ := take_hit m s seq pkt hR hp
  exact ⟨q', _, hpop, hsl, by rw [(C20_totals m s hR).2.2]; exact hslice⟩

/-- Discarding that slot removes exactly those bytes: the save area is then the remaining packets
in their order, each still parked under its number (the coupling holds again, so
`C20_pop_addresses` applies to every one of them in turn). -/
theorem C20_discard_exact (m : St) (s : S) (seq : Int) (pkt : Bytes) (hR : R m s)
    (hp : s.parked.lookup seq = some pkt) :
    ∃ q' slot b' r, m.sq.pop seq = some (q', slot, true) ∧ m.buf.discard slot = some (b', r) ∧
      b'.saved = flat (without s.parked seq) ∧
      R { m with buf := b', sq := q' }
        { s with parked := without s.parked seq, gone := if without s.parked seq = [] then 0 else s.gone + pkt.length } := by
  obtain ⟨q', b', r', idx, hpop, _, _, hd1, hsv, _, _, hR'⟩ := take_hit m s seq pkt hR hp
  exact ⟨q', _, b', r', hpop, hd1, hsv, hR'⟩

/-- What a `park` can answer, and what it leaves behind: either the packet is accepted (new number,
no limit hit) and is parked at the end of the save area, or it is rejected — silently only if the
number is already parked, with an error only if a limit is hit — and then the sequencer and the
save area are exactly as before. -/
theorem C20_park_verdict (m : St) (s : S) (seq : Int) (bytes : Bytes) (n : Int) (hR : R m s) :
    ∃ i l ok err total size saved,
      (Model.Slots.step m (.park seq bytes n)).2 = .park i l ok err total size saved ∧
      PushOk s seq (saveLen n (s.readable ++ bytes).length) ok err ∧
      (ok = false → saved = flat s.parked ∧ total = (flat s.parked).length ∧ size = s.parked.length) ∧
      (ok = true → saved = flat s.parked ++ (s.readable ++ bytes).take (saveLen n (s.readable ++ bytes).length)) := by
  obtain ⟨s', h1, _⟩ := step_park m s seq bytes n hR
  cases hobs : (Model.Slots.step m (.park seq bytes n)).2 with
  | park i l ok err total size saved =>
    rw [hobs] at h1
    unfold Spec.Slots.step at h1
    dsimp only at h1
    by_cases hc : PushOk s seq (saveLen n (s.readable ++ bytes).length) ok err ∧
        Totals (if ok = true then s.parked ++ [(seq, (s.readable ++ bytes).take (saveLen n (s.readable ++ bytes).length))]
          else s.parked) total size saved
    · obtain ⟨hpush, ht1, ht2, ht3⟩ := hc
      refine ⟨i, l, ok, err, total, size, saved, rfl, hpush, ?_, ?_⟩
      · intro hok
        rw [hok] at ht1 ht2 ht3
        exact ⟨ht3, ht1, ht2⟩
      · intro hok
        rw [hok] at ht3
        rw [ht3]
        show flat (s.parked ++ _) = _
        rw [flat_append]; simp [flat]
    · rw [if_neg hc] at h1; cases h1
  | take _ _ _ _ _ _ _ => rw [hobs] at h1; cases h1
  | add _ _ _ _ _ _ => rw [hobs] at h1; cases h1
  | off _ _ _ _ => rw [hobs] at h1; cases h1
  | unit => rw [hobs] at h1; cases h1
  | skip => rw [hobs] at h1; cases h1
  | panic => rw [hobs] at h1; cases h1

/-- Duplicate sequence numbers are rejected without disturbing stored ones. -/
theorem C20_duplicates (m : St) (s : S) (seq : Int) (bytes : Bytes) (n : Int) (hR : R m s) (hd : Dup s seq) :
    ∃ i l err, (Model.Slots.step m (.park seq bytes n)).2 =
      .park i l false err ((flat s.parked).length) s.parked.length (flat s.parked) := by
  obtain ⟨i, l, ok, err, total, size, saved, h1, hpush, hno, _⟩ := C20_park_verdict m s seq bytes n hR
  cases ok with
  | true => exact absurd hd (hpush.1 rfl).2.1
  | false =>
    obtain ⟨e1, e2, e3⟩ := hno rfl
    rw [e1, e2, e3] at h1
    exact ⟨i, l, err, h1⟩

/-- The byte and slot limits are reported as errors and leave the state unchanged (for a number
that is already parked see `C20_duplicates`: rejected, with or without an error, state unchanged). -/
theorem C20_capacity_errors_preserve_state (m : St) (s : S) (seq : Int) (bytes : Bytes) (n : Int) (hR : R m s)
    (hnew : ¬ Dup s seq) (hlim : OverBytes s (saveLen n (s.readable ++ bytes).length) ∨ OverSlots s) :
    ∃ i l, (Model.Slots.step m (.park seq bytes n)).2 =
      .park i l false true ((flat s.parked).length) s.parked.length (flat s.parked) := by
  obtain ⟨i, l, ok, err, total, size, saved, h1, hpush, hno, _⟩ := C20_park_verdict m s seq bytes n hR
  cases ok with
  | true =>
    have := hpush.1 rfl
    rcases hlim with h | h
    · exact absurd h this.2.2.1
    · exact absurd h this.2.2.2
  | false =>
    obtain ⟨e1, e2, e3⟩ := hno rfl
    rw [e1, e2, e3] at h1
    cases err with
    | true => exact ⟨i, l, h1⟩
    | false => exact absurd (hpush.2.2 rfl rfl) hnew

/-! ## The bare `SlotOffsetter` (stream `add` / `off` / `reset`, slots named by handles) -/

def toLive (G : List GE) : List (Int × Slot) := G.map (fun g => (g.seq, ⟨(g.o : Int), (g.bytes.length : Int)⟩))

theorem lookup_toLive_none (G : List GE) (h : Int) (hno : ¬ ∃ g ∈ G, g.seq = h) : (toLive G).lookup h = none := by
  induction G with
  | nil => rfl
  | cons g r ih =>
    have h1 : ¬ g.seq = h := fun hq => hno ⟨g, List.mem_cons_self .., hq⟩
    have h2 : ¬ ∃ g ∈ r, g.seq = h := fun ⟨x, hx, hq⟩ => hno ⟨x, List.mem_cons_of_mem _ hx, hq⟩
    show List.lookup h ((g.seq, _) :: toLive r) = none
    rw [List.lookup_cons]
    have : (h == g.seq) = false := by simp; omega
    rw [this]; exact ih h2

theorem lookup_toLive_some (G1 G2 : List GE) (g : GE) (h : ∀ x ∈ G1, x.seq ≠ g.seq) :
    (toLive (G1 ++ g :: G2)).lookup g.seq = some ⟨(g.o : Int), (g.bytes.length : Int)⟩ := by
  induction G1 with
  | nil => show List.lookup g.seq ((g.seq, _) :: toLive G2) = _; simp
  | cons x r ih =>
    show List.lookup g.seq ((x.seq, _) :: toLive (r ++ g :: G2)) = _
    rw [List.lookup_cons]
    have h1 := h x (List.mem_cons_self ..)
    have : (g.seq == x.seq) = false := by simp; omega
    rw [this]; exact ih (fun y hy => h y (List.mem_cons_of_mem _ hy))

theorem filter_toLive (G1 G2 : List GE) (g : GE) (h1 : ∀ x ∈ G1, x.seq ≠ g.seq) (h2 : ∀ x ∈ G2, x.seq ≠ g.seq) :
    (toLive (G1 ++ g :: G2)).filter (fun p => p.1 != g.seq) = toLive (G1 ++ G2) := by
  unfold toLive
  simp only [List.map_append, List.map_cons, List.filter_append, List.filter_cons]
  rw [if_neg (by simp)]
  congr 1
  · apply List.filter_eq_self.mpr
    intro p hp
    obtain ⟨x, hx, rfl⟩ := List.mem_map.mp hp
    simpa using h1 x hx
  · apply List.filter_eq_self.mpr
    intro p hp
    obtain ⟨x, hx, rfl⟩ := List.mem_map.mp hp
    simpa using h2 x hx

/-- Coupling for the offsetter-only stream. -/
def Roff (m : St) (s : S) : Prop :=
  ∃ (a : Nat → Int) (G : List GE),
    (m.tree.length : Int) = s.maxBytes ∧ s.maxBytes ≤ Go.I64MAX ∧ s.parked = toParked G ∧
    s.gone = psum a m.tree.length ∧ BufOk m.buf (flat s.parked) s.readable ∧ OffOk m.tree a G ∧
    m.live = toLive G ∧ m.next = s.next ∧ (∀ g ∈ G, g.seq < s.next) ∧
    G.Pairwise (fun g1 g2 => g1.seq ≠ g2.seq)

def OpOkOff : Op → Prop
  | .add _ _ => True
  | .off _ => True
  | .reset => True
  | _ => False
instance : (op : Op) → Decidable (OpOkOff op)
  | .park _ _ _ => by unfold OpOkOff; exact inferInstance
  | .take _ => by unfold OpOkOff; exact inferInstance
  | .add _ _ => by unfold OpOkOff; exact inferInstance
  | .off _ => by unfold OpOkOff; exact inferInstance
  | .reset => by unfold OpOkOff; exact inferInstance
  | .resetAll => by unfold OpOkOff; exact inferInstance

theorem spec_add (s : S) (bytes : Bytes) (n i l : Int) (err : Bool) (i' l' : Int) (saved : Bytes)
    (h1 : err = true → IndexSpaceUsedUp s)
    (h2 : saved = flat (if err = false then s.parked ++ [(s.next, (s.readable ++ bytes).take (saveLen n (s.readable ++ bytes).length))]
      else s.parked)) :
    Spec.Slots.step s (.add bytes n) (.add i l err i' l' saved) =
      some { s with readable := (s.readable ++ bytes).drop (saveLen n (s.readable ++ bytes).length),
                    parked := if err = false then s.parked ++ [(s.next, (s.readable ++ bytes).take (saveLen n (s.readable ++ bytes).length))]
                      else s.parked,
                    next := if err = false then s.next + 1 else s.next } := by
  unfold Spec.Slots.step
  dsimp only
  rw [if_pos ⟨h1, h2⟩]

theorem step_add (m : St) (s : S) (bytes : Bytes) (n : Int) (hR : Roff m s) :
    ∃ s', Spec.Slots.step s (.add bytes n) (Model.Slots.step m (.add bytes n)).2 = some s' ∧
          Roff (Model.Slots.step m (.add bytes n)).1 s' := by
  obtain ⟨a, G, c1, c2, hpk, hgone, hbuf, hoff, hlive, hnext, hfresh, hnodup⟩ := hR
  have hkle := saveLen_le n (s.readable ++ bytes).length
  have hpktlen : ((s.readable ++ bytes).take (saveLen n (s.readable ++ bytes).length)).length
      = saveLen n (s.readable ++ bytes).length := by
    rw [List.length_take]; omega
  have hgl : (flat s.parked).length = glen G := by rw [hpk]; rfl
  obtain ⟨hs0, hs1⟩ := sidx_le G ((s.readable ++ bytes).take (saveLen n (s.readable ++ bytes).length))
  obtain ⟨hf1, hf2⟩ := feed_spec m.buf (flat s.parked) s.readable bytes n hbuf
  have hf2' : (feed m.buf bytes n).2 = ⟨sidx G ((s.readable ++ bytes).take (saveLen n (s.readable ++ bytes).length)),
      ((s.readable ++ bytes).take (saveLen n (s.readable ++ bytes).length)).length⟩ := by
    rw [hf2, hpktlen]
    unfold sidx
    by_cases hk0 : saveLen n (s.readable ++ bytes).length = 0
    · rw [if_pos hk0, hk0]; simp
    · rw [if_neg hk0, if_neg (by
        intro hx; have h' := congrArg List.length hx; rw [hpktlen, List.length_nil] at h'; exact hk0 h'), hgl]
  obtain ⟨hadd, hoff'⟩ := off_add m.tree a G hoff s.next ((s.readable ++ bytes).take (saveLen n (s.readable ++ bytes).length))
  have hdis := discard_at (feed m.buf bytes n).1 (flat s.parked)
    ((s.readable ++ bytes).take (saveLen n (s.readable ++ bytes).length)) [] _
    (sidx G ((s.readable ++ bytes).take (saveLen n (s.readable ++ bytes).length)))
    (by rw [List.append_nil]; exact hf1)
    (by intro hne; unfold sidx; rw [if_neg hne, hgl])
    hs0 (Int.le_trans hs1 (by rw [← hgl]; exact Int.ofNat_le.mpr (by simp)))
  simp only [List.append_nil] at hdis
  obtain ⟨_, _, b', r', hd1, hd2⟩ := hdis
  rw [← hf2'] at hadd hd1
  by_cases hlim : sidx G ((s.readable ++ bytes).take (saveLen n (s.readable ++ bytes).length)) + psum a m.tree.length
      ≥ m.tree.length
  · -- index space used up: error, the slot just saved is discarded
    rw [if_pos hlim] at hadd
    have hstep : Model.Slots.step m (.add bytes n) =
        ({ m with buf := b' }, .add (feed m.buf bytes n).2.Index (feed m.buf bytes n).2.Length true 0 0 (flat s.parked)) := by
      unfold Model.Slots.step
      dsimp only
      rw [hadd]
      dsimp only
      rw [hd1]
      dsimp only
      rw [saved_of_bufOk hd2]
    rw [hstep]
    refine ⟨_, spec_add s bytes n _ _ true 0 0 _ (fun _ => ?_) rfl, a, G, c1, c2, hpk, hgone, hd2, hoff, hlive, hnext, hfresh, hnodup⟩
    unfold IndexSpaceUsedUp; rw [hgl, hgone, ← c1]; omega
  · rw [if_neg hlim] at hadd
    have hstep : Model.Slots.step m (.add bytes n) =
        ({ m with buf := (feed m.buf bytes n).1,
                  live := m.live ++ [(m.next, ⟨sidx G ((s.readable ++ bytes).take (saveLen n (s.readable ++ bytes).length)) +
                    psum a m.tree.length, ((s.readable ++ bytes).take (saveLen n (s.readable ++ bytes).length)).length⟩)],
                  next := m.next + 1 },
          .add (feed m.buf bytes n).2.Index (feed m.buf bytes n).2.Length false
            (sidx G ((s.readable ++ bytes).take (saveLen n (s.readable ++ bytes).length)) + psum a m.tree.length)
            ((s.readable ++ bytes).take (saveLen n (s.readable ++ bytes).length)).length
            (flat s.parked ++ (s.readable ++ bytes).take (saveLen n (s.readable ++ bytes).length))) := by
      unfold Model.Slots.step
      dsimp only
      rw [hadd]
      dsimp only
      rw [saved_of_bufOk hf1]
    rw [hstep]
    have hflat' : flat (s.parked ++ [(s.next, (s.readable ++ bytes).take (saveLen n (s.readable ++ bytes).length))]) =
        flat s.parked ++ (s.readable ++ bytes).take (saveLen n (s.readable ++ bytes).length) := by
      rw [flat_append]; simp [flat]
    have htot0 : 0 ≤ psum a m.tree.length := psum_nonneg a hoff.nonneg _
    refine ⟨_, spec_add s bytes n _ _ false _ _ _ (by simp) hflat'.symm,
      a, G ++ [⟨s.next, (sidx G ((s.readable ++ bytes).take (saveLen n (s.readable ++ bytes).length)) + psum a m.tree.length).toNat,
        (s.readable ++ bytes).take (saveLen n (s.readable ++ bytes).length)⟩], c1, c2, ?_, hgone, ?_, hoff' hlim, ?_, ?_, ?_, ?_⟩
    · show s.parked ++ _ = _
      rw [toParked_append, hpk]; rfl
    · show BufOk (feed m.buf bytes n).1 (flat (s.parked ++ [(s.next, _)])) _
      rw [hflat']; exact hf1
    · show m.live ++ _ = _
      unfold toLive
      rw [List.map_append, ← toLive, ← hlive, hnext]
      simp only [List.map_cons, List.map_nil]
      congr 4
      omega
    · show m.next + 1 = s.next + 1
      rw [hnext]
    · intro g hg
      show g.seq < s.next + 1
      rcases List.mem_append.mp hg with hg | hg
      · have := hfresh g hg; omega
      · simp only [List.mem_singleton] at hg; subst hg; show s.next < s.next + 1; omega
    · rw [List.pairwise_append]
      refine ⟨hnodup, by simp, ?_⟩
      intro g hg b hb
      simp only [List.mem_singleton] at hb; subst hb
      have := hfresh g hg
      show g.seq ≠ s.next
      omega

theorem step_off (m : St) (s : S) (h : Int) (hR : Roff m s) :
    ∃ s', Spec.Slots.step s (.off h) (Model.Slots.step m (.off h)).2 = some s' ∧
          Roff (Model.Slots.step m (.off h)).1 s' := by
  obtain ⟨a, G, c1, c2, hpk, hgone, hbuf, hoff, hlive, hnext, hfresh, hnodup⟩ := hR
  by_cases hin : ∃ g ∈ G, g.seq = h
  · obtain ⟨g, hg, rfl⟩ := hin
    obtain ⟨G1, G2, rfl⟩ := List.append_of_mem hg
    obtain ⟨hu1, hu2⟩ := nodup_unique hnodup
    obtain ⟨idx, hoffs, hi1, hi2, hi3, hoff', hpsn⟩ := off_offset m.tree a G1 G2 g hoff (by rw [c1]; exact c2)
    have hflat : flat s.parked = flat (toParked G1) ++ g.bytes ++ flat (toParked G2) := by
      rw [hpk, toParked_append, flat_append]
      show _ ++ (g.bytes ++ flat (toParked G2)) = _
      rw [List.append_assoc]
    have hbuf' := hbuf
    rw [hflat] at hbuf'
    have hlen1 : (flat (toParked G1)).length = glen G1 := rfl
    obtain ⟨hslice, hsl, b', r', hd1, hd2⟩ := discard_at m.buf _ _ _ _ idx hbuf'
      (by intro hne; rw [hlen1]; exact hi1 hne) hi2
      (by rw [← hflat, hpk]; exact hi3)
    have hrest : without s.parked g.seq = toParked (G1 ++ G2) := by
      rw [hpk]; exact without_toParked G1 G2 g hu1 hu2
    have hflat' : flat (toParked (G1 ++ G2)) = flat (toParked G1) ++ flat (toParked G2) := by
      rw [toParked_append, flat_append]
    have hlook : s.parked.lookup g.seq = some g.bytes := by
      rw [hpk]; exact lookup_toParked_some G1 G2 g hu1
    have hlive' : m.live.lookup g.seq = some ⟨(g.o : Int), (g.bytes.length : Int)⟩ := by
      rw [hlive]; exact lookup_toLive_some G1 G2 g hu1
    have hstep : Model.Slots.step m (.off g.seq) =
        ({ m with buf := b', tree := m.tree.add g.o g.bytes.length, live := m.live.filter (fun p => p.1 != g.seq) },
          .off idx g.bytes.length (some g.bytes) (flat (toParked G1) ++ flat (toParked G2))) := by
      unfold Model.Slots.step
      dsimp only
      rw [hlive']
      dsimp only
      rw [hoffs]
      dsimp only
      rw [hd1]
      dsimp only
      rw [hsl, saved_of_bufOk hd2]
    rw [hstep]
    refine ⟨{ s with parked := without s.parked g.seq, gone := s.gone + g.bytes.length }, ?_,
      upd a g.o g.bytes.length, G1 ++ G2, ?_, c2, hrest, ?_, ?_, hoff', ?_, hnext, ?_, ?_⟩
    · unfold Spec.Slots.step
      dsimp only
      rw [hlook]
      dsimp only
      rw [if_pos ⟨⟨by rw [hflat]; exact hslice, rfl⟩, by rw [hrest, hflat']⟩]
    · show ((m.tree.add _ _).length : Int) = _
      rw [add_length]; exact c1
    · show s.gone + (g.bytes.length : Int) = psum _ (m.tree.add _ _).length
      rw [add_length, hpsn, hgone]
    · show BufOk b' (flat (without s.parked g.seq)) s.readable
      rw [hrest, hflat']; exact hd2
    · show m.live.filter _ = _
      rw [hlive]; exact filter_toLive G1 G2 g hu1 hu2
    · intro x hx
      apply hfresh
      rcases List.mem_append.mp hx with h1 | h1
      · exact List.mem_append_left _ h1
      · exact List.mem_append_right _ (List.mem_cons_of_mem _ h1)
    · rw [List.pairwise_append, List.pairwise_cons] at hnodup
      rw [List.pairwise_append]
      exact ⟨hnodup.1, hnodup.2.1.2, fun x hx y hy => hnodup.2.2 x hx y (List.mem_cons_of_mem _ hy)⟩
  · have hl1 : m.live.lookup h = none := by rw [hlive]; exact lookup_toLive_none G h hin
    have hl2 : s.parked.lookup h = none := by rw [hpk]; exact lookup_toParked_none G h hin
    have hstep : Model.Slots.step m (.off h) = (m, .skip) := by
      unfold Model.Slots.step
      dsimp only
      rw [hl1]
    rw [hstep]
    refine ⟨s, ?_, a, G, c1, c2, hpk, hgone, hbuf, hoff, hlive, hnext, hfresh, hnodup⟩
    unfold Spec.Slots.step
    dsimp only
    rw [hl2]; rfl

theorem step_reset (m : St) (s : S) (hR : Roff m s) :
    ∃ s', Spec.Slots.step s .reset (Model.Slots.step m .reset).2 = some s' ∧
          Roff (Model.Slots.step m .reset).1 s' := by
  obtain ⟨a, G, c1, c2, hpk, hgone, hbuf, hoff, hlive, hnext, hfresh, hnodup⟩ := hR
  cases G with
  | nil =>
    have hl : m.live = [] := hlive
    have hp : s.parked = [] := hpk
    have hstep : Model.Slots.step m .reset = ({ m with tree := m.tree.reset }, .unit) := by
      unfold Model.Slots.step
      dsimp only
      rw [if_pos hl]
    rw [hstep]
    refine ⟨{ s with gone := 0 }, ?_, fun _ => 0, [], ?_, c2, hpk, (psum_zero _).symm, hbuf, off_reset _, hlive, hnext, hfresh, hnodup⟩
    · unfold Spec.Slots.step
      dsimp only
      rw [if_pos hp]
    · show ((m.tree.reset).length : Int) = _
      rw [reset_length]; exact c1
  | cons g r =>
    have hl : m.live ≠ [] := by rw [hlive]; simp [toLive]
    have hp : s.parked ≠ [] := by rw [hpk]; simp [toParked]
    have hstep : Model.Slots.step m .reset = (m, .skip) := by
      unfold Model.Slots.step
      dsimp only
      rw [if_neg hl]
    rw [hstep]
    refine ⟨s, ?_, a, g :: r, c1, c2, hpk, hgone, hbuf, hoff, hlive, hnext, hfresh, hnodup⟩
    unfold Spec.Slots.step
    dsimp only
    rw [if_neg hp]

theorem step_refines_off (m : St) (s : S) (op : Op) (hR : Roff m s) (hop : OpOkOff op) :
    ∃ s', Spec.Slots.step s op (Model.Slots.step m op).2 = some s' ∧ Roff (Model.Slots.step m op).1 s' := by
  cases op with
  | park _ _ _ => exact absurd hop id
  | take _ => exact absurd hop id
  | add bytes n => exact step_add m s bytes n hR
  | off h => exact step_off m s h hR
  | reset => exact step_reset m s hR
  | resetAll => exact absurd hop id

theorem run_accepted_off (m : St) (s : S) (ops : List Op) (hR : Roff m s) (hops : ∀ op ∈ ops, OpOkOff op) :
    accepts s (run m ops) = true := by
  induction ops generalizing m s with
  | nil => rfl
  | cons op r ih =>
    obtain ⟨s', h1, h2⟩ := step_refines_off m s op hR (hops op (List.mem_cons_self ..))
    simp only [run, accepts, h1]
    exact ih _ _ h2 (fun o ho => hops o (List.mem_cons_of_mem _ ho))

/-- **C20 for the bare `SlotOffsetter`.** For every size of the offsetter and every interleaving of
`add` (every packet size, index space used up or not), `off` (held slots in any order, unknown
handles) and `reset` (when nothing is held), the slot `Offset` returns addresses exactly the bytes
saved under that handle, discarding it removes exactly those bytes and leaves every other packet in
place, an error is returned only when the index space is used up, and nothing panics. -/
theorem C20_offsetter_addresses_saved_bytes (maxBytes : Int) (h0 : 0 ≤ maxBytes) (h1 : maxBytes ≤ Go.I64MAX)
    (ops : List Op) (hops : ∀ op ∈ ops, OpOkOff op) :
    accepts (Spec.Slots.init 0 maxBytes) (run (Model.Slots.init 0 maxBytes) ops) = true := by
  apply run_accepted_off _ _ ops _ hops
  refine ⟨fun _ => 0, [], ?_, h1, rfl, (psum_zero _).symm, ⟨rfl, rfl, rfl⟩, off_new maxBytes, rfl, rfl, ?_, List.Pairwise.nil⟩
  · show ((Tree.new maxBytes).length : Int) = maxBytes
    rw [new_length]; omega
  · intro g hg; cases hg

/-! ## `fenwick_prefix_sum` -/

/-- After any sequence of `Add`s on a fresh tree of `n` cells, `SumUntil(i)` is the sum of the first
`i+1` cells, where cell `x` holds everything that was added at `x`.  Both loops are fuel recursions
whose fuel (`len` for `Add`, `i+1` for `SumUntil`) is shown sufficient because the index strictly
increases (`i < i | (i+1)`) respectively decreases (`i & (i+1) ≤ i`): the loops terminate. -/
theorem fenwick_prefix_sum (n : Nat) (adds : List (Nat × Int)) (i : Nat) (hi : i < n) :
    (applyAdds (Tree.new n) adds).sumUntil i =
      psum (fun x => ((adds.filter (fun p => p.1 == x)).map (·.2)).sum) (i + 1) := by
  obtain ⟨hf, hl⟩ := fen_applyAdds adds (Tree.new n) (fun _ => 0) (fen_new n)
  rw [sumUntil_spec _ _ hf i (by rw [hl, new_length]; simpa using hi)]
  congr 1
  funext x
  rw [addsTo_eq]; simp

/-- `Sum()` is the sum of all cells. -/
theorem fenwick_sum (n : Nat) (adds : List (Nat × Int)) :
    (applyAdds (Tree.new n) adds).sum = psum (fun x => ((adds.filter (fun p => p.1 == x)).map (·.2)).sum) n := by
  obtain ⟨hf, hl⟩ := fen_applyAdds adds (Tree.new n) (fun _ => 0) (fen_new n)
  rw [sum_spec _ _ hf, hl, new_length]
  congr 1
  funext x
  rw [addsTo_eq]; simp

/-! ## Non-vacuity: the hypotheses are met by non-trivial scripts, and the monitor does reject
wrong behaviour (so acceptance is not trivial). -/

example : CfgOk 4 64 := by decide

/-- out of order, never draining until the end, a duplicate, a miss, the slot limit, an empty
packet, a `Save` of fewer bytes than were written -/
def demo : List Op :=
  [.park 5 [0x51, 0x52] 2, .park 2 [0x21, 0x22, 0x23] 3, .park 9 [0x91] 1, .take 2, .park 5 [0xff] 1,
   .park 3 [0x31, 0x32] 2, .take 7, .take 5, .park 1 [0x11] 1, .park 4 [] 0, .park 6 [0x61] 1,
   .take 9, .take 3, .take 4, .take 1, .park 8 [0x81, 0x82, 0x83] 2, .park 7 [0x71] 9, .take 8, .take 7]

/-- the bare offsetter: out of order, an empty packet, an unknown handle, a reset -/
def demoOff : List Op :=
  [.add [0xa1] 1, .add [0xb1, 0xb2] 2, .add [0xc1, 0xc2, 0xc3] 3, .off 1, .add [] 0, .off 2, .off 7, .reset,
   .off 3, .off 0, .reset, .add [0xd1] 1, .off 4]

example : ∀ op ∈ demo, OpOk op := by decide
example : accepts (Spec.Slots.init 4 64) (run (Model.Slots.init 4 64) demo) = true := by decide
example : ∀ op ∈ demoOff, OpOkOff op := by decide
example : accepts (Spec.Slots.init 0 8) (run (Model.Slots.init 0 8) demoOff) = true := by decide

-- a slot that is off by one byte, a discard that removes the wrong packet, an accepted duplicate,
-- an error without a limit, a wrong byte count: all rejected
def twoParked : S := { Spec.Slots.init 4 64 with parked := [(1, [0xaa]), (2, [0xbb, 0xcc])] }
example : Spec.Slots.step twoParked (.take 2) (.take true 0 2 (some [0xaa, 0xbb]) 1 1 [0xaa]) = none := by decide
example : Spec.Slots.step twoParked (.take 2) (.take true 1 2 (some [0xbb, 0xcc]) 1 1 [0xbb]) = none := by decide
example : Spec.Slots.step twoParked (.take 2) (.take true 1 2 (some [0xbb, 0xcc]) 1 1 [0xaa]) ≠ none := by decide
example : Spec.Slots.step twoParked (.park 2 [0xdd] 1) (.park 3 1 true false 4 3 [0xaa, 0xbb, 0xcc, 0xdd]) = none := by decide
example : Spec.Slots.step twoParked (.park 3 [0xdd] 1) (.park 3 1 false true 3 2 [0xaa, 0xbb, 0xcc]) = none := by decide
example : Spec.Slots.step twoParked (.park 3 [0xdd] 1) (.park 3 1 true false 3 3 [0xaa, 0xbb, 0xcc, 0xdd]) = none := by decide

end Sonic.Props.C20
