/-
C16 — every frame the WebSocket client writes is well-formed and correctly masked.

Frame level: the model of `AcquireFrame … SetPayload … prepareWrite/MaskPayload … Encode` (`Model/WsEncode.lean`,
`Model/WsWritePath.lean: buildFrame`) for an ARBITRARY pooled slice; the wire bytes are compared with the reference
encoder of `Spec/WsFrame.lean` and the well-formedness predicate `FrameOk` of the wire monitor (`Spec/WsWire.lean`).
Stream level: `Model/WsWritePath.lean` (pending queue, blocking and asynchronous flush, partial writes).
-/
import Sonic.Lemmas.WsEncodeModel
import Sonic.Lemmas.WsWritePathInv
import Sonic.Props.WsFrameTie

namespace Sonic.Props.C16
open Sonic.Model.WsBuf Sonic.Model.WsFrame Sonic.Model.WsEncode Sonic.Model.WsWritePath Sonic.Spec.WsFrame
open Sonic.Spec.WsWire (Req FrameOk xorKey)

/-- What `AcquireFrame` may hand out: a slice of at least 2 bytes (the header) inside a backing array of at least
14 bytes (`NewFrame` allocates 14, `ExtendSlice` never lowers the capacity) whose first byte is zero (`Reset`);
everything else — the second byte, the length, all other contents — is arbitrary. -/
def Pooled (f : PFrame) : Prop := 2 ≤ f.len ∧ f.len ≤ f.arr.length ∧ 14 ≤ f.arr.length ∧ f.arr.getD 0 0 = 0

theorem pooled_cases {f : PFrame} (h : Pooled f) :
    ∃ a1 rest, f = ⟨0 :: a1 :: rest, f.len⟩ ∧ 12 ≤ rest.length ∧ f.len ≤ 2 + rest.length := by
  obtain ⟨arr, len⟩ := f
  obtain ⟨h2, hl, h14, h0⟩ := h
  dsimp only at *
  match arr, h14, h0, hl with
  | a0 :: a1 :: rest, h14, h0, hl =>
    simp only [List.getD_cons_zero] at h0
    subst h0
    refine ⟨a1, rest, rfl, ?_, ?_⟩ <;> simp only [List.length_cons] at h14 hl <;> omega

/-- **Wire format, frames with a payload** (application messages, caller-built frames with `SetPayload`, Pong, Close):
for every pooled slice, FIN, opcode, payload and key, the bytes handed to the transport are exactly the RFC 6455
encoding (`encode`: mask bit set, shortest length form, 4-byte key, masked payload — nothing after it) of a frame
that un-masks to the caller's bytes. -/
theorem C16_wire_format (pooled : PFrame) (hp : Pooled pooled) (fin : Bool) (c : UInt8) (b key : List UInt8)
    (hn : b.length < 2 ^ 63) (hk : key.length = 4) :
    ∃ fr : Frame, buildFrame pooled fin c (some b) key = .ok (encode fr, decide (b.length > 0)) ∧
      FrameOk ⟨fin, c.toNat % 16, b⟩ fr := by
  obtain ⟨a1, rest, hf, h12, hlen⟩ := pooled_cases hp
  obtain ⟨h2, _, _, _⟩ := hp
  rw [hf]
  obtain ⟨M0, C0, hM0, hSP⟩ := setPayload_eq (hb0 fin c) (a1 ||| 0x80) rest b pooled.len h2 hlen h12 (or80_and80 a1) hn
  have hok := hdrOk b.length hn
  -- evaluate the header setters
  have hhead : ∀ (k : PFrame → M (List UInt8 × Bool)),
      (do let f ← PFrame.SetIsMasked ⟨0 :: a1 :: rest, pooled.len⟩
          let f ← if fin then f.SetFIN else pure f
          let f ← f.SetOpcode c
          k f) = k ⟨hb0 fin c :: (a1 ||| 0x80) :: rest, pooled.len⟩ := by
    intro k
    unfold PFrame.SetIsMasked PFrame.SetFIN PFrame.SetOpcode hb0
    rw [modify1 _ _ _ _ _ (by omega)]
    cases fin <;> simp only [ebind_ok, epure, if_true, if_false, Bool.false_eq_true, modify0 _ _ _ _ _ (show 0 < pooled.len by omega)]
  unfold buildFrame
  rw [hhead]
  simp only [hSP, ebind_ok]
  -- prepareWrite: MaskPayload
  unfold PFrame.SetIsMasked
  rw [modify1 _ _ _ _ _ (by omega), or80_idem]
  simp only [ebind_ok]
  rw [layout_bytes _ _ _ _ _ _ hM0, (layout_offsets _ _ _ M0 b b.length hok).2]
  simp only [ebind_ok]
  have hmp := maskPayload_eq (hb0 fin c) ((0x80 : UInt8) ||| len7 b.length) (extBytes b.length) M0 b C0
    key b.length hok (or80_idem _) hM0 (fun _ => hk)
  by_cases hpos : b.length > 0
  · have hnk : decide (2 + (extBytes b.length).length + 4 + b.length > 2 + (extBytes b.length).length + 4) = true := by
      simp only [decide_eq_true_eq]; omega
    simp only [hnk, if_pos hpos, if_true] at hmp ⊢
    rw [if_neg (by simp [hk])]
    simp only [hmp, ebind_ok]
    have hw := wire_eq (hb0 fin c) ((0x80 : UInt8) ||| len7 b.length) (extBytes b.length) key (maskBytes key b) C0 b.length hok hk
      (by rw [length_maskBytes]; exact Nat.le_refl _)
    rw [length_maskBytes] at hw
    rw [hw]
    simp only [ebind_ok, epure, decide_eq_true hpos]
    have ht : (maskBytes key b).take b.length = maskBytes key b := by
      rw [← length_maskBytes key b, List.take_length]
    rw [ht]
    refine ⟨{ fin := fin, rsv1 := false, rsv2 := false, rsv3 := false, opcode := c.toNat % 16, masked := true, mask := key,
              payload := maskBytes key b }, ?_, rfl, hk, rfl, rfl, rfl, rfl, rfl, ?_⟩
    · rw [encode_masked fin c key (maskBytes key b) (by rw [length_maskBytes]; exact hn), length_maskBytes]
    · show xorKey key (maskBytes key b) = b
      rw [xorKey_eq_maskBytes, maskBytes_involution]
  · have hz : b.length = 0 := by omega
    have hnk : decide (2 + (extBytes b.length).length + 4 + b.length > 2 + (extBytes b.length).length + 4) = false := by
      simp only [decide_eq_false_iff_not]; omega
    simp only [hnk, if_neg hpos, Bool.false_eq_true, if_false] at hmp ⊢
    rw [if_neg (by simp)]
    simp only [hmp, ebind_ok]
    have hw := wire_eq (hb0 fin c) ((0x80 : UInt8) ||| len7 b.length) (extBytes b.length) M0 b C0 b.length hok hM0 (Nat.le_refl _)
    rw [hw]
    simp only [ebind_ok, epure, List.take_length, decide_eq_false hpos]
    have hb : b = [] := List.eq_nil_of_length_eq_zero hz
    refine ⟨{ fin := fin, rsv1 := false, rsv2 := false, rsv3 := false, opcode := c.toNat % 16, masked := true, mask := M0,
              payload := b }, ?_, rfl, hM0, rfl, rfl, rfl, rfl, rfl, ?_⟩
    · rw [encode_masked fin c M0 b hn]
    · show xorKey M0 b = b
      rw [hb]; rfl

/-- **Wire format, frames built without `SetPayload`** (the defect repaired by 2ffe590: an empty Ping after a 300-byte
message wrote 308 bytes): whatever length and contents the pooled slice has, exactly the 6 header bytes of an empty
masked frame are written. -/
theorem C16_wire_format_no_payload (pooled : PFrame) (hp : Pooled pooled) (h6 : 6 ≤ pooled.len)
    (h1 : pooled.arr.getD 1 0 = 0) (fin : Bool) (c : UInt8) (key : List UInt8) (hk : key.length = 4) :
    ∃ fr : Frame, buildFrame pooled fin c none key = .ok (encode fr, decide (pooled.len > 6)) ∧
      (encode fr).length = 6 ∧ FrameOk ⟨fin, c.toNat % 16, []⟩ fr := by
  obtain ⟨a1, rest, hf, h12, hlen⟩ := pooled_cases hp
  obtain ⟨h2, _, _, _⟩ := hp
  have ha1 : a1 = 0 := by rw [hf] at h1; simpa using h1
  subst ha1
  rw [hf]
  generalize pooled.len = L at *
  have hok := hdrOk 0 (by decide)
  have e1 : ((0x80 : UInt8) ||| len7 0) = 0x80 := by decide
  have e2 : extBytes 0 = [] := rfl
  rw [e1, e2] at hok
  -- the slice: 4 bytes where the key goes, the stale payload slice, the rest of the backing array
  obtain ⟨M0, S, C0, hrest, hM0, hL⟩ : ∃ M0 S C0 : List UInt8,
      rest = [] ++ M0 ++ S ++ C0 ∧ M0.length = 4 ∧ L = 2 + ([] : List UInt8).length + 4 + S.length := by
    refine ⟨rest.take 4, (rest.drop 4).take (L - 6), (rest.drop 4).drop (L - 6), ?_, ?_, ?_⟩
    · simp only [List.nil_append, List.append_assoc, List.take_append_drop]
    · rw [List.length_take]; omega
    · rw [List.length_take, List.length_drop]; simp only [List.length_nil]; omega
  subst hrest
  subst hL
  have hpos_iff : (2 + ([] : List UInt8).length + 4 + S.length > 6) ↔ S.length > 0 := by simp only [List.length_nil]; omega
  have hhead : ∀ (k : PFrame → M (List UInt8 × Bool)),
      (do let f ← PFrame.SetIsMasked ⟨0 :: 0 :: ([] ++ M0 ++ S ++ C0), 2 + ([] : List UInt8).length + 4 + S.length⟩
          let f ← if fin then f.SetFIN else pure f
          let f ← f.SetOpcode c
          k f) = k ⟨hb0 fin c :: ((0 : UInt8) ||| 0x80) :: ([] ++ M0 ++ S ++ C0), 2 + ([] : List UInt8).length + 4 + S.length⟩ := by
    intro k
    unfold PFrame.SetIsMasked PFrame.SetFIN PFrame.SetOpcode hb0
    rw [modify1 _ _ _ _ _ (by omega)]
    cases fin <;> simp only [ebind_ok, epure, if_true, if_false, Bool.false_eq_true,
      modify0 _ _ _ _ _ (show 0 < 2 + ([] : List UInt8).length + 4 + S.length by omega)]
  unfold buildFrame
  rw [hhead]
  have e3 : ((0 : UInt8) ||| 0x80) = 0x80 := by decide
  simp only [ebind_ok, epure, e3]
  unfold PFrame.SetIsMasked
  rw [modify1 _ _ _ _ _ (by omega)]
  have e4 : ((0x80 : UInt8) ||| 0x80) = 0x80 := by decide
  simp only [ebind_ok, e4]
  rw [layout_bytes _ _ _ _ _ _ hM0, (layout_offsets _ _ _ M0 S 0 hok).2]
  simp only [ebind_ok]
  have hmp := maskPayload_eq (hb0 fin c) (0x80 : UInt8) [] M0 S C0 key 0 hok e4 hM0 (fun _ => hk)
  by_cases hpos : S.length > 0
  · have hnk : decide (2 + ([] : List UInt8).length + 4 + S.length > 2 + ([] : List UInt8).length + 4) = true := by
      simp only [decide_eq_true_eq]; omega
    simp only [hnk, if_pos hpos, if_true] at hmp ⊢
    rw [if_neg (by simp [hk])]
    simp only [hmp, ebind_ok]
    have hw := wire_eq (hb0 fin c) (0x80 : UInt8) [] key (maskBytes key S) C0 0 hok hk (Nat.zero_le _)
    rw [length_maskBytes] at hw
    rw [hw]
    simp only [ebind_ok, epure, List.take_zero, List.append_nil, List.nil_append, decide_eq_true (hpos_iff.mpr hpos)]
    refine ⟨{ fin := fin, rsv1 := false, rsv2 := false, rsv3 := false, opcode := c.toNat % 16, masked := true, mask := key,
              payload := [] }, ?_, ?_, rfl, hk, rfl, rfl, rfl, rfl, rfl, rfl⟩
    · rw [encode_masked fin c key [] (by decide)]
      simp only [List.length_nil, e1, e2, List.append_nil, List.nil_append]
    · rw [encode_masked fin c key [] (by decide)]
      simp only [List.length_nil, e2, List.append_nil, List.nil_append, List.length_cons, hk]
  · have hnk : decide (2 + ([] : List UInt8).length + 4 + S.length > 2 + ([] : List UInt8).length + 4) = false := by
      simp only [decide_eq_false_iff_not]; omega
    simp only [hnk, if_neg hpos, Bool.false_eq_true, if_false] at hmp ⊢
    rw [if_neg (by simp)]
    simp only [hmp, ebind_ok]
    have hw := wire_eq (hb0 fin c) (0x80 : UInt8) [] M0 S C0 0 hok hM0 (Nat.zero_le _)
    rw [hw]
    simp only [ebind_ok, epure, List.take_zero, List.append_nil, List.nil_append, decide_eq_false (fun h => hpos (hpos_iff.mp h))]
    refine ⟨{ fin := fin, rsv1 := false, rsv2 := false, rsv3 := false, opcode := c.toNat % 16, masked := true, mask := M0,
              payload := [] }, ?_, ?_, rfl, hM0, rfl, rfl, rfl, rfl, rfl, rfl⟩
    · rw [encode_masked fin c M0 [] (by decide)]
      simp only [List.length_nil, e1, e2, List.append_nil, List.nil_append]
    · rw [encode_masked fin c M0 [] (by decide)]
      simp only [List.length_nil, e2, List.append_nil, List.nil_append, List.length_cons, hM0]

/-- **`Mask` is an involution** (util.go `Mask(mask, b)`: `b[i] ^= mask[i&3]`): un-masking what was masked with the same
key gives the caller's bytes back, for every key (of any length) and every byte string. -/
theorem C16_mask_involution (key b : List UInt8) : maskBytes key (maskBytes key b) = b := maskBytes_involution key b

/-! ## Stream level -/

/-- **A message above the configured maximum is refused**: `Write`/`AsyncWrite` report `ErrMessageTooBig`, nothing is
written, nothing is queued, the stream is unchanged. -/
theorem C16_refuse_above_max (s : WS) (id : Nat) (async : Bool) (opcode : UInt8) (payload : List UInt8) (keys : List (List UInt8))
    (h : (payload.length : Int) > s.max) :
    ∃ o, Model.WsWritePath.step s id (.write async opcode payload keys) = .ok (some (s, o)) ∧ o.wire = [] ∧ o.segs = [] ∧
      (if async then o.cbs = [(id, Err.tooBig)] ∧ o.res = none else o.res = some Err.tooBig ∧ o.cbs = []) := by
  simp only [Model.WsWritePath.step]
  rw [if_pos h]
  cases async <;> exact ⟨_, rfl, rfl, rfl, by simp⟩

/-- The request an operation submits. -/
def reqOf : WOp → Option Req
  | .write _ oc p _ => some ⟨true, oc.toNat % 16, p⟩
  | .frame _ oc fin p _ _ => some ⟨fin, oc.toNat % 16, p.getD []⟩
  | .close _ code reason _ => some ⟨true, 8, beBytes 2 (code % 65536) ++ reason⟩
  | _ => none

/-- Usage the theorems cover: payloads are Go slices (shorter than 2^61), and a caller-built frame comes from
`AcquireFrame` of a client stream, whose slices always hold the 6 header bytes. -/
def OpOk : WOp → Prop
  | .write _ _ p _ => p.length < 2 ^ 61
  | .frame _ _ _ p flen _ => (p.getD []).length < 2 ^ 61 ∧ 6 ≤ flen
  | .close _ _ r _ => r.length + 2 < 2 ^ 61
  | _ => True

theorem pooled_new : Pooled PFrame.new := by
  refine ⟨by decide, by decide, by decide, by decide⟩

theorem pooled_pooledFrame (n : Nat) (h : 2 ≤ n) : Pooled (pooledFrame n) ∧ (pooledFrame n).arr.getD 1 0 = 0 := by
  unfold Pooled pooledFrame
  dsimp only
  have hm : 14 ≤ max n 14 := Nat.le_max_right _ _
  have hn : n ≤ max n 14 := Nat.le_max_left _ _
  obtain ⟨k, hk⟩ : ∃ k, max n 14 = k + 2 := ⟨max n 14 - 2, by omega⟩
  rw [List.length_replicate, hk]
  refine ⟨⟨h, by omega, by omega, ?_⟩, ?_⟩ <;> simp [List.replicate_succ]

/-- What `buildFrame` yields for any of the three submitting operations. -/
theorem buildFrame_ok (pooled : PFrame) (hp : Pooled pooled) (h1 : pooled.arr.getD 1 0 = 0) (h6 : 6 ≤ pooled.len) (fin : Bool) (c : UInt8)
    (p : Option (List UInt8)) (hn : (p.getD []).length < 2 ^ 61) (key : List UInt8) (hk : key.length = 4) (r : List UInt8 × Bool)
    (h : buildFrame pooled fin c p key = .ok r) :
    ∃ fr : Frame, r.1 = encode fr ∧ FrameOk ⟨fin, c.toNat % 16, p.getD []⟩ fr := by
  have h63 : (p.getD []).length < 2 ^ 63 := Nat.lt_trans hn (by decide)
  cases p with
  | some b =>
    obtain ⟨fr, hfr, hok⟩ := C16_wire_format pooled hp fin c b key h63 hk
    rw [hfr] at h; cases h
    exact ⟨fr, rfl, hok⟩
  | none =>
    obtain ⟨fr, hfr, _, hok⟩ := C16_wire_format_no_payload pooled hp h6 h1 fin c key hk
    rw [hfr] at h; cases h
    exact ⟨fr, rfl, hok⟩

theorem buildChecked_ok (pooled : PFrame) (hp : Pooled pooled) (h1 : pooled.arr.getD 1 0 = 0) (h6 : 6 ≤ pooled.len) (fin : Bool)
    (c : UInt8) (p : Option (List UInt8)) (hn : (p.getD []).length < 2 ^ 61) (keys : List (List UInt8)) (fr : List UInt8)
    (h : buildChecked pooled fin c p keys = .ok fr) :
    ∃ f : Frame, fr = encode f ∧ FrameOk ⟨fin, c.toNat % 16, p.getD []⟩ f := by
  unfold buildChecked at h
  by_cases hk : (keys.headD [0, 0, 0, 0]).length = 4
  · rw [if_neg (by simpa using hk)] at h
    cases hb : buildFrame pooled fin c p (keys.headD [0, 0, 0, 0]) with
    | error e => rw [hb] at h; cases h
    | ok r =>
      rw [hb] at h
      simp only [ebind_ok] at h
      obtain ⟨f, hf, hok⟩ := buildFrame_ok pooled hp h1 h6 fin c p hn _ hk r hb
      split at h
      · cases h; exact ⟨f, hf, hok⟩
      · cases h
  · rw [if_pos hk] at h; cases h

/-- Every frame ever queued is the reference encoding of a well-formed masked frame carrying a request. -/
def HistOk (s : WS) : Prop :=
  ∃ rs : List (Req × Frame), s.hist = rs.map (fun p => encode p.2) ∧ ∀ p ∈ rs, FrameOk p.1 p.2 ∧ p.1.payload.length < 2 ^ 61 ∧ p.1.opcode < 16

theorem histOk_snoc {s s' : WS} {fr : List UInt8} {r : Req} {f : Frame} (h : HistOk s) (hh : s'.hist = s.hist ++ [fr])
    (hf : fr = encode f) (hok : FrameOk r f) (hl : r.payload.length < 2 ^ 61) (ho : r.opcode < 16) : HistOk s' := by
  obtain ⟨rs, h1, h2⟩ := h
  refine ⟨rs ++ [(r, f)], by rw [hh, h1, hf]; simp, ?_⟩
  intro p hp
  rcases List.mem_append.mp hp with h | h
  · exact h2 p h
  · simp only [List.mem_singleton] at h; rw [h]; exact ⟨hok, hl, ho⟩

/-- **One operation** keeps the stream invariant and the well-formedness of everything queued; a blocking call that
returns `nil` leaves nothing queued and nothing in flight. -/
theorem step_ok {s : WS} (id : Nat) (op : WOp) (hop : OpOk op) (hI : s.Inv) (hH : HistOk s) {s' : WS} {o : Out}
    (h : Model.WsWritePath.step s id op = .ok (some (s', o))) :
    s'.Inv ∧ HistOk s' ∧ s'.max = s.max ∧ (o.res = some Err.nil → s'.Quiescent) := by
  have hsame : ∀ {t : WS}, t.hist = s.hist → HistOk t := fun ht => by
    obtain ⟨rs, h1, h2⟩ := hH; exact ⟨rs, by rw [ht]; exact h1, h2⟩
  cases op with
  | plan l =>
    simp only [Model.WsWritePath.step, epure, Except.ok.injEq, Option.some.injEq, Prod.mk.injEq] at h
    obtain ⟨rfl, rfl⟩ := h
    exact ⟨hI, hsame rfl, rfl, fun hc => by cases hc⟩
  | defer b =>
    simp only [Model.WsWritePath.step, epure, Except.ok.injEq, Option.some.injEq, Prod.mk.injEq] at h
    obtain ⟨rfl, rfl⟩ := h
    exact ⟨hI, hsame rfl, rfl, fun hc => by cases hc⟩
  | pump =>
    simp only [Model.WsWritePath.step, epure, Except.ok.injEq, Option.some.injEq] at h
    have := asyncRun_inv (2 * s.pending.length + 4) s {} false hI (fun hc => by cases hc)
    have hr := asyncRun_res (2 * s.pending.length + 4) s {} false
    rw [h] at this hr
    exact ⟨this.1, hsame this.2.1, this.2.2.1, fun hc => by rw [hr] at hc; cases hc⟩
  | flush async =>
    simp only [Model.WsWritePath.step] at h
    cases async with
    | true =>
      simp only [if_true, epure, Except.ok.injEq, Option.some.injEq] at h
      have := asyncFlush_inv {} id hI
      have hr := asyncFlush_res s {} id
      rw [h] at this hr
      exact ⟨this.1, hsame this.2.1, this.2.2.1, fun hc => by rw [hr] at hc; cases hc⟩
    | false =>
      simp only [Bool.false_eq_true, if_false] at h
      split at h
      · cases h
      · rename_i hnf
        have hnone : s.inflight = none := by
          cases hi : s.inflight with
          | none => rfl
          | some w => exact absurd (Or.inl (by rw [hi]; rfl)) hnf
        cases hfs : flushSync s {} with
        | none => rw [hfs] at h; cases h
        | some r =>
          obtain ⟨s2, o2⟩ := r
          rw [hfs] at h
          simp only [Option.map_some, epure, Except.ok.injEq, Option.some.injEq, Prod.mk.injEq] at h
          obtain ⟨rfl, rfl⟩ := h
          obtain ⟨hi2, hq2⟩ := flushSync_inv hI hnone hfs
          obtain ⟨_, _, _, a4, _, _, a7, _⟩ := flushSync_spec hfs
          exact ⟨hi2, hsame a4, a7, fun _ => hq2⟩
  | write async oc p keys =>
    simp only [Model.WsWritePath.step] at h
    split at h
    · simp only [epure, Except.ok.injEq, Option.some.injEq, Prod.mk.injEq] at h
      obtain ⟨rfl, rfl⟩ := h
      exact ⟨hI, hsame rfl, rfl, fun hc => by cases async <;> simp at hc⟩
    · split at h
      · cases hb : buildChecked PFrame.new true oc (some p) keys with
        | error e => rw [hb] at h; cases h
        | ok fr =>
          rw [hb] at h
          simp only [ebind_ok, epure, Except.ok.injEq] at h
          obtain ⟨f, hf, hok⟩ := buildChecked_ok PFrame.new pooled_new (by decide) (by decide) true oc (some p) hop keys fr hb
          obtain ⟨i1, i2, i3, i4, i5⟩ := submit_inv {} async id fr hI h
          refine ⟨i1, histOk_snoc hH i2 hf hok hop (Nat.mod_lt _ (by decide)), i3, fun hc => ?_⟩
          cases async with
          | false => exact (i4 rfl).1
          | true => rw [i5 rfl] at hc; cases hc
      · simp only [epure, Except.ok.injEq, Option.some.injEq, Prod.mk.injEq] at h
        obtain ⟨rfl, rfl⟩ := h
        exact ⟨hI, hsame rfl, rfl, fun hc => by cases async <;> simp at hc⟩
  | frame async oc fin p flen keys =>
    simp only [Model.WsWritePath.step] at h
    obtain ⟨hlen, h6⟩ := hop
    split at h
    · cases hb : buildChecked (pooledFrame flen) fin oc p keys with
      | error e => rw [hb] at h; cases h
      | ok fr =>
        rw [hb] at h
        simp only [ebind_ok, epure, Except.ok.injEq] at h
        obtain ⟨hpp, hp1⟩ := pooled_pooledFrame flen (by omega)
        obtain ⟨f, hf, hok⟩ := buildChecked_ok (pooledFrame flen) hpp hp1 h6 fin oc p hlen keys fr hb
        obtain ⟨i1, i2, i3, i4, i5⟩ := submit_inv {} async id fr hI h
        refine ⟨i1, histOk_snoc hH i2 hf hok hlen (Nat.mod_lt _ (by decide)), i3, fun hc => ?_⟩
        cases async with
        | false => exact (i4 rfl).1
        | true => rw [i5 rfl] at hc; cases hc
    · simp only [epure, Except.ok.injEq, Option.some.injEq, Prod.mk.injEq] at h
      obtain ⟨rfl, rfl⟩ := h
      exact ⟨hI, hsame rfl, rfl, fun hc => by cases async <;> simp at hc⟩
  | close async code reason keys =>
    simp only [Model.WsWritePath.step] at h
    split at h
    · cases hb : buildChecked PFrame.new true 8 (some (beBytes 2 (code % 65536) ++ reason)) keys with
      | error e => rw [hb] at h; cases h
      | ok fr =>
        rw [hb] at h
        simp only [ebind_ok, epure, Except.ok.injEq] at h
        have hl : (beBytes 2 (code % 65536) ++ reason).length < 2 ^ 61 := by
          rw [List.length_append, length_beBytes]; unfold OpOk at hop; omega
        obtain ⟨f, hf, hok⟩ := buildChecked_ok PFrame.new pooled_new (by decide) (by decide) true 8
          (some (beBytes 2 (code % 65536) ++ reason)) hl keys fr hb
        have hI0 : ({ s with active := false } : WS).Inv := hI
        obtain ⟨i1, i2, i3, i4, i5⟩ := submit_inv {} async id fr hI0 h
        refine ⟨i1, histOk_snoc hH i2 hf hok hl (Nat.mod_lt _ (by decide)), i3, fun hc => ?_⟩
        cases async with
        | false => exact (i4 rfl).1
        | true => rw [i5 rfl] at hc; cases hc
    · simp only [epure, Except.ok.injEq, Option.some.injEq, Prod.mk.injEq] at h
      obtain ⟨rfl, rfl⟩ := h
      exact ⟨hI, hsame rfl, rfl, fun hc => by cases async <;> simp at hc⟩

/-- **Order and completeness** for whole scripts (induction over the operation list; every payload, every partial-write
plan, blocking and asynchronous calls, deferred completion): at every moment the bytes the transport has accepted are a
PREFIX of the concatenation, in submission order, of the frames queued so far — so each frame is written completely
before the next begins and nothing else ever reaches the wire — every queued frame is the reference encoding of a
well-formed masked frame carrying its request, and when nothing is queued or in flight the wire is exactly that
concatenation. -/
theorem C16_order_complete : ∀ (ops : List WOp) (s : WS) (id : Nat) (s' : WS), (∀ op ∈ ops, OpOk op) → s.Inv → HistOk s →
    runOps s id ops = .ok (some s') →
    s'.Inv ∧ HistOk s' ∧ s'.out <+: s'.hist.flatten ∧ (s'.Quiescent → s'.out = s'.hist.flatten) := by
  intro ops
  induction ops with
  | nil =>
    intro s id s' _ hI hH h
    simp only [runOps, epure, Except.ok.injEq, Option.some.injEq] at h
    subst h
    exact ⟨hI, hH, inv_prefix hI, inv_quiescent hI⟩
  | cons op rest ih =>
    intro s id s' hops hI hH h
    unfold runOps at h
    cases hs : Model.WsWritePath.step s id op with
    | error e => rw [hs] at h; cases h
    | ok r =>
      rw [hs] at h
      simp only [ebind_ok] at h
      cases r with
      | none => simp only [epure] at h; cases h
      | some p =>
        obtain ⟨s1, o1⟩ := p
        dsimp only at h
        obtain ⟨i1, i2, _, _⟩ := step_ok id op (hops op (List.mem_cons_self ..)) hI hH hs
        exact ih s1 (id + 1) s' (fun o ho => hops o (List.mem_cons_of_mem _ ho)) i1 i2 h

/-- From a fresh stream. -/
theorem C16_order_complete_init (max : Int) (ops : List WOp) (s' : WS) (hops : ∀ op ∈ ops, OpOk op)
    (h : runOps (WS.init max) 0 ops = .ok (some s')) :
    s'.out <+: s'.hist.flatten ∧ (s'.Quiescent → s'.out = s'.hist.flatten) ∧ HistOk s' := by
  obtain ⟨_, a2, a3, a4⟩ := C16_order_complete ops (WS.init max) 0 s' hops (init_inv max) ⟨[], rfl, fun p hp => by cases hp⟩ h
  exact ⟨a3, a4, a2⟩

/-- **The independent parser recovers the submitted frames**: once nothing is queued or in flight, the RFC 6455 frame
sequence of the complete outgoing byte stream is a list of well-formed masked frames, one per accepted submission and
in submission order, each un-masking to its request's payload — and no byte is left over. -/
theorem C16_wire_parses (max : Int) (ops : List WOp) (s' : WS) (hops : ∀ op ∈ ops, OpOk op)
    (h : runOps (WS.init max) 0 ops = .ok (some s')) (hq : s'.Quiescent) :
    ∃ rs : List (Req × Frame), (∀ p ∈ rs, FrameOk p.1 p.2) ∧
      frames Spec.WsWire.parseMax s'.out = (rs.map (·.2), .needMore) := by
  obtain ⟨_, hall, ⟨rs, h1, h2⟩⟩ := C16_order_complete_init max ops s' hops h
  refine ⟨rs, fun p hp => (h2 p hp).1, ?_⟩
  rw [hall hq, h1]
  have : (rs.map fun p => encode p.2).flatten = (rs.map (·.2)).flatMap encode := by
    rw [List.flatMap_def, List.map_map]; rfl
  rw [this]
  apply frames_encode
  intro f hf
  obtain ⟨p, hp, rfl⟩ := List.mem_map.mp hf
  obtain ⟨hok, hl, hopc⟩ := h2 p hp
  obtain ⟨m1, m2, _, _, _, _, m7, m8⟩ := hok
  have hlen : p.2.payload.length = p.1.payload.length := by
    rw [← m8, xorKey_eq_maskBytes, length_maskBytes]
  refine ⟨⟨?_, by rw [m1]; exact m2, by rw [hlen]; exact Nat.lt_trans hl (by decide)⟩, ?_⟩
  · rw [m7]; exact hopc
  · rw [hlen]; unfold Spec.WsWire.parseMax; omega

/-! ## Non-vacuity -/

def exKey : List UInt8 := [0x11, 0x22, 0x33, 0x44]

set_option maxRecDepth 20000 in
/-- A pooled slice that was last used for a 300-byte message (308 bytes long), reused for an empty Ping without
`SetPayload`: 6 bytes go to the write buffer (before 2ffe590: 308). -/
example : (buildFrame (pooledFrame 308) true 9 none exKey).toOption = some ([0x89, 0x80, 0x11, 0x22, 0x33, 0x44], true) := by decide

set_option maxRecDepth 20000 in
/-- A pooled slice shrunk to 7 bytes by a 1-byte message, reused for a 200-byte one (16-bit length form): the header is
re-extended first (before a5639d2 the 64-bit form panicked here). -/
example : ((buildFrame ⟨List.replicate 14 0, 7⟩ true 2 (some (List.replicate 200 7)) exKey).toOption.map (·.1.take 8))
    = some [0x82, 0xfe, 0x00, 0xc8, 0x11, 0x22, 0x33, 0x44] := by decide

def exScript : List WOp :=
  [.plan [1, 2, 100], .write false 1 [0x68, 0x69] [exKey], .frame false 9 true none 8 [exKey], .defer true,
   .write true 2 [] [], .pump, .pump]

theorem run_of_toOption {r : M (Option WS)} {s : WS} (h : r.toOption.join = some s) : r = .ok (some s) := by
  cases r with
  | error e => cases h
  | ok v => cases v with
    | none => cases h
    | some t => simp only [Except.toOption, Option.join_some, Option.some.injEq] at h; rw [h]

/-- The hypotheses of `C16_order_complete` / `C16_wire_parses` hold for a script mixing partial writes, a blocking
message, a caller-built Ping without payload, and a deferred asynchronous empty message: the run succeeds, ends with
nothing queued or in flight, and the wire is the three frames in order. -/
example : (∀ op ∈ exScript, OpOk op) ∧
    ((runOps (WS.init 1000) 0 exScript).toOption.join.map fun s => (s.pending, s.inflight, s.out)) =
      some ([], none, [0x81, 0x82, 0x11, 0x22, 0x33, 0x44, 0x79, 0x4b] ++ [0x89, 0x80, 0x11, 0x22, 0x33, 0x44] ++ [0x82, 0x80, 0, 0, 0, 0]) := by
  constructor
  · intro op hop
    simp only [exScript, List.mem_cons, List.mem_nil_iff, or_false] at hop
    rcases hop with rfl | rfl | rfl | rfl | rfl | rfl | rfl <;> simp [OpOk]
  · decide

/-- The monitor is not trivial: stale bytes after an empty Ping, a frame without mask bit, and a 16-bit length for a short
payload are all rejected. -/
example : (Sonic.Spec.WsWire.step (Sonic.Spec.WsWire.init 1000) (.submit 0 false ⟨true, 9, []⟩)
    ⟨.ok, [], [0x89, 0x80, 1, 2, 3, 4, 0xaa, 0xbb]⟩).toOption = none := by decide
example : (Sonic.Spec.WsWire.step (Sonic.Spec.WsWire.init 1000) (.submit 0 true ⟨true, 1, [0x68]⟩)
    ⟨.ok, [], [0x81, 0x01, 0x68]⟩).toOption = none := by decide
example : (Sonic.Spec.WsWire.step (Sonic.Spec.WsWire.init 1000) (.submit 0 true ⟨true, 1, [0x68]⟩)
    ⟨.ok, [], [0x81, 0xfe, 0x00, 0x01, 0, 0, 0, 0, 0x68]⟩).toOption = none := by decide
example : (Sonic.Spec.WsWire.step (Sonic.Spec.WsWire.init 1000) (.submit 0 true ⟨true, 1, [0x68]⟩)
    ⟨.ok, [], [0x81, 0x81, 0, 0, 0, 0, 0x68]⟩).toOption ≠ none := by decide

end Sonic.Props.C16
