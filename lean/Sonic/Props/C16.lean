/-
C16 — every frame the WebSocket client writes is well-formed and correctly masked.

Frame level: the model of `AcquireFrame … SetPayload … prepareWrite/MaskPayload … Encode` (`Model/WsEncode.lean`,
`Model/WsStream.lean: buildFrame`) for an ARBITRARY pooled slice; the wire bytes are compared with the reference
encoder of `Spec/WsFrame.lean` and the well-formedness predicate `FrameOk` of the wire monitor (`Spec/WsWire.lean`).
Stream level: `Model/WsStream.lean` (pending queue, blocking and asynchronous flush, partial writes).
-/
import Sonic.Lemmas.WsEncodeModel

namespace Sonic.Props.C16
open Sonic.Model.WsBuf Sonic.Model.WsFrame Sonic.Model.WsEncode Sonic.Model.WsStream Sonic.Spec.WsFrame
open Sonic.Spec.WsWire (Req FrameOk xorKey)

/-- What `AcquireFrame` may hand out: a slice of at least 2 bytes (the header) inside a backing array of at least
14 bytes (`NewFrame` allocates 14, `ExtendSlice` never lowers the capacity) whose first byte is zero (`Reset`);
everything else — the second byte, the length, all other contents — is arbitrary. -/
def Pooled (f : PFrame) : Prop := 2 ≤ f.len ∧ f.len ≤ f.arr.length ∧ 14 ≤ f.arr.length ∧ f.arr.getD 0 0 = 0

theorem pooled_cases {f : PFrame} (h : Pooled f) :
    ∃ a1 rest, f = ⟨0 :: a1 :: rest, f.len⟩ ∧ 12 ≤ rest.length ∧ f.len ≤ 2 + rest.length := by
  obtain ⟨arr, len⟩ := f
  obtain ⟨h2, hl, h14, h0⟩ := h
  dsimp only at *
  match arr, h14, h0, hl with
  | a0 :: a1 :: rest, h14, h0, hl =>
    simp only [List.getD_cons_zero] at h0
    subst h0
    refine ⟨a1, rest, rfl, ?_, ?_⟩ <;> simp only [List.length_cons] at h14 hl <;> omega

/-- **Wire format, frames with a payload** (application messages, caller-built frames with `SetPayload`, Pong, Close):
for every pooled slice, FIN, opcode, payload and key, the bytes handed to the transport are exactly the RFC 6455
encoding (`encode`: mask bit set, shortest length form, 4-byte key, masked payload — nothing after it) of a frame
that un-masks to the caller's bytes. -/
theorem C16_wire_format (pooled : PFrame) (hp : Pooled pooled) (fin : Bool) (c : UInt8) (b key : List UInt8)
    (hn : b.length < 2 ^ 63) (hk : key.length = 4) :
    ∃ fr : Frame, buildFrame pooled fin c (some b) key = .ok (encode fr, decide (b.length > 0)) ∧
      FrameOk ⟨fin, c.toNat % 16, b⟩ fr := by
  obtain ⟨a1, rest, hf, h12, hlen⟩ := pooled_cases hp
  obtain ⟨h2, _, _, _⟩ := hp
  rw [hf]
  obtain ⟨M0, C0, hM0, hSP⟩ := setPayload_eq (hb0 fin c) (a1 ||| 0x80) rest b pooled.len h2 hlen h12 (or80_and80 a1) hn
  have hok := hdrOk b.length hn
  -- evaluate the header setters
  have hhead : ∀ (k : PFrame → M (List UInt8 × Bool)),
      (do let f ← PFrame.SetIsMasked ⟨0 :: a1 :: rest, pooled.len⟩
          let f ← if fin then f.SetFIN else pure f
          let f ← f.SetOpcode c
          k f) = k ⟨hb0 fin c :: (a1 ||| 0x80) :: rest, pooled.len⟩ := by
    intro k
    unfold PFrame.SetIsMasked PFrame.SetFIN PFrame.SetOpcode hb0
    rw [modify1 _ _ _ _ _ (by omega)]
    cases fin <;> simp only [ebind_ok, epure, if_true, if_false, Bool.false_eq_true, modify0 _ _ _ _ _ (show 0 < pooled.len by omega)]
  unfold buildFrame
  rw [hhead]
  simp only [hSP, ebind_ok]
  -- prepareWrite: MaskPayload
  unfold PFrame.SetIsMasked
  rw [modify1 _ _ _ _ _ (by omega), or80_idem]
  simp only [ebind_ok]
  rw [layout_bytes _ _ _ _ _ _ hM0, (layout_offsets _ _ _ M0 b b.length hok).2]
  simp only [ebind_ok]
  have hmp := maskPayload_eq (hb0 fin c) ((0x80 : UInt8) ||| len7 b.length) (extBytes b.length) M0 b C0
    key b.length hok (or80_idem _) hM0 (fun _ => hk)
  by_cases hpos : b.length > 0
  · have hnk : decide (2 + (extBytes b.length).length + 4 + b.length > 2 + (extBytes b.length).length + 4) = true := by
      simp only [decide_eq_true_eq]; omega
    simp only [hnk, if_pos hpos, if_true] at hmp ⊢
    rw [if_neg (by simp [hk])]
    simp only [hmp, ebind_ok]
    have hw := wire_eq (hb0 fin c) ((0x80 : UInt8) ||| len7 b.length) (extBytes b.length) key (maskBytes key b) C0 b.length hok hk
      (by rw [length_maskBytes]; exact Nat.le_refl _)
    rw [length_maskBytes] at hw
    rw [hw]
    simp only [ebind_ok, epure, decide_eq_true hpos]
    have ht : (maskBytes key b).take b.length = maskBytes key b := by
      rw [← length_maskBytes key b, List.take_length]
    rw [ht]
    refine ⟨{ fin := fin, rsv1 := false, rsv2 := false, rsv3 := false, opcode := c.toNat % 16, masked := true, mask := key,
              payload := maskBytes key b }, ?_, rfl, hk, rfl, rfl, rfl, rfl, rfl, ?_⟩
    · rw [encode_masked fin c key (maskBytes key b) (by rw [length_maskBytes]; exact hn), length_maskBytes]
    · show xorKey key (maskBytes key b) = b
      rw [xorKey_eq_maskBytes, maskBytes_involution]
  · have hz : b.length = 0 := by omega
    have hnk : decide (2 + (extBytes b.length).length + 4 + b.length > 2 + (extBytes b.length).length + 4) = false := by
      simp only [decide_eq_false_iff_not]; omega
    simp only [hnk, if_neg hpos, Bool.false_eq_true, if_false] at hmp ⊢
    rw [if_neg (by simp)]
    simp only [hmp, ebind_ok]
    have hw := wire_eq (hb0 fin c) ((0x80 : UInt8) ||| len7 b.length) (extBytes b.length) M0 b C0 b.length hok hM0 (Nat.le_refl _)
    rw [hw]
    simp only [ebind_ok, epure, List.take_length, decide_eq_false hpos]
    have hb : b = [] := List.eq_nil_of_length_eq_zero hz
    refine ⟨{ fin := fin, rsv1 := false, rsv2 := false, rsv3 := false, opcode := c.toNat % 16, masked := true, mask := M0,
              payload := b }, ?_, rfl, hM0, rfl, rfl, rfl, rfl, rfl, ?_⟩
    · rw [encode_masked fin c M0 b hn]
    · show xorKey M0 b = b
      rw [hb]; rfl

/-- **Wire format, frames built without `SetPayload`** (the defect repaired by 2ffe590: an empty Ping after a 300-byte
message wrote 308 bytes): whatever length and contents the pooled slice has, exactly the 6 header bytes of an empty
masked frame are written. -/
theorem C16_wire_format_no_payload (pooled : PFrame) (hp : Pooled pooled) (h6 : 6 ≤ pooled.len)
    (h1 : pooled.arr.getD 1 0 = 0) (fin : Bool) (c : UInt8) (key : List UInt8) (hk : key.length = 4) :
    ∃ fr : Frame, buildFrame pooled fin c none key = .ok (encode fr, decide (pooled.len > 6)) ∧
      (encode fr).length = 6 ∧ FrameOk ⟨fin, c.toNat % 16, []⟩ fr := by
  obtain ⟨a1, rest, hf, h12, hlen⟩ := pooled_cases hp
  obtain ⟨h2, _, _, _⟩ := hp
  have ha1 : a1 = 0 := by rw [hf] at h1; simpa using h1
  subst ha1
  rw [hf]
  generalize pooled.len = L at *
  have hok := hdrOk 0 (by decide)
  have e1 : ((0x80 : UInt8) ||| len7 0) = 0x80 := by decide
  have e2 : extBytes 0 = [] := rfl
  rw [e1, e2] at hok
  -- the slice: 4 bytes where the key goes, the stale payload slice, the rest of the backing array
  obtain ⟨M0, S, C0, hrest, hM0, hL⟩ : ∃ M0 S C0 : List UInt8,
      rest = [] ++ M0 ++ S ++ C0 ∧ M0.length = 4 ∧ L = 2 + ([] : List UInt8).length + 4 + S.length := by
    refine ⟨rest.take 4, (rest.drop 4).take (L - 6), (rest.drop 4).drop (L - 6), ?_, ?_, ?_⟩
    · simp only [List.nil_append, List.append_assoc, List.take_append_drop]
    · rw [List.length_take]; omega
    · rw [List.length_take, List.length_drop]; simp only [List.length_nil]; omega
  subst hrest
  subst hL
  have hpos_iff : (2 + ([] : List UInt8).length + 4 + S.length > 6) ↔ S.length > 0 := by simp only [List.length_nil]; omega
  have hhead : ∀ (k : PFrame → M (List UInt8 × Bool)),
      (do let f ← PFrame.SetIsMasked ⟨0 :: 0 :: ([] ++ M0 ++ S ++ C0), 2 + ([] : List UInt8).length + 4 + S.length⟩
          let f ← if fin then f.SetFIN else pure f
          let f ← f.SetOpcode c
          k f) = k ⟨hb0 fin c :: ((0 : UInt8) ||| 0x80) :: ([] ++ M0 ++ S ++ C0), 2 + ([] : List UInt8).length + 4 + S.length⟩ := by
    intro k
    unfold PFrame.SetIsMasked PFrame.SetFIN PFrame.SetOpcode hb0
    rw [modify1 _ _ _ _ _ (by omega)]
    cases fin <;> simp only [ebind_ok, epure, if_true, if_false, Bool.false_eq_true,
      modify0 _ _ _ _ _ (show 0 < 2 + ([] : List UInt8).length + 4 + S.length by omega)]
  unfold buildFrame
  rw [hhead]
  have e3 : ((0 : UInt8) ||| 0x80) = 0x80 := by decide
  simp only [ebind_ok, epure, e3]
  unfold PFrame.SetIsMasked
  rw [modify1 _ _ _ _ _ (by omega)]
  have e4 : ((0x80 : UInt8) ||| 0x80) = 0x80 := by decide
  simp only [ebind_ok, e4]
  rw [layout_bytes _ _ _ _ _ _ hM0, (layout_offsets _ _ _ M0 S 0 hok).2]
  simp only [ebind_ok]
  have hmp := maskPayload_eq (hb0 fin c) (0x80 : UInt8) [] M0 S C0 key 0 hok e4 hM0 (fun _ => hk)
  by_cases hpos : S.length > 0
  · have hnk : decide (2 + ([] : List UInt8).length + 4 + S.length > 2 + ([] : List UInt8).length + 4) = true := by
      simp only [decide_eq_true_eq]; omega
    simp only [hnk, if_pos hpos, if_true] at hmp ⊢
    rw [if_neg (by simp [hk])]
    simp only [hmp, ebind_ok]
    have hw := wire_eq (hb0 fin c) (0x80 : UInt8) [] key (maskBytes key S) C0 0 hok hk (Nat.zero_le _)
    rw [length_maskBytes] at hw
    rw [hw]
    simp only [ebind_ok, epure, List.take_zero, List.append_nil, List.nil_append, decide_eq_true (hpos_iff.mpr hpos)]
    refine ⟨{ fin := fin, rsv1 := false, rsv2 := false, rsv3 := false, opcode := c.toNat % 16, masked := true, mask := key,
              payload := [] }, ?_, ?_, rfl, hk, rfl, rfl, rfl, rfl, rfl, rfl⟩
    · rw [encode_masked fin c key [] (by decide)]
      simp only [List.length_nil, e1, e2, List.append_nil, List.nil_append]
    · rw [encode_masked fin c key [] (by decide)]
      simp only [List.length_nil, e2, List.append_nil, List.nil_append, List.length_cons, hk]
  · have hnk : decide (2 + ([] : List UInt8).length + 4 + S.length > 2 + ([] : List UInt8).length + 4) = false := by
      simp only [decide_eq_false_iff_not]; omega
    simp only [hnk, if_neg hpos, Bool.false_eq_true, if_false] at hmp ⊢
    rw [if_neg (by simp)]
    simp only [hmp, ebind_ok]
    have hw := wire_eq (hb0 fin c) (0x80 : UInt8) [] M0 S C0 0 hok hM0 (Nat.zero_le _)
    rw [hw]
    simp only [ebind_ok, epure, List.take_zero, List.append_nil, List.nil_append, decide_eq_false (fun h => hpos (hpos_iff.mp h))]
    refine ⟨{ fin := fin, rsv1 := false, rsv2 := false, rsv3 := false, opcode := c.toNat % 16, masked := true, mask := M0,
              payload := [] }, ?_, ?_, rfl, hM0, rfl, rfl, rfl, rfl, rfl, rfl⟩
    · rw [encode_masked fin c M0 [] (by decide)]
      simp only [List.length_nil, e1, e2, List.append_nil, List.nil_append]
    · rw [encode_masked fin c M0 [] (by decide)]
      simp only [List.length_nil, e2, List.append_nil, List.nil_append, List.length_cons, hM0]

end Sonic.Props.C16
