/-
C10 — BipBuffer is a FIFO of contiguous chunks whose claims never overlap queued data.

Theorems are stated about `Sonic.Gen.BipBuffer`, the definitions regenerated from bip_buffer.go on
every run, and about the abstract monitor `Sonic.Spec.Bip` (a queue of byte cells).
-/
import Sonic.Lemmas.BipFacts

namespace Sonic.Props.C10
open Sonic.Gen.BipBuffer Sonic.Spec.Bip Sonic.Model.Bip

/-! ## Refinement: the implementation model is accepted by the byte-queue monitor -/

/-- Coupling between implementation state and monitor state. -/
def R (b : BipBuffer) (s : S) : Prop :=
  Inv b ∧ s.size = b.size ∧ s.q = cells b.head (b.tail - b.head) ++ cells 0 b.wrappedTail ∧
  s.cLen = b.claimTail - b.claimHead ∧ (0 < s.cLen → s.cLo = b.claimHead)

/-- Arguments are non-negative Go `int`s (what C10 quantifies over). -/
def OpOk : Op → Prop
  | .claim n | .commit n | .consume n => 0 ≤ n ∧ n ≤ Go.I64MAX
  | _ => True

theorem q_nil_iff {b : BipBuffer} (hi : Inv b) :
    cells b.head (b.tail - b.head) ++ cells 0 b.wrappedTail = [] ↔ b.head = b.tail := by
  unfold Inv at hi
  constructor
  · intro h
    have := congrArg List.length h
    simp at this; omega
  · intro h
    have h1 : b.wrappedTail = 0 := by omega
    rw [cells_nonpos (by omega), cells_nonpos (by omega)]; rfl

theorem imin_eq (a b : Int) : imin a b = if a ≤ b then a else b := rfl

theorem step_claim (b : BipBuffer) (s : S) (n : Int) (hR : R b s) (hn : 0 ≤ n) (hn' : n ≤ Go.I64MAX) :
    ∃ s', Spec.Bip.step s (.claim n) (Model.Bip.step b (.claim n)).2 = some s' ∧
          R (Model.Bip.step b (.claim n)).1 s' := by
  obtain ⟨hi, hsz, hq, hcl, hclo⟩ := hR
  obtain ⟨hi', hv, e1, e2, e3, e4, l1, l2, l3, l4⟩ := claim_facts b n hi hn hn' _ rfl
  have hi0 := hi
  unfold Inv at hi0
  have hempty : s.q = [] → (b.Claim n).2.hi - (b.Claim n).2.lo = imin n s.size := by
    intro hq0
    rw [hq, q_nil_iff hi] at hq0
    have := l4 hq0
    rw [imin_eq, hsz]; exact this
  dsimp only [Model.Bip.step, obsView]
  rw [hv]
  by_cases hlen : (b.Claim n).2.hi - (b.Claim n).2.lo ≤ 0
  · rw [if_neg (by simp), if_pos hlen]
    dsimp only [Spec.Bip.step]
    have hcond : ClaimOk s n 0 0 := by
      refine ⟨by omega, hn, Or.inl rfl, fun c _ => by omega, ?_⟩
      intro hq0
      have := hempty hq0
      have h2 : 0 ≤ imin n s.size := by rw [imin_eq]; split <;> omega
      omega
    rw [if_pos hcond]
    refine ⟨_, rfl, hi', by rw [e1]; exact hsz, by rw [e2, e3, e4]; exact hq, ?_, ?_⟩
    · show (0:Int) = _; rw [l2, if_pos hlen]
    · intro h; exact absurd h (Int.lt_irrefl 0)
  · have hpos : 0 < (b.Claim n).2.hi - (b.Claim n).2.lo := by omega
    obtain ⟨p1, p2, p3, p4, p5⟩ := l3 hpos
    rw [if_neg (by simp), if_neg hlen]
    dsimp only [Spec.Bip.step]
    have hcond : ClaimOk s n (b.Claim n).2.lo ((b.Claim n).2.hi - (b.Claim n).2.lo) := by
      refine ⟨by omega, l1, Or.inr ⟨p2, by omega⟩, ?_, hempty⟩
      intro c hc
      rw [hq, List.mem_append, mem_cells, mem_cells] at hc
      omega
    rw [if_pos hcond]
    refine ⟨_, rfl, hi', by rw [e1]; exact hsz, by rw [e2, e3, e4]; exact hq, ?_, ?_⟩
    · show _ = _; rw [l2, if_neg hlen]
    · intro _; exact p1

theorem step_commit (b : BipBuffer) (s : S) (n : Int) (hR : R b s) (hn : 0 ≤ n) (hn' : n ≤ Go.I64MAX) :
    ∃ s', Spec.Bip.step s (.commit n) (Model.Bip.step b (.commit n)).2 = some s' ∧
          R (Model.Bip.step b (.commit n)).1 s' := by
  obtain ⟨hi, hsz, hq, hcl, hclo⟩ := hR
  obtain ⟨hi', hv, e1, c1, c2, l1, l2, k0, kA, kB, kC⟩ := commit_facts b n hi hn hn' _ rfl
  have hi0 := hi
  unfold Inv at hi0
  have hk : (b.Commit n).2.hi - (b.Commit n).2.lo = imin n s.cLen := by rw [imin_eq, hcl]; exact l1
  have hk0 : 0 ≤ imin n s.cLen := by rw [imin_eq]; split <;> omega
  dsimp only [Model.Bip.step, obsView]
  rw [hv, if_neg (by simp)]
  by_cases hlen : (b.Commit n).2.hi - (b.Commit n).2.lo ≤ 0
  · rw [if_pos hlen]
    dsimp only [Spec.Bip.step]
    have hz : imin n s.cLen = 0 := by omega
    have hcond : CommitOk s n 0 0 := ⟨hz.symm, Or.inl hz⟩
    rw [if_pos hcond, hz, cells_nonpos (Int.le_refl 0), List.append_nil]
    obtain ⟨f1, f2, f3⟩ := k0 (by omega)
    refine ⟨_, rfl, hi', by rw [e1]; exact hsz, by rw [f1, f2, f3]; exact hq, ?_, ?_⟩
    · show (0:Int) = _; rw [c1, c2]; rfl
    · intro h; exact absurd h (Int.lt_irrefl 0)
  · have hpos : 0 < (b.Commit n).2.hi - (b.Commit n).2.lo := by omega
    rw [if_neg hlen]
    dsimp only [Spec.Bip.step]
    have hlo := l2 hpos
    have hcl0 : 0 < s.cLen := by rw [imin_eq] at hk; split at hk <;> omega
    have hcond : CommitOk s n (b.Commit n).2.lo ((b.Commit n).2.hi - (b.Commit n).2.lo) :=
      ⟨hk, Or.inr (by rw [hlo, hclo hcl0])⟩
    rw [if_pos hcond, ← hk, hclo hcl0]
    refine ⟨_, rfl, hi', by rw [e1]; exact hsz, ?_, ?_, ?_⟩
    · show s.q ++ cells b.claimHead _ = _
      rw [hq]
      by_cases hht : b.head = b.tail
      · obtain ⟨g0, g1, g2, g3⟩ := kA hpos hht
        rw [g1, g2, g3, g0, cells_nonpos (by omega : b.tail - b.head ≤ 0), cells_nonpos (Int.le_refl 0)]
        simp only [List.nil_append, List.append_nil]
        congr 1; omega
      · have hlt : b.head < b.tail := by omega
        by_cases hct : b.claimHead = b.tail
        · obtain ⟨g0, g1, g2, g3⟩ := kB hpos hlt hct
          rw [g1, g2, g3, g0, cells_nonpos (Int.le_refl 0), List.append_nil, List.append_nil, hct]
          have := @cells_append b.head (b.tail - b.head) ((b.Commit n).2.hi - (b.Commit n).2.lo) (by omega) (by omega)
          rw [show b.head + (b.tail - b.head) = b.tail by omega] at this
          rw [this]; congr 1; omega
        · obtain ⟨g0, g1, g2, g3⟩ := kC hpos hlt hct
          rw [g1, g2, g3, g0, List.append_assoc]
          have := @cells_append 0 b.wrappedTail ((b.Commit n).2.hi - (b.Commit n).2.lo) (by omega) (by omega)
          rw [Int.zero_add] at this
          rw [this]
    · show (0:Int) = _; rw [c1, c2]; rfl
    · intro h; exact absurd h (Int.lt_irrefl 0)

theorem runLen_q {b : BipBuffer} (hi : Inv b) :
    (runLen (cells b.head (b.tail - b.head) ++ cells 0 b.wrappedTail) : Int) = b.tail - b.head := by
  have hi0 := hi
  unfold Inv at hi0
  by_cases hht : b.head = b.tail
  · rw [(q_nil_iff hi).2 hht]; simp [runLen]; omega
  · have hlt : 0 < b.tail - b.head := by omega
    rw [runLen_cells_append hlt]
    · omega
    · rw [show b.head + (b.tail - b.head) = b.tail by omega]
      by_cases hw : 0 < b.wrappedTail
      · rw [cells_succ hw]; simp; omega
      · rw [cells_nonpos (by omega)]; simp

theorem step_head (b : BipBuffer) (s : S) (hR : R b s) :
    ∃ s', Spec.Bip.step s .head (Model.Bip.step b .head).2 = some s' ∧ R (Model.Bip.step b .head).1 s' := by
  obtain ⟨hi, hsz, hq, hcl, hclo⟩ := hR
  obtain ⟨hv, l1, l2⟩ := head_facts b hi _ rfl
  have hi0 := hi
  unfold Inv at hi0
  have hrun := runLen_q hi
  dsimp only [Model.Bip.step, obsView]
  rw [hv, if_neg (by simp)]
  by_cases hlen : b.Head.hi - b.Head.lo ≤ 0
  · rw [if_pos hlen]
    dsimp only [Spec.Bip.step]
    have hcond : HeadOk s 0 0 := ⟨by rw [hq, hrun]; omega, Or.inl rfl⟩
    rw [if_pos hcond]
    exact ⟨_, rfl, hi, hsz, hq, hcl, hclo⟩
  · rw [if_neg hlen]
    dsimp only [Spec.Bip.step]
    have hcond : HeadOk s b.Head.lo (b.Head.hi - b.Head.lo) := by
      refine ⟨by rw [hq, hrun]; exact l1, Or.inr ?_⟩
      rw [hq, head?_cells (by omega), l2 (by omega)]
    rw [if_pos hcond]
    exact ⟨_, rfl, hi, hsz, hq, hcl, hclo⟩

theorem step_consume (b : BipBuffer) (s : S) (n : Int) (hR : R b s) (hn : 0 ≤ n) (hn' : n ≤ Go.I64MAX) :
    ∃ s', Spec.Bip.step s (.consume n) (Model.Bip.step b (.consume n)).2 = some s' ∧
          R (Model.Bip.step b (.consume n)).1 s' := by
  obtain ⟨hi, hsz, hq, hcl, hclo⟩ := hR
  obtain ⟨hi', e1, c1, c2, kP, kQ⟩ := consume_facts b n hi hn hn' _ rfl
  have hi0 := hi
  unfold Inv at hi0
  have hrun := runLen_q hi
  dsimp only [Model.Bip.step, Spec.Bip.step]
  refine ⟨_, rfl, hi', by rw [e1]; exact hsz, ?_, by rw [c1, c2]; exact hcl, by rw [c1]; exact hclo⟩
  show s.q.drop _ = _
  rw [hq, imin_eq, hrun]
  by_cases hP : b.tail - b.head ≤ n
  · obtain ⟨g1, g2, g3⟩ := kP hP
    rw [g1, g2, g3]
    have : (if n ≤ b.tail - b.head then n else b.tail - b.head) = b.tail - b.head := by split <;> omega
    rw [this, List.drop_append_of_le_length (by simp), Int.sub_zero, cells_nonpos (Int.le_refl 0), List.append_nil]
    have hd := @drop_cells b.head (b.tail - b.head) (b.tail - b.head) (by omega) (Int.le_refl _)
    rw [hd, cells_nonpos (by omega)]; rfl
  · obtain ⟨g1, g2, g3⟩ := kQ (by omega)
    rw [g1, g2, g3]
    have : (if n ≤ b.tail - b.head then n else b.tail - b.head) = n := by split <;> omega
    rw [this, List.drop_append_of_le_length (by simp; omega)]
    have hd := @drop_cells b.head (b.tail - b.head) n hn (by omega)
    rw [hd, show b.tail - b.head - n = b.tail - (b.head + n) by omega]

theorem step_committed (b : BipBuffer) (s : S) (hR : R b s) :
    ∃ s', Spec.Bip.step s .committed (Model.Bip.step b .committed).2 = some s' ∧
          R (Model.Bip.step b .committed).1 s' := by
  have hR0 := hR
  obtain ⟨hi, hsz, hq, hcl, hclo⟩ := hR
  have hi0 := hi
  unfold Inv at hi0
  dsimp only [Model.Bip.step, Spec.Bip.step]
  have : b.Committed = (s.q.length : Int) := by
    rw [committed_facts b hi, hq]; simp; omega
  rw [if_pos this]
  exact ⟨_, rfl, hR0⟩

theorem step_reset (b : BipBuffer) (s : S) (hR : R b s) :
    ∃ s', Spec.Bip.step s .reset (Model.Bip.step b .reset).2 = some s' ∧
          R (Model.Bip.step b .reset).1 s' := by
  obtain ⟨hi, hsz, hq, hcl, hclo⟩ := hR
  obtain ⟨hi', e1, e2, e3, e4, e5, e6⟩ := reset_facts b hi
  dsimp only [Model.Bip.step, Spec.Bip.step]
  refine ⟨_, rfl, hi', by rw [e1]; exact hsz, ?_, ?_, ?_⟩
  · show [] = _; rw [e2, e3, e4]; rfl
  · show (0:Int) = _; rw [e5, e6]; rfl
  · intro h; exact absurd h (Int.lt_irrefl 0)

/-- One step of the implementation model is accepted by the monitor and preserves the coupling. -/
theorem step_refines (b : BipBuffer) (s : S) (op : Op) (hR : R b s) (hop : OpOk op) :
    ∃ s', Spec.Bip.step s op (Model.Bip.step b op).2 = some s' ∧ R (Model.Bip.step b op).1 s' := by
  cases op with
  | claim n => exact step_claim b s n hR hop.1 hop.2
  | commit n => exact step_commit b s n hR hop.1 hop.2
  | head => exact step_head b s hR
  | consume n => exact step_consume b s n hR hop.1 hop.2
  | committed => exact step_committed b s hR
  | reset => exact step_reset b s hR

theorem run_accepted (b : BipBuffer) (s : S) (ops : List Op) (hR : R b s) (hops : ∀ op ∈ ops, OpOk op) :
    accepts s (run b ops) = true := by
  induction ops generalizing b s with
  | nil => rfl
  | cons op r ih =>
    obtain ⟨s', h1, h2⟩ := step_refines b s op hR (hops op (List.mem_cons_self ..))
    simp only [run, accepts, h1]
    exact ih _ _ h2 (fun o ho => hops o (List.mem_cons_of_mem _ ho))

/-- **C10 (main theorem).** For every buffer size and every sequence of
Claim/Commit/Head/Consume/Committed/Reset calls with non-negative arguments, everything the
implementation (as translated from bip_buffer.go) returns is accepted by the byte-queue monitor:
claims never overlap queued cells, an empty buffer grants `min n size`, commits append exactly the
claimed prefix as one chunk, `Head` is the maximal contiguous run at the front, `Consume` frees the
oldest cells and `Committed` is the queue length. -/
theorem C10_fifo_of_contiguous_chunks (size : Int) (h0 : 0 ≤ size) (h1 : size ≤ Go.I64MAX)
    (ops : List Op) (hops : ∀ op ∈ ops, OpOk op) :
    accepts (Spec.Bip.init size) (run (Model.Bip.new size) ops) = true := by
  apply run_accepted _ _ _ _ hops
  refine ⟨inv_new size h0 h1, rfl, ?_, rfl, fun h => absurd h (Int.lt_irrefl 0)⟩
  show [] = _
  simp [Model.Bip.new, cells_nonpos]

/-- Claims never overlap queued data, stated outright on the model: for a reachable state the
cells of a non-empty claim are disjoint from both committed regions. -/
theorem C10_claim_disjoint (b : BipBuffer) (n : Int) (hi : Inv b) (hn : 0 ≤ n) (hn' : n ≤ Go.I64MAX)
    (c : Int) (hc : (b.Claim n).2.lo ≤ c ∧ c < (b.Claim n).2.hi) :
    ¬ (b.head ≤ c ∧ c < b.tail) ∧ ¬ (0 ≤ c ∧ c < b.wrappedTail) := by
  obtain ⟨_, _, _, _, _, _, _, _, l3, _⟩ := claim_facts b n hi hn hn' _ rfl
  have := l3 (by omega)
  omega

/-- An empty buffer always grants a claim of `min n size`. -/
theorem C10_empty_grants_full (b : BipBuffer) (n : Int) (hi : Inv b) (hn : 0 ≤ n) (hn' : n ≤ Go.I64MAX)
    (he : b.Committed = 0) : (b.Claim n).2.hi - (b.Claim n).2.lo = imin n b.size := by
  obtain ⟨_, _, _, _, _, _, _, _, _, l4⟩ := claim_facts b n hi hn hn' _ rfl
  rw [committed_facts b hi] at he
  unfold Inv at hi
  rw [imin_eq]; exact l4 (by omega)

/-- The invariant holds in every reachable state. -/
theorem C10_inv_reachable (size : Int) (h0 : 0 ≤ size) (h1 : size ≤ Go.I64MAX)
    (ops : List Op) (hops : ∀ op ∈ ops, OpOk op) :
    Inv (ops.foldl (fun b op => (Model.Bip.step b op).1) (Model.Bip.new size)) := by
  suffices ∀ b s, R b s → Inv (ops.foldl (fun b op => (Model.Bip.step b op).1) b) from
    this _ (Spec.Bip.init size) ⟨inv_new size h0 h1, rfl, by simp [Model.Bip.new, Spec.Bip.init, cells_nonpos], rfl,
      fun h => absurd h (Int.lt_irrefl 0)⟩
  induction ops with
  | nil => intro b s hR; exact hR.1
  | cons op r ih =>
    intro b s hR
    obtain ⟨s', _, h2⟩ := step_refines b s op hR (hops op (List.mem_cons_self ..))
    exact ih (fun o ho => hops o (List.mem_cons_of_mem _ ho)) _ s' h2

/-! Non-vacuity: concrete non-trivial reachable states meet the hypotheses, and the monitor does
reject wrong behaviour (so acceptance is not trivial). -/

example : Inv { size := 8, head := 4, tail := 8, wrappedHead := 0, wrappedTail := 2, claimHead := 2, claimTail := 4 } := by
  unfold Inv; simp [Go.I64MAX]

example : accepts (Spec.Bip.init 8)
    (run (Model.Bip.new 8) [.claim 6, .commit 6, .consume 4, .claim 4, .commit 3, .head, .committed, .consume 2, .head]) = true := by
  decide

-- the monitor rejects a claim overlapping queued data, and a short grant on an empty buffer
example : Spec.Bip.step { size := 8, q := [0, 1, 2], cLo := 0, cLen := 0 } (.claim 4) (.view 2 4) = none := by decide
example : Spec.Bip.step (Spec.Bip.init 8) (.claim 8) (.view 4 4) = none := by decide

end Sonic.Props.C10
